/-
  C17 (more, 2) — clause audit D, section C17:
  * `split_parts_readable_export`, `split_parts_readable_brackets` (clause 11): every part of a split is a file the reader of its
    format accepts, with the trees handed to that part; from `export_group_readable` / `brackets_group_readable`;
  * `parseParts_some_iff` (clause 7): the parser accepts exactly the texts of the grammar `Spec.WellFormedSpec`
    (`malformed_rejected`, `split_rejected_iff`);
  * `parsePart_render`, `parsePart_digits`, `split_sizes` (clauses 2-4): from the TEXT `N#`, `N%`, `rest` to the sizes;
    `sizesOf_remainder`: clause 4 in one statement;
  * `split_rejects_too_large` (clause 6, top level); `split_concat_enc` (clause 9, any encoding).
  New specification-side definitions: `TT/Spec/More12g.lean` (`PartText`, `WellFormedSpec`, `renderPart`).
-/
import TT.Spec.More12g
import TT.Lemmas.Run
import TT.Lemmas.More12g
import TT.Lemmas.RcgRT
import TT.Props.C17Run
import TT.Props.C03Run
import TT.Props.C18
import TT.Props.C18More
namespace TT.Props.C17More2
open TT TT.Tree TT.Spec TT.Lemmas.Run TT.Lemmas.GramOut
open TT.Lemmas.Proc TT.Props.C18

/-! ## the text of a part and its value -/

theorem rest_ne (d : Str) (c : Char) (hc : c ≠ 't') : d ++ [c] ≠ "rest".toList := by
  intro h
  have := congrArg List.getLast? h
  rw [List.getLast?_concat] at this
  simp at this
  exact hc this

/-- `<d>%` and `<d>#` mean what the digits `d` say (`none` when `d` is not a digit string) -/
theorem parsePart_digits (d : Str) :
    parsePart (d ++ ['%']) = (strToNat? d).map .pct ∧ parsePart (d ++ ['#']) = (strToNat? d).map .abs := by
  constructor
  · unfold parsePart
    rw [if_neg (rest_ne d '%' (by decide))]
    simp
  · unfold parsePart
    rw [if_neg (rest_ne d '#' (by decide))]
    simp

/-- the text `N#` is the absolute size `N`, `N%` the percentage `N`, `rest` the rest -/
theorem parsePart_render (n : Nat) :
    parsePart (natToStr n ++ ['#']) = some (.abs n) ∧ parsePart (natToStr n ++ ['%']) = some (.pct n) ∧
    parsePart "rest".toList = some .rest := by
  refine ⟨?_, ?_, by decide⟩
  · rw [(parsePart_digits _).2, strToNat_natToStr]; rfl
  · rw [(parsePart_digits _).1, strToNat_natToStr]; rfl

theorem parsePart_renderPart (p : Part) : parsePart (renderPart p) = some p := by
  cases p with
  | pct n => exact (parsePart_render n).2.1
  | abs n => exact (parsePart_render n).1
  | rest => exact (parsePart_render 0).2.2

example : parsePart "007%".toList = some (.pct 7) ∧ parsePart "12#".toList = some (.abs 12) ∧ parsePart "1.5%".toList = none ∧
    parsePart "%".toList = none := by decide


/-! ## from the text of a specification to the sizes -/

theorem parseParts_render : ∀ (ps : List Part) (b : Bool),
    (if b then ps.count .rest = 0 else ps.count .rest ≤ 1) → parseParts (ps.map renderPart) b = some ps
  | [], _, _ => rfl
  | p :: ps, b, h => by
    simp only [List.map_cons, parseParts, parsePart_renderPart]
    cases p with
    | rest =>
      cases b with
      | true => simp at h
      | false =>
        simp only [List.count_cons_self, Bool.false_eq_true, if_false] at h ⊢
        rw [parseParts_render ps true (by simp; omega)]; rfl
    | pct n =>
      simp only
      rw [parseParts_render ps b (by simpa using h)]; rfl
    | abs n =>
      simp only
      rw [parseParts_render ps b (by simpa using h)]; rfl

theorem underscore_not_mem_renderPart (p : Part) : '_' ∉ renderPart p := by
  have hd : ∀ n, '_' ∉ natToStr n := fun n hm => by
    have := natToStr_isDigit n '_' hm
    revert this; decide
  cases p with
  | pct n => simp [renderPart, hd n]
  | abs n => simp [renderPart, hd n]
  | rest => decide

/-- TOP LEVEL: the specification text `p₁_p₂_…` (each part written as `N%`, `N#` or `rest`) yields the sizes computed from
    the parts — absolute sizes exact, percentages rounded down, remainder to `rest` or else to the first largest part -/
theorem split_sizes (ps : List Part) (size : Nat) (hne : ps ≠ []) (hr : ps.count .rest ≤ 1) :
    parseSplitSpec (joinWith ['_'] (ps.map renderPart)) size = sizesOf ps size := by
  unfold parseSplitSpec
  rw [TT.Lemmas.RcgRT.splitOnChar_joinWith '_' _ (by simpa using hne)
    (by intro s hs; obtain ⟨p, _, rfl⟩ := List.mem_map.1 hs; exact underscore_not_mem_renderPart p),
    parseParts_render ps false (by simpa using hr)]

example : joinWith ['_'] ([Part.rest, .pct 20, .abs 5000].map renderPart) = "rest_20%_5000#".toList ∧
    sizesOf [Part.rest, .pct 20, .abs 5000] 10000 = .ok [3000, 2000, 5000] := by decide

/-- both hypotheses are needed: two `rest` parts are rejected as text but `sizesOf` would serve them; no part at all is the
    empty text, which is rejected -/
example : parseSplitSpec (joinWith ['_'] ([Part.rest, .rest].map renderPart)) 3 = .error .valueError ∧
    sizesOf [Part.rest, .rest] 3 = .ok [3, 0] ∧
    parseSplitSpec (joinWith ['_'] (([] : List Part).map renderPart)) 0 = .error .valueError ∧ sizesOf [] 0 = .ok [] := by decide

theorem addAt_zero (l : List Nat) (hl : l ≠ []) : addAt l 0 0 = l := by
  cases l with
  | nil => exact absurd rfl hl
  | cons a r => simp [addAt]

/-- clause 4 in one statement: an accepted list of parts gets the base sizes, with the whole remainder added at ONE index:
    the `rest` part, or else (no `rest`) a largest part such that no earlier part is as large -/
theorem sizesOf_remainder (ps : List Part) (size : Nat) (parts : List Nat) (hne : ps ≠ []) (h : sizesOf ps size = .ok parts) :
    let base := ps.map (baseSize size)
    base.sum ≤ size ∧ ∃ i, i < ps.length ∧ parts = addAt base i (size - base.sum) ∧
      (base.sum < size → ps[i]? = some .rest ∨
        (Part.rest ∉ ps ∧ (∀ j : Nat, base[j]?.getD 0 ≤ base[i]?.getD 0) ∧ ∀ j : Nat, j < i → base[j]?.getD 0 < base[i]?.getD 0)) := by
  intro base
  obtain ⟨h1, h2, h3⟩ := TT.Props.C17.sizesOf_shape ps size parts h
  refine ⟨h1, ?_⟩
  have hbne : base ≠ [] := by simpa [base] using hne
  rcases Nat.lt_or_ge base.sum size with hlt | hge
  · cases hri : restIdx ps with
    | some i =>
      have hi := List.idxOf?_eq_some_iff.1 hri
      refine ⟨i, hi.1, by simpa [hri] using h3 hlt, fun _ => Or.inl ?_⟩
      rw [List.getElem?_eq_getElem hi.1, hi.2.1]
    | none =>
      have hnm : Part.rest ∉ ps := List.idxOf?_eq_none_iff.1 hri
      have hm := TT.Props.C17.firstMaxIdx_max base hbne
      have hlt' := TT.Props.C17.firstMaxIdx_lt base hbne
      refine ⟨firstMaxIdx base, by simpa [base] using hlt', by simpa [hri] using h3 hlt, fun _ => Or.inr ⟨hnm, ?_, hm.2⟩⟩
      intro j
      cases hj : base[j]? with
      | none => simp
      | some x => exact hm.1 x (List.mem_of_getElem? hj)
  · have he : base.sum = size := Nat.le_antisymm h1 hge
    have hp : 0 < ps.length := List.length_pos_iff.2 hne
    refine ⟨0, hp, ?_, fun hlt => by omega⟩
    rw [h2 he, he, Nat.sub_self]
    exact (addAt_zero base hbne).symm

example : sizesOf [.pct 30, .pct 30, .pct 30] 10 = .ok [4, 3, 3] ∧ sizesOf [.pct 30, .rest, .pct 30] 10 = .ok [3, 4, 3] := by decide

/-! ## rejection, at the top level -/

/-- a specification demanding more trees than exist is rejected -/
theorem split_rejects_too_large (spec : Str) (size : Nat) (ps : List Part)
    (h : parseParts (splitOnChar '_' spec) false = some ps) (h2 : size < (ps.map (baseSize size)).sum) :
    parseSplitSpec spec size = .error .valueError := by
  simp only [parseSplitSpec, h]
  exact TT.Props.C17.sizesOf_rejects_too_large ps size h2

/-- every rejection is a `ValueError`, and it has exactly two causes: the text is not a specification, or it asks for too much -/
theorem split_rejected_iff (spec : Str) (size : Nat) :
    (∃ e, parseSplitSpec spec size = .error e) ↔
      parseParts (splitOnChar '_' spec) false = none ∨
      ∃ ps, parseParts (splitOnChar '_' spec) false = some ps ∧ size < (ps.map (baseSize size)).sum := by
  unfold parseSplitSpec
  cases hp : parseParts (splitOnChar '_' spec) false with
  | none => simp
  | some ps =>
    simp only [reduceCtorEq, Option.some.injEq, exists_eq_left', false_or]
    unfold sizesOf
    simp only
    split
    · split <;> simp <;> omega
    · split
      · simp; omega
      · simp; omega

example : parseParts (splitOnChar '_' "2#_7#".toList) false = some [.abs 2, .abs 7] ∧ 3 < ([Part.abs 2, .abs 7].map (baseSize 3)).sum := by decide


/-! ## "malformed" against an independent grammar -/

theorem joinWith_cons_cons (sep : Str) (x : Char) (y : Str) (ys : List Str) :
    joinWith sep ((x :: y) :: ys) = x :: joinWith sep (y :: ys) := by
  cases ys <;> simp [joinWith]

/-- joining the fields of a split gives the text back -/
theorem joinWith_splitOnChar (c : Char) : ∀ s : Str, joinWith [c] (splitOnChar c s) = s
  | [] => rfl
  | x :: xs => by
    simp only [splitOnChar]
    split
    · rename_i hx
      rw [joinWith_cons_ne _ _ _ (TT.Props.C17.splitOnChar_ne_nil c xs), joinWith_splitOnChar c xs, hx]; rfl
    · have ih := joinWith_splitOnChar c xs
      split
      · rename_i h; exact absurd h (TT.Props.C17.splitOnChar_ne_nil c xs)
      · rename_i y ys h
        rw [h] at ih
        rw [joinWith_cons_cons, ih]

theorem strToNat?_isSome (d : Str) : (strToNat? d).isSome = pyIsDigit d := by
  unfold strToNat?; split <;> simp_all

/-- the parser accepts a field exactly when it is a part text; it answers `rest` only for the word `rest` -/
theorem parsePart_some_iff (s : Str) : (∃ p, parsePart s = some p) ↔ PartText s := by
  constructor
  · rintro ⟨p, hp⟩
    unfold parsePart at hp
    split at hp
    · rename_i h; exact Or.inl h
    · cases hl : s.getLast? with
      | none => simp [hl] at hp
      | some c =>
        have hs := TT.Lemmas.C20.dropLast_append_of_getLast? s c hl
        simp only [hl] at hp
        split at hp
        · rename_i heq
          cases heq
          obtain ⟨n, hn, _⟩ := Option.map_eq_some_iff.1 hp
          have hd : pyIsDigit s.dropLast = true := by rw [← strToNat?_isSome, hn]; rfl
          exact Or.inr ⟨s.dropLast, hd, Or.inl hs.symm⟩
        · rename_i heq
          cases heq
          obtain ⟨n, hn, _⟩ := Option.map_eq_some_iff.1 hp
          have hd : pyIsDigit s.dropLast = true := by rw [← strToNat?_isSome, hn]; rfl
          exact Or.inr ⟨s.dropLast, hd, Or.inr hs.symm⟩
        · cases hp
  · rintro (rfl | ⟨d, hd, rfl | rfl⟩)
    · exact ⟨.rest, by decide⟩
    · obtain ⟨n, hn⟩ := Option.isSome_iff_exists.1 (by rw [strToNat?_isSome, hd] : (strToNat? d).isSome = true)
      exact ⟨.pct n, by rw [(parsePart_digits d).1, hn]; rfl⟩
    · obtain ⟨n, hn⟩ := Option.isSome_iff_exists.1 (by rw [strToNat?_isSome, hd] : (strToNat? d).isSome = true)
      exact ⟨.abs n, by rw [(parsePart_digits d).2, hn]; rfl⟩

theorem parsePart_rest_iff (s : Str) : parsePart s = some .rest ↔ s = "rest".toList := by
  constructor
  · intro h
    unfold parsePart at h
    split at h
    · assumption
    · split at h
      · obtain ⟨n, _, hn⟩ := Option.map_eq_some_iff.1 h; cases hn
      · obtain ⟨n, _, hn⟩ := Option.map_eq_some_iff.1 h; cases hn
      · cases h
  · rintro rfl; decide

theorem parseParts_isSome_iff : ∀ (ss : List Str) (b : Bool),
    (parseParts ss b).isSome = true ↔
      (∀ s ∈ ss, PartText s) ∧ (if b then ss.count "rest".toList = 0 else ss.count "rest".toList ≤ 1)
  | [], b => by cases b <;> simp [parseParts]
  | s :: ss, b => by
    simp only [parseParts]
    cases hp : parsePart s with
    | none =>
      have : ¬ PartText s := fun h => by
        obtain ⟨p, hp'⟩ := (parsePart_some_iff s).2 h
        rw [hp] at hp'; cases hp'
      simp [this]
    | some p =>
      have hpt : PartText s := (parsePart_some_iff s).1 ⟨p, hp⟩
      cases p with
      | rest =>
        have hs := (parsePart_rest_iff s).1 hp
        subst hs
        cases b with
        | true => simp
        | false =>
          simp only [Bool.false_eq_true, if_false, Option.isSome_map, parseParts_isSome_iff ss true, if_true,
            List.mem_cons, forall_eq_or_imp, List.count_cons_self]
          constructor
          · rintro ⟨h1, h2⟩; exact ⟨⟨hpt, h1⟩, by omega⟩
          · rintro ⟨⟨_, h1⟩, h2⟩; exact ⟨h1, by omega⟩
      | pct n =>
        have hs : s ≠ "rest".toList := fun h => by rw [(parsePart_rest_iff s).2 h] at hp; cases hp
        have hc : List.count "rest".toList (s :: ss) = List.count "rest".toList ss := List.count_cons_of_ne hs
        simp only [Option.isSome_map, parseParts_isSome_iff ss b, List.mem_cons, forall_eq_or_imp, hpt, true_and, hc]
      | abs n =>
        have hs : s ≠ "rest".toList := fun h => by rw [(parsePart_rest_iff s).2 h] at hp; cases hp
        have hc : List.count "rest".toList (s :: ss) = List.count "rest".toList ss := List.count_cons_of_ne hs
        simp only [Option.isSome_map, parseParts_isSome_iff ss b, List.mem_cons, forall_eq_or_imp, hpt, true_and, hc]

theorem underscore_not_mem_partText (s : Str) (h : PartText s) : '_' ∉ s := by
  rcases h with rfl | ⟨d, hd, rfl | rfl⟩
  · decide
  · simp [TT.Lemmas.More12g.not_mem_of_pyIsDigit hd (by decide : '_'.isDigit = false)]
  · simp [TT.Lemmas.More12g.not_mem_of_pyIsDigit hd (by decide : '_'.isDigit = false)]

/-- the parser accepts exactly the texts of the grammar `WellFormedSpec` -/
theorem parseParts_some_iff (spec : Str) :
    (parseParts (splitOnChar '_' spec) false).isSome = true ↔ WellFormedSpec spec := by
  rw [parseParts_isSome_iff]
  constructor
  · rintro ⟨h1, h2⟩
    exact ⟨splitOnChar '_' spec, TT.Props.C17.splitOnChar_ne_nil '_' spec, h1, by simpa using h2,
      (joinWith_splitOnChar '_' spec).symm⟩
  · rintro ⟨ss, hne, h1, h2, rfl⟩
    rw [TT.Lemmas.RcgRT.splitOnChar_joinWith '_' ss hne (fun s hs => underscore_not_mem_partText s (h1 s hs))]
    exact ⟨h1, by simpa using h2⟩

/-- clause 7 against the grammar: a text is rejected for EVERY number of trees exactly when it is not well formed
    (a well-formed one is accepted at least for ... see `split_rejected_iff` for the other cause of rejection) -/
theorem malformed_rejected (spec : Str) (size : Nat) (h : ¬ WellFormedSpec spec) :
    parseSplitSpec spec size = .error .valueError := by
  apply TT.Props.C17.parse_rejects_malformed
  rw [← parseParts_some_iff] at h
  cases hp : parseParts (splitOnChar '_' spec) false with
  | none => rfl
  | some ps => rw [hp] at h; exact absurd rfl h

theorem wellFormed_parses (spec : Str) (h : WellFormedSpec spec) : ∃ ps, parseParts (splitOnChar '_' spec) false = some ps :=
  Option.isSome_iff_exists.1 ((parseParts_some_iff spec).2 h)

example : WellFormedSpec "rest_20%_5000#".toList :=
  ⟨["rest".toList, "20%".toList, "5000#".toList], by decide,
    by
      intro s hs
      simp only [List.mem_cons, List.not_mem_nil, or_false] at hs
      rcases hs with rfl | rfl | rfl
      · exact Or.inl rfl
      · exact Or.inr ⟨"20".toList, by decide, Or.inl (by decide)⟩
      · exact Or.inr ⟨"5000".toList, by decide, Or.inr (by decide)⟩,
    by decide, by decide⟩

/-- not well formed: decided through the theorem -/
example : ¬ WellFormedSpec "rest_rest".toList ∧ ¬ WellFormedSpec "".toList ∧ ¬ WellFormedSpec "-1#_rest".toList ∧
    ¬ WellFormedSpec "20%__rest".toList ∧ ¬ WellFormedSpec "1.5%".toList := by
  simp only [← parseParts_some_iff]
  decide


/-! ## the parts reproduce the unsplit output, for every `--dest-encoding` -/

theorem split_concat_enc (steps : List Step) (fmt : DestFmt) (o : OutOpts) (enc : Option Str) (spec : Str)
    (src : Except Err (List (Nat × Tree))) (parts : List Str) (hf : fmt ≠ .tigerxml)
    (hp : runSplitFrom steps fmt o enc spec src = .ok parts) :
    runFrom steps fmt o enc src = .ok parts.flatten := by
  obtain ⟨ts, ts', sizes, rfl, h1, _, h3, h4⟩ := TT.Props.C17Run.runSplitFrom_inv steps fmt o enc spec src parts hp
  rw [runFrom_ok, h1]
  show writeAll fmt o enc ts' = .ok parts.flatten
  rw [mapM_writeAll_plain fmt o enc hf] at h3
  rw [writeAll_plain fmt o enc ts' hf, ← h4]
  exact bodyText_flatten fmt o _ _ h3

example : runFrom [TT.Props.C17Run.dropT, TT.Props.C17Run.relab] .discobrackets {} (some "latin-1".toList) (.ok TT.Props.C17Run.exSrc) =
    .ok ["(Sx(A 1)(B 2))\ta b\n".toList, "(Sx(VP(A 1)(C 3))(B 2))\ta b c\n(Sx(A 1)(B 2))\ta b\n".toList].flatten :=
  split_concat_enc _ _ _ _ "50%_rest".toList _ _ (by decide) (by decide +kernel)


/-! ## every part of an export split is a file the export reader accepts -/

/-- a sentence the export format can represent and the reader can tell apart from its frame lines
    (the hypotheses of `export_readback`, C03Run) -/
def ExportGood (t : Tree) : Prop :=
  WF t = true ∧ ExportOK {} t = true ∧ t.leafNums.length < 500 ∧
  ∀ s ∈ t.subtrees, s.isLeaf = true → "#EOS".toList.isPrefixOf (s.fields.word.getD []) = false

theorem openAfter_body : ∀ body : List Str,
    (∀ l ∈ body, TT.Lemmas.ExportRT.strip l = l ∧ "#EOS".toList.isPrefixOf l = false) → openAfter true body = true
  | [], _ => rfl
  | l :: body, h => by
    obtain ⟨h1, h2⟩ := h l (by simp)
    have : openStep true l = true := by
      show (!isEOS (TT.Lemmas.ExportRT.strip l)) = true
      rw [h1]; unfold isEOS; rw [h2]; rfl
    rw [openAfter, this]
    exact openAfter_body body (fun x hx => h x (by simp [hx]))

/-- the lines of one written sentence form a complete block: `#BOS`, body lines, `#EOS` -/
theorem complete_frame (sid : Nat) (body : List Str)
    (hbody : ∀ l ∈ body, TT.Lemmas.ExportRT.strip l = l ∧ "#EOS".toList.isPrefixOf l = false) :
    Complete (["#BOS ".toList ++ natToStr sid] ++ body ++ ["#EOS ".toList ++ natToStr sid]) := by
  obtain ⟨_, hb2⟩ := TT.Lemmas.ExportRT.frame_line_ok ("#BOS ".toList) sid (Or.inl TT.Lemmas.Write.bos_eq)
  obtain ⟨_, he2⟩ := TT.Lemmas.ExportRT.frame_line_ok ("#EOS ".toList) sid (Or.inr TT.Lemmas.Write.eos_eq)
  unfold Complete
  rw [List.append_assoc, List.singleton_append, openAfter]
  have h1 : openStep false ("#BOS ".toList ++ natToStr sid) = true := by
    show isBOS (TT.Lemmas.ExportRT.strip _) = true
    rw [hb2]; exact TT.Lemmas.ExportRT.bos_prefix sid
  rw [h1, openAfter_append, openAfter_body body hbody]
  show openStep true _ = false
  show (!isEOS (TT.Lemmas.ExportRT.strip _)) = false
  rw [he2]; unfold isEOS; rw [TT.Lemmas.ExportRT.eos_prefix sid]; rfl


open TT.Lemmas.ExportRT TT.Lemmas.WF in
/-- the lines the writer produces for a good sentence: the frame around body lines the reader's loop passes over -/
theorem written_lines (sid : Nat) (t : Tree) (ls : List Str) (h : writeExport {} sid t = .ok ls) (hg : ExportGood t) :
    ∃ body, ls = ["#BOS ".toList ++ natToStr sid] ++ body ++ ["#EOS ".toList ++ natToStr sid] ∧
      ∀ l ∈ body, '\n' ∉ l ∧ TT.Lemmas.ExportRT.strip l = l ∧ "#EOS".toList.isPrefixOf l = false := by
  obtain ⟨hwf, hok, _, hE⟩ := hg
  have hne := WF_noEmpty t hwf
  obtain ⟨hls, hlines⟩ := writeExport_shape {} sid t ls h
  refine ⟨(tokPaths t ++ consPaths t).map (lineAt {} t), by rw [hls, List.map_append]; simp, ?_⟩
  intro l hl
  obtain ⟨p, hp, rfl⟩ := List.mem_map.1 hl
  obtain ⟨hp1, hp2⟩ := (mem_tok_cons t p).1 hp
  obtain ⟨l', hl'⟩ := hlines p ((mem_nonRoot t p).2 ⟨hp1, hp2⟩)
  refine lineAt_loop_ok t p l' hne hok hp1 hl' ?_
  unfold wordOf
  split
  · rename_i hk
    rw [kids_isEmpty_eq_isLeaf _ (noEmpty_subAt t p hne hp1)] at hk
    exact hE _ (mem_subtrees_subAt t p hp1) hk
  · exact eos_not_prefix_hash _

/-- a text made of newline-terminated lines is `a ++ "\n"` where the lines of `a` are the given lines -/
theorem text_of_lines (ls : List Str) (hne : ls ≠ []) (hnl : ∀ l ∈ ls, '\n' ∉ l) :
    ∃ a, (ls.map (· ++ ['\n'])).flatten = a ++ ['\n'] ∧ lines a = ls := by
  refine ⟨(ls.dropLast.map (· ++ ['\n'])).flatten ++ ls.getLast hne, ?_, ?_⟩
  · conv => lhs; rw [← List.dropLast_concat_getLast hne]
    simp
  · have h1 := TT.Lemmas.ExportRT.splitOnChar_lines ls hnl
    have h2 : (ls.map (· ++ ['\n'])).flatten = ((ls.dropLast.map (· ++ ['\n'])).flatten ++ ls.getLast hne) ++ ['\n'] := by
      conv => lhs; rw [← List.dropLast_concat_getLast hne]
      simp
    rw [h2, splitOnChar_snoc_sep] at h1
    exact List.append_cancel_right h1

theorem readExport_nil : readExport {} [] = .ok [] := by
  unfold readExport
  simp [splitOnChar, exportLoop]

theorem bodyText_single (sid : Nat) (t : Tree) (ls : List Str) (h : writeExport {} sid t = .ok ls) :
    bodyText .export {} [(sid, t)] = .ok ((ls.map (· ++ ['\n'])).flatten) := by
  simp [bodyText, writeOne, h, bind, Except.bind, pure, Except.pure, Except.map]

theorem bodyText_cons_inv (fmt : DestFmt) (o : OutOpts) (p : Nat × Tree) (g : List (Nat × Tree)) (txt : Str)
    (h : bodyText fmt o (p :: g) = .ok txt) :
    ∃ T txt', writeOne fmt o p.1 p.2 = .ok T ∧ bodyText fmt o g = .ok txt' ∧ txt = T ++ txt' := by
  unfold bodyText at h ⊢
  rw [List.mapM_cons] at h
  obtain ⟨body, hb, h⟩ := bind_ok _ _ _ h
  obtain ⟨T, hT, hb⟩ := bind_ok _ _ _ hb
  obtain ⟨bs, hbs, hb⟩ := bind_ok _ _ _ hb
  simp only [pure, Except.pure, Except.ok.injEq] at hb h
  subst hb h
  exact ⟨T, bs.flatten, hT, by rw [hbs]; rfl, by simp⟩

/-- a group of good sentences written in export format is read back by the export reader: the same sentence numbers in the same
    order, and trees that are written as the very same text again -/
theorem export_group_readable : ∀ (g : List (Nat × Tree)), (∀ p ∈ g, ExportGood p.2) → ∀ txt, bodyText .export {} g = .ok txt →
    ∃ rs, readExport {} txt = .ok rs ∧ rs.map (·.1) = g.map (·.1) ∧ bodyText .export {} rs = .ok txt
  | [], _, txt, h => by
    simp only [bodyText_nil, Except.ok.injEq] at h
    subst h
    exact ⟨[], readExport_nil, rfl, rfl⟩
  | (sid, t) :: g, hg, txt, h => by
    obtain ⟨T, txt', hT, hg', rfl⟩ := bodyText_cons_inv _ _ _ _ _ h
    obtain ⟨rs', hr', hids, hw'⟩ := export_group_readable g (fun p hp => hg p (by simp [hp])) txt' hg'
    have hgood := hg (sid, t) (by simp)
    -- the lines of this sentence
    simp only [writeOne] at hT
    cases hls : writeExport {} sid t with
    | error e => rw [hls] at hT; cases hT
    | ok ls =>
      rw [hls] at hT
      simp only [Except.map, Except.ok.injEq] at hT
      subst hT
      obtain ⟨body, hshape, hbody⟩ := written_lines sid t ls hls hgood
      obtain ⟨r, hr, hwr⟩ := TT.Props.C03Run.export_readback sid t ls hls hgood.1 hgood.2.1 hgood.2.2.1 hgood.2.2.2
      have hnl : ∀ l ∈ ls, '\n' ∉ l := by
        intro l hl
        rw [hshape] at hl
        simp only [List.mem_append, List.mem_singleton] at hl
        rcases hl with (rfl | hl) | rfl
        · exact (TT.Lemmas.ExportRT.frame_line_ok _ sid (Or.inl TT.Lemmas.Write.bos_eq)).1
        · exact (hbody l hl).1
        · exact (TT.Lemmas.ExportRT.frame_line_ok _ sid (Or.inr TT.Lemmas.Write.eos_eq)).1
      obtain ⟨a, ha, hla⟩ := text_of_lines ls (by rw [hshape]; simp) hnl
      have hcomp : Complete (lines a) := by
        rw [hla, hshape]; exact complete_frame sid body (fun l hl => (hbody l hl).2)
      refine ⟨(sid, r) :: rs', ?_, by simp [hids], ?_⟩
      · rw [ha, readExport_append_nl {} a txt' hcomp, ← ha, hr, hr']
        have hf : ∀ k, renum {} k = id := by intro k; funext p; simp [renum]
        simp [hf]
      · exact bodyText_append_ok .export {} [(sid, r)] rs' _ _ (bodyText_single sid r ls hwr) hw'


/-! ## every part of a brackets split is a file the bracket reader accepts -/

/-- a sentence the bracket format can represent (the hypotheses of `own_roundtrip_brackets`, C03Own) -/
def BracketsGood (t : Tree) : Prop :=
  WF t = true ∧ gapDegree t = 0 ∧ BracketsOK t = true ∧
  ∀ x ∈ t.subtrees, replaceParens x.fields.label = x.fields.label ∧ (x.fields.word.map replaceParens) = x.fields.word

theorem writeOne_brackets_inv (sid : Nat) (t : Tree) (T : Str) (hc : gapDegree t = 0) (h : writeOne .brackets {} sid t = .ok T) :
    ∃ s, bracketsSub {} false t = .ok s ∧ T = s ++ ['\n'] := by
  simp only [writeOne, writeBrackets, hc, Nat.lt_irrefl, if_false] at h
  cases hs : bracketsSub {} false t with
  | error e =>
    have : bracketsSub {} ({} : OutOpts).emptyRoot t = .error e := hs
    rw [this] at h; cases h
  | ok s =>
    have : bracketsSub {} ({} : OutOpts).emptyRoot t = .ok s := hs
    rw [this] at h
    simp only [Except.map, Except.ok.injEq] at h
    exact ⟨s, rfl, h.symm⟩

theorem writeOne_brackets_of (sid : Nat) (t : Tree) (s : Str) (h : writeBrackets {} t = .ok (some s)) :
    writeOne .brackets {} sid t = .ok (s ++ ['\n']) := by
  simp [writeOne, h, Except.map]

/-- the lines of a part -/
theorem brackets_lines : ∀ (g : List (Nat × Tree)) (txt : Str), (∀ p ∈ g, gapDegree p.2 = 0) → bodyText .brackets {} g = .ok txt →
    ∃ lines : List Str, lines.length = g.length ∧ txt = (lines.map (· ++ ['\n'])).flatten ∧
      ∀ (i : Nat) (p : Nat × Tree), g[i]? = some p → ∃ s, lines[i]? = some s ∧ bracketsSub {} false p.2 = .ok s
  | [], txt, _, h => by
    simp only [bodyText_nil, Except.ok.injEq] at h
    subst h
    exact ⟨[], rfl, rfl, by simp⟩
  | p :: g, txt, hc, h => by
    obtain ⟨T, txt', hT, hg', rfl⟩ := bodyText_cons_inv _ _ _ _ _ h
    obtain ⟨lines, hl, rfl, hall⟩ := brackets_lines g txt' (fun q hq => hc q (by simp [hq])) hg'
    obtain ⟨s, hs, rfl⟩ := writeOne_brackets_inv p.1 p.2 T (hc p (by simp)) hT
    refine ⟨s :: lines, by simp [hl], by simp, ?_⟩
    intro i q hq
    cases i with
    | zero => simp only [List.getElem?_cons_zero, Option.some.injEq] at hq; subst hq; exact ⟨s, rfl, hs⟩
    | succ i => simpa using hall i q (by simpa using hq)

theorem brackets_text : ∀ (l : List (Nat × Tree)) (lines : List Str), lines.length = l.length →
    (∀ (i : Nat) (p : Nat × Tree), l[i]? = some p → ∃ s, lines[i]? = some s ∧ writeBrackets {} p.2 = .ok (some s)) →
    bodyText .brackets {} l = .ok ((lines.map (· ++ ['\n'])).flatten)
  | [], lines, hl, _ => by
    have : lines = [] := List.eq_nil_of_length_eq_zero (by simpa using hl)
    subst this; rfl
  | p :: l, [], hl, _ => by simp at hl
  | p :: l, s :: lines, hl, h => by
    obtain ⟨s', hs', hw⟩ := h 0 p rfl
    simp only [List.getElem?_cons_zero, Option.some.injEq] at hs'
    subst hs'
    have ih := brackets_text l lines (by simpa using hl) (fun i q hq => by simpa using h (i + 1) q (by simpa using hq))
    have h1 : bodyText .brackets {} [p] = .ok (s ++ ['\n']) := by
      simp [bodyText, writeOne_brackets_of p.1 p.2 s hw, bind, Except.bind, pure, Except.pure]
    have := bodyText_append_ok .brackets {} [p] l _ _ h1 ih
    simpa using this

/-- a group of good sentences written in bracket format is read back by the bracket reader: as many trees, numbered from 1 (the
    format has no sentence numbers), each the written tree as the reader delivers it, and written as the very same text again -/
theorem brackets_group_readable (g : List (Nat × Tree)) (hg : ∀ p ∈ g, BracketsGood p.2) (txt : Str)
    (hw : bodyText .brackets {} g = .ok txt) :
    ∃ rs : List Tree, readBrackets {} txt = .ok ((List.range' 1 g.length).zip rs) ∧ rs.length = g.length ∧
      (∀ (i : Nat) (p : Nat × Tree), g[i]? = some p → ∃ r, rs[i]? = some r ∧ sameTree r (asReadBrackets p.2) = true) ∧
      bodyText .brackets {} ((List.range' 1 g.length).zip rs) = .ok txt := by
  obtain ⟨lines, hl, rfl, hall⟩ := brackets_lines g txt (fun p hp => (hg p hp).2.1) hw
  have hfile := TT.Props.C03Own.own_roundtrip_file (g.map (·.2)) lines (by
      intro i hi
      simp only [List.length_map] at hi
      obtain ⟨s, hs, hsub⟩ := hall i g[i] (List.getElem?_eq_getElem hi)
      obtain ⟨h1, h2, h3, h4⟩ := hg g[i] (List.getElem_mem hi)
      exact ⟨g[i].2, s, by simp [hi], hs, h1, h2, h3, h4, hsub⟩) (by simpa using hl)
  simp only [List.length_map] at hfile
  obtain ⟨rs, hread, hrl, hrs⟩ := hfile
  have hpt : ∀ (i : Nat) (p : Nat × Tree), g[i]? = some p → ∃ r, rs[i]? = some r ∧ sameTree r (asReadBrackets p.2) = true := by
    intro i p hp
    have hi : i < g.length := (List.getElem?_eq_some_iff.1 hp).1
    obtain ⟨t, r, ht, hr, hsame⟩ := hrs i hi
    simp only [List.getElem?_map, hp, Option.map_some, Option.some.injEq] at ht
    subst ht
    exact ⟨r, hr, hsame⟩
  refine ⟨rs, hread, hrl, hpt, ?_⟩
  refine brackets_text _ lines (by simp [hl, hrl]) ?_
  intro i q hq
  have hi : i < g.length := by
    have := (List.getElem?_eq_some_iff.1 hq).1
    simp at this; omega
  obtain ⟨s, hs, hsub⟩ := hall i g[i] (List.getElem?_eq_getElem hi)
  obtain ⟨r, hr, hsame⟩ := hpt i g[i] (List.getElem?_eq_getElem hi)
  obtain ⟨h1, h2, _, _⟩ := hg g[i] (List.getElem_mem hi)
  have hq2 : q.2 = r := by
    rw [List.getElem?_zip_eq_some] at hq
    rw [hr] at hq
    exact (Option.some.inj hq.2).symm
  refine ⟨s, hs, ?_⟩
  rw [hq2]
  exact writeBrackets_readback g[i].2 r s (TT.Lemmas.WF.WF_noEmpty _ h1) h2 hsub hsame


/-! ## the command: every part of a split is accepted by the reader of its format -/

theorem mapM_getElem? {ε α β : Type} (f : α → Except ε β) : ∀ (l : List α) (r : List β), l.mapM f = .ok r →
    ∀ (i : Nat) (b : β), r[i]? = some b → ∃ a, l[i]? = some a ∧ f a = .ok b
  | [], r, h, i, b, hb => by
    simp only [List.mapM_nil, pure, Except.pure, Except.ok.injEq] at h
    subst h; simp at hb
  | a :: l, r, h, i, b, hb => by
    rw [List.mapM_cons] at h
    obtain ⟨b0, hb0, h⟩ := bind_ok _ _ _ h
    obtain ⟨bs, hbs, h⟩ := bind_ok _ _ _ h
    simp only [pure, Except.pure, Except.ok.injEq] at h
    subst h
    cases i with
    | zero => simp only [List.getElem?_cons_zero, Option.some.injEq] at hb; subst hb; exact ⟨a, rfl, hb0⟩
    | succ i => simpa using mapM_getElem? f l bs hbs i b (by simpa using hb)

/-- EXPORT: every part of `transform … --split spec` with export destination is an export file the export reader accepts; it reads
    exactly the sentence numbers of the trees handed to that part, in order, and the trees read are written as the same part again.
    `hgood`: the surviving trees are well formed, representable in the format, shorter than 500 tokens, no word starts with `#EOS`. -/
theorem split_parts_readable_export (steps : List Step) (enc : Option Str) (spec : Str)
    (ts ts' : List (Nat × Tree)) (sizes : List Nat) (parts : List Str)
    (ht : transformAll steps ts = .ok ts') (hs : parseSplitSpec spec ts'.length = .ok sizes)
    (hp : runSplitFrom steps .export {} enc spec (.ok ts) = .ok parts) (hgood : ∀ p ∈ ts', ExportGood p.2) :
    ∃ groups : List (List (Nat × Tree)), groups.flatten = ts' ∧ groups.map List.length = sizes ∧ parts.length = groups.length ∧
      ∀ (i : Nat) (part : Str), parts[i]? = some part →
        ∃ g rs, groups[i]? = some g ∧ readExport {} part = .ok rs ∧ rs.map (·.1) = g.map (·.1) ∧
          writeAll .export {} enc rs = .ok part := by
  obtain ⟨groups, hfl, hlen, hm⟩ := TT.Props.C17Run.split_part_trees steps .export {} enc spec ts ts' sizes parts ht hs hp
  refine ⟨groups, hfl, hlen, mapM_length _ _ _ hm, ?_⟩
  intro i part hpart
  obtain ⟨g, hg, hw⟩ := mapM_getElem? _ _ _ hm i part hpart
  rw [writeAll_plain .export {} enc g (by decide)] at hw
  have hgg : ∀ p ∈ g, ExportGood p.2 := fun p hp => hgood p (by
    rw [← hfl]; exact List.mem_flatten.2 ⟨g, List.mem_of_getElem? hg, hp⟩)
  obtain ⟨rs, hr, hids, hwr⟩ := export_group_readable g hgg part hw
  exact ⟨g, rs, hg, hr, hids, by rw [writeAll_plain .export {} enc rs (by decide)]; exact hwr⟩

/-- BRACKETS: every part of a split with bracket destination is a file the bracket reader accepts; it reads as many trees as were
    handed to that part (numbered from 1 — the format has no sentence numbers), tree by tree what the reader makes of the written
    tree, and the trees read are written as the same part again.
    `hgood`: the surviving trees are well formed, continuous, representable, and contain no parentheses to replace. -/
theorem split_parts_readable_brackets (steps : List Step) (enc : Option Str) (spec : Str)
    (ts ts' : List (Nat × Tree)) (sizes : List Nat) (parts : List Str)
    (ht : transformAll steps ts = .ok ts') (hs : parseSplitSpec spec ts'.length = .ok sizes)
    (hp : runSplitFrom steps .brackets {} enc spec (.ok ts) = .ok parts) (hgood : ∀ p ∈ ts', BracketsGood p.2) :
    ∃ groups : List (List (Nat × Tree)), groups.flatten = ts' ∧ groups.map List.length = sizes ∧ parts.length = groups.length ∧
      ∀ (i : Nat) (part : Str), parts[i]? = some part →
        ∃ g rs, groups[i]? = some g ∧ readBrackets {} part = .ok ((List.range' 1 g.length).zip rs) ∧ rs.length = g.length ∧
          (∀ (j : Nat) (p : Nat × Tree), g[j]? = some p → ∃ r, rs[j]? = some r ∧ sameTree r (asReadBrackets p.2) = true) ∧
          writeAll .brackets {} enc ((List.range' 1 g.length).zip rs) = .ok part := by
  obtain ⟨groups, hfl, hlen, hm⟩ := TT.Props.C17Run.split_part_trees steps .brackets {} enc spec ts ts' sizes parts ht hs hp
  refine ⟨groups, hfl, hlen, mapM_length _ _ _ hm, ?_⟩
  intro i part hpart
  obtain ⟨g, hg, hw⟩ := mapM_getElem? _ _ _ hm i part hpart
  rw [writeAll_plain .brackets {} enc g (by decide)] at hw
  have hgg : ∀ p ∈ g, BracketsGood p.2 := fun p hp => hgood p (by
    rw [← hfl]; exact List.mem_flatten.2 ⟨g, List.mem_of_getElem? hg, hp⟩)
  obtain ⟨rs, hr, hrl, hpt, hwr⟩ := brackets_group_readable g hgg part hw
  exact ⟨g, rs, hg, hr, hrl, hpt, by rw [writeAll_plain .brackets {} enc _ (by decide)]; exact hwr⟩


/-! ### concrete instances -/

/-- three copies of the discontinuous tree of C02Export (stored out of order), split `1#_rest` -/
def exSrcE : List (Nat × Tree) := [(7, TT.Props.C02Export.exT), (8, TT.Props.C02Export.exT), (9, TT.Props.C02Export.exT)]

theorem exT_good : ExportGood TT.Props.C02Export.exT :=
  ⟨TT.Props.C02Export.exT_WF, TT.Props.C02Export.exT_ok, by decide +kernel, by decide +kernel⟩

theorem exE_split : ∃ parts, runSplitFrom [] .export {} none "1#_rest".toList (.ok exSrcE) = .ok parts ∧ parts.length = 2 := by
  refine ⟨_, rfl, ?_⟩
  decide +kernel

/-- both parts are read by the export reader, with the sentence numbers 7 | 8, 9 -/
example : ∃ parts, runSplitFrom [] .export {} none "1#_rest".toList (.ok exSrcE) = .ok parts ∧
    ∀ (i : Nat) (part : Str), parts[i]? = some part → ∃ rs, readExport {} part = .ok rs ∧ writeAll .export {} none rs = .ok part := by
  obtain ⟨parts, hp, _⟩ := exE_split
  obtain ⟨groups, _, _, _, h⟩ := split_parts_readable_export [] none "1#_rest".toList exSrcE exSrcE [1, 2] parts
    (transformAll_nil_steps _) (by decide +kernel) hp (by
      intro p hp
      simp only [exSrcE, List.mem_cons, List.not_mem_nil, or_false] at hp
      rcases hp with rfl | rfl | rfl <;> exact exT_good)
  refine ⟨parts, hp, fun i part hpart => ?_⟩
  obtain ⟨g, rs, _, hr, _, hw⟩ := h i part hpart
  exact ⟨rs, hr, hw⟩

/-- the hypothesis on words is needed: a token `#EOSx` closes the sentence for the reader — the part is accepted, but what is read
    is a one-token sentence, not the two-token sentence that was written -/
def tEOS : Tree := node { label := "S".toList }
  [leaf 1 { label := "A".toList, word := some "#EOSx".toList }, leaf 2 { label := "B".toList, word := some "b".toList }]

example : WF tEOS = true ∧ ExportOK {} tEOS = true ∧
    (runSplitFrom [] .export {} none "rest".toList (.ok [(7, tEOS)])).map (·.map fun p => ids (readExport {} p)) = .ok [.inr [(7, 1)]] := by
  decide +kernel

/-- brackets: the two trees of C03Own, one per part -/
example : ∃ parts, runSplitFrom [] .brackets {} none "50%_rest".toList (.ok [(4, TT.Props.C03Own.exOwn), (9, TT.Props.C03Own.exOwn2)]) = .ok parts ∧
    ∀ (i : Nat) (part : Str), parts[i]? = some part → ∃ rs, readBrackets {} part = .ok rs ∧ writeAll .brackets {} none rs = .ok part := by
  have hp : runSplitFrom [] .brackets {} none "50%_rest".toList (.ok [(4, TT.Props.C03Own.exOwn), (9, TT.Props.C03Own.exOwn2)]) =
      .ok ["(S(NP(A a)(B b))(C c))\n".toList, "(T(D d))\n".toList] := by decide +kernel
  obtain ⟨groups, _, _, _, h⟩ := split_parts_readable_brackets [] none "50%_rest".toList _ _ [1, 1] _
    (transformAll_nil_steps _) (by decide +kernel) hp (by
      intro p hp
      simp only [List.mem_cons, List.not_mem_nil, or_false] at hp
      rcases hp with rfl | rfl
      · exact ⟨by decide +kernel, by decide +kernel, by decide +kernel, by decide +kernel⟩
      · exact ⟨by decide +kernel, by decide +kernel, by decide +kernel, by decide +kernel⟩)
  refine ⟨_, hp, fun i part hpart => ?_⟩
  obtain ⟨g, rs, _, hr, _, _, hw⟩ := h i part hpart
  exact ⟨_, hr, hw⟩

end TT.Props.C17More2
