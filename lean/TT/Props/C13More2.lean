/-
  C13 — punctuation re-attachment, third part (wave 16): `readDisco_clean`.
  The discobracket reader (the bracket automaton followed by the post-pass `discoApply`, which rewrites number and word of
  TOKENS only) delivers constituents without a `word` entry, so `consWordsClean` - the narrowing under which the token
  reading of the first clause of C13 is proved (`PinnedMore.verylow_post_tokens`) - holds for everything it reads.  The
  proof is an invariant of the automaton itself (`Lemmas.More16c.step_QI`), so it holds for EVERY option record:
  `readBrackets_clean_all` subsumes `C13More.readBrackets_clean` (which needed `o.disco = false`).
  Helper lemmas: TT/Lemmas/More16c.lean.
-/
import TT.Props.C13More
import TT.Lemmas.More16c
namespace TT.Props.C13More2
open TT TT.Tree TT.Spec TT.Lemmas.More15c TT.Lemmas.More16c

/-- bracket reader, every option record: no constituent has a `word` entry at all -/
theorem readBrackets_noWord_all (o : InOpts) (text : Str) (ts : List (Nat × Tree)) (h : readBrackets o text = .ok ts) :
    ∀ t ∈ ts, ∀ s ∈ t.2.subtrees, s.isLeaf = false → s.fields.word = none :=
  fun t ht => ncw_subtrees t.2 (readBrackets_ncw_all o text ts h t ht)

theorem readBrackets_clean_all (o : InOpts) (text : Str) (ts : List (Nat × Tree)) (h : readBrackets o text = .ok ts) :
    ∀ t ∈ ts, consWordsClean t.2 = true :=
  fun t ht => C13More.clean_of_ncw t.2 (readBrackets_ncw_all o text ts h t ht)

/-- the discobracket reader (statement as proposed in the audit) -/
theorem readDisco_clean (o : InOpts) (_hd : o.disco = true) (text : Str) (ts : List (Nat × Tree))
    (h : readBrackets o text = .ok ts) : ∀ t ∈ ts, consWordsClean t.2 = true :=
  readBrackets_clean_all o text ts h

/-- C13, first clause, token reading, for every well-formed tree the discobracket reader delivers -/
theorem verylow_post_tokens_disco (o : InOpts) (hd : o.disco = true) (text : Str) (ts : List (Nat × Tree))
    (h : readBrackets o text = .ok ts) : ∀ t ∈ ts, WF t.2 = true → verylowPostT (punctuationVerylow t.2) = true :=
  fun t ht hw => PinnedMore.verylow_post_tokens t.2 hw (readDisco_clean o hd text ts h t ht)

/-! examples: a discontinuous tree (the NP spans tokens 1 and 3), with and without `reordered` -/

def exD : Str := "(S (NP (A 1) (, 3)) (VP (B 2)) (. 4))\ta b , .\n".toList
#guard (match readBrackets { disco := true } exD with
  | .ok [(1, t)] => WF t && consWordsClean t && t.terminals.map (fun (l : Tree) => l.fields.word) == [some "a".toList, some "b".toList, some ",".toList, some ".".toList] | _ => false)
#guard (match readBrackets { disco := true, discoReordered := true } exD with | .ok [(1, t)] => consWordsClean t | _ => false)

example : ∀ t ∈ (match readBrackets { disco := true } exD with | .ok ts => ts | _ => []), consWordsClean t.2 = true := by
  cases h : readBrackets { disco := true } exD with
  | error e => simp
  | ok ts => exact readDisco_clean _ rfl exD ts h


end TT.Props.C13More2
