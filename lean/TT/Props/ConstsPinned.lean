/-
  Every constant table regenerated from /repo equals its pinned copy (TT/Spec/ConstsPinned.lean).
-/
import TT.Generated.Consts
import TT.Spec.ConstsPinned
namespace TT.Props.ConstsPinned
open TT

theorem consts_pinned_1 :
    Gen.QUOTES = Pinned.QUOTES ∧ Gen.COMMA = Pinned.COMMA ∧ Gen.PAIRPUNCT = Pinned.PAIRPUNCT ∧ Gen.PUNCT = Pinned.PUNCT ∧ Gen.BRACKETS = Pinned.BRACKETS := by decide +kernel

theorem consts_pinned_2 :
    Gen.PHRASE_BRACKETS = Pinned.PHRASE_BRACKETS ∧ Gen.DEFAULT_GF_SEPARATOR = Pinned.DEFAULT_GF_SEPARATOR ∧ Gen.DEFAULT_COINDEX_SEPARATOR = Pinned.DEFAULT_COINDEX_SEPARATOR ∧ Gen.DEFAULT_GAPPING_SEPARATOR = Pinned.DEFAULT_GAPPING_SEPARATOR ∧ Gen.DEFAULT_HEAD_MARKER = Pinned.DEFAULT_HEAD_MARKER := by decide +kernel

theorem consts_pinned_3 :
    Gen.DEFAULT_WORD = Pinned.DEFAULT_WORD ∧ Gen.DEFAULT_LEMMA = Pinned.DEFAULT_LEMMA ∧ Gen.DEFAULT_LABEL = Pinned.DEFAULT_LABEL ∧ Gen.DEFAULT_MORPH = Pinned.DEFAULT_MORPH ∧ Gen.DEFAULT_EDGE = Pinned.DEFAULT_EDGE := by decide +kernel

theorem consts_pinned_4 :
    Gen.DEFAULT_ROOT = Pinned.DEFAULT_ROOT ∧ Gen.FIELDS = Pinned.FIELDS ∧ Gen.NUMBER_OF_FIELDS = Pinned.NUMBER_OF_FIELDS ∧ Gen.G_PRAGMA = Pinned.G_PRAGMA ∧ Gen.G_RULE = Pinned.G_RULE := by decide +kernel

theorem consts_pinned_5 :
    Gen.G_RULEARROW = Pinned.G_RULEARROW ∧ Gen.G_LINEARIZATION = Pinned.G_LINEARIZATION ∧ Gen.G_SEQUENCE = Pinned.G_SEQUENCE ∧ Gen.G_RCG_RULEARROW = Pinned.G_RCG_RULEARROW ∧ Gen.G_DEFAULT_BINLABEL = Pinned.G_DEFAULT_BINLABEL := by decide +kernel

theorem consts_pinned_6 :
    Gen.G_DEFAULT_BINSUFFIX = Pinned.G_DEFAULT_BINSUFFIX ∧ Gen.G_DEFAULT_MARKOV_HORIZONTALSEP = Pinned.G_DEFAULT_MARKOV_HORIZONTALSEP ∧ Gen.G_DEFAULT_MARKOV_VERTICALSEP = Pinned.G_DEFAULT_MARKOV_VERTICALSEP ∧ Gen.G_DEFAULT_VERT = Pinned.G_DEFAULT_VERT ∧ Gen.HEAD_RULES_PTB = Pinned.HEAD_RULES_PTB := by decide +kernel

theorem consts_pinned_7 :
    Gen.HEAD_RULES_NEGRA = Pinned.HEAD_RULES_NEGRA ∧ Gen.INPUT_FORMATS = Pinned.INPUT_FORMATS ∧ Gen.INPUT_OPTIONS = Pinned.INPUT_OPTIONS ∧ Gen.OUTPUT_FORMATS = Pinned.OUTPUT_FORMATS ∧ Gen.OUTPUT_OPTIONS = Pinned.OUTPUT_OPTIONS := by decide +kernel

theorem consts_pinned_8 :
    Gen.TRANSFORMATIONS = Pinned.TRANSFORMATIONS := by decide +kernel

end TT.Props.ConstsPinned
