import TT.Props.C20
import TT.Props.C19
import TT.Props.C04
import TT.Props.C05
import TT.Props.C12
import TT.Props.C13
import TT.Props.C14
import TT.Props.C15
