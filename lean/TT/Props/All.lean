import TT.Props.C20
import TT.Props.C19
import TT.Props.C04
