import TT.Props.C20
