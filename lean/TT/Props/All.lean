import TT.Props.C20
import TT.Props.C19
