/-
  C10, wave 12 -- closing the clauses of audit B, section C10:
  * T10.2 `plainLine_decode` (the written line splits back into sentence and transitions), T10.1
    `plainLine_tokens_in_order`, `plainLine_decode_wf`;
  * T10.3 `sentenceOf` (TT/Spec/More12c.lean): `sentenceOf_length`, `tokenLeaves_eq_sentenceOf`;
  * `topdown_refuses`; T10.4 `topdown_heads_complete`, `gap_heads_complete` (sibling head side under "exactly one
    head child").
  New specification-side definitions: TT/Spec/More12c.lean; helper lemmas: TT/Lemmas/More12c.lean.
-/
import TT.Props.C10
import TT.Props.C19
import TT.Lemmas.More12c
namespace TT.Props.C10More
open TT TT.Tree TT.Spec TT.Lemmas.GramOut TT.Lemmas.RcgRT TT.Lemmas.More12c TT.Props.C10

/-- the token as written: the word, or the POS tag on request -/
def tokOf (pos : Bool) (l : Tree) : Str := if pos then l.fields.label else l.fields.word.getD []

/-! ## T10.2 the written line decodes back: sentence ‖ transitions -/

/-- MAIN (T10.2): the line written by `transitionoutput.plain` splits at the first ` ||| ` into the sentence and the
    transitions; the sentence split at single blanks is the token sequence (words, or tags on request) in sentence
    order; the rest split at single blanks and parsed transition by transition is the sequence written.
    Hypotheses (format): tokens contain no blank and none is the string `|||`; labels inside transitions contain no
    blank; there is at least one token and at least one transition. -/
theorem plainLine_decode (pos : Bool) (t : Tree) (acts : List Action)
    (hw : ∀ l ∈ t.terminals, ' ' ∉ tokOf pos l ∧ tokOf pos l ≠ "|||".toList)
    (hl : ∀ a ∈ acts, ' ' ∉ a.toStr) (ht : t.terminals ≠ []) (ha : acts ≠ []) :
    ∃ s a, splitFirstSub lineSep (plainLine pos t acts) = some (s, a) ∧
      splitOnChar ' ' s = t.terminals.map (tokOf pos) ∧
      (splitOnChar ' ' a).mapM parseAction = some acts := by
  refine ⟨joinWith [' '] (t.terminals.map (tokOf pos)), joinWith [' '] (acts.map Action.toStr), ?_, ?_, ?_⟩
  · have : plainLine pos t acts =
        joinWith [' '] (t.terminals.map (tokOf pos)) ++ lineSep ++ joinWith [' '] (acts.map Action.toStr) := rfl
    rw [this]
    apply splitFirstSub_sentence
    intro w hw'
    obtain ⟨l, hl', rfl⟩ := List.mem_map.1 hw'
    exact hw l hl'
  · apply splitOnChar_joinWith
    · simpa using ht
    · intro s hs
      obtain ⟨l, hl', rfl⟩ := List.mem_map.1 hs
      exact (hw l hl').1
  · rw [splitOnChar_joinWith ' ' _ (by simpa using ha) (by
      intro s hs
      obtain ⟨a, ha', rfl⟩ := List.mem_map.1 hs
      exact hl a ha')]
    have := mapM_option_map acts Action.toStr parseAction id (fun a _ => parseAction_toStr a)
    simpa using this

/-- the line of the continuous tree of the suite with its top-down sequence -/
def exActs : List Action := [.shift, .shift, .unary "VP".toList, .binary true "@S-X".toList]
example : plainLine false exOne [.shift, .unary "NP".toList, .unary "TOP".toList] =
    "rain ||| SHIFT UNARY-NP UNARY-TOP".toList := by decide +kernel
example : (∀ l ∈ exCont.terminals, ' ' ∉ tokOf false l ∧ tokOf false l ≠ "|||".toList) ∧
    (∀ a ∈ exActs, ' ' ∉ a.toStr) ∧ exCont.terminals ≠ [] ∧ exActs ≠ [] := by decide +kernel
example : splitFirstSub lineSep (plainLine false exCont exActs) =
    some ("Who did Fritz tell Hans that Manfred likes ?".toList, "SHIFT SHIFT UNARY-VP BINARY-LEFT-@S-X".toList) := by
  decide +kernel
/-- the hypotheses are needed: a token `|||` moves the cut (the same would happen to the harness's
    `splitOn " ||| "`), a blank inside a token changes the token sequence, an empty transition list is read as one
    unparsable (empty) transition -/
example : splitFirstSub lineSep (plainLine false
    (nd "S" none [lf 1 "X" "a", lf 2 "X" "|||", lf 3 "X" "b"]) [.shift]) =
    some ("a".toList, "b ||| SHIFT".toList) := by decide +kernel
example : splitOnChar ' ' (joinWith [' '] ["New York".toList]) = ["New".toList, "York".toList] := by decide
example : (splitOnChar ' ' (joinWith [' '] (([] : List Action).map Action.toStr))).mapM parseAction = none := by decide
/-- without any token the sentence part is empty and splits into one empty field -/
example : splitOnChar ' ' (joinWith [' '] (([] : List Tree).map (tokOf false))) = [[]] := by decide

/-! ## T10.1 the written sentence is the token sequence in sentence order -/

/-- T10.1: the sentence part of the written line lists every token of the tree exactly once, in the order of the
    token numbers 1..n -/
theorem plainLine_tokens_in_order (pos : Bool) (t : Tree) (acts : List Action) (h : WF t = true) :
    ∃ toks : List Tree,
      plainLine pos t acts = joinWith [' '] (toks.map (tokOf pos)) ++ lineSep ++ joinWith [' '] (acts.map Action.toStr) ∧
      toks.map num = List.range' 1 t.leafNums.length ∧ toks.Perm t.leaves :=
  ⟨t.terminals, rfl, TT.Props.C19.yield_of_WF t h, sortBy_perm num t.leaves⟩

example : WF exGap = true ∧ exGap.terminals.map num = List.range' 1 9 := by decide +kernel
example : plainLine true exGap [.shift] = "WP VB NNP VB NNP IN NNP VB ? ||| SHIFT".toList := by decide +kernel

/-- both together: on a well-formed tree the decoded sentence has one field per token, and field `i` is token
    number `i + 1` -/
theorem plainLine_decode_wf (pos : Bool) (t : Tree) (acts : List Action) (h : WF t = true)
    (hw : ∀ l ∈ t.terminals, ' ' ∉ tokOf pos l ∧ tokOf pos l ≠ "|||".toList)
    (hl : ∀ a ∈ acts, ' ' ∉ a.toStr) (ht : t.terminals ≠ []) (ha : acts ≠ []) :
    ∃ s a, splitFirstSub lineSep (plainLine pos t acts) = some (s, a) ∧
      (splitOnChar ' ' s).length = t.leafNums.length ∧
      (∀ i l, t.terminals[i]? = some l → (splitOnChar ' ' s)[i]? = some (tokOf pos l) ∧ num l = i + 1) ∧
      (splitOnChar ' ' a).mapM parseAction = some acts := by
  obtain ⟨s, a, h1, h2, h3⟩ := plainLine_decode pos t acts hw hl ht ha
  have hn := TT.Props.C19.yield_of_WF t h
  refine ⟨s, a, h1, ?_, ?_, h3⟩
  · rw [h2, List.length_map]
    have := congrArg List.length hn
    simpa [yield] using this
  · intro i l hi
    refine ⟨by rw [h2]; simp [hi], ?_⟩
    have : (t.terminals.map num)[i]? = some (num l) := by simp [hi]
    have hy : (yield t)[i]? = some (num l) := this
    rw [hn] at hy
    have := (List.getElem?_eq_some_iff.1 hy)
    obtain ⟨hlt, he⟩ := this
    rw [List.getElem_range'] at he
    omega

/-! ## the sentence an oracle returns (T10.3) -/

/-- `sentenceOf` (`TT/Spec/More12c.lean`): (word, tag) per token in sentence order; the replay automata of
    `Spec/Replay.lean` consume exactly these tokens, numbered 1..n -/
theorem sentenceOf_length (t : Tree) : (sentenceOf t).length = t.leafNums.length := by
  unfold sentenceOf terminals
  rw [List.length_map, (sortBy_perm num t.leaves).length_eq]
  simp [leafNums]

theorem map_num_zipIdx {β} (F : Tree → Nat → β) : ∀ (L : List Tree) (k : Nat),
    L.map num = List.range' (k + 1) L.length →
    L.map (fun l => F l (num l)) = (L.zipIdx k).map (fun p => F p.1 (p.2 + 1))
  | [], _, _ => rfl
  | a :: L, k, h => by
    simp only [List.map_cons, List.length_cons, List.range'_succ, List.cons.injEq] at h
    simp only [List.map_cons, List.zipIdx_cons, h.1, map_num_zipIdx F L (k + 1) h.2]

theorem tokenLeaves_eq_sentenceOf (t : Tree) (h : WF t = true) :
    tokenLeaves t = (sentenceOf t).zipIdx.map fun p => leaf (p.2 + 1) { label := p.1.2, word := p.1.1 } := by
  have hn : t.terminals.map num = List.range' 1 t.terminals.length := by
    have := TT.Props.C19.yield_of_WF t h
    have hl : t.terminals.length = t.leafNums.length := by
      have := congrArg List.length this
      simpa [yield] using this
    rw [hl]; exact this
  unfold tokenLeaves sentenceOf
  rw [List.zipIdx_map, List.map_map]
  exact map_num_zipIdx (fun l n => leaf n { label := l.fields.label, word := l.fields.word }) t.terminals 0 hn

/-! ## `topdown` needs a binarized tree -/

/-- the converse of the premise "binarized" of `C10.topdown_replays`: a tree with a node of more than two children is
    refused by the top-down oracle -/
theorem topdown_refuses (t : Tree) (h : 2 < maxArity t) : ∃ e, topdown t = .error e := by
  obtain ⟨s, hs, hn⟩ := maxArity_witness 2 t h
  have hp : s ∈ t.preorder := (TT.Lemmas.Nav.preorder_perm_subtrees t).mem_iff.2 hs
  obtain ⟨e, he⟩ := mapM_error_of_mem topdownAct t.preorder s hp (topdownAct_error s hn)
  exact ⟨e, by simp [topdown, he]; rfl⟩

example : maxArity exTop = 3 := by decide +kernel
example : ∃ e, topdown exTop = .error e := topdown_refuses exTop (by decide +kernel)


/-! ## T10.4 the sibling's head side, under "exactly one head child per constituent"

  The replay automata state the head side of ONE child of a binary constituent (`withHead left x`) and leave the
  sibling open (`clearHead y`).  `headsExactlyOne`, `fillHeads` (`TT/Spec/More12c.lean`): if the original marks
  exactly one child of every binary constituent as head, completing the sibling with the other side still agrees. -/

/-- `fillPair` states both sides as soon as one is stated -/
theorem fillPair_both (a b : Tree) (h : a.fields.head.isSome ∨ b.fields.head.isSome) :
    ∀ x ∈ fillPair [a, b], x.fields.head.isSome = true := by
  have hw : ∀ (k : Bool) (x : Tree), (withHead k x).fields.head = some k := by
    intro k x; cases x <;> rfl
  simp only [fillPair]
  split
  · rename_i hd he hf
    intro x hx
    simp only [List.mem_cons, List.not_mem_nil, or_false] at hx
    rcases hx with rfl | rfl
    · simp [he]
    · simp [hw]
  · rename_i hd he hf
    intro x hx
    simp only [List.mem_cons, List.not_mem_nil, or_false] at hx
    rcases hx with rfl | rfl
    · simp [hw]
    · simp [hf]
  · rename_i h1 h2
    intro x hx
    simp only [List.mem_cons, List.not_mem_nil, or_false] at hx
    cases ha : a.fields.head with
    | none =>
      cases hb : b.fields.head with
      | none => simp [ha, hb] at h
      | some k => exact absurd hb (h2 k ha)
    | some k =>
      cases hb : b.fields.head with
      | none => exact absurd hb (h1 k ha)
      | some k' => rcases hx with rfl | rfl <;> simp [ha, hb]

/-- top-down: the rebuilt tree with the sibling sides completed agrees with the original -/
theorem topdown_heads_complete (t : Tree) (hwf : WF t = true) (hc : continuous t = true) (hb : maxArity t ≤ 2)
    (hh : ∀ s ∈ t.subtrees, ∀ f a b, s = node f [a, b] → a.fields.head.isSome ∧ b.fields.head.isSome)
    (hx : headsExactlyOne t = true) :
    ∃ acts r, topdown t = .ok acts ∧ replayTopdown t acts = some r ∧
      agreesS (sortKids t) (fillHeads (sortKids r)) = true := by
  obtain ⟨acts, r, h1, h2, h3⟩ := topdown_replays t hwf hc hb hh
  exact ⟨acts, r, h1, h2, agrees_fillHeads t r h3 hx⟩

/-- gap oracle: the same -/
theorem gap_heads_complete (t : Tree) (hwf : WF t = true) (hb : maxArity t ≤ 2)
    (hh : ∀ s ∈ t.subtrees, s ≠ t → s.fields.head.isSome) (hx : headsExactlyOne t = true) :
    ∃ acts r, gapOracle t = .ok acts ∧ replayGap t acts = some r ∧
      agreesS (sortKids t) (fillHeads (sortKids r)) = true := by
  obtain ⟨acts, r, h1, h2, h3⟩ := gap_replays t hwf hb hh
  exact ⟨acts, r, h1, h2, agrees_fillHeads t r h3 hx⟩

example : headsExactlyOne exCont = true ∧ headsExactlyOne exGap = true := by decide +kernel
example : (match topdown exCont with
    | .ok acts => (replayTopdown exCont acts).map fun r => agreesS (sortKids exCont) (fillHeads (sortKids r))
    | .error _ => none) = some true := by decide +kernel
/-- the sibling of a stated head side is filled in: `VROOT -> S[head] ?` -/
example : (match gapOracle exGap with
    | .ok acts => (replayGap exGap acts).map fun r => (fillHeads (sortKids r)).kids.map (·.fields.head)
    | .error _ => none) = some [some true, some false] := by decide +kernel
/-- the hypothesis is needed: with two head children the completed sibling side contradicts the original -/
example : let t := nd "S" none [lf 1 "A" "a" (some true), lf 2 "B" "b" (some true)]
    headsExactlyOne t = false ∧
    (match topdown t with
     | .ok acts => (replayTopdown t acts).map fun r => (agrees t r, agreesS (sortKids t) (fillHeads (sortKids r)))
     | .error _ => none) = some (true, false) := by decide +kernel

end TT.Props.C10More
