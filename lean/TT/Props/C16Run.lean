/-
  C16, clause 8: the whole `treetools treeanalysis SRC TASK` command (`TT.runAnalysis`, TT/RunAnalysis.lean: export
  reader on the TEXT of the file, the task's accumulator over the trees in file order, the numbers of the report)
  against the treebank that the reader yields.

  * `runAnalysis_eq`, `runAnalysis_error`: the command is the report of the trees read; a reader error is the command's.
  * `runAnalysis_sentences`: `SentenceCount` reports the number of sentences read.
  * `runAnalysis_gap`: `GapDegree` reports #trees = sentences read, #nodes = constituents of the file, and lists for
    every degree `d` the number of trees / of constituents of that degree (not listed iff there is none).
  * `runAnalysis_tags`: `PosTags` reports the number of different tags among the tokens of the file: every tag that
    occurs on a token is counted, once; never more than the number of tokens.
  * `runAnalysis_*_append`: the report for the file `a ++ "\n" ++ b` (`a` a complete file) is the sum of the reports
    (per degree for `GapDegree`; for `PosTags` the union of the tag sets); errors of `a` first.
-/
import TT.RunAnalysis
import TT.Props.C16Total
import TT.Props.C16Tags
import TT.Props.C18
import TT.Props.C18Local
import TT.Lemmas.More15d
namespace TT.Props.C16Run
open TT TT.Tree TT.Spec
open TT.Props.C16Total (constituents)
open TT.Props.C16Tags (fileTags)
open TT.Props.C18 (Complete lines)
open TT.Lemmas.More15d (okBeq eq_of_okBeq eq_of_errBeq)

/-- the trees of what the reader yields -/
abbrev treesOf (r : List (Nat × Tree)) : List Tree := r.map (·.2)

/-- the count a table lists for degree `d` (0 when the degree is not listed) -/
abbrev cnt (d : Nat) (l : List (Nat × Nat)) : Nat := TT.Lemmas.More12f.cnt d l

/-! ### the command is the report of the trees read -/

theorem runAnalysis_eq (task : AnalysisTask) (text : Str) :
    runAnalysis task text = (readExport {} text).map fun r => analyse task (treesOf r) := by
  unfold runAnalysis runAnalysisFrom
  cases readExport {} text <;> rfl

theorem runAnalysis_ok (task : AnalysisTask) (text : Str) (r : List (Nat × Tree)) (h : readExport {} text = .ok r) :
    runAnalysis task text = .ok (analyse task (treesOf r)) := by
  rw [runAnalysis_eq, h]; rfl

/-- a file the reader refuses: the command ends with the reader's error, whatever the task -/
theorem runAnalysis_error (task : AnalysisTask) (text : Str) (e : Err) (h : readExport {} text = .error e) :
    runAnalysis task text = .error e := by
  rw [runAnalysis_eq, h]; rfl

/-- the command succeeds exactly when the reader does -/
theorem runAnalysis_ok_iff (task : AnalysisTask) (text : Str) :
    (∃ rep, runAnalysis task text = .ok rep) ↔ ∃ r, readExport {} text = .ok r := by
  rw [runAnalysis_eq]
  cases readExport {} text <;> simp [Except.map]

/-- the three `rfl`-size statements: which accumulator the command runs -/
theorem runAnalysisFrom_gap (r : List (Nat × Tree)) :
    runAnalysisFrom .gapDegree (.ok r) = .ok (gapReport ((treesOf r).foldl GapStats.run {})) := rfl
theorem runAnalysisFrom_tags (r : List (Nat × Tree)) :
    runAnalysisFrom .posTags (.ok r) = .ok (.tags (distinctCount ((treesOf r).foldl posTagsRun []))) := rfl
theorem runAnalysisFrom_sentences (r : List (Nat × Tree)) :
    runAnalysisFrom .sentenceCount (.ok r) = .ok (.sentences ((treesOf r).foldl sentenceCountRun 0)) := rfl

/-! ### what the numbers are -/

/-- MAIN `SentenceCount`: the number printed is the number of sentences the reader yields -/
theorem runAnalysis_sentences (text : Str) (r : List (Nat × Tree)) (h : readExport {} text = .ok r) :
    runAnalysis .sentenceCount text = .ok (.sentences r.length) := by
  rw [runAnalysis_ok _ _ _ h]
  simp [analyse, TT.Props.C16Total.sentenceCount_total]

/-- MAIN `GapDegree`: "#trees" is the number of sentences read, "#nodes" the number of constituents of the file; the
    per-tree table lists for degree `d` the number of trees of gap degree `d`, the per-node table the number of
    constituents of gap degree `d` (a degree is not listed iff nothing has it); no degree is listed twice -/
theorem runAnalysis_gap (text : Str) (r : List (Nat × Tree)) (h : readExport {} text = .ok r) :
    ∃ pt pn, runAnalysis .gapDegree text =
        .ok (.gap r.length ((treesOf r).map fun t => (constituents t).length).sum pt pn) ∧
      (∀ d, (pt.find? (·.1 == d)).map (·.2) =
        (let n := ((treesOf r).filter fun t => gapDegree t = d).length; if n = 0 then none else some n)) ∧
      (∀ d, (pn.find? (·.1 == d)).map (·.2) =
        (let n := (((treesOf r).flatMap constituents).filter fun s => gapDegreeNode s = d).length
         if n = 0 then none else some n)) ∧
      (pt.map (·.1)).Nodup ∧ (pn.map (·.1)).Nodup := by
  refine ⟨((treesOf r).foldl GapStats.run {}).perTree, ((treesOf r).foldl GapStats.run {}).perNode, ?_, ?_, ?_, ?_, ?_⟩
  · rw [runAnalysis_ok _ _ _ h]
    obtain ⟨h1, h2⟩ := TT.Props.C16More.gapstats_totals (treesOf r)
    simp only [analyse, gapReport, h1, h2, List.length_map]
  · exact fun d => TT.Props.C16Total.gapstats_perTree_count (treesOf r) d
  · exact fun d => TT.Props.C16Total.gapstats_perNode_count (treesOf r) d
  · exact (TT.Props.C16More.gapstats_keys_nodup (treesOf r)).2
  · exact (TT.Props.C16More.gapstats_keys_nodup (treesOf r)).1

/-- the per-degree counts of either table sum to the total printed before them -/
theorem runAnalysis_gap_sums (text : Str) (nt nn : Nat) (pt pn : List (Nat × Nat))
    (h : runAnalysis .gapDegree text = .ok (.gap nt nn pt pn)) :
    (pt.map (·.2)).sum = nt ∧ (pn.map (·.2)).sum = nn := by
  rw [runAnalysis_eq] at h
  cases hr : readExport {} text with
  | error e => rw [hr] at h; cases h
  | ok r =>
    rw [hr] at h
    simp only [Except.map, analyse, gapReport, Except.ok.injEq, AnalysisReport.gap.injEq] at h
    obtain ⟨h1, h2, h3, h4⟩ := h
    subst h3 h4
    exact ⟨h1, h2⟩

/-- MAIN `PosTags`: the number printed is the number of different tags on the tokens of the file: a tag is counted iff
    some token carries it, each once; there are as many collected tags as tokens, so the number is at most the number
    of tokens -/
theorem runAnalysis_tags (text : Str) (r : List (Nat × Tree)) (h : readExport {} text = .ok r) :
    ∃ tags : List Str, runAnalysis .posTags text = .ok (.tags tags.length) ∧ tags.Nodup ∧
      (∀ tag, tag ∈ tags ↔ ∃ t ∈ treesOf r, ∃ x ∈ t.terminals, x.fields.label = tag) ∧
      tags.length ≤ ((treesOf r).map fun t => t.leafNums.length).sum := by
  refine ⟨((treesOf r).foldl posTagsRun []).eraseDups, ?_, TT.Props.C16Tags.nodup_eraseDups _, ?_, ?_⟩
  · rw [runAnalysis_ok _ _ _ h]; rfl
  · exact fun tag => TT.Props.C16Tags.reported_counts_every_tag (treesOf r) tag
  · exact TT.Props.C16Tags.reported_le_tokens (treesOf r)

/-! ### the report of a concatenation of files -/

theorem treesOf_renum (o : InOpts) (k : Nat) (r : List (Nat × Tree)) :
    treesOf (r.map (TT.Lemmas.Proc.renum o k)) = treesOf r := by
  simp [treesOf, TT.Lemmas.Proc.renum, Function.comp_def]

/-- the trees of `a ++ "\n" ++ b` are the trees of `a` followed by those of `b`; an error of `a` comes first -/
theorem readExport_append_trees (a b : Str) (hc : Complete (lines a)) :
    (readExport {} (a ++ '\n' :: b)).map treesOf =
      match readExport {} a, readExport {} b with
      | .error e, _ => .error e
      | .ok _, .error e => .error e
      | .ok ra, .ok rb => .ok (treesOf ra ++ treesOf rb) := by
  rw [TT.Props.C18.readExport_append {} a b hc]
  cases readExport {} a with
  | error e => rfl
  | ok ra =>
    cases readExport {} b with
    | error e => rfl
    | ok rb =>
      simp only [Except.map, Except.ok.injEq]
      rw [show treesOf (ra ++ rb.map _) = treesOf ra ++ treesOf (rb.map _) from List.map_append, treesOf_renum]

/-- MAIN: the command on a concatenation of two files is the report of the trees of the first followed by the trees
    of the second (same accumulator instance); if the first file is refused so is the whole, with the same error; if only
    the second is refused the error is the second's -/
theorem runAnalysis_append (task : AnalysisTask) (a b : Str) (hc : Complete (lines a)) :
    runAnalysis task (a ++ '\n' :: b) =
      match readExport {} a, readExport {} b with
      | .error e, _ => .error e
      | .ok _, .error e => .error e
      | .ok ra, .ok rb => .ok (analyse task (treesOf ra ++ treesOf rb)) := by
  rw [runAnalysis_eq, TT.Props.C18.readExport_append {} a b hc]
  cases readExport {} a with
  | error e => rfl
  | ok ra =>
    cases readExport {} b with
    | error e => rfl
    | ok rb =>
      simp only [Except.map, Except.ok.injEq]
      rw [show treesOf (ra ++ rb.map _) = treesOf ra ++ treesOf (rb.map _) from List.map_append, treesOf_renum]

theorem runAnalysis_ok_inv (task : AnalysisTask) (text : Str) (rep : AnalysisReport)
    (h : runAnalysis task text = .ok rep) : ∃ r, readExport {} text = .ok r ∧ rep = analyse task (treesOf r) := by
  rw [runAnalysis_eq] at h
  cases hr : readExport {} text with
  | error e => rw [hr] at h; cases h
  | ok r => rw [hr] at h; exact ⟨r, rfl, by simpa [Except.map] using h.symm⟩

/-- MAIN `SentenceCount` of a concatenation: the sum -/
theorem runAnalysis_sentences_append (a b : Str) (hc : Complete (lines a)) (na nb : Nat)
    (ha : runAnalysis .sentenceCount a = .ok (.sentences na)) (hb : runAnalysis .sentenceCount b = .ok (.sentences nb)) :
    runAnalysis .sentenceCount (a ++ '\n' :: b) = .ok (.sentences (na + nb)) := by
  obtain ⟨ra, hra, ea⟩ := runAnalysis_ok_inv _ _ _ ha
  obtain ⟨rb, hrb, eb⟩ := runAnalysis_ok_inv _ _ _ hb
  rw [runAnalysis_append _ a b hc, hra, hrb]
  simp only [analyse, AnalysisReport.sentences.injEq] at ea eb ⊢
  rw [ea, eb, TT.Props.C18Local.sentenceCount_append]

/-- MAIN `GapDegree` of a concatenation: both totals add up, and so does, for every degree, the count of either table -/
theorem runAnalysis_gap_append (a b : Str) (hc : Complete (lines a)) (ta na tb nb : Nat) (pta pna ptb pnb : List (Nat × Nat))
    (ha : runAnalysis .gapDegree a = .ok (.gap ta na pta pna)) (hb : runAnalysis .gapDegree b = .ok (.gap tb nb ptb pnb)) :
    ∃ pt pn, runAnalysis .gapDegree (a ++ '\n' :: b) = .ok (.gap (ta + tb) (na + nb) pt pn) ∧
      ∀ d, cnt d pt = cnt d pta + cnt d ptb ∧ cnt d pn = cnt d pna + cnt d pnb := by
  obtain ⟨ra, hra, ea⟩ := runAnalysis_ok_inv _ _ _ ha
  obtain ⟨rb, hrb, eb⟩ := runAnalysis_ok_inv _ _ _ hb
  simp only [analyse, gapReport, AnalysisReport.gap.injEq] at ea eb
  obtain ⟨ea1, ea2, ea3, ea4⟩ := ea
  obtain ⟨eb1, eb2, eb3, eb4⟩ := eb
  refine ⟨((treesOf ra ++ treesOf rb).foldl GapStats.run {}).perTree,
    ((treesOf ra ++ treesOf rb).foldl GapStats.run {}).perNode, ?_, ?_⟩
  · rw [runAnalysis_append _ a b hc, hra, hrb]
    obtain ⟨h1, h2⟩ := TT.Props.C16More.gapstats_totals (treesOf ra ++ treesOf rb)
    obtain ⟨h3, h4⟩ := TT.Props.C16More.gapstats_totals (treesOf ra)
    obtain ⟨h5, h6⟩ := TT.Props.C16More.gapstats_totals (treesOf rb)
    simp only [analyse, gapReport, h1, h2, ea1, ea2, eb1, eb2, h3, h4, h5, h6, List.length_append, List.map_append,
      List.sum_append]
  · intro d
    subst ea3 ea4 eb3 eb4
    exact TT.Props.C18Local.gapstats_append_count (treesOf ra) (treesOf rb) d

/-- MAIN `PosTags` of a concatenation: the tags counted are those counted for one of the two files, so the number is at
    least either number and at most their sum (it is the sum exactly when the files share no tag) -/
theorem runAnalysis_tags_append (a b : Str) (hc : Complete (lines a)) (ra rb : List (Nat × Tree))
    (ha : readExport {} a = .ok ra) (hb : readExport {} b = .ok rb) :
    ∃ tags ta tb : List Str, runAnalysis .posTags (a ++ '\n' :: b) = .ok (.tags tags.length) ∧
      runAnalysis .posTags a = .ok (.tags ta.length) ∧ runAnalysis .posTags b = .ok (.tags tb.length) ∧
      tags.Nodup ∧ ta.Nodup ∧ tb.Nodup ∧ (∀ tag, tag ∈ tags ↔ tag ∈ ta ∨ tag ∈ tb) := by
  refine ⟨((treesOf ra ++ treesOf rb).foldl posTagsRun []).eraseDups, ((treesOf ra).foldl posTagsRun []).eraseDups,
    ((treesOf rb).foldl posTagsRun []).eraseDups, ?_, ?_, ?_, TT.Props.C16Tags.nodup_eraseDups _,
    TT.Props.C16Tags.nodup_eraseDups _, TT.Props.C16Tags.nodup_eraseDups _, ?_⟩
  · rw [runAnalysis_append _ a b hc, ha, hb]; rfl
  · rw [runAnalysis_ok _ _ _ ha]; rfl
  · rw [runAnalysis_ok _ _ _ hb]; rfl
  · exact fun tag => TT.Props.C18Local.posTags_append_reported (treesOf ra) (treesOf rb) tag

/-! ### concrete files -/

abbrev exA : Str := TT.Props.C18.exA
abbrev exB : Str := TT.Props.C18.exB
/-- a file with a discontinuous sentence: `VP` covers tokens 1 and 3 -/
def exD : Str := "#BOS 4\nwas\t--\tW\t--\tHD\t500\nhat\t--\tV\t--\tHD\t501\ner\t--\tP\t--\tHD\t500\n#500\t--\tVP\t--\t--\t501\n#501\t--\tS\t--\t--\t0\n#EOS 4".toList

/-- what the reader yields for them (the kernel evaluates the reader once, on the text) -/
def fW (l w e : String) : Fields :=
  { label := l.toList, word := some w.toList, lemma := some "--".toList, morph := some "--".toList, edge := some e.toList }
def vroot : Fields := { label := "VROOT".toList, edge := some "--".toList }
def rA : List (Nat × Tree) :=
  [(7, node vroot [node (fW "NP" "#500" "--") [leaf 1 (fW "D" "the" "HD"), leaf 2 (fW "N" "dog" "HD")]]),
   (9, node vroot [leaf 1 (fW "N" "it" "HD")])]
def rB : List (Nat × Tree) := [(3, node vroot [leaf 1 (fW "ADV" "now" "HD")])]
def rD : List (Nat × Tree) :=
  [(4, node vroot [node (fW "S" "#501" "--") [node (fW "VP" "#500" "--") [leaf 1 (fW "W" "was" "HD"), leaf 3 (fW "P" "er" "HD")],
     leaf 2 (fW "V" "hat" "HD")]])]
theorem read_exA : readExport {} exA = .ok rA := eq_of_okBeq _ _ (by decide +kernel)
theorem read_exB : readExport {} exB = .ok rB := eq_of_okBeq _ _ (by decide +kernel)
theorem read_exD : readExport {} exD = .ok rD := eq_of_okBeq _ _ (by decide +kernel)
theorem complete_exA : Complete (lines exA) := by decide +kernel

/-- `GapDegree` (the root node `VROOT` of every sentence is a constituent too): file A, file D, and A followed by D -/
example : runAnalysis .gapDegree exA = .ok (.gap 2 3 [(0, 2)] [(0, 3)]) := by
  rw [runAnalysis_ok _ _ _ read_exA]; decide +kernel
example : runAnalysis .gapDegree exD = .ok (.gap 1 3 [(1, 1)] [(0, 2), (1, 1)]) := by
  rw [runAnalysis_ok _ _ _ read_exD]; decide +kernel
example : runAnalysis .gapDegree (exA ++ '\n' :: exD) = .ok (.gap 3 6 [(0, 2), (1, 1)] [(0, 5), (1, 1)]) := by
  rw [runAnalysis_append _ _ _ complete_exA, read_exA, read_exD]; decide +kernel
/-- ... as `runAnalysis_gap_append` says: 2 + 1 trees, 3 + 3 nodes, every count the sum -/
example : ∃ pt pn, runAnalysis .gapDegree (exA ++ '\n' :: exD) = .ok (.gap (2 + 1) (3 + 3) pt pn) ∧
    ∀ d, cnt d pt = cnt d [(0, 2)] + cnt d [(1, 1)] ∧ cnt d pn = cnt d [(0, 3)] + cnt d [(0, 2), (1, 1)] :=
  runAnalysis_gap_append exA exD complete_exA 2 3 1 3 _ _ _ _
    (by rw [runAnalysis_ok _ _ _ read_exA]; decide +kernel) (by rw [runAnalysis_ok _ _ _ read_exD]; decide +kernel)
/-- `PosTags`: D N / ADV; A followed by B has three tags, A followed by A still two -/
example : runAnalysis .posTags exA = .ok (.tags 2) ∧ runAnalysis .posTags exB = .ok (.tags 1) ∧
    runAnalysis .posTags (exA ++ '\n' :: exB) = .ok (.tags 3) ∧
    runAnalysis .posTags (exA ++ '\n' :: exA) = .ok (.tags 2) := by
  rw [runAnalysis_ok _ _ _ read_exA, runAnalysis_ok _ _ _ read_exB, runAnalysis_append _ _ _ complete_exA,
    runAnalysis_append _ _ _ complete_exA, read_exA, read_exB]
  decide +kernel
/-- `SentenceCount` -/
example : runAnalysis .sentenceCount exA = .ok (.sentences 2) ∧
    runAnalysis .sentenceCount (exA ++ '\n' :: exB) = .ok (.sentences 3) := by decide +kernel
example : runAnalysis .sentenceCount (exA ++ '\n' :: exB) = .ok (.sentences (2 + 1)) :=
  runAnalysis_sentences_append exA exB complete_exA 2 1 (by decide +kernel) (by decide +kernel)
/-- a sentence that is cut off by the next `#BOS`: the reader's error is the command's, for every task -/
example (task : AnalysisTask) : runAnalysis task "#BOS 1\n#BOS 2\n#EOS 2".toList = .error .indexError :=
  runAnalysis_error task _ _ (eq_of_errBeq _ _ (by decide +kernel))
/-- `Complete` cannot be dropped: an open sentence at the end of the first file swallows the second -/
example : runAnalysis .sentenceCount "#BOS 1".toList = .ok (.sentences 0) ∧
    runAnalysis .sentenceCount exB = .ok (.sentences 1) ∧
    runAnalysis .sentenceCount ("#BOS 1".toList ++ '\n' :: exB) = .error .indexError := by decide +kernel

end TT.Props.C16Run
