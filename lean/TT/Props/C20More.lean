/-
  C20 (more) — clause audit D, section C20:
  * `parse_built` / `parse_format`: PARSE ∘ FORMAT on labels assembled from independent parts (does not go through the parser's
    mirror `Spec.decompose`); the hypotheses are shown minimal by examples;
  * `erase_component5`, `erase_component_opts`: emptying one of the FIVE components (category included), all `always_*` options;
    `erase_exact5`, `erase_exact`: without default literals the result is literally the other pieces concatenated;
  * `getLabel_ok_iff`, `getLabel_error_iff`: exactly when `get_label` fails;
  * `parse_shape`: shape of the parsed fields.
  New specification-side definitions: `TT/Spec/More12g.lean` (`builtLabel`, `Comp5`, `Pieces.erase5`, `eraseParsed5`).
-/
import TT.Spec.More12g
import TT.Lemmas.More12g
import TT.Props.C20
import TT.Lemmas.Analysis
namespace TT.Props.C20More
open TT TT.Spec TT.Lemmas.C20 TT.Lemmas.More12g

/-! ## parse ∘ format on labels built from independent parts -/

theorem isDigit_ne_quote {z : Char} (h : z.isDigit = true) : z ≠ '\'' := by
  rintro rfl; revert h; decide

theorem pyIsDigit_last {d : Str} (h : pyIsDigit d = true) : ∃ z, d.getLast? = some z ∧ z.isDigit = true := by
  simp only [pyIsDigit, Bool.and_eq_true, List.all_eq_true] at h
  cases hl : d.getLast? with
  | none => rw [List.getLast?_eq_none_iff] at hl; subst hl; simp at h
  | some z => exact ⟨z, rfl, h.2 z (List.mem_of_getLast? hl)⟩

theorem getLast?_append_some {α} (a b : List α) (z : α) (h : b.getLast? = some z) : (a ++ b).getLast? = some z := by
  rw [List.getLast?_append, h]; rfl

/-- the index part `<c><digits>` or nothing -/
def idxPart (c : Char) (d : Str) : Str := if d.isEmpty then [] else c :: d

theorem idxPart_nil (c : Char) : idxPart c [] = [] := rfl
theorem idxPart_digits (c : Char) {d : Str} (h : pyIsDigit d = true) : idxPart c d = c :: d := by
  simp [idxPart, pyIsDigit_ne_nil h]

theorem builtLabel_eq (cat gf gap co : Str) (hm : Bool) :
    builtLabel cat gf gap co hm = (cat ++ '-' :: gf) ++ idxPart '=' gap ++ idxPart '-' co ++ (if hm then ['\''] else []) := by
  simp [builtLabel, idxPart]

theorem stripHead_built (Y : Str) (hm : Bool) (z : Char) (hz : Y.getLast? = some z) (hq : z ≠ '\'') :
    stripHead (Y ++ (if hm then ['\''] else [])) = (hm, Y) := by
  cases hm with
  | true => simp [stripHead, List.getLast?_append]
  | false => simp [stripHead, hz, hq]

theorem gap_step (X gap : Str) (x : Char) (hx : X.getLast? = some x) (hxd : x.isDigit = false)
    (hgap : gap = [] ∨ pyIsDigit gap = true) : stripIndex '=' (X ++ idxPart '=' gap) = (gap, X) := by
  rcases hgap with rfl | hg
  · rw [idxPart_nil, List.append_nil]
    exact stripIndex_skip '=' X (fun a b hs => suffix_not_digits_last X a b '=' x hxd hx hs)
  · rw [idxPart_digits '=' hg]
    exact stripIndex_found '=' (by decide) X gap hg

theorem co_step (X gap co : Str) (x : Char) (hx : X.getLast? = some x) (hxd : x.isDigit = false)
    (hgap : gap = [] ∨ pyIsDigit gap = true) (hco : co = [] ∨ pyIsDigit co = true) :
    stripIndex '-' (X ++ idxPart '=' gap ++ idxPart '-' co) = (co, X ++ idxPart '=' gap) := by
  rcases hco with rfl | hc
  · rw [idxPart_nil, List.append_nil]
    rcases hgap with rfl | hg
    · rw [idxPart_nil, List.append_nil]
      exact stripIndex_skip '-' X (fun a b hs => suffix_not_digits_last X a b '-' x hxd hx hs)
    · rw [idxPart_digits '=' hg]
      exact stripIndex_skip '-' _ (fun a b hs =>
        suffix_not_digits_behind X gap a b '-' '=' (by decide) (by decide) (not_mem_of_pyIsDigit hg (by decide)) hs)
  · rw [idxPart_digits '-' hc]
    exact stripIndex_found '-' (by decide) _ co hc

theorem last_built (X gap co : Str) (x : Char) (hx : X.getLast? = some x) (hq : x ≠ '\'')
    (hgap : gap = [] ∨ pyIsDigit gap = true) (hco : co = [] ∨ pyIsDigit co = true) :
    ∃ z, (X ++ idxPart '=' gap ++ idxPart '-' co).getLast? = some z ∧ z ≠ '\'' := by
  rcases hco with rfl | hc
  · rw [idxPart_nil, List.append_nil]
    rcases hgap with rfl | hg
    · rw [idxPart_nil, List.append_nil]; exact ⟨x, hx, hq⟩
    · obtain ⟨z, hz, hzd⟩ := pyIsDigit_last hg
      refine ⟨z, getLast?_append_some _ _ z ?_, isDigit_ne_quote hzd⟩
      rw [idxPart_digits '=' hg, List.getLast?_cons_of_ne_nil (by intro h; simp [h] at hz)]; exact hz
  · obtain ⟨z, hz, hzd⟩ := pyIsDigit_last hc
    refine ⟨z, getLast?_append_some _ _ z ?_, isDigit_ne_quote hzd⟩
    rw [idxPart_digits '-' hc, List.getLast?_cons_of_ne_nil (by intro h; simp [h] at hz)]; exact hz

/-- PARSE ∘ FORMAT on a label assembled from independent parts: every part comes back.
    `cat`: non-empty, without the separator `-`; `gf`: ends in a character that is neither a digit nor `'`
    (so it cannot be taken for an index or a head mark); indices: digit strings or absent. -/
theorem parse_built (cat gf gap co : Str) (hm : Bool) (x : Char)
    (hcat : cat ≠ []) (hsep : '-' ∉ cat)
    (hgf : gf.getLast? = some x) (hxd : x.isDigit = false) (hxq : x ≠ '\'')
    (hgap : gap = [] ∨ pyIsDigit gap = true) (hco : co = [] ∨ pyIsDigit co = true) :
    parseLabel ['-'] (builtLabel cat gf gap co hm) =
      { label := cat, gf := gf, gfSep := ['-'], coindex := co, gapindex := gap, headmarker := hm,
        isTrace := isTraceLabel cat } := by
  have hgfne : gf ≠ [] := by rintro rfl; simp at hgf
  have hX : (cat ++ '-' :: gf).getLast? = some x :=
    getLast?_append_some _ _ x (by rw [List.getLast?_cons_of_ne_nil hgfne]; exact hgf)
  obtain ⟨z, hz, hzq⟩ := last_built _ gap co x hX hxq hgap hco
  have hsplit : parseGf ['-'] (cat ++ '-' :: gf) = (cat, gf) := by
    have hc : cat.isEmpty = false := by cases cat <;> simp_all
    have hg : gf.isEmpty = false := by cases gf <;> simp_all
    simp [parseGf, splitGf, splitFirst_append '-' gf cat hsep, hc, hg]
  rw [parseLabel_eq, builtLabel_eq, stripHead_built _ hm z hz hzq]
  simp only [co_step _ gap co x hX hxd hgap hco, gap_step _ gap x hX hxd hgap, hsplit]
  have hc : cat.isEmpty = false := by cases cat <;> simp_all
  simp [hc]


example : parseLabel ['-'] (builtLabel "NP".toList "SB".toList "1".toList "22".toList true) =
    { label := "NP".toList, gf := "SB".toList, gfSep := ['-'], coindex := "22".toList, gapindex := "1".toList,
      headmarker := true, isTrace := false } :=
  parse_built _ _ _ _ _ 'B' (by decide) (by decide) (by decide) (by decide) (by decide) (by decide) (by decide)

/-- a trace category, `=` inside the category, `-` and `=` inside the function: still unambiguous -/
example : builtLabel "*T=1*".toList "S-B=".toList [] "3".toList false = "*T=1*-S-B=-3".toList ∧
    parseLabel ['-'] "*T=1*-S-B=-3".toList =
    { label := "*T=1*".toList, gf := "S-B=".toList, gfSep := ['-'], coindex := "3".toList, gapindex := [],
      headmarker := false, isTrace := true } :=
  ⟨by decide, parse_built "*T=1*".toList "S-B=".toList [] "3".toList false '=' (by decide) (by decide) (by decide) (by decide) (by decide)
    (by decide) (by decide)⟩

/-- none of the hypotheses can be dropped (the label grammar is ambiguous there):
    function `1` is read as a co-index, function `A'` as a head mark, an empty category swallows the function,
    a category with `-` is cut at its first `-`, a non-digit "index" stays in the function -/
example :
    (parseLabel ['-'] (builtLabel "NP".toList "1".toList [] [] false)).gf = "--".toList ∧
    (parseLabel ['-'] (builtLabel "NP".toList "1".toList [] [] false)).coindex = "1".toList ∧
    (parseLabel ['-'] (builtLabel "NP".toList "A'".toList [] [] false)).headmarker = true ∧
    (parseLabel ['-'] (builtLabel [] "A".toList [] [] false)).label = "-A".toList ∧
    (parseLabel ['-'] (builtLabel "N-P".toList "A".toList [] [] false)).label = "N".toList ∧
    (parseLabel ['-'] (builtLabel "NP".toList "A".toList [] "x".toList false)).gf = "A-x".toList := by decide

/-- the same as a law of the two functions: parsing what `format_label` writes gives the record back -/
theorem parse_format (l : Label) (al ag : Bool) (x : Char)
    (hsep : l.gfSep = ['-']) (htr : l.isTrace = isTraceLabel l.label)
    (hcat : l.label ≠ []) (hdash : '-' ∉ l.label)
    (hgf : l.gf.getLast? = some x) (hxd : x.isDigit = false) (hxq : x ≠ '\'')
    (hgap : l.gapindex = [] ∨ pyIsDigit l.gapindex = true) (hco : l.coindex = [] ∨ pyIsDigit l.coindex = true)
    (hal : l.label ≠ DEFAULT_LABEL ∨ al = true) (hag : l.gf ≠ DEFAULT_EDGE ∨ ag = true) :
    parseLabel l.gfSep (formatLabel al ag l) = l := by
  have hf : formatLabel al ag l = builtLabel l.label l.gf l.gapindex l.coindex l.headmarker := by
    have h1 : (decide (l.label ≠ DEFAULT_LABEL) || al) = true := by rcases hal with h | h <;> simp [h]
    have h2 : (decide (l.gf ≠ DEFAULT_EDGE) || ag) = true := by rcases hag with h | h <;> simp [h]
    simp only [formatLabel, builtLabel, h1, h2, if_true, hsep]
    simp
  rw [hf, hsep, parse_built _ _ _ _ _ x hcat hdash hgf hxd hxq hgap hco]
  obtain ⟨a, b, c, d, e, f, g⟩ := l
  simp only at hsep htr
  subst hsep htr
  rfl

def exL : Label :=
  { label := "NP".toList, gf := "SB".toList, gfSep := ['-'], coindex := "2".toList, gapindex := [], headmarker := true, isTrace := false }

example : formatLabel false false exL = "NP-SB-2'".toList ∧ parseLabel ['-'] (formatLabel false false exL) = exL :=
  ⟨by decide, parse_format exL false false 'B' rfl (by decide) (by decide) (by decide) (by decide) (by decide) (by decide) (by decide) (by decide)
    (by decide) (by decide)⟩

/-! ## shape of the parsed fields -/

theorem stripIndex_shape (c : Char) (s : Str) : (stripIndex c s).1 = [] ∨ pyIsDigit (stripIndex c s).1 = true := by
  unfold stripIndex
  cases splitLast c s with
  | none => exact Or.inl rfl
  | some p =>
    obtain ⟨a, b⟩ := p
    by_cases hd : pyIsDigit b = true
    · simp [hd]
    · simp [hd]

theorem parseGf_snd_ne_nil (sep s : Str) : (parseGf sep s).2 ≠ [] := by
  unfold parseGf
  cases h : splitGf sep s with
  | none => simp [DEFAULT_EDGE]
  | some p =>
    obtain ⟨a, b⟩ := p
    simp only
    unfold splitGf at h
    split at h
    · split at h
      · split at h
        · rename_i hd
          simp only [Option.some.injEq, Prod.mk.injEq] at h
          simp only [Bool.and_eq_true, Bool.not_eq_true', List.isEmpty_eq_false_iff] at hd
          rw [← h.2]; exact hd.2
        · cases h
      · cases h
    · cases h

/-- category and function are never empty; the indices are digit strings or absent -/
theorem parse_shape (sep s : Str) :
    (parseLabel sep s).label ≠ [] ∧ (parseLabel sep s).gf ≠ [] ∧
    ((parseLabel sep s).coindex = [] ∨ pyIsDigit (parseLabel sep s).coindex = true) ∧
    ((parseLabel sep s).gapindex = [] ∨ pyIsDigit (parseLabel sep s).gapindex = true) ∧
    (parseLabel sep s).gfSep = sep := by
  rw [parseLabel_eq]
  refine ⟨?_, ?_, stripIndex_shape _ _, stripIndex_shape _ _, rfl⟩
  · dsimp only
    split
    · decide
    · rename_i h; intro h'; rw [h'] at h; exact h rfl
  · exact parseGf_snd_ne_nil _ _

example : (parseLabel "-".toList "=3'".toList).label = "EMPTY".toList ∧ (parseLabel "-".toList "=3'".toList).gf = "--".toList ∧
    (parseLabel "-".toList "=3'".toList).gapindex = "3".toList := by decide


/-! ## emptying one component — the category included, any `always_*` options -/

theorem erase_component5 (sep s : Str) (al ag : Bool) (c : Comp5) :
    formatLabel al ag (eraseParsed5 (parseLabel sep s) c) = render sep al ag ((decompose sep s).erase5 c) := by
  obtain ⟨lab, gf, gfP, gap, co, hm, hf2, hp, hd⟩ := parse_decompose sep s
  rw [hp, hd]
  cases c
  · exact format_render sep [] gf gfP gap co hm _ al ag hf2
  · exact format_render sep lab gf gfP [] co hm _ al ag hf2
  · exact format_render sep lab gf gfP gap [] hm _ al ag hf2
  · exact format_render sep lab DEFAULT_EDGE [] gap co hm _ al ag (Or.inl ⟨rfl, rfl⟩)
  · exact format_render sep lab gf gfP gap co false _ al ag hf2

/-- the four components of `Spec.Comp`, now for all `always_label`, `always_gf` -/
theorem erase_component_opts (sep s : Str) (al ag : Bool) (c : Comp) :
    formatLabel al ag (eraseParsed (parseLabel sep s) c) = render sep al ag ((decompose sep s).erase c) := by
  cases c
  · exact erase_component5 sep s al ag .gap
  · exact erase_component5 sep s al ag .co
  · exact erase_component5 sep s al ag .gf
  · exact erase_component5 sep s al ag .hm

/-- without default literals `render` is plain concatenation -/
theorem render_concat (sep : Str) (p : Pieces) (h : noDefaultLiteral sep p = true) : render sep false false p = p.concat := by
  simp only [noDefaultLiteral, Bool.and_eq_true, decide_eq_true_eq] at h
  obtain ⟨h1, h2⟩ := h
  obtain ⟨cat, gfP, gapP, coP, hmP⟩ := p
  cases cat <;> cases gfP <;> simp_all [render, Pieces.concat]

theorem noDefaultLiteral_erase5 (sep : Str) (p : Pieces) (c : Comp5) (h : noDefaultLiteral sep p = true) :
    noDefaultLiteral sep (p.erase5 c) = true := by
  simp only [noDefaultLiteral, Bool.and_eq_true, decide_eq_true_eq] at h ⊢
  cases c <;> simp_all [Pieces.erase5, DEFAULT_LABEL, DEFAULT_EDGE]

/-- "removes exactly that component and nothing else": with no default literal in the label, the result is literally the
    concatenation of the four other pieces -/
theorem erase_exact5 (sep s : Str) (c : Comp5) (h : noDefaultLiteral sep (decompose sep s) = true) :
    formatLabel false false (eraseParsed5 (parseLabel sep s) c) = ((decompose sep s).erase5 c).concat := by
  rw [erase_component5, render_concat sep _ (noDefaultLiteral_erase5 sep _ c h)]

theorem erase_exact (sep s : Str) (c : Comp) (h : noDefaultLiteral sep (decompose sep s) = true) :
    formatLabel false false (eraseParsed (parseLabel sep s) c) = ((decompose sep s).erase c).concat := by
  cases c
  · exact erase_exact5 sep s .gap h
  · exact erase_exact5 sep s .co h
  · exact erase_exact5 sep s .gf h
  · exact erase_exact5 sep s .hm h

example : formatLabel false false (eraseParsed5 (parseLabel "-".toList "NP-SBJ=1-2'".toList) .cat) = "-SBJ=1-2'".toList ∧
    formatLabel true false (eraseParsed5 (parseLabel "-".toList "NP-SBJ=1-2'".toList) .cat) = "EMPTY-SBJ=1-2'".toList ∧
    formatLabel false true (eraseParsed5 (parseLabel "-".toList "NP-SBJ=1-2'".toList) .gf) = "NP---=1-2'".toList ∧
    ((decompose "-".toList "NP-SBJ=1-2'".toList).erase5 .cat).concat = "-SBJ=1-2'".toList ∧
    noDefaultLiteral "-".toList (decompose "-".toList "NP-SBJ=1-2'".toList) = true := by decide

/-- the hypothesis of `erase_exact` is needed: a literal `--` function disappears together with the erased head mark -/
example : formatLabel false false (eraseParsed (parseLabel "-".toList "A---'".toList) .hm) = "A".toList ∧
    ((decompose "-".toList "A---'".toList).erase .hm).concat = "A---".toList := by decide

/-! ## `get_label`: exactly when it fails -/

theorem getLabel_ok_iff (o : OutOpts) (t : Tree) :
    (∃ s, getLabel o t = .ok s) ↔
      (o.markHeads = true → t.fields.head.isSome = true) ∧
      ((o.splitMarking = true ∨ o.splitNumbering = true) → t.fields.split.isSome = true) ∧
      (o.splitNumbering = true → t.fields.split = some true → t.fields.blockNumber.isSome = true) := by
  unfold getLabel
  dsimp only
  generalize (if (o.gf && !decide (List.head? (t.fields.edge.getD DEFAULT_EDGE) = some '-') &&
      (!t.kids.isEmpty || o.gfTerminals)) = true
    then o.gfSeparator.getD DEFAULT_GF_SEP ++ t.fields.edge.getD DEFAULT_EDGE else []) = g
  generalize t.fields.label = lab
  generalize t.fields.head = fh
  generalize t.fields.split = fs
  generalize t.fields.blockNumber = fb
  generalize o.markHeads = mh
  generalize o.splitMarking = sm
  generalize o.splitNumbering = sn
  rcases fh with _ | _ | _ <;> rcases fs with _ | _ | _ <;> rcases fb with _ | n <;>
    cases mh <;> cases sm <;> cases sn <;>
    simp [bind, Except.bind, pure, Except.pure, throw, throwThe, MonadExcept.throw, MonadExceptOf.throw]

/-- the failure is a `KeyError`, and it happens exactly when a requested mark is absent -/
theorem getLabel_error_iff (o : OutOpts) (t : Tree) :
    getLabel o t = .error .keyError ↔
      ¬ ((o.markHeads = true → t.fields.head.isSome = true) ∧
         ((o.splitMarking = true ∨ o.splitNumbering = true) → t.fields.split.isSome = true) ∧
         (o.splitNumbering = true → t.fields.split = some true → t.fields.blockNumber.isSome = true)) := by
  rw [← getLabel_ok_iff]
  cases h : getLabel o t with
  | ok s => simp
  | error e =>
    have := TT.Lemmas.Analysis.getLabel_error o t e h
    subst this
    simp

example : (∃ s, getLabel { markHeads := true, splitNumbering := true }
    (.node { label := "NP".toList, head := some false, split := some true, blockNumber := some 2 } [.leaf 1 {}]) = .ok s) :=
  (getLabel_ok_iff _ _).2 (by decide)
example : getLabel { splitNumbering := true } (.node { label := "NP".toList, split := some true } [.leaf 1 {}]) = .error .keyError :=
  (getLabel_error_iff _ _).2 (by decide)

end TT.Props.C20More
