/-
  C17, clause 11 for `--dest-format tigerxml` (wave 19, P8): every part that `treetools transform ... --split spec` writes with
  TIGER-XML destination is a complete TIGER-XML document which the XML text parser of the model (`TT.Xml.parseXmlDoc`, TT/IO/Xml.lean)
  accepts, and what is parsed is the element structure (`xsentOf`) of exactly the sentences handed to that part, in order; the groups
  of sentences, taken in order, are the sentences that survived the steps.  Composed with the reader (`readTigerText`): every part is
  read as the trees of its group (content `tigerReadTop`, ids by the numbering option).

  * `split_parts_readable_tiger`       MAIN (on `runSplitFrom`): part i = `writeAll` of group i, `parseXmlDoc` part i = xsents of group i
  * `split_parts_readable_tiger_src`   the same on `runSplitSrc` (whatever the source format and reader options)
  * `split_parts_read_tiger`           composed with `tiger_text_roundtrip`: `readTigerText` of each part yields the part's trees
  * `split_parts_read_tiger_src`       ... on `runSplitSrc`
  * `split_tiger_parse_concat`         all parts at once: the documents parsed from the parts, concatenated, are the document parsed
                                       from the unsplit output
  * `split_parts_chars_of_whole`       the hypothesis on characters can be given for the unsplit output instead of part by part
  Hypotheses as in `C03Xml.parseXmlDoc_write`: `EncOK enc`, the written characters are legal XML characters (both necessary, see the
  examples at the end of C03Xml).  Helpers: TT/Lemmas/SplitXml19.lean.
-/
import TT.Lemmas.SplitXml19
import TT.Props.C18Src
namespace TT.Props.C17Xml
open TT TT.Tree TT.Xml
open TT.Spec (xsentOf tigerReadTop sameTree WF)
open TT.Lemmas.Xml19 TT.Lemmas.Run TT.Lemmas.SplitXml19

/-- MAIN.  TIGER-XML: every part of `transform … --split spec` is the TIGER-XML document of its group of sentences, the XML parser
    accepts it and delivers the element structure of exactly the sentences of that group, in order; the groups have the sizes of
    the specification and concatenate to the sentences that survived the steps. -/
theorem split_parts_readable_tiger (o : OutOpts) (steps : List Step) (enc : Option Str) (spec : Str)
    (ts ts' : List (Nat × Tree)) (sizes : List Nat) (parts : List Str) (henc : EncOK enc)
    (ht : transformAll steps ts = .ok ts') (hs : parseSplitSpec spec ts'.length = .ok sizes)
    (hp : runSplitFrom steps .tigerxml o enc spec (.ok ts) = .ok parts) (hc : ∀ part ∈ parts, part.all xmlCharOK = true) :
    ∃ groups : List (List (Nat × Tree)), groups.flatten = ts' ∧ groups.map List.length = sizes ∧ parts.length = groups.length ∧
      ∀ (i : Nat) (part : Str), parts[i]? = some part →
        ∃ g, groups[i]? = some g ∧ writeAll .tigerxml o enc g = .ok part ∧
          parseXmlDoc part = .ok (g.map fun st => xsentOf st.1 st.2) := by
  obtain ⟨groups, hfl, hlen, hm⟩ := TT.Props.C17Run.split_part_trees steps .tigerxml o enc spec ts ts' sizes parts ht hs hp
  exact ⟨groups, hfl, hlen, mapM_length _ _ _ hm, fun i part hpart => parts_of_groups o enc henc groups parts hm hc i part hpart⟩

/-- the same for the command with its source dispatch: whatever reader the sentences came from -/
theorem split_parts_readable_tiger_src (o : OutOpts) (steps : List Step) (enc : Option Str) (spec : Str) (io : InOpts) (src : Source)
    (ts ts' : List (Nat × Tree)) (sizes : List Nat) (parts : List Str) (henc : EncOK enc) (hr : readSrc io src = .ok ts)
    (ht : transformAll steps ts = .ok ts') (hs : parseSplitSpec spec ts'.length = .ok sizes)
    (hp : runSplitSrc steps .tigerxml o enc spec io src = .ok parts) (hc : ∀ part ∈ parts, part.all xmlCharOK = true) :
    ∃ groups : List (List (Nat × Tree)), groups.flatten = ts' ∧ groups.map List.length = sizes ∧ parts.length = groups.length ∧
      ∀ (i : Nat) (part : Str), parts[i]? = some part →
        ∃ g, groups[i]? = some g ∧ writeAll .tigerxml o enc g = .ok part ∧
          parseXmlDoc part = .ok (g.map fun st => xsentOf st.1 st.2) := by
  rw [TT.Props.C18Src.runSplitSrc_ok steps .tigerxml o enc spec io src ts hr] at hp
  exact split_parts_readable_tiger o steps enc spec ts ts' sizes parts henc ht hs hp hc

/-- composed with the reader: every part, read as text by the TIGER-XML reader, yields one tree per sentence of its group, in order,
    ids by the numbering option (the sentence numbers of the group, or 1.. with `continuous`), each with the content TIGER-XML holds
    for the sentence (`tigerReadTop`, modulo the storage order of children), well formed.
    `hgood`: the surviving trees are well formed and shorter than 500 tokens (as in `tiger_text_roundtrip`). -/
theorem split_parts_read_tiger (o : OutOpts) (steps : List Step) (enc : Option Str) (spec : Str) (io : InOpts)
    (hg : io.gfSplit = false) (hrp : io.replaceParens = false)
    (ts ts' : List (Nat × Tree)) (sizes : List Nat) (parts : List Str) (henc : EncOK enc)
    (ht : transformAll steps ts = .ok ts') (hs : parseSplitSpec spec ts'.length = .ok sizes)
    (hp : runSplitFrom steps .tigerxml o enc spec (.ok ts) = .ok parts) (hc : ∀ part ∈ parts, part.all xmlCharOK = true)
    (hgood : ∀ st ∈ ts', WF st.2 = true ∧ st.2.leafNums.length < 500) :
    ∃ groups : List (List (Nat × Tree)), groups.flatten = ts' ∧ groups.map List.length = sizes ∧ parts.length = groups.length ∧
      ∀ (i : Nat) (part : Str), parts[i]? = some part →
        ∃ g rs, groups[i]? = some g ∧ rs.length = g.length ∧
          readTigerText io part = .ok ((if io.continuous then List.range' 1 g.length else g.map (·.1)).zip rs) ∧
          (rs.zip g).all (fun x => sameTree x.1 (tigerReadTop x.2.2)) = true ∧ ∀ r ∈ rs, WF r = true := by
  obtain ⟨groups, hfl, hlen, hpl, h⟩ := split_parts_readable_tiger o steps enc spec ts ts' sizes parts henc ht hs hp hc
  refine ⟨groups, hfl, hlen, hpl, fun i part hpart => ?_⟩
  obtain ⟨g, hgi, hw, _⟩ := h i part hpart
  have hgg : ∀ st ∈ g, WF st.2 = true ∧ st.2.leafNums.length < 500 := fun st hst => hgood st (by
    rw [← hfl]; exact List.mem_flatten.2 ⟨g, List.mem_of_getElem? hgi, hst⟩)
  obtain ⟨rs, h1, h2, h3, h4⟩ := TT.Props.C03Xml.tiger_text_roundtrip o enc io hg hrp g part henc hw
    (hc part (List.mem_of_getElem? hpart)) hgg
  exact ⟨g, rs, hgi, h1, h2, h3, h4⟩

/-- ... for the command with its source dispatch -/
theorem split_parts_read_tiger_src (o : OutOpts) (steps : List Step) (enc : Option Str) (spec : Str) (sio : InOpts) (src : Source)
    (io : InOpts) (hg : io.gfSplit = false) (hrp : io.replaceParens = false)
    (ts ts' : List (Nat × Tree)) (sizes : List Nat) (parts : List Str) (henc : EncOK enc) (hr : readSrc sio src = .ok ts)
    (ht : transformAll steps ts = .ok ts') (hs : parseSplitSpec spec ts'.length = .ok sizes)
    (hp : runSplitSrc steps .tigerxml o enc spec sio src = .ok parts) (hc : ∀ part ∈ parts, part.all xmlCharOK = true)
    (hgood : ∀ st ∈ ts', WF st.2 = true ∧ st.2.leafNums.length < 500) :
    ∃ groups : List (List (Nat × Tree)), groups.flatten = ts' ∧ groups.map List.length = sizes ∧ parts.length = groups.length ∧
      ∀ (i : Nat) (part : Str), parts[i]? = some part →
        ∃ g rs, groups[i]? = some g ∧ rs.length = g.length ∧
          readTigerText io part = .ok ((if io.continuous then List.range' 1 g.length else g.map (·.1)).zip rs) ∧
          (rs.zip g).all (fun x => sameTree x.1 (tigerReadTop x.2.2)) = true ∧ ∀ r ∈ rs, WF r = true := by
  rw [TT.Props.C18Src.runSplitSrc_ok steps .tigerxml o enc spec sio src ts hr] at hp
  exact split_parts_read_tiger o steps enc spec io hg hrp ts ts' sizes parts henc ht hs hp hc hgood

/-- all parts at once, against the unsplit command: the parts parse to documents whose concatenation is the document parsed from
    the output of the command without `--split` -/
theorem split_tiger_parse_concat (o : OutOpts) (steps : List Step) (enc : Option Str) (spec : Str)
    (src : Except Err (List (Nat × Tree))) (parts : List Str) (whole : Str) (henc : EncOK enc)
    (hp : runSplitFrom steps .tigerxml o enc spec src = .ok parts) (hw : runFrom steps .tigerxml o enc src = .ok whole)
    (hc : ∀ part ∈ parts, part.all xmlCharOK = true) (hcw : whole.all xmlCharOK = true) :
    ∃ docs : List (List XSent), parts.mapM parseXmlDoc = .ok docs ∧ parseXmlDoc whole = .ok docs.flatten := by
  obtain ⟨ts, ts', sizes, rfl, h1, _, h3, h4⟩ := TT.Props.C17Run.runSplitFrom_inv steps .tigerxml o enc spec src parts hp
  rw [runFrom_ok, h1] at hw
  have hw' : writeAll .tigerxml o enc ts' = .ok whole := hw
  refine ⟨_, mapM_parse_groups o enc henc _ parts h3 hc, ?_⟩
  rw [TT.Props.C03Xml.parseXmlDoc_write o enc ts' whole henc hw' hcw, ← List.map_flatten, h4]

/-- the hypothesis on characters may be given once, for the output of the command without `--split`: every part consists of the
    same frame and a piece of the same body -/
theorem split_parts_chars_of_whole (o : OutOpts) (steps : List Step) (enc : Option Str) (spec : Str)
    (src : Except Err (List (Nat × Tree))) (parts : List Str) (whole : Str)
    (hp : runSplitFrom steps .tigerxml o enc spec src = .ok parts) (hw : runFrom steps .tigerxml o enc src = .ok whole)
    (hcw : whole.all xmlCharOK = true) : ∀ part ∈ parts, part.all xmlCharOK = true := by
  obtain ⟨bodies, rfl, hrun⟩ := TT.Props.C17Run.split_tiger steps o enc spec src parts hp
  rw [hw] at hrun
  injection hrun with hrun
  subst hrun
  intro part hpart
  obtain ⟨b, hb, rfl⟩ := List.mem_map.1 hpart
  exact all_frame_part xmlCharOK _ _ bodies b hb hcw

/-! ### concrete instances -/

open TT.Props.C03Xml (exT exV)

/-- three sentences (the two trees of C03Xml: discontinuous storage order, quotes, XML specials, a line break and a non-ASCII letter
    in words), split `1#_rest`: parts of 1 and 2 sentences -/
def exSrcX : List (Nat × Tree) := [(7, exT), (9, exV), (12, exT)]
def exRun : Except Err (List Str) := runSplitFrom [] .tigerxml {} (some "utf-8".toList) "1#_rest".toList (.ok exSrcX)
def exParts : List Str := exRun.toOption.getD []

theorem exParts_ok : runSplitFrom [] .tigerxml {} (some "utf-8".toList) "1#_rest".toList (.ok exSrcX) = .ok exParts :=
  ok_of_isSome exRun [] (by decide +kernel)

theorem exHyps : EncOK (some "utf-8".toList) ∧ parseSplitSpec "1#_rest".toList exSrcX.length = .ok [1, 2] ∧ exParts.length = 2 ∧
    (∀ part ∈ exParts, part.all xmlCharOK = true) ∧ (∀ st ∈ exSrcX, WF st.2 = true ∧ st.2.leafNums.length < 500) := by
  refine ⟨?_, by decide +kernel, by decide +kernel, ?_, by decide +kernel⟩
  · intro e he; injection he with he; subst he; decide +kernel
  · exact List.all_eq_true.1 (by decide +kernel)

/-- both parts are TIGER-XML documents the parser accepts; part 0 holds sentence 7, part 1 the sentences 9 and 12 -/
example : ∃ p0 p1, runSplitFrom [] .tigerxml {} (some "utf-8".toList) "1#_rest".toList (.ok exSrcX) = .ok [p0, p1] ∧
    parseXmlDoc p0 = .ok [xsentOf 7 exT] ∧ parseXmlDoc p1 = .ok [xsentOf 9 exV, xsentOf 12 exT] := by
  obtain ⟨henc, hs, hl, hc, _⟩ := exHyps
  obtain ⟨groups, hfl, hlen, hpl, h⟩ := split_parts_readable_tiger {} [] (some "utf-8".toList) "1#_rest".toList exSrcX exSrcX [1, 2]
    exParts henc (transformAll_nil_steps _) hs exParts_ok hc
  match hparts : exParts, hl with
  | [p0, p1], _ =>
    rw [hparts] at h
    have hex := exParts_ok
    rw [hparts] at hex
    refine ⟨p0, p1, hex, ?_, ?_⟩
    · obtain ⟨g, hg, _, hparse⟩ := h 0 p0 rfl
      rw [hparse]
      -- the groups are determined by their sizes and their concatenation
      match groups, hlen, hfl, hg with
      | [g0, g1], hlen, hfl, hg =>
        simp only [List.map_cons, List.map_nil, List.cons.injEq, and_true] at hlen
        simp only [List.getElem?_cons_zero, Option.some.injEq] at hg
        subst hg
        match g0, g1, hlen, hfl with
        | [a], [b, c], _, hfl =>
          simp only [exSrcX, List.flatten_cons, List.flatten_nil, List.cons_append, List.nil_append, List.append_nil,
            List.cons.injEq, and_true] at hfl
          obtain ⟨rfl, _, _⟩ := hfl
          rfl
    · obtain ⟨g, hg, _, hparse⟩ := h 1 p1 rfl
      rw [hparse]
      match groups, hlen, hfl, hg with
      | [g0, g1], hlen, hfl, hg =>
        simp only [List.map_cons, List.map_nil, List.cons.injEq, and_true] at hlen
        simp only [List.getElem?_cons_succ, List.getElem?_cons_zero, Option.some.injEq] at hg
        subst hg
        match g0, g1, hlen, hfl with
        | [a], [b, c], _, hfl =>
          simp only [exSrcX, List.flatten_cons, List.flatten_nil, List.cons_append, List.nil_append, List.append_nil,
            List.cons.injEq, and_true] at hfl
          obtain ⟨_, rfl, rfl⟩ := hfl
          rfl

/-- both parts are read by the TIGER-XML reader on text: as many trees as sentences in the part, well formed -/
example : ∃ parts, runSplitFrom [] .tigerxml {} (some "utf-8".toList) "1#_rest".toList (.ok exSrcX) = .ok parts ∧ parts.length = 2 ∧
    ∀ (i : Nat) (part : Str), parts[i]? = some part → ∃ (ids : List Nat) (rs : List Tree), readTigerText {} part = .ok (ids.zip rs) ∧ ∀ r ∈ rs, WF r = true := by
  obtain ⟨henc, hs, hl, hc, hgood⟩ := exHyps
  obtain ⟨groups, _, _, _, h⟩ := split_parts_read_tiger {} [] (some "utf-8".toList) "1#_rest".toList {} rfl rfl exSrcX exSrcX [1, 2]
    exParts henc (transformAll_nil_steps _) hs exParts_ok hc hgood
  refine ⟨exParts, exParts_ok, hl, fun i part hpart => ?_⟩
  obtain ⟨g, rs, _, _, hr, _, hwf⟩ := h i part hpart
  exact ⟨_, rs, hr, hwf⟩

/-- the same by evaluation on the texts themselves: sentence ids and words of each part -/
example : exParts.map (fun p => (parseXmlDoc p).toOption.map fun l => l.map fun s => (s.id, s.terms.map fun t => t.word.getD [])) =
    [some [("7".toList, ["w\"".toList, "b<\"'&\n".toList])],
     some [("9".toList, ["ü>".toList]), ("12".toList, ["w\"".toList, "b<\"'&\n".toList])]] := by decide +kernel

/-- and the reader on each part: sentence numbers 7 | 9, 12 (with `continuous`: 1 | 1, 2) -/
example : exParts.map (fun p => (readTigerText {} p).toOption.map fun l => l.map (·.1)) = [some [7], some [9, 12]] ∧
    exParts.map (fun p => (readTigerText { continuous := true } p).toOption.map fun l => l.map (·.1)) = [some [1], some [1, 2]] := by
  decide +kernel

/-- the unsplit output and the concatenation of what the parts parse to -/
example : ∃ whole docs, runFrom [] .tigerxml {} (some "utf-8".toList) (.ok exSrcX) = .ok whole ∧
    exParts.mapM parseXmlDoc = .ok docs ∧ parseXmlDoc whole = .ok docs.flatten := by
  obtain ⟨henc, _, _, hc, _⟩ := exHyps
  have hw := ok_of_isSome (runFrom [] .tigerxml {} (some "utf-8".toList) (.ok exSrcX)) [] (by decide +kernel)
  obtain ⟨docs, h1, h2⟩ := split_tiger_parse_concat {} [] (some "utf-8".toList) "1#_rest".toList (.ok exSrcX) exParts _ henc exParts_ok hw hc
    (by decide +kernel)
  exact ⟨_, docs, hw, h1, h2⟩

/-- with the source dispatch: a TIGER-XML source (the element structure of the three sentences), split into TIGER-XML parts; the
    hypotheses of `split_parts_readable_tiger_src` hold and its conclusion is seen by evaluation -/
example : ∃ ts parts, readSrc {} (.tigerxml (exSrcX.map fun st => xsentOf st.1 st.2)) = .ok ts ∧ ts.map (·.1) = [7, 9, 12] ∧
    runSplitSrc [] .tigerxml {} none "1#_rest".toList {} (.tigerxml (exSrcX.map fun st => xsentOf st.1 st.2)) = .ok parts ∧
    parts.all (fun p => p.all xmlCharOK) = true ∧
    parts.map (fun p => (parseXmlDoc p).toOption.map fun l => l.map (·.id)) = [some ["7".toList], some ["9".toList, "12".toList]] := by
  have h1 := ok_of_isSome (readSrc {} (.tigerxml (exSrcX.map fun st => xsentOf st.1 st.2))) [] (by decide +kernel)
  have h2 := ok_of_isSome (runSplitSrc [] .tigerxml {} none "1#_rest".toList {} (.tigerxml (exSrcX.map fun st => xsentOf st.1 st.2))) []
    (by decide +kernel)
  exact ⟨_, _, h1, by decide +kernel, h2, by decide +kernel, by decide +kernel⟩

/-- `hc` is necessary for a part just as for a whole file: a control character in a word of the second part makes that part (and
    only that part) a text no XML parser accepts -/
example : (runSplitFrom [] .tigerxml {} none "1#_rest".toList (.ok [(1, exV),
      (2, node { label := "VROOT".toList } [leaf 1 { label := "A".toList, word := some "a\x01".toList }])])).toOption.map
    (fun parts => parts.map fun p => (p.all xmlCharOK, (parseXmlDoc p).toOption.isSome)) = some [(true, true), (false, false)] := by
  decide +kernel

end TT.Props.C17Xml
