/-
  C05 (rows 7 and 8 of the audit) — after `boyd_split` alone, on the WHOLE tree: every original
  constituent covering k blocks is represented by exactly k same-labelled nodes carrying its uid, their
  yields are its blocks in order, `block_number` is the position, `split` is set iff k > 1, and exactly
  one of them is the head block.

  Main theorems
  * `boydSplit_splitOK (t t') (WF t) (uidsOK t) (hh : every constituent of t has exactly one child with
      head = true) (h : boydSplit t = .ok t') : splitOK t t' = true`
      (`splitOK` = `TT.Spec.splitOK`).  The hypothesis `hh` (the one of `C05.raise_spec`) is NOT in the first
      proposal; it cannot be dropped: `cexNoHead`, `cexTwoHeads` below (WF, uids fine, `boydSplit` succeeds,
      `splitOK` false: 0 resp. 2 head blocks).  `uidsOK` cannot be dropped either (`cexUid`).
  * `boydSplit_splitOK_of_oneHeadEach` : the same with `oneHeadEach t = true` (Boolean spec predicate).
  * `pipeline_negra_splitOK` : heads set by the NeGra heuristic inside the statement, no head hypothesis.
  * `boydNode_one_headBlock (f ks r) (h : boydNode (node f ks) = .ok r) (hh : one head child in every
      constituent below) (1 < r.length) : (r.filter (·.fields.headBlock == some true)).length = 1`
      (no well-formedness needed).
  * `boydSplit_reps_sorted` : the nodes of the result with the uid of an input constituent `s`, ordered by
      leftmost token, are literally the list `boydNode s` (whose yields are `s.blocks`).
  Supporting theorems (whole-tree / per call, usable on their own)
  * `boydNode_heads`, `boydKids_heads` : number of processed children that make their block the head block.
  * `boydNode_flags` : `split`, `blockNumber` (= position + 1), one head block, per replacement list.
  * `numberBlocks_zipIdx`, `numberBlocks_filter_headBlock`.
  * `boydNode_uids` / `boydKids_uids` : no new uid appears.
  * `boydNode_reps` / `boydKids_reps` : output nodes carrying the uid of `s` = `boydNode s`, up to order.
  Helper lemmas are at the top of this file.
-/
import TT.Spec.Transform
import TT.Lemmas.Sort
import TT.Lemmas.Nav
import TT.Lemmas.WF
import TT.Lemmas.Boyd
import TT.Lemmas.More10
import TT.Props.C04
import TT.Props.C05
import TT.Props.C05More
namespace TT.Props.C05Split
open TT TT.Tree TT.Spec TT.Lemmas.Boyd

/-! ### list helpers -/

theorem filter_flatten_zero {α} (p : α → Bool) : ∀ G : List (List α),
    (G.flatten.filter p).length = 0 → G.filter (·.any p) = []
  | [], _ => rfl
  | g :: G, h => by
    simp only [List.flatten_cons, List.filter_append, List.length_append] at h
    have hg : g.filter p = [] := List.length_eq_zero_iff.1 (by omega)
    have hany : g.any p = false := by
      rw [List.filter_eq_nil_iff] at hg
      rw [List.any_eq_false]; exact hg
    rw [List.filter_cons, hany]
    simpa using filter_flatten_zero p G (by omega)

theorem filter_flatten_one {α} (p : α → Bool) : ∀ G : List (List α),
    (G.flatten.filter p).length = 1 → (G.filter (·.any p)).length = 1
  | [], h => by simp at h
  | g :: G, h => by
    simp only [List.flatten_cons, List.filter_append, List.length_append] at h
    by_cases hg : (g.filter p).length = 0
    · have hg' : g.filter p = [] := List.length_eq_zero_iff.1 hg
      have hany : g.any p = false := by
        rw [List.filter_eq_nil_iff] at hg'
        rw [List.any_eq_false]; exact hg'
      rw [List.filter_cons, hany]
      simpa using filter_flatten_one p G (by omega)
    · have hany : g.any p = true := by
        rw [List.any_eq_true]
        have : g.filter p ≠ [] := fun h0 => hg (by rw [h0]; rfl)
        obtain ⟨x, hx⟩ := List.exists_mem_of_ne_nil _ this
        rw [List.mem_filter] at hx
        exact ⟨x, hx.1, hx.2⟩
      rw [List.filter_cons, hany, if_pos rfl, filter_flatten_zero p G (by omega)]
      rfl

/-! ### the head block -/

theorem carriesHead_block (f : Fields) (b : Bool) (i : Nat) (g : List Tree) :
    carriesHead (node { f with split := some true, headBlock := some b, blockNumber := some i } g) =
      (f.head == some true && b) := by
  cases b <;> simp [carriesHead, fields]

theorem numberBlocks_filter_carriesHead (f : Fields) : ∀ (i : Nat) (G : List (List Tree)),
    ((numberBlocks f i G).filter carriesHead).length =
      if f.head == some true then (G.filter (·.any carriesHead)).length else 0
  | _, [] => by simp [numberBlocks]
  | i, g :: G => by
    have ih := numberBlocks_filter_carriesHead f (i + 1) G
    rw [numberBlocks, List.filter_cons, carriesHead_block, List.filter_cons]
    cases hf : (f.head == some true) <;> cases hg : g.any carriesHead <;>
      simp [hf] at ih ⊢ <;> exact ih

theorem numberBlocks_filter_headBlock (f : Fields) : ∀ (i : Nat) (G : List (List Tree)),
    ((numberBlocks f i G).filter (fun r => r.fields.headBlock == some true)).length =
      (G.filter (·.any carriesHead)).length
  | _, [] => by simp [numberBlocks]
  | i, g :: G => by
    have ih := numberBlocks_filter_headBlock f (i + 1) G
    rw [numberBlocks, List.filter_cons, List.filter_cons]
    cases hg : g.any carriesHead <;> simp [fields] at ih ⊢ <;> exact ih

mutual
theorem boydNode_heads : (t : Tree) → (r : List Tree) → boydNode t = .ok r → OneHead (subtrees t) →
    (r.filter carriesHead).length = if t.fields.head == some true then 1 else 0
  | .leaf n f, r, h, _ => by
    simp only [boydNode, Except.ok.injEq] at h
    subst h
    by_cases hf : f.head = some true <;> simp [carriesHead, fields, hf]
  | .node f ks, r, h, hh => by
    rw [boydNode_node] at h
    cases hk : boydKids ks with
    | error e => simp [hk] at h
    | ok ks' =>
      simp only [hk] at h
      have hkids := boydKids_heads ks ks' hk (fun s hs => hh s (by simp [subtrees, hs]))
      have h1 : (ks'.filter carriesHead).length = 1 := by
        rw [hkids]; exact hh (node f ks) (by simp [subtrees]) f ks rfl
      unfold boydStep at h
      split at h
      · simp only [Except.ok.injEq] at h
        subst h
        by_cases hf : f.head = some true <;> simp [carriesHead, fields, hf]
      · split at h
        · simp at h
        · simp only [Except.ok.injEq] at h
          subst h
          rw [numberBlocks_filter_carriesHead]
          have : ((groupAdjacent (sortBy leftmost ks')).filter (·.any carriesHead)).length = 1 := by
            apply filter_flatten_one
            rw [groupAdjacent_flatten, ((sortBy_perm leftmost ks').filter _).length_eq]
            exact h1
          simp [this, fields]
theorem boydKids_heads : (ks : List Tree) → (ks' : List Tree) → boydKids ks = .ok ks' →
    OneHead (subtreesL ks) →
    (ks'.filter carriesHead).length = (ks.filter (fun k => k.fields.head == some true)).length
  | [], ks', h, _ => by
    simp only [boydKids, Except.ok.injEq] at h
    subst h
    rfl
  | t :: ts, ks', h, hh => by
    simp only [boydKids] at h
    cases ht : boydNode t with
    | error e => simp [ht] at h
    | ok a =>
      cases hts : boydKids ts with
      | error e => simp [ht, hts] at h
      | ok b =>
        simp only [ht, hts, Except.ok.injEq] at h
        subst h
        have h1 := boydNode_heads t a ht (fun s hs => hh s (by simp [subtreesL, hs]))
        have h2 := boydKids_heads ts b hts (fun s hs => hh s (by simp [subtreesL, hs]))
        rw [List.filter_append, List.length_append, h1, h2, List.filter_cons]
        split <;> simp <;> omega
end

/-- row 8: when a constituent is split into several blocks, exactly one of them is the head block -/
theorem boydNode_one_headBlock (f : Fields) (ks r : List Tree) (h : boydNode (node f ks) = .ok r)
    (hh : ∀ s ∈ (node f ks).subtrees, ∀ f' ks', s = node f' ks' →
      (ks'.filter (fun k => k.fields.head == some true)).length = 1)
    (hlen : 1 < r.length) :
    (r.filter (fun x => x.fields.headBlock == some true)).length = 1 := by
  rw [boydNode_node] at h
  cases hk : boydKids ks with
  | error e => simp [hk] at h
  | ok ks' =>
    simp only [hk] at h
    have hkids := boydKids_heads ks ks' hk (fun s hs => hh s (by simp [subtrees, hs]))
    have h1 : (ks'.filter carriesHead).length = 1 := by
      rw [hkids]; exact hh (node f ks) (by simp [subtrees]) f ks rfl
    unfold boydStep at h
    split at h
    · simp only [Except.ok.injEq] at h
      subst h
      simp at hlen
    · split at h
      · simp at h
      · simp only [Except.ok.injEq] at h
        subst h
        rw [numberBlocks_filter_headBlock]
        apply filter_flatten_one
        rw [groupAdjacent_flatten, ((sortBy_perm leftmost ks').filter _).length_eq]
        exact h1


/-! ### numbering, flags -/

theorem numberBlocks_zipIdx (f : Fields) : ∀ (i : Nat) (G : List (List Tree)),
    ((numberBlocks f i G).zipIdx i).all (fun (r, j) => r.fields.blockNumber == some (j + 1)) = true
  | _, [] => by simp [numberBlocks]
  | i, g :: G => by
    have ih := numberBlocks_zipIdx f (i + 1) G
    rw [numberBlocks, List.zipIdx_cons, List.all_cons, ih]
    simp [fields]

/-! ### node identities: which nodes of the output carry the uid of which input node -/

/-- no uid occurs twice among the nodes of `L` -/
def Uq (L : List Tree) : Prop := (L.filterMap (fun x => x.fields.uid)).Nodup

/-- the nodes below (and in) `L` that carry uid `u` -/
def reps (u : Nat) (L : List Tree) : List Tree :=
  (subtreesL L).filter (fun x => x.fields.uid == some u)

theorem Uq_cons {x : Tree} {L : List Tree} (h : Uq (x :: L)) :
    Uq L ∧ ∀ u, x.fields.uid = some u → ∀ y ∈ L, y.fields.uid ≠ some u := by
  unfold Uq at h ⊢
  cases hx : x.fields.uid with
  | none =>
    rw [List.filterMap_cons_none (by exact hx)] at h
    exact ⟨h, fun u hu => by simp at hu⟩
  | some v =>
    rw [List.filterMap_cons_some (by exact hx), List.nodup_cons] at h
    refine ⟨h.2, ?_⟩
    intro u hu y hy hyu
    simp only [Option.some.injEq] at hu
    subst hu
    exact h.1 (List.mem_filterMap.2 ⟨y, hy, hyu⟩)

theorem Uq_append {A B : List Tree} (h : Uq (A ++ B)) :
    Uq A ∧ Uq B ∧ ∀ a ∈ A, ∀ b ∈ B, ∀ u, a.fields.uid = some u → b.fields.uid ≠ some u := by
  unfold Uq at h ⊢
  rw [List.filterMap_append, List.nodup_append] at h
  refine ⟨h.1, h.2.1, ?_⟩
  intro a ha b hb u hau hbu
  exact h.2.2 u (List.mem_filterMap.2 ⟨a, ha, hau⟩) u (List.mem_filterMap.2 ⟨b, hb, hbu⟩) rfl

theorem subtreesL_perm {a b : List Tree} (h : a.Perm b) : (subtreesL a).Perm (subtreesL b) := by
  rw [Lemmas.Nav.subtreesL_eq, Lemmas.Nav.subtreesL_eq]
  exact h.flatMap_right _

theorem subtreesL_numberBlocks (f : Fields) : ∀ (i : Nat) (G : List (List Tree)),
    (subtreesL (numberBlocks f i G)).Perm (numberBlocks f i G ++ subtreesL G.flatten)
  | _, [] => by simp [numberBlocks, subtreesL]
  | i, g :: G => by
    have ih := subtreesL_numberBlocks f (i + 1) G
    simp only [numberBlocks, subtreesL, subtrees, List.flatten_cons, subtreesL_append,
      List.cons_append]
    refine List.Perm.cons _ ?_
    exact (List.Perm.append_left _ ih).trans (List.perm_append_comm_assoc _ _ _)

theorem numberBlocks_uid (f : Fields) : ∀ (i : Nat) (G : List (List Tree)),
    ∀ x ∈ numberBlocks f i G, x.fields.uid = f.uid
  | _, [], x, h => by simp [numberBlocks] at h
  | i, g :: G, x, h => by
    simp only [numberBlocks, List.mem_cons] at h
    rcases h with rfl | h
    · rfl
    · exact numberBlocks_uid f (i + 1) G x h

/-- the nodes of the replacement list of one constituent: the new nodes, and everything below the
    processed children -/
theorem boydStep_subtrees (f : Fields) (ks' r : List Tree) (h : boydStep f ks' = .ok r) :
    (subtreesL r).Perm (r ++ subtreesL ks') ∧ ∀ x ∈ r, x.fields.uid = f.uid := by
  unfold boydStep at h
  split at h
  · simp only [Except.ok.injEq] at h
    subst h
    simp [subtreesL, subtrees, fields]
  · split at h
    · simp at h
    · simp only [Except.ok.injEq] at h
      subst h
      refine ⟨?_, numberBlocks_uid f 0 _⟩
      refine (subtreesL_numberBlocks f 0 _).trans (List.Perm.append_left _ ?_)
      rw [groupAdjacent_flatten]
      exact subtreesL_perm (sortBy_perm leftmost ks')

mutual
/-- every node of the output carries the uid of some node of the input -/
theorem boydNode_uids : (t : Tree) → (r : List Tree) → boydNode t = .ok r →
    ∀ x ∈ subtreesL r, ∃ s ∈ subtrees t, x.fields.uid = s.fields.uid
  | .leaf n f, r, h => by
    simp only [boydNode, Except.ok.injEq] at h
    subst h
    simp [subtreesL, subtrees, fields]
  | .node f ks, r, h => by
    rw [boydNode_node] at h
    cases hk : boydKids ks with
    | error e => simp [hk] at h
    | ok ks' =>
      simp only [hk] at h
      obtain ⟨hperm, huid⟩ := boydStep_subtrees f ks' r h
      intro x hx
      rcases List.mem_append.1 (hperm.subset hx) with hx | hx
      · exact ⟨node f ks, by simp [subtrees], huid x hx⟩
      · obtain ⟨s, hs, e⟩ := boydKids_uids ks ks' hk x hx
        exact ⟨s, by simp [subtrees, hs], e⟩
theorem boydKids_uids : (ks : List Tree) → (ks' : List Tree) → boydKids ks = .ok ks' →
    ∀ x ∈ subtreesL ks', ∃ s ∈ subtreesL ks, x.fields.uid = s.fields.uid
  | [], ks', h => by
    simp only [boydKids, Except.ok.injEq] at h
    subst h
    simp [subtreesL]
  | t :: ts, ks', h => by
    simp only [boydKids] at h
    cases ht : boydNode t with
    | error e => simp [ht] at h
    | ok a =>
      cases hts : boydKids ts with
      | error e => simp [ht, hts] at h
      | ok b =>
        simp only [ht, hts, Except.ok.injEq] at h
        subst h
        intro x hx
        rw [subtreesL_append] at hx
        rcases List.mem_append.1 hx with hx | hx
        · obtain ⟨s, hs, e⟩ := boydNode_uids t a ht x hx
          exact ⟨s, by simp [subtreesL, hs], e⟩
        · obtain ⟨s, hs, e⟩ := boydKids_uids ts b hts x hx
          exact ⟨s, by simp [subtreesL, hs], e⟩
end

theorem reps_eq_nil (u : Nat) (L : List Tree) (h : ∀ x ∈ subtreesL L, x.fields.uid ≠ some u) :
    reps u L = [] := by
  unfold reps
  rw [List.filter_eq_nil_iff]
  intro x hx
  simpa using h x hx

theorem reps_append (u : Nat) (A B : List Tree) : reps u (A ++ B) = reps u A ++ reps u B := by
  simp [reps, subtreesL_append]

mutual
/-- the nodes of the output that carry the uid of an input node `s` are exactly (up to order) the
    replacement list that `boydNode` computes for `s` -/
theorem boydNode_reps : (t : Tree) → (r : List Tree) → boydNode t = .ok r → Uq (subtrees t) →
    ∀ s ∈ subtrees t, ∀ u, s.fields.uid = some u →
      ∃ R0, boydNode s = .ok R0 ∧ (reps u r).Perm R0
  | .leaf n f, r, h, _, s, hs, u, hu => by
    simp only [subtrees, List.mem_singleton] at hs
    subst hs
    refine ⟨r, h, ?_⟩
    simp only [boydNode, Except.ok.injEq] at h
    subst h
    simp only [fields] at hu
    simp [reps, subtreesL, subtrees, fields, hu]
  | .node f ks, r, h0, hU, s, hs, u, hu => by
    have h := h0
    rw [boydNode_node] at h
    cases hk : boydKids ks with
    | error e => simp [hk] at h
    | ok ks' =>
      simp only [hk] at h
      obtain ⟨hperm, huid⟩ := boydStep_subtrees f ks' r h
      have hreps : (reps u r).Perm (r.filter (fun x => x.fields.uid == some u) ++ reps u ks') := by
        unfold reps
        rw [← List.filter_append]
        exact hperm.filter _
      simp only [subtrees] at hU hs
      obtain ⟨hU', hdis⟩ := Uq_cons hU
      rcases List.mem_cons.1 hs with rfl | hs
      · simp only [fields] at hu
        refine ⟨r, h0, ?_⟩
        have e1 : r.filter (fun x => x.fields.uid == some u) = r :=
          List.filter_eq_self.2 (fun x hx => by simp [huid x hx, hu])
        have e2 : reps u ks' = [] := by
          apply reps_eq_nil
          intro x hx
          obtain ⟨s', hs', e⟩ := boydKids_uids ks ks' hk x hx
          rw [e]
          exact hdis u hu s' hs'
        rw [e1, e2, List.append_nil] at hreps
        exact hreps
      · obtain ⟨R0, hR0, hp⟩ := boydKids_reps ks ks' hk hU' s hs u hu
        refine ⟨R0, hR0, ?_⟩
        have e1 : r.filter (fun x => x.fields.uid == some u) = [] := by
          rw [List.filter_eq_nil_iff]
          intro x hx hxu
          simp only [beq_iff_eq] at hxu
          rw [huid x hx] at hxu
          exact hdis u hxu s hs hu
        rw [e1, List.nil_append] at hreps
        exact hreps.trans hp
theorem boydKids_reps : (ks : List Tree) → (ks' : List Tree) → boydKids ks = .ok ks' →
    Uq (subtreesL ks) → ∀ s ∈ subtreesL ks, ∀ u, s.fields.uid = some u →
      ∃ R0, boydNode s = .ok R0 ∧ (reps u ks').Perm R0
  | [], ks', _, _, s, hs, _, _ => by simp [subtreesL] at hs
  | t :: ts, ks', h, hU, s, hs, u, hu => by
    simp only [boydKids] at h
    cases ht : boydNode t with
    | error e => simp [ht] at h
    | ok a =>
      cases hts : boydKids ts with
      | error e => simp [ht, hts] at h
      | ok b =>
        simp only [ht, hts, Except.ok.injEq] at h
        subst h
        simp only [subtreesL] at hU hs
        obtain ⟨hUa, hUb, hdis⟩ := Uq_append hU
        rw [reps_append]
        rcases List.mem_append.1 hs with hs | hs
        · obtain ⟨R0, hR0, hp⟩ := boydNode_reps t a ht hUa s hs u hu
          refine ⟨R0, hR0, ?_⟩
          have e2 : reps u b = [] := by
            apply reps_eq_nil
            intro x hx
            obtain ⟨s', hs', e⟩ := boydKids_uids ts b hts x hx
            rw [e]
            exact hdis s hs s' hs' u hu
          rw [e2, List.append_nil]
          exact hp
        · obtain ⟨R0, hR0, hp⟩ := boydKids_reps ts b hts hUb s hs u hu
          refine ⟨R0, hR0, ?_⟩
          have e1 : reps u a = [] := by
            apply reps_eq_nil
            intro x hx hxu
            obtain ⟨s', hs', e⟩ := boydNode_uids t a ht x hx
            rw [e] at hxu
            exact hdis s' hs' s hs u hxu hu
          rw [e1, List.nil_append]
          exact hp
end


/-! ### the flags of the replacement list of one constituent -/

theorem boydNode_flags (f : Fields) (ks R0 : List Tree) (h : boydNode (node f ks) = .ok R0)
    (hh : OneHead (subtrees (node f ks))) :
    if 1 < R0.length then
      (∀ x ∈ R0, x.fields.split = some true) ∧
      (R0.zipIdx.all fun (r, i) => r.fields.blockNumber == some (i + 1)) = true ∧
      (R0.filter (fun x => x.fields.headBlock == some true)).length = 1
    else ∀ x ∈ R0, x.fields.split = some false := by
  have h0 := h
  rw [boydNode_node] at h
  cases hk : boydKids ks with
  | error e => simp [hk] at h
  | ok ks' =>
    simp only [hk] at h
    unfold boydStep at h
    split at h
    · simp only [Except.ok.injEq] at h
      subst h
      simp [fields]
    · rename_i hlen
      split at h
      · simp at h
      · simp only [Except.ok.injEq] at h
        have hl : 1 < R0.length := by
          rw [← h, numberBlocks_length]; omega
        rw [if_pos hl]
        refine ⟨?_, ?_, boydNode_one_headBlock f ks R0 h0 hh hl⟩
        · intro x hx
          rw [← h] at hx
          obtain ⟨_, _, f', rfl, _, hs⟩ := mem_numberBlocks f 0 _ x hx
          exact hs
        · rw [← h]
          exact numberBlocks_zipIdx f 0 _

/-! ### the representatives sorted by their leftmost token -/

theorem heads_strict : ∀ l : List Nat, l.Pairwise (· < ·) →
    ((blocksOf l).map (fun b => (b.head?).getD 0)).Pairwise (· < ·)
  | [], _ => by simp [blocksOf]
  | [a], _ => by simp [blocksOf]
  | a :: b :: rest, h => by
    obtain ⟨blk, blks, hb⟩ := blocksOf_cons rest b
    have ih := heads_strict (b :: rest) (List.Pairwise.of_cons h)
    have hab : a < b := List.rel_of_pairwise_cons h List.mem_cons_self
    rw [hb] at ih
    rw [blocksOf_cons_cons hb]
    simp only [List.map_cons, List.head?_cons, Option.getD_some, List.pairwise_cons] at ih
    split
    · simp only [List.map_cons, List.head?_cons, Option.getD_some, List.pairwise_cons, List.mem_cons]
      refine ⟨?_, ih⟩
      rintro x (rfl | hx)
      · exact hab
      · exact Nat.lt_trans hab (ih.1 x hx)
    · simp only [List.map_cons, List.head?_cons, Option.getD_some, List.pairwise_cons]
      exact ⟨fun x hx => Nat.lt_trans hab (ih.1 x hx), ih.2⟩

theorem sort_reps (s : Tree) (R R0 : List Tree) (hp : R.Perm R0) (hy : R0.map yield = blocks s)
    (hn : s.leafNums.Nodup) : sortBy leftmost R = R0 := by
  have hstrict : (R0.map leftmost).Pairwise (· < ·) := by
    have e : R0.map leftmost = (R0.map yield).map (fun b => (b.head?).getD 0) := by
      simp [leftmost, List.map_map, Function.comp_def]
    rw [e, hy, blocks]
    exact heads_strict _ (strict_of_sorted_nodup (yield_sorted s) ((yield_perm s).nodup_iff.2 hn))
  apply sortBy_eq_of_perm_sorted leftmost R R0 hp
  · exact (hp.map leftmost).nodup_iff.2 (nodup_of_strict hstrict)
  · rw [List.pairwise_map] at hstrict
    exact hstrict.imp Nat.le_of_lt

/-! ### what a subtree inherits -/

theorem sub_props : ∀ t : Tree, ∀ s ∈ subtrees t,
    (t.noEmpty = true → s.noEmpty = true) ∧ (t.leafNums.Nodup → s.leafNums.Nodup) ∧
      (∀ r ∈ subtrees s, r ∈ subtrees t) := by
  apply Lemmas.WF.tree_ind
  · intro n f s hs
    simp only [subtrees, List.mem_singleton] at hs
    subst hs
    exact ⟨id, id, fun r hr => hr⟩
  · intro f ks ih s hs
    rcases (Lemmas.WF.mem_subtrees_node f ks s).1 hs with rfl | ⟨k, hk, hsk⟩
    · exact ⟨id, id, fun r hr => hr⟩
    · obtain ⟨h1, h2, h3⟩ := ih k hk s hsk
      refine ⟨fun h => h1 (Lemmas.WF.noEmpty_of_mem_kids f ks k h hk), fun h => h2 ?_, fun r hr =>
        (Lemmas.WF.mem_subtrees_node f ks r).2 (Or.inr ⟨k, hk, h3 r hr⟩)⟩
      rw [leafNums_node] at h
      exact nodup_of_mem_flatMap h hk

/-! ### the clause of `splitOK` for one constituent -/

theorem clause_ok (f : Fields) (ks R R0 : List Tree) (hp : R.Perm R0)
    (hR0 : boydNode (node f ks) = .ok R0) (hne : (node f ks).noEmpty = true)
    (hn : (node f ks).leafNums.Nodup) (hh : OneHead (subtrees (node f ks))) :
    (R.length == (node f ks).blocks.length &&
      ((sortBy leftmost R).map (·.yield)) == (node f ks).blocks &&
      R.all (fun r => r.fields.label == (node f ks).fields.label) &&
      (if (node f ks).blocks.length > 1 then
         R.all (fun r => r.fields.split == some true) &&
         ((sortBy leftmost R).zipIdx.all fun (r, i) => r.fields.blockNumber == some (i + 1)) &&
         (R.filter (fun r => r.fields.headBlock == some true)).length == 1
       else R.all (fun r => r.fields.split == some false))) = true := by
  obtain ⟨hy, hl⟩ := C05.boydNode_blocks f ks R0 hR0 hne hn
  have hsort := sort_reps (node f ks) R R0 hp hy hn
  have hlen : R0.length = (node f ks).blocks.length := by rw [← hy, List.length_map]
  have hfl := boydNode_flags f ks R0 hR0 hh
  rw [hsort, hy, hp.length_eq, hlen]
  simp only [beq_self_eq_true, Bool.true_and, Bool.and_eq_true, List.all_eq_true, beq_iff_eq]
  refine ⟨fun x hx => hl x (hp.subset hx), ?_⟩
  rw [hlen] at hfl
  split
  · rename_i hgt
    rw [if_pos hgt] at hfl
    obtain ⟨h1, h2, h3⟩ := hfl
    simp only [Bool.and_eq_true, List.all_eq_true, beq_iff_eq]
    refine ⟨⟨fun x hx => h1 x (hp.subset hx), ?_⟩, ?_⟩
    · rw [List.all_eq_true] at h2
      intro x hx
      have := h2 x hx
      simpa using this
    · rw [(hp.filter _).length_eq]; exact h3
  · rename_i hgt
    rw [if_neg hgt] at hfl
    rw [List.all_eq_true]
    intro x hx
    rw [beq_iff_eq]
    exact hfl x (hp.subset hx)


/-! ### the whole tree -/

theorem uidsOK_Uq (t : Tree) (hu : uidsOK t = true) : Uq (subtrees t) := by
  simp only [uidsOK, Bool.and_eq_true] at hu
  exact (Lemmas.WF.nodupB_iff _).1 hu.2

theorem subtreesL_singleton (t : Tree) : subtreesL [t] = subtrees t := by
  simp [subtreesL]

theorem boydSplit_splitOK (t t' : Tree) (hwf : WF t = true) (hu : uidsOK t = true)
    (hh : ∀ s ∈ t.subtrees, ∀ f ks, s = node f ks →
      (ks.filter (fun k => k.fields.head == some true)).length = 1)
    (h : boydSplit t = .ok t') : splitOK t t' = true := by
  have hb := C05.boydSplit_ok t t' h
  have hne := Lemmas.WF.WF_noEmpty t hwf
  have hn := Lemmas.WF.WF_nodup t hwf
  unfold splitOK
  rw [List.all_eq_true]
  intro s hs
  split
  · rename_i f k ks u hsu
    obtain ⟨R0, hR0, hp⟩ := boydNode_reps t [t'] hb (uidsOK_Uq t hu) _ hs u hsu
    obtain ⟨p1, p2, p3⟩ := sub_props t _ hs
    rw [reps, subtreesL_singleton] at hp
    exact clause_ok f (k :: ks) _ R0 hp hR0 (p1 hne) (p2 hn) (fun r hr => hh r (p3 r hr))
  · rfl

/-- the same with the Boolean predicate `oneHeadEach` of the specification as the hypothesis -/
theorem boydSplit_splitOK_of_oneHeadEach (t t' : Tree) (hwf : WF t = true) (hu : uidsOK t = true)
    (hoh : oneHeadEach t = true) (h : boydSplit t = .ok t') : splitOK t t' = true :=
  boydSplit_splitOK t t' hwf hu
    (Lemmas.More10.oneHead_hyp t (Lemmas.WF.WF_noEmpty t hwf) hoh) h

/-- with the head marking inside the pipeline (NeGra heuristic): no hypothesis about heads is left -/
theorem pipeline_negra_splitOK (t t' : Tree) (hwf : WF t = true) (hu : uidsOK (negraMarkHeads t) = true)
    (h : boydSplit (negraMarkHeads t) = .ok t') : splitOK (negraMarkHeads t) t' = true :=
  boydSplit_splitOK _ t' (C04.negra_WF t hwf).1 hu (C05More.negra_heads_hyp t hwf) h

/-- what `splitOK` abbreviates, said directly: the nodes of the result that carry the uid of an input
    constituent `s`, ordered by their leftmost token, ARE the replacement list `boydNode s` -/
theorem boydSplit_reps_sorted (t t' : Tree) (hwf : WF t = true) (hu : uidsOK t = true)
    (h : boydSplit t = .ok t') (f : Fields) (ks : List Tree) (hs : node f ks ∈ t.subtrees) (u : Nat)
    (hsu : f.uid = some u) :
    ∃ R0, boydNode (node f ks) = .ok R0 ∧
      sortBy leftmost (t'.subtrees.filter (fun x => x.fields.uid == some u)) = R0 ∧
      R0.map yield = (node f ks).blocks := by
  have hb := C05.boydSplit_ok t t' h
  obtain ⟨R0, hR0, hp⟩ := boydNode_reps t [t'] hb (uidsOK_Uq t hu) _ hs u hsu
  obtain ⟨p1, p2, _⟩ := sub_props t _ hs
  rw [reps, subtreesL_singleton] at hp
  obtain ⟨hy, _⟩ := C05.boydNode_blocks f ks R0 hR0 (p1 (Lemmas.WF.WF_noEmpty t hwf))
    (p2 (Lemmas.WF.WF_nodup t hwf))
  exact ⟨R0, hR0, sort_reps _ _ R0 hp hy (p2 (Lemmas.WF.WF_nodup t hwf)), hy⟩

/-! ### examples and counterexamples -/

private def L (n u : Nat) (h : Bool) : Tree :=
  leaf n { label := "X".toList, head := some h, uid := some u }
private def Nd (l : String) (u : Nat) (h : Bool) (ks : List Tree) : Tree :=
  node { label := l.toList, head := some h, uid := some u } ks
/-- decidable form of the head hypothesis, for the examples -/
private def oneHeadB (t : Tree) : Bool :=
  t.subtrees.all fun s => match s with
    | node _ ks => (ks.filter (fun k => k.fields.head == some true)).length == 1
    | leaf _ _ => true
private theorem oneHeadB_hyp (t : Tree) (h : oneHeadB t = true) :
    ∀ s ∈ t.subtrees, ∀ f ks, s = node f ks →
      (ks.filter (fun k => k.fields.head == some true)).length = 1 := by
  intro s hs f ks e
  subst e
  simp only [oneHeadB, List.all_eq_true] at h
  simpa using h _ hs
private def splitOf (t : Tree) : Tree :=
  match boydSplit t with
  | .ok t' => t'
  | .error _ => t

/-- `VP = {1, 3, 4, 6}` (three blocks) with a discontinuous head child `NP = {1, 4}`; token 2 and 5 hang
    on `S`; storage order shuffled -/
def ex1 : Tree :=
  Nd "S" 0 false [L 5 8 false, Nd "VP" 1 true [L 3 5 false, Nd "NP" 2 true [L 4 4 false, L 1 3 true], L 6 6 false],
    L 2 7 false]
/-- nested gaps: `A = {1, 3, 5, 7}` with children `B = {1, 7}` (head) and `C = {3, 5}` -/
def ex2 : Tree :=
  Nd "S" 0 false [Nd "A" 1 true [Nd "B" 2 true [L 1 3 true, L 7 4 false], Nd "C" 9 false [L 3 10 true, L 5 11 false]],
    L 2 5 false, L 4 6 false, L 6 7 false]

example : WF ex1 = true ∧ uidsOK ex1 = true ∧ oneHeadB ex1 = true ∧ oneHeadEach ex1 = true ∧
    continuous ex1 = false ∧ (boydSplit ex1).toOption.isSome = true := by decide +kernel
example : WF ex2 = true ∧ uidsOK ex2 = true ∧ oneHeadB ex2 = true ∧ oneHeadEach ex2 = true ∧
    continuous ex2 = false ∧ (boydSplit ex2).toOption.isSome = true := by decide +kernel
/-- the hypothesis `hh` of `boydSplit_splitOK` holds of `ex1` and `ex2` -/
example : ∀ s ∈ ex1.subtrees, ∀ f ks, s = node f ks →
    (ks.filter (fun k => k.fields.head == some true)).length = 1 :=
  oneHeadB_hyp ex1 (by decide +kernel)
example : ∀ s ∈ ex2.subtrees, ∀ f ks, s = node f ks →
    (ks.filter (fun k => k.fields.head == some true)).length = 1 :=
  oneHeadB_hyp ex2 (by decide +kernel)
example : splitOK ex1 (splitOf ex1) = true ∧ splitOK ex2 (splitOf ex2) = true := by decide +kernel
/-- in `ex1` the `VP` (uid 1) is represented by three nodes and the `NP` (uid 2) by two -/
example : ((splitOf ex1).subtrees.filter (fun x => x.fields.uid == some 1)).length = 3 ∧
    ((splitOf ex1).subtrees.filter (fun x => x.fields.uid == some 2)).length = 2 := by decide +kernel

/-- `boydNode_one_headBlock` on the `VP` of `ex1`: three blocks, one of them the head block (the one
    that holds the head block `{1}` of the discontinuous head child `NP`) -/
example : (match ex1 with
    | node _ [_, vp, _] => (match boydNode vp with
      | .ok r => oneHeadB vp && r.length == 3 &&
          r.map (·.fields.headBlock) == [some true, some false, some false]
      | .error _ => false)
    | _ => false) = true := by decide +kernel

/-- THE HEAD HYPOTHESIS CANNOT BE DROPPED (the statement as first proposed, with `WF` and `uidsOK`
    only, is false).  No child of the split `VP` is marked as head: `boyd_split` succeeds (the `VP`
    itself has a `head` key), both `VP` blocks get `head_block = False`, and `splitOK` fails. -/
def cexNoHead : Tree :=
  Nd "S" 0 false [Nd "VP" 1 true [L 1 3 false, L 3 5 false], L 2 7 false]
example : WF cexNoHead = true ∧ uidsOK cexNoHead = true ∧ (boydSplit cexNoHead).toOption.isSome = true ∧
    splitOK cexNoHead (splitOf cexNoHead) = false ∧
    ((splitOf cexNoHead).subtrees.filter (fun x => x.fields.uid == some 1 &&
      x.fields.headBlock == some true)).length = 0 := by decide +kernel
/-- two children of the split `VP` marked as head, in different blocks: two head blocks -/
def cexTwoHeads : Tree :=
  Nd "S" 0 false [Nd "VP" 1 true [L 1 3 true, L 3 5 true], L 2 7 false]
example : WF cexTwoHeads = true ∧ uidsOK cexTwoHeads = true ∧ (boydSplit cexTwoHeads).toOption.isSome = true ∧
    splitOK cexTwoHeads (splitOf cexTwoHeads) = false ∧
    ((splitOf cexTwoHeads).subtrees.filter (fun x => x.fields.uid == some 1 &&
      x.fields.headBlock == some true)).length = 2 := by decide +kernel
/-- the same at the level of `boydNode_one_headBlock`: without `hh` the count is 0 or 2 -/
example : (match cexNoHead, cexTwoHeads with
    | node _ [vp, _], node _ [vp', _] => (match boydNode vp, boydNode vp' with
      | .ok r, .ok r' => r.length == 2 && r'.length == 2 &&
          (r.filter (fun x => x.fields.headBlock == some true)).length == 0 &&
          (r'.filter (fun x => x.fields.headBlock == some true)).length == 2
      | _, _ => false)
    | _, _ => false) = true := by decide +kernel
/-- `uidsOK` cannot be dropped either (two constituents sharing a uid are counted together) -/
def cexUid : Tree :=
  Nd "S" 0 false [Nd "VP" 1 true [L 1 3 true, L 3 5 false], Nd "NP" 1 false [L 2 7 true]]
example : WF cexUid = true ∧ oneHeadEach cexUid = true ∧ uidsOK cexUid = false ∧
    splitOK cexUid (splitOf cexUid) = false := by decide +kernel

/-- `pipeline_negra_splitOK`: a tree without head flags, heads set by the NeGra heuristic -/
def ex3 : Tree :=
  node { label := "S".toList, uid := some 0 }
    [leaf 2 { label := "C".toList, edge := some "SB".toList, uid := some 1 },
     node { label := "VP".toList, edge := some "HD".toList, uid := some 2 }
       [leaf 3 { label := "B".toList, edge := some "OA".toList, uid := some 3 },
        leaf 1 { label := "A".toList, edge := some "MO".toList, uid := some 4 },
        leaf 4 { label := "V".toList, edge := some "HD".toList, uid := some 5 }]]
example : WF ex3 = true ∧ uidsOK (negraMarkHeads ex3) = true ∧
    (boydSplit (negraMarkHeads ex3)).toOption.isSome = true ∧ continuous ex3 = false ∧
    splitOK (negraMarkHeads ex3) (splitOf (negraMarkHeads ex3)) = true := by decide +kernel


/-! ## part 2 (rows 1, 2, 5, 6, 9, 10 of the audit): pipeline variants, block numbers, fields kept -/
/-
  C05 (fields) — what the audit (audit/A.md, section C05, rows 1, 2, 5, 9, 10) still asked for:
  * root_attach + rule preset + boyd_split + raising (rows 1, 2, 10);
  * the block numbers that `boyd_split` writes and the labels `get_label` shows for them (row 9);
  * an already continuous tree comes back unchanged EXCEPT the flags: edge, lemma, morph, uid and even the storage order
    are kept (row 5; `C05.continuous_fixpoint_strong` says this only modulo `stripT`);
  * the result is the reference tree `contSpecRoot` compared on everything except the four flags (row 6; `C05.raise_spec`
    says this only modulo `stripT`).  Proof: boyd_split, raising and the reference commute with any change of the fields
    that leaves the flags alone, so `C05.raise_spec` is applied to the tree whose labels spell out all the other fields.
-/

/-! ### helper lemmas (`cf_`) -/

theorem cf_numberBlocks_length (f : Fields) : ∀ (i : Nat) (G : List (List Tree)), (numberBlocks f i G).length = G.length
  | _, [] => rfl
  | i, _ :: G => by simp [numberBlocks, cf_numberBlocks_length f (i + 1) G]

/-- the `j`-th node made by `numberBlocks f i G`: the fields of `f` with the three flags set, over the `j`-th block -/
theorem cf_numberBlocks_getElem (f : Fields) : ∀ (i : Nat) (G : List (List Tree)) (j : Nat) (hj : j < G.length),
    (numberBlocks f i G)[j]'(by rw [cf_numberBlocks_length]; exact hj) =
      node { f with split := some true, headBlock := some (G[j].any carriesHead), blockNumber := some (i + j + 1) } G[j]
  | _, [], j, hj => by simp at hj
  | i, g :: G, 0, _ => by simp [numberBlocks]
  | i, g :: G, j + 1, hj => by
    simp only [numberBlocks, List.getElem_cons_succ]
    rw [cf_numberBlocks_getElem f (i + 1) G j (by simpa using hj)]
    simp only [show i + 1 + j + 1 = i + (j + 1) + 1 by omega]

/-- when `boydNode` replaces a constituent by more than one node, these are `numberBlocks` of its blocks -/
theorem cf_boydNode_split (f : Fields) (ks r : List Tree) (h : boydNode (node f ks) = .ok r) (hr : 1 < r.length) :
    ∃ ks', boydKids ks = .ok ks' ∧ r = numberBlocks f 0 (groupAdjacent (sortBy leftmost ks')) := by
  rw [Lemmas.Boyd.boydNode_node] at h
  cases hk : boydKids ks with
  | error e => simp [hk] at h
  | ok ks' =>
    simp only [hk, Lemmas.Boyd.boydStep] at h
    refine ⟨ks', rfl, ?_⟩
    split at h
    · cases h; simp at hr
    · split at h
      · cases h
      · exact (Except.ok.inj h).symm

mutual
theorem cf_boydNode_fields : (t : Tree) → (r : List Tree) → boydNode t = .ok r →
    continuous t = true → noEmpty t = true → t.leafNums.Nodup →
    r = [t.mapFields fun _ f => { f with split := some false, headBlock := some true }]
  | .leaf n f, r, h, _, _, _ => by
    simp only [boydNode, Except.ok.injEq] at h
    subst h
    simp [mapFields]
  | .node f ks, r, h, hc, hne, hn => by
    rw [Lemmas.Boyd.boydNode_node] at h
    cases hk : boydKids ks with
    | error e => simp [hk] at h
    | ok ks' =>
      simp only [hk] at h
      simp only [noEmpty, Bool.and_eq_true, Bool.not_eq_true', List.isEmpty_eq_false_iff] at hne
      have hc' := (Lemmas.Boyd.continuous_node f ks).1 hc
      rw [Lemmas.Boyd.yield_node] at hc'
      rw [Lemmas.Boyd.leafNums_node] at hn
      have hgood := Lemmas.Boyd.boydKids_good ks ks' hk hne.2 hn
      obtain ⟨hn', hne'⟩ := Lemmas.Boyd.kids_ready ks ks' hk hne.2 hne.1 hn
      obtain ⟨hs, _⟩ := Lemmas.Boyd.boydKids_fix ks ks' hk hc'.2 hne.2 hn
      have hgc : gapCount (sortBy id (ks'.flatMap leafNums)) = 0 := by
        rw [Lemmas.Boyd.flatMap_leafNums_eq_of_strip hs]; exact hc'.1
      have := Lemmas.Boyd.boydStep_single f ks' r h hgood hn' hgc
      subst this
      rw [cf_boydKids_fields ks ks' hk hc'.2 hne.2 hn]
      simp [mapFields]
theorem cf_boydKids_fields : (ks : List Tree) → (ks' : List Tree) → boydKids ks = .ok ks' →
    (∀ k ∈ ks, continuous k = true) → noEmptyL ks = true → (ks.flatMap leafNums).Nodup →
    ks' = mapFieldsL (fun _ f => { f with split := some false, headBlock := some true }) ks
  | [], ks', h, _, _, _ => by
    simp only [boydKids, Except.ok.injEq] at h
    subst h
    simp [mapFieldsL]
  | t :: ts, ks', h, hc, hne, hn => by
    simp only [boydKids] at h
    cases ht : boydNode t with
    | error e => simp [ht] at h
    | ok a =>
      cases hts : boydKids ts with
      | error e => simp [ht, hts] at h
      | ok b =>
        simp only [ht, hts, Except.ok.injEq] at h
        subst h
        simp only [noEmptyL, Bool.and_eq_true] at hne
        rw [List.flatMap_cons, List.nodup_append] at hn
        rw [cf_boydNode_fields t a ht (hc t List.mem_cons_self) hne.1 hn.1,
          cf_boydKids_fields ts b hts (fun k hk => hc k (List.mem_cons_of_mem _ hk)) hne.2 hn.2.1]
        simp [mapFieldsL]
end

/-- normal form that forgets ONLY the four flags head / split / head_block / block_number: structure, storage order,
    label, word, lemma, morph, edge and node identity (uid) are kept -/
def stripFlags (t : Tree) : Tree :=
  t.mapFields fun _ f => { f with head := none, split := none, headBlock := none, blockNumber := none }

mutual
theorem cf_mapFields_comp (g1 g2 : Fields → Fields) : (t : Tree) →
    mapFields (fun _ => g2) (mapFields (fun _ => g1) t) = mapFields (fun _ f => g2 (g1 f)) t
  | .leaf n f => by simp [mapFields]
  | .node f ks => by simp only [mapFields, cf_mapFieldsL_comp g1 g2 ks]
theorem cf_mapFieldsL_comp (g1 g2 : Fields → Fields) : (ks : List Tree) →
    mapFieldsL (fun _ => g2) (mapFieldsL (fun _ => g1) ks) = mapFieldsL (fun _ f => g2 (g1 f)) ks
  | [] => by simp [mapFieldsL]
  | t :: ts => by simp only [mapFieldsL, cf_mapFields_comp g1 g2 t, cf_mapFieldsL_comp g1 g2 ts]
end

theorem cf_stripFlags_setFlags (t : Tree) :
    stripFlags (t.mapFields fun _ f => { f with split := some false, headBlock := some true }) = stripFlags t := by
  rw [stripFlags, cf_mapFields_comp]; rfl

theorem cf_stripFlags_setHead (b : Bool) (t : Tree) : stripFlags (setHead b t) = stripFlags t := by
  cases t <;> simp [setHead, setFields, stripFlags, mapFields]

mutual
theorem cf_stripFlags_markG (idx : Fields → List Tree → Nat) : (t : Tree) →
    stripFlags (Lemmas.Heads.markG idx t) = stripFlags t
  | .leaf n f => by simp [Lemmas.Heads.markG]
  | .node f ks => by
    have := cf_stripFlagsL_markGL idx (keyAt ks (idx f (sortBy leftmost ks))) ks
    simp only [stripFlags, mapFields, Lemmas.Heads.markG] at this ⊢
    rw [this]
theorem cf_stripFlagsL_markGL (idx : Fields → List Tree → Nat) (key : Option Nat) : (ks : List Tree) →
    mapFieldsL (fun _ f => { f with head := none, split := none, headBlock := none, blockNumber := none })
      (Lemmas.Heads.markGL idx key ks) =
    mapFieldsL (fun _ f => { f with head := none, split := none, headBlock := none, blockNumber := none }) ks
  | [] => by simp [Lemmas.Heads.markGL]
  | t :: ts => by
    have h1 := cf_stripFlags_markG idx t
    have h2 := cf_stripFlags_setHead (some (leftmost t) == key) (Lemmas.Heads.markG idx t)
    simp only [stripFlags] at h1 h2
    simp only [Lemmas.Heads.markGL, mapFieldsL, h2, h1, cf_stripFlagsL_markGL idx key ts]
end

/-- head marking (NeGra heuristic) only touches the `head` flags -/
theorem cf_stripFlags_negra (t : Tree) : stripFlags (negraMarkHeads t) = stripFlags t := by
  rw [negraMarkHeads, Lemmas.Heads.negraMarkAux_eq, cf_stripFlags_setHead, cf_stripFlags_markG]

/-- head marking by rules only touches the `head` flags -/
theorem cf_stripFlags_rules (rules : HeadRules) (t : Tree) :
    stripFlags (setHead false (rulesMarkAux rules t)) = stripFlags t := by
  rw [Lemmas.Heads.rulesMarkAux_eq, cf_stripFlags_setHead, cf_stripFlags_markG]

/-! ### helper lemmas for row 6: boyd_split, raising and the reference only look at token numbers and at head / split /
    head_block, so they commute with any change of the other fields (`cf_M φ` with `cf_FlagHom φ`) -/

/-- `φ` leaves the flags alone -/
structure cf_FlagHom (φ : Fields → Fields) : Prop where
  head : ∀ f, (φ f).head = f.head
  split : ∀ f, (φ f).split = f.split
  headBlock : ∀ f, (φ f).headBlock = f.headBlock
  set2 : ∀ f a b, φ { f with split := a, headBlock := b } = { φ f with split := a, headBlock := b }
  set3 : ∀ f a b c, φ { f with split := a, headBlock := b, blockNumber := c } =
    { φ f with split := a, headBlock := b, blockNumber := c }

/-- apply `φ` to the fields of every node -/
def cf_M (φ : Fields → Fields) (t : Tree) : Tree := t.mapFields fun _ => φ

theorem cf_mapFieldsL_eq (g : Tree → Fields → Fields) : ∀ ks : List Tree, mapFieldsL g ks = ks.map (mapFields g)
  | [] => rfl
  | t :: ts => by simp [mapFieldsL, cf_mapFieldsL_eq g ts]

theorem cf_flatMap_congr {α β} {l : List α} {f g : α → List β} (h : ∀ x ∈ l, f x = g x) :
    l.flatMap f = l.flatMap g := by
  induction l with
  | nil => rfl
  | cons a l ih =>
    simp only [List.flatMap_cons, h a List.mem_cons_self, ih fun x hx => h x (List.mem_cons_of_mem _ hx)]

theorem cf_M_leaf (φ : Fields → Fields) (n : Nat) (f : Fields) : cf_M φ (leaf n f) = leaf n (φ f) := by
  simp [cf_M, mapFields]

theorem cf_M_node (φ : Fields → Fields) (f : Fields) (ks : List Tree) :
    cf_M φ (node f ks) = node (φ f) (ks.map (cf_M φ)) := by
  simp only [cf_M, mapFields, cf_mapFieldsL_eq]
  rfl

theorem cf_M_fields (φ : Fields → Fields) (t : Tree) : (cf_M φ t).fields = φ t.fields := by
  cases t <;> simp [cf_M_leaf, cf_M_node, fields]

theorem cf_M_leafNums (φ : Fields → Fields) (t : Tree) : (cf_M φ t).leafNums = t.leafNums := by
  induction t using Lemmas.WF.tree_ind with
  | hl n f => simp [cf_M_leaf, Lemmas.WF.leafNums_leaf]
  | hn f ks ih =>
    rw [cf_M_node, Lemmas.WF.leafNums_node, Lemmas.WF.leafNums_node, List.flatMap_map]
    exact cf_flatMap_congr ih

theorem cf_M_leftmost (φ : Fields → Fields) (t : Tree) : leftmost (cf_M φ t) = leftmost t := by
  simp only [leftmost, Lemmas.Nav.yield_eq, cf_M_leafNums]

theorem cf_M_rightmost (φ : Fields → Fields) (t : Tree) : rightmost (cf_M φ t) = rightmost t := by
  simp only [rightmost, Lemmas.Nav.yield_eq, cf_M_leafNums]

theorem cf_M_sortBy (φ : Fields → Fields) (ks : List Tree) :
    sortBy leftmost (ks.map (cf_M φ)) = (sortBy leftmost ks).map (cf_M φ) :=
  sortBy_map leftmost leftmost (cf_M φ) (cf_M_leftmost φ) ks

theorem cf_M_groupAdjacent (φ : Fields → Fields) : ∀ ks : List Tree,
    groupAdjacent (ks.map (cf_M φ)) = (groupAdjacent ks).map (List.map (cf_M φ))
  | [] => by simp [groupAdjacent]
  | [a] => by simp [groupAdjacent]
  | a :: b :: rest => by
    have ih := cf_M_groupAdjacent φ (b :: rest)
    simp only [List.map_cons] at ih ⊢
    rw [groupAdjacent, ih, groupAdjacent]
    cases groupAdjacent (b :: rest) with
    | nil => simp
    | cons blk blks =>
      simp only [List.map_cons, cf_M_leftmost, cf_M_rightmost]
      split <;> simp


theorem cf_M_carriesHead {φ : Fields → Fields} (hφ : cf_FlagHom φ) (c : Tree) :
    carriesHead (cf_M φ c) = carriesHead c := by
  simp only [carriesHead, cf_M_fields, hφ.head, hφ.split, hφ.headBlock]

theorem cf_M_numberBlocks {φ : Fields → Fields} (hφ : cf_FlagHom φ) (f : Fields) : ∀ (i : Nat) (G : List (List Tree)),
    numberBlocks (φ f) i (G.map (List.map (cf_M φ))) = (numberBlocks f i G).map (cf_M φ)
  | _, [] => rfl
  | i, g :: G => by
    simp only [List.map_cons, numberBlocks, cf_M_node, cf_M_numberBlocks hφ f (i + 1) G]
    have : (g.map (cf_M φ)).any carriesHead = g.any carriesHead := by
      simp only [List.any_map, Function.comp_def, cf_M_carriesHead hφ]
    rw [this, hφ.set3 f (some true) (some (g.any carriesHead)) (some (i + 1))]

theorem cf_M_boydStep {φ : Fields → Fields} (hφ : cf_FlagHom φ) (f : Fields) (ks' r : List Tree)
    (h : Lemmas.Boyd.boydStep f ks' = .ok r) :
    Lemmas.Boyd.boydStep (φ f) (ks'.map (cf_M φ)) = .ok (r.map (cf_M φ)) := by
  unfold Lemmas.Boyd.boydStep at h ⊢
  rw [cf_M_sortBy, cf_M_groupAdjacent, List.length_map]
  split at h
  · rename_i hl
    rw [if_pos hl]
    cases h
    simp only [List.map_cons, List.map_nil, cf_M_node]
    rw [hφ.set2 f (some false) (some true)]
  · rename_i hl
    rw [if_neg hl]
    split at h
    · cases h
    · rename_i hh
      rw [if_neg (by rw [hφ.head]; exact hh)]
      cases h
      rw [cf_M_numberBlocks hφ]

mutual
theorem cf_M_boydNode {φ : Fields → Fields} (hφ : cf_FlagHom φ) : (t : Tree) → (r : List Tree) → boydNode t = .ok r →
    boydNode (cf_M φ t) = .ok (r.map (cf_M φ))
  | .leaf n f, r, h => by
    simp only [boydNode, Except.ok.injEq] at h
    subst h
    simp only [cf_M_leaf, boydNode, List.map_cons, List.map_nil]
    rw [hφ.set2 f (some false) (some true)]
  | .node f ks, r, h => by
    rw [cf_M_node, Lemmas.Boyd.boydNode_node]
    rw [Lemmas.Boyd.boydNode_node] at h
    cases hk : boydKids ks with
    | error e => simp [hk] at h
    | ok ks' =>
      simp only [hk] at h
      rw [cf_M_boydKids hφ ks ks' hk]
      exact cf_M_boydStep hφ f ks' r h
theorem cf_M_boydKids {φ : Fields → Fields} (hφ : cf_FlagHom φ) : (ks : List Tree) → (ks' : List Tree) →
    boydKids ks = .ok ks' → boydKids (ks.map (cf_M φ)) = .ok (ks'.map (cf_M φ))
  | [], ks', h => by
    simp only [boydKids, Except.ok.injEq] at h
    subst h
    simp [boydKids]
  | t :: ts, ks', h => by
    simp only [boydKids] at h
    cases ht : boydNode t with
    | error e => simp [ht] at h
    | ok a =>
      cases hts : boydKids ts with
      | error e => simp [ht, hts] at h
      | ok b =>
        simp only [ht, hts, Except.ok.injEq] at h
        subst h
        simp only [List.map_cons, boydKids, cf_M_boydNode hφ t a ht, cf_M_boydKids hφ ts b hts, List.map_append]
end

theorem cf_M_boydSplit {φ : Fields → Fields} (hφ : cf_FlagHom φ) (t t' : Tree) (h : boydSplit t = .ok t') :
    boydSplit (cf_M φ t) = .ok (cf_M φ t') := by
  have := cf_M_boydNode hφ t [t'] (C05.boydSplit_ok t t' h)
  simp only [boydSplit, this, List.map_cons, List.map_nil]

theorem cf_M_removable {φ : Fields → Fields} (hφ : cf_FlagHom φ) (t : Tree) : removable (cf_M φ t) = removable t := by
  cases t <;> simp [cf_M_leaf, cf_M_node, removable, hφ.split, hφ.headBlock]

mutual
theorem cf_M_raiseNode {φ : Fields → Fields} (hφ : cf_FlagHom φ) : (t : Tree) →
    raiseNode (cf_M φ t) = (raiseNode t).map (cf_M φ)
  | .leaf n f => by simp [cf_M_leaf, raiseNode]
  | .node f ks => by
    have hr := cf_M_removable hφ (node f ks)
    rw [cf_M_node] at hr
    rw [cf_M_node, raiseNode, raiseNode, hr, cf_M_raiseKids hφ ks]
    split <;> simp [cf_M_node]
theorem cf_M_raiseKids {φ : Fields → Fields} (hφ : cf_FlagHom φ) : (ks : List Tree) →
    raiseKids (ks.map (cf_M φ)) = (raiseKids ks).map (cf_M φ)
  | [] => by simp [raiseKids]
  | t :: ts => by simp only [List.map_cons, raiseKids, cf_M_raiseNode hφ t, cf_M_raiseKids hφ ts, List.map_append]
end

theorem cf_M_raising {φ : Fields → Fields} (hφ : cf_FlagHom φ) (t : Tree) : raising (cf_M φ t) = cf_M φ (raising t) := by
  cases t with
  | leaf n f => simp [cf_M_leaf, raising]
  | node f ks => simp only [cf_M_node, raising, cf_M_raiseKids hφ ks]


/-- `cf_M` on the pool entries of the reference -/
def cf_P (φ : Fields → Fields) (p : Bool × Tree) : Bool × Tree := (p.1, cf_M φ p.2)

theorem cf_M_groupRuns (φ : Fields → Fields) : ∀ l : List (Bool × Tree),
    groupRuns (l.map (cf_P φ)) = (groupRuns l).map (List.map (cf_P φ))
  | [] => by simp [groupRuns]
  | [a] => by simp [groupRuns]
  | a :: b :: rest => by
    have ih := cf_M_groupRuns φ (b :: rest)
    simp only [List.map_cons] at ih ⊢
    rw [groupRuns, ih, groupRuns]
    cases groupRuns (b :: rest) with
    | nil => simp
    | cons blk blks =>
      simp only [List.map_cons, cf_P, cf_M_leftmost, cf_M_rightmost]
      split <;> simp [cf_P]

theorem cf_eraseIdx_map {α β} (g : α → β) : ∀ (l : List α) (i : Nat), (l.map g).eraseIdx i = (l.eraseIdx i).map g
  | [], _ => rfl
  | _ :: _, 0 => rfl
  | a :: l, i + 1 => by simp [List.eraseIdx, cf_eraseIdx_map g l i]

mutual
theorem cf_M_contSpec {φ : Fields → Fields} (hφ : cf_FlagHom φ) : (t : Tree) →
    contSpec (cf_M φ t) = (cf_M φ (contSpec t).1, (contSpec t).2.map (cf_M φ))
  | .leaf n f => by simp [cf_M_leaf, contSpec]
  | .node f ks => by
    have hs : sortBy (fun x : Bool × Tree => leftmost x.2) ((contSpecL ks).map (cf_P φ)) =
        (sortBy (fun x : Bool × Tree => leftmost x.2) (contSpecL ks)).map (cf_P φ) :=
      sortBy_map _ _ (cf_P φ) (fun a => cf_M_leftmost φ a.2) _
    have hany : ((fun r : List (Bool × Tree) => r.any (·.1)) ∘ List.map (cf_P φ)) = fun r => r.any (·.1) := by
      funext r; simp [List.any_map, Function.comp_def, cf_P]
    rw [cf_M_node]
    simp only [contSpec, cf_M_contSpecL hφ ks, hs, cf_M_groupRuns, List.findIdx?_map, hany, List.getElem?_map,
      cf_eraseIdx_map, cf_M_node, Prod.mk.injEq, node.injEq, true_and]
    generalize groupRuns (sortBy (fun x : Bool × Tree => leftmost x.2) (contSpecL ks)) = runs
    generalize (List.findIdx? (fun r : List (Bool × Tree) => r.any fun x => x.fst) runs).getD 0 = k
    refine ⟨?_, ?_⟩
    · cases runs[k]? <;> simp [cf_P]
    · simp [List.map_flatten, cf_P, Function.comp_def]
theorem cf_M_contSpecL {φ : Fields → Fields} (hφ : cf_FlagHom φ) : (ks : List Tree) →
    contSpecL (ks.map (cf_M φ)) = (contSpecL ks).map (cf_P φ)
  | [] => by simp [contSpecL]
  | t :: ts => by
    simp only [List.map_cons, contSpecL, cf_M_contSpec hφ t, cf_M_contSpecL hφ ts, cf_M_fields, hφ.head,
      List.map_append, List.map_map, cf_P]
    rfl
end


theorem cf_M_contSpecRoot {φ : Fields → Fields} (hφ : cf_FlagHom φ) (t : Tree) :
    contSpecRoot (cf_M φ t) = cf_M φ (contSpecRoot t) := by
  cases t with
  | leaf n f => simp [cf_M_leaf, contSpecRoot]
  | node f ks =>
    simp only [cf_M_node, contSpecRoot, cf_M_contSpecL hφ ks, List.map_map, Function.comp_def, cf_P]

theorem cf_M_subtrees (φ : Fields → Fields) (t : Tree) : subtrees (cf_M φ t) = (subtrees t).map (cf_M φ) := by
  induction t using Lemmas.WF.tree_ind with
  | hl n f => simp [cf_M_leaf, subtrees]
  | hn f ks ih =>
    rw [cf_M_node]
    simp only [subtrees, Lemmas.Nav.subtreesL_eq, List.map_cons, cf_M_node, List.flatMap_map, List.map_flatMap]
    rw [cf_flatMap_congr ih]

theorem cf_M_noEmpty (φ : Fields → Fields) (t : Tree) (h : noEmpty t = true) : noEmpty (cf_M φ t) = true := by
  induction t using Lemmas.WF.tree_ind with
  | hl n f => simp [cf_M_leaf, noEmpty]
  | hn f ks ih =>
    obtain ⟨h1, h2⟩ := (Lemmas.WF.noEmpty_node f ks).1 h
    rw [cf_M_node]
    refine (Lemmas.WF.noEmpty_node _ _).2 ⟨by simpa using h1, ?_⟩
    intro k hk
    obtain ⟨k0, hk0, rfl⟩ := List.mem_map.1 hk
    exact ih k0 hk0 (h2 k0 hk0)

theorem cf_M_WF (φ : Fields → Fields) (t : Tree) (h : WF t = true) : WF (cf_M φ t) = true := by
  obtain ⟨h1, h2, h3, h4⟩ := (Lemmas.WF.WF_iff t).1 h
  refine (Lemmas.WF.WF_iff _).2 ⟨?_, cf_M_noEmpty φ t h2, ?_, ?_⟩
  · cases t <;> simp_all [cf_M_node, isLeaf]
  · rw [cf_M_leafNums]; exact h3
  · rw [cf_M_leafNums]; exact h4

theorem cf_M_oneHead {φ : Fields → Fields} (hφ : cf_FlagHom φ) (t : Tree)
    (hh : ∀ s ∈ t.subtrees, ∀ f ks, s = node f ks → (ks.filter (fun k => k.fields.head == some true)).length = 1) :
    ∀ s ∈ (cf_M φ t).subtrees, ∀ f ks, s = node f ks → (ks.filter (fun k => k.fields.head == some true)).length = 1 := by
  intro s hs f ks hsk
  rw [cf_M_subtrees] at hs
  obtain ⟨s0, hs0, rfl⟩ := List.mem_map.1 hs
  cases s0 with
  | leaf n g => simp [cf_M_leaf] at hsk
  | node g ks0 =>
    rw [cf_M_node] at hsk
    cases hsk
    have := hh _ hs0 g ks0 rfl
    rw [List.filter_map, List.length_map]
    simpa only [Function.comp_def, cf_M_fields, hφ.head] using this

theorem cf_sortKids_M (φ : Fields → Fields) (t : Tree) : sortKids (cf_M φ t) = cf_M φ (sortKids t) := by
  induction t using Lemmas.WF.tree_ind with
  | hl n f => simp [cf_M_leaf, sortKids]
  | hn f ks ih =>
    simp only [cf_M_node, sortKids, Lemmas.Boyd.sortKidsL_eq, List.map_map]
    rw [← cf_M_sortBy, List.map_map]
    congr 2
    exact List.map_congr_left ih

/-! an injective spelling of everything but the four flags, as a label -/

def cf_encS : Str → Str
  | [] => ['b']
  | c :: s => 'a' :: c :: cf_encS s
def cf_encO : Option Str → Str
  | none => ['n']
  | some s => 's' :: cf_encS s
def cf_enc (f : Fields) : Str :=
  cf_encS f.label ++ (cf_encO f.word ++ (cf_encO f.lemma ++ (cf_encO f.morph ++ (cf_encO f.edge ++
    (cf_encO (f.uid.map fun k => List.replicate k 'x') ++ [])))))

theorem cf_encS_cancel : ∀ (a b r r' : Str), cf_encS a ++ r = cf_encS b ++ r' → a = b ∧ r = r'
  | [], [], r, r', h => by simpa [cf_encS] using h
  | [], _ :: _, _, _, h => by simp [cf_encS] at h
  | _ :: _, [], _, _, h => by simp [cf_encS] at h
  | c :: a, d :: b, r, r', h => by
    simp only [cf_encS, List.cons_append, List.cons.injEq, true_and] at h
    obtain ⟨rfl, h⟩ := h
    obtain ⟨rfl, rfl⟩ := cf_encS_cancel a b r r' h
    exact ⟨rfl, rfl⟩

theorem cf_encO_cancel (a b : Option Str) (r r' : Str) (h : cf_encO a ++ r = cf_encO b ++ r') : a = b ∧ r = r' := by
  cases a <;> cases b <;> simp only [cf_encO, List.cons_append, List.cons.injEq, List.nil_append] at h
  · exact ⟨rfl, h.2⟩
  · simp at h
  · simp at h
  · obtain ⟨rfl, rfl⟩ := cf_encS_cancel _ _ _ _ h.2
    exact ⟨rfl, rfl⟩

/-- the fields without the four flags -/
def cf_sf (f : Fields) : Fields := { f with head := none, split := none, headBlock := none, blockNumber := none }

theorem cf_enc_inj (f g : Fields) (h : cf_enc f = cf_enc g) : cf_sf f = cf_sf g := by
  unfold cf_enc at h
  obtain ⟨h1, h⟩ := cf_encS_cancel _ _ _ _ h
  obtain ⟨h2, h⟩ := cf_encO_cancel _ _ _ _ h
  obtain ⟨h3, h⟩ := cf_encO_cancel _ _ _ _ h
  obtain ⟨h4, h⟩ := cf_encO_cancel _ _ _ _ h
  obtain ⟨h5, h⟩ := cf_encO_cancel _ _ _ _ h
  obtain ⟨h6, _⟩ := cf_encO_cancel _ _ _ _ h
  have h7 : f.uid = g.uid := by
    cases hf : f.uid <;> cases hg : g.uid <;> simp only [hf, hg, Option.map_none, Option.map_some] at h6
    · rfl
    · cases h6
    · cases h6
    · have := congrArg List.length (Option.some.inj h6)
      simp only [List.length_replicate] at this
      rw [this]
  cases f; cases g
  simp_all [cf_sf]

theorem cf_dec_exists : ∃ dec : Str → Fields, ∀ f, dec (cf_enc f) = cf_sf f := by
  classical
  refine ⟨fun s => if h : ∃ f, cf_enc f = s then cf_sf (Classical.choose h) else default, fun f => ?_⟩
  have h : ∃ g, cf_enc g = cf_enc f := ⟨f, rfl⟩
  simp only [dif_pos h]
  exact cf_enc_inj _ _ (Classical.choose_spec h)

/-- write the spelling into the label -/
def cf_relabel (f : Fields) : Fields := { f with label := cf_enc f }

theorem cf_relabel_hom : cf_FlagHom cf_relabel :=
  ⟨fun _ => rfl, fun _ => rfl, fun _ => rfl, fun _ _ _ => rfl, fun _ _ _ _ => rfl⟩

theorem cf_dec_stripT (dec : Str → Fields) (hd : ∀ f, dec (cf_enc f) = cf_sf f) (t : Tree) :
    cf_M (fun f => dec f.label) (stripT (cf_M cf_relabel t)) = stripFlags t := by
  induction t using Lemmas.WF.tree_ind with
  | hl n f => simp [cf_M_leaf, stripT, cf_relabel, hd, stripFlags, mapFields, cf_sf]
  | hn f ks ih =>
    have : stripFlags (node f ks) = node (cf_sf f) (ks.map stripFlags) := cf_M_node cf_sf f ks
    rw [this, cf_M_node]
    simp only [stripT, Lemmas.Boyd.stripTL_eq, cf_M_node, List.map_map, cf_relabel, hd, node.injEq, true_and]
    exact List.map_congr_left ih

/-! ### example trees: every field filled (edge, lemma, morph, uid), storage order shuffled -/

private def cf_lf (n : Nat) (l w : String) (e : String) (u : Nat) : Tree :=
  leaf n { label := l.toList, word := some w.toList, edge := some e.toList, lemma := some (w ++ "L").toList,
           morph := some "m".toList, uid := some u }
private def cf_nd (l : String) (ks : List Tree) (e : String) (u : Nat) : Tree :=
  node { label := l.toList, edge := some e.toList, uid := some u } ks

/-- continuous: `(S (A 1) (VP (NP (B 2) (N 3)) (V 4)) (. 5))` -/
def cf_exC : Tree :=
  cf_nd "S" [cf_nd "VP" [cf_lf 4 "V" "v" "HD" 4, cf_nd "NP" [cf_lf 3 "N" "n" "NK" 6, cf_lf 2 "B" "b" "NK" 7] "OA" 5] "HD" 2,
    cf_lf 1 "A" "a" "SB" 3, cf_lf 5 "$." "." "--" 8] "--" 1

/-- discontinuous: `(S (VP (NP (A 1) (N 4)) (V 6)) (X 2) (NP (B 3) (C 5)) (. 7))` -/
def cf_exD : Tree :=
  cf_nd "S" [cf_nd "VP" [cf_nd "NP" [cf_lf 1 "A" "a" "NK" 4, cf_lf 4 "N" "n" "NK" 5] "OA" 3, cf_lf 6 "V" "v" "HD" 6] "OC" 2,
    cf_lf 2 "X" "x" "HD" 7, cf_nd "NP" [cf_lf 3 "B" "b" "NK" 9, cf_lf 5 "C" "c" "NK" 10] "SB" 8, cf_lf 7 "$." "." "--" 11] "--" 1

example : WF cf_exC = true ∧ continuous cf_exC = true ∧ WF cf_exD = true ∧ continuous cf_exD = false := by decide +kernel

/-! ### rows 1, 2, 10: root_attach, then a rule preset, then boyd_split and raising -/

/-- root_attach, then head marking with a rule preset, then boyd_split: never fails on a well-formed tree
    (the marking step itself succeeds for the presets `negra` and `ptb`: `C15.rules_presets_ok`) -/
theorem pipeline_rules_after_root_attach_ok (p : Preset) (t m : Tree) (hwf : WF t = true)
    (hm : markHeadsByRules (some p) none (rootAttach t) = .ok m) : ∃ t', boydSplit m = .ok t' :=
  C05More.pipeline_rules_ok p _ m (C12.rootAttach_WF t hwf) hm

/-- ... and the result is the reference tree of the marked tree, continuous, well formed, with the sentence and the
    multiset of constituent labels of the ORIGINAL tree -/
theorem pipeline_rules_after_root_attach (p : Preset) (t m t' : Tree) (hwf : WF t = true)
    (hm : markHeadsByRules (some p) none (rootAttach t) = .ok m) (h : boydSplit m = .ok t') :
    sortKids (stripT (raising t')) = sortKids (stripT (contSpecRoot m)) ∧ continuous (raising t') = true ∧
    WF (raising t') = true ∧ sentence (raising t') = sentence t ∧
    bagEq (consLabels (raising t')) (consLabels t) = true := by
  have hw := C12.rootAttach_WF t hwf
  obtain ⟨hw', hoh, hs, hl, _⟩ := C05More.rules_marked p _ m hw hm
  obtain ⟨h1, h2, h3, h4, h5⟩ := C05More.pipeline_core m t' hw' hoh h
  exact ⟨h1, h2, h3, (h4.trans hs).trans (C12.rootAttach_sentence t hwf),
    Lemmas.More10.bagEq_of_perm ((hl ▸ h5).trans (C12.rootAttach_consLabels t))⟩

/-- the hypotheses are met (both presets), and root_attach alone leaves `exT2` discontinuous -/
example : (∃ m, markHeadsByRules (some .negra) none (rootAttach C05More.exT2) = .ok m ∧ (boydSplit m).toOption.isSome = true) ∧
    (∃ m, markHeadsByRules (some .ptb) none (rootAttach cf_exD) = .ok m ∧ (boydSplit m).toOption.isSome = true) :=
  ⟨⟨_, rfl, by decide +kernel⟩, ⟨_, rfl, by decide +kernel⟩⟩
example : WF C05More.exT2 = true ∧ continuous (rootAttach C05More.exT2) = false ∧
    continuous (C05More.runRules .negra (rootAttach C05More.exT2)) = true ∧
    sentence (C05More.runRules .negra (rootAttach C05More.exT2)) = sentence C05More.exT2 ∧
    bagEq (consLabels (C05More.runRules .ptb (rootAttach C05More.exT2))) (consLabels C05More.exT2) = true := by
  decide +kernel

/-! ### row 9: block numbers and the labels that show them -/

/-- the nodes made by `numberBlocks` carry the numbers `i+1, i+2, ...` in order -/
theorem numberBlocks_numbers (f : Fields) : ∀ (i : Nat) (G : List (List Tree)),
    (numberBlocks f i G).map (·.fields.blockNumber) = (List.range' (i + 1) G.length).map some
  | _, [] => rfl
  | i, _ :: G => by
    simp only [numberBlocks, List.map_cons, List.length_cons, List.range'_succ]
    rw [numberBlocks_numbers f (i + 1) G]
    rfl

/-- with split marking and numbering switched on, the `j`-th node is shown as `label*<i+j+1>` -/
theorem numberBlocks_getLabel (f : Fields) (i : Nat) (G : List (List Tree)) (j : Nat) (hj : j < G.length) :
    getLabel { splitMarking := true, splitNumbering := true }
      ((numberBlocks f i G)[j]'(by rw [cf_numberBlocks_length]; exact hj)) =
      .ok (f.label ++ "*".toList ++ natToStr (i + j + 1)) := by
  rw [cf_numberBlocks_getElem f i G j hj]
  simp [getLabel, fields, bind, Except.bind, pure, Except.pure]

/-- a constituent that `boyd_split` replaces by several nodes: the nodes are numbered 1, 2, ... in order -/
theorem boydNode_numbers (f : Fields) (ks r : List Tree) (h : boydNode (node f ks) = .ok r) (hr : 1 < r.length) :
    r.map (·.fields.blockNumber) = (List.range' 1 r.length).map some := by
  obtain ⟨ks', _, rfl⟩ := cf_boydNode_split f ks r h hr
  rw [numberBlocks_numbers, cf_numberBlocks_length]

/-- ... and the `j`-th of them is shown as `label*<j+1>` -/
theorem boydNode_getLabel (f : Fields) (ks r : List Tree) (h : boydNode (node f ks) = .ok r) (hr : 1 < r.length)
    (j : Nat) (hj : j < r.length) :
    getLabel { splitMarking := true, splitNumbering := true } r[j] = .ok (f.label ++ "*".toList ++ natToStr (j + 1)) := by
  obtain ⟨ks', _, rfl⟩ := cf_boydNode_split f ks r h hr
  have := numberBlocks_getLabel f 0 (groupAdjacent (sortBy leftmost ks')) j (by rwa [cf_numberBlocks_length] at hj)
  simpa using this

/-- a constituent that is not split (`boydNode` returns one node) is shown with its bare label -/
theorem boydNode_getLabel_single (f : Fields) (ks : List Tree) (x : Tree) (h : boydNode (node f ks) = .ok [x]) :
    getLabel { splitMarking := true, splitNumbering := true } x = .ok f.label := by
  rw [Lemmas.Boyd.boydNode_node] at h
  cases hk : boydKids ks with
  | error e => simp [hk] at h
  | ok ks' =>
    simp only [hk, Lemmas.Boyd.boydStep] at h
    split at h
    · cases h; simp [getLabel, fields, bind, Except.bind, pure, Except.pure]
    · split at h
      · cases h
      · have := congrArg List.length (Except.ok.inj h)
        rw [cf_numberBlocks_length] at this
        simp only [List.length_cons, List.length_nil] at this
        omega

/-- a `VP` with the three blocks `[1]`, `[3]`, `[5]` -/
def cf_vp : Tree :=
  node { label := "VP".toList, head := some true, edge := some "OC".toList }
    [leaf 3 { label := "B".toList, head := some false }, leaf 1 { label := "A".toList, head := some false },
     leaf 5 { label := "V".toList, head := some true }]

example : (match boydNode cf_vp with
    | .ok r => decide (1 < r.length) && r.map (·.fields.blockNumber) == [some 1, some 2, some 3] &&
        r.map (fun x => (getLabel { splitMarking := true, splitNumbering := true } x).toOption) ==
          [some "VP*1".toList, some "VP*2".toList, some "VP*3".toList]
    | .error _ => false) = true := by decide +kernel
example : (numberBlocks { label := "NP".toList } 4 [[leaf 1 {}], [leaf 3 {}]]).map
    (fun x => (getLabel { splitMarking := true, splitNumbering := true } x).toOption) =
      [some "NP*5".toList, some "NP*6".toList] := by decide +kernel

/-! ### row 5: an already continuous tree comes back unchanged except the flags -/

/-- `boyd_split` of an already continuous tree gives the very same tree (same storage order, same label / word / lemma /
    morph / edge / head / uid at every node), every node with `split = false`, `head_block = true` -/
theorem boydSplit_continuous_fields (t t' : Tree) (hwf : WF t = true) (hc : continuous t = true)
    (h : boydSplit t = .ok t') :
    t' = t.mapFields (fun _ f => { f with split := some false, headBlock := some true }) := by
  have := cf_boydNode_fields t [t'] (C05.boydSplit_ok t t' h) hc (Lemmas.WF.WF_noEmpty t hwf) (Lemmas.WF.WF_nodup t hwf)
  simpa using this

example : WF cf_exC = true ∧ continuous cf_exC = true ∧ (match boydSplit (negraMarkHeads cf_exC) with
    | .ok t' => beq t' ((negraMarkHeads cf_exC).mapFields fun _ f => { f with split := some false, headBlock := some true })
    | .error _ => false) = true := by decide +kernel
/-- `continuous t` cannot be dropped: on the discontinuous `C05.exT` the result is another tree -/
example : WF C05.exT = true ∧ (match boydSplit C05.exT with
    | .ok t' => beq t' (C05.exT.mapFields fun _ f => { f with split := some false, headBlock := some true })
    | .error _ => true) = false := by decide +kernel

/-- ... and `raising` then changes nothing -/
theorem raising_boydSplit_continuous_fields (t t' : Tree) (hwf : WF t = true) (hc : continuous t = true)
    (h : boydSplit t = .ok t') :
    raising t' = t.mapFields (fun _ f => { f with split := some false, headBlock := some true }) := by
  rw [(C05.continuous_fixpoint_strong t t' h hwf hc).1]
  exact boydSplit_continuous_fields t t' hwf hc h

/-- boyd_split + raising: an already continuous tree comes back unchanged except the flags (storage order, edge, lemma,
    morph, uid included) -/
theorem continuous_unchanged_fields (t t' : Tree) (hwf : WF t = true) (hc : continuous t = true)
    (h : boydSplit t = .ok t') : stripFlags (raising t') = stripFlags t := by
  rw [raising_boydSplit_continuous_fields t t' hwf hc h, cf_stripFlags_setFlags]

/-- the whole pipeline (NeGra head marking, boyd_split, raising) on a continuous tree -/
theorem pipeline_negra_continuous_fields (t t' : Tree) (hwf : WF t = true) (hc : continuous t = true)
    (h : boydSplit (negraMarkHeads t) = .ok t') : stripFlags (raising t') = stripFlags t := by
  rw [continuous_unchanged_fields _ t' (C04.negra_WF t hwf).1 (Lemmas.More10.continuous_negra t hc) h,
    cf_stripFlags_negra]

/-- the same with a rule preset -/
theorem pipeline_rules_continuous_fields (p : Preset) (t m t' : Tree) (hwf : WF t = true) (hc : continuous t = true)
    (hm : markHeadsByRules (some p) none t = .ok m) (h : boydSplit m = .ok t') :
    stripFlags (raising t') = stripFlags t := by
  obtain ⟨hw, _, _, _, hst⟩ := C05More.rules_marked p t m hwf hm
  rw [continuous_unchanged_fields m t' hw (Lemmas.More10.continuous_of_stripT_eq hst hc) h]
  cases p with
  | negra => rw [(C15.rules_presets_ok t).1, Except.ok.injEq] at hm; subst hm; exact cf_stripFlags_rules _ t
  | ptb => rw [(C15.rules_presets_ok t).2, Except.ok.injEq] at hm; subst hm; exact cf_stripFlags_rules _ t
  | other => rw [(C15.rules_rejects t []).1] at hm; cases hm

example : beq (stripFlags (C05More.runNegra cf_exC)) (stripFlags cf_exC) = true ∧
    beq (stripFlags (C05More.runRules .negra cf_exC)) (stripFlags cf_exC) = true := by decide +kernel
/-- `stripFlags` sees what `stripT` does not: an edge label, a uid -/
example : beq (stripFlags cf_exC) (stripFlags (cf_exC.mapFields fun _ f => { f with edge := none })) = false ∧
    beq (stripFlags cf_exC) (stripFlags (cf_exC.mapFields fun _ f => { f with uid := none })) = false ∧
    beq (stripT cf_exC) (stripT (cf_exC.mapFields fun _ f => { f with edge := none, uid := none })) = true := by decide +kernel
/-- not for a discontinuous tree: the pipeline changes `cf_exD` -/
example : beq (stripFlags (C05More.runNegra cf_exD)) (stripFlags cf_exD) = false := by decide +kernel

/-! ### row 6: the result is the reference tree, compared on everything except the four flags -/

/-- the result is the reference tree, compared on everything except the four flags (edge, lemma, morph, uid included;
    `C05.raise_spec` compares structure, labels, words and numbers only) -/
theorem raise_spec_fields (t t' : Tree) (h : boydSplit t = .ok t') (hwf : WF t = true)
    (hh : ∀ s ∈ t.subtrees, ∀ f ks, s = node f ks → (ks.filter (fun k => k.fields.head == some true)).length = 1) :
    sortKids (stripFlags (raising t')) = sortKids (stripFlags (contSpecRoot t)) := by
  obtain ⟨dec, hd⟩ := cf_dec_exists
  have hφ := cf_relabel_hom
  have := C05.raise_spec (cf_M cf_relabel t) (cf_M cf_relabel t') (cf_M_boydSplit hφ t t' h) (cf_M_WF _ t hwf)
    (cf_M_oneHead hφ t hh)
  rw [cf_M_raising hφ, cf_M_contSpecRoot hφ] at this
  have := congrArg (cf_M fun f => dec f.label) this
  rw [← cf_sortKids_M, ← cf_sortKids_M, cf_dec_stripT dec hd, cf_dec_stripT dec hd] at this
  exact this


/-- with the NeGra head marking inside -/
theorem pipeline_negra_fields (t t' : Tree) (hwf : WF t = true) (h : boydSplit (negraMarkHeads t) = .ok t') :
    sortKids (stripFlags (raising t')) = sortKids (stripFlags (contSpecRoot (negraMarkHeads t))) :=
  raise_spec_fields _ t' h (C04.negra_WF t hwf).1 (C05More.negra_heads_hyp t hwf)

/-- with a rule preset inside -/
theorem pipeline_rules_fields (p : Preset) (t m t' : Tree) (hwf : WF t = true)
    (hm : markHeadsByRules (some p) none t = .ok m) (h : boydSplit m = .ok t') :
    sortKids (stripFlags (raising t')) = sortKids (stripFlags (contSpecRoot m)) := by
  obtain ⟨hw, hoh, _⟩ := C05More.rules_marked p t m hwf hm
  exact raise_spec_fields m t' h hw (Lemmas.More10.oneHead_hyp m (Lemmas.WF.WF_noEmpty m hw) hoh)

example : WF cf_exD = true ∧
    beq (sortKids (stripFlags (C05More.runNegra cf_exD))) (sortKids (stripFlags (contSpecRoot (negraMarkHeads cf_exD)))) = true ∧
    beq (sortKids (stripFlags (C05More.runRules .ptb cf_exD)))
      (sortKids (stripFlags (contSpecRoot (setHead false (rulesMarkAux Gen.HEAD_RULES_PTB cf_exD))))) = true := by
  decide +kernel
/-- the surviving constituents keep their identity and edge: the kept `VP` (now over token 6 only) is node 2 with edge
    `OC`, the kept `NP`s are 3 (`OA`, token 4) and 8 (`SB`, token 5); the comparison is modulo storage order only
    (`sortKids` cannot be dropped) -/
example : ((C05More.runNegra cf_exD).subtrees.filter (fun s => !s.isLeaf)).map (fun s => (s.fields.uid, s.fields.edge)) =
      [(some 1, some "--".toList), (some 3, some "OA".toList), (some 2, some "OC".toList), (some 8, some "SB".toList)] ∧
    beq (stripFlags (C05More.runNegra cf_exD)) (stripFlags (contSpecRoot (negraMarkHeads cf_exD))) = false := by
  decide +kernel

end TT.Props.C05Split
