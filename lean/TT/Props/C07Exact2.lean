/-
  C07, wave 16 (audit B, third pass, "Still missing (C07)" 1-4): the S items.
  * `binarizeGrammar_entry_expected_none`: the deterministic twin of `C07Exact.binarizeGrammar_entry_expected_markov`;
  * `expectedAdds_markov`, `expectedAdds_none`, `expectedAdds_small`: the specification-side list `Spec.expectedAdds` IS the
    chain of `C07Sem.binarizeGrammar_markov_chain` / `binarizeGrammar_none_chain` (two spellings of one chain);
  * `binarizeGrammar_expected_markov_sound`, `binarizeGrammar_expected_none_sound`: what the expected rules of an entry of
    rank ≥ 3 are - a chain in the result with at least the count, composing to the reordered rule;
  * `binarizeGrammar_none_sem`: rows 2 + 4 in one statement for deterministic labels;
  * `chainOf_eq`: the chain the harness predicate `P.C07.rule` searches for is `expectedAdds` in the initial state
    (deterministic labels; for Markov labels the proposed equation is false, example).
-/
import TT.Props.C07Exact
namespace TT.Props.C07Exact2
open TT TT.Tree TT.Spec TT.Lemmas.GramBin TT.Lemmas.Unbin TT.Lemmas.More12b TT.Props.C07More TT.Props.C07Sem
open TT.Lemmas.More15b TT.Props.C07Exact

/-! ### `expectedAdds` = the chains of rows 2 / 3 -/

theorem expectedAdds_small (mo : Option MarkovOpts) (st : GenState) (f : Func) (l : Lin) (vs : List Str)
    (h : f.length ≤ 3) : expectedAdds mo st f l vs = [(f, l)] := by
  rw [expectedAdds, if_pos h]

/-- Markov labels: for a rule with more than two right-hand-side elements the expected rules are the chain of
    `C07Sem.binarizeGrammar_markov_chain`, labels `markovLabel o f p vs (fanOut l)` -/
theorem expectedAdds_markov (o : MarkovOpts) (st : GenState) (f : Func) (l : Lin) (vs : List Str) (h3 : 3 < f.length) :
    expectedAdds (some o) st f l vs =
      chainG f (fun p => markovLabel o f p vs (fanOut l)) (f.length - 3) 0 (f[0]?.getD []) l := by
  rw [expectedAdds, if_neg (by omega)]
  rfl

/-- deterministic labels: the chain of `C07Sem.binarizeGrammar_none_chain`, labels `@s+1X, @s+2X, ...` -/
theorem expectedAdds_none (s : Nat) (f : Func) (l : Lin) (vs : List Str) (h3 : 3 < f.length) :
    expectedAdds none ⟨s⟩ f l vs =
      chainG f (fun p => uniqueLabel (s + p + 1)) (f.length - 3) 0 (f[0]?.getD []) l := by
  rw [expectedAdds, if_neg (by omega)]
  rfl

example : expectedAdds none ⟨2⟩ C07More.exF C07More.exL1 [] =
    [([['S'], ['A'], uniqueLabel 3], topLin C07More.exL1),
     ([uniqueLabel 3, ['B'], uniqueLabel 4], topLin (restLin C07More.exL1)),
     ([uniqueLabel 4, ['C'], ['D']], restLin (restLin C07More.exL1))] := by decide

/-- the expected rules of an entry of rank ≥ 3, Markov labels, are in the result with at least the entry's count, their
    linearizations are `chainLins`, and un-binarizing them gives the reordered rule back
    (`binarizeGrammar_markov_chain` read through `expectedAdds`) -/
theorem binarizeGrammar_expected_markov_sound (r : Reordering) (o : MarkovOpts) (g : Grammar) (f : Func) (l : Lin)
    (v : VertKey) (c : Nat) (he : (f, l, v, c) ∈ g.entries) (h3 : 3 < f.length) (hw : CWF f l) :
    let exp := expectedAdds (some o) {} (reorder r f l).1 (reorder r f l).2 (vertOf o v)
    (∀ x ∈ exp, c ≤ gramCount (binarizeGrammar r (some o) g) x.1 x.2 .default) ∧
    exp.map (·.2) = chainLins (reorder r f l).2 ((reorder r f l).1.length - 3) ∧
    unbinChain exp = some (reorder r f l) := by
  intro exp
  have hne : f ≠ [] := by intro e0; rw [e0] at h3; simp at h3
  have hlen : (reorder r f l).1.length = f.length := reorder_length r f l hne
  have := binarizeGrammar_markov_chain r o g f l v c he h3 hw
  have e : exp = _ := expectedAdds_markov o {} (reorder r f l).1 (reorder r f l).2 (vertOf o v) (by omega)
  rw [e]
  exact this

/-- the same for deterministic labels; the generator state is the offset `s` of `binarizeGrammar_none_chain` -/
theorem binarizeGrammar_expected_none_sound (r : Reordering) (g : Grammar) (f : Func) (l : Lin) (c : Nat)
    (he : (f, l, c) ∈ g.rules) (h3 : 3 < f.length) (hw : CWF f l) :
    ∃ s : Nat,
      let exp := expectedAdds none ⟨s⟩ (reorder r f l).1 (reorder r f l).2 []
      (∀ x ∈ exp, c ≤ gramCount (binarizeGrammar r none g) x.1 x.2 .default) ∧
      exp.map (·.2) = chainLins (reorder r f l).2 ((reorder r f l).1.length - 3) ∧
      unbinChain exp = some (reorder r f l) := by
  have hne : f ≠ [] := by intro e0; rw [e0] at h3; simp at h3
  have hlen : (reorder r f l).1.length = f.length := reorder_length r f l hne
  obtain ⟨s, hs⟩ := binarizeGrammar_none_chain r g f l c he h3 hw
  refine ⟨s, ?_⟩
  intro exp
  have e : exp = _ := expectedAdds_none s (reorder r f l).1 (reorder r f l).2 [] (by omega)
  rw [e]
  exact hs

/-! ### nothing else is entered: deterministic labels -/

/-- the deterministic twin of `C07Exact.binarizeGrammar_entry_expected_markov`: an entry of `binarizeGrammar r none g`
    with a positive count is one of the rules expected for some rule of `g` (numbered on from its label offset) with
    a positive count -/
theorem binarizeGrammar_entry_expected_none (r : Reordering) (g : Grammar) (F : Func) (L : Lin)
    (h : 0 < gramCount (binarizeGrammar r none g) F L .default) :
    ∃ p ∈ g.rules.zip (offsetsFrom 0 (g.rules.map fun e => e.1.length - 3)), 0 < p.1.2.2 ∧
      (F, L) ∈ expectedAdds none ⟨p.2⟩ (reorder r p.1.1 p.1.2.1).1 (reorder r p.1.1 p.1.2.1).2 [] := by
  rw [binarizeGrammar_gramCount_none] at h
  obtain ⟨p, hp, hpos⟩ := sum_pos_mem _ _ h
  exact ⟨p, hp, Nat.pos_of_mul_pos_right hpos, List.count_pos_iff.1 (Nat.pos_of_mul_pos_left hpos)⟩

example : 0 < gramCount (binarizeGrammar .none none C07More.exG2) [uniqueLabel 3, ['B'], uniqueLabel 4]
    (topLin (restLin C07More.exL1)) .default := by
  rw [binarizeGrammar_gramCount_none]; decide

/-! ### rows 2 + 4 in one statement, deterministic labels -/

/-- the deterministic twin of `C07Sem.binarizeGrammar_markov_sem`: the chain in the result composes to a rule
    `(f', l')` whose right-hand side is the original one permuted by `π` and whose linearization, instantiated with the
    arguments permuted by `π`, gives what the original linearization gives with the original arguments -/
theorem binarizeGrammar_none_sem {α} (r : Reordering) (g : Grammar) (f : Func) (l : Lin) (c : Nat)
    (he : (f, l, c) ∈ g.rules) (h3 : 3 < f.length) (hw : CWF f l) (args : List (List (List α))) :
    ∃ (f' : Func) (l' : Lin) (π : List Nat) (s : Nat),
      π.Perm (List.range (f.length - 1)) ∧
      f' = f[0]?.getD [] :: π.map (fun i => f[i + 1]?.getD []) ∧
      instLin l' (π.map fun i => args[i]?.getD []) = instLin l args ∧
      (∀ x ∈ expectedAdds none ⟨s⟩ f' l' [], c ≤ gramCount (binarizeGrammar r none g) x.1 x.2 .default) ∧
      (expectedAdds none ⟨s⟩ f' l' []).length = f.length - 2 ∧
      unbinChain (expectedAdds none ⟨s⟩ f' l' []) = some (f', l') := by
  have hne : f ≠ [] := by intro e0; rw [e0] at h3; simp at h3
  obtain ⟨π, hπ, hf', hl'⟩ := reorder_sem r f l hne hw args
  obtain ⟨s, h1, _, h2⟩ := binarizeGrammar_expected_none_sound r g f l c he h3 hw
  have hlen : (reorder r f l).1.length = f.length := reorder_length r f l hne
  refine ⟨(reorder r f l).1, (reorder r f l).2, π, s, hπ, hf', hl', h1, ?_, h2⟩
  rw [expectedAdds_none s _ _ _ (by omega), chainG_length, hlen]; omega

/-! ### the chain the harness predicate searches for -/

theorem chainR_eq_chainG (func : Func) (lab : Nat → Str) : ∀ (k p : Nat) (h : Str) (t : Lin) (s : Nat),
    (∀ j, j < k → lab (p + j) = uniqueLabel (s + j + 1)) → chainR func k (p + 1) h t s = chainG func lab k p h t
  | 0, _, _, _, _, _ => rfl
  | k + 1, p, h, t, s, hl => by
    have h0 := hl 0 (by omega)
    simp only [Nat.add_zero] at h0
    rw [chainR, chainG, h0, chainR_eq_chainG func lab k (p + 1) _ _ (s + 1)]
    intro j hj
    have := hl (j + 1) (by omega)
    rw [show p + 1 + j = p + (j + 1) by omega, this]
    congr 1; omega

/-- `Spec.chainOf none` (what `P.C07.rule` looks for in the implementation's result, deterministic labels) is
    `expectedAdds` in the initial generator state, for a rule with more than two right-hand-side elements none of which
    is a binarization symbol.  CORRECTED: the proposed form for every label mode is false - with Markov labels the rules
    of a chain can coincide and `chainOf`, read off a dictionary, lists each once (example below) -/
theorem chainOf_eq (f : Func) (l : Lin) (hf : NBF f) (h3 : 3 < f.length) :
    chainOf none f l [] = expectedAdds none {} f l [] := by
  rw [TT.Lemmas.Unbin.chainOf_eq f l hf (by omega), expectedAdds_none 0 f l [] h3]
  exact chainR_eq_chainG f _ _ 0 _ _ 0 (fun j _ => by simp)

example : NBF C07More.exF ∧ chainOf none C07More.exF C07More.exL1 [] = expectedAdds none {} C07More.exF C07More.exL1 [] :=
  ⟨by unfold NBF; decide, chainOf_eq _ _ (by unfold NBF; decide) (by decide)⟩
/-- Markov labels with h = 0, v = 0 (all labels `@X`): four expected rules, two of them equal, `chainOf` lists three -/
example : (chainOf (some C07Sem.exO0) C07Sem.exF6 C07Sem.exL6 []).length = 3 ∧
    (expectedAdds (some C07Sem.exO0) {} C07Sem.exF6 C07Sem.exL6 []).length = 4 ∧
    chainOf (some C07Sem.exO0) C07Sem.exF6 C07Sem.exL6 [] =
      (expectedAdds (some C07Sem.exO0) {} C07Sem.exF6 C07Sem.exL6 []).eraseDups := by decide

end TT.Props.C07Exact2
