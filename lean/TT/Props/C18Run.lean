/-
  C18 on the whole command (`TT/Run.lean`): what `treetools transform` writes for a sentence depends on that sentence only —
  the command on a concatenation of two treebanks writes the concatenation of what it writes for each.
  Both statements of the brief are proved exactly as given.  Helpers: `TT/Lemmas/Run.lean`.
-/
import TT.Lemmas.Run
import TT.Props.C18
namespace TT.Props.C18Run
open TT TT.Tree TT.Props.C18
open TT.Lemmas.Run TT.Lemmas.Proc

/-- what `runFrom` did when it succeeded -/
theorem runFrom_inv (steps : List Step) (fmt : DestFmt) (o : OutOpts) (enc : Option Str)
    (src : Except Err (List (Nat × Tree))) (r : Str) (h : runFrom steps fmt o enc src = .ok r) :
    ∃ ts ts', src = .ok ts ∧ transformAll steps ts = .ok ts' ∧ writeAll fmt o enc ts' = .ok r := by
  cases src with
  | error e => cases h
  | ok ts =>
    rw [runFrom_ok] at h
    obtain ⟨ts', h1, h⟩ := bind_ok _ _ _ h
    exact ⟨ts, ts', rfl, h1, h⟩

/-- the same for lists of sentences whatever the reader -/
theorem runFrom_append (steps : List Step) (fmt : DestFmt) (o : OutOpts) (a b : List (Nat × Tree)) (ra rb : Str) (hf : fmt ≠ .tigerxml)
    (ha : runFrom steps fmt o none (.ok a) = .ok ra) (hb : runFrom steps fmt o none (.ok b) = .ok rb) :
    runFrom steps fmt o none (.ok (a ++ b)) = .ok (ra ++ rb) := by
  obtain ⟨_, a', h, ha1, ha2⟩ := runFrom_inv _ _ _ _ _ _ ha
  cases h
  obtain ⟨_, b', h, hb1, hb2⟩ := runFrom_inv _ _ _ _ _ _ hb
  cases h
  rw [runFrom_ok, transformAll_append, ha1, hb1]
  show writeAll fmt o none (a' ++ b') = .ok (ra ++ rb)
  rw [writeAll_plain fmt o none _ hf] at ha2 hb2 ⊢
  exact bodyText_append_ok fmt o a' b' ra rb ha2 hb2

/-- what is written for a sentence depends only on that sentence: the command on a concatenation of two export treebanks writes the
    concatenation (formats without a frame; `a` complete, i.e. every #BOS closed by its #EOS) -/
theorem run_export_append (steps : List Step) (fmt : DestFmt) (o : OutOpts) (io : InOpts) (a b : Str) (ra rb : Str)
    (hf : fmt ≠ .tigerxml) (hcomplete : Complete (lines a)) (hc : io.continuous = false)
    (ha : runFrom steps fmt o none (readExport io (a ++ ['\n'])) = .ok ra)
    (hb : runFrom steps fmt o none (readExport io b) = .ok rb) :
    runFrom steps fmt o none (readExport io (a ++ ['\n'] ++ b)) = .ok (ra ++ rb) := by
  obtain ⟨xa, _, hxa, _, _⟩ := runFrom_inv _ _ _ _ _ _ ha
  obtain ⟨xb, _, hxb, _, _⟩ := runFrom_inv _ _ _ _ _ _ hb
  have hread : readExport io (a ++ ['\n'] ++ b) = .ok (xa ++ xb) := by
    rw [readExport_append_nl io a b hcomplete, hxa, hxb]
    have hf : renum io (sentences (lines (a ++ ['\n']))) = id := by funext p; simp [renum, hc]
    simp only [hf, List.map_id]
  rw [hread]
  rw [hxa] at ha
  rw [hxb] at hb
  exact runFrom_append steps fmt o xa xb ra rb hf ha hb

/-- the general law behind both (no success assumed, any frame-less format): the result on a concatenation of sentence lists is
    computed from the results on the two lists, errors of the first list first -/
theorem runFrom_append_results (steps : List Step) (fmt : DestFmt) (o : OutOpts) (a b : List (Nat × Tree)) (hf : fmt ≠ .tigerxml) :
    runFrom steps fmt o none (.ok (a ++ b)) =
      match transformAll steps a, transformAll steps b with
      | .error e, _ => .error e
      | .ok _, .error e => .error e
      | .ok a', .ok b' =>
        match bodyText fmt o a', bodyText fmt o b' with
        | .error e, _ => .error e
        | .ok _, .error e => .error e
        | .ok x, .ok y => .ok (x ++ y) := by
  rw [runFrom_ok, transformAll_append]
  cases transformAll steps a with
  | error e => rfl
  | ok a' =>
    cases transformAll steps b with
    | error e => rfl
    | ok b' =>
      have hw : writeAll fmt o none (a' ++ b') = (match bodyText fmt o a', bodyText fmt o b' with
          | .error e, _ => .error e
          | .ok _, .error e => .error e
          | .ok x, .ok y => .ok (x ++ y)) := by
        rw [writeAll_plain fmt o none _ hf, bodyText_append]
        cases bodyText fmt o a' with
        | error e => rfl
        | ok x => cases bodyText fmt o b' <;> rfl
      exact hw

/-! ### concrete instances: the export texts of C18 through the command -/

/-- equality of results is decidable (used by the concrete instances below only) -/
local instance instDecEqExcept {ε α} [DecidableEq ε] [DecidableEq α] : DecidableEq (Except ε α)
  | .ok a, .ok b => decidable_of_iff (a = b) (by simp)
  | .error a, .error b => decidable_of_iff (a = b) (by simp)
  | .ok _, .error _ => isFalse (by simp)
  | .error _, .ok _ => isFalse (by simp)

/-- a step that drops one-token sentences -/
def dropSmall : Step := fun t => if t.leafNums.length ≤ 1 then .ok none else .ok (some t)
/-- a step that changes the root label -/
def relab : Step := fun t => .ok (some (t.setFields fun f => { f with label := "TOP".toList }))

theorem exA_run : runFrom [relab] .discobrackets {} none (readExport {} (exA ++ ['\n'])) =
    .ok "(TOP(NP(D 1)(N 2)))\tthe dog\n(TOP(N 1))\tit\n".toList := by decide +kernel
theorem exB_run : runFrom [relab] .discobrackets {} none (readExport {} exB) = .ok "(TOP(ADV 1))\tnow\n".toList := by decide +kernel

example : runFrom [relab] .discobrackets {} none (readExport {} (exA ++ ['\n'] ++ exB)) =
    .ok ("(TOP(NP(D 1)(N 2)))\tthe dog\n(TOP(N 1))\tit\n".toList ++ "(TOP(ADV 1))\tnow\n".toList) :=
  run_export_append [relab] .discobrackets {} {} exA exB _ _ (by decide) (by decide +kernel) rfl exA_run exB_run

/-- `runFrom_append` on two lists of sentences with a step that drops trees -/
example : runFrom [dropSmall, relab] .brackets {} none
      (.ok ([(1, TT.Props.C18.exTree), (2, TT.Props.C18.exU)] ++ [(3, leaf 1 { label := "X".toList, word := some "x".toList }), (4, TT.Props.C18.exU)])) =
    .ok ("(TOP(A a)(B b))\n(TOP(N it)(ADV now))\n".toList ++ "(TOP(N it)(ADV now))\n".toList) :=
  runFrom_append _ _ _ _ _ _ _ (by decide) (by decide +kernel) (by decide +kernel)

/-- `hc` cannot be dropped: with `continuous` the ids of the second treebank are shifted, and export output shows the ids
    (`a` = one empty sentence, `b` = `exB`: the third text is not the concatenation of the first two) -/
example : runFrom [] .export {} none (readExport { continuous := true } ("#BOS 5\n#EOS 5".toList ++ ['\n'])) = .ok "#BOS 1\n#EOS 1\n".toList ∧
    runFrom [] .export {} none (readExport { continuous := true } exB) = .ok "#BOS 1\nnow\t\t\tADV\t--\t\tHD\t0\n#EOS 1\n".toList ∧
    runFrom [] .export {} none (readExport { continuous := true } ("#BOS 5\n#EOS 5".toList ++ ['\n'] ++ exB)) =
      .ok "#BOS 1\n#EOS 1\n#BOS 2\nnow\t\t\tADV\t--\t\tHD\t0\n#EOS 2\n".toList := by decide +kernel

end TT.Props.C18Run
