/-
  C02 — writers encode every tree faithfully
-/
import TT.Spec.Formats
import TT.Lemmas.Write
namespace TT.Props.C02
open TT TT.Tree TT.Spec
open TT.Lemmas.Write TT.Lemmas.GramOut

/-! ### XML attribute escaping -/

theorem unescape_escape (s : Str) : unescapeXml (xmlEscape s) = s := by
  rw [xmlEscape_eq]; exact unescapeXml_flatMap esc1 esc1_inverts s

theorem quoteattr_spec (s : Str) :
    ∃ q inner, quoteattr s = q :: (inner ++ [q]) ∧ (q = '"' ∨ q = '\'') ∧ q ∉ inner ∧ '<' ∉ inner ∧ unescapeXml inner = s := by
  rw [quoteattr_eq]
  by_cases h1 : (xmlEscape s).contains '"' = true
  · by_cases h2 : (xmlEscape s).contains '\'' = true
    · rw [if_pos h1, if_pos h2]
      refine ⟨'"', (xmlEscape s).flatMap quot1, by simp, Or.inl rfl, ?_, ?_, ?_⟩
      all_goals rw [xmlEscape_eq, List.flatMap_assoc]; simp only [esc1_quot1]
      · exact not_mem_flatMap _ _ dq_not_mem_esc2 s
      · exact not_mem_flatMap _ _ lt_not_mem_esc2 s
      · exact unescapeXml_flatMap esc2 esc2_inverts s
    · rw [if_pos h1, if_neg h2]
      refine ⟨'\'', xmlEscape s, by simp, Or.inr rfl, by simpa using h2, ?_, unescape_escape s⟩
      rw [xmlEscape_eq]; exact not_mem_flatMap _ _ lt_not_mem_esc1 s
  · rw [if_neg h1]
    refine ⟨'"', xmlEscape s, by simp, Or.inl rfl, by simpa using h1, ?_, unescape_escape s⟩
    rw [xmlEscape_eq]; exact not_mem_flatMap _ _ lt_not_mem_esc1 s

/-! ### parentheses inside tokens -/

theorem replaceParens_no_brackets (s : Str) :
    ∀ c ∈ replaceParens s, c ≠ '(' ∧ c ≠ ')' ∧ c ≠ '[' ∧ c ≠ ']' ∧ c ≠ '{' ∧ c ≠ '}' := by
  intro c hc
  rw [replaceParens_eq] at hc
  have key : ∀ x : Char, (x = '(' ∨ x = ')' ∨ x = '[' ∨ x = ']' ∨ x = '{' ∨ x = '}') → c ≠ x := by
    intro x hx e; subst e
    exact not_mem_replFold c _ (brackets_vals c (by rcases hx with h | h | h | h | h | h <;> simp [h])) s (Or.inr (brackets_keys c hx)) hc
  exact ⟨key _ (by simp), key _ (by simp), key _ (by simp), key _ (by simp), key _ (by simp), key _ (by simp)⟩


theorem replaceParens_id_of_no_key (s : Str) (h : ∀ kv ∈ Gen.BRACKETS, ¬ kv.1 <:+: s) : replaceParens s = s := by
  rw [replaceParens_eq]; exact replFold_id _ s h

theorem replaceParens_id' (s : Str) (h : ∀ c ∈ s, c ≠ '(' ∧ c ≠ ')' ∧ c ≠ '[' ∧ c ≠ ']' ∧ c ≠ '{' ∧ c ≠ '}')
    (h2 : ∀ kv ∈ Gen.BRACKETS, 1 < kv.1.length → ¬ kv.1 <:+: s) : replaceParens s = s := by
  apply replaceParens_id_of_no_key
  intro kv hkv hi
  rcases brackets_keys_shape kv hkv with ⟨hl, _⟩ | hm
  · exact h2 kv hkv hl hi
  · simp only [List.mem_cons, List.not_mem_nil, or_false] at hm
    have hc : ∀ c, kv.1 = [c] → c ∈ s := fun c e => by
      rw [e] at hi; exact hi.subset (List.mem_singleton.2 rfl)
    rcases hm with e | e | e | e | e | e
    all_goals (have := h _ (hc _ e); simp at this)

theorem replaceParens_idem' (s : Str) (h2 : ∀ kv ∈ Gen.BRACKETS, 1 < kv.1.length → ¬ kv.1 <:+: replaceParens s) :
    replaceParens (replaceParens s) = replaceParens s :=
  replaceParens_id' _ (replaceParens_no_brackets s) h2

theorem replaceParens_idem_of_no_dash (s : Str) (h : '-' ∉ s) : replaceParens (replaceParens s) = replaceParens s := by
  apply replaceParens_idem'
  intro kv hkv hl hi
  rcases brackets_keys_shape kv hkv with ⟨_, hd⟩ | hm
  · have : '-' ∈ replaceParens s := hi.subset hd
    rw [replaceParens_eq] at this
    rcases mem_replFold _ _ _ this with h' | ⟨kv', hk', hc⟩
    · exact h h'
    · exact brackets_vals '-' (by simp) kv' hk' hc
  · simp only [List.mem_cons, List.not_mem_nil, or_false] at hm
    rcases hm with e | e | e | e | e | e <;> simp [e] at hl

example : replaceParens (replaceParens "--LRB--".toList) ≠ replaceParens "--LRB--".toList := by decide
example : (∀ c ∈ "-LRB-".toList, c ≠ '(' ∧ c ≠ ')' ∧ c ≠ '[' ∧ c ≠ ']' ∧ c ≠ '{' ∧ c ≠ '}') ∧ replaceParens "-LRB-".toList ≠ "-LRB-".toList := by decide

theorem writeTerminals_plain (t : Tree) :
    writeTerminals {} t = .ok ((t.terminals.map fun l => (l.fields.word.getD []) ++ [' ']).flatten ++ ['\n']) := by
  simp [writeTerminals]

theorem writeTerminals_rejects (o : OutOpts) (t : Tree) (h1 : o.terminalsPos = true) (h2 : o.posOnly = true) :
    writeTerminals o t = .error .valueError := by
  simp [writeTerminals, h1, h2]

theorem writeBrackets_refuses_iff (o : OutOpts) (t : Tree) (h : o.skipDisco = false) :
    (∃ e, writeBrackets o t = .error e ∧ gapDegree t > 0) ∨ (gapDegree t = 0 ∧ writeBrackets o t = (bracketsSub o o.emptyRoot t).map some) := by
  unfold writeBrackets
  by_cases hg : gapDegree t > 0
  · left; exact ⟨.valueError, by simp [hg, h], hg⟩
  · right; exact ⟨by omega, by simp [hg]⟩

theorem writeBrackets_skips_iff (o : OutOpts) (t : Tree) (h : o.skipDisco = true) :
    (writeBrackets o t = .ok none ↔ gapDegree t > 0) := by
  unfold writeBrackets
  by_cases hg : gapDegree t > 0
  · simp [hg, h]
  · simp only [hg, if_false, iff_false]
    cases bracketsSub o o.emptyRoot t <;> simp [Except.map]


/-! ### export: frame and line counts -/


theorem writeExport_frame (o : OutOpts) (sid : Nat) (t : Tree) (ls : List Str) (h : writeExport o sid t = .ok ls) :
    ls.head? = some ("#BOS ".toList ++ natToStr sid) ∧ ls.getLast? = some ("#EOS ".toList ++ natToStr sid) ∧
    ls.length = 2 + (t.preorderP.filter (· ≠ [])).length := by
  unfold writeExport at h
  obtain ⟨terms, ht, h⟩ := bind_eq_ok _ _ _ h
  obtain ⟨nts, hn, h⟩ := bind_eq_ok _ _ _ h
  have h1 := mapM_ok_length _ _ _ ht
  have h2 := mapM_ok_length _ _ _ hn
  simp only [pure, Except.pure, Except.ok.injEq] at h
  subst h
  refine ⟨by simp, List.getLast?_concat, ?_⟩
  simp only [List.length_append, List.length_map, sortBy_length, List.length_cons, List.length_nil, h1, h2]
  have h3 := filter_length_add (fun (x : Path × Tree) => x.2.kids.isEmpty)
    ((t.preorderP.filter (· ≠ [])).filterMap fun p => (t.get? p).map fun s => (p, s))
  rw [filterMap_length_of_isSome] at h3
  · omega
  · intro p hp
    have := get?_isSome_of_mem_preorderP t p (List.mem_filter.1 hp).1
    simpa using this



theorem decExpLine_exportLine (o : OutOpts) (t : Tree) (word : Str) (pn : Nat) (line : Str)
    (h : exportLine o t word pn = .ok line)
    (hw : word ≠ [] ∧ ∀ c ∈ word, pyIsSpace c = false)
    (hf : ∀ x ∈ [printedLabel o t, t.fields.morph.getD DEFAULT_MORPH, t.fields.edge.getD DEFAULT_EDGE, t.fields.lemma.getD DEFAULT_LEMMA],
            x ≠ [] ∧ ∀ c ∈ x, pyIsSpace c = false) :
    decExpLine o.exportFour line = some { word := word, lemma := (if o.exportFour then t.fields.lemma.getD DEFAULT_LEMMA else DEFAULT_LEMMA), label := printedLabel o t, morph := t.fields.morph.getD DEFAULT_MORPH, edge := t.fields.edge.getD DEFAULT_EDGE, parent := pn } := by
  unfold exportLine at h
  obtain ⟨label, hl, h⟩ := bind_eq_ok _ _ _ h
  rw [setFields_edge_eq] at hl
  have hpl := printedLabel_of_ok o t label hl
  have hlab := hf (printedLabel o t) (by simp)
  have hmor := hf (t.fields.morph.getD DEFAULT_MORPH) (by simp)
  have hedg := hf (t.fields.edge.getD DEFAULT_EDGE) (by simp)
  have hlem := hf (t.fields.lemma.getD DEFAULT_LEMMA) (by simp)
  rw [hpl] at hlab
  have hnum : splitWs (natToStr pn) = [natToStr pn] := splitWs_word _ (OKw_natToStr pn)
  cases h4 : o.exportFour with
  | false =>
    simp only [h4, Bool.not_false, if_true, pure, Except.pure, Except.ok.injEq] at h
    subst h
    unfold decExpLine
    simp only [List.append_assoc, List.cons_append, List.nil_append]
    rw [splitWs_word_tabs _ _ _ hw, splitWs_word_tab _ _ hlab, splitWs_word_tabs _ _ _ hmor, splitWs_word_tab _ _ hedg, hnum]
    simp [strToNat_natToStr, hpl]
  | true =>
    simp only [h4, Bool.not_true, Bool.false_eq_true, if_false, pure, Except.pure, Except.ok.injEq] at h
    subst h
    unfold decExpLine
    simp only [List.append_assoc, List.cons_append, List.nil_append]
    rw [splitWs_word_tabs _ _ _ hw, splitWs_word_tabs _ _ _ hlem, splitWs_word_tab _ _ hlab, splitWs_word_tabs _ _ _ hmor, splitWs_word_tab _ _ hedg, hnum]
    simp [strToNat_natToStr, hpl]

theorem exportLine_total (o : OutOpts) (t : Tree) (word : Str) (pn : Nat)
    (h : o.markHeads = false ∧ o.splitMarking = false ∧ o.splitNumbering = false) : ∃ l, exportLine o t word pn = .ok l := by
  obtain ⟨h1, h2, h3⟩ := h
  unfold exportLine getLabel
  simp only [h1, h2, h3, Bool.false_eq_true, if_false, pure, Except.pure, bind, Except.bind]
  split <;> exact ⟨_, rfl⟩

end TT.Props.C02
