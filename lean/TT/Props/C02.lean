/-
  C02 — writers encode every tree faithfully (theorems being added)
-/
import TT.Spec.Formats
namespace TT.Props.C02
open TT TT.Tree TT.Spec

end TT.Props.C02
