/-
  C02 — writers encode every tree faithfully.

  Proved exactly as stated: `unescape_escape`, `quoteattr_spec`, `replaceParens_no_brackets`,
  `writeTerminals_plain`, `writeTerminals_rejects`, `writeBrackets_refuses_iff`, `writeBrackets_skips_iff`,
  `writeExport_frame`, `decExpLine_exportLine`, `exportLine_total`.
  FALSE as stated (counterexamples as `example`s, corrected versions proved; see the note at the end of the file):
  `replaceParens_idem`, `replaceParens_id`, `decBrackets_write`
  (corrected: `replaceParens_idem'`, `replaceParens_idem_of_no_dash`, `replaceParens_id'`, `replaceParens_id_of_no_key`,
   `decBrackets_write'`, `decBrackets_write_nogf`, `decBrackets_write_core`).
-/
import TT.Spec.Formats
import TT.Lemmas.Write
import TT.Props.C19
import TT.Props.C20
namespace TT.Props.C02
open TT TT.Tree TT.Spec
open TT.Lemmas.Write TT.Lemmas.GramOut TT.Lemmas.WF

/-- equality of writer results is decidable (used by the concrete instances below only) -/
local instance instDecEqExcept {ε α} [DecidableEq ε] [DecidableEq α] : DecidableEq (Except ε α)
  | .ok a, .ok b => decidable_of_iff (a = b) (by simp)
  | .error a, .error b => decidable_of_iff (a = b) (by simp)
  | .ok _, .error _ => isFalse (by simp)
  | .error _, .ok _ => isFalse (by simp)

/-! ### concrete trees for the instances -/

/-- `(S (VP (A a) (C c)) (B b))` with tokens a=1, b=2, c=3: discontinuous -/
def exDisc : Tree := node { label := "S".toList } [node { label := "VP".toList } [leaf 1 { label := "A".toList, word := some "a".toList }, leaf 3 { label := "C".toList, word := some "c".toList }], leaf 2 { label := "B".toList, word := some "b".toList }]
/-- `(S (NP (A w)) (B [b]))` stored in the other order (B first), tokens: A=1, B=2; brackets inside a word, a `-LRB-` edge -/
def exCont : Tree := node { label := "S".toList } [leaf 2 { label := "B".toList, word := some "[b]".toList },
  node { label := "NP".toList } [leaf 1 { label := "A".toList, word := some "w".toList, edge := some "-LRB-".toList }]]

/-! ### XML attribute escaping -/

theorem unescape_escape (s : Str) : unescapeXml (xmlEscape s) = s := by
  rw [xmlEscape_eq]; exact unescapeXml_flatMap esc1 esc1_inverts s

/-- an attribute value with every special character and both kinds of quotes -/
def exStr : Str := "a<b & \"c\"\n'd'".toList
example : unescapeXml (xmlEscape exStr) = exStr := unescape_escape _
example : xmlEscape exStr = "a&lt;b &amp; \"c\"&#10;'d'".toList := by decide +kernel

/-- a quoted attribute value: delimiter q, the delimiter does not occur inside, no raw '<', and unescaping gives the value back -/
theorem quoteattr_spec (s : Str) :
    ∃ q inner, quoteattr s = q :: (inner ++ [q]) ∧ (q = '"' ∨ q = '\'') ∧ q ∉ inner ∧ '<' ∉ inner ∧ unescapeXml inner = s := by
  rw [quoteattr_eq]
  by_cases h1 : (xmlEscape s).contains '"' = true
  · by_cases h2 : (xmlEscape s).contains '\'' = true
    · rw [if_pos h1, if_pos h2]
      refine ⟨'"', (xmlEscape s).flatMap quot1, by simp, Or.inl rfl, ?_, ?_, ?_⟩
      all_goals rw [xmlEscape_eq, List.flatMap_assoc]; simp only [esc1_quot1]
      · exact not_mem_flatMap _ _ dq_not_mem_esc2 s
      · exact not_mem_flatMap _ _ lt_not_mem_esc2 s
      · exact unescapeXml_flatMap esc2 esc2_inverts s
    · rw [if_pos h1, if_neg h2]
      refine ⟨'\'', xmlEscape s, by simp, Or.inr rfl, by simpa using h2, ?_, unescape_escape s⟩
      rw [xmlEscape_eq]; exact not_mem_flatMap _ _ lt_not_mem_esc1 s
  · rw [if_neg h1]
    refine ⟨'"', xmlEscape s, by simp, Or.inl rfl, by simpa using h1, ?_, unescape_escape s⟩
    rw [xmlEscape_eq]; exact not_mem_flatMap _ _ lt_not_mem_esc1 s

/-- the third branch of `quoteattr` (both quotes occur) -/
example : quoteattr exStr = "\"a&lt;b &amp; &quot;c&quot;&#10;'d'\"".toList := by decide +kernel

/-! ### parentheses inside tokens -/

theorem replaceParens_no_brackets (s : Str) :
    ∀ c ∈ replaceParens s, c ≠ '(' ∧ c ≠ ')' ∧ c ≠ '[' ∧ c ≠ ']' ∧ c ≠ '{' ∧ c ≠ '}' := by
  intro c hc
  rw [replaceParens_eq] at hc
  have key : ∀ x : Char, (x = '(' ∨ x = ')' ∨ x = '[' ∨ x = ']' ∨ x = '{' ∨ x = '}') → c ≠ x := by
    intro x hx e; subst e
    exact not_mem_replFold c _ (brackets_vals c (by rcases hx with h | h | h | h | h | h <;> simp [h])) s (Or.inr (brackets_keys c hx)) hc
  exact ⟨key _ (by simp), key _ (by simp), key _ (by simp), key _ (by simp), key _ (by simp), key _ (by simp)⟩

example : replaceParens "(a)[-LRB-]".toList = "LRBaRRBLSBLRBRSB".toList := by decide +kernel

/-- CORRECTED `replaceParens_id` (general form): no key of the table occurs in `s` -/
theorem replaceParens_id_of_no_key (s : Str) (h : ∀ kv ∈ Gen.BRACKETS, ¬ kv.1 <:+: s) : replaceParens s = s := by
  rw [replaceParens_eq]; exact replFold_id _ s h

/-- CORRECTED `replaceParens_id`: the given hypothesis plus `h2` (no multi-character key such as `-LRB-` occurs in `s`).
    Without `h2` the statement is false: `replaceParens "-LRB-" = "LRB"` (see the `example` below). -/
theorem replaceParens_id' (s : Str) (h : ∀ c ∈ s, c ≠ '(' ∧ c ≠ ')' ∧ c ≠ '[' ∧ c ≠ ']' ∧ c ≠ '{' ∧ c ≠ '}')
    (h2 : ∀ kv ∈ Gen.BRACKETS, 1 < kv.1.length → ¬ kv.1 <:+: s) : replaceParens s = s := by
  apply replaceParens_id_of_no_key
  intro kv hkv hi
  rcases brackets_keys_shape kv hkv with ⟨hl, _⟩ | hm
  · exact h2 kv hkv hl hi
  · simp only [List.mem_cons, List.not_mem_nil, or_false] at hm
    have hc : ∀ c, kv.1 = [c] → c ∈ s := fun c e => by
      rw [e] at hi; exact hi.subset (List.mem_singleton.2 rfl)
    rcases hm with e | e | e | e | e | e
    all_goals (have := h _ (hc _ e); simp at this)

example : replaceParens "NP-SBJ".toList = "NP-SBJ".toList :=
  replaceParens_id' _ (by decide +kernel) (by decide +kernel)

/-- CORRECTED `replaceParens_idem`: extra hypothesis `h2` (the first pass does not create a multi-character key).
    Without it the statement is false: `"--LRB--" ↦ "-LRB-" ↦ "LRB"` (see the `example` below). -/
theorem replaceParens_idem' (s : Str) (h2 : ∀ kv ∈ Gen.BRACKETS, 1 < kv.1.length → ¬ kv.1 <:+: replaceParens s) :
    replaceParens (replaceParens s) = replaceParens s :=
  replaceParens_id' _ (replaceParens_no_brackets s) h2

/-- a simple sufficient condition for idempotence: no `-` in the input -/
theorem replaceParens_idem_of_no_dash (s : Str) (h : '-' ∉ s) : replaceParens (replaceParens s) = replaceParens s := by
  apply replaceParens_idem'
  intro kv hkv hl hi
  rcases brackets_keys_shape kv hkv with ⟨_, hd⟩ | hm
  · have : '-' ∈ replaceParens s := hi.subset hd
    rw [replaceParens_eq] at this
    rcases mem_replFold _ _ _ this with h' | ⟨kv', hk', hc⟩
    · exact h h'
    · exact brackets_vals '-' (by simp) kv' hk' hc
  · simp only [List.mem_cons, List.not_mem_nil, or_false] at hm
    rcases hm with e | e | e | e | e | e <;> simp [e] at hl

example : replaceParens (replaceParens "f(x)".toList) = replaceParens "f(x)".toList :=
  replaceParens_idem_of_no_dash _ (by decide +kernel)

/-- COUNTEREXAMPLE to `replaceParens_idem` as stated -/
example : replaceParens "--LRB--".toList = "-LRB-".toList ∧ replaceParens (replaceParens "--LRB--".toList) = "LRB".toList := by
  decide +kernel
/-- COUNTEREXAMPLE to `replaceParens_id` as stated: the hypothesis holds, the conclusion fails -/
example : (∀ c ∈ "-LRB-".toList, c ≠ '(' ∧ c ≠ ')' ∧ c ≠ '[' ∧ c ≠ ']' ∧ c ≠ '{' ∧ c ≠ '}') ∧
    replaceParens "-LRB-".toList = "LRB".toList := by decide +kernel

/-! ### terminals format is exactly the sentence -/

theorem writeTerminals_plain (t : Tree) :
    writeTerminals {} t = .ok ((t.terminals.map fun l => (l.fields.word.getD []) ++ [' ']).flatten ++ ['\n']) := by
  simp [writeTerminals]

example : writeTerminals {} exDisc = .ok "a b c \n".toList := by decide +kernel

theorem writeTerminals_rejects (o : OutOpts) (t : Tree) (h1 : o.terminalsPos = true) (h2 : o.posOnly = true) :
    writeTerminals o t = .error .valueError := by
  simp [writeTerminals, h1, h2]

example : writeTerminals { terminalsPos := true, posOnly := true } exDisc = .error .valueError :=
  writeTerminals_rejects _ _ rfl rfl

/-! ### the bracket writer refuses (or skips) exactly the discontinuous trees -/

theorem writeBrackets_refuses_iff (o : OutOpts) (t : Tree) (h : o.skipDisco = false) :
    (∃ e, writeBrackets o t = .error e ∧ gapDegree t > 0) ∨ (gapDegree t = 0 ∧ writeBrackets o t = (bracketsSub o o.emptyRoot t).map some) := by
  unfold writeBrackets
  by_cases hg : gapDegree t > 0
  · left; exact ⟨.valueError, by simp [hg, h], hg⟩
  · right; exact ⟨by omega, by simp [hg]⟩

theorem writeBrackets_skips_iff (o : OutOpts) (t : Tree) (h : o.skipDisco = true) :
    (writeBrackets o t = .ok none ↔ gapDegree t > 0) := by
  unfold writeBrackets
  by_cases hg : gapDegree t > 0
  · simp [hg, h]
  · simp only [hg, if_false, iff_false]
    cases bracketsSub o o.emptyRoot t <;> simp [Except.map]

example : gapDegree exDisc > 0 ∧ writeBrackets {} exDisc = .error .valueError ∧
    writeBrackets { skipDisco := true } exDisc = .ok none := by decide +kernel
example : gapDegree exCont = 0 ∧ writeBrackets {} exCont = .ok (some "(S(NP(A w))(B LSBbRSB))".toList) ∧
    writeBrackets { skipDisco := true } exCont ≠ .ok none := by decide +kernel

/-! ### export: frame and line counts -/


theorem writeExport_frame (o : OutOpts) (sid : Nat) (t : Tree) (ls : List Str) (h : writeExport o sid t = .ok ls) :
    ls.head? = some ("#BOS ".toList ++ natToStr sid) ∧ ls.getLast? = some ("#EOS ".toList ++ natToStr sid) ∧
    ls.length = 2 + (t.preorderP.filter (· ≠ [])).length := by
  unfold writeExport at h
  obtain ⟨terms, ht, h⟩ := bind_eq_ok _ _ _ h
  obtain ⟨nts, hn, h⟩ := bind_eq_ok _ _ _ h
  have h1 := mapM_ok_length _ _ _ ht
  have h2 := mapM_ok_length _ _ _ hn
  simp only [pure, Except.pure, Except.ok.injEq] at h
  subst h
  refine ⟨by simp, List.getLast?_concat, ?_⟩
  simp only [List.length_append, List.length_map, sortBy_length, List.length_cons, List.length_nil, h1, h2]
  have h3 := filter_length_add (fun (x : Path × Tree) => x.2.kids.isEmpty)
    ((t.preorderP.filter (· ≠ [])).filterMap fun p => (t.get? p).map fun s => (p, s))
  rw [filterMap_length_of_isSome] at h3
  · omega
  · intro p hp
    have := get?_isSome_of_mem_preorderP t p (List.mem_filter.1 hp).1
    simpa using this

/-- the hypothesis is satisfiable: the export lines of the discontinuous example -/
example : writeExport {} 7 exDisc = .ok ["#BOS 7".toList, "a\t\t\tA\t--\t\t--\t500".toList, "b\t\t\tB\t--\t\t--\t0".toList,
    "c\t\t\tC\t--\t\t--\t500".toList, "#500\t\t\tVP\t--\t\t--\t0".toList, "#EOS 7".toList] := by decide +kernel
example (ls : List Str) (h : writeExport {} 7 exDisc = .ok ls) : ls.length = 6 := by
  have := (writeExport_frame {} 7 exDisc ls h).2.2; rw [this]; decide +kernel

/-- one export node line decodes to its fields (fields non-empty and whitespace-free) -/
theorem decExpLine_exportLine (o : OutOpts) (t : Tree) (word : Str) (pn : Nat) (line : Str)
    (h : exportLine o t word pn = .ok line)
    (hw : word ≠ [] ∧ ∀ c ∈ word, pyIsSpace c = false)
    (hf : ∀ x ∈ [printedLabel o t, t.fields.morph.getD DEFAULT_MORPH, t.fields.edge.getD DEFAULT_EDGE, t.fields.lemma.getD DEFAULT_LEMMA],
            x ≠ [] ∧ ∀ c ∈ x, pyIsSpace c = false) :
    decExpLine o.exportFour line = some { word := word, lemma := (if o.exportFour then t.fields.lemma.getD DEFAULT_LEMMA else DEFAULT_LEMMA), label := printedLabel o t, morph := t.fields.morph.getD DEFAULT_MORPH, edge := t.fields.edge.getD DEFAULT_EDGE, parent := pn } := by
  unfold exportLine at h
  obtain ⟨label, hl, h⟩ := bind_eq_ok _ _ _ h
  rw [setFields_edge_eq] at hl
  have hpl := printedLabel_of_ok o t label hl
  have hlab := hf (printedLabel o t) (by simp)
  have hmor := hf (t.fields.morph.getD DEFAULT_MORPH) (by simp)
  have hedg := hf (t.fields.edge.getD DEFAULT_EDGE) (by simp)
  have hlem := hf (t.fields.lemma.getD DEFAULT_LEMMA) (by simp)
  rw [hpl] at hlab
  have hnum : splitWs (natToStr pn) = [natToStr pn] := splitWs_word _ (OKw_natToStr pn)
  cases h4 : o.exportFour with
  | false =>
    simp only [h4, Bool.not_false, if_true, pure, Except.pure, Except.ok.injEq] at h
    subst h
    unfold decExpLine
    simp only [List.append_assoc, List.cons_append, List.nil_append]
    rw [splitWs_word_tabs _ _ _ hw, splitWs_word_tab _ _ hlab, splitWs_word_tabs _ _ _ hmor, splitWs_word_tab _ _ hedg, hnum]
    simp [strToNat_natToStr, hpl]
  | true =>
    simp only [h4, Bool.not_true, Bool.false_eq_true, if_false, pure, Except.pure, Except.ok.injEq] at h
    subst h
    unfold decExpLine
    simp only [List.append_assoc, List.cons_append, List.nil_append]
    rw [splitWs_word_tabs _ _ _ hw, splitWs_word_tabs _ _ _ hlem, splitWs_word_tab _ _ hlab, splitWs_word_tabs _ _ _ hmor, splitWs_word_tab _ _ hedg, hnum]
    simp [strToNat_natToStr, hpl]

/-- a token line of an export file -/
example : decExpLine false "Haus\t\t\tNN-SB\tNeut.Sg\t\tNK\t502".toList =
    some { word := "Haus".toList, lemma := DEFAULT_LEMMA, label := "NN-SB".toList, morph := "Neut.Sg".toList, edge := "NK".toList, parent := 502 } :=
  decExpLine_exportLine {} (leaf 3 { label := "NN-SB".toList, morph := some "Neut.Sg".toList, edge := some "NK".toList })
    "Haus".toList 502 _ (by decide +kernel) (by decide +kernel) (by decide +kernel)

/-- absent optional fields never make a writer fail: only a requested decoration on an unmarked node can -/
theorem exportLine_total (o : OutOpts) (t : Tree) (word : Str) (pn : Nat)
    (h : o.markHeads = false ∧ o.splitMarking = false ∧ o.splitNumbering = false) : ∃ l, exportLine o t word pn = .ok l := by
  obtain ⟨h1, h2, h3⟩ := h
  unfold exportLine getLabel
  simp only [h1, h2, h3, Bool.false_eq_true, if_false, pure, Except.pure, bind, Except.bind]
  split <;> exact ⟨_, rfl⟩

example : ∃ l, exportLine { gf := true, exportFour := true } (leaf 3 { label := "NN".toList }) "Haus".toList 502 = .ok l :=
  exportLine_total _ _ _ _ (by decide)
/-- the hypothesis matters: a requested head mark on a node without the `head` key fails -/
example : exportLine { markHeads := true } (leaf 3 { label := "NN".toList }) "Haus".toList 502 = .error .keyError := by
  decide +kernel

/-! ### stretch: the bracket round trip -/

theorem leftmost_of_WF (t : Tree) (h : WF t = true) : leftmost t = 1 := by
  have hy := TT.Props.C19.yield_of_WF t h
  have hne := ((WF_iff t).1 h).2.2.2
  unfold leftmost; rw [hy]
  cases hl : t.leafNums with
  | nil => exact absurd hl hne
  | cons a r => simp [List.range'_succ]

/-- every node of a tree with gap degree 0 is continuous -/
theorem gapDegreeNode_zero_of_gapDegree (t : Tree) (hc : gapDegree t = 0) : ∀ y ∈ subtrees t, gapDegreeNode y = 0 := by
  intro y hy
  have := TT.Props.C16.gapDegree_ge t y ((TT.Lemmas.Nav.preorder_perm_subtrees t).symm.subset hy)
  omega

/-- the round trip under the internal side conditions `LabOK` (see `TT.Lemmas.Write.LabOK`) -/
theorem decBrackets_write_core (o : OutOpts) (t : Tree) (s : Str) (hwf : WF t = true) (hc : gapDegree t = 0)
    (h : bracketsSub o false t = .ok s) (hlab : ∀ y ∈ subtrees t, LabOK o y) :
    ∃ d, decBrackets s = some d ∧ sameTree d (carryBrackets o false t) = true := by
  have hdec := decOK o t (WF_noEmpty t hwf) (WF_nodup t hwf) (gapDegreeNode_zero_of_gapDegree t hc) hlab
  obtain ⟨_, hdec⟩ := hdec s h
  obtain ⟨d, hd, hsd⟩ := hdec (2 * s.length + 2) (by omega) []
  rw [List.append_nil, leftmost_of_WF t hwf] at hd
  refine ⟨d, ?_, ?_⟩
  · unfold decBrackets; rw [hd]
  · unfold sameTree; rw [hsd]; exact beq_refl _

/-- CORRECTED `decBrackets_write`: two hypotheses are added (`hw`, `hr`); the statement as given is false without
    each of them (counterexamples below). -/
theorem decBrackets_write' (o : OutOpts) (t : Tree) (s : Str) (hwf : WF t = true) (hc : gapDegree t = 0)
    (h : bracketsSub o false t = .ok s)
    (hl : ∀ x ∈ t.subtrees, (printedLabel o x ≠ [] ∧ ∀ c ∈ printedLabel o x, c ≠ '(' ∧ c ≠ ')' ∧ c ≠ ' ') ∧
          (x.isLeaf = true → ∀ c ∈ (x.fields.word.getD []), c ≠ ')' ))
    (hw : ∀ x ∈ t.subtrees, x.isLeaf = true → x.fields.word.isSome = true)
    (hr : ∀ x ∈ t.subtrees, x.isLeaf = true →
          ∀ c ∈ printedLabel o (x.setFields replaceParensFields), c ≠ '(' ∧ c ≠ ')' ∧ c ≠ ' ') :
    ∃ d, decBrackets s = some d ∧ sameTree d (carryBrackets o false t) = true := by
  apply decBrackets_write_core o t s hwf hc h
  intro y hy
  cases y with
  | leaf n f =>
    have e : (leaf n f).setFields replaceParensFields = leaf n (replaceParensFields f) := rfl
    have h1 : f.word.isSome = true := hw _ hy rfl
    have h2 := hr _ hy rfl
    rw [e] at h2
    exact ⟨h1, h2⟩
  | node f ks =>
    have h2 := (hl _ hy).1.2
    exact h2

/-- the corrected round trip on a tree stored out of order, with brackets inside a word and a `-LRB-` edge -/
example : ∃ d, decBrackets "(S(NP(A w))(B LSBbRSB))".toList = some d ∧ sameTree d (carryBrackets {} false exCont) = true :=
  decBrackets_write' {} exCont _ (by decide +kernel) (by decide +kernel) (by decide +kernel) (by decide +kernel)
    (by decide +kernel) (by decide +kernel)

/-! #### counterexamples to `decBrackets_write` as stated -/

/-- a token without a word: printed as `None`, read back as the word "None" -/
def exNoWord : Tree := node { label := "S".toList } [leaf 1 { label := "A".toList }]
/-- an edge that `replaceParens` rewrites (`-LRB-` starts with `-`, so no function is printed for the original fields,
    but `LRB` is printed for the rewritten ones), with a separator containing a space -/
def exEdge : Tree := node { label := "S".toList } [leaf 1 { label := "A".toList, word := some "w".toList, edge := some "-LRB-".toList }]
def exEdgeOpts : OutOpts := { gf := true, gfTerminals := true, gfSeparator := some " ".toList }

/-- COUNTEREXAMPLE 1: all hypotheses of the given statement hold for `exNoWord` ... -/
example : WF exNoWord = true ∧ gapDegree exNoWord = 0 ∧ bracketsSub {} false exNoWord = .ok "(S(A None))".toList ∧
    ∀ x ∈ exNoWord.subtrees, (printedLabel {} x ≠ [] ∧ ∀ c ∈ printedLabel {} x, c ≠ '(' ∧ c ≠ ')' ∧ c ≠ ' ') ∧
      (x.isLeaf = true → ∀ c ∈ (x.fields.word.getD []), c ≠ ')') := by decide +kernel
/-- ... but the decoded tree differs from what the format carries (word `some "None"` against `none`) -/
example : (decBrackets "(S(A None))".toList).map (fun d => sameTree d (carryBrackets {} false exNoWord)) = some false := by
  decide +kernel

/-- COUNTEREXAMPLE 2: all hypotheses of the given statement hold for `exEdge` under `exEdgeOpts` ... -/
example : WF exEdge = true ∧ gapDegree exEdge = 0 ∧ bracketsSub exEdgeOpts false exEdge = .ok "(S(A LRB w))".toList ∧
    ∀ x ∈ exEdge.subtrees, (printedLabel exEdgeOpts x ≠ [] ∧ ∀ c ∈ printedLabel exEdgeOpts x, c ≠ '(' ∧ c ≠ ')' ∧ c ≠ ' ') ∧
      (x.isLeaf = true → ∀ c ∈ (x.fields.word.getD []), c ≠ ')') := by decide +kernel
/-- ... but the label `A LRB` is read back as label `A` and word `LRB w` -/
example : (decBrackets "(S(A LRB w))".toList).map (fun d => sameTree d (carryBrackets exEdgeOpts false exEdge)) = some false := by
  decide +kernel

/-! when grammatical functions are not printed on tokens the extra hypothesis `hr` follows from `hl` -/

theorem fillMarks_label (t : Tree) : (fillMarks t).fields.label = t.fields.label := by
  cases t <;> rfl

theorem fillMarks_decorations (o : OutOpts) (t : Tree) : decorations o (fillMarks t) = decorations o t := by
  have e1 : (fillMarks t).fields.edge.getD DEFAULT_EDGE = t.fields.edge.getD DEFAULT_EDGE := by
    cases t <;> simp [fillMarks, setFields, fields]
  have e2 : (fillMarks t).kids = t.kids := by cases t <;> rfl
  have e3 : ((fillMarks t).fields.head = some true) = (t.fields.head = some true) := by
    cases t with
    | leaf n f => cases h : f.head <;> simp [fillMarks, setFields, fields, h]
    | node f ks => cases h : f.head <;> simp [fillMarks, setFields, fields, h]
  have e4 : ((fillMarks t).fields.split = some true) = (t.fields.split = some true) := by
    cases t with
    | leaf n f => cases h : f.split <;> simp [fillMarks, setFields, fields, h]
    | node f ks => cases h : f.split <;> simp [fillMarks, setFields, fields, h]
  have e5 : (fillMarks t).fields.blockNumber = t.fields.blockNumber := by cases t <;> rfl
  unfold decorations
  simp only [e1, e2, e3, e4, e5]

theorem printedLabel_cases (o : OutOpts) (t : Tree) :
    printedLabel o t = t.fields.label ∨ printedLabel o t = t.fields.label ++ decorations o t := by
  unfold printedLabel
  rw [getLabel_setEdge]
  cases h : getLabel o t with
  | ok l => exact Or.inr (TT.Props.C20.getLabel_decorations o t l h)
  | error e =>
    cases h2 : getLabel o (fillMarks t) with
    | error e2 => exact Or.inl rfl
    | ok l =>
      right
      have := TT.Props.C20.getLabel_decorations o _ l h2
      rw [fillMarks_label, fillMarks_decorations] at this
      exact this

theorem brackets_vals_good : ∀ kv ∈ Gen.BRACKETS, ∀ c ∈ kv.2, c ≠ '(' ∧ c ≠ ')' ∧ c ≠ ' ' := by decide

theorem digit_good (c : Char) (h : c.isDigit = true) : c ≠ '(' ∧ c ≠ ')' ∧ c ≠ ' ' := by
  refine ⟨?_, ?_, ?_⟩ <;> (intro e; subst e; revert h; decide)

theorem mem_ite_nil {α} (b : Prop) [Decidable b] (l : List α) (c : α) (h : c ∈ (if b then l else [])) : b ∧ c ∈ l := by
  split at h
  · exact ⟨‹b›, h⟩
  · simp at h

theorem decorations_leaf_good (o : OutOpts) (n : Nat) (f : Fields) (hgf : o.gf = false ∨ o.gfTerminals = false) :
    goodLabel (decorations o (leaf n f)) := by
  intro c hc
  unfold decorations at hc
  simp only [List.mem_append] at hc
  rcases hc with ((hc | hc) | hc) | hc
  · have := (mem_ite_nil _ _ _ hc).1
    simp only [Tree.kids, List.isEmpty_nil, Bool.not_true, Bool.false_or, Bool.and_eq_true] at this
    rcases hgf with h | h
    · rw [h] at this; simp at this
    · rw [h] at this; simp at this
  · have := (mem_ite_nil _ _ _ hc).2
    simp at this; subst this; decide
  · have := (mem_ite_nil _ _ _ hc).2
    simp at this; subst this; decide
  · exact digit_good c (natToStr_isDigit _ c (mem_ite_nil _ _ _ hc).2)

/-- CORRECTED `decBrackets_write`, second form: the given hypotheses, every token has a word, and grammatical functions
    are not printed on tokens (the default) -/
theorem decBrackets_write_nogf (o : OutOpts) (t : Tree) (s : Str) (hwf : WF t = true) (hc : gapDegree t = 0)
    (h : bracketsSub o false t = .ok s)
    (hl : ∀ x ∈ t.subtrees, (printedLabel o x ≠ [] ∧ ∀ c ∈ printedLabel o x, c ≠ '(' ∧ c ≠ ')' ∧ c ≠ ' ') ∧
          (x.isLeaf = true → ∀ c ∈ (x.fields.word.getD []), c ≠ ')' ))
    (hw : ∀ x ∈ t.subtrees, x.isLeaf = true → x.fields.word.isSome = true)
    (hgf : o.gf = false ∨ o.gfTerminals = false) :
    ∃ d, decBrackets s = some d ∧ sameTree d (carryBrackets o false t) = true := by
  refine decBrackets_write' o t s hwf hc h hl hw ?_
  intro x hx hleaf c hcm
  cases x with
  | node f ks => cases hleaf
  | leaf n f =>
    have e : (leaf n f).setFields replaceParensFields = leaf n (replaceParensFields f) := rfl
    rw [e] at hcm
    have hlab : ∀ c ∈ replaceParens f.label, c ≠ '(' ∧ c ≠ ')' ∧ c ≠ ' ' := by
      intro c hc
      rw [replaceParens_eq] at hc
      rcases mem_replFold c _ _ hc with hc | ⟨kv, hkv, hc⟩
      · refine (hl _ hx).1.2 c ?_
        rcases printedLabel_cases o (leaf n f) with e | e <;> rw [e]
        · exact hc
        · exact List.mem_append_left _ hc
      · exact brackets_vals_good kv hkv c hc
    have hfl : (leaf n (replaceParensFields f)).fields.label = replaceParens f.label := by
      simp only [Tree.fields, replaceParensFields]
    rcases printedLabel_cases o (leaf n (replaceParensFields f)) with e | e <;> rw [e, hfl] at hcm
    · exact hlab c hcm
    · rcases List.mem_append.1 hcm with hcm | hcm
      · exact hlab c hcm
      · exact decorations_leaf_good o n _ hgf c hcm

example : ∃ d, decBrackets "(S(NP(A w))(B LSBbRSB))".toList = some d ∧ sameTree d (carryBrackets {} false exCont) = true :=
  decBrackets_write_nogf {} exCont _ (by decide +kernel) (by decide +kernel) (by decide +kernel) (by decide +kernel)
    (by decide +kernel) (by decide)

/-
  NOTE — statements of the brief that are FALSE as given (corrected versions are proved above):

  * `replaceParens_idem (s) : replaceParens (replaceParens s) = replaceParens s`
      counterexample  s = "--LRB--":  replaceParens s = "-LRB-",  replaceParens (replaceParens s) = "LRB".
      (the table is applied once, in order; the step `-LRB- ↦ LRB` can create a new `-LRB-` from `--LRB--`.)
      corrected: `replaceParens_idem'` (hypothesis: no multi-character key occurs in `replaceParens s`),
                 `replaceParens_idem_of_no_dash` (hypothesis: `'-' ∉ s`).
  * `replaceParens_id (s) (h : no bracket character in s) : replaceParens s = s`
      counterexample  s = "-LRB-" (no bracket character):  replaceParens s = "LRB".
      corrected: `replaceParens_id'` (the given `h` plus: no multi-character key `-LRB-`, `-LSB-`, ... occurs in `s`),
                 `replaceParens_id_of_no_key`.
  * `decBrackets_write` — false for two independent reasons:
      1. a token with `word = none` is written as `None` and decoded as `some "None"`, while `carryBrackets` keeps `none`
         (`exNoWord`: all hypotheses hold, `sameTree` is `false`);
      2. the hypothesis `hl` speaks about `printedLabel o x`, but for a token the writer prints the label of the fields
         AFTER `replaceParensFields`; an edge such as `-LRB-` (function suppressed because it starts with `-`) becomes `LRB`
         (function printed), so the printed label can contain the separator/edge characters although `printedLabel o x`
         does not (`exEdge`, `exEdgeOpts` with separator " ": all hypotheses hold, `sameTree` is `false`; with the default
         separator an edge "-LRB- x" does the same).
      corrected: `decBrackets_write'` = the given statement plus
         `hw : ∀ x ∈ t.subtrees, x.isLeaf = true → x.fields.word.isSome = true` and
         `hr : ∀ x ∈ t.subtrees, x.isLeaf = true → ∀ c ∈ printedLabel o (x.setFields replaceParensFields), c ≠ '(' ∧ c ≠ ')' ∧ c ≠ ' '`;
         `decBrackets_write_nogf` = the given statement plus `hw` and `o.gf = false ∨ o.gfTerminals = false`
         (then `hr` follows from `hl`).  The parts `printedLabel o x ≠ []` and the condition on words of `hl` are not needed.
  Everything else of the brief is proved with the exact statement text (the record literal in `decExpLine_exportLine`
  is written on one line because structure-instance fields on a continuation line must not be indented less than the first field).
-/

end TT.Props.C02
