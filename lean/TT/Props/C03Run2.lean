/-
  C03Run2 — the own round trip of the export reader for the FOUR-column-pair layout (export 4: word lemma tag morph edge parent),
  and export 4 -> export 4 through the command.

  * `readExport_write4`: proved with the hypotheses of `readExport_write'` (C02Export) for the options `{ exportFour := true }` and
    the condition `h4` under which the reader recognises the layout:  NO EDGE LABEL BELOW THE ROOT IS ALL DIGITS.
    (The reader looks at the fifth field of a line: in the five-column layout it is the parent number, in the six-column layout
    the edge label.  A lemma that is all digits is harmless - `exFull` below -, contrary to the guess in the brief.)
    Without `h4` the statement is false: `readExport_write4_false` (`exDig`).
  * `export4_export4_id`: proved with the same hypotheses.
  Both are instances of statements about arbitrary writer options `o` with `o.exportFour = true` (`readExport_write4_nf`,
  `readExport_write4'`) resp. `PlainOpts o` and `o.exportFour = true` (`export4_export4_id'`).
  Helpers: `TT/Lemmas/More8.lean` (part 3).
-/
import TT.Lemmas.More8
import TT.Props.C03Run
namespace TT.Props.C03Run2
open TT TT.Tree TT.Spec
open TT.Lemmas.ExportRT TT.Lemmas.Write TT.Lemmas.GramOut TT.Lemmas.WF TT.Lemmas.Nav TT.Lemmas.Run TT.Lemmas.More8

/-- a node that has a line lies below a child of the root -/
theorem subAt_mem_kid (t : Tree) (p : Path) (hp : p ∈ paths t) (hp0 : p ≠ []) : ∃ k ∈ t.kids, subAt t p ∈ subtrees k := by
  cases p with
  | nil => exact absurd rfl hp0
  | cons i q =>
    have hg' := get?_of_mem_paths _ _ hp
    cases t with
    | leaf n f => simp [Tree.get?] at hg'
    | node f ks =>
      simp only [Tree.get?] at hg'
      cases hk : ks[i]? with
      | none => simp [hk] at hg'
      | some k =>
        simp only [hk] at hg'
        refine ⟨k, List.mem_of_getElem? hk, ?_⟩
        have hq : q ∈ paths k := (mem_paths_iff k q).2 (by simp [hg'])
        have := mem_subtrees_subAt k q hq
        rwa [subAt_of_get? hg'] at this

/-- the reader's result as an equation of normal forms, for arbitrary writer options with the four-column-pair layout -/
theorem readExport_write4_nf (o : OutOpts) (ho4 : o.exportFour = true) (sid : Nat) (t : Tree) (ls : List Str)
    (h : writeExport o sid t = .ok ls) (hwf : WF t = true) (hok : ExportOK o t = true) (hN : t.leafNums.length < 500)
    (hE : ∀ s ∈ t.subtrees, s.isLeaf = true → "#EOS".toList.isPrefixOf (s.fields.word.getD []) = false)
    (h4 : ∀ k ∈ t.kids, ∀ s ∈ k.subtrees, pyIsDigit (s.fields.edge.getD DEFAULT_EDGE) = false) :
    ∃ r, readExport {} ((ls.map (· ++ ['\n'])).flatten) = .ok [(sid, r)] ∧ nf r = nf (carryExportRoot o t) := by
  have hne := WF_noEmpty t hwf
  obtain ⟨hls, hlines⟩ := writeExport_shape o sid t ls h
  have hpl : ∀ p ∈ tokPaths t ++ consPaths t, exportParseLine {} (lineAt o t p) = .ok (rentryO o t p) := by
    intro p hp
    obtain ⟨hp1, hp2⟩ := (mem_tok_cons t p).1 hp
    obtain ⟨l, hl⟩ := hlines p ((mem_nonRoot t p).2 ⟨hp1, hp2⟩)
    have hdec := decode_lineAt o t p l hne hok hp1 hl
    rw [ho4] at hdec
    obtain ⟨k, hk, hsk⟩ := subAt_mem_kid t p hp1 hp2
    exact parse_lineAt4 o t p hwf hok hp1 hp2 (h4 k hk _ hsk) hdec
  obtain ⟨r, hr, hnf⟩ := exportSentence_writeO o t hwf hok hN hpl
  have hbody : ∀ l ∈ (tokPaths t ++ consPaths t).map (lineAt o t),
      '\n' ∉ l ∧ strip l = l ∧ "#EOS".toList.isPrefixOf l = false := by
    intro l hl
    obtain ⟨p, hp, rfl⟩ := List.mem_map.1 hl
    obtain ⟨hp1, hp2⟩ := (mem_tok_cons t p).1 hp
    obtain ⟨l', hl'⟩ := hlines p ((mem_nonRoot t p).2 ⟨hp1, hp2⟩)
    refine lineAt_loop_okO o t p l' hne hok hp1 hl' ?_
    unfold wordOf
    split
    · rename_i hk
      rw [kids_isEmpty_eq_isLeaf _ (noEmpty_subAt t p hne hp1)] at hk
      exact hE _ (mem_subtrees_subAt t p hp1) hk
    · exact eos_not_prefix_hash _
  refine ⟨r, ?_, hnf⟩
  rw [hls, List.append_assoc ["#BOS ".toList ++ natToStr sid], ← List.map_append]
  exact readExport_frame sid _ r hbody hr

/-- the own round trip for arbitrary writer options with the four-column-pair layout (label decoration allowed: the reader
    without `gfSplit` takes the printed label for the label, and so does `carryExport`) -/
theorem readExport_write4' (o : OutOpts) (ho4 : o.exportFour = true) (sid : Nat) (t : Tree) (ls : List Str)
    (h : writeExport o sid t = .ok ls) (hwf : WF t = true) (hok : ExportOK o t = true) (hN : t.leafNums.length < 500)
    (hE : ∀ s ∈ t.subtrees, s.isLeaf = true → "#EOS".toList.isPrefixOf (s.fields.word.getD []) = false)
    (h4 : ∀ k ∈ t.kids, ∀ s ∈ k.subtrees, pyIsDigit (s.fields.edge.getD DEFAULT_EDGE) = false) :
    ∃ r, readExport {} ((ls.map (· ++ ['\n'])).flatten) = .ok [(sid, r)] ∧
      sameTree (Tree.mapFields (fun s f => match s with | .node _ _ => { f with word := none } | _ => f) r)
               (Tree.mapFields (fun s f => match s with | .node _ _ => { f with word := none } | _ => f) (carryExportRoot o t)) = true := by
  obtain ⟨r, hr, hnf⟩ := readExport_write4_nf o ho4 sid t ls h hwf hok hN hE h4
  refine ⟨r, hr, ?_⟩
  unfold sameTree
  show Tree.beq (nf r) (nf (carryExportRoot o t)) = true
  rw [hnf]; exact beq_refl _

/-- the own round trip of the export reader for the FOUR-column-pair layout (export 4: word lemma tag morph edge parent) -/
theorem readExport_write4 (sid : Nat) (t : Tree) (ls : List Str) (h : writeExport { exportFour := true } sid t = .ok ls)
    (hwf : WF t = true) (hok : ExportOK { exportFour := true } t = true) (hN : t.leafNums.length < 500)
    (hE : ∀ s ∈ t.subtrees, s.isLeaf = true → "#EOS".toList.isPrefixOf (s.fields.word.getD []) = false)
    (h4 : ∀ k ∈ t.kids, ∀ s ∈ k.subtrees, pyIsDigit (s.fields.edge.getD DEFAULT_EDGE) = false) :
    ∃ r, readExport {} ((ls.map (· ++ ['\n'])).flatten) = .ok [(sid, r)] ∧
      sameTree (Tree.mapFields (fun s f => match s with | .node _ _ => { f with word := none } | _ => f) r)
               (Tree.mapFields (fun s f => match s with | .node _ _ => { f with word := none } | _ => f) (carryExportRoot { exportFour := true } t)) = true :=
  readExport_write4' { exportFour := true } rfl sid t ls h hwf hok hN hE h4

/-- the tree read back from a sentence written in the four-column-pair layout is written as the same lines again -/
theorem writeExport_readback4 (o : OutOpts) (ho : PlainOpts o) (ho4 : o.exportFour = true) (sid : Nat) (t : Tree) (ls : List Str)
    (h : writeExport o sid t = .ok ls) (hwf : WF t = true) (hok : ExportOK o t = true) (hN : t.leafNums.length < 500)
    (hE : ∀ s ∈ t.subtrees, s.isLeaf = true → "#EOS".toList.isPrefixOf (s.fields.word.getD []) = false)
    (h4 : ∀ k ∈ t.kids, ∀ s ∈ k.subtrees, pyIsDigit (s.fields.edge.getD DEFAULT_EDGE) = false) :
    ∃ r, readExport {} ((ls.map (· ++ ['\n'])).flatten) = .ok [(sid, r)] ∧ writeExport o sid r = .ok ls := by
  obtain ⟨r, hr, hnf⟩ := readExport_write4_nf o ho4 sid t ls h hwf hok hN hE h4
  obtain ⟨wc, ec⟩ := writeExport_carry_WF o ho sid t hwf
  obtain ⟨_, er⟩ := writeExport_of_nf_eq o sid _ r wc hnf
  exact ⟨r, hr, by rw [er, ec, h]⟩

/-- export 4 -> export 4 for any options without label decoration -/
theorem export4_export4_id' (o : OutOpts) (ho : PlainOpts o) (ho4 : o.exportFour = true) (sid : Nat) (t : Tree) (ls : List Str)
    (hw : writeExport o sid t = .ok ls) (hwf : WF t = true) (hok : ExportOK o t = true) (hN : t.leafNums.length < 500)
    (hE : ∀ s ∈ t.subtrees, s.isLeaf = true → "#EOS".toList.isPrefixOf (s.fields.word.getD []) = false)
    (h4 : ∀ k ∈ t.kids, ∀ s ∈ k.subtrees, pyIsDigit (s.fields.edge.getD DEFAULT_EDGE) = false) :
    runFrom [] .export o none (readExport {} ((ls.map (· ++ ['\n'])).flatten)) = .ok ((ls.map (· ++ ['\n'])).flatten) := by
  obtain ⟨r, hr, hwr⟩ := writeExport_readback4 o ho ho4 sid t ls hw hwf hok hN hE h4
  rw [hr, runFrom_ok, transformAll_nil_steps]
  show writeAll .export o none [(sid, r)] = _
  rw [writeAll_plain .export o none _ (by decide)]
  unfold bodyText
  rw [List.mapM_cons, List.mapM_nil]
  simp only [writeOne, hwr]
  simp [bind, Except.bind, pure, Except.pure, Except.map]

/-- export 4 -> export 4 through the command gives the same text back -/
theorem export4_export4_id (sid : Nat) (t : Tree) (ls : List Str) (hw : writeExport { exportFour := true } sid t = .ok ls)
    (hwf : WF t = true) (hok : ExportOK { exportFour := true } t = true) (hN : t.leafNums.length < 500)
    (hE : ∀ s ∈ t.subtrees, s.isLeaf = true → "#EOS".toList.isPrefixOf (s.fields.word.getD []) = false)
    (h4 : ∀ k ∈ t.kids, ∀ s ∈ k.subtrees, pyIsDigit (s.fields.edge.getD DEFAULT_EDGE) = false) :
    runFrom [] .export { exportFour := true } none (readExport {} ((ls.map (· ++ ['\n'])).flatten)) = .ok ((ls.map (· ++ ['\n'])).flatten) :=
  export4_export4_id' { exportFour := true } ⟨rfl, rfl, rfl, rfl⟩ rfl sid t ls hw hwf hok hN hE h4

/-! ### instances -/

/-- a discontinuous tree stored out of order with optional keys of every kind; two lemmas are all digits, the root has an edge
    label that is all digits (it is not written) -/
def exFull : Tree := node { label := "S".toList, edge := some "12".toList }
  [leaf 2 { label := "B".toList, word := some "b".toList, edge := some "HD".toList, head := some true, lemma := some "123".toList },
   node { label := "VP".toList, edge := some "OC".toList, head := some false, morph := some "m".toList, word := some "ignored".toList, lemma := some "77".toList }
     [leaf 1 { label := "A".toList, word := some "a".toList, edge := some "-x".toList }, leaf 3 { label := "C".toList, word := some "c".toList }]]

def exFullLines : List Str := ["#BOS 3".toList, "a\t\t\t--\t\t\tA\t--\t\t-x\t500".toList, "b\t\t\t123\t\t\tB\t--\t\tHD\t0".toList,
  "c\t\t\t--\t\t\tC\t--\t\t--\t500".toList, "#500\t\t\t77\t\t\tVP\tm\t\tOC\t0".toList, "#EOS 3".toList]

theorem exFull_write : writeExport { exportFour := true } 3 exFull = .ok exFullLines := by decide +kernel
theorem exFull_WF : WF exFull = true := by decide +kernel
theorem exFull_ok : ExportOK { exportFour := true } exFull = true := by decide +kernel
theorem exFull_h4 : ∀ k ∈ exFull.kids, ∀ s ∈ k.subtrees, pyIsDigit (s.fields.edge.getD DEFAULT_EDGE) = false := by decide +kernel

example : ∃ r, readExport {} ((exFullLines.map (· ++ ['\n'])).flatten) = .ok [(3, r)] ∧
      sameTree (Tree.mapFields (fun s f => match s with | .node _ _ => { f with word := none } | _ => f) r)
               (Tree.mapFields (fun s f => match s with | .node _ _ => { f with word := none } | _ => f) (carryExportRoot { exportFour := true } exFull)) = true :=
  readExport_write4 3 exFull _ exFull_write exFull_WF exFull_ok (by decide +kernel) (by decide +kernel) exFull_h4

example : runFrom [] .export { exportFour := true } none (readExport {} ((exFullLines.map (· ++ ['\n'])).flatten)) =
    .ok ((exFullLines.map (· ++ ['\n'])).flatten) :=
  export4_export4_id 3 exFull _ exFull_write exFull_WF exFull_ok (by decide +kernel) (by decide +kernel) exFull_h4

/-! ### the condition on the edge labels is needed -/

/-- a token whose edge label is all digits: the reader takes its line for one of the five-column layout (fifth field = parent
    number), shifts the fields and reads the edge label `500` as the parent -/
def exDig : Tree := node { label := "S".toList }
  [leaf 1 { label := "A".toList, word := some "a".toList, edge := some "500".toList },
   node { label := "VP".toList } [leaf 2 { label := "B".toList, word := some "b".toList }]]

def exDigLines : List Str := ["#BOS 7".toList, "a\t\t\t--\t\t\tA\t--\t\t500\t0".toList, "b\t\t\t--\t\t\tB\t--\t\t--\t500".toList,
  "#500\t\t\t--\t\t\tVP\t--\t\t--\t0".toList, "#EOS 7".toList]

theorem exDig_write : writeExport { exportFour := true } 7 exDig = .ok exDigLines := by decide +kernel
theorem exDig_WF : WF exDig = true := by decide +kernel
theorem exDig_ok : ExportOK { exportFour := true } exDig = true := by decide +kernel

/-- the conclusion of `readExport_write4`, as a test -/
def rtCheck4 (sid : Nat) (t : Tree) (ls : List Str) : Bool :=
  match readExport {} ((ls.map (· ++ ['\n'])).flatten) with
  | .ok [(i, r)] => i == sid &&
      sameTree (Tree.mapFields (fun s f => match s with | .node _ _ => { f with word := none } | _ => f) r)
               (Tree.mapFields (fun s f => match s with | .node _ _ => { f with word := none } | _ => f) (carryExportRoot { exportFour := true } t))
  | _ => false

theorem exDig_check : rtCheck4 7 exDig exDigLines = false := by decide +kernel
theorem exFull_check : rtCheck4 3 exFull exFullLines = true := by decide +kernel

/-- `readExport_write4` without the hypothesis `h4` is FALSE -/
theorem readExport_write4_false :
    ¬ (∀ (sid : Nat) (t : Tree) (ls : List Str), writeExport { exportFour := true } sid t = .ok ls → WF t = true →
      ExportOK { exportFour := true } t = true → t.leafNums.length < 500 →
      (∀ s ∈ t.subtrees, s.isLeaf = true → "#EOS".toList.isPrefixOf (s.fields.word.getD []) = false) →
      ∃ r, readExport {} ((ls.map (· ++ ['\n'])).flatten) = .ok [(sid, r)] ∧
        sameTree (Tree.mapFields (fun s f => match s with | .node _ _ => { f with word := none } | _ => f) r)
                 (Tree.mapFields (fun s f => match s with | .node _ _ => { f with word := none } | _ => f) (carryExportRoot { exportFour := true } t)) = true) := by
  intro H
  obtain ⟨r, hr, hs⟩ := H 7 exDig exDigLines exDig_write exDig_WF exDig_ok (by decide +kernel) (by decide +kernel)
  have : rtCheck4 7 exDig exDigLines = true := by
    unfold rtCheck4
    rw [hr]
    simp only [beq_self_eq_true, Bool.true_and]
    exact hs
  rw [exDig_check] at this
  cases this

/-- nor does the command give the text back: the line of the token `a` comes back with parent 500 -/
example : runFrom [] .export { exportFour := true } none (readExport {} ((exDigLines.map (· ++ ['\n'])).flatten)) ≠
    .ok ((exDigLines.map (· ++ ['\n'])).flatten) := by decide +kernel

/-
  NOTE — status of the statements of the brief.

  * `readExport_write4`: proved; the open hypothesis `h4` is
        ∀ k ∈ t.kids, ∀ s ∈ k.subtrees, pyIsDigit (s.fields.edge.getD DEFAULT_EDGE) = false
    (no node below the root has an edge label that is all digits; the root's edge label is not written).  The guess of the brief
    ("no token's lemma is all digits") is not the condition: `exportParseLine` tests the FIFTH field (`fs[4]`), which is the parent
    number in the five-column layout and the edge label in the six-column layout; lemmas `123`, `77` are read back (`exFull`).
    Without `h4` the statement is false: `exDig` (`readExport_write4_false`).
    The other hypotheses are those of `readExport_write'` with the options `{ exportFour := true }` in `h` and `hok`.
  * `export4_export4_id`: proved with the same hypotheses.
  * more generally (`readExport_write4'`, `export4_export4_id'`): any writer options with `exportFour = true` for the round trip
    (decorated labels are read as labels, as `carryExport` says), `PlainOpts o` in addition for the identity through the command.
  Route: the chain `rentry … exportSentence_write` of `TT/Lemmas/ExportRT.lean` is repeated in `TT/Lemmas/More8.lean` with the
  writer options as a parameter (`rentryO`, `nodesTO`, `exportSentence_writeO`); the new ingredient is `parse_lineAt4`
  (`exportParseLine_of_split6`).
-/

end TT.Props.C03Run2
