/-
  C05 (pipeline versions) — head marking → boyd_split → raising, with or without a preceding root_attach:
  the head marking is part of the pipeline instead of a hypothesis (`hh` of `C05.raise_spec`).
  (see tools/agent_briefs/W10-PIPE.md; helper lemmas in TT/Lemmas/More10.lean)
-/
import TT.Spec.Transform
import TT.Transform.RootAttach
import TT.Lemmas.WF
import TT.Lemmas.More10
import TT.Props.C04
import TT.Props.C05
import TT.Props.C12
import TT.Props.C15
namespace TT.Props.C05More
open TT TT.Tree TT.Spec

/-! ### example trees (no head flags: the pipeline sets them) -/

private def lf (n : Nat) (l w : String) (e : String := "--") : Tree :=
  leaf n { label := l.toList, word := some w.toList, edge := some e.toList }
private def nd (l : String) (ks : List Tree) (e : String := "--") : Tree :=
  node { label := l.toList, edge := some e.toList } ks

/-- `(S (VP (PP (A 1)) (B 3) (V 4)) (C 2) (. 5))`: discontinuous `VP` (token 2 is outside); storage order shuffled -/
def exT : Tree :=
  nd "S" [lf 5 "$." ".", nd "VP" [lf 4 "V" "v" "HD", nd "PP" [lf 1 "A" "a" "HD"] "MO", lf 3 "B" "b" "OA"] "HD",
    lf 2 "C" "c" "SB"]

/-- nested discontinuity: `(S (VP (NP (A 1) (N 4)) (V 6)) (X 2) (NP (B 3) (C 5)) (. 7))` -/
def exT2 : Tree :=
  nd "S" [nd "VP" [nd "NP" [lf 1 "A" "a" "NK", lf 4 "N" "n" "NK"] "OA", lf 6 "V" "v" "HD"] "OC", lf 2 "X" "x" "HD",
    nd "NP" [lf 3 "B" "b", lf 5 "C" "c"] "SB", lf 7 "$." "."]

/-- a continuous tree `(S (A 1) (VP (B 2) (V 3)))`, storage order shuffled -/
def exC : Tree := nd "S" [nd "VP" [lf 3 "V" "v" "HD", lf 2 "B" "b"], lf 1 "A" "a"]

/-- root_attach moves the token 3 below `NP`: `(S (A 1) (NP (B 2) (D 4)) (C 3) (E 5))` -/
def exR : Tree := nd "S" [lf 1 "A" "a", nd "NP" [lf 2 "B" "b", lf 4 "D" "d"], lf 3 "C" "c", lf 5 "E" "e"]

example : WF exT = true ∧ WF exT2 = true ∧ WF exC = true ∧ WF exR = true := by decide
example : continuous exT = false ∧ continuous exT2 = false ∧ continuous exC = true ∧ continuous exR = false := by decide

/-! ### `WF` gives what the head-marking theorems ask for -/

/-- `WF` implies `sibDistinct` (token numbers are distinct), the hypothesis of `C15.negra_oneHead` -/
theorem WF_sibDistinct (t : Tree) (hwf : WF t = true) : sibDistinct t = true ∧ t.noEmpty = true :=
  ⟨Lemmas.WF.WF_sibDistinct t hwf, Lemmas.WF.WF_noEmpty t hwf⟩

/-- head marking by the NeGra heuristic establishes the hypothesis of `raise_spec` -/
theorem negra_heads_hyp (t : Tree) (hwf : WF t = true) :
    ∀ s ∈ (negraMarkHeads t).subtrees, ∀ f ks, s = node f ks → (ks.filter (fun k => k.fields.head == some true)).length = 1 :=
  Lemmas.More10.oneHead_hyp (negraMarkHeads t) (Lemmas.WF.WF_noEmpty _ (C04.negra_WF t hwf).1) (C15.negra_WF t hwf).1

example : WF exT = true := by decide

/-! ### the core: any head marking that passes `oneHeadEach` -/

/-- the pipeline never fails on a well-formed tree whose nodes carry head marks -/
theorem pipeline_ok_of_oneHeadEach (m : Tree) (hwf : WF m = true) (hoh : oneHeadEach m = true) : ∃ t', boydSplit m = .ok t' := by
  obtain ⟨h1, h2⟩ := Lemmas.More10.headed_of_oneHeadEach m hoh
  obtain ⟨r, hr⟩ := Lemmas.More10.boydNode_ok m h1 h2
  exact Lemmas.More10.boydSplit_ok_of_WF m r hwf hr

/-- after boyd_split and raising of a well-formed head-marked tree: reference tree, continuous, well formed, sentence and
    labels (as a permutation) kept -/
theorem pipeline_core (m t' : Tree) (hwf : WF m = true) (hoh : oneHeadEach m = true) (h : boydSplit m = .ok t') :
    sortKids (stripT (raising t')) = sortKids (stripT (contSpecRoot m)) ∧
    continuous (raising t') = true ∧ WF (raising t') = true ∧ sentence (raising t') = sentence m ∧
    (consLabels (raising t')).Perm (consLabels m) := by
  have hspec := C05.raise_spec m t' h hwf (Lemmas.More10.oneHead_hyp m (Lemmas.WF.WF_noEmpty m hwf) hoh)
  obtain ⟨hw1, hs1⟩ := C04.boyd_WF m t' hwf h
  obtain ⟨hw2, hs2⟩ := C04.raising_WF t' hw1
  exact ⟨hspec, C05.raise_continuous m t' h hwf, hw2, hs2.trans hs1,
    (Lemmas.More10.consLabels_perm_of_N_eq hspec).trans (Lemmas.More10.contSpecRoot_labels m)⟩

/-! ### NeGra heuristic -/

/-- the pipeline never fails on a well-formed tree -/
theorem pipeline_negra_ok (t : Tree) (hwf : WF t = true) : ∃ t', boydSplit (negraMarkHeads t) = .ok t' :=
  pipeline_ok_of_oneHeadEach _ (C04.negra_WF t hwf).1 (C15.negra_WF t hwf).1

example : (boydSplit (negraMarkHeads exT)).toOption.isSome = true ∧ (boydSplit (negraMarkHeads exT2)).toOption.isSome = true := by
  decide

/-- without the head marking `boyd_split` fails on the same tree (`ValueError "heads not marked?"`) -/
example : (boydSplit exT).toOption.isSome = false := by decide

/-- the result is the reference tree of the head-marked input, is continuous, well formed, and keeps sentence and labels -/
theorem pipeline_negra (t t' : Tree) (hwf : WF t = true) (h : boydSplit (negraMarkHeads t) = .ok t') :
    sortKids (stripT (raising t')) = sortKids (stripT (contSpecRoot (negraMarkHeads t))) ∧
    continuous (raising t') = true ∧ WF (raising t') = true ∧ sentence (raising t') = sentence t ∧
    bagEq (consLabels (raising t')) (consLabels t) = true := by
  obtain ⟨hw, hs⟩ := C04.negra_WF t hwf
  obtain ⟨h1, h2, h3, h4, h5⟩ := pipeline_core _ t' hw (C15.negra_WF t hwf).1 h
  refine ⟨h1, h2, h3, h4.trans hs, Lemmas.More10.bagEq_of_perm ?_⟩
  rw [← C15.negra_consLabels t]; exact h5

/-- the labels as a permutation (stronger than `bagEq`) -/
theorem pipeline_negra_labels (t t' : Tree) (hwf : WF t = true) (h : boydSplit (negraMarkHeads t) = .ok t') :
    (consLabels (raising t')).Perm (consLabels t) := by
  have := (pipeline_core _ t' (C04.negra_WF t hwf).1 (C15.negra_WF t hwf).1 h).2.2.2.2
  rwa [C15.negra_consLabels] at this

/-- the result of the whole pipeline on a tree (the input when a step fails) -/
def runNegra (t : Tree) : Tree :=
  match boydSplit (negraMarkHeads t) with
  | .ok t' => raising t'
  | .error _ => t

example : beq (sortKids (stripT (runNegra exT))) (sortKids (stripT (contSpecRoot (negraMarkHeads exT)))) = true ∧
    continuous (runNegra exT) = true ∧ WF (runNegra exT) = true ∧ sentence (runNegra exT) = sentence exT ∧
    bagEq (consLabels (runNegra exT)) (consLabels exT) = true := by decide
example : beq (sortKids (stripT (runNegra exT2))) (sortKids (stripT (contSpecRoot (negraMarkHeads exT2)))) = true ∧
    continuous (runNegra exT2) = true ∧ bagEq (consLabels (runNegra exT2)) (consLabels exT2) = true := by decide
/-- not vacuous: the pipeline changes `exT` -/
example : beq (sortKids (stripT (runNegra exT))) (sortKids (stripT exT)) = false := by decide

/-- an already continuous tree comes back unchanged (up to the head flags the marking step sets) -/
theorem pipeline_negra_continuous (t t' : Tree) (hwf : WF t = true) (hc : continuous t = true)
    (h : boydSplit (negraMarkHeads t) = .ok t') :
    sortKids (stripT (raising t')) = sortKids (stripT t) := by
  rw [C05.continuous_fixpoint _ t' h (C04.negra_WF t hwf).1 (Lemmas.More10.continuous_negra t hc),
    Lemmas.More10.stripT_negra]

example : beq (sortKids (stripT (runNegra exC))) (sortKids (stripT exC)) = true := by decide

/-! ### rule presets -/

/-- the rule-based marking with a preset gives a well-formed tree with one head per constituent, same sentence, same labels -/
theorem rules_marked (p : Preset) (t m : Tree) (hwf : WF t = true) (hm : markHeadsByRules (some p) none t = .ok m) :
    WF m = true ∧ oneHeadEach m = true ∧ sentence m = sentence t ∧ consLabels m = consLabels t ∧ stripT m = stripT t := by
  obtain ⟨hw, hs⟩ := C04.rules_WF p t m hwf hm
  have hne := Lemmas.WF.WF_noEmpty t hwf
  have hsd := Lemmas.WF.WF_sibDistinct t hwf
  cases p with
  | negra =>
    rw [(C15.rules_presets_ok t).1, Except.ok.injEq] at hm
    subst hm
    exact ⟨hw, C15.rules_oneHead _ t hne hsd, hs, C15.rules_consLabels _ t, Lemmas.More10.stripT_rules _ t⟩
  | ptb =>
    rw [(C15.rules_presets_ok t).2, Except.ok.injEq] at hm
    subst hm
    exact ⟨hw, C15.rules_oneHead _ t hne hsd, hs, C15.rules_consLabels _ t, Lemmas.More10.stripT_rules _ t⟩
  | other => rw [(C15.rules_rejects t []).1] at hm; cases hm

/-- with a rule preset the pipeline never fails either (the presets `negra` and `ptb`; any other preset name is rejected
    by `mark_heads_by_rules` itself) -/
theorem pipeline_rules_ok (p : Preset) (t m : Tree) (hwf : WF t = true) (hm : markHeadsByRules (some p) none t = .ok m) :
    ∃ t', boydSplit m = .ok t' := by
  obtain ⟨hw, hoh, _⟩ := rules_marked p t m hwf hm
  exact pipeline_ok_of_oneHeadEach m hw hoh

/-- the same with the rule presets -/
theorem pipeline_rules (p : Preset) (t m t' : Tree) (hwf : WF t = true) (hm : markHeadsByRules (some p) none t = .ok m)
    (h : boydSplit m = .ok t') :
    sortKids (stripT (raising t')) = sortKids (stripT (contSpecRoot m)) ∧ continuous (raising t') = true ∧ WF (raising t') = true ∧
    sentence (raising t') = sentence t ∧ bagEq (consLabels (raising t')) (consLabels t) = true := by
  obtain ⟨hw, hoh, hs, hl, _⟩ := rules_marked p t m hwf hm
  obtain ⟨h1, h2, h3, h4, h5⟩ := pipeline_core m t' hw hoh h
  exact ⟨h1, h2, h3, h4.trans hs, Lemmas.More10.bagEq_of_perm (hl ▸ h5)⟩

/-- ... and a continuous tree comes back unchanged with the presets as well -/
theorem pipeline_rules_continuous (p : Preset) (t m t' : Tree) (hwf : WF t = true) (hc : continuous t = true)
    (hm : markHeadsByRules (some p) none t = .ok m) (h : boydSplit m = .ok t') :
    sortKids (stripT (raising t')) = sortKids (stripT t) := by
  obtain ⟨hw, _, _, _, hst⟩ := rules_marked p t m hwf hm
  rw [C05.continuous_fixpoint m t' h hw (Lemmas.More10.continuous_of_stripT_eq hst hc), hst]

/-- the result of the pipeline with a preset (the input when a step fails) -/
def runRules (p : Preset) (t : Tree) : Tree :=
  match markHeadsByRules (some p) none t with
  | .ok m => (match boydSplit m with | .ok t' => raising t' | .error _ => t)
  | .error _ => t

example : ∃ m, markHeadsByRules (some Preset.negra) none exT = .ok m ∧ (boydSplit m).toOption.isSome = true := ⟨_, rfl, by decide⟩
example : continuous (runRules .negra exT) = true ∧ WF (runRules .negra exT) = true ∧
    sentence (runRules .negra exT) = sentence exT ∧ bagEq (consLabels (runRules .negra exT)) (consLabels exT) = true := by decide
example : continuous (runRules .ptb exT2) = true ∧ WF (runRules .ptb exT2) = true ∧
    sentence (runRules .ptb exT2) = sentence exT2 ∧ bagEq (consLabels (runRules .ptb exT2)) (consLabels exT2) = true := by decide

/-! ### with a preceding root_attach -/

theorem pipeline_negra_after_root_attach_ok (t : Tree) (hwf : WF t = true) :
    ∃ t', boydSplit (negraMarkHeads (rootAttach t)) = .ok t' :=
  pipeline_negra_ok _ (C12.rootAttach_WF t hwf)

/-- ... and with a preceding root_attach -/
theorem pipeline_negra_after_root_attach (t t' : Tree) (hwf : WF t = true) (h : boydSplit (negraMarkHeads (rootAttach t)) = .ok t') :
    sortKids (stripT (raising t')) = sortKids (stripT (contSpecRoot (negraMarkHeads (rootAttach t)))) ∧
    continuous (raising t') = true ∧ sentence (raising t') = sentence t ∧ bagEq (consLabels (raising t')) (consLabels t) = true := by
  have hw := C12.rootAttach_WF t hwf
  obtain ⟨h1, h2, _, h4, _⟩ := pipeline_negra _ t' hw h
  exact ⟨h1, h2, h4.trans (C12.rootAttach_sentence t hwf),
    Lemmas.More10.bagEq_of_perm ((pipeline_negra_labels _ t' hw h).trans (C12.rootAttach_consLabels t))⟩

/-- moreover the result is well formed -/
theorem pipeline_negra_after_root_attach_WF (t t' : Tree) (hwf : WF t = true)
    (h : boydSplit (negraMarkHeads (rootAttach t)) = .ok t') : WF (raising t') = true :=
  (pipeline_negra _ t' (C12.rootAttach_WF t hwf) h).2.2.1

/-- on `exR` root_attach already removes the discontinuity, the rest of the pipeline then changes nothing -/
example : continuous (rootAttach exR) = true ∧
    beq (sortKids (stripT (runNegra (rootAttach exR)))) (sortKids (stripT (rootAttach exR))) = true ∧
    sentence (runNegra (rootAttach exR)) = sentence exR ∧
    bagEq (consLabels (runNegra (rootAttach exR))) (consLabels exR) = true := by decide
/-- on `exT2` root_attach leaves a discontinuity that the rest of the pipeline removes -/
example : continuous (rootAttach exT2) = false ∧ continuous (runNegra (rootAttach exT2)) = true ∧
    sentence (runNegra (rootAttach exT2)) = sentence exT2 ∧
    bagEq (consLabels (runNegra (rootAttach exT2))) (consLabels exT2) = true := by decide

end TT.Props.C05More
