/-
  C18 — processing is sentence-local, deterministic and history-independent (theorems being added)
-/
import TT.Proc
import TT.IO.Read
namespace TT.Props.C18
open TT TT.Tree

end TT.Props.C18
