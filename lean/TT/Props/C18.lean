/-
  C18 — processing is sentence-local, deterministic and history-independent
-/
import TT.Proc
import TT.IO.Read
import TT.Lemmas.Proc
namespace TT.Props.C18
open TT TT.Tree TT.Spec TT.Lemmas.Proc

/-- the cache invariant: a loaded table is the parse of the file it was loaded from -/
def CacheOK (needPos : Bool) (fs : Str → Option Str) : Loaded → Prop
  | .absent => True
  | .ok fn t => ∃ c, fs fn = some c ∧ parseTermFile needPos c = .ok t
  | .broken _ => False
def StateOK (fs : Str → Option Str) (st : ProcState) : Prop := CacheOK false fs st.sub ∧ CacheOK true fs st.ins

/-! ### concrete file system and history used in the examples -/

/-- `t1`: two sentences; `t2`: four-column file for `insert_terminals`; `dup`: index 1 of sentence 1 twice
    (`ValueError`); `short`: three columns only (fine for substitute, `IndexError` for insert) -/
def exFs (fn : Str) : Option Str :=
  if fn = "t1".toList then some "1 2 dog N\n1 1 the D\n2 1 it\n".toList
  else if fn = "t2".toList then some "1 3 now ADV\n".toList
  else if fn = "dup".toList then some "1 1 a X\n1 1 b Y\n".toList
  else if fn = "short".toList then some "1 1 a\n".toList
  else none

/-- `(S a/1 b/2)` -/
def exTree : Tree :=
  node { label := "S".toList }
    [leaf 1 { label := "A".toList, word := some "a".toList }, leaf 2 { label := "B".toList, word := some "b".toList }]

/-- substitute(t1) ; insert(t2) ; substitute(dup) ; substitute(dup) ; substitute(t1) -/
def exHist : List Call :=
  [.substitute "t1".toList 1 exTree, .insert "t2".toList 1 exTree, .substitute "dup".toList 1 exTree,
   .substitute "dup".toList 1 exTree, .substitute "t1".toList 1 exTree]

/-- a decidable view of a result: the error, or the (number, word, tag) of every token -/
def view : Except Err Tree → Err ⊕ List (Nat × Str × Str)
  | .error e => .inl e
  | .ok t => .inr (t.terminals.map fun l => (l.num, l.fields.word.getD [], l.fields.label))

/-- stepping stone for instance search (the full search exceeds the default size bound) -/
local instance rowDecEq : DecidableEq (List (Nat × Nat × Str × Str)) := inferInstance

/-- a decidable view of a loaded table: the error, or the rows (sid, index, word, tag or "") -/
def tview : Except Err TermTable → Err ⊕ List (Nat × Nat × Str × Str)
  | .error e => .inl e
  | .ok tbl => .inr (tbl.flatMap fun (sid, es) => es.map fun (k, w, p) => (sid, k, w, p.getD []))

/-! ### the cache protocol -/

theorem loadTable_result (needPos : Bool) (fs : Str → Option Str) (st : Loaded) (fn : Str) (h : CacheOK needPos fs st) :
    (loadTable needPos fs st fn).1 = (loadTable needPos fs .absent fn).1 ∧ CacheOK needPos fs (loadTable needPos fs st fn).2 := by
  have hreload : CacheOK needPos fs (loadTable.reload needPos fs fn).2 := by
    cases h1 : fs fn with
    | none => simp only [loadTable.reload, h1]; trivial
    | some c =>
      cases h2 : parseTermFile needPos c with
      | error e => simp only [loadTable.reload, h1, h2]; trivial
      | ok t => simp only [loadTable.reload, h1, h2]; exact ⟨c, h1, h2⟩
  cases st with
  | absent => exact ⟨rfl, hreload⟩
  | broken f => exact absurd h id
  | ok f t =>
    by_cases hf : f = fn
    · subst hf
      obtain ⟨c, h1, h2⟩ := h
      rw [loadTable_ok_hit, loadTable_absent, reload_of_parse_ok needPos fs f c t h1 h2]
      exact ⟨rfl, c, h1, h2⟩
    · rw [loadTable_ok_miss needPos fs f fn t hf, loadTable_absent]
      exact ⟨rfl, hreload⟩

/-- a state whose substitute cache holds `t1`: loading `t1` again, or another file, gives what a fresh process gives -/
example : CacheOK false exFs (loadTable false exFs .absent "t1".toList).2 :=
  (loadTable_result false exFs .absent "t1".toList trivial).2

example : tview (loadTable false exFs (loadTable false exFs .absent "t1".toList).2 "t1".toList).1 =
      .inr [(1, 2, "dog".toList, "N".toList), (1, 1, "the".toList, "D".toList), (2, 1, "it".toList, [])] ∧
    tview (loadTable false exFs (loadTable false exFs .absent "t1".toList).2 "short".toList).1 =
      .inr [(1, 1, "a".toList, [])] ∧
    tview (loadTable true exFs .absent "short".toList).1 = .inl .indexError ∧
    tview (loadTable false exFs .absent "nofile".toList).1 = .inl .other := by decide +kernel

/-- one call: same result from any reachable state as from the initial state, and the state stays consistent -/
theorem call_history_independent (fs : Str → Option Str) (st : ProcState) (c : Call) (h : StateOK fs st) :
    (c.run fs st).1 = (c.run fs {}).1 ∧ StateOK fs (c.run fs st).2 := by
  obtain ⟨hs, hi⟩ := h
  cases c with
  | substitute fn sid t =>
    obtain ⟨h1, h2⟩ := loadTable_result false fs st.sub fn hs
    simp only [Call.run]
    exact ⟨by rw [h1], h2, hi⟩
  | insert fn sid t =>
    obtain ⟨h1, h2⟩ := loadTable_result true fs st.ins fn hi
    simp only [Call.run]
    exact ⟨by rw [h1], hs, h2⟩
  | pure t => exact ⟨rfl, hs, hi⟩

theorem stateOK_init (fs : Str → Option Str) : StateOK fs {} := ⟨trivial, trivial⟩

/-- the state reached after the first two calls of the example history is consistent -/
example : StateOK exFs ((Call.insert "t2".toList 1 exTree).run exFs
    ((Call.substitute "t1".toList 1 exTree).run exFs {}).2).2 :=
  (call_history_independent exFs _ _ (call_history_independent exFs _ _ (stateOK_init exFs)).2).2

/-- histories from any consistent state -/
theorem history_independent_from (fs : Str → Option Str) (cs : List Call) : ∀ st : ProcState, StateOK fs st →
    runHistory fs st cs = cs.map fun c => (c.run fs {}).1 := by
  induction cs with
  | nil => intro st _; rfl
  | cons c cs ih =>
    intro st h
    obtain ⟨h1, h2⟩ := call_history_independent fs st c h
    simp only [runHistory, List.map_cons]
    rw [h1, ih _ h2]

/-- MAIN: in every history over a file system that does not change, the k-th call returns what it returns in a fresh process -/
theorem history_independent (fs : Str → Option Str) (cs : List Call) :
    runHistory fs {} cs = cs.map fun c => (c.run fs {}).1 :=
  history_independent_from fs cs {} (stateOK_init fs)

example : runHistory exFs {} exHist = exHist.map fun c => (c.run exFs {}).1 := history_independent exFs exHist

/-- the example history, evaluated: both `dup` calls raise `ValueError`, the last call repeats the first result -/
example : (runHistory exFs {} exHist).map view =
    [.inr [(1, "the".toList, "D".toList), (2, "dog".toList, "N".toList)],
     .inr [(1, "a".toList, "A".toList), (2, "b".toList, "B".toList), (3, "now".toList, "ADV".toList)],
     .inl .valueError, .inl .valueError,
     .inr [(1, "the".toList, "D".toList), (2, "dog".toList, "N".toList)]] := by decide +kernel

/-- and call by call in a fresh process -/
example : (exHist.map fun c => view (c.run exFs {}).1) =
    [.inr [(1, "the".toList, "D".toList), (2, "dog".toList, "N".toList)],
     .inr [(1, "a".toList, "A".toList), (2, "b".toList, "B".toList), (3, "now".toList, "ADV".toList)],
     .inl .valueError, .inl .valueError,
     .inr [(1, "the".toList, "D".toList), (2, "dog".toList, "N".toList)]] := by decide +kernel


/-- a failed load leaves no trace (the repaired behaviour): a retry gives the same error -/
theorem failed_load_retry (needPos : Bool) (fs : Str → Option Str) (st : Loaded) (fn : Str) (e : Err)
    (h : (loadTable needPos fs st fn).1 = .error e) (hst : CacheOK needPos fs st) :
    (loadTable needPos fs (loadTable needPos fs st fn).2 fn).1 = .error e := by
  obtain ⟨h1, h2⟩ := loadTable_result needPos fs st fn hst
  obtain ⟨h3, _⟩ := loadTable_result needPos fs _ fn h2
  rw [h3, ← h1, h]

/-- the failing load of `dup` from a state that has `t1` cached -/
example : tview (loadTable false exFs (.ok "t1".toList []) "dup".toList).1 = .inl .valueError ∧
    tview (loadTable false exFs (loadTable false exFs (.ok "t1".toList []) "dup".toList).2 "dup".toList).1 =
      .inl .valueError := by decide +kernel


/-- a failed load leaves the cache empty -/
theorem failed_load_state (needPos : Bool) (fs : Str → Option Str) (st : Loaded) (fn : Str) (e : Err)
    (h : (loadTable needPos fs st fn).1 = .error e) : (loadTable needPos fs st fn).2 = .absent := by
  have hreload : (loadTable.reload needPos fs fn).1 = .error e → (loadTable.reload needPos fs fn).2 = .absent := by
    cases h1 : fs fn with
    | none => simp only [loadTable.reload, h1]; intro _; trivial
    | some c =>
      cases h2 : parseTermFile needPos c with
      | error e => simp only [loadTable.reload, h1, h2]; intro _; trivial
      | ok t => simp only [loadTable.reload, h1, h2]; intro h; cases h
  cases st with
  | absent => exact hreload h
  | broken f => exact hreload h
  | ok f t =>
    by_cases hf : f = fn
    · subst hf
      rw [loadTable_ok_hit] at h
      cases h
    · rw [loadTable_ok_miss needPos fs f fn t hf] at h ⊢
      exact hreload h

/-! ### sentence locality of extraction -/

/-- extraction from an arbitrary start state adds pointwise -/
theorem foldl_extract_counts (ts : List Tree) (st : Grammar × Lexicon) (f : Func) (l : Lin) (v : VertKey) :
    gramCount (ts.foldl (fun st t => extract t st) st).1 f l v =
      gramCount st.1 f l v + gramCount (extractAll ts).1 f l v := by
  rw [foldl_extract_gramCount, extractAll_gramCount]

theorem foldl_extract_lex (ts : List Tree) (st : Grammar × Lexicon) (w t : Str) :
    lexCount (ts.foldl (fun st t => extract t st) st).2 w t = lexCount st.2 w t + lexCount (extractAll ts).2 w t := by
  rw [foldl_extract_lexCount, extractAll_lexCount]

-- sentence locality of extraction: the grammar and lexicon of a concatenation are the pointwise sums
theorem extract_append_counts (ts us : List Tree) (f : Func) (l : Lin) (v : VertKey) :
    gramCount (extractAll (ts ++ us)).1 f l v = gramCount (extractAll ts).1 f l v + gramCount (extractAll us).1 f l v := by
  simp only [extractAll_gramCount, ruleOcc_append]

theorem extract_append_lex (ts us : List Tree) (w t : Str) :
    lexCount (extractAll (ts ++ us)).2 w t = lexCount (extractAll ts).2 w t + lexCount (extractAll us).2 w t := by
  simp only [extractAll_lexCount, lexOcc_append]

/-- every count is the number of occurrences of the entry in the treebank -/
theorem extract_counts_occ (ts : List Tree) (f : Func) (l : Lin) (v : VertKey) (w t : Str) :
    gramCount (extractAll ts).1 f l v = ruleOcc f l v ts ∧ lexCount (extractAll ts).2 w t = lexOcc w t ts :=
  ⟨extractAll_gramCount f l v ts, extractAll_lexCount w t ts⟩

/-- `(S (VP saw/1 up/4 it/3) he/2 (NP it/7 now/6))` from C06, and a small second tree sharing `it/N` -/
def exU : Tree :=
  node { label := "NP".toList }
    [leaf 1 { label := "N".toList, word := some "it".toList }, leaf 2 { label := "ADV".toList, word := some "now".toList }]

example : gramCount (extractAll ([TT.Props.C06.exT] ++ [exU, TT.Props.C06.exT])).1
      TT.Props.C06.exF TT.Props.C06.exL (.ctx ["S2".toList]) = 2 ∧
    gramCount (extractAll [TT.Props.C06.exT]).1 TT.Props.C06.exF TT.Props.C06.exL (.ctx ["S2".toList]) = 1 ∧
    gramCount (extractAll [exU, TT.Props.C06.exT]).1 TT.Props.C06.exF TT.Props.C06.exL (.ctx ["S2".toList]) = 1 := by
  decide

example : lexCount (extractAll ([TT.Props.C06.exT] ++ [exU, TT.Props.C06.exT])).2 "it".toList "N".toList = 5 ∧
    lexCount (extractAll [TT.Props.C06.exT]).2 "it".toList "N".toList = 2 ∧
    lexCount (extractAll [exU, TT.Props.C06.exT]).2 "it".toList "N".toList = 3 := by decide


/-! ### statistics of a concatenation -/

-- statistics of a concatenation are the sums
theorem gapstats_append (s : GapStats) (ts us : List Tree) :
    GapStats.total ((ts ++ us).foldl GapStats.run s).perTree = GapStats.total (ts.foldl GapStats.run s).perTree + us.length ∧
    GapStats.total (ts.foldl GapStats.run s).perTree = GapStats.total s.perTree + ts.length := by
  rw [List.foldl_append, foldl_run_perTree_total us, foldl_run_perTree_total ts]
  exact ⟨rfl, rfl⟩

example : ([TT.Props.C06.exT, exU] ++ [TT.Props.C06.exT]).foldl GapStats.run {} =
    { perNode := [(1, 4), (0, 3)], perTree := [(1, 2), (0, 1)] } := by decide +kernel


/-! ### the export reader is sentence local -/

/-- every `#BOS` in the block of lines is closed by an `#EOS` (no sentence is open at the end) -/
def Complete (a : List Str) : Prop := openAfter false a = false
instance (a : List Str) : Decidable (Complete a) := by unfold Complete; infer_instance

/-- number of sentences (`#BOS` ... `#EOS` groups) closed in the block -/
def sentences (a : List Str) : Nat := closedCount false a

/-- readers are sentence local — the replacement of the loose statement, exactly in the suggested form:
    after a complete prefix that was read successfully the reader is back in its initial state except for the
    tree counter, which has advanced by the number of sentences of the prefix -/
theorem exportLoop_append (o : InOpts) (a b : List Str) (tc : Nat) (acc : List (Nat × Tree)) (ra : List (Nat × Tree))
    (ha : exportLoop o a none tc acc = .ok ra) (hcomplete : Complete a) :
    exportLoop o (a ++ b) none tc acc = exportLoop o b none (tc + sentences a) ra.reverse ∧
    ra.length = acc.length + sentences a := by
  rw [exportLoop_eq_scan] at ha
  rw [exportLoop_append_scan]
  cases hs : exportScan o a none tc acc with
  | error e => rw [hs] at ha; cases ha
  | ok s =>
    rw [hs] at ha
    obtain ⟨h1, h2, new, h3, h4⟩ := exportScan_state o a none tc acc s hs
    simp only [Except.map, Except.ok.injEq] at ha
    subst ha
    have hc : openAfter false a = false := hcomplete
    simp only [Option.isSome_none, hc] at h1 h2 h4
    have h1' : s.1 = none := by cases h : s.1 <;> simp_all
    simp only [h1', h2, List.reverse_reverse, sentences, List.length_reverse, h3, List.length_append, h4]
    exact ⟨trivial, by omega⟩

/-- the same without assuming that the prefix reads successfully, and with the result spelled out:
    reading `a ++ b` = reading `a`, reading `b` with the tree counter advanced, concatenating -/
theorem exportLoop_append_results (o : InOpts) (a b : List Str) (tc : Nat) (hcomplete : Complete a) :
    exportLoop o (a ++ b) none tc [] =
      match exportLoop o a none tc [] with
      | .error e => .error e
      | .ok ra => (exportLoop o b none (tc + sentences a) []).map (ra ++ ·) := by
  cases ha : exportLoop o a none tc [] with
  | error e =>
    rw [exportLoop_append_scan]
    rw [exportLoop_eq_scan] at ha
    cases hs : exportScan o a none tc [] with
    | error e' => rw [hs] at ha; simp only [Except.map] at ha; cases ha; rfl
    | ok s => rw [hs] at ha; cases ha
  | ok ra =>
    rw [(exportLoop_append o a b tc [] ra ha hcomplete).1, exportLoop_acc]
    simp

/-- ... and in terms of the ids: with `continuous` the ids of the second part are shifted by the number of
    sentences of the first part, otherwise they are the `#BOS` ids and nothing changes -/
theorem exportLoop_append_renum (o : InOpts) (a b : List Str) (tc : Nat) (hcomplete : Complete a) :
    exportLoop o (a ++ b) none tc [] =
      match exportLoop o a none tc [], exportLoop o b none tc [] with
      | .error e, _ => .error e
      | .ok _, .error e => .error e
      | .ok ra, .ok rb => .ok (ra ++ rb.map (renum o (sentences a))) := by
  rw [exportLoop_append_results o a b tc hcomplete]
  have hsh := exportLoop_shift o (sentences a) b none tc []
  simp only [List.map_nil] at hsh
  rw [hsh]
  cases exportLoop o a none tc [] with
  | error e => rfl
  | ok ra => cases exportLoop o b none tc [] <;> rfl

/-- an open sentence at the end of the prefix is NOT harmless (why `Complete` is needed): the lines of `b` are
    swallowed into the open sentence.  Stated as the general law: the reader continues from the scanned state. -/
theorem exportLoop_append_general (o : InOpts) (a b : List Str) (cur : Option (Nat × List Str)) (tc : Nat)
    (acc : List (Nat × Tree)) :
    exportLoop o (a ++ b) cur tc acc =
      match exportScan o a cur tc acc with
      | .error e => .error e
      | .ok s => exportLoop o b s.1 s.2.1 s.2.2 :=
  exportLoop_append_scan o b a cur tc acc

/-- the lines of a text -/
abbrev lines (text : Str) : List Str := splitOnChar '\n' text

/-- corollary for texts: `a` is a text whose lines are complete; the text `a ++ "\n" ++ b` (i.e. `a` terminated
    by a newline, followed by `b`) reads as `a` followed by `b` -/
theorem readExport_append (o : InOpts) (a b : Str) (hcomplete : Complete (lines a)) :
    readExport o (a ++ '\n' :: b) =
      match readExport o a, readExport o b with
      | .error e, _ => .error e
      | .ok _, .error e => .error e
      | .ok ra, .ok rb => .ok (ra ++ rb.map (renum o (sentences (lines a)))) := by
  unfold readExport
  rw [TT.Lemmas.Collapse.splitOnChar_append_sep]
  exact exportLoop_append_renum o _ _ 1 hcomplete

/-- a final newline after a complete text changes nothing -/
theorem readExport_newline (o : InOpts) (a : Str) (hcomplete : Complete (lines a)) :
    readExport o (a ++ ['\n']) = readExport o a := by
  unfold readExport
  rw [splitOnChar_snoc_sep, exportLoop_append_results o _ _ 1 hcomplete]
  cases exportLoop o (splitOnChar '\n' a) none 1 [] with
  | error e => rfl
  | ok ra =>
    have : exportLoop o [[]] none (1 + sentences (splitOnChar '\n' a)) [] = .ok [] := by
      simp [exportLoop]
    simp [this, Except.map]

theorem complete_newline (a : Str) (h : Complete (lines a)) : Complete (lines (a ++ ['\n'])) := by
  unfold Complete lines at *
  rw [splitOnChar_snoc_sep, openAfter_append, h]
  decide

theorem sentences_newline (a : Str) : sentences (lines (a ++ ['\n'])) = sentences (lines a) := by
  unfold sentences lines
  rw [splitOnChar_snoc_sep, closedCount_append]
  cases openAfter false (splitOnChar '\n' a) <;> simp [closedCount, closes, isEOS, stripLine]

/-- the corollary in the form of the brief: `a` ends with a newline -/
theorem readExport_append_nl (o : InOpts) (a b : Str) (hcomplete : Complete (lines a)) :
    readExport o ((a ++ ['\n']) ++ b) =
      match readExport o (a ++ ['\n']), readExport o b with
      | .error e, _ => .error e
      | .ok _, .error e => .error e
      | .ok ra, .ok rb => .ok (ra ++ rb.map (renum o (sentences (lines (a ++ ['\n']))))) := by
  rw [readExport_newline o a hcomplete, sentences_newline, ← readExport_append o a b hcomplete]
  simp

/-- without `continuous` the ids are the `#BOS` ids: the trees of a concatenation are the concatenation -/
theorem readExport_append_ids (o : InOpts) (a b : Str) (hcomplete : Complete (lines a)) (hc : o.continuous = false)
    (ra rb : List (Nat × Tree)) (ha : readExport o a = .ok ra) (hb : readExport o b = .ok rb) :
    readExport o (a ++ '\n' :: b) = .ok (ra ++ rb) := by
  rw [readExport_append o a b hcomplete, ha, hb]
  have : rb.map (renum o (sentences (lines a))) = rb := by
    have hf : renum o (sentences (lines a)) = id := by funext p; simp [renum, hc]
    rw [hf, List.map_id]
  simp [this]

/-! concrete export texts: two complete sentences and a third one -/

def exA : Str := "#BOS 7\nthe\t--\tD\t--\tHD\t500\ndog\t--\tN\t--\tHD\t500\n#500\t--\tNP\t--\t--\t0\n#EOS 7\n%% comment\n#BOS 9\nit\t--\tN\t--\tHD\t0\n#EOS 9".toList
def exB : Str := "#BOS 3\nnow\t--\tADV\t--\tHD\t0\n#EOS 3\n".toList

/-- ids and number of tokens of the trees read -/
def ids : Except Err (List (Nat × Tree)) → Err ⊕ List (Nat × Nat)
  | .error e => .inl e
  | .ok r => .inr (r.map fun p => (p.1, p.2.leafNums.length))

example : Complete (lines exA) ∧ sentences (lines exA) = 2 := by decide +kernel

/-- an unfinished sentence is not complete -/
example : ¬ Complete (lines "#BOS 1\nit\t--\tN\t--\tHD\t0\n".toList) := by decide +kernel

example : ids (readExport {} exA) = .inr [(7, 2), (9, 1)] ∧ ids (readExport {} exB) = .inr [(3, 1)] ∧
    ids (readExport {} (exA ++ '\n' :: exB)) = .inr [(7, 2), (9, 1), (3, 1)] := by decide +kernel

example : ids (readExport { continuous := true } exA) = .inr [(1, 2), (2, 1)] ∧
    ids (readExport { continuous := true } exB) = .inr [(1, 1)] ∧
    ids (readExport { continuous := true } (exA ++ '\n' :: exB)) = .inr [(1, 2), (2, 1), (3, 1)] := by decide +kernel

/-- the hypotheses of `readExport_append` are met by the example texts -/
example : readExport {} (exA ++ '\n' :: exB) =
    match readExport {} exA, readExport {} exB with
    | .error e, _ => .error e
    | .ok _, .error e => .error e
    | .ok ra, .ok rb => .ok (ra ++ rb.map (renum {} (sentences (lines exA)))) :=
  readExport_append {} exA exB (by decide +kernel)
example : Complete (lines exA) := by decide +kernel
example : Complete (lines (exA ++ ['\n'])) := complete_newline exA (by decide +kernel)

/-- `Complete` cannot be dropped: the prefix `#BOS 1` alone is read without error (and without a tree), but in front of
    `exB` it swallows the next `#BOS` line into its body and the sentence fails to parse -/
example : ids (exportLoop {} ["#BOS 1".toList] none 1 []) = .inr [] ∧
    ids (exportLoop {} (["#BOS 1".toList] ++ lines exB) none 1 []) = .inl .indexError ∧
    ids (exportLoop {} (lines exB) none 1 []) = .inr [(3, 1)] := by decide +kernel

/-
  Status of the statements of the brief.

  * `loadTable_result`, `call_history_independent`, `history_independent`, `failed_load_retry`,
    `extract_append_counts`, `extract_append_lex`, `gapstats_append`: proved with exactly the given statements.
  * `exportLoop_append` was given in a deliberately loose form (conclusion `∃ tc', ... ∨ True`, hypothesis
    `hcomplete : True`).  It is replaced by
      - `Complete a` := no sentence is open after the lines `a` (`openAfter false a = false`, decidable),
      - `sentences a` := number of `#BOS ... #EOS` groups closed in `a`,
      - `exportLoop_append`: from `exportLoop o a none tc acc = .ok ra` and `Complete a`:
          `exportLoop o (a ++ b) none tc acc = exportLoop o b none (tc + sentences a) ra.reverse ∧
           ra.length = acc.length + sentences a`,
      - `exportLoop_append_results` / `exportLoop_append_renum`: without assuming that `a` reads successfully, the result
        of `a ++ b` is the result of `a` followed by the result of `b` (ids shifted by `sentences a` with `continuous`),
        errors of `a` first,
      - `exportLoop_append_general`: for ARBITRARY `a` (complete or not, any start state) the reader continues on `b`
        from the state `exportScan o a ...` reached after `a`,
      - `readExport_append`, `readExport_append_nl`, `readExport_newline`, `readExport_append_ids`: the corollaries for
        texts (`a ++ "\n" ++ b`, `a` complete).
    Nothing is left unproved.
-/

end TT.Props.C18
