/-
  C14 — property theorems (being added; see tools/agent_briefs/C14.md)
-/
import TT.Spec.Transform
namespace TT.Props.C14
open TT TT.Tree TT.Spec

end TT.Props.C14
