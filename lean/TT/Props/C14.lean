/-
  C14 — property theorems: unary-chain collapsing and binarization
  (statements: tools/agent_briefs/C14.md; helpers: TT/Lemmas/Collapse.lean, TT/Lemmas/Binarize.lean)

  All statements of the brief are proved as given, except `unbinarize_binarize`, which is FALSE as
  given (see `unbinarize_binarize_needs_sibDistinct` below for the counterexample) and is proved
  with the one extra hypothesis `sibDistinct t = true` (siblings have pairwise different leftmost
  tokens; true of every well-formed tree).
-/
import TT.Spec.Transform
import TT.Lemmas.Collapse
import TT.Lemmas.Binarize
import TT.Lemmas.WF
namespace TT.Props.C14
open TT TT.Tree TT.Spec
open TT.Lemmas.Collapse TT.Lemmas.Binarize

/-! ### example trees -/

private def lf (n : Nat) (l w : String) (h : Option Bool := none) : Tree :=
  leaf n { label := l.toList, word := some w.toList, head := h }
private def nd (l : String) (ks : List Tree) (h : Option Bool := none) : Tree :=
  node { label := l.toList, head := h } ks

/-- unary chain of length 3 at the root (`ROOT-S-VP`), one in the middle (`NP-NX`, below a binary node)
    and one of length 3 above a token (`AP-AX-AY` above token 2) -/
def exChains : Tree :=
  nd "ROOT" [nd "S" [nd "VP" [
    nd "NP" [nd "NX" [lf 1 "N" "dogs", lf 3 "V" "bark"]],
    nd "AP" [nd "AX" [nd "AY" [lf 2 "ADV" "loudly"]]]]]]

/-- a 4-ary node with its head in the middle (third child), stored out of order, above a ternary
    node with the head first and a binary node -/
def exFlat : Tree :=
  nd "S" [
    lf 7 "D" "d" (some false),
    nd "X" [lf 1 "A" "a" (some true), lf 2 "B" "b" (some false), lf 3 "C" "c" (some false)] (some false),
    nd "Y" [lf 5 "E" "e", lf 6 "F" "f"] (some true),
    lf 4 "G" "g" (some false)]

/-! ### collapse / uncollapse -/

theorem collapse_no_unary (t : Tree) : hasUnary (collapse t) = false :=
  hasUnary_collapse t

example : hasUnary exChains = true ∧ hasUnary (collapse exChains) = false := by decide

theorem collapse_labels (t : Tree) : consLabels (collapse t) = collapsedLabels t :=
  consLabels_collapse t

example : consLabels (collapse exChains) =
    ["ROOT+S+VP".toList, "NP+NX".toList] := by decide

theorem collapse_leafNums (t : Tree) : (collapse t).leafNums = t.leafNums := by
  have h := congrArg (List.map Prod.fst) (leaves_collapse t)
  simp only [List.map_map] at h
  exact h

example : (collapse exChains).leafNums = [1, 3, 2] := by decide

theorem collapse_words (t : Tree) :
    (collapse t).leaves.map (fun l => (l.num, l.fields.word)) = t.leaves.map (fun l => (l.num, l.fields.word)) :=
  leaves_collapse t

example : (collapse exChains).leaves.map (fun l => (l.num, l.fields.word)) =
    [(1, some "dogs".toList), (3, some "bark".toList), (2, some "loudly".toList)] := by decide

/-- uncollapsing a collapsed tree restores labels, words and structure, for chains of any length, at the root,
    in the middle and above tokens, provided no label contains '+' -/
theorem uncollapse_collapse (t : Tree) (h : noCharInLabels '+' t = true) :
    stripT (uncollapse (collapse t)) = stripT t :=
  stripT_uncollapse_collapse t h

example : noCharInLabels '+' exChains = true := by decide
/-- the token below the chain `AP-AX-AY` absorbed the three labels, the root chain became one node -/
example : stripT (collapse exChains) =
    node { label := "ROOT+S+VP".toList } [
      node { label := "NP+NX".toList } [
        leaf 1 { label := "N".toList, word := some "dogs".toList },
        leaf 3 { label := "V".toList, word := some "bark".toList }],
      leaf 2 { label := "AP+AX+AY+ADV".toList, word := some "loudly".toList }] := by rfl
example : stripT (uncollapse (collapse exChains)) = stripT exChains := by rfl

/-! ### binarize -/

theorem binarize_arity (bare : Bool) (t t' : Tree) (h : binarize bare t = .ok t') : maxArity t' ≤ 2 := by
  revert t t'
  refine binarize_induct bare (fun _ t' => maxArity t' ≤ 2) ?_ ?_ ?_
  · intro n f; simp [maxArity]
  · intro f ks _ hP hl
    simp only [maxArity, List.length_map]
    have := (maxArityL_le 2 (ks.map (binOk bare))).2 (by
      intro k hk
      obtain ⟨k0, hk0, rfl⟩ := List.mem_map.1 hk
      exact hP k0 hk0)
    omega
  · intro f ks two _ hP _ hout
    simp only [maxArity]
    have h1 := hout.length_le
    have h2 := (maxArityL_le 2 two).2 (hout.arity (by
      intro k hk
      obtain ⟨k0, hk0, rfl⟩ := List.mem_map.1 ((mem_sortBy _ _ _).1 hk)
      exact hP k0 hk0))
    omega

/-- the result on the 4-ary example (head `Y` third in token order): the children are peeled from the left
    (`X`, then `G`) until two are left (`Y`, `D`); the ternary node `X` with its head first is peeled from the right -/
example : ∃ t', binarize true exFlat = .ok t' ∧ maxArity exFlat = 4 ∧ maxArity t' = 2 ∧
    consLabels t' = ["S", "@", "@", "Y", "X", "@"].map String.toList ∧
    t'.leafNums = [5, 6, 7, 4, 1, 2, 3] := by
  refine ⟨_, rfl, ?_, ?_, ?_, ?_⟩ <;> decide

/-- removing the @-nodes restores the original tree (modulo storage order of children).

    CORRECTED STATEMENT: the statement of the brief (without `hsd`) is false, see
    `unbinarize_binarize_needs_sibDistinct`.  `sibDistinct t` holds for every well-formed tree
    (`TT.Lemmas.WF.WF_sibDistinct`). -/
theorem unbinarize_binarize (bare : Bool) (t t' : Tree) (h : binarize bare t = .ok t')
    (hat : noAtLabels t = true) (hsd : sibDistinct t = true) : sortKids (unbinarize t') = sortKids t :=
  (unbinarize_binarizeAux bare t t' h hat hsd).2

example : noAtLabels exFlat = true ∧ sibDistinct exFlat = true := by decide
example : ∃ t', binarize true exFlat = .ok t' ∧ sortKids (unbinarize t') = sortKids exFlat :=
  ⟨_, rfl, rfl⟩
example : ∃ t', binarize false exFlat = .ok t' ∧ sortKids (unbinarize t') = sortKids exFlat :=
  ⟨_, rfl, rfl⟩

/-- the statement of the brief holds for well-formed trees -/
theorem unbinarize_binarize_WF (bare : Bool) (t t' : Tree) (h : binarize bare t = .ok t')
    (hat : noAtLabels t = true) (hwf : WF t = true) : sortKids (unbinarize t') = sortKids t :=
  unbinarize_binarize bare t t' h hat (TT.Lemmas.WF.WF_sibDistinct t hwf)

example : WF exFlat = true := by decide

/-- three sibling tokens carrying the same number, the head in the middle -/
def exDup : Tree :=
  nd "S" [lf 1 "A" "a" (some false), lf 1 "B" "b" (some true), lf 1 "C" "c" (some false)]

/-- COUNTEREXAMPLE to `unbinarize_binarize` as stated in the brief (no `sibDistinct`): with equal
    leftmost tokens among siblings the stable sort keeps the storage order, which binarization changes
    (`A B C` becomes `B C A`).  The same happens with childless constituents (leftmost = 0). -/
theorem unbinarize_binarize_needs_sibDistinct :
    ∃ t t', binarize true t = .ok t' ∧ noAtLabels t = true ∧ sortKids (unbinarize t') ≠ sortKids t := by
  refine ⟨exDup, _, rfl, by decide, ?_⟩
  intro h
  have h' := congrArg (fun x => x.kids.map (fun k => k.fields.label)) h
  revert h'
  decide

/-- every constituent of the result is an original one (same label multiset) or is @-labelled -/
theorem binarize_labels (bare : Bool) (t t' : Tree) (h : binarize bare t = .ok t') (hat : noAtLabels t = true) :
    ((consLabels t').filter (fun l => l.head? != some '@')).Perm (consLabels t) := by
  have h1 := binarize_labels_filter bare t t' h
  rw [filter_notAt_of_noAt t hat] at h1
  exact h1

example : ∃ t', binarize false exFlat = .ok t' ∧
    consLabels t' = ["S", "@S", "@S", "Y", "X", "@X"].map String.toList ∧
    (consLabels t').filter (fun l => l.head? != some '@') = ["S", "Y", "X"].map String.toList ∧
    consLabels exFlat = ["S", "X", "Y"].map String.toList := by
  refine ⟨_, rfl, ?_, ?_, ?_⟩ <;> decide

theorem binarize_leafNums (bare : Bool) (t t' : Tree) (h : binarize bare t = .ok t') : t'.leafNums.Perm t.leafNums :=
  binarize_leafNums_perm bare t t' h

example : ∃ t', binarize false exFlat = .ok t' ∧ t'.leafNums = [5, 6, 7, 4, 1, 2, 3] ∧
    exFlat.leafNums = [7, 1, 2, 3, 5, 6, 4] := by
  refine ⟨_, rfl, ?_, ?_⟩ <;> decide

/-- a node with more than two children none of which is marked as head is rejected -/
theorem binarize_rejects_headless (bare : Bool) (f : Fields) (ks : List Tree) (h3 : 2 < ks.length)
    (hh : ∀ k ∈ ks, k.fields.head ≠ some true) : ∃ e, binarize bare (node f ks) = .error e :=
  binarizeAux_rejects bare f ks h3 hh

example : binarize true (nd "S" [lf 1 "A" "a" (some false), lf 2 "B" "b", lf 3 "C" "c" (some false)])
    = .error .valueError := by rfl

/-- ... and a tree whose constituents with more than two children all have a marked head child is accepted -/
theorem binarize_accepts (bare : Bool) (t : Tree)
    (h : ∀ s ∈ t.subtrees, ∀ f ks, s = node f ks → 2 < ks.length →
          (∀ k ∈ ks, k.fields.head.isSome) ∧ ∃ k ∈ ks, k.fields.head = some true) :
    ∃ t', binarize bare t = .ok t' :=
  binarizeAux_accepts bare t h

/-- `exFlat` meets the hypothesis of `binarize_accepts` (its binary node `Y` has unmarked children) -/
example : ∀ s ∈ exFlat.subtrees, ∀ f ks, s = node f ks → 2 < ks.length →
    (∀ k ∈ ks, k.fields.head.isSome) ∧ ∃ k ∈ ks, k.fields.head = some true := by
  intro s hs f ks hsk hl
  simp only [exFlat, nd, lf, subtrees, subtreesL, List.cons_append, List.nil_append, List.append_nil,
    List.mem_cons, List.not_mem_nil, or_false] at hs
  rcases hs with rfl | rfl | rfl | rfl | rfl | rfl | rfl | rfl | rfl | rfl <;> cases hsk <;>
    first
      | (simp at hl; done)
      | simp [fields]

end TT.Props.C14
