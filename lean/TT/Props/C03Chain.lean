/-
  C03Chain — wave 16, C03 rows 2 and 3: TIGER-XML as the SOURCE and as the MIDDLE of a conversion through the command.

  * `tiger_to_export_lines`, `tiger_to_export`   TIGER-XML -> export for a `VROOT`-rooted sentence: the command writes exactly the lines
                                  the export writer writes for the tree; the independent decoder recovers its export content
  * `export_tiger_export_id`      export -> TIGER-XML -> export gives back the original lines (A -> B -> A with B ≠ A).
                                  CORRECTED against the audit proposal: needs `hm` (no constituent below the root carries
                                  morphology; `<nt>` has no such attribute) - counterexample `exM`
  * `tiger_tiger_id`              TIGER-XML -> TIGER-XML for `VROOT`-rooted trees, content form (independent decoder on the lines
                                  written for the tree read back = TIGER content of the tree); false without the root condition
  helpers: `TigerKeeps`, `KeepsAll`, `lineEq_tigerRead`, `writeExport_tigerReadTop`, `writeExport_of_tigerRead`, `readTiger_one`,
  `goodMap_comp`, `goodMap_nf`, `keepsAll_of_nf_eq`, `keepsAll_carryExportRoot`, `carryTiger_tigerRead`, `carryTigerRoot_tigerReadTop`.
  The step XML text -> element structure is ElementTree (trusted); `C01Readers.xsentOf_tables` ties `xsentOf sid r` to the lines
  `writeTiger sid r`.
-/
import TT.Props.C03Total
import TT.Props.C01Readers
namespace TT.Props.C03Chain
open TT TT.Tree TT.Spec
open TT.Lemmas.Run TT.Lemmas.ExportRT TT.Lemmas.WF TT.Lemmas.More12h TT.Props.C03Total TT.Props.C01Readers

/-! ## 1. the export writer on what the TIGER-XML reader delivers -/

/-- what TIGER-XML cannot hold of a node that an export line holds: a token without word (written `--` in TIGER-XML, as nothing
    in export) and the morphology column of a CONSTITUENT (`<nt>` has no such attribute) -/
def TigerKeeps (s : Tree) : Prop :=
  (s.isLeaf = true → s.fields.word ≠ none) ∧ (s.isLeaf = false → s.fields.morph.getD DEFAULT_MORPH = DEFAULT_MORPH)

instance (s : Tree) : Decidable (TigerKeeps s) := by unfold TigerKeeps; exact inferInstance

/-- without label decoration, export version 3: the line of a node is that of its TIGER reading -/
theorem lineEq_tigerRead (o : OutOpts) (ho : PlainOpts o) (h4 : o.exportFour = false) (s : Tree) (hne : s.noEmpty = true)
    (hk : TigerKeeps s) : LineEq o s (tigerRead s) := by
  cases s with
  | leaf n f =>
    rw [tigerRead, carryTiger]
    refine ⟨fun w pn => exportLine_congr_plain o ho _ _ w pn rfl ?_ ?_ ?_, fun _ => ?_⟩
    · simp only [fields, Option.getD_some]; rfl
    · simp only [fields, Option.getD_some]
    · intro hx; rw [h4] at hx; cases hx
    · have := hk.1 rfl
      simp only [fields] at this ⊢
      cases hwd : f.word with
      | none => exact absurd hwd this
      | some w => rfl
  | node f ks =>
    rw [tigerRead]
    refine ⟨fun w pn => exportLine_congr_plain o ho _ _ w pn rfl ?_ ?_ ?_, fun h => ?_⟩
    · simp only [fields, Option.getD_some]; exact (hk.2 rfl).symm
    · simp only [fields, Option.getD_some]
    · intro hx; rw [h4] at hx; cases hx
    · have := ((noEmpty_node f ks).1 hne).1
      cases ks with
      | nil => exact absurd rfl this
      | cons k ks => simp [kids] at h

/-- the content the TIGER reader delivers for a `VROOT`-rooted tree is written by the export writer as the tree itself -/
theorem writeExport_tigerReadTop (o : OutOpts) (ho : PlainOpts o) (h4 : o.exportFour = false) (sid : Nat) (x : Tree)
    (hwf : WF x = true) (hroot : x.fields.label = DEFAULT_ROOT) (hk : ∀ k ∈ x.kids, ∀ s ∈ subtrees k, TigerKeeps s) :
    WF (tigerReadTop x) = true ∧ writeExport o sid (tigerReadTop x) = writeExport o sid x := by
  cases x with
  | leaf n f => simp [WF, isLeaf] at hwf
  | node f ks =>
    have e : tigerReadTop (node f ks) = node { label := f.label, lemma := some DEFAULT_LEMMA, morph := some DEFAULT_MORPH, edge := some DEFAULT_EDGE } (ks.map tigerRead) := by
      unfold tigerReadTop
      simp only [fields] at hroot
      simp only [fields, hroot, bne_self_eq_false, Bool.false_eq_true, if_false, tigerRead, tigerReadL_eq, setFields]
    rw [e]
    refine writeExport_goodMap o sid tigerRead goodMap_tigerRead f _ ks _ (List.Perm.refl _) hwf ?_
    intro k hkk s hs
    exact lineEq_tigerRead o ho h4 s (noEmpty_of_mem_subtrees k (noEmpty_of_mem_kids f ks k (WF_noEmpty _ hwf) hkk) s hs) (hk k hkk s hs)

/-- ... hence every tree equal to it up to the order of children -/
theorem writeExport_of_tigerRead (o : OutOpts) (ho : PlainOpts o) (h4 : o.exportFour = false) (sid : Nat) (x r : Tree)
    (hwf : WF x = true) (hroot : x.fields.label = DEFAULT_ROOT) (hk : ∀ k ∈ x.kids, ∀ s ∈ subtrees k, TigerKeeps s)
    (hr : sameTree r (tigerReadTop x) = true) : WF r = true ∧ writeExport o sid r = writeExport o sid x := by
  obtain ⟨w1, e1⟩ := writeExport_tigerReadTop o ho h4 sid x hwf hroot hk
  have hs : sortKids r = sortKids (tigerReadTop x) := sortKids_eq_of_sameTree _ _ hr
  have w2 : WF r = true := WF_of_sortKids_eq hs w1
  refine ⟨w2, ?_⟩
  rw [← (writeExport_sortKids o sid r w2).2, hs, (writeExport_sortKids o sid _ w1).2, e1]

/-- the reader on one `<s>` element -/
theorem readTiger_one (sid : Nat) (x : Tree) (hwf : WF x = true) (hlen : x.leafNums.length < 500) :
    ∃ r, readTiger {} [xsentOf sid x] = .ok [(sid, r)] ∧ sameTree r (tigerReadTop x) = true ∧ WF r = true := by
  obtain ⟨rs, hl, h1, h2, h3⟩ := readTiger_xsents {} rfl rfl [(sid, x)] (by simp [hwf, hlen])
  match rs, hl with
  | [r], _ =>
    refine ⟨r, by simpa using h1, by simpa using h2, h3 r (by simp)⟩

/-- `tiger_to_export` (C03 row 2, TIGER-XML as the SOURCE of the command): the element structure of a `VROOT`-rooted sentence,
    converted by the command into export 3 (any options without label decoration), gives exactly the lines the export writer writes
    for the tree itself -/
theorem tiger_to_export_lines (o : OutOpts) (ho : PlainOpts o) (h4 : o.exportFour = false) (sid : Nat) (x : Tree) (ls : List Str)
    (hwf : WF x = true) (hlen : x.leafNums.length < 500) (hroot : x.fields.label = DEFAULT_ROOT)
    (hk : ∀ k ∈ x.kids, ∀ s ∈ subtrees k, TigerKeeps s) (h : writeExport o sid x = .ok ls) :
    runFrom [] .export o none (readTiger {} [xsentOf sid x]) = .ok (unlines ls) := by
  obtain ⟨r, h1, h2, _⟩ := readTiger_one sid x hwf hlen
  obtain ⟨_, e⟩ := writeExport_of_tigerRead o ho h4 sid x r hwf hroot hk h2
  rw [h1, runFrom_ok, transformAll_nil_steps]
  show writeAll .export o none [(sid, r)] = _
  rw [writeAll_plain _ _ _ _ (by decide)]
  unfold bodyText
  rw [List.mapM_cons, List.mapM_nil]
  simp [writeOne, e, h, bind, Except.bind, pure, Except.pure, Except.map, unlines]

/-- ... and the independent export decoder recovers from them the export content of the tree: the content statement of the pair
    TIGER-XML -> export -/
theorem tiger_to_export (o : OutOpts) (ho : PlainOpts o) (h4 : o.exportFour = false) (sid : Nat) (x : Tree)
    (hwf : WF x = true) (hlen : x.leafNums.length < 500) (hroot : x.fields.label = DEFAULT_ROOT)
    (hk : ∀ k ∈ x.kids, ∀ s ∈ subtrees k, TigerKeeps s) (hok : ExportOK o x = true) :
    ∃ ls, runFrom [] .export o none (readTiger {} [xsentOf sid x]) = .ok (unlines ls) ∧
      ∃ e, decExport o.exportFour ls = some e ∧ e.sid = sid ∧ sameTree e.tree (carryExportRoot o x) = true := by
  obtain ⟨ls, h⟩ := TT.Props.C02Export.writeExport_total o sid x hok
  obtain ⟨e, h1, h2, h3, _⟩ := TT.Props.C02Export.decExport_write' o sid x ls h hwf hok hlen
  exact ⟨ls, tiger_to_export_lines o ho h4 sid x ls hwf hlen hroot hk h, e, h1, h2, h3⟩

/-! ## 2. export -> TIGER-XML -> export -/

theorem goodMap_comp {g1 g2 : Tree → Tree} (h1 : GoodMap g1) (h2 : GoodMap g2) : GoodMap (fun x => g2 (g1 x)) where
  leaf n f := by
    obtain ⟨f', e⟩ := h1.leaf n f
    obtain ⟨f'', e'⟩ := h2.leaf n f'
    exact ⟨f'', by rw [e, e']⟩
  node f ks := by
    obtain ⟨f', ks', e, hp⟩ := h1.node f ks
    obtain ⟨f'', ks'', e', hp'⟩ := h2.node f' ks'
    refine ⟨f'', ks'', by rw [e, e'], hp'.trans ?_⟩
    have := hp.map g2
    rwa [List.map_map] at this

theorem goodMap_nf : GoodMap nf := goodMap_comp (g1 := stripW) (g2 := sortKids) goodMap_stripW goodMap_sortKids

theorem nf_fields (s : Tree) : (nf s).fields = if s.isLeaf then s.fields else { s.fields with word := none } := by
  cases s with
  | leaf n f => simp [nf, stripW_leaf, sortKids, fields, isLeaf]
  | node f ks => simp [nf, stripW_node, sortKids_node, fields, isLeaf]

theorem tigerKeeps_nf (s : Tree) : TigerKeeps (nf s) ↔ TigerKeeps s := by
  unfold TigerKeeps
  rw [goodMap_nf.isLeaf_eq, nf_fields]
  cases h : s.isLeaf <;> simp

/-- nothing TIGER-XML cannot hold, anywhere in the tree -/
def KeepsAll (x : Tree) : Prop := ∀ s ∈ subtrees x, TigerKeeps s

theorem keepsAll_of_nf_eq (x y : Tree) (h : nf y = nf x) (hx : KeepsAll x) : KeepsAll y := by
  intro s hs
  rw [← tigerKeeps_nf]
  have h1 : nf s ∈ subtrees (nf y) := (goodMap_nf.subtrees_perm y).mem_iff.2 (List.mem_map.2 ⟨s, hs, rfl⟩)
  rw [h] at h1
  obtain ⟨s', hs', e⟩ := List.mem_map.1 ((goodMap_nf.subtrees_perm x).mem_iff.1 h1)
  rw [← e, tigerKeeps_nf]
  exact hx s' hs'

theorem mem_subtrees_kid (f : Fields) (ks : List Tree) (k s : Tree) (hk : k ∈ ks) (hs : s ∈ subtrees k) :
    s ∈ subtrees (node f ks) := by
  rw [subtrees_node']
  exact List.mem_cons_of_mem _ (List.mem_flatMap.2 ⟨k, hk, hs⟩)

/-- the export content of a representable tree whose constituents (below the root) carry no morphology has nothing TIGER-XML cannot hold -/
theorem keepsAll_carryExportRoot (t : Tree) (hwf : WF t = true) (hok : ExportOK {} t = true)
    (hm : ∀ k ∈ t.kids, ∀ s ∈ subtrees k, s.isLeaf = false → s.fields.morph.getD DEFAULT_MORPH = DEFAULT_MORPH) :
    KeepsAll (carryExportRoot {} t) := by
  cases t with
  | leaf n f => simp [WF, isLeaf] at hwf
  | node f ks =>
    rw [carryExportRoot_node, carryExportL_eq]
    intro s hs
    rw [subtrees_node', List.mem_cons, List.mem_flatMap] at hs
    rcases hs with rfl | ⟨k', hk', hs⟩
    · exact ⟨fun h => by simp [isLeaf] at h, fun _ => rfl⟩
    · obtain ⟨k, hk, rfl⟩ := List.mem_map.1 hk'
      obtain ⟨s0, hs0, rfl⟩ := List.mem_map.1 (((goodMap_carryExport {}).subtrees_perm k).mem_iff.1 hs)
      have hmem : s0 ∈ subtrees (node f ks) := mem_subtrees_kid f ks k s0 hk hs0
      cases s0 with
      | leaf n g =>
        refine ⟨fun _ => ?_, fun h => by simp [carryExport, isLeaf] at h⟩
        have h1 : fieldOK (g.word.getD []) = true := by
          unfold ExportOK at hok
          simp only [Bool.and_eq_true, List.all_eq_true] at hok
          have := (hok.1.1 _ hmem).2
          simp only [isLeaf, fields, Bool.not_true, Bool.false_or, Bool.and_eq_true] at this
          exact this.1
        intro hw
        simp only [carryExport, fields] at hw
        rw [hw] at h1
        simp [fieldOK] at h1
      | node g cs =>
        refine ⟨fun h => by simp [carryExport, isLeaf] at h, fun _ => ?_⟩
        have := hm k hk _ hs0 rfl
        simpa [carryExport, fields] using this

theorem nf_label (x : Tree) : (nf x).fields.label = x.fields.label := by
  rw [nf_fields]; split <;> rfl

/-- `export_tiger_export_id` (C03 row 3, A -> B -> A with B ≠ A): a sentence written in the export format, read by the export
    reader (`r`), converted by the command into TIGER-XML (`writeTiger sid r`, whose element structure is `xsentOf sid r`, see
    `C01Readers.xsentOf_tables`), read by the TIGER-XML reader and converted by the command back into export, gives the
    original lines.  Beyond the hypotheses of `export_to_tiger`: no constituent below the root carries morphology (`hm`) —
    TIGER-XML has no place for it (counterexample below). -/
theorem export_tiger_export_id (o : OutOpts) (enc : Option Str) (sid : Nat) (t : Tree) (ls : List Str)
    (h : writeExport {} sid t = .ok ls) (hwf : WF t = true) (hok : ExportOK {} t = true) (hN : t.leafNums.length < 500)
    (hE : ∀ s ∈ t.subtrees, s.isLeaf = true → "#EOS".toList.isPrefixOf (s.fields.word.getD []) = false)
    (hm : ∀ k ∈ t.kids, ∀ s ∈ subtrees k, s.isLeaf = false → s.fields.morph.getD DEFAULT_MORPH = DEFAULT_MORPH) :
    ∃ r, readExport {} (unlines ls) = .ok [(sid, r)] ∧
      runFrom [] .tigerxml o enc (readExport {} (unlines ls)) = .ok (tigerFrame enc (unlines (writeTiger sid r))) ∧
      runFrom [] .export {} none (readTiger {} [xsentOf sid r]) = .ok (unlines ls) := by
  obtain ⟨r, hr, hnf⟩ := readExport_write_nf sid t ls h hwf hok hN hE
  obtain ⟨wc, ec⟩ := writeExport_carry_WF {} ⟨rfl, rfl, rfl, rfl⟩ sid t hwf
  obtain ⟨wr, er⟩ := writeExport_of_nf_eq {} sid _ r wc hnf
  have hlen : r.leafNums.length = t.leafNums.length := by
    have h1 := (goodMap_nf.leafNums_perm r).length_eq
    have h2 := (goodMap_nf.leafNums_perm (carryExportRoot {} t)).length_eq
    rw [← h1, hnf, h2]
    cases t with
    | leaf n f => simp [WF, isLeaf] at hwf
    | node f ks =>
      rw [carryExportRoot_node, leafNums_node, leafNums_node, carryExportL_eq, List.flatMap_map]
      exact congrArg List.length (TT.Lemmas.Write.flatMap_congr' _ _ ks (fun k _ => leafNums_carryExport {} k))
  have hroot : r.fields.label = DEFAULT_ROOT := by
    rw [← nf_label, hnf, nf_label]
    cases t with
    | leaf n f => simp [WF, isLeaf] at hwf
    | node f ks => rw [carryExportRoot_node]; rfl
  have hka : KeepsAll r := keepsAll_of_nf_eq _ r hnf (keepsAll_carryExportRoot t hwf hok hm)
  have hk : ∀ k ∈ r.kids, ∀ s ∈ subtrees k, TigerKeeps s := by
    intro k hk s hs
    cases r with
    | leaf n f => simp [kids] at hk
    | node f ks => exact hka s (mem_subtrees_kid f ks k s hk hs)
  refine ⟨r, hr, ?_, ?_⟩
  · unfold unlines
    rw [hr, runFrom_ok, transformAll_nil_steps]
    show writeAll .tigerxml o enc [(sid, r)] = _
    rw [writeAll_tiger]
    unfold bodyText
    rw [List.mapM_cons, List.mapM_nil]
    simp [writeOne, bind, Except.bind, pure, Except.pure]
  · exact tiger_to_export_lines {} ⟨rfl, rfl, rfl, rfl⟩ rfl sid r ls wr (by rw [hlen]; exact hN) hroot hk (by rw [er, ec, h])

/-! ## 3. TIGER-XML -> TIGER-XML -/

theorem carryTiger_tigerRead (x : Tree) : carryTiger (tigerRead x) = carryTiger x := by
  induction x using tree_ind with
  | hl n f => simp [tigerRead, carryTiger]
  | hn f ks ih =>
    rw [tigerRead, tigerReadL_eq, carryTiger, carryTiger, TT.Lemmas.TigerRT.carryTigerL_eq, TT.Lemmas.TigerRT.carryTigerL_eq, List.map_map]
    simp only [Option.getD_some]
    congr 1
    exact List.map_congr_left (fun k hk => ih k hk)

/-- the TIGER content of the reader's result on a `VROOT`-rooted tree is the TIGER content of the tree -/
theorem carryTigerRoot_tigerReadTop (x : Tree) (hl : x.isLeaf = false) (hroot : x.fields.label = DEFAULT_ROOT) :
    carryTigerRoot (tigerReadTop x) = carryTigerRoot x := by
  cases x with
  | leaf n f => cases hl
  | node f ks =>
    have e : tigerReadTop (node f ks) = node { label := f.label, lemma := some DEFAULT_LEMMA, morph := some DEFAULT_MORPH, edge := some DEFAULT_EDGE } (ks.map tigerRead) := by
      unfold tigerReadTop
      simp only [fields] at hroot
      simp only [fields, hroot, bne_self_eq_false, Bool.false_eq_true, if_false, tigerRead, tigerReadL_eq, setFields]
    rw [e]
    simp only [carryTigerRoot, carryTiger, TT.Lemmas.TigerRT.carryTigerL_eq, List.map_map]
    congr 1
    exact List.map_congr_left (fun k _ => carryTiger_tigerRead k)

/-- `tiger_tiger_id` (C03 row 3), content form: the sentence the TIGER-XML reader delivers for the element structure of a
    `VROOT`-rooted tree is written by the TIGER-XML writer as lines from which the independent decoder recovers exactly the
    TIGER content of the tree itself - the same content as from `writeTiger sid t` (`C02Disco.decTiger_write_root`).
    FALSE without the root condition (the reader adds a `VROOT`), example below. -/
theorem tiger_tiger_id (sid : Nat) (t : Tree) (hwf : WF t = true) (hlen : t.leafNums.length < 500)
    (hroot : t.fields.label = DEFAULT_ROOT) :
    ∃ r, readTiger {} [xsentOf sid t] = .ok [(sid, r)] ∧
      runFrom [] .tigerxml {} none (readTiger {} [xsentOf sid t]) = .ok (tigerFrame none (unlines (writeTiger sid r))) ∧
      ∃ s, decTiger (writeTiger sid r) = some s ∧ strToNat? s.sid = some sid ∧ sameTree s.tree (carryTigerRoot t) = true := by
  obtain ⟨r, h1, h2, h3⟩ := readTiger_one sid t hwf hlen
  have hs : sortKids r = sortKids (tigerReadTop t) := sortKids_eq_of_sameTree _ _ h2
  have hlen' : r.leafNums.length = t.leafNums.length := by
    have a := (goodMap_sortKids.leafNums_perm r).length_eq
    have b := (goodMap_sortKids.leafNums_perm (tigerReadTop t)).length_eq
    rw [hs] at a
    rw [← a, b]
    cases t with
    | leaf n f => simp [WF, isLeaf] at hwf
    | node f ks =>
      have e : tigerReadTop (node f ks) = node { label := f.label, lemma := some DEFAULT_LEMMA, morph := some DEFAULT_MORPH, edge := some DEFAULT_EDGE } (ks.map tigerRead) := by
        unfold tigerReadTop
        simp only [fields] at hroot
        simp only [fields, hroot, bne_self_eq_false, Bool.false_eq_true, if_false, tigerRead, tigerReadL_eq, setFields]
      rw [e, leafNums_node, leafNums_node, List.flatMap_map]
      exact (TT.Lemmas.Nav.perm_flatMap_of_forall _ _ ks (fun k _ => goodMap_tigerRead.leafNums_perm k)).length_eq
  obtain ⟨s, hs1, hs2, hs3⟩ := TT.Props.C02Disco.decTiger_write_root sid r h3 (by rw [hlen']; exact hlen)
  refine ⟨r, h1, ?_, s, hs1, hs2, ?_⟩
  · rw [h1, runFrom_ok, transformAll_nil_steps]
    show writeAll .tigerxml {} none [(sid, r)] = _
    rw [writeAll_tiger]
    unfold bodyText
    rw [List.mapM_cons, List.mapM_nil]
    simp [writeOne, bind, Except.bind, pure, Except.pure, unlines]
  · unfold sameTree at hs3 ⊢
    rw [eq_of_beq _ _ hs3, ← carryTigerRoot_tigerReadTop t (WF_isLeaf t hwf) hroot,
      ct_carryTigerRoot_eq r (WF_isLeaf r h3), ct_carryTigerRoot_eq _ (WF_isLeaf _ (WF_tigerReadTop t hwf)),
      ct_sortKids_setFields, ct_sortKids_setFields, ct_sortKids_carryTiger, ct_sortKids_carryTiger, hs]
    exact TT.Lemmas.Write.beq_refl _

/-! ### concrete instances -/

/-- `exX` (C03Total): discontinuous, non-default edges, token morphology, XML-special characters, children stored out of order -/
example : ∃ r, readExport {} (unlines exXLines) = .ok [(4, r)] ∧
    runFrom [] .tigerxml {} none (readExport {} (unlines exXLines)) = .ok (tigerFrame none (unlines (writeTiger 4 r))) ∧
    runFrom [] .export {} none (readTiger {} [xsentOf 4 r]) = .ok (unlines exXLines) :=
  export_tiger_export_id {} none 4 exX exXLines (by decide +kernel) (by decide +kernel) (by decide +kernel) (by decide +kernel)
    (by decide +kernel) (by decide +kernel)

/-- `hm` cannot be dropped: a constituent with a morphology column comes back with `--` -/
def exM : Tree := node { label := "S".toList }
  [leaf 1 { label := "B".toList, word := some "b".toList },
   node { label := "VP".toList, morph := some "Pl".toList } [leaf 2 { label := "C".toList, word := some "c".toList }]]
def exMLines : List Str := ["#BOS 4".toList, "b\t\t\tB\t--\t\t--\t0".toList, "c\t\t\tC\t--\t\t--\t500".toList,
  "#500\t\t\tVP\tPl\t\t--\t0".toList, "#EOS 4".toList]
def exMBack : List Str := ["#BOS 4".toList, "b\t\t\tB\t--\t\t--\t0".toList, "c\t\t\tC\t--\t\t--\t500".toList,
  "#500\t\t\tVP\t--\t\t--\t0".toList, "#EOS 4".toList]
example : writeExport {} 4 exM = .ok exMLines ∧ WF exM = true ∧ ExportOK {} exM = true ∧
    ((readExport {} (unlines exMLines)).toOption.bind fun rs => rs.head?.bind fun sr =>
      (runFrom [] .export {} none (readTiger {} [xsentOf sr.1 sr.2])).toOption) = some (unlines exMBack) := by decide +kernel

/-- TIGER-XML as the source: a `VROOT`-rooted sentence -/
def exV : Tree := node { label := "VROOT".toList, edge := some "XX".toList }
  [leaf 2 { label := "B".toList, word := some "b<&".toList, edge := some "HD".toList, morph := some "3.Sg".toList },
   node { label := "VP".toList, edge := some "OC".toList } [leaf 3 { label := "C".toList, word := some "c".toList, «lemma» := some "cc".toList },
     leaf 1 { label := "A".toList, word := some "a".toList }]]

example : ∃ ls, runFrom [] .export {} none (readTiger {} [xsentOf 7 exV]) = .ok (unlines ls) ∧
    ∃ e, decExport false ls = some e ∧ e.sid = 7 ∧ sameTree e.tree (carryExportRoot {} exV) = true :=
  tiger_to_export {} ⟨rfl, rfl, rfl, rfl⟩ rfl 7 exV (by decide +kernel) (by decide +kernel) (by decide +kernel) (by decide +kernel)
    (by decide +kernel)

example : ∃ r, readTiger {} [xsentOf 7 exV] = .ok [(7, r)] ∧
    runFrom [] .tigerxml {} none (readTiger {} [xsentOf 7 exV]) = .ok (tigerFrame none (unlines (writeTiger 7 r))) ∧
    ∃ s, decTiger (writeTiger 7 r) = some s ∧ strToNat? s.sid = some 7 ∧ sameTree s.tree (carryTigerRoot exV) = true :=
  tiger_tiger_id 7 exV (by decide +kernel) (by decide +kernel) (by decide +kernel)

/-- without the root condition the content is NOT that of the tree (the reader puts a `VROOT` above), and the export lines
    differ (the old root becomes constituent `#501`...) -/
example : ((tigerSentence {} (xsentOf 4 exX)).toOption.map fun r =>
    (sameTree (carryTigerRoot r) (carryTigerRoot exX), (writeExport {} 4 r).toOption == (writeExport {} 4 exX).toOption)) = some (false, false) := by
  decide +kernel

end TT.Props.C03Chain

