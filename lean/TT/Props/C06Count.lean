/-
  C06Count - the extracted grammar and lexicon, entry by entry (worklist C06 of the clause audit, wave 12).
  T6.1 every grammar entry counts the constituents with this rule and this vertical context (model side: no hypothesis;
       specification side: `noEmpty`); T6.2 every lexicon entry counts the tokens with this word and tag;
  T6.3 rule counts per left-hand label are node counts per label (= the harness predicate `nodeMassOK`, no hypothesis);
  T6.4 the right-hand side is ordered by smallest token number; the vertical label is label + number of blocks;
  and the harness predicate `extractOK` itself as a theorem about `extractAll` (with the uniqueness of the linearization that
  reconstructs a constituent's blocks).
  Helpers: `TT/Lemmas/More12a.lean`.
-/
import TT.Lemmas.More12a
import TT.Lemmas.Unbin
import TT.Props.C06More
import TT.Props.C08More
import TT.Props.C16More
namespace TT.Props.C06Count
open TT TT.Tree TT.Spec TT.Lemmas.Extract TT.Lemmas.More8 TT.Lemmas.GramBin TT.Lemmas.More12a

/-! ### T6.1: every entry of the extracted grammar counts the constituents that have this rule and this vertical context -/

/-- model side; no hypothesis on the trees at all -/
theorem extractAll_gramCount (ts : List Tree) (f : Func) (l : Lin) (v : List Str) :
    gramCount (extractAll ts).1 f l (.ctx v) =
      ((ts.flatMap (consWithCtx [])).filter fun (s, path) =>
        funcOf s == f && linOf s == l && path.map vertLabel == v).length :=
  extractAll_gramCount_ctx ts f l v

/-- extraction never writes the default vertical key -/
theorem extractAll_gramCount_default (ts : List Tree) (f : Func) (l : Lin) :
    gramCount (extractAll ts).1 f l .default = 0 :=
  TT.Lemmas.More12a.extractAll_gramCount_default ts f l

/-- the same against the specification's function (children ordered by smallest token number, no sorting of tokens)
    and the specification's vertical context (label and number of blocks of every ancestor) -/
theorem extractAll_gramCount_spec (ts : List Tree) (h : ∀ t ∈ ts, t.noEmpty = true) (f : Func) (l : Lin) (v : List Str) :
    gramCount (extractAll ts).1 f l (.ctx v) =
      ((ts.flatMap (consWithCtx [])).filter fun (s, path) =>
        specFunc s == f && linOf s == l && specVert path == v).length := by
  rw [extractAll_gramCount]
  congr 1
  apply List.filter_congr
  rintro ⟨s, path⟩ hp
  obtain ⟨t, ht, hpt⟩ := List.mem_flatMap.1 hp
  have := consWithCtx_specVert t (h t ht) _ hpt
  simp only at this
  show (funcOf s == f && linOf s == l && path.map vertLabel == v) = (specFunc s == f && linOf s == l && specVert path == v)
  rw [funcOf_eq_specFunc, this]

/-- the root rule of `exT` occurs twice in `[exT, exT]`, the VP rule under `VP2 S2` twice, under `S2` alone never -/
example : ∀ t ∈ [C06.exT, C06.exT], t.noEmpty = true := by decide
example : gramCount (extractAll [C06.exT, C06.exT]).1 C06.exF C06.exL (.ctx ["S2".toList]) = 2 := by decide
example : ((([C06.exT, C06.exT] : List Tree).flatMap (consWithCtx [])).filter fun (s, path) =>
    specFunc s == C06.exF && linOf s == C06.exL && specVert path == ["S2".toList]).length = 2 := by decide
example : gramCount (extractAll [C06.exT, C06.exT]).1 ["VP".toList, "V".toList, "N".toList, "ADV".toList]
      [[(0, 0)], [(1, 0), (2, 0)]] (.ctx ["VP2".toList, "S2".toList]) = 2 ∧
    gramCount (extractAll [C06.exT, C06.exT]).1 ["VP".toList, "V".toList, "N".toList, "ADV".toList]
      [[(0, 0)], [(1, 0), (2, 0)]] (.ctx ["S2".toList]) = 0 := by decide

/-- `noEmpty` cannot be dropped from the specification form: a constituent over no token at all has vertical label
    `X1` in the model (gap degree 0, plus 1) and `X0` in the specification (no block) -/
def cexNoTok : Tree := node { label := "X".toList } [node { label := "Y".toList } []]
example : cexNoTok.noEmpty = false ∧
    gramCount (extractAll [cexNoTok]).1 ["X".toList, "Y".toList] [] (.ctx ["X1".toList]) = 1 ∧
    (([cexNoTok].flatMap (consWithCtx [])).filter fun (s, path) =>
      specFunc s == ["X".toList, "Y".toList] && linOf s == [] && specVert path == ["X1".toList]).length = 0 := by decide

/-- clause "exactly one rule occurrence per constituent", entry by entry: the entry of a constituent is there -/
theorem constituent_has_entry (ts : List Tree) (t : Tree) (ht : t ∈ ts) (s : Tree) (path : List Tree)
    (hs : (s, path) ∈ consWithCtx [] t) :
    0 < gramCount (extractAll ts).1 (funcOf s) (linOf s) (.ctx (path.map vertLabel)) := by
  rw [extractAll_gramCount]
  apply List.length_pos_of_mem (a := (s, path))
  exact List.mem_filter.2 ⟨List.mem_flatMap.2 ⟨t, ht, hs⟩, by simp⟩

/-- ... and every entry with a positive count is the rule of some constituent, which it reconstructs -/
theorem entry_observed (ts : List Tree) (hn : ∀ t ∈ ts, t.leafNums.Nodup) (f : Func) (l : Lin) (v : VertKey)
    (hc : 0 < gramCount (extractAll ts).1 f l v) :
    ∃ t ∈ ts, ∃ p ∈ consWithCtx [] t, funcOf p.1 = f ∧ linOf p.1 = l ∧ VertKey.ctx (p.2.map vertLabel) = v ∧
      nodeRuleOK p.1 l = true := by
  cases v with
  | default => rw [extractAll_gramCount_default] at hc; exact absurd hc (by decide)
  | ctx v =>
    rw [extractAll_gramCount] at hc
    obtain ⟨⟨s, path⟩, hm⟩ := List.exists_mem_of_length_pos hc
    obtain ⟨hm, hq⟩ := List.mem_filter.1 hm
    obtain ⟨t, ht, hpt⟩ := List.mem_flatMap.1 hm
    simp only [Bool.and_eq_true, beq_iff_eq] at hq
    obtain ⟨⟨h1, h2⟩, h3⟩ := hq
    refine ⟨t, ht, (s, path), hpt, h1, h2, by rw [h3], ?_⟩
    have hsub : s ∈ (consWithCtx [] t).map (·.1) := List.mem_map.2 ⟨(s, path), hpt, rfl⟩
    rw [consWithCtx_fst] at hsub
    obtain ⟨hsub, hk⟩ := List.mem_filter.1 hsub
    have hl : s.isLeaf = false := by
      cases s with
      | leaf n f => simp [kids] at hk
      | node f ks => rfl
    rw [← h2]
    exact TT.Props.C06.linOf_reconstructs_subtrees t (hn t ht) s hsub hl

/-! ### T6.2: every entry of the extracted lexicon counts the tokens with this word and this tag -/

theorem extractAll_lexCount (ts : List Tree) (h : ∀ t ∈ ts, t.noEmpty = true) (w t : Str) :
    lexCount (extractAll ts).2 w t =
      ((ts.flatMap leaves).filter fun m => m.fields.word.getD [] == w && m.fields.label == t).length := by
  rw [extractAll_lexCount_nodes]
  congr 2
  rw [List.flatMap_def, List.flatMap_def, List.map_congr_left fun k hk => lexNodes_of_noEmpty k (h k hk)]

/-- `it/N` twice per tree, `it/ADV` never -/
example : lexCount (extractAll [C06.exT, C06.exT]).2 "it".toList "N".toList = 4 ∧
    ((([C06.exT, C06.exT] : List Tree).flatMap leaves).filter fun m =>
      m.fields.word.getD [] == "it".toList && m.fields.label == "N".toList).length = 4 ∧
    lexCount (extractAll [C06.exT, C06.exT]).2 "it".toList "ADV".toList = 0 := by decide

/-- `noEmpty` cannot be dropped: a childless constituent is entered into the lexicon (with the empty word) although it
    is no token -/
example : (node { label := "X".toList } [] : Tree).noEmpty = false ∧
    lexCount (extractAll [node { label := "X".toList } []]).2 [] "X".toList = 1 ∧
    (([node { label := "X".toList } []] : List Tree).flatMap leaves) = [] := by decide

/-! ### T6.3: rule counts summed per left-hand label are node counts per label -/

/-- no hypothesis: constituents are the nodes that have children -/
theorem extractAll_lhsMass' (ts : List Tree) (x : Str) :
    lhsMass (extractAll ts).1 x =
      (ts.map fun t => (t.subtrees.filter fun s => !s.kids.isEmpty && s.fields.label == x).length).sum := by
  rw [extractAll_measure' (fun st => lhsMass st.1 x) (lhsHit x)
    (fun st e => by cases e <;> simp [applyEvent, lhsHit, lhsMass_add]) ts]
  have h0 : lhsMass ([] : Grammar) x = 0 := by simp [lhsMass, Grammar.rules]
  simp only [h0, Nat.zero_add, lexEv, lhsHit, sum_zero, Nat.add_zero, ruleEv, funcOf, List.head?_cons,
    Option.some.injEq]
  rw [sum_flatMap_nat]
  congr 1
  apply List.map_congr_left
  intro t _
  have h1 : ((consWithCtx [] t).map fun p => if p.1.fields.label = x then 1 else 0) =
      ((consWithCtx [] t).map (·.1)).map fun s => if (s.fields.label == x) = true then 1 else 0 := by
    simp [List.map_map, Function.comp_def]
  rw [h1, consWithCtx_fst, sum_ite_eq_length_filter, List.filter_filter]
  congr 2
  funext s
  exact Bool.and_comm _ _

theorem extractAll_lhsMass (ts : List Tree) (h : ∀ t ∈ ts, t.noEmpty = true) (x : Str) :
    lhsMass (extractAll ts).1 x =
      (ts.map fun t => (t.subtrees.filter fun s => !s.isLeaf && s.fields.label == x).length).sum := by
  rw [extractAll_lhsMass']
  congr 1
  apply List.map_congr_left
  intro t ht
  have hf : ∀ (a : Tree → Bool), (t.subtrees.filter fun s => a s && s.fields.label == x) =
      (t.subtrees.filter a).filter fun s => s.fields.label == x := by
    intro a; rw [List.filter_filter]; congr 1; funext s; exact Bool.and_comm _ _
  rw [hf, hf, filter_kids_eq_isLeaf t (h t ht)]

/-- the predicate `nodeMassOK` of the harness holds of every extracted grammar (no hypothesis) -/
theorem nodeMassOK_extractAll (ts : List Tree) : nodeMassOK ts (extractAll ts).1 = true := by
  unfold nodeMassOK
  simp only [List.all_eq_true, beq_iff_eq]
  intro x _
  rw [extractAll_lhsMass', List.count_flatMap]
  congr 1
  apply List.map_congr_left
  intro t _
  simp only [Function.comp_def]
  rw [List.count_eq_countP, List.countP_map, List.countP_eq_length_filter, List.filter_filter]
  congr 2
  funext s
  simp [Bool.and_comm]

example : lhsMass (extractAll [C06.exT, C06.exT]).1 "VP".toList = 2 ∧
    (([C06.exT, C06.exT] : List Tree).map fun t =>
      (t.subtrees.filter fun s => !s.isLeaf && s.fields.label == "VP".toList).length).sum = 2 := by decide

/-! ### T6.4 and the vertical label -/

/-- the right-hand side of a rule lists the children's labels in the order of their smallest token number:
    `children` is a rearrangement of the stored children that is sorted by `minLeaf` -/
theorem funcOf_ordered (t : Tree) :
    funcOf t = t.fields.label :: (children t).map (·.fields.label) ∧
    (children t).Perm t.kids ∧ (children t).Pairwise (fun a b => minLeaf a ≤ minLeaf b) := by
  refine ⟨rfl, sortBy_perm _ _, ?_⟩
  have := sortBy_sorted leftmost t.kids
  unfold children
  refine this.imp ?_
  intro a b hab
  rwa [TT.Lemmas.Nav.leftmost_eq_minLeaf, TT.Lemmas.Nav.leftmost_eq_minLeaf] at hab

example : (children C06.exT).map minLeaf = [1, 2, 6] ∧ C06.exT.kids.map minLeaf = [1, 2, 6] ∧
    (children C06.exT.kids[0]!).map minLeaf = [1, 3, 4] ∧ C06.exT.kids[0]!.kids.map minLeaf = [1, 4, 3] := by decide

/-- the model's vertical label (gap degree + 1) is the specification's (number of blocks) -/
theorem vertLabel_eq (s : Tree) (h : s.leafNums ≠ []) :
    vertLabel s = s.fields.label ++ natToStr s.blocks.length :=
  TT.Lemmas.More12a.vertLabel_eq s h

example : C06.exT.leafNums ≠ [] ∧ vertLabel C06.exT = "S2".toList ∧ C06.exT.blocks.length = 2 := by decide
example : cexNoTok.leafNums = [] ∧ vertLabel cexNoTok = "X1".toList ∧ cexNoTok.blocks.length = 0 := by decide

/-! ### the predicate `extractOK` of the harness as a theorem about `extractAll` -/

/-- the constituents listed by `consWithCtx` are constituents of the tree: subtrees with children -/
theorem cons_is_node (t : Tree) (p : Tree × List Tree) (hp : p ∈ consWithCtx [] t) :
    p.1 ∈ t.subtrees ∧ ∃ f ks, p.1 = node f ks := by
  have hsub : p.1 ∈ (consWithCtx [] t).map (·.1) := List.mem_map.2 ⟨p, hp, rfl⟩
  rw [consWithCtx_fst] at hsub
  obtain ⟨hsub, hk⟩ := List.mem_filter.1 hsub
  refine ⟨hsub, ?_⟩
  cases hs : p.1 with
  | leaf n f => rw [hs] at hk; simp [kids] at hk
  | node f ks => exact ⟨f, ks, rfl⟩

theorem cons_nodup (t : Tree) (hn : t.leafNums.Nodup) (p : Tree × List Tree) (hp : p ∈ consWithCtx [] t) :
    p.1.leafNums.Nodup := by
  have := (cons_is_node t p hp).1
  clear hp
  induction t using TT.Lemmas.WF.tree_ind with
  | hl n f => simp only [subtrees, List.mem_singleton] at this; rw [this]; exact hn
  | hn f ks ih =>
    rcases (TT.Lemmas.WF.mem_subtrees_node f ks p.1).1 this with h | ⟨k, hk, hsk⟩
    · rw [h]; exact hn
    · exact ih k hk ((TT.Lemmas.WF.leafNums_sublist_of_mem f ks k hk).nodup hn) hsk

/-- for a constituent of a tree with pairwise distinct token numbers: the linearizations that reconstruct its blocks are
    exactly the extracted one -/
theorem nodeRuleOK_iff (t : Tree) (hn : t.leafNums.Nodup) (p : Tree × List Tree) (hp : p ∈ consWithCtx [] t) (l : Lin) :
    nodeRuleOK p.1 l = true ↔ linOf p.1 = l := by
  obtain ⟨_, f, ks, hs⟩ := cons_is_node t p hp
  have hnd := cons_nodup t hn p hp
  rw [hs] at hnd ⊢
  constructor
  · intro h; exact (nodeRuleOK_unique f ks hnd l h).symm
  · rintro rfl; exact nodeRuleOK_linOf f ks hnd

/-- the three dictionary levels of an extracted grammar have pairwise distinct keys -/
theorem extractAll_GN (ts : List Tree) : TT.Lemmas.Unbin.GN (extractAll ts).1 := by
  unfold extractAll
  apply foldl_inv (fun acc : Grammar × Lexicon => TT.Lemmas.Unbin.GN acc.1)
  · intro acc t _ hacc
    unfold extract
    apply foldl_inv (fun acc : Grammar × Lexicon => TT.Lemmas.Unbin.GN acc.1) applyEvent (events [] t) ?_ acc hacc
    intro acc e _ hacc
    cases e with
    | rule f l v => exact TT.Lemmas.Unbin.GN_add _ _ _ _ _ hacc
    | lex w t => exact hacc
  · exact TT.Lemmas.Unbin.GN_nil

theorem extractAll_vert_nodup (ts : List Tree) : ∀ p ∈ (extractAll ts).1, ∀ q ∈ p.2, (q.2.map (·.1)).Nodup := by
  apply extractAll_all (fun _ _ vs => (vs.map (·.1)).Nodup) ts
  intro t _ p _ vs hvs
  apply TT.Lemmas.Unbin.upsert_keys_nodup
  rcases hvs with rfl | h
  · simp
  · exact h

/-- an entry listed by `Grammar.entries` is the entry found by look-up -/
theorem entries_gramCount (ts : List Tree) (f : Func) (l : Lin) (v : VertKey) (c : Nat)
    (he : (f, l, v, c) ∈ (extractAll ts).1.entries) : gramCount (extractAll ts).1 f l v = c := by
  simp only [Grammar.entries, List.mem_flatMap, List.mem_map] at he
  obtain ⟨⟨f', ls⟩, hp, ⟨l', vs⟩, hq, ⟨v', c'⟩, hr, he⟩ := he
  simp only [Prod.mk.injEq] at he
  obtain ⟨rfl, rfl, rfl, rfl⟩ := he
  have hG := extractAll_GN ts
  have h1 := get?_of_mem_nodup _ hG.1 _ _ hp
  have h2 := get?_of_mem_nodup _ (hG.2 _ hp) _ _ hq
  have h3 := get?_of_mem_nodup _ (extractAll_vert_nodup ts _ hp _ hq) _ _ hr
  unfold gramCount
  simp only at h1 h2 h3
  rw [h1, Option.bind_some, h2, Option.bind_some, h3, Option.getD_some]

theorem length_flatMap_sum {α β} (l : List α) (f : α → List β) : (l.flatMap f).length = (l.map fun a => (f a).length).sum := by
  rw [List.length_flatMap]

/-- the whole predicate.  `h`, `hn` are well-formedness; `hw` says that every token carries a word (the model files a
    token without word under the empty word, the predicate keeps "no word" and "empty word" apart) -/
theorem extractOK_extractAll (ts : List Tree) (h : ∀ t ∈ ts, t.noEmpty = true) (hn : ∀ t ∈ ts, t.leafNums.Nodup)
    (hw : ∀ t ∈ ts, ∀ m ∈ t.leaves, m.fields.word ≠ none) :
    extractOK ts (extractAll ts).1 (extractAll ts).2 = none := by
  -- clause 1
  have c1 : ((ts.flatMap (consWithCtx [])).all fun (s, path) => match AList.get? (specFunc s) (extractAll ts).1 with
        | some ls => ls.any fun (l, vs) => nodeRuleOK s l && (AList.get? (VertKey.ctx (specVert path)) vs).isSome
        | none => false) = true := by
    rw [List.all_eq_true]
    rintro ⟨s, path⟩ hp
    obtain ⟨t, ht, hpt⟩ := List.mem_flatMap.1 hp
    have hpos := constituent_has_entry ts t ht s path hpt
    have hv := consWithCtx_specVert t (h t ht) _ hpt
    simp only at hv
    rw [funcOf_eq_specFunc, hv] at hpos
    unfold gramCount at hpos
    simp only
    cases h1 : AList.get? (specFunc s) (extractAll ts).1 with
    | none => simp [h1] at hpos
    | some ls =>
      cases h2 : AList.get? (linOf s) ls with
      | none => simp [h1, h2] at hpos
      | some vs =>
        cases h3 : AList.get? (VertKey.ctx (specVert path)) vs with
        | none => simp [h1, h2, h3] at hpos
        | some c =>
          simp only [List.any_eq_true, Bool.and_eq_true]
          exact ⟨(linOf s, vs), mem_of_get? _ _ _ h2, (nodeRuleOK_iff t (hn t ht) (s, path) hpt _).2 rfl, by simp [h3]⟩
  -- clause 2
  have c2 : ((extractAll ts).1.all fun (f, ls) => ls.all fun (l, _) =>
      (ts.flatMap (consWithCtx [])).any fun (s, _) => specFunc s == f && nodeRuleOK s l) = true := by
    rw [List.all_eq_true]
    rintro ⟨f, ls⟩ hp
    rw [List.all_eq_true]
    rintro ⟨l, vs⟩ hq
    have := extractAll_all (fun f l _ => ∃ t ∈ ts, ∃ p ∈ consWithCtx [] t, funcOf p.1 = f ∧ linOf p.1 = l) ts
      (fun t ht p hp _ _ => ⟨t, ht, p, hp, rfl, rfl⟩) _ hp _ hq
    obtain ⟨t, ht, p, hpt, h1, h2⟩ := this
    simp only [List.any_eq_true, Bool.and_eq_true, beq_iff_eq]
    refine ⟨p, List.mem_flatMap.2 ⟨t, ht, hpt⟩, ?_, ?_⟩
    · rw [← funcOf_eq_specFunc]; exact h1
    · exact (nodeRuleOK_iff t (hn t ht) p hpt _).2 h2
  -- clause 3
  have c3 : ((extractAll ts).1.entries.all fun (f, l, v, c) =>
      c == ((ts.flatMap (consWithCtx [])).filter fun (s, path) =>
        specFunc s == f && VertKey.ctx (specVert path) == v && nodeRuleOK s l).length) = true := by
    rw [List.all_eq_true]
    rintro ⟨f, l, v, c⟩ he
    simp only [beq_iff_eq]
    rw [← entries_gramCount ts f l v c he]
    cases v with
    | default =>
      rw [extractAll_gramCount_default]
      symm
      rw [List.length_eq_zero_iff, List.filter_eq_nil_iff]
      rintro ⟨s, path⟩ _
      simp
    | ctx v =>
      rw [extractAll_gramCount_spec ts h]
      congr 1
      apply List.filter_congr
      rintro ⟨s, path⟩ hp
      obtain ⟨t, ht, hpt⟩ := List.mem_flatMap.1 hp
      have hiff := nodeRuleOK_iff t (hn t ht) (s, path) hpt l
      simp only at hiff
      rw [Bool.eq_iff_iff]
      simp only [Bool.and_eq_true, beq_iff_eq, hiff, VertKey.ctx.injEq]
      constructor
      · rintro ⟨⟨a, b⟩, c⟩; exact ⟨⟨a, c⟩, b⟩
      · rintro ⟨⟨a, c⟩, b⟩; exact ⟨⟨a, b⟩, c⟩
  -- clause 4
  obtain ⟨t1, t2⟩ := TT.Props.C06.extractAll_total ts h
  have c4 : ((extractAll ts).1.entries.map fun (_, _, _, c) => c).sum = (ts.flatMap (consWithCtx [])).length := by
    have : ((extractAll ts).1.entries.map fun (_, _, _, c) => c).sum = Grammar.total (extractAll ts).1 := rfl
    rw [this, t1, List.length_flatMap]
    congr 1
    apply List.map_congr_left
    intro t ht
    rw [← filter_kids_eq_isLeaf t (h t ht), ← consWithCtx_fst t [], List.length_map]
  -- clause 5
  have c5 : ((ts.flatMap fun t => t.leaves).all fun l =>
      lexCount (extractAll ts).2 (l.fields.word.getD []) l.fields.label ==
        ((ts.flatMap fun t => t.leaves).filter fun m =>
          m.fields.word == l.fields.word && m.fields.label == l.fields.label).length) = true := by
    rw [List.all_eq_true]
    intro x hx
    simp only [beq_iff_eq]
    rw [extractAll_lexCount ts h]
    congr 1
    apply List.filter_congr
    intro m hm
    obtain ⟨t, ht, hxt⟩ := List.mem_flatMap.1 hx
    obtain ⟨t', ht', hmt⟩ := List.mem_flatMap.1 hm
    have h1 := hw t ht x hxt
    have h2 := hw t' ht' m hmt
    cases hxw : x.fields.word with
    | none => exact absurd hxw h1
    | some a =>
      cases hmw : m.fields.word with
      | none => exact absurd hmw h2
      | some b => simp
  -- clause 6
  have c6 : ((extractAll ts).2.flatMap fun (_, tags) => tags.map (·.2)).sum = (ts.flatMap fun t => t.leaves).length := by
    have : ((extractAll ts).2.flatMap fun (_, tags) => tags.map (·.2)).sum = Lexicon.total (extractAll ts).2 := rfl
    rw [this, t2, List.length_flatMap]
    congr 1
    apply List.map_congr_left
    intro t _
    simp [leafNums]
  -- clause 7
  have c7 := TT.Props.C16More.extractAll_cf ts
  unfold extractOK
  simp only []
  rw [if_neg (by have := c1; simp at this ⊢; exact this), if_neg (by simpa using c2), if_neg (by simpa using c3), if_neg (by simpa using c4),
    if_neg (by simpa using c5), if_neg (by simpa using c6), if_neg (by simpa using c7)]

/-- in particular for well-formed sentence trees whose tokens carry words -/
theorem extractOK_extractAll_WF (ts : List Tree) (h : ∀ t ∈ ts, WF t = true)
    (hw : ∀ t ∈ ts, ∀ m ∈ t.leaves, m.fields.word ≠ none) :
    extractOK ts (extractAll ts).1 (extractAll ts).2 = none :=
  extractOK_extractAll ts (fun t ht => TT.Lemmas.WF.WF_noEmpty t (h t ht))
    (fun t ht => TT.Lemmas.WF.WF_nodup t (h t ht)) hw

/-- the hypotheses are met by the discontinuous example tree (twice) and by the treebank of `C08More` (which contains a
    bare token as a tree) -/
example : (∀ t ∈ [C08More.exA, C08More.exB, C08More.exA], WF t = true) ∧
    ∀ t ∈ [C08More.exA, C08More.exB, C08More.exA], ∀ m ∈ t.leaves, m.fields.word ≠ none := by decide
example : (∀ t ∈ C08More.exTs, t.noEmpty = true) ∧ (∀ t ∈ C08More.exTs, t.leafNums.Nodup) ∧
    ∀ t ∈ C08More.exTs, ∀ m ∈ t.leaves, m.fields.word ≠ none := by decide
example : extractOK C08More.exTs (extractAll C08More.exTs).1 (extractAll C08More.exTs).2 = none :=
  extractOK_extractAll _ (by decide) (by decide) (by decide)

/-- `hw` cannot be dropped: a token without word and a token with the empty word under the same tag are one lexicon
    entry of the model (count 2) and two kinds of token for the predicate -/
def cexWord : Tree :=
  node { label := "S".toList } [leaf 1 { label := "X".toList, word := none }, leaf 2 { label := "X".toList, word := some [] }]
example : WF cexWord = true ∧
    extractOK [cexWord] (extractAll [cexWord]).1 (extractAll [cexWord]).2 = some "lexicon-count" := by decide
/-- `hn` cannot be dropped: with a token number used twice the extracted linearization does not reconstruct the blocks -/
def cexDup : Tree :=
  node { label := "S".toList }
    [leaf 1 { label := "X".toList, word := some "a".toList }, leaf 1 { label := "X".toList, word := some "b".toList }]
example : cexDup.noEmpty = true ∧ (∀ m ∈ cexDup.leaves, m.fields.word ≠ none) ∧
    extractOK [cexDup] (extractAll [cexDup]).1 (extractAll [cexDup]).2 = some "constituent-without-matching-rule" := by
  decide
/-- `h` cannot be dropped: a childless constituent is entered into the lexicon -/
def cexChildless : Tree :=
  node { label := "S".toList } [leaf 1 { label := "X".toList, word := some "a".toList }, node { label := "Y".toList } []]
example : cexChildless.leafNums.Nodup ∧ (∀ m ∈ cexChildless.leaves, m.fields.word ≠ none) ∧
    extractOK [cexChildless] (extractAll [cexChildless]).1 (extractAll [cexChildless]).2 = some "lexicon-count-total" := by
  decide

/-- uniqueness on the example: of the linearizations over the root's children only the extracted one passes -/
example : nodeRuleOK C06.exT [[(0, 0), (1, 0), (0, 1)], [(2, 0)]] = true ∧
    nodeRuleOK C06.exT [[(0, 0), (1, 0)], [(0, 1), (2, 0)]] = false ∧
    nodeRuleOK C06.exT [[(0, 0), (1, 0), (0, 1), (2, 0)]] = false := by decide

/-- every rule of the extracted grammar is the rule of a constituent (this is what puts extracted grammars into the
    domain of the theorems about binarization and about the file formats) -/
theorem extractAll_rule_mem (ts : List Tree) : ∀ e ∈ (extractAll ts).1.rules,
    ∃ t ∈ ts, ∃ s ∈ t.subtrees, (∃ f ks, s = node f ks) ∧ funcOf s = e.1 ∧ linOf s = e.2.1 := by
  intro e he
  simp only [Grammar.rules, List.mem_flatMap, List.mem_map] at he
  obtain ⟨⟨f, ls⟩, hp, ⟨l, vs⟩, hq, rfl⟩ := he
  obtain ⟨t, ht, p, hpt, h1, h2⟩ :=
    extractAll_all (fun f l _ => ∃ t ∈ ts, ∃ p ∈ consWithCtx [] t, funcOf p.1 = f ∧ linOf p.1 = l) ts
      (fun t ht p hp _ _ => ⟨t, ht, p, hp, rfl, rfl⟩) _ hp _ hq
  obtain ⟨hsub, hnode⟩ := cons_is_node t p hpt
  exact ⟨t, ht, p.1, hsub, hnode, h1, h2⟩

end TT.Props.C06Count
