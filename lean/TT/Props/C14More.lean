/-
  C14 (more) — binarization rejects a headless node with more than two children wherever it sits; every
  failure is a `ValueError`; what the fresh `@` nodes carry (fields and label, on label pieces); the POS tags of
  the tokens after collapsing unary chains.
  Helper lemmas: TT/Lemmas/More12d.lean; specification-side definitions: TT/Spec/More12d.lean.
-/
import TT.Spec.More12d
import TT.Lemmas.More12d
import TT.Props.C14
namespace TT.Props.C14More
open TT TT.Tree TT.Spec TT.Lemmas.Binarize TT.Lemmas.More12d

/-! ### example trees -/

private def lf (n : Nat) (l w : String) (h : Option Bool := none) : Tree :=
  leaf n { label := l.toList, word := some w.toList, head := h }
private def nd (l : String) (ks : List Tree) (h : Option Bool := none) : Tree :=
  node { label := l.toList, head := h } ks

/-- the offending node `X` (three children, none marked as head) sits two levels below the root, inside a
    binary node below a correctly marked ternary root -/
def exDeep : Tree :=
  nd "S" [
    lf 1 "A" "a" (some false),
    nd "Y" [lf 2 "B" "b",
      nd "X" [lf 3 "C" "c" (some false), lf 4 "D" "d", lf 5 "E" "e" (some false)]] (some true),
    lf 6 "F" "f" (some false)]

/-- decorated parent labels: function, gap index, co-index, head mark -/
def exDeco : Tree :=
  nd "S-TOP=2-1" [
    lf 1 "A" "a" (some false),
    nd "NP-SBJ-3'" [lf 2 "B" "b" (some true), lf 3 "C" "c" (some false), lf 4 "D" "d" (some false),
      lf 5 "E" "e" (some false)] (some true),
    lf 6 "F" "f" (some false)]

example : WF exDeep = true ∧ WF exDeco = true ∧ noAtLabels exDeco = true := by decide

/-! ### 5: rejection anywhere -/

/-- a node with more than two children none of which carries a head mark is rejected, at any depth, with
    a `ValueError` -/
theorem binarize_rejects_anywhere (bare : Bool) (t : Tree)
    (h : ∃ s ∈ t.subtrees, ∃ f ks, s = node f ks ∧ 2 < ks.length ∧ ∀ k ∈ ks, k.fields.head ≠ some true) :
    binarize bare t = .error .valueError :=
  binarizeAux_rejects_anywhere bare t h

/-- as proposed in the audit (existential form) -/
theorem binarize_rejects_anywhere' (bare : Bool) (t : Tree)
    (h : ∃ s ∈ t.subtrees, ∃ f ks, s = node f ks ∧ 2 < ks.length ∧ ∀ k ∈ ks, k.fields.head ≠ some true) :
    ∃ e, binarize bare t = .error e :=
  ⟨_, binarize_rejects_anywhere bare t h⟩

/-- `exDeep` meets the hypothesis: the node `X` -/
example : ∃ s ∈ exDeep.subtrees, ∃ f ks, s = node f ks ∧ 2 < ks.length ∧ ∀ k ∈ ks, k.fields.head ≠ some true := by
  refine ⟨nd "X" [lf 3 "C" "c" (some false), lf 4 "D" "d", lf 5 "E" "e" (some false)], ?_, _, _, rfl, by decide, ?_⟩
  · simp [exDeep, nd, lf, subtrees, subtreesL]
  · intro k hk
    simp only [lf, List.mem_cons, List.not_mem_nil, or_false] at hk
    rcases hk with rfl | rfl | rfl <;> simp [fields]

example : binarize true exDeep = .error .valueError ∧ binarize false exDeep = .error .valueError := ⟨rfl, rfl⟩

/-- every failure of binarization is a `ValueError` -/
theorem binarize_error_kind (bare : Bool) (t : Tree) (e : Err) (h : binarize bare t = .error e) :
    e = .valueError :=
  binarizeAux_error_kind bare t e h

/-- a successful run means every constituent with more than two children has a child marked as head -/
theorem binarize_ok_heads (bare : Bool) (t t' : Tree) (h : binarize bare t = .ok t') :
    ∀ s ∈ t.subtrees, ∀ f ks, s = node f ks → 2 < ks.length → ∃ k ∈ ks, k.fields.head = some true := by
  intro s hs f ks e h3
  refine Classical.byContradiction fun hno => ?_
  have hall : ∀ k ∈ ks, k.fields.head ≠ some true := fun k hk hh => hno ⟨k, hk, hh⟩
  have := binarize_rejects_anywhere bare t ⟨s, hs, f, ks, e, h3, hall⟩
  rw [h] at this; cases this

/-! ### 3: what the `@` nodes carry -/

/-- the fresh node's fields, with its label on pieces: `@` followed by the parent label without its
    co-index piece (category, function, gap index and head mark stay), or bare `@` on request -/
theorem binFields_pieces (bare : Bool) (l : Str) :
    binFields bare l = { label := atLabel bare l, word := some [], lemma := some DEFAULT_LEMMA,
                         morph := some DEFAULT_MORPH, edge := some DEFAULT_EDGE, head := some true } := by
  cases bare
  · have := binFields_label_render l
    simp only [binFields, Bool.false_eq_true, if_false] at this ⊢
    simp only [atLabel, Bool.false_eq_true, if_false]
    rw [this]
  · rfl

/-- as proposed in the audit -/
theorem binFields_label_pieces (l : Str) :
    (binFields false l).label = '@' :: render DEFAULT_GF_SEP false false ((decompose DEFAULT_GF_SEP l).erase .co) ∧
    (binFields true l).label = ['@'] :=
  ⟨binFields_label_render l, rfl⟩

example : atLabel false "NP-SBJ=2-3'".toList = "@NP-SBJ=2'".toList ∧ atLabel true "NP-SBJ=2-3'".toList = "@".toList ∧
    (decompose DEFAULT_GF_SEP "NP-SBJ=2-3'".toList).erase .co =
      { cat := "NP".toList, gfP := "-SBJ".toList, gapP := "=2".toList, coP := [], hmP := "'".toList } := by
  decide

/-- every `@` node of the result carries exactly the fresh-node fields computed from the label of the nearest
    constituent above it that is not an `@` node (the node that was binarized) -/
theorem binarize_atFields (bare : Bool) (t t' : Tree) (h : binarize bare t = .ok t')
    (hat : noAtLabels t = true) : atFieldsOK (binFields bare) [] t' = true :=
  TT.Lemmas.More12d.binarize_atFields bare t t' h hat []

/-- ... with the label spelled out on pieces -/
theorem binarize_atLabels (bare : Bool) (t t' : Tree) (h : binarize bare t = .ok t')
    (hat : noAtLabels t = true) :
    atFieldsOK (fun l => { label := atLabel bare l, word := some [], lemma := some DEFAULT_LEMMA,
                           morph := some DEFAULT_MORPH, edge := some DEFAULT_EDGE, head := some true }) [] t' = true := by
  have := binarize_atFields bare t t' h hat
  rwa [show binFields bare = _ from funext (binFields_pieces bare)] at this

example : ∃ t', binarize false exDeco = .ok t' ∧
    consLabels t' = ["S-TOP=2-1", "@S-TOP=2", "NP-SBJ-3'", "@NP-SBJ'", "@NP-SBJ'"].map String.toList ∧
    atFieldsOK (binFields false) [] t' = true := by
  refine ⟨_, rfl, ?_, ?_⟩ <;> decide

/-- the predicate does discriminate: an `@` node carrying the label of the wrong constituent, or one with a
    co-index left, fails it -/
example : atFieldsOK (binFields false) [] (nd "S" [node (binFields false "NP".toList) [lf 1 "A" "a", lf 2 "B" "b"],
      lf 3 "C" "c"]) = false ∧
    atFieldsOK (binFields false) [] (nd "S-1" [node { (binFields false "S".toList) with label := "@S-1".toList }
      [lf 1 "A" "a", lf 2 "B" "b"], lf 3 "C" "c"]) = false ∧
    atFieldsOK (binFields false) [] (nd "S-1" [node (binFields false "S-1".toList) [lf 1 "A" "a", lf 2 "B" "b"],
      lf 3 "C" "c"]) = true := by decide

/-- node by node: every `@` constituent of the result carries the fresh-node fields of the label of some
    constituent of the input -/
theorem binarize_at_sources (bare : Bool) (t t' : Tree) (h : binarize bare t = .ok t')
    (hat : noAtLabels t = true) :
    ∀ s ∈ t'.subtrees, isBinNode s = true → ∃ l ∈ consLabels t, s.fields = binFields bare l := by
  intro s hs hb
  have hmem := fun l (hl : l ∈ (consLabels t').filter notAt) =>
    (TT.Props.C14.binarize_labels bare t t' h hat).subset hl
  have hw := binarize_atFields bare t t' h hat
  have hf := binarizeAux_fields bare t t' h
  cases t' with
  | leaf n g =>
    simp only [subtrees, List.mem_singleton] at hs
    subst hs; cases hb
  | node g ls =>
    -- the root is not an `@` node: it carries the fields of the input's root
    have hg : (g.label.head? == some '@') = false := by
      have h0 := List.all_eq_true.1 hat t (TT.Lemmas.WF.self_mem_subtrees t)
      have hf' : g = t.fields := hf
      rw [hf']
      simpa using h0
    simp only [atFieldsOK, hg, Bool.false_eq_true, if_false] at hw
    rw [TT.Lemmas.WF.mem_subtrees_node] at hs
    rcases hs with rfl | ⟨k, hk, hsk⟩
    · simp only [isBinNode, hg] at hb; cases hb
    · have hgn : notAt g.label = true := by simpa [notAt] using hg
      rcases atFieldsOK_sources (binFields bare) k g.label ((atFieldsOKL_iff _ _ _).1 hw k hk) s hsk hb with
        h1 | ⟨l, hl, h2⟩
      · refine ⟨g.label, hmem _ ?_, h1⟩
        rw [consLabels_node_filter]
        exact List.mem_append_left _ (by simp [hgn])
      · refine ⟨l, hmem _ ?_, h2⟩
        rw [consLabels_node_filter]
        exact List.mem_append_right _ (List.mem_flatMap.2 ⟨k, hk, hl⟩)

example : ∃ t', binarize false exDeco = .ok t' ∧
    (t'.subtrees.filter isBinNode).map (·.fields.label) = ["@S-TOP=2", "@NP-SBJ'", "@NP-SBJ'"].map String.toList ∧
    binFields false "S-TOP=2-1".toList =
      { label := "@S-TOP=2".toList, word := some [], lemma := some DEFAULT_LEMMA,
        morph := some DEFAULT_MORPH, edge := some DEFAULT_EDGE, head := some true } := by
  refine ⟨_, rfl, ?_, ?_⟩ <;> decide

/-! ### 8: the tokens after collapsing -/

/-- collapsing puts the '+'-join of a unary chain that ends in a token on that token (followed by the token's
    own tag); every other token keeps its tag.  `tokenLabels` is an independent recursive specification. -/
theorem collapse_tokenLabels (t : Tree) :
    (collapse t).leaves.map (·.fields.label) = tokenLabels t :=
  tokenLabels_collapse t

/-- chains of length 3 at the root and above token 2, one of length 2 above a binary node -/
def exTok : Tree :=
  nd "ROOT" [nd "S" [nd "VP" [
    nd "NP" [nd "NX" [lf 1 "N" "dogs", lf 3 "V" "bark"]],
    nd "AP" [nd "AX" [nd "AY" [lf 2 "ADV" "loudly"]]]]]]

/-- the specification evaluated on its own ... -/
example : tokenLabels exTok = ["N", "V", "AP+AX+AY+ADV"].map String.toList := by
  simp [exTok, nd, lf, tokenLabels, tokenChain, tokenLabelsL]
/-- ... and the model -/
example : (collapse exTok).leaves.map (·.fields.label) = ["N", "V", "AP+AX+AY+ADV"].map String.toList ∧
    exTok.leaves.map (·.fields.label) = ["N", "V", "ADV"].map String.toList := by decide

/-- a chain that starts at the root and ends in the only token -/
example : tokenLabels (nd "ROOT" [nd "S" [lf 1 "N" "x"]]) = ["ROOT+S+N".toList] := by
  simp [nd, lf, tokenLabels, tokenChain]
example : (collapse (nd "ROOT" [nd "S" [lf 1 "N" "x"]])).beq
      (leaf 1 { label := "ROOT+S+N".toList, word := some "x".toList }) = true := by decide

end TT.Props.C14More
