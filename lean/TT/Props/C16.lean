/-
  C16 — gap-degree analysis agrees with the set-based definition (see tools/agent_briefs/WF.md)
-/
import TT.Spec.Nav
namespace TT.Props.C16
open TT TT.Tree TT.Spec

end TT.Props.C16
