/-
  C16 — gap-degree analysis agrees with the set-based definition (see tools/agent_briefs/WF.md)
-/
import TT.Spec.Nav
import TT.Lemmas.Sort
import TT.Lemmas.Nav
import TT.Lemmas.WF
namespace TT.Props.C16
open TT TT.Tree TT.Spec

/-- strictly increasing list of naturals -/
def StrictInc (l : List Nat) : Prop := l.Pairwise (· < ·)

/-- consecutive run a, a+1, a+2, ... -/
def Run : List Nat → Prop
  | [] => True
  | [_] => True
  | a :: b :: r => b = a + 1 ∧ Run (b :: r)

/-! ### shape of `blocksOf` -/

/-- the first block of a non-empty list starts with its first element -/
theorem blocksOf_cons : ∀ (a : Nat) (l : List Nat), ∃ blk blks, blocksOf (a :: l) = (a :: blk) :: blks
  | a, [] => ⟨[], [], rfl⟩
  | a, b :: rest => by
    obtain ⟨blk, blks, h⟩ := blocksOf_cons b rest
    simp only [blocksOf, h]
    split
    · exact ⟨[], _, rfl⟩
    · exact ⟨_, _, rfl⟩

/-- one step of `blocksOf`, given the blocks of the tail -/
theorem blocksOf_step (a b : Nat) (rest blk : List Nat) (blks : List (List Nat))
    (h : blocksOf (b :: rest) = blk :: blks) :
    blocksOf (a :: b :: rest) = if a + 1 < b then [a] :: blk :: blks else (a :: blk) :: blks := by
  simp only [blocksOf, h]

theorem blocksOf_flatten (l : List Nat) : (blocksOf l).flatten = l :=
  match l with
  | [] => rfl
  | [a] => rfl
  | a :: b :: rest => by
    have ih := blocksOf_flatten (b :: rest)
    obtain ⟨blk, blks, h⟩ := blocksOf_cons b rest
    rw [blocksOf_step a b rest _ _ h]
    rw [h] at ih
    split
    · simp only [List.flatten_cons] at ih ⊢
      rw [ih]; rfl
    · simp only [List.flatten_cons, List.cons_append] at ih ⊢
      rw [ih]

theorem blocksOf_ne_nil (l : List Nat) : ∀ b ∈ blocksOf l, b ≠ [] :=
  match l with
  | [] => by simp [blocksOf]
  | [a] => by simp [blocksOf]
  | a :: b :: rest => by
    have ih := blocksOf_ne_nil (b :: rest)
    obtain ⟨blk, blks, h⟩ := blocksOf_cons b rest
    rw [blocksOf_step a b rest _ _ h]
    rw [h] at ih
    intro c hc
    split at hc
    · rcases List.mem_cons.1 hc with rfl | hc
      · simp
      · exact ih c hc
    · rcases List.mem_cons.1 hc with rfl | hc
      · simp
      · exact ih c (List.mem_cons_of_mem _ hc)

theorem blocksOf_runs (l : List Nat) (h : StrictInc l) : ∀ b ∈ blocksOf l, Run b :=
  match l, h with
  | [], _ => by simp [blocksOf]
  | [a], _ => by simp [blocksOf, Run]
  | a :: b :: rest, hs => by
    have hs' := List.pairwise_cons.1 hs
    have ih := blocksOf_runs (b :: rest) hs'.2
    have hab : a < b := hs'.1 b List.mem_cons_self
    obtain ⟨blk, blks, h⟩ := blocksOf_cons b rest
    rw [blocksOf_step a b rest _ _ h]
    rw [h] at ih
    intro c hc
    split at hc
    · rcases List.mem_cons.1 hc with rfl | hc
      · simp [Run]
      · exact ih c hc
    · rename_i hgap
      rcases List.mem_cons.1 hc with rfl | hc
      · exact ⟨by omega, ih _ List.mem_cons_self⟩
      · exact ih c (List.mem_cons_of_mem _ hc)

/-- the gap statement of maximality (holds for every list) -/
theorem blocksOf_gap : ∀ (l : List Nat), ∀ i, i + 1 < (blocksOf l).length →
    ∃ x y, ((blocksOf l)[i]?).bind List.getLast? = some x ∧
      ((blocksOf l)[i+1]?).bind List.head? = some y ∧ x + 1 < y
  | [] => by simp [blocksOf]
  | [a] => by simp [blocksOf]
  | a :: b :: rest => by
    have ih := blocksOf_gap (b :: rest)
    obtain ⟨blk, blks, h⟩ := blocksOf_cons b rest
    rw [blocksOf_step a b rest _ _ h]
    rw [h] at ih
    intro i hi
    split
    · rename_i hgap
      cases i with
      | zero => exact ⟨a, b, by simp, by simp, hgap⟩
      | succ i =>
        rw [if_pos hgap] at hi
        obtain ⟨x, y, h1, h2, h3⟩ := ih i (by simpa using hi)
        exact ⟨x, y, by simpa using h1, by simpa using h2, h3⟩
    · rename_i hgap
      rw [if_neg hgap] at hi
      cases i with
      | zero =>
        obtain ⟨x, y, h1, h2, h3⟩ := ih 0 (by simpa using hi)
        refine ⟨x, y, ?_, by simpa using h2, h3⟩
        simpa [List.getLast?_cons_cons] using h1
      | succ i =>
        obtain ⟨x, y, h1, h2, h3⟩ := ih (i + 1) (by simpa using hi)
        exact ⟨x, y, by simpa using h1, by simpa using h2, h3⟩

set_option linter.unusedVariables false in
/-- maximality: between two consecutive blocks there is a gap -/
theorem blocksOf_maximal (l : List Nat) (h : StrictInc l) :
    (blocksOf l).Pairwise (fun b c => True) ∧
    ∀ i, i + 1 < (blocksOf l).length →
      ∃ x y, ((blocksOf l)[i]?).bind List.getLast? = some x ∧ ((blocksOf l)[i+1]?).bind List.head? = some y ∧ x + 1 < y :=
  ⟨List.pairwise_of_forall (fun _ _ => trivial), blocksOf_gap l⟩

theorem blocksOf_length_pos (a : Nat) (l : List Nat) : 0 < (blocksOf (a :: l)).length := by
  obtain ⟨blk, blks, h⟩ := blocksOf_cons a l
  rw [h]; simp

theorem gapCount_eq_blocks (l : List Nat) : gapCount l = (blocksOf l).length - 1 :=
  match l with
  | [] => rfl
  | [a] => rfl
  | a :: b :: rest => by
    have ih := gapCount_eq_blocks (b :: rest)
    have hpos := blocksOf_length_pos b rest
    obtain ⟨blk, blks, h⟩ := blocksOf_cons b rest
    rw [blocksOf_step a b rest _ _ h]
    rw [h] at ih hpos
    simp only [gapCount, ih]
    split <;> simp only [List.length_cons] at * <;> omega

theorem gapDegreeNode_eq_blocks (f : Fields) (ks : List Tree) :
    gapDegreeNode (node f ks) = (blocks (node f ks)).length - 1 := by
  simp only [gapDegreeNode, blocks]
  exact gapCount_eq_blocks _

theorem blocks_partition (t : Tree) : (blocks t).flatten = yield t :=
  blocksOf_flatten _

/-- the sorted token numbers of a tree without duplicate numbers are strictly increasing -/
theorem yield_strictInc (t : Tree) (h : t.leafNums.Nodup) : StrictInc (yield t) := by
  have hs := TT.Lemmas.WF.yield_sorted t
  have hn : (yield t).Nodup := (TT.Lemmas.WF.yield_perm t).symm.nodup h
  exact (hs.and hn).imp (fun ⟨h1, h2⟩ => Nat.lt_of_le_of_ne h1 h2)

theorem blocks_runs (t : Tree) (h : t.leafNums.Nodup) : ∀ b ∈ blocks t, Run b :=
  blocksOf_runs _ (yield_strictInc t h)

/-! ### gap degree = maximum over the nodes -/

theorem foldl_max_ge : ∀ (l : List Nat) (init : Nat),
    init ≤ l.foldl max init ∧ ∀ x ∈ l, x ≤ l.foldl max init
  | [], init => by simp
  | a :: l, init => by
    have ih := foldl_max_ge l (max init a)
    simp only [List.foldl_cons]
    refine ⟨by omega, ?_⟩
    intro x hx
    rcases List.mem_cons.1 hx with rfl | hx
    · omega
    · exact ih.2 x hx

theorem foldl_max_mem : ∀ (l : List Nat) (init : Nat),
    l.foldl max init = init ∨ l.foldl max init ∈ l
  | [], init => by simp
  | a :: l, init => by
    simp only [List.foldl_cons]
    rcases foldl_max_mem l (max init a) with h | h
    · rw [h]
      rcases Nat.le_total init a with h' | h'
      · right; rw [Nat.max_eq_right h']; exact List.mem_cons_self
      · left; exact Nat.max_eq_left h'
    · right; exact List.mem_cons_of_mem _ h

theorem self_mem_preorder (t : Tree) : t ∈ preorder t := by
  cases t <;> simp [preorder]

theorem gapDegree_ge (t : Tree) : ∀ s ∈ preorder t, gapDegreeNode s ≤ gapDegree t := by
  intro s hs
  exact (foldl_max_ge _ 0).2 _ (List.mem_map_of_mem hs)

theorem gapDegree_attained (t : Tree) : ∃ s ∈ preorder t, gapDegreeNode s = gapDegree t := by
  rcases foldl_max_mem ((preorder t).map gapDegreeNode) 0 with h | h
  · refine ⟨t, self_mem_preorder t, ?_⟩
    have := gapDegree_ge t t (self_mem_preorder t)
    unfold gapDegree at this ⊢
    omega
  · obtain ⟨s, hs, heq⟩ := List.mem_map.1 h
    exact ⟨s, hs, heq⟩

/-- a node is continuous iff it has exactly one block -/
theorem gapDegreeNode_zero_iff (f : Fields) (ks : List Tree) (h : (node f ks).leafNums ≠ []) :
    gapDegreeNode (node f ks) = 0 ↔ (blocks (node f ks)).length = 1 := by
  rw [gapDegreeNode_eq_blocks]
  have hy := TT.Lemmas.WF.yield_ne_nil _ h
  unfold blocks
  cases hc : yield (node f ks) with
  | nil => exact absurd hc hy
  | cons a l =>
    have := blocksOf_length_pos a l
    omega

/-! ### a concrete discontinuous tree: `(S (VP 1 3 4) 2 (NP 6 7))` -/

/-- `(S (VP w1 w3 w4) w2 (NP w7 w6))`, the VP has the gap `2`, the root the gap `5` -/
def exTree : Tree :=
  node { label := "S".toList }
    [node { label := "VP".toList } [leaf 1 {}, leaf 4 {}, leaf 3 {}],
     leaf 2 {},
     node { label := "NP".toList } [leaf 7 {}, leaf 6 {}]]

def exVP : Tree := node { label := "VP".toList } [leaf 1 {}, leaf 4 {}, leaf 3 {}]

example : StrictInc [1, 2, 4, 5, 7] := by unfold StrictInc; decide
example : blocksOf [1, 2, 4, 5, 7] = [[1, 2], [4, 5], [7]] := by decide
example : (blocksOf [1, 2, 4, 5, 7]).flatten = [1, 2, 4, 5, 7] := blocksOf_flatten _
example : ∀ b ∈ blocksOf [1, 2, 4, 5, 7], Run b :=
  blocksOf_runs _ (by unfold StrictInc; decide)
example : gapCount [1, 2, 4, 5, 7] = 2 := by decide
example : exTree.leafNums.Nodup := by decide
example : yield exTree = [1, 2, 3, 4, 6, 7] := by decide
example : blocks exTree = [[1, 2, 3, 4], [6, 7]] := by decide
example : blocks exVP = [[1], [3, 4]] := by decide
example : ∀ b ∈ blocks exTree, Run b := blocks_runs exTree (by decide)
example : gapDegreeNode exTree = 1 ∧ gapDegreeNode exVP = 1 ∧ gapDegree exTree = 1 := by decide
example : (preorder exTree).map gapDegreeNode = [1, 1, 0, 0, 0, 0, 0, 0, 0] := by decide
/-- the maximum is attained at the VP (and at the root) -/
example : exVP ∈ preorder exTree ∧ gapDegreeNode exVP = gapDegree exTree := by
  refine ⟨?_, by decide⟩
  unfold exTree
  rw [TT.Lemmas.Nav.preorder_unfold]
  refine List.mem_cons_of_mem _ (List.mem_flatMap.2 ⟨exVP, ?_, self_mem_preorder _⟩)
  exact (mem_sortBy _ _ _).2 List.mem_cons_self
example : ∀ i, i + 1 < (blocksOf [1, 2, 4, 5, 7]).length →
    ∃ x y, ((blocksOf [1, 2, 4, 5, 7])[i]?).bind List.getLast? = some x ∧
      ((blocksOf [1, 2, 4, 5, 7])[i+1]?).bind List.head? = some y ∧ x + 1 < y :=
  (blocksOf_maximal _ (by unfold StrictInc; decide)).2
example : exVP.leafNums ≠ [] := by decide
example : ¬ (gapDegreeNode exVP = 0) ∧ ¬ ((blocks exVP).length = 1) := by decide

end TT.Props.C16
