/-
  C11 (slash), fourth part (wave 17): the rejection condition of the slash branch without hypothesis on the selection
  test (`slash_rejects_iff'`: `selected_annotated` + every recorded trace is found by `leafPath`), and the model's path
  tests in tree terms (`lca_none_iff`, `slashGoal_none_iff`, `resolveUp_none_iff`); consequence: on well-formed input the
  second kind of rejection is unreachable (`slash_rejects_iff''`, `slash_rejects_tree`).
  Model: TT/Transform/Slash.lean; earlier parts: TT/Props/C11Slash.lean, C11Slash2.lean, C11Slash3.lean.
-/
import TT.Lemmas.More17c
import TT.Lemmas.Nav
import TT.Props.C11Slash3
namespace TT.Props.C11Slash4
open TT TT.Tree TT.Spec TT.Lemmas.WF TT.Lemmas.Edit TT.Lemmas.Slash TT.Lemmas.More17c
open TT.Props.C11Slash TT.Props.C11Slash2 TT.Props.C11Slash3

/-! ## the maps of the annotation loop hold recorded traces and recorded fillers only -/

theorem mem_vals_iff {α : Type} (m : IdxMap α) (x : α) : x ∈ IdxMap.vals m ↔ ∃ e ∈ m, x ∈ e.2 := by
  simp [IdxMap.vals, List.mem_flatMap]

theorem mem_vals_foldl_push {α β : Type} (key : β → Str) (val : β → α) (x : α) : ∀ (l : List β) (m : IdxMap α),
    x ∈ IdxMap.vals (l.foldl (fun m e => IdxMap.push m (key e) (val e)) m) → x ∈ IdxMap.vals m ∨ ∃ e ∈ l, x = val e
  | [], m, h => Or.inl h
  | e :: rest, m, h => by
    rcases mem_vals_foldl_push key val x rest _ h with h | ⟨e', he', hx⟩
    · rcases (mem_vals_push m (key e) (val e) x).1 h with h | h
      · exact Or.inr ⟨e, by simp, h⟩
      · exact Or.inl h
    · exact Or.inr ⟨e', by simp [he'], hx⟩

theorem get_subset_vals {α : Type} (m : IdxMap α) (k : Str) (x : α) (h : x ∈ IdxMap.get m k) : x ∈ IdxMap.vals m := by
  unfold IdxMap.get at h
  split at h
  · rename_i e he
    exact (mem_vals_iff m x).2 ⟨e, List.mem_of_find?_eq_some he, h⟩
  · cases h

theorem odictSet_forall {κ ν : Type} [BEq κ] (P : κ → Prop) (Q : ν → Prop) (k : κ) (v : ν) (hk : P k) (hv : Q v) :
    ∀ (l : List (κ × ν)), (∀ e ∈ l, P e.1 ∧ Q e.2) → ∀ e ∈ odictSet l k v, P e.1 ∧ Q e.2
  | [], _, e, h => by
    simp only [odictSet, List.mem_singleton] at h
    subst h; exact ⟨hk, hv⟩
  | (k', v') :: rest, hl, e, h => by
    simp only [odictSet] at h
    split at h
    · rcases List.mem_cons.1 h with h | h
      · subst h; exact ⟨(hl (k', v') (by simp)).1, hv⟩
      · exact hl e (by simp [h])
    · rcases List.mem_cons.1 h with h | h
      · subst h; exact hl _ (by simp)
      · exact odictSet_forall P Q k v hk hv rest (fun e he => hl e (by simp [he])) e h

theorem findChildFiller_mem (q : Path) (fillers : List Path) : ∀ (js : List Nat) (c : Path),
    findChildFiller q fillers js = some c → c ∈ fillers
  | [], c, h => by simp [findChildFiller] at h
  | j :: js, c, h => by
    simp only [findChildFiller] at h
    split at h
    · rename_i hc
      cases h
      simpa using hc
    · exact findChildFiller_mem q fillers js c h

theorem tryAncestor_mem (t : Tree) (q : Path) (fillers : List Path) : ∀ (fs : List Path) (c : Path),
    (∀ f ∈ fs, f ∈ fillers) → tryAncestor t q fillers fs = some c → c ∈ fillers
  | [], c, _, h => by simp [tryAncestor] at h
  | f :: fs, c, hs, h => by
    simp only [tryAncestor] at h
    split at h
    · cases h; exact hs _ (by simp)
    · split at h
      · rename_i c' hc
        cases h
        exact findChildFiller_mem q fillers _ _ hc
      · exact tryAncestor_mem t q fillers fs c (fun f hf => hs f (by simp [hf])) h

/-- what the bottom-up resolution finds is one of the fillers it was given -/
theorem resolveUp_mem (t : Tree) (fillers : List Path) : ∀ (qs : List Path) (c : Path),
    resolveUp t fillers qs = some c → c ∈ fillers
  | [], c, h => by simp [resolveUp] at h
  | q :: qs, c, h => by
    simp only [resolveUp] at h
    split at h
    · rename_i f hf
      cases h
      exact tryAncestor_mem t q fillers fillers _ (fun _ h => h) hf
    · exact resolveUp_mem t fillers qs c h

theorem resolveTraces_forall (t : Tree) (fillers : List Path) (P : TraceRef → Prop) (Q : Path → Prop)
    (hQ : ∀ f ∈ fillers, Q f) : ∀ (trs : List TraceRef) (st st' : ResState), (∀ tr ∈ trs, P tr) →
    (∀ e ∈ st.1, P e.1 ∧ Q e.2.2) → resolveTraces t fillers st trs = .ok st' → ∀ e ∈ st'.1, P e.1 ∧ Q e.2.2
  | [], st, st', _, hst, h => by
    simp only [resolveTraces, Except.ok.injEq] at h
    subst h; exact hst
  | tr :: rest, (tf, ni), st', hP, hst, h => by
    simp only [resolveTraces] at h
    split at h
    · rename_i f hf
      refine resolveTraces_forall t fillers P Q hQ rest _ st' (fun x hx => hP x (by simp [hx])) ?_ h
      exact odictSet_forall P (fun v : Nat × Path => Q v.2) tr (ni, f) (hP tr (by simp))
        (hQ f (resolveUp_mem t fillers _ f hf)) tf hst
    · cases h

theorem resolveIndices_forall (t : Tree) (i2n : IdxMap Path) (P : TraceRef → Prop) (Q : Path → Prop)
    (hQ : ∀ f ∈ IdxMap.vals i2n, Q f) : ∀ (m : IdxMap TraceRef) (st st' : ResState), (∀ tr ∈ IdxMap.vals m, P tr) →
    (∀ e ∈ st.1, P e.1 ∧ Q e.2.2) → resolveIndices t i2n st m = .ok st' → ∀ e ∈ st'.1, P e.1 ∧ Q e.2.2
  | [], st, st', _, hst, h => by
    simp only [resolveIndices, Except.ok.injEq] at h
    subst h; exact hst
  | (idx, trs) :: rest, st, st', hP, hst, h => by
    simp only [resolveIndices] at h
    split at h
    · rename_i st1 h1
      have hP1 : ∀ tr ∈ trs, P tr := fun tr htr => hP tr (by simp [IdxMap.vals, htr])
      have hP2 : ∀ tr ∈ IdxMap.vals rest, P tr := fun tr htr => hP tr (by
        simp only [IdxMap.vals, List.flatMap_cons, List.mem_append]; exact Or.inr htr)
      exact resolveIndices_forall t i2n P Q hQ rest st1 st' hP2
        (resolveTraces_forall t (i2n.get idx) P Q (fun f hf => hQ f (get_subset_vals i2n idx f hf)) trs st st1 hP1 hst h1) h
    · cases h

/-- the maps the annotation loop works with hold recorded traces and recorded fillers only -/
theorem slashMaps_forall (t2 : Tree) (i2t : IdxMap TraceRef) (i2n : IdxMap Path) (P : TraceRef → Prop) (Q : Path → Prop)
    (hP : ∀ tr ∈ IdxMap.vals i2t, P tr) (hQ : ∀ f ∈ IdxMap.vals i2n, Q f)
    (a : IdxMap TraceRef) (b : IdxMap Path) (h : slashMaps t2 i2t i2n = .ok (a, b)) :
    (∀ tr ∈ IdxMap.vals a, P tr) ∧ ∀ f ∈ IdxMap.vals b, Q f := by
  unfold slashMaps at h
  split at h
  · unfold resolveBottomUp at h
    split at h
    · cases h
    · rename_i tf n htf
      simp only [Except.ok.injEq, Prod.mk.injEq] at h
      obtain ⟨rfl, rfl⟩ := h
      have inv := resolveIndices_forall t2 i2n P Q hQ i2t ([], 1) (tf, n) hP (by simp) htf
      constructor
      · intro tr htr
        rcases mem_vals_foldl_push _ _ tr tf [] htr with h | ⟨e, he, rfl⟩
        · simp [IdxMap.vals] at h
        · exact (inv e he).1
      · intro f hf
        rcases mem_vals_foldl_push _ _ f tf [] hf with h | ⟨e, he, rfl⟩
        · simp [IdxMap.vals] at h
        · exact (inv e he).2
  · cases h; exact ⟨hP, hQ⟩

/-! ## every recorded trace is a token of the tree the annotation works on -/

theorem mem_vals_slashTraces (o : TraceOpts) (t : Tree) (tr : TraceRef) (h : tr ∈ IdxMap.vals (slashTraces o t)) :
    tr.1 ∈ IdxMap.vals (indexToTraces o t) ∧ tr.2 = (leafPath tr.1 (slashTree o t)).getD [] := by
  unfold slashTraces at h
  obtain ⟨e, he, hx⟩ := (mem_vals_iff _ tr).1 h
  obtain ⟨e0, he0, rfl⟩ := List.mem_map.1 he
  obtain ⟨n, hn, rfl⟩ := List.mem_map.1 hx
  exact ⟨(mem_vals_iff _ n).2 ⟨e0, he0, hn⟩, rfl⟩

/-- on a well-numbered tree every recorded trace is found: its path leads to the token with its number -/
theorem slashTraces_token (o : TraceOpts) (t : Tree) (hN : Numbered t) (tr : TraceRef)
    (h : tr ∈ IdxMap.vals (slashTraces o t)) : ∃ f, (slashTree o t).get? tr.2 = some (leaf tr.1 f) := by
  obtain ⟨h1, h2⟩ := mem_vals_slashTraces o t tr h
  rw [h2]
  apply leafPath_spec
  have inv := traceInv_foldl o _ _ (traceInv_init t hN)
  obtain ⟨_, _, _, _, hv⟩ := inv
  have := (hv tr.1 h1).1
  unfold slashTree ptbDeleteTraces leafNums
  simp only
  rw [cleanLabels_leaves]
  rw [foldl_traceStepI_fst] at this
  exact this

/-- the selection test reads a token, and the annotation never writes a token -/
theorem selected_annotated (ls : List Str) (t2 acc : Tree) (p : Path) (n : Nat) (f : Fields)
    (ha : Annotated t2 acc) (hp : t2.get? p = some (leaf n f)) : selected ls acc p = selected ls t2 p := by
  unfold selected labelAtPath
  rw [hp, annotated_get_leaf ha p n f hp]

/-! ## C11 clause 9 (iii'): WHEN the slash branch rejects a call, any label list, no hypothesis on the selection -/

theorem slash_rejects_iff' (o : TraceOpts) (ls : List Str) (t : Tree) (hN : WF t = true) :
    (∃ e, ptbDeleteTracesSlash o (some ls) t = .error e) ↔
      (((slashFillers o t).any (fun e => e.2.length > 1) = true ∧
          ∃ en ∈ slashTraces o t, ∃ tr ∈ en.2,
            resolveUp (slashTree o t) ((slashFillers o t).get en.1) (ancestors tr.2) = none) ∨
       ∃ a b, slashMaps (slashTree o t) (slashTraces o t) (slashFillers o t) = .ok (a, b) ∧
          ∃ en ∈ a, b.has en.1 = true ∧ ∃ tr ∈ en.2, selected ls (slashTree o t) tr.2 = true ∧
            slashGoal ((b.get en.1).headD []) tr.2 = none) := by
  apply slash_rejects_iff o ls t (selected ls (slashTree o t))
  intro a b hab acc' ha' en hen tr htr
  have hmem := (slashMaps_forall _ _ _ (fun tr => tr ∈ IdxMap.vals (slashTraces o t)) (fun _ => True)
    (fun _ h => h) (fun _ _ => trivial) a b hab).1 tr ((mem_vals_iff a tr).2 ⟨en, hen, htr⟩)
  obtain ⟨f, hf⟩ := slashTraces_token o t (Numbered_of_WF t hN) tr hmem
  exact selected_annotated ls _ acc' tr.2 tr.1 f ha' hf


/-- `exRej`, with a label list: rejected by (1) whatever the list -/
example : WF exRej = true ∧ ∃ e, ptbDeleteTracesSlash { keepall := true } (some ["*T*".toList, "NP".toList]) exRej = .error e :=
  ⟨by decide, (slash_rejects_iff' _ _ _ (by decide)).2 (Or.inl (by decide))⟩

/-! ## the path tests in tree terms -/

theorem commonPrefix_prefix_left : ∀ p q : Path, commonPrefix p q <+: p
  | [], _ => by simp [commonPrefix]
  | _ :: _, [] => by simp [commonPrefix]
  | a :: p, b :: q => by
    simp only [commonPrefix]
    split
    · exact List.prefix_cons_inj a |>.2 (commonPrefix_prefix_left p q)
    · simp

theorem commonPrefix_prefix_right : ∀ p q : Path, commonPrefix p q <+: q
  | [], _ => by simp [commonPrefix]
  | _ :: _, [] => by simp [commonPrefix]
  | a :: p, b :: q => by
    simp only [commonPrefix]
    split
    · rename_i h; subst h
      exact List.prefix_cons_inj a |>.2 (commonPrefix_prefix_right p q)
    · simp

theorem commonPrefix_of_prefix : ∀ p q : Path, p <+: q → commonPrefix p q = p
  | [], _, _ => by simp [commonPrefix]
  | a :: p, [], h => by simp at h
  | a :: p, b :: q, h => by
    obtain ⟨rfl, h'⟩ := List.cons_prefix_cons.1 h
    simp [commonPrefix, commonPrefix_of_prefix p q h']

theorem commonPrefix_comm : ∀ p q : Path, commonPrefix p q = commonPrefix q p
  | [], [] => rfl
  | [], _ :: _ => by simp [commonPrefix]
  | _ :: _, [] => by simp [commonPrefix]
  | a :: p, b :: q => by
    simp only [commonPrefix]
    by_cases h : a = b
    · subst h; simp [commonPrefix_comm p q]
    · rw [if_neg h, if_neg (Ne.symm h)]

/-- `trees.lca` answers `None` exactly when one node dominates the other (or they are the same) -/
theorem lca_none_iff (p q : Path) : lca p q = none ↔ (p <+: q ∨ q <+: p) := by
  unfold lca
  simp only [Bool.or_eq_true, decide_eq_true_eq, ite_eq_left_iff, reduceCtorEq, imp_false, Decidable.not_not]
  constructor
  · rintro (h | h)
    · left
      have := (commonPrefix_prefix_left p q).eq_of_length h
      rw [← this]; exact commonPrefix_prefix_right p q
    · right
      have := (commonPrefix_prefix_right p q).eq_of_length h
      rw [← this]; exact commonPrefix_prefix_left p q
  · rintro (h | h)
    · left; rw [commonPrefix_of_prefix p q h]
    · right; rw [commonPrefix_comm, commonPrefix_of_prefix q p h]

/-- `trees.dominance(x)`: the node itself and its ancestors = the prefixes of its path -/
theorem mem_dominancePaths (p q : Path) : q ∈ dominancePaths p ↔ q <+: p := by
  unfold dominancePaths
  simp only [List.mem_map, List.mem_reverse, List.mem_range]
  constructor
  · rintro ⟨k, _, rfl⟩; exact List.take_prefix k p
  · intro h
    refine ⟨q.length, Nat.lt_succ_of_le h.length_le, ?_⟩
    exact (List.prefix_iff_eq_take.1 h).symm

/-- C11 9 (iii'-geo): "filler neither c-commands nor dominates" is answered exactly when the TRACE properly dominates
    the filler -/
theorem slashGoal_none_iff (f tr : Path) : slashGoal f tr = none ↔ (tr <+: f ∧ tr ≠ f) := by
  unfold slashGoal
  cases hl : lca f tr with
  | some g =>
    simp only [reduceCtorEq, false_iff, not_and, Decidable.not_not]
    intro h
    have : lca f tr = none := (lca_none_iff f tr).2 (Or.inr h)
    rw [hl] at this; cases this
  | none =>
    have h := (lca_none_iff f tr).1 hl
    simp only [List.contains_eq_mem, ite_eq_right_iff, reduceCtorEq, imp_false, decide_eq_true_eq, mem_dominancePaths]
    constructor
    · intro hn
      rcases h with h | h
      · exact absurd h hn
      · exact ⟨h, fun e => hn (e ▸ List.prefix_refl _)⟩
    · rintro ⟨h1, h2⟩ h3
      exact h2 (h1.eq_of_length (Nat.le_antisymm h1.length_le h3.length_le))

example : slashGoal [0, 1, 2] [0, 1] = none ∧ slashGoal [0, 1] [0, 1] = some [0, 1] ∧
    slashGoal [0] [0, 1] = some [0] ∧ slashGoal [0, 2] [0, 1] = some [0] := by decide

/-! ## the second kind of rejection is unreachable on well-formed input -/

theorem get?_append : ∀ (t : Tree) (p q : Path), t.get? (p ++ q) = (t.get? p).bind (·.get? q)
  | t, [], q => by simp [get?]
  | leaf _ _, _ :: _, q => by simp [get?]
  | node _ ks, i :: p, q => by
    simp only [List.cons_append, get?]
    cases hk : ks[i]? with
    | none => rfl
    | some k => exact get?_append k p q

/-- nothing lies below a token -/
theorem get?_below_leaf (t : Tree) (tr f : Path) (n : Nat) (g : Fields) (h : t.get? tr = some (leaf n g))
    (hp : tr <+: f) (hne : tr ≠ f) : t.get? f = none := by
  obtain ⟨q, rfl⟩ := hp
  rw [get?_append, h]
  cases q with
  | nil => simp at hne
  | cons i q => simp [get?]

theorem cleanLabelsL_getElem? (o : TraceOpts) : ∀ (ks : List Tree) (i : Nat),
    (cleanLabelsL o ks)[i]? = ks[i]?.map (cleanLabels o)
  | [], i => by simp [cleanLabelsL]
  | t :: ts, 0 => by simp [cleanLabelsL]
  | t :: ts, i + 1 => by simpa [cleanLabelsL] using cleanLabelsL_getElem? o ts i

/-- label cleaning keeps every storage path -/
theorem cleanLabels_get? (o : TraceOpts) : ∀ (t : Tree) (p : Path),
    (cleanLabels o t).get? p = (t.get? p).map (cleanLabels o)
  | t, [] => by simp [get?]
  | leaf _ _, _ :: _ => by simp [cleanLabels, get?]
  | node f ks, i :: p => by
    simp only [cleanLabels]
    split
    · rename_i he
      have : ks = [] := by simpa using he
      subst this
      simp [get?]
    · simp only [get?, cleanLabelsL_getElem?]
      cases hk : ks[i]? with
      | none => rfl
      | some k => exact cleanLabels_get? o k p

theorem mem_vals_foldl_push_opt {β : Type} (g : β → Option Str) (val : β → Path) (x : Path) :
    ∀ (l : List β) (m : IdxMap Path),
    x ∈ IdxMap.vals (l.foldl (fun m e => match g e with | some key => IdxMap.push m key (val e) | none => m) m) →
      x ∈ IdxMap.vals m ∨ ∃ e ∈ l, (g e).isSome = true ∧ x = val e
  | [], m, h => Or.inl h
  | e :: rest, m, h => by
    rcases mem_vals_foldl_push_opt g val x rest _ h with h | ⟨e', he', hx⟩
    · simp only at h
      cases hg : g e with
      | none => rw [hg] at h; exact Or.inl h
      | some key =>
        rw [hg] at h
        rcases (mem_vals_push m key (val e) x).1 h with h | h
        · exact Or.inr ⟨e, by simp, by simp [hg], h⟩
        · exact Or.inl h
    · exact Or.inr ⟨e', by simp [he'], hx⟩

/-- every recorded filler is a constituent with children of the tree -/
theorem nontermIndex_node (t : Tree) (p : Path) (h : p ∈ IdxMap.vals (nontermIndex t)) :
    ∃ f k ks, t.get? p = some (node f (k :: ks)) := by
  rw [nontermIndex_eq] at h
  rcases mem_vals_foldl_push_opt (fillerCo t) id p _ [] h with h | ⟨e, _, he, rfl⟩
  · simp [IdxMap.vals] at h
  · unfold fillerCo at he
    split at he
    · rename_i f k ks hg; exact ⟨f, k, ks, hg⟩
    · cases he

/-- every recorded filler is a node of the tree the annotation works on -/
theorem slashFillers_node (o : TraceOpts) (t : Tree) (p : Path) (h : p ∈ IdxMap.vals (slashFillers o t)) :
    (slashTree o t).get? p ≠ none := by
  obtain ⟨f, k, ks, hg⟩ := nontermIndex_node _ p h
  have : slashTree o t = cleanLabels o (afterTraces o t) := rfl
  rw [this, cleanLabels_get?, hg]
  simp

theorem headD_mem_vals (b : IdxMap Path) (hb : NonEmptyVals b) (k : Str) (hk : b.has k = true) :
    (b.get k).headD [] ∈ IdxMap.vals b := by
  have hne := get_ne_nil_of_has b hb k hk
  cases hg : b.get k with
  | nil => exact absurd hg hne
  | cons f fs => exact get_subset_vals b k f (by simp [hg])

/-- on well-formed input the test "filler neither c-commands nor dominates" never fails: a recorded trace is a token,
    a recorded filler is a node of the same tree, and `slashGoal = none` would put the filler below the token -/
theorem slashGoal_some (o : TraceOpts) (t : Tree) (hN : WF t = true) (a : IdxMap TraceRef) (b : IdxMap Path)
    (hab : slashMaps (slashTree o t) (slashTraces o t) (slashFillers o t) = .ok (a, b))
    (en : Str × List TraceRef) (hen : en ∈ a) (hhas : b.has en.1 = true) (tr : TraceRef) (htr : tr ∈ en.2) :
    slashGoal ((b.get en.1).headD []) tr.2 ≠ none := by
  intro hg
  obtain ⟨h1, h2⟩ := (slashGoal_none_iff _ _).1 hg
  have hall := slashMaps_forall _ _ _ (fun tr => tr ∈ IdxMap.vals (slashTraces o t))
    (fun f => f ∈ IdxMap.vals (slashFillers o t)) (fun _ h => h) (fun _ h => h) a b hab
  obtain ⟨g, hleaf⟩ := slashTraces_token o t (Numbered_of_WF t hN) tr (hall.1 tr ((mem_vals_iff a tr).2 ⟨en, hen, htr⟩))
  have hb := slashMaps_nonEmpty _ _ _ (nontermIndex_nonEmpty _) a b hab
  exact slashFillers_node o t _ (hall.2 _ (headD_mem_vals b hb en.1 hhas)) (get?_below_leaf _ _ _ _ g hleaf h1 h2)

/-- C11 clause 9 (iii'), final form: on well-formed input a call of the slash branch (any label list) is rejected
    exactly when some co-index has several fillers and the bottom-up resolution finds no filler for some recorded trace;
    the documented second rejection ("filler neither c-commands nor dominates") is unreachable -/
theorem slash_rejects_iff'' (o : TraceOpts) (ls : List Str) (t : Tree) (hN : WF t = true) :
    (∃ e, ptbDeleteTracesSlash o (some ls) t = .error e) ↔
      ((slashFillers o t).any (fun e => e.2.length > 1) = true ∧
          ∃ en ∈ slashTraces o t, ∃ tr ∈ en.2,
            resolveUp (slashTree o t) ((slashFillers o t).get en.1) (ancestors tr.2) = none) := by
  rw [slash_rejects_iff' o ls t hN]
  constructor
  · rintro (h | ⟨a, b, hab, en, hen, hhas, tr, htr, _, hg⟩)
    · exact h
    · exact absurd hg (slashGoal_some o t hN a b hab en hen hhas tr htr)
  · exact Or.inl

/-- the rejection does not depend on the label list -/
theorem slash_rejects_any_list (o : TraceOpts) (ls ls' : List Str) (t : Tree) (hN : WF t = true) :
    (∃ e, ptbDeleteTracesSlash o (some ls) t = .error e) ↔ (∃ e, ptbDeleteTracesSlash o (some ls') t = .error e) := by
  rw [slash_rejects_iff'' o ls t hN, slash_rejects_iff'' o ls' t hN]

/-- when every co-index has at most one filler, no well-formed call is rejected -/
theorem slash_accepts_unique (o : TraceOpts) (ls : List Str) (t : Tree) (hN : WF t = true)
    (hu : (slashFillers o t).any (fun e => e.2.length > 1) = false) :
    ∃ r, ptbDeleteTracesSlash o (some ls) t = .ok r := by
  rcases except_cases (ptbDeleteTracesSlash o (some ls) t) with h | h
  · have := ((slash_rejects_iff'' o ls t hN).1 h).1
    rw [hu] at this; cases this
  · exact h

example : WF exS = true ∧ (slashFillers { keepall := true } exS).any (fun e => e.2.length > 1) = false := by decide
example : ∃ r, ptbDeleteTracesSlash { keepall := true } (some ["NP".toList]) exS = .ok r :=
  slash_accepts_unique _ _ _ (by decide) (by decide)
example : ∃ e, ptbDeleteTracesSlash { keepall := true } (some ["X".toList]) exRej = .error e :=
  (slash_rejects_iff'' _ _ _ (by decide)).2 (by decide)

/-! ## the bottom-up resolution in tree terms -/

theorem findChildFiller_none_iff (q : Path) (fillers : List Path) : ∀ js : List Nat,
    findChildFiller q fillers js = none ↔ ∀ j ∈ js, q ++ [j] ∉ fillers
  | [] => by simp [findChildFiller]
  | j :: js => by
    simp only [findChildFiller]
    split
    · rename_i h
      simp only [reduceCtorEq, List.mem_cons, forall_eq_or_imp, false_iff, not_and]
      intro hj
      exact absurd (by simpa using h) hj
    · rename_i h
      rw [findChildFiller_none_iff q fillers js]
      simp only [List.mem_cons, forall_eq_or_imp]
      exact ⟨fun hh => ⟨by simpa using h, hh⟩, fun hh => hh.2⟩

theorem tryAncestor_none_iff (t : Tree) (q : Path) (fillers : List Path) : ∀ fs : List Path,
    tryAncestor t q fillers fs = none ↔
      (fs = [] ∨ (q ∉ fs ∧ ∀ j ∈ childOrderAt t q, q ++ [j] ∉ fillers))
  | [] => by simp [tryAncestor]
  | f :: fs => by
    simp only [tryAncestor]
    split
    · rename_i h; subst h; simp
    · rename_i h
      cases hc : findChildFiller q fillers (childOrderAt t q) with
      | some c =>
        have : ¬ ∀ j ∈ childOrderAt t q, q ++ [j] ∉ fillers := fun hh => by
          have := (findChildFiller_none_iff q fillers (childOrderAt t q)).2 hh
          rw [hc] at this; cases this
        simp only [reduceCtorEq, false_iff, not_or, not_and]
        exact ⟨by simp, fun _ => this⟩
      | none =>
        have hn := (findChildFiller_none_iff q fillers (childOrderAt t q)).1 hc
        simp only
        rw [tryAncestor_none_iff t q fillers fs]
        simp only [reduceCtorEq, false_or, List.mem_cons, not_or]
        constructor
        · rintro (rfl | ⟨h1, h2⟩)
          · exact ⟨⟨h, by simp⟩, hn⟩
          · exact ⟨⟨h, h1⟩, h2⟩
        · rintro ⟨⟨_, h1⟩, h2⟩
          exact Or.inr ⟨h1, h2⟩

/-- "no mapping found": none of the given ancestors is one of the fillers or has one of them as a child -/
theorem resolveUp_none_iff (t : Tree) (fillers : List Path) : ∀ qs : List Path,
    resolveUp t fillers qs = none ↔ ∀ q ∈ qs, q ∉ fillers ∧ ∀ j ∈ childOrderAt t q, q ++ [j] ∉ fillers
  | [] => by simp [resolveUp]
  | q :: qs => by
    simp only [resolveUp]
    cases ht : tryAncestor t q fillers fillers with
    | some f =>
      have : ¬ (fillers = [] ∨ (q ∉ fillers ∧ ∀ j ∈ childOrderAt t q, q ++ [j] ∉ fillers)) := fun hh => by
        have := (tryAncestor_none_iff t q fillers fillers).2 hh
        rw [ht] at this; cases this
      simp only [reduceCtorEq, List.mem_cons, forall_eq_or_imp, false_iff, not_and]
      intro h
      exact absurd (Or.inr h) this
    | none =>
      have h1 := (tryAncestor_none_iff t q fillers fillers).1 ht
      simp only
      rw [resolveUp_none_iff t fillers qs]
      simp only [List.mem_cons, forall_eq_or_imp]
      constructor
      · intro hh
        refine ⟨?_, hh⟩
        rcases h1 with rfl | h1
        · simp
        · exact h1
      · exact fun hh => hh.2

/-- the proper ancestors of a node: the proper prefixes of its path -/
theorem mem_ancestors (p q : Path) : q ∈ ancestors p ↔ (q <+: p ∧ q ≠ p) := by
  unfold ancestors dominancePaths
  rw [List.range_succ, List.reverse_append]
  simp only [List.reverse_cons, List.reverse_nil, List.nil_append, List.singleton_append, List.map_cons, List.drop_succ_cons,
    List.drop_zero, List.mem_map, List.mem_reverse, List.mem_range]
  constructor
  · rintro ⟨k, hk, rfl⟩
    refine ⟨List.take_prefix k p, fun h => ?_⟩
    have := congrArg List.length h
    simp at this; omega
  · rintro ⟨h, hne⟩
    have hl : q.length < p.length := by
      rcases Nat.lt_or_ge q.length p.length with hl | hl
      · exact hl
      · exact absurd (h.eq_of_length (Nat.le_antisymm h.length_le hl)) hne
    exact ⟨q.length, hl, (List.prefix_iff_eq_take.1 h).symm⟩

theorem mem_childOrderAt (t : Tree) (q : Path) (j : Nat) : j ∈ childOrderAt t q ↔ (t.get? (q ++ [j])).isSome = true := by
  unfold childOrderAt
  rw [get?_append]
  cases hq : t.get? q with
  | none => simp
  | some x =>
    simp only [Option.bind_some]
    unfold childOrder
    rw [(TT.Lemmas.Nav.orderedIdx_perm x.kids).mem_iff, List.mem_range]
    cases x with
    | leaf n f => simp [kids, get?]
    | node f ks =>
      simp only [kids, get?]
      cases hk : ks[j]? with
      | none => simpa using hk
      | some k =>
        have : j < ks.length := by
          rcases Nat.lt_or_ge j ks.length with h | h
          · exact h
          · rw [List.getElem?_eq_none h] at hk; cases hk
        simp [this]

/-- C11 9 (iii'-geo): the first kind of rejection in tree terms: the bottom-up resolution finds no filler for the node
    at `p` exactly when no proper ancestor of it is one of the fillers or has one of them among its children -/
theorem resolveUp_ancestors_none_iff (t : Tree) (fillers : List Path) (p : Path) :
    resolveUp t fillers (ancestors p) = none ↔
      ∀ q, q <+: p → q ≠ p → q ∉ fillers ∧ ∀ j, (t.get? (q ++ [j])).isSome = true → q ++ [j] ∉ fillers := by
  rw [resolveUp_none_iff]
  constructor
  · intro h q h1 h2
    obtain ⟨ha, hb⟩ := h q ((mem_ancestors p q).2 ⟨h1, h2⟩)
    exact ⟨ha, fun j hj => hb j ((mem_childOrderAt t q j).2 hj)⟩
  · intro h q hq
    obtain ⟨h1, h2⟩ := (mem_ancestors p q).1 hq
    obtain ⟨ha, hb⟩ := h q h1 h2
    exact ⟨ha, fun j hj => hb j ((mem_childOrderAt t q j).1 hj)⟩

/-- C11 clause 9 (iii') in tree terms: a well-formed call of the slash branch (any label list) is rejected exactly when
    some co-index has several fillers and there is a recorded trace none of whose proper ancestors is a filler of its
    co-index or has such a filler among its children -/
theorem slash_rejects_tree (o : TraceOpts) (ls : List Str) (t : Tree) (hN : WF t = true) :
    (∃ e, ptbDeleteTracesSlash o (some ls) t = .error e) ↔
      ((slashFillers o t).any (fun e => e.2.length > 1) = true ∧
          ∃ en ∈ slashTraces o t, ∃ tr ∈ en.2, ∀ q, q <+: tr.2 → q ≠ tr.2 →
            q ∉ (slashFillers o t).get en.1 ∧
            ∀ j, ((slashTree o t).get? (q ++ [j])).isSome = true → q ++ [j] ∉ (slashFillers o t).get en.1) := by
  rw [slash_rejects_iff'' o ls t hN]
  simp only [resolveUp_ancestors_none_iff]

/-- `exRej`: the trace `*T*-1` sits at `[1, 0]`, the fillers of co-index 1 at `[0, 0, 0]` and `[0, 0, 1]`: neither `[]`
    nor `[1]` is one of them or the parent of one -/
example : slashTraces { keepall := true } exRej = [("1".toList, [(3, [1, 0])])] ∧
    slashFillers { keepall := true } exRej = [("1".toList, [[0, 0, 0], [0, 0, 1]])] := by decide

end TT.Props.C11Slash4
