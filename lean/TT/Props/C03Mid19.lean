/-
  C03Mid19 — wave 19, C03 row 3 (audit A, "still missing" 2 and 4): TIGER-XML as the MIDDLE format, and file lifts.

  * `tiger_export_tiger_id`        TIGER-XML -> export -> TIGER-XML for a `VROOT`-rooted sentence: NOT the identity.  The lines written
                                   at the end decode (independent decoder `decTiger`) to the TIGER content of the EXPORT content of the
                                   sentence, `carryTigerRoot (carryExportRoot {} x)`: the lemma of every token is lost (export 3 has no
                                   lemma column), everything else TIGER-XML holds comes back (examples `exV_loss`, `exV_only_lemma`)
  * `export_tiger_export_id_file`  export -> TIGER-XML -> export on a file of ANY number of sentences gives the text back
                                   (file lift of `C03Chain.export_tiger_export_id`; middle = element structures `xsentOf`)
  * `export_tiger_export_text_id`  the same with the middle as TEXT: the TIGER-XML document the command writes, parsed by the model's
                                   own XML parser (`readTigerText`), converted back, is the export text
  helpers in `Lemmas/Mid19.lean` (`NoNtMorph`, `readBack_facts`, `bodyText_tigerBack`).
-/
import TT.Lemmas.Mid19
import TT.Props.C03Xml
namespace TT.Props.C03Mid19
open TT TT.Tree TT.Spec TT.Xml
open TT.Lemmas.Run TT.Lemmas.ExportRT TT.Lemmas.WF TT.Lemmas.More12h TT.Props.C03Total TT.Props.C01Readers TT.Props.C03Chain
open TT.Lemmas.Mid19 TT.Lemmas.Xml19

local instance instDecEqExcept {ε α} [DecidableEq ε] [DecidableEq α] : DecidableEq (Except ε α)
  | .ok a, .ok b => decidable_of_iff (a = b) (by simp)
  | .error a, .error b => decidable_of_iff (a = b) (by simp)
  | .ok _, .error _ => isFalse (by simp)
  | .error _, .ok _ => isFalse (by simp)

/-! ## 1. TIGER-XML -> export -> TIGER-XML -/

/-- `tiger_export_tiger_id` (C03 row 3, A -> B -> A with A = TIGER-XML, B = export): the element structure of a `VROOT`-rooted
    sentence `x` (`xsentOf sid x`), converted by the command into export (`ls`), read by the export reader (`r`) and converted by
    the command back into TIGER-XML (`writeTiger sid r`).  The independent TIGER decoder recovers from the final lines the TIGER
    content of the export content of `x` - i.e. what both formats hold; compared with `carryTigerRoot x` the lemma of the tokens is
    lost (see the examples).  Hypotheses: those of `tiger_to_export` and of the export reader round trip. -/
theorem tiger_export_tiger_id (o : OutOpts) (enc : Option Str) (sid : Nat) (x : Tree)
    (hwf : WF x = true) (hok : ExportOK {} x = true) (hN : x.leafNums.length < 500)
    (hE : ∀ s ∈ x.subtrees, s.isLeaf = true → "#EOS".toList.isPrefixOf (s.fields.word.getD []) = false)
    (hroot : x.fields.label = DEFAULT_ROOT) (hk : ∀ k ∈ x.kids, ∀ s ∈ subtrees k, TigerKeeps s) :
    ∃ ls r, runFrom [] .export {} none (readTiger {} [xsentOf sid x]) = .ok (unlines ls) ∧
      readExport {} (unlines ls) = .ok [(sid, r)] ∧
      runFrom [] .tigerxml o enc (readExport {} (unlines ls)) = .ok (tigerFrame enc (unlines (writeTiger sid r))) ∧
      ∃ s, decTiger (writeTiger sid r) = some s ∧ strToNat? s.sid = some sid ∧
        sameTree s.tree (carryTigerRoot (carryExportRoot {} x)) = true := by
  obtain ⟨ls, h⟩ := TT.Props.C02Export.writeExport_total {} sid x hok
  have h1 := tiger_to_export_lines {} ⟨rfl, rfl, rfl, rfl⟩ rfl sid x ls hwf hN hroot hk h
  obtain ⟨r, hr, hnf, wr, wc⟩ := TT.Props.C03Conv19.readExport_written sid x ls h hwf hok hN hE
  obtain ⟨_, hl, _⟩ := readBack_facts x r hnf ⟨hwf, hok, hN, hE⟩ (fun k hkk s hs hlf => (hk k hkk s hs).2 hlf)
  obtain ⟨s, hs1, hs2, hs3⟩ := TT.Props.C02Disco.decTiger_write_root sid r wr hl
  refine ⟨ls, r, h1, hr, ?_, s, hs1, hs2, ?_⟩
  · rw [hr, runFrom_ok, transformAll_nil_steps]
    show writeAll .tigerxml o enc [(sid, r)] = _
    rw [writeAll_tiger]
    unfold bodyText
    rw [List.mapM_cons, List.mapM_nil]
    simp [writeOne, bind, Except.bind, pure, Except.pure, unlines]
  · unfold sameTree at hs3 ⊢
    rw [eq_of_beq _ _ hs3, ct_carryTigerRoot_nf r (WF_isLeaf r wr), hnf, ← ct_carryTigerRoot_nf _ (WF_isLeaf _ wc)]
    exact TT.Lemmas.Write.beq_refl _

/-- `exV` of C03Chain (`VROOT`-rooted, root edge `XX`, token morphology, a token lemma `cc`, XML specials, children out of order) -/
example : ∃ ls r, runFrom [] .export {} none (readTiger {} [xsentOf 7 exV]) = .ok (unlines ls) ∧
    readExport {} (unlines ls) = .ok [(7, r)] ∧
    runFrom [] .tigerxml {} none (readExport {} (unlines ls)) = .ok (tigerFrame none (unlines (writeTiger 7 r))) ∧
    ∃ s, decTiger (writeTiger 7 r) = some s ∧ strToNat? s.sid = some 7 ∧
      sameTree s.tree (carryTigerRoot (carryExportRoot {} exV)) = true :=
  tiger_export_tiger_id {} none 7 exV (by decide +kernel) (by decide +kernel) (by decide +kernel) (by decide +kernel)
    (by decide +kernel) (by decide +kernel)

/-- the exact loss: the content that comes back is NOT the TIGER content of `exV` ... -/
theorem exV_loss : sameTree (carryTigerRoot (carryExportRoot {} exV)) (carryTigerRoot exV) = false := by decide +kernel

/-- ... it is the TIGER content of `exV` with the lemma `cc` of token 3 removed, and nothing else changed -/
theorem exV_only_lemma : sameTree (carryTigerRoot (carryExportRoot {} exV))
    (carryTigerRoot (node { label := "VROOT".toList, edge := some "XX".toList }
      [leaf 2 { label := "B".toList, word := some "b<&".toList, edge := some "HD".toList, morph := some "3.Sg".toList },
       node { label := "VP".toList, edge := some "OC".toList } [leaf 3 { label := "C".toList, word := some "c".toList },
         leaf 1 { label := "A".toList, word := some "a".toList }]])) = true := by decide +kernel

/-- `tiger_export_tiger_id` without loss: when no token carries a lemma, the content that comes back is the TIGER content of the
    sentence itself (the same content as from `writeTiger sid x`, `C02Disco.decTiger_write_root`) -/
theorem tiger_export_tiger_id_noLemma (o : OutOpts) (enc : Option Str) (sid : Nat) (x : Tree)
    (hwf : WF x = true) (hok : ExportOK {} x = true) (hN : x.leafNums.length < 500)
    (hE : ∀ s ∈ x.subtrees, s.isLeaf = true → "#EOS".toList.isPrefixOf (s.fields.word.getD []) = false)
    (hroot : x.fields.label = DEFAULT_ROOT) (hk : ∀ k ∈ x.kids, ∀ s ∈ subtrees k, TigerKeeps s) (hl : NoLemma x) :
    ∃ ls r, runFrom [] .export {} none (readTiger {} [xsentOf sid x]) = .ok (unlines ls) ∧
      readExport {} (unlines ls) = .ok [(sid, r)] ∧
      runFrom [] .tigerxml o enc (readExport {} (unlines ls)) = .ok (tigerFrame enc (unlines (writeTiger sid r))) ∧
      ∃ s, decTiger (writeTiger sid r) = some s ∧ strToNat? s.sid = some sid ∧ sameTree s.tree (carryTigerRoot x) = true := by
  have := tiger_export_tiger_id o enc sid x hwf hok hN hE hroot hk
  rwa [carryTigerRoot_carryExportRoot x (WF_isLeaf x hwf) hroot hl] at this

/-- `exV` without the lemma of token 3 -/
def exV0 : Tree := node { label := "VROOT".toList, edge := some "XX".toList }
  [leaf 2 { label := "B".toList, word := some "b<&".toList, edge := some "HD".toList, morph := some "3.Sg".toList },
   node { label := "VP".toList, edge := some "OC".toList } [leaf 3 { label := "C".toList, word := some "c".toList },
     leaf 1 { label := "A".toList, word := some "a".toList }]]

example : ∃ ls r, runFrom [] .export {} none (readTiger {} [xsentOf 7 exV0]) = .ok (unlines ls) ∧
    readExport {} (unlines ls) = .ok [(7, r)] ∧
    runFrom [] .tigerxml {} none (readExport {} (unlines ls)) = .ok (tigerFrame none (unlines (writeTiger 7 r))) ∧
    ∃ s, decTiger (writeTiger 7 r) = some s ∧ strToNat? s.sid = some 7 ∧ sameTree s.tree (carryTigerRoot exV0) = true :=
  tiger_export_tiger_id_noLemma {} none 7 exV0 (by decide +kernel) (by decide +kernel) (by decide +kernel) (by decide +kernel)
    (by decide +kernel) (by decide +kernel) (by decide +kernel)

example : ¬ NoLemma exV := by decide +kernel

/-- the same seen on the texts: the whole chain run by evaluation; the `lemma` attribute of token 3 is `--` at the end -/
example : ((runFrom [] .export {} none (readTiger {} [xsentOf 7 exV])).toOption.bind fun ex =>
      (readExport {} ex).toOption.bind fun rs => rs.head?.map fun sr =>
        ((xsentOf sr.1 sr.2).terms.map fun t => (t.word, t.lemma))) =
      some [(some "a".toList, some "--".toList), (some "b<&".toList, some "--".toList), (some "c".toList, some "--".toList)] ∧
    ((xsentOf 7 exV).terms.map fun t => (t.word, t.lemma)) =
      [(some "a".toList, some "--".toList), (some "b<&".toList, some "--".toList), (some "c".toList, some "cc".toList)] := by
  decide +kernel

/-! ## 2. export -> TIGER-XML -> export for a file of k sentences -/

/-- the command into TIGER-XML on sentences that were read -/
theorem runFrom_tiger_ok (o : OutOpts) (enc : Option Str) (rs : List (Nat × Tree)) :
    runFrom [] .tigerxml o enc (.ok rs) = .ok (tigerFrame enc (rs.flatMap fun st => ulines (writeTiger st.1 st.2))) := by
  rw [runFrom_body, bodyText_tiger]
  simp [Except.map, frame]

/-- `export_tiger_export_id_file` (file lift of `C03Chain.export_tiger_export_id`): an export file of ANY number of sentences
    written by the command, read by the export reader (`rs`: same ids, the export content of every sentence), converted by the
    command into a TIGER-XML document (one `<s>` per sentence, whose element structures are `xsentOf` of `rs`), read by the
    TIGER-XML reader and converted by the command back into export, is the original text.  Per sentence: the hypotheses of
    `export_tiger_export_id` (`SentOK`, and no constituent below the root carries morphology). -/
theorem export_tiger_export_id_file (o : OutOpts) (enc : Option Str) (sents : List (Nat × Tree)) (text : Str)
    (hw : runFrom [] .export {} none (.ok sents) = .ok text) (hs : ∀ p ∈ sents, SentOK p.2 ∧ NoNtMorph p.2) :
    ∃ rs, readExport {} text = .ok rs ∧ Each₂ ReadBack rs sents ∧
      runFrom [] .tigerxml o enc (readExport {} text) =
        .ok (tigerFrame enc (rs.flatMap fun st => ulines (writeTiger st.1 st.2))) ∧
      runFrom [] .export {} none (readTiger {} (rs.map fun st => xsentOf st.1 st.2)) = .ok text := by
  obtain ⟨⟨rs, hread, hall⟩, _⟩ := export_export_id_file {} ⟨rfl, rfl, rfl, rfl⟩ rfl sents text hw (fun p hp => (hs p hp).1)
  have hb : bodyText .export {} sents = .ok text := by
    rw [runFrom_body] at hw
    cases hb : bodyText .export {} sents with
    | error e => rw [hb] at hw; cases hw
    | ok b => rw [hb] at hw; simpa [Except.map, frame] using hw
  obtain ⟨rs', hl, hrt, hsame, _⟩ := readTiger_xsents {} rfl rfl rs (each₂_readBack_ok rs sents hall hs)
  refine ⟨rs, hread, hall, by rw [hread]; exact runFrom_tiger_ok o enc rs, ?_⟩
  rw [hrt]
  simp only [Bool.false_eq_true, if_false]
  rw [runFrom_body, bodyText_tigerBack rs' rs sents hl hsame hall hs, hb]
  simp [Except.map, frame]

/-- the four-sentence file `exFile` of C03Total (ids 9, 2, 7, 2; two sentences discontinuous; edges, morphology, XML specials) -/
theorem exFile_ok : ∀ p ∈ exFile, SentOK p.2 ∧ NoNtMorph p.2 := by
  intro p hp
  simp only [exFile, List.mem_cons, List.not_mem_nil, or_false] at hp
  rcases hp with rfl | rfl | rfl | rfl <;> exact ⟨by decide +kernel, by decide +kernel⟩

theorem exFile_written : runFrom [] .export {} none (.ok exFile) = .ok exFileText := by decide +kernel

example : ∃ rs, readExport {} exFileText = .ok rs ∧ Each₂ ReadBack rs exFile ∧
    runFrom [] .tigerxml {} none (readExport {} exFileText) =
      .ok (tigerFrame none (rs.flatMap fun st => ulines (writeTiger st.1 st.2))) ∧
    runFrom [] .export {} none (readTiger {} (rs.map fun st => xsentOf st.1 st.2)) = .ok exFileText :=
  export_tiger_export_id_file {} none exFile exFileText exFile_written exFile_ok

/-- `NoNtMorph` cannot be dropped (`exM` of C03Chain: the morphology `Pl` of the constituent `VP` comes back as `--`) -/
example : ¬ NoNtMorph exM := by decide +kernel

/-! ## 3. the same with the TIGER-XML middle as TEXT -/

/-- `export_tiger_export_text_id`: the export file converted by the command into TIGER-XML gives a document `xml` (always); when
    its characters are legal XML characters (the writer copies control characters, `C03Xml`), the TEXT `xml`, parsed by the model's
    XML parser and read by the TIGER-XML reader (`readTigerText`), converted by the command back into export, is the original
    export text.  `EncOK enc`: the declared encoding, if any, is an XML `EncName`. -/
theorem export_tiger_export_text_id (o : OutOpts) (enc : Option Str) (henc : EncOK enc) (sents : List (Nat × Tree)) (text : Str)
    (hw : runFrom [] .export {} none (.ok sents) = .ok text) (hs : ∀ p ∈ sents, SentOK p.2 ∧ NoNtMorph p.2) :
    ∃ xml, runFrom [] .tigerxml o enc (readExport {} text) = .ok xml ∧
      (xml.all xmlCharOK = true → runFrom [] .export {} none (readTigerText {} xml) = .ok text) := by
  obtain ⟨rs, hread, _, hx, hback⟩ := export_tiger_export_id_file o enc sents text hw hs
  refine ⟨_, hx, fun hc => ?_⟩
  have hwa : writeAll .tigerxml o enc rs = .ok (tigerFrame enc (rs.flatMap fun st => ulines (writeTiger st.1 st.2))) := by
    rw [writeAll_tiger, bodyText_tiger]; rfl
  rw [readTigerText, TT.Props.C03Xml.parseXmlDoc_write o enc rs _ henc hwa hc]
  exact hback

/-- ... in the form with the document named: any `xml` the command writes -/
theorem export_tiger_export_text_id' (o : OutOpts) (enc : Option Str) (henc : EncOK enc) (sents : List (Nat × Tree)) (text xml : Str)
    (hw : runFrom [] .export {} none (.ok sents) = .ok text) (hs : ∀ p ∈ sents, SentOK p.2 ∧ NoNtMorph p.2)
    (hx : runFrom [] .tigerxml o enc (readExport {} text) = .ok xml) (hc : xml.all xmlCharOK = true) :
    runFrom [] .export {} none (readTigerText {} xml) = .ok text := by
  obtain ⟨xml', h1, h2⟩ := export_tiger_export_text_id o enc henc sents text hw hs
  rw [hx] at h1
  injection h1 with h1
  subst h1
  exact h2 hc

/-- the document written for `exFileText`, declared `utf-8` -/
def exMidXml : Str := (runFrom [] .tigerxml {} (some "utf-8".toList) (readExport {} exFileText)).toOption.getD []

theorem exMidXml_ok : runFrom [] .tigerxml {} (some "utf-8".toList) (readExport {} exFileText) = .ok exMidXml ∧
    exMidXml.all xmlCharOK = true ∧ exMidXml.length > 1000 := by decide +kernel

example : runFrom [] .export {} none (readTigerText {} exMidXml) = .ok exFileText :=
  export_tiger_export_text_id' {} (some "utf-8".toList) (by intro e he; injection he with he; subst he; decide +kernel)
    exFile exFileText exMidXml exFile_written exFile_ok exMidXml_ok.1 exMidXml_ok.2.1

end TT.Props.C03Mid19
