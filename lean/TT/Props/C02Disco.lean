/-
  C02Disco — wave 12, clause audit of C02 (writers encode every tree faithfully).

  * `decDisco_write`            the discobracket writer round trip through the independent decoder `decDisco` (row 6; corrected:
                                labels must be TAB-free, words need not be non-empty), no continuity hypothesis
  * `decBrackets_writeBrackets` the bracket round trip at the writer's entry point, `emptyRoot = true` included (rows 5, 9)
  * `writeBrackets_refuses_discontinuous`, `writeBrackets_skips_discontinuous`, `writeBrackets_of_continuous`
                                the refusal clause against `Spec.discontinuous` (token SETS with a gap), plus
                                `gapDegree_pos_iff` (blocks, as proposed) and `gapDegree_pos_iff_discontinuous` (row 11)
  * `writeExport_total_plain`, `bracketsSub_total_gf`, `writeDisco_total`, `writeBrackets_total`, `writeTerminals_total` (row 10)
  * `writeTerminals_split`      terminals format for the four option combinations (row 7)
  * `decTiger_write_root`       TIGER-XML round trip without the condition on the root edge (row 3)
  * `decExport_write_decor`     the decoded export file against `Spec.decorations` instead of the model's `getLabel` (row 8)
  * `writeTiger_amp`            no raw `&` in a TIGER-XML line (row 4)
-/
import TT.Lemmas.More12i
import TT.Lemmas.Run
import TT.Lemmas.Boyd
import TT.Lemmas.RcgRT
import TT.Spec.More12i
import TT.Props.C02
import TT.Props.C02Tiger
import TT.Props.C02Carry
import TT.Props.C02Export
import TT.Props.C20
import TT.Lemmas.TigerRT
namespace TT.Props.C02Disco
open TT TT.Tree TT.Spec
open TT.Lemmas.Write TT.Lemmas.GramOut TT.Lemmas.WF TT.Lemmas.More12i

/-- equality of writer results is decidable (used by the concrete instances below only) -/
local instance instDecEqExcept {ε α} [DecidableEq ε] [DecidableEq α] : DecidableEq (Except ε α)
  | .ok a, .ok b => decidable_of_iff (a = b) (by simp)
  | .error a, .error b => decidable_of_iff (a = b) (by simp)
  | .ok _, .error _ => isFalse (by simp)
  | .error _, .ok _ => isFalse (by simp)

/-! ### discobrackets: the independent decoder recovers tree and sentence -/

/-- what a discobracket line holds: the bracket content with the words taken, unmapped, from the sentence part
    (the expectation of the check `P.C02.disco`) -/
def fixWords (t : Tree) (c : Tree) : Tree :=
  Tree.mapFields (fun s f => match s with
    | leaf n _ => { f with word := (t.findLeaf n).bind (·.fields.word) }
    | _ => f) c

theorem word_agree (t : Tree) (hwf : WF t = true)
    (hw : ∀ x ∈ t.subtrees, x.isLeaf = true → x.fields.word.isSome = true) (n : Nat) (hn : n ∈ t.leafNums) :
    some (((t.terminals.map fun l => l.fields.word.getD "None".toList)[n - 1]?).getD []) =
      (t.findLeaf n).bind (·.fields.word) := by
  have hy := TT.Props.C19.yield_of_WF t hwf
  have hmem : n ∈ yield t := (mem_yield t n).2 hn
  rw [hy] at hmem
  have hlen : (t.terminals).length = t.leafNums.length := by
    have := congrArg List.length hy; simpa [yield] using this
  have hlt : n - 1 < t.terminals.length := by
    rw [hlen]; simp only [List.mem_range'_1] at hmem; omega
  have hnum : (t.terminals[n - 1]).num = n := by
    have : (yield t)[n - 1]? = some n := by
      rw [hy, List.getElem?_range']
      · simp only [List.mem_range'_1] at hmem; congr 1; omega
      · simp only [List.mem_range'_1] at hmem; omega
    unfold yield at this
    rw [List.getElem?_map, List.getElem?_eq_getElem hlt] at this
    simpa using this
  have hl : t.terminals[n - 1] ∈ t.leaves := (mem_sortBy num t.leaves _).1 (List.getElem_mem hlt)
  have hf := TT.Lemmas.Punct.findLeaf_of_mem_nodup t _ (WF_nodup t hwf) hl
  rw [hnum] at hf
  obtain ⟨m, g, hg⟩ := TT.Lemmas.Punct.mem_leaves_isLeaf t _ hl
  have hsome := hw _ (TT.Lemmas.Punct.leaves_subset_subtrees t _ hl) (by rw [hg]; rfl)
  obtain ⟨w, hw'⟩ := Option.isSome_iff_exists.1 hsome
  rw [hf, List.getElem?_map, List.getElem?_eq_getElem hlt]
  simp [hw']


/-- the label text the bracket writers print for a node: the decorated label; for a token the decorated label of
    its fields after the parenthesis mapping -/
def labelText (o : OutOpts) (x : Tree) : Str :=
  printedLabel o (if x.isLeaf then x.setFields replaceParensFields else x)

/-- the printed labels are free of the characters that structure a discobracket line -/
def DiscoLabels (o : OutOpts) (t : Tree) : Prop :=
  (o.emptyRoot = false → ∀ c ∈ labelText o t, c ≠ '(' ∧ c ≠ ')' ∧ c ≠ ' ' ∧ c ≠ '\t') ∧
  ∀ k ∈ t.kids, ∀ x ∈ k.subtrees, ∀ c ∈ labelText o x, c ≠ '(' ∧ c ≠ ')' ∧ c ≠ ' ' ∧ c ≠ '\t'

instance (o : OutOpts) (t : Tree) : Decidable (DiscoLabels o t) := by unfold DiscoLabels; infer_instance

theorem labelText_eq_shown (o : OutOpts) (x : Tree) : labelText o x = shown o x := by
  cases x <;> rfl

theorem writeDisco_ok (o : OutOpts) (t : Tree) (s : Str) (h : writeDisco o t = .ok s) :
    ∃ tr, bracketsSub o o.emptyRoot (wordsToNums t) = .ok tr ∧
      s = tr ++ '\t' :: joinWith [' '] (t.terminals.map fun l => l.fields.word.getD "None".toList) := by
  unfold writeDisco at h
  cases hb : bracketsSub o o.emptyRoot (wordsToNums t) with
  | error e => rw [hb] at h; cases h
  | ok tr => rw [hb] at h; simp only [Except.map, Except.ok.injEq] at h; exact ⟨tr, rfl, by rw [← h]; simp⟩

/-- the tree part of a discobracket line decodes (from any counter) to the carried content of the index tree -/
theorem disco_tree_part (o : OutOpts) (f : Fields) (ks : List Tree) (tr : Str) (hne : (node f ks).noEmpty = true)
    (hlab : DiscoLabels o (node f ks))
    (h : bracketsSub o o.emptyRoot (wordsToNums (node f ks)) = .ok tr) :
    '\t' ∉ tr ∧ ∃ d d', decBrackets tr = some d ∧ renumberByWord d = some d' ∧
      sortKids d' = sortKids (carryBrackets o true (wordsToNums (node f ks))) := by
  obtain ⟨hks, hkne⟩ := (noEmpty_node_iff f ks).1 hne
  have hks' : ks.map wordsToNums ≠ [] := by simpa using hks
  -- the tree that is really printed: with `emptyRoot` a constituent that prints the empty label
  obtain ⟨f0, hf0, hlab0, hcarry⟩ : ∃ f0, bracketsSub o false (node f0 (ks.map wordsToNums)) = .ok tr ∧
      (∀ c ∈ shown o (node f0 ks), c ≠ '(' ∧ c ≠ ')' ∧ c ≠ ' ' ∧ c ≠ '\t') ∧
      carryBrackets o false (node f0 (ks.map wordsToNums)) = carryBrackets o true (node f (ks.map wordsToNums)) := by
    cases her : o.emptyRoot with
    | false =>
      refine ⟨f, by rw [← wordsToNums_node, ← her]; exact h, (by intro c hc; rw [← labelText_eq_shown] at hc; exact hlab.1 her c hc), ?_⟩
      rw [carryBrackets, carryBrackets, her]; rfl
    | true =>
      refine ⟨silentFields, ?_, ?_, ?_⟩
      · rw [← bracketsSub_emptyRoot o f _ hks', ← wordsToNums_node, ← her]; exact h
      · intro c hc; simp [shown, printedLabel_silent] at hc
      · rw [carryBrackets, carryBrackets, her, printedLabel_silent]; rfl
  have hsubs : ∀ y ∈ subtrees (node f0 (ks.map wordsToNums)),
      ∀ c ∈ shown o y, c ≠ '(' ∧ c ≠ ')' ∧ c ≠ ' ' ∧ c ≠ '\t' := by
    intro y hy
    rcases (mem_subtrees_node _ _ y).1 hy with rfl | ⟨k', hk', hy'⟩
    · have e : shown o (node f0 (ks.map wordsToNums)) = shown o (node f0 ks) :=
        printedLabel_node_congr o f0 _ _ (by cases ks <;> rfl)
      rw [e]; exact hlab0
    · obtain ⟨k, hk, rfl⟩ := List.mem_map.1 hk'
      obtain ⟨y0, hy0, rfl⟩ := mem_subtrees_wordsToNums k y hy'
      rw [shown_wordsToNums]
      intro c hc; rw [← labelText_eq_shown] at hc
      exact hlab.2 k hk y0 hy0 c hc
  have hne0 : (node f0 (ks.map wordsToNums)).noEmpty = true := by
    refine (noEmpty_node_iff _ _).2 ⟨hks', ?_⟩
    intro k' hk'
    obtain ⟨k, hk, rfl⟩ := List.mem_map.1 hk'
    exact noEmpty_wordsToNums k (hkne k hk)
  have hnw : NumWords (node f0 (ks.map wordsToNums)) := by
    intro n g hy
    rcases (mem_subtrees_node _ _ _).1 hy with e | ⟨k', hk', hy'⟩
    · cases e
    · obtain ⟨k, hk, rfl⟩ := List.mem_map.1 hk'
      exact numWords_wordsToNums k n g hy'
  constructor
  · refine bracket_text_chars o '\t' (by decide) _ hne0 (fun y hy hc => (hsubs y hy _ hc).2.2.2 rfl) ?_ tr hf0
    intro n g hy hc
    rw [show (replaceParensFields g).word = g.word.map replaceParens from rfl, hnw n g hy] at hc
    simp only [Option.map_some, Option.getD_some, replaceParens_natToStr] at hc
    have := natToStr_isDigit n _ hc; revert this; decide
  · have hdec := decOKd o _ hne0 hnw (fun y hy => (labOKd_iff o y).2 (fun c hc => by
      obtain ⟨a, b, c', _⟩ := hsubs y hy c hc; exact ⟨a, b, c'⟩))
    obtain ⟨_, hdec⟩ := hdec tr hf0
    obtain ⟨d, d', hd, hr, hsd⟩ := hdec (2 * tr.length + 2) (by omega) [] 1
    rw [List.append_nil] at hd
    refine ⟨d, d', ?_, hr, ?_⟩
    · unfold decBrackets; rw [hd]
    · rw [hsd, hcarry, wordsToNums_node]


/-- CORRECTED `decDisco_write` (C02 row 6).  Changes against the proposal: the printed labels must also be free of
    TAB (a TAB in a label makes the line split into three parts: `exTabLabel` below); the words need not be non-empty;
    `hw` (every token has a word) is needed as for plain brackets (a missing word is printed `None`).  No continuity
    hypothesis: the writer is total on discontinuous trees and the decoder recovers them. -/
theorem decDisco_write (o : OutOpts) (t : Tree) (s : Str) (hwf : WF t = true) (h : writeDisco o t = .ok s)
    (hlab : DiscoLabels o t)
    (hw : ∀ x ∈ t.subtrees, x.isLeaf = true → x.fields.word.isSome = true)
    (hwd : ∀ x ∈ t.subtrees, x.isLeaf = true → ∀ c ∈ x.fields.word.getD [], c ≠ ' ' ∧ c ≠ '\t') :
    ∃ d, decDisco s = some d ∧ sameTree d (fixWords t (carryBrackets o true t)) = true := by
  obtain ⟨tr, htr, rfl⟩ := writeDisco_ok o t s h
  have hne := WF_noEmpty t hwf
  cases t with
  | leaf n f => simp [WF, isLeaf] at hwf
  | node f ks =>
  obtain ⟨htab, d, d', hd, hr, hsd⟩ := disco_tree_part o f ks tr hne hlab htr
  -- the sentence part
  let ws := (node f ks).terminals.map fun l => l.fields.word.getD "None".toList
  have hterm : ∀ l ∈ (node f ks).terminals, l ∈ (node f ks).subtrees ∧ l.isLeaf = true := by
    intro l hl
    have hl' : l ∈ (node f ks).leaves := (mem_sortBy num _ _).1 hl
    obtain ⟨m, g, rfl⟩ := TT.Lemmas.Punct.mem_leaves_isLeaf _ _ hl'
    exact ⟨TT.Lemmas.Punct.leaves_subset_subtrees _ _ hl', rfl⟩
  have hwsc : ∀ w ∈ ws, ' ' ∉ w ∧ '\t' ∉ w := by
    intro w hwm
    obtain ⟨l, hl, rfl⟩ := List.mem_map.1 hwm
    obtain ⟨h1, h2⟩ := hterm l hl
    obtain ⟨w0, hw0⟩ := Option.isSome_iff_exists.1 (hw l h1 h2)
    have := hwd l h1 h2
    rw [hw0] at this ⊢
    exact ⟨fun hc => (this _ hc).1 rfl, fun hc => (this _ hc).2 rfl⟩
  have hwsne : ws ≠ [] := by
    intro e
    have h1 : (node f ks).terminals.length = 0 := by
      have := congrArg List.length e; simpa [ws] using this
    have h2 : (node f ks).terminals.length = (node f ks).leafNums.length := by
      unfold terminals leafNums; rw [sortBy_length, List.length_map]
    exact noEmpty_leafNums_ne_nil _ hne (List.eq_nil_of_length_eq_zero (by omega))
  have htab2 : '\t' ∉ joinWith [' '] ws := by
    intro hc
    rcases mem_joinWith _ _ _ hc with hc | ⟨w, hwm, hc⟩
    · simp at hc
    · exact (hwsc w hwm).2 hc
  have hsplit : splitOnChar ' ' (joinWith [' '] ws) = ws :=
    TT.Lemmas.RcgRT.splitOnChar_joinWith ' ' ws hwsne (fun w hwm => (hwsc w hwm).1)
  refine ⟨setWords (fun n => some ((ws[n - 1]?).getD [])) d', ?_, ?_⟩
  · unfold decDisco
    rw [splitOnChar_one '\t' tr _ htab htab2]
    simp only [hd, hr, hsplit, Option.bind_some, Option.map_some]
    rfl
  · unfold sameTree
    rw [sortKids_setWords, hsd, ← sortKids_setWords, setWords_carry_wordsToNums]
    have e : fixWords (node f ks) (carryBrackets o true (node f ks)) =
        setWords (fun n => ((node f ks).findLeaf n).bind (·.fields.word)) (carryBrackets o true (node f ks)) := rfl
    rw [e, setWords_congr _ (fun n => ((node f ks).findLeaf n).bind (·.fields.word))]
    · exact beq_refl _
    · intro n hn
      rw [leafNums_carry] at hn
      exact word_agree _ hwf hw n hn


open TT.Props.C02 in
/-- the discontinuous example tree, every token order lost in the bracket part and recovered from the indices -/
example : writeDisco {} exDisc = .ok "(S(VP(A 1)(C 3))(B 2))\ta b c".toList := by decide +kernel
open TT.Props.C02 in
example : ∃ d, decDisco "(S(VP(A 1)(C 3))(B 2))\ta b c".toList = some d ∧
    sameTree d (fixWords exDisc (carryBrackets {} true exDisc)) = true :=
  decDisco_write {} exDisc _ (by decide +kernel) (by decide +kernel) (by decide +kernel) (by decide +kernel)
    (by decide +kernel)
open TT.Props.C02 in
/-- with `emptyRoot`, a word with brackets (kept unmapped in the sentence part) and children stored out of order -/
example : ∃ d, decDisco "((NP(A 1))(B 2))\tw [b]".toList = some d ∧
    sameTree d (fixWords exCont (carryBrackets { emptyRoot := true } true exCont)) = true :=
  decDisco_write { emptyRoot := true } exCont _ (by decide +kernel) (by decide +kernel) (by decide +kernel)
    (by decide +kernel) (by decide +kernel)

/-- the added condition `c ≠ '\t'` on labels cannot be dropped: all other hypotheses hold, the line does not decode -/
def exTabLabel : Tree := node { label := "S\tX".toList } [leaf 1 { label := "A".toList, word := some "a".toList }]
example : WF exTabLabel = true ∧ writeDisco {} exTabLabel = .ok "(S\tX(A 1))\ta".toList ∧
    (∀ x ∈ exTabLabel.subtrees, ∀ c ∈ labelText {} x, c ≠ '(' ∧ c ≠ ')' ∧ c ≠ ' ') ∧
    (∀ x ∈ exTabLabel.subtrees, x.isLeaf = true → x.fields.word.isSome = true) ∧
    (∀ x ∈ exTabLabel.subtrees, x.isLeaf = true → ∀ c ∈ x.fields.word.getD [], c ≠ ' ' ∧ c ≠ '\t') ∧
    decDisco "(S\tX(A 1))\ta".toList = none := by decide +kernel
/-- `hw` cannot be dropped: a token without a word is written `None` and comes back as the word "None" -/
example : (decDisco "(S(A 1))\tNone".toList).map (fun d => sameTree d (fixWords TT.Props.C02.exNoWord (carryBrackets {} true TT.Props.C02.exNoWord))) = some false ∧
    writeDisco {} TT.Props.C02.exNoWord = .ok "(S(A 1))\tNone".toList := by decide +kernel
/-- `hwd` cannot be dropped: a blank inside a word shifts the following words -/
def exBlankWord : Tree := node { label := "S".toList } [leaf 1 { label := "A".toList, word := some "a b".toList }, leaf 2 { label := "B".toList, word := some "c".toList }]
example : writeDisco {} exBlankWord = .ok "(S(A 1)(B 2))\ta b c".toList ∧
    (decDisco "(S(A 1)(B 2))\ta b c".toList).map (fun d => sameTree d (fixWords exBlankWord (carryBrackets {} true exBlankWord))) = some false := by
  decide +kernel


/-! ### the bracket writer at its entry point, `emptyRoot` included (C02 rows 5 and 9) -/

/-- the printed labels are free of the characters that structure a bracket line (the root's label only when it is printed) -/
def BracketLabels (o : OutOpts) (t : Tree) : Prop :=
  (o.emptyRoot = false → ∀ c ∈ labelText o t, c ≠ '(' ∧ c ≠ ')' ∧ c ≠ ' ') ∧
  ∀ k ∈ t.kids, ∀ x ∈ k.subtrees, ∀ c ∈ labelText o x, c ≠ '(' ∧ c ≠ ')' ∧ c ≠ ' '

instance (o : OutOpts) (t : Tree) : Decidable (BracketLabels o t) := by unfold BracketLabels; infer_instance

theorem writeBrackets_some (o : OutOpts) (t : Tree) (s : Str) (h : writeBrackets o t = .ok (some s)) :
    gapDegree t = 0 ∧ bracketsSub o o.emptyRoot t = .ok s := by
  unfold writeBrackets at h
  by_cases hg : gapDegree t > 0
  · rw [if_pos hg] at h; split at h <;> cases h
  · rw [if_neg hg] at h
    refine ⟨by omega, ?_⟩
    cases hb : bracketsSub o o.emptyRoot t with
    | error e => rw [hb] at h; cases h
    | ok s' => rw [hb] at h; simp only [Except.map, Except.ok.injEq, Option.some.injEq] at h; rw [h]

/-- `decBrackets_writeBrackets`: the round trip for the top-level writer, for every option record (in particular
    `emptyRoot = true`, which `decBrackets_write'` does not cover).  Hypotheses as in `decBrackets_write'` (`hl`/`hr` in
    the form "the label text that is really printed", the root's only when it is printed). -/
theorem decBrackets_writeBrackets (o : OutOpts) (t : Tree) (s : Str) (hwf : WF t = true)
    (h : writeBrackets o t = .ok (some s)) (hlab : BracketLabels o t)
    (hw : ∀ x ∈ t.subtrees, x.isLeaf = true → x.fields.word.isSome = true) :
    ∃ d, decBrackets s = some d ∧ sameTree d (carryBrackets o true t) = true := by
  obtain ⟨hc, hs⟩ := writeBrackets_some o t s h
  have hne := WF_noEmpty t hwf
  have hgap := TT.Props.C02.gapDegreeNode_zero_of_gapDegree t hc
  have hlm := TT.Props.C02.leftmost_of_WF t hwf
  have hnd := WF_nodup t hwf
  cases t with
  | leaf n f => simp [WF, isLeaf] at hwf
  | node f ks =>
  obtain ⟨hks, hkne⟩ := (noEmpty_node_iff f ks).1 hne
  obtain ⟨f0, hf0, hlab0, hcarry⟩ : ∃ f0, bracketsSub o false (node f0 ks) = .ok s ∧
      goodLabel (printedLabel o (node f0 ks)) ∧
      carryBrackets o false (node f0 ks) = carryBrackets o true (node f ks) := by
    cases her : o.emptyRoot with
    | false =>
      refine ⟨f, by rw [← her]; exact hs, hlab.1 her, ?_⟩
      rw [carryBrackets, carryBrackets, her]; rfl
    | true =>
      refine ⟨silentFields, ?_, ?_, ?_⟩
      · rw [← bracketsSub_emptyRoot o f _ hks, ← her]; exact hs
      · intro c hc; simp [printedLabel_silent] at hc
      · rw [carryBrackets, carryBrackets, her, printedLabel_silent]; rfl
  have hsub : ∀ y ∈ subtrees (node f0 ks), y = node f0 ks ∨ ∃ k ∈ ks, y ∈ subtrees k :=
    fun y hy => (mem_subtrees_node f0 ks y).1 hy
  have hdec := decOK o (node f0 ks) ((noEmpty_node_iff f0 ks).2 ⟨hks, hkne⟩) hnd ?_ ?_
  · obtain ⟨_, hdec⟩ := hdec s hf0
    obtain ⟨d, hd, hsd⟩ := hdec (2 * s.length + 2) (by omega) []
    have e : leftmost (node f0 ks) = 1 := hlm
    rw [List.append_nil, e] at hd
    refine ⟨d, ?_, ?_⟩
    · unfold decBrackets; rw [hd]
    · unfold sameTree; rw [hsd, hcarry]; exact beq_refl _
  · intro y hy
    rcases hsub y hy with rfl | ⟨k, hk, hy'⟩
    · exact hgap (node f ks) (self_mem_subtrees _)
    · exact hgap y ((mem_subtrees_node f ks y).2 (Or.inr ⟨k, hk, hy'⟩))
  · intro y hy
    rcases hsub y hy with rfl | ⟨k, hk, hy'⟩
    · exact hlab0
    · have h1 := hlab.2 k hk y hy'
      have h2 := hw y ((mem_subtrees_node f ks y).2 (Or.inr ⟨k, hk, hy'⟩))
      cases y with
      | leaf n g => exact ⟨h2 rfl, h1⟩
      | node g ls => exact h1

open TT.Props.C02 in
example : writeBrackets { emptyRoot := true } exCont = .ok (some "((NP(A w))(B LSBbRSB))".toList) := by decide +kernel
open TT.Props.C02 in
/-- the empty root: the decoder delivers a root with the empty label -/
example : ∃ d, decBrackets "((NP(A w))(B LSBbRSB))".toList = some d ∧
    sameTree d (carryBrackets { emptyRoot := true } true exCont) = true :=
  decBrackets_writeBrackets { emptyRoot := true } exCont _ (by decide +kernel) (by decide +kernel) (by decide +kernel)
    (by decide +kernel)
open TT.Props.C02 in
example : ∃ d, decBrackets "(S(NP(A w))(B LSBbRSB))".toList = some d ∧ sameTree d (carryBrackets {} true exCont) = true :=
  decBrackets_writeBrackets {} exCont _ (by decide +kernel) (by decide +kernel) (by decide +kernel) (by decide +kernel)
open TT.Props.C02 in
/-- with `emptyRoot` a root label that could not be printed does no harm: the hypothesis on the root is void -/
example : BracketLabels { emptyRoot := true } (node { label := "S (".toList } exCont.kids) := by decide +kernel


/-! ### the bracket writer refuses (skips) exactly the discontinuous trees — discontinuity as a property of token sets -/

theorem hasGap_iff (ns : List Nat) :
    hasGap ns = true ↔ ∃ a ∈ ns, ∃ c ∈ ns, ∃ b, a < b ∧ b < c ∧ b ∉ ns := by
  simp only [hasGap, List.any_eq_true, List.mem_range, Bool.and_eq_true, decide_eq_true_eq, Bool.not_eq_true',
    List.contains_eq_mem, decide_eq_false_iff_not]
  constructor
  · rintro ⟨a, ha, c, hc, b, hb, hab, hn⟩; exact ⟨a, ha, c, hc, b, hab, hb, hn⟩
  · rintro ⟨a, ha, c, hc, b, hab, hb, hn⟩; exact ⟨a, ha, c, hc, b, hb, hab, hn⟩

/-- on a sorted list the writer's count of jumps is positive exactly when the SET has a gap -/
theorem gapCount_pos_iff : ∀ l : List Nat, l.Pairwise (· ≤ ·) →
    (0 < gapCount l ↔ ∃ a ∈ l, ∃ c ∈ l, ∃ b, a < b ∧ b < c ∧ b ∉ l)
  | [], _ => by simp [gapCount]
  | [a], _ => by
    simp only [gapCount, Nat.lt_irrefl, List.mem_singleton, false_iff, not_exists, not_and]
    rintro x rfl z rfl y h1 h2; omega
  | a :: b :: rest, hs => by
    have hs' := (List.pairwise_cons.1 hs).2
    have hab : a ≤ b := (List.pairwise_cons.1 hs).1 b (by simp)
    have hge : ∀ x ∈ b :: rest, b ≤ x := by
      intro x hx
      rcases List.mem_cons.1 hx with rfl | hx
      · exact Nat.le_refl _
      · exact (List.pairwise_cons.1 hs').1 x hx
    have ih := gapCount_pos_iff (b :: rest) hs'
    constructor
    · intro h
      by_cases hj : a + 1 < b
      · refine ⟨a, by simp, b, by simp, a + 1, by omega, hj, ?_⟩
        intro hm
        rcases List.mem_cons.1 hm with e | hm
        · omega
        · have := hge _ hm; omega
      · have : 0 < gapCount (b :: rest) := by
          simp only [gapCount, hj, if_false] at h; omega
        obtain ⟨x, hx, z, hz, y, h1, h2, h3⟩ := ih.1 this
        refine ⟨x, List.mem_cons_of_mem _ hx, z, List.mem_cons_of_mem _ hz, y, h1, h2, ?_⟩
        intro hm
        rcases List.mem_cons.1 hm with e | hm
        · have := hge x hx; omega
        · exact h3 hm
    · rintro ⟨x, hx, z, hz, y, h1, h2, h3⟩
      by_cases hj : a + 1 < b
      · simp only [gapCount, if_pos hj]; omega
      · have hyb : y ∉ b :: rest := fun hm => h3 (List.mem_cons_of_mem _ hm)
        have hza : z ∈ b :: rest := by
          rcases List.mem_cons.1 hz with e | hz
          · exfalso
            rcases List.mem_cons.1 hx with e' | hx
            · omega
            · have := hge x hx; omega
          · exact hz
        have : 0 < gapCount (b :: rest) := by
          refine ih.2 ?_
          rcases List.mem_cons.1 hx with e | hx
          · have hyb' : y ≠ b := fun e' => hyb (by rw [e']; simp)
            exact ⟨b, by simp, z, hza, y, by omega, h2, hyb⟩
          · exact ⟨x, hx, z, hza, y, h1, h2, hyb⟩
        simp only [gapCount]; omega

theorem gapDegreeNode_pos_iff (s : Tree) : 0 < gapDegreeNode s ↔ hasGap s.leafNums = true := by
  rw [hasGap_iff]
  cases s with
  | leaf n f =>
    simp only [gapDegreeNode, Nat.lt_irrefl, leafNums_leaf, List.mem_singleton, false_iff, not_exists, not_and]
    rintro x rfl z rfl y h1 h2; omega
  | node f ks =>
    rw [gapDegreeNode, gapCount_pos_iff _ (yield_sorted _)]
    simp only [mem_yield]

theorem exists_node_of_gapDegree_pos (t : Tree) (h : 0 < gapDegree t) : ∃ s ∈ t.subtrees, 0 < gapDegreeNode s := by
  obtain ⟨s, hs, he⟩ := TT.Props.C16.gapDegree_attained t
  exact ⟨s, (TT.Lemmas.Nav.preorder_perm_subtrees t).mem_iff.1 hs, by omega⟩

/-- the writer's test, restated on token sets: some node covers a set of tokens that is not an interval -/
theorem gapDegree_pos_iff_discontinuous (t : Tree) : 0 < gapDegree t ↔ discontinuous t = true := by
  unfold discontinuous
  rw [List.any_eq_true]
  constructor
  · intro h
    obtain ⟨s, hs, hg⟩ := exists_node_of_gapDegree_pos t h
    exact ⟨s, hs, (gapDegreeNode_pos_iff s).1 hg⟩
  · rintro ⟨s, hs, hg⟩
    have h1 := (gapDegreeNode_pos_iff s).2 hg
    by_cases h0 : gapDegree t = 0
    · have := (TT.Lemmas.Run.gapDegree_zero_iff_subtrees' t).1 h0 s hs; omega
    · omega

/-- `gapDegree_pos_iff` as proposed (C02 row 11): the notion the check `P.C02.refuse` uses -/
theorem gapDegree_pos_iff (t : Tree) :
    gapDegree t > 0 ↔ ∃ s ∈ t.subtrees, s.isLeaf = false ∧ (blocksOf (sortBy id s.leafNums)).length > 1 := by
  constructor
  · intro h
    obtain ⟨s, hs, hg⟩ := exists_node_of_gapDegree_pos t h
    cases s with
    | leaf n f => exact absurd hg (Nat.lt_irrefl 0)
    | node f ks =>
      refine ⟨_, hs, rfl, ?_⟩
      rw [gapDegreeNode, TT.Lemmas.Boyd.gapCount_eq_blocks, TT.Lemmas.Nav.yield_eq] at hg
      omega
  · rintro ⟨s, hs, hl, hb⟩
    cases s with
    | leaf n f => cases hl
    | node f ks =>
      have h1 : 0 < gapDegreeNode (node f ks) := by
        rw [gapDegreeNode, TT.Lemmas.Boyd.gapCount_eq_blocks, TT.Lemmas.Nav.yield_eq]; omega
      by_cases h0 : gapDegree t = 0
      · have := (TT.Lemmas.Run.gapDegree_zero_iff_subtrees' t).1 h0 _ hs; omega
      · omega

/-- the label decoration only ever fails with a `KeyError` -/
theorem getLabel_error (o : OutOpts) (t : Tree) (e : Err) (h : getLabel o t = .error e) : e = .keyError := by
  unfold getLabel at h
  simp only [bind, Except.bind, pure, Except.pure, throw, throwThe, MonadExceptOf.throw] at h
  cases hm : o.markHeads <;> cases hs : o.splitMarking <;> cases hn : o.splitNumbering <;>
    rcases hh : t.fields.head with _ | _ <;> rcases hsp : t.fields.split with _ | _ | _ <;>
    rcases hb : t.fields.blockNumber with _ | _ <;>
    simp only [hm, hs, hn, hh, hsp, hb, if_true, if_false, Bool.false_eq_true, reduceCtorEq] at h <;>
    first | exact (Except.error.inj h).symm | cases h


/-- ... and so does the bracket writer below its guard -/
theorem bracketsSub_error (o : OutOpts) (x : Tree) : ∀ (er : Bool) (e : Err), bracketsSub o er x = .error e → e = .keyError := by
  induction x using tree_ind with
  | hl n f =>
    intro er e h
    rw [bracketsSub] at h
    split at h
    · cases h
    · rename_i e' he; cases h; exact getLabel_error o _ _ he
  | hn f ks ih =>
    intro er e h
    have hk : ∀ (ks' : List Tree), (∀ k ∈ ks', k ∈ ks) → ∀ e, bracketsKids o ks' = .error e → e = .keyError := by
      intro ks'
      induction ks' with
      | nil => intro _ e h; rw [bracketsKids] at h; cases h
      | cons a r ihr =>
        intro hsub e h
        rw [bracketsKids] at h
        split at h
        · cases h
        · rename_i e' he; cases h; exact ih a (hsub a (by simp)) false _ he
        · rename_i e' he _; cases h; exact ihr (fun k hk => hsub k (by simp [hk])) _ he
    rw [bracketsSub] at h
    split at h
    · dsimp only at h
      split at h
      · cases h
      · rename_i e' he; cases h; exact getLabel_error o _ _ he
    · split at h
      · cases h
      · rename_i e' he
        cases h
        cases er with
        | true => simp at he
        | false => exact getLabel_error o _ _ (by simpa using he)
      · rename_i e' he _; cases h; exact hk ks (fun k hk => hk) _ he

/-- THE REFUSAL CLAUSE against a set-based notion: without `skipDisco` the bracket writer raises `ValueError`
    exactly on the trees in which some node covers a token set with a gap (`Spec.discontinuous`; the definition
    involves no sorting, no blocks and none of the writer's code) -/
theorem writeBrackets_refuses_discontinuous (o : OutOpts) (t : Tree) (h : o.skipDisco = false) :
    writeBrackets o t = .error .valueError ↔ discontinuous t = true := by
  rw [← gapDegree_pos_iff_discontinuous]
  unfold writeBrackets
  by_cases hg : gapDegree t > 0
  · simp [hg, h]
  · simp only [hg, if_false, iff_false]
    cases hb : bracketsSub o o.emptyRoot t with
    | ok s => simp [Except.map]
    | error e => have := bracketsSub_error o t _ e hb; subst this; simp [Except.map]

/-- with `skipDisco` it skips exactly those trees -/
theorem writeBrackets_skips_discontinuous (o : OutOpts) (t : Tree) (h : o.skipDisco = true) :
    writeBrackets o t = .ok none ↔ discontinuous t = true := by
  rw [← gapDegree_pos_iff_discontinuous]
  exact TT.Props.C02.writeBrackets_skips_iff o t h

/-- on every other tree the writer is the recursive printer -/
theorem writeBrackets_of_continuous (o : OutOpts) (t : Tree) (h : discontinuous t = false) :
    writeBrackets o t = (bracketsSub o o.emptyRoot t).map some := by
  have : ¬ gapDegree t > 0 := fun hg => by
    rw [(gapDegree_pos_iff_discontinuous t).1 hg] at h; cases h
  unfold writeBrackets; rw [if_neg this]

/-- the token set {1, 3} below VP has the gap 2 -/
example : discontinuous TT.Props.C02.exDisc = true ∧ writeBrackets {} TT.Props.C02.exDisc = .error .valueError :=
  ⟨by decide +kernel, (writeBrackets_refuses_discontinuous {} _ rfl).2 (by decide +kernel)⟩
example : discontinuous TT.Props.C02.exCont = false ∧ writeBrackets {} TT.Props.C02.exCont ≠ .error .valueError :=
  ⟨by decide +kernel, fun h => by
    have := (writeBrackets_refuses_discontinuous {} _ rfl).1 h; revert this; decide +kernel⟩
/-- a failure that is NOT a refusal: a requested head mark on an unmarked continuous tree raises `KeyError` -/
example : discontinuous TT.Props.C02.exCont = false ∧
    writeBrackets { markHeads := true } TT.Props.C02.exCont = .error .keyError := by decide +kernel


/-! ### an absent optional field never makes a writer fail (C02 row 10) -/

/-- no option that prints a mark (`head`, `split`) which the tree may not carry -/
def NoMarks (o : OutOpts) : Prop := o.markHeads = false ∧ o.splitMarking = false ∧ o.splitNumbering = false

instance (o : OutOpts) : Decidable (NoMarks o) := by unfold NoMarks; infer_instance

theorem getLabel_total (o : OutOpts) (h : NoMarks o) (t : Tree) : ∃ l, getLabel o t = .ok l := by
  obtain ⟨h1, h2, h3⟩ := h
  unfold getLabel
  simp only [h1, h2, h3, Bool.false_eq_true, if_false, pure, Except.pure, bind, Except.bind]
  exact ⟨_, rfl⟩

theorem mapM_total {α β : Type} (F : α → Except Err β) (L : List α) (h : ∀ a ∈ L, ∃ b, F a = .ok b) :
    ∃ r, L.mapM F = .ok r := ⟨_, TT.Lemmas.Run.mapM_all_ok F L h⟩

theorem bind_total {α β : Type} (x : Except Err α) (f : α → Except Err β) (hx : ∃ a, x = .ok a)
    (hf : ∀ a, ∃ b, f a = .ok b) : ∃ b, (x >>= f) = .ok b := by
  obtain ⟨a, rfl⟩ := hx
  exact hf a

/-- `writeExport_total_plain`: without mark options the export writer succeeds on EVERY tree (no `ExportOK`), whatever
    fields are absent -/
theorem writeExport_total_plain (o : OutOpts) (h : NoMarks o) (sid : Nat) (t : Tree) : ∃ ls, writeExport o sid t = .ok ls := by
  unfold writeExport
  refine bind_total _ _ (mapM_total _ _ ?_) (fun terms => bind_total _ _ (mapM_total _ _ ?_) (fun nts => ⟨_, rfl⟩))
  · rintro ⟨p, s⟩ _
    obtain ⟨l, hl⟩ := TT.Props.C02.exportLine_total o s (s.fields.word.getD []) ((exportNum t p.dropLast).getD 0) h
    exact ⟨_, by simp only [hl]; rfl⟩
  · rintro ⟨p, s⟩ _
    obtain ⟨l, hl⟩ := TT.Props.C02.exportLine_total o s ('#' :: natToStr ((exportNum t p).getD 0)) ((exportNum t p.dropLast).getD 0) h
    exact ⟨_, by simp only [hl]; rfl⟩


example : ∃ ls, writeExport { gf := true, exportFour := true } 3 TT.Props.C02.exDisc = .ok ls :=
  writeExport_total_plain _ (by decide) 3 _
/-- ... also on a tree the export format cannot represent (a blank inside a label): success, not faithfulness -/
example : ExportOK {} (node { label := "S X".toList } [leaf 1 { label := "A".toList }]) = false ∧
    ∃ ls, writeExport {} 1 (node { label := "S X".toList } [leaf 1 { label := "A".toList }]) = .ok ls :=
  ⟨by decide +kernel, writeExport_total_plain _ (by decide) 1 _⟩

/-- `bracketsSub_total_gf`: the same for the bracket printer, for every option record without mark options -/
theorem bracketsSub_total_gf (o : OutOpts) (h : NoMarks o) (t : Tree) : ∀ er, ∃ s, bracketsSub o er t = .ok s := by
  induction t using tree_ind with
  | hl n f =>
    intro er
    obtain ⟨l, hl⟩ := getLabel_total o h (leaf n (replaceParensFields f))
    rw [bracketsSub]; simp only [hl]
    exact ⟨_, rfl⟩
  | hn f ks ih =>
    intro er
    have hk : ∃ parts, bracketsKids o ks = .ok parts := by
      clear f
      induction ks with
      | nil => exact ⟨[], by rw [bracketsKids]⟩
      | cons k ks ihk =>
        obtain ⟨a, ha⟩ := ih k (by simp) false
        obtain ⟨b, hb⟩ := ihk (fun k' hk' => ih k' (by simp [hk']))
        exact ⟨(leftmost k, a) :: b, by rw [bracketsKids, ha, hb]⟩
    obtain ⟨parts, hparts⟩ := hk
    rw [bracketsSub]
    by_cases he : ks.isEmpty = true
    · obtain ⟨l, hl⟩ := getLabel_total o h (node (replaceParensFields f) [])
      simp only [he, if_true, hl]
      exact ⟨_, rfl⟩
    · obtain ⟨l, hl⟩ := getLabel_total o h (node f ks)
      simp only [he, Bool.false_eq_true, if_false, hl, hparts]
      cases er <;> exact ⟨_, rfl⟩

theorem writeDisco_total (o : OutOpts) (h : NoMarks o) (t : Tree) : ∃ s, writeDisco o t = .ok s := by
  obtain ⟨s, hs⟩ := bracketsSub_total_gf o h (wordsToNums t) o.emptyRoot
  exact ⟨_, by unfold writeDisco; rw [hs]; rfl⟩

/-- the bracket writer fails on nothing but discontinuity -/
theorem writeBrackets_total (o : OutOpts) (h : NoMarks o) (t : Tree) :
    (∃ r, writeBrackets o t = .ok r) ↔ (gapDegree t = 0 ∨ o.skipDisco = true) := by
  obtain ⟨s, hs⟩ := bracketsSub_total_gf o h t o.emptyRoot
  unfold writeBrackets
  by_cases hg : gapDegree t > 0
  · cases hsk : o.skipDisco <;> simp [hg] <;> omega
  · simp only [hg, if_false, hs]
    exact ⟨fun _ => Or.inl (by omega), fun _ => ⟨_, rfl⟩⟩

theorem writeTerminals_total (o : OutOpts) (t : Tree) :
    (∃ s, writeTerminals o t = .ok s) ↔ ¬ (o.terminalsPos = true ∧ o.posOnly = true) := by
  unfold writeTerminals
  by_cases h : o.terminalsPos = true ∧ o.posOnly = true
  · simp [h.1, h.2]
  · have : (o.terminalsPos && o.posOnly) = false := by
      cases h1 : o.terminalsPos <;> cases h2 : o.posOnly <;> simp_all
    simp only [this, Bool.false_eq_true, if_false, h, not_false_eq_true, iff_true]
    exact ⟨_, rfl⟩

example : ∃ s, writeDisco { gf := true, gfTerminals := true } TT.Props.C02.exDisc = .ok s := writeDisco_total _ (by decide) _


/-! ### terminals format under every option combination (C02 row 7) -/

/-- what one token contributes to the terminals format: word, word/POS, word TAB POS, or the POS alone -/
def termItem (o : OutOpts) (l : Tree) : Str :=
  if o.posOnly then l.fields.label
  else (l.fields.word.getD []) ++ (if o.terminalsPos then (if o.terminalsOne then ['\t'] else ['/']) ++ l.fields.label else [])

/-- the character that separates tokens: newline with `terminals_one`, else a blank -/
def termSep (o : OutOpts) : Char := if o.terminalsOne then '\n' else ' '

theorem splitOnChar_items (c : Char) (rest : Str) : ∀ items : List Str, (∀ i ∈ items, c ∉ i) →
    splitOnChar c ((items.map (· ++ [c])).flatten ++ rest) = items ++ splitOnChar c rest
  | [], _ => rfl
  | i :: items, h => by
    simp only [List.map_cons, List.flatten_cons, List.append_assoc, List.cons_append, List.nil_append]
    rw [TT.Lemmas.RcgRT.splitOnChar_append_sep c i _ (h i (by simp)),
      splitOnChar_items c rest items (fun j hj => h j (by simp [hj]))]

/-- `writeTerminals_split`: splitting the written text at the separator gives exactly the sentence (one item per token,
    in token order), followed by the closing empty line — for all four admissible option combinations -/
theorem writeTerminals_split (o : OutOpts) (t : Tree) (s : Str) (h : writeTerminals o t = .ok s)
    (hw : ∀ l ∈ t.terminals, termSep o ∉ termItem o l) :
    splitOnChar (termSep o) s = t.terminals.map (termItem o) ++ (if o.terminalsOne then [[], []] else [['\n']]) := by
  unfold writeTerminals at h
  split at h
  · cases h
  · simp only [Except.ok.injEq] at h
    subst h
    have e : (t.terminals.map fun l => (if o.posOnly then l.fields.label
        else (l.fields.word.getD []) ++ (if o.terminalsPos then (if o.terminalsOne then ['\t'] else ['/']) ++ l.fields.label else [])) ++
          (if o.terminalsOne then ['\n'] else [' '])) = (t.terminals.map (termItem o)).map (· ++ [termSep o]) := by
      rw [List.map_map]; apply List.map_congr_left; intro l _
      simp only [Function.comp, termItem, termSep]
      cases o.terminalsOne <;> rfl
    rw [e, splitOnChar_items (termSep o) ['\n'] _ (by
      intro i hi; obtain ⟨l, hl, rfl⟩ := List.mem_map.1 hi; exact hw l hl)]
    congr 1
    unfold termSep
    cases o.terminalsOne <;> rfl

example : writeTerminals { terminalsPos := true } TT.Props.C02.exDisc = .ok "a/A b/B c/C \n".toList := by decide +kernel
example : splitOnChar ' ' "a/A b/B c/C \n".toList = ["a/A".toList, "b/B".toList, "c/C".toList, "\n".toList] :=
  writeTerminals_split { terminalsPos := true } TT.Props.C02.exDisc _ (by decide +kernel) (by decide +kernel)
example : splitOnChar '\n' "a\tA\nb\tB\nc\tC\n\n".toList = ["a\tA".toList, "b\tB".toList, "c\tC".toList, [], []] :=
  writeTerminals_split { terminalsPos := true, terminalsOne := true } TT.Props.C02.exDisc _ (by decide +kernel) (by decide +kernel)
example : splitOnChar ' ' "A B C \n".toList = ["A".toList, "B".toList, "C".toList, "\n".toList] :=
  writeTerminals_split { posOnly := true } TT.Props.C02.exDisc _ (by decide +kernel) (by decide +kernel)
/-- `hw` cannot be dropped: a blank inside a word gives one item more -/
example : writeTerminals {} exBlankWord = .ok "a b c \n".toList ∧
    splitOnChar ' ' "a b c \n".toList ≠ exBlankWord.terminals.map (termItem {}) ++ [['\n']] := by decide +kernel


/-! ### TIGER-XML: the round trip without the condition on the root's edge label (C02 row 3) -/

theorem carryTiger_idem (x : Tree) : carryTiger (carryTiger x) = carryTiger x := by
  induction x using tree_ind with
  | hl n f => simp [carryTiger]
  | hn f ks ih =>
    simp only [carryTiger, TT.Lemmas.TigerRT.carryTigerL_eq, List.map_map, Option.getD_some]
    congr 1
    exact List.map_congr_left (fun k hk => ih k hk)

theorem noEmpty_carryTiger (x : Tree) (h : x.noEmpty = true) : (carryTiger x).noEmpty = true := by
  induction x using tree_ind with
  | hl n f => rfl
  | hn f ks ih =>
    obtain ⟨hks, hk⟩ := (noEmpty_node_iff f ks).1 h
    rw [carryTiger, TT.Lemmas.TigerRT.carryTigerL_eq]
    refine (noEmpty_node_iff _ _).2 ⟨by simpa using hks, ?_⟩
    intro k hk'
    obtain ⟨k0, hk0, rfl⟩ := List.mem_map.1 hk'
    exact ih k0 hk0 (hk k0 hk0)

/-- `decTiger_write_root`: what `decTiger_write'` states under `hroot` holds for every well-formed tree once the
    expectation is `carryTigerRoot` (the root's own edge label has no place in TIGER-XML) — the expectation the check
    `P.C02.tiger` uses -/
theorem decTiger_write_root (sid : Nat) (t : Tree) (hwf : WF t = true) (hlen : t.leafNums.length < 500) :
    ∃ s, decTiger (writeTiger sid t) = some s ∧ strToNat? s.sid = some sid ∧ sameTree s.tree (carryTigerRoot t) = true := by
  cases t with
  | leaf n f => simp [WF, isLeaf] at hwf
  | node f ks =>
    have hne := WF_noEmpty _ hwf
    obtain ⟨hks, hk⟩ := (noEmpty_node_iff f ks).1 hne
    have hroot := TT.Props.C02Carry.carryTigerRoot_node f ks
    have hln : (carryTigerRoot (node f ks)).leafNums = (node f ks).leafNums := by
      have := TT.Lemmas.TigerRT.leafNums_carryTiger (node f ks)
      rw [carryTiger, TT.Lemmas.TigerRT.carryTigerL_eq] at this
      rw [hroot]; rw [leafNums_node] at this ⊢; exact this
    have hwf' : WF (carryTigerRoot (node f ks)) = true := by
      refine WF_of_perm _ _ hwf (by rw [hln]) ?_ (by rw [hroot]; rfl)
      rw [hroot]
      refine (noEmpty_node_iff _ _).2 ⟨by simpa using hks, ?_⟩
      intro k hk'
      obtain ⟨k0, hk0, rfl⟩ := List.mem_map.1 hk'
      exact noEmpty_carryTiger k0 (hk k0 hk0)
    obtain ⟨s, h1, h2, h3⟩ := TT.Props.C02Tiger.decTiger_write' sid (carryTigerRoot (node f ks)) hwf' (by rw [hln]; exact hlen)
      (by rw [hroot]; rfl)
    rw [TT.Props.C02Carry.writeTiger_carry] at h1
    refine ⟨s, h1, h2, ?_⟩
    have e : carryTiger (carryTigerRoot (node f ks)) = carryTigerRoot (node f ks) := by
      rw [hroot, carryTiger, TT.Lemmas.TigerRT.carryTigerL_eq, List.map_map]
      simp only [Option.getD_some]
      congr 1
      exact List.map_congr_left (fun k _ => carryTiger_idem k)
    rwa [e] at h3

/-- the tree that is a counterexample to the statement with `carryTiger` (root edge `XX`) -/
example : ∃ s, decTiger (writeTiger 7 TT.Props.C02Tiger.exRootEdge) = some s ∧ strToNat? s.sid = some 7 ∧
    sameTree s.tree (carryTigerRoot TT.Props.C02Tiger.exRootEdge) = true :=
  decTiger_write_root 7 _ (by decide +kernel) (by decide +kernel)


/-! ### label decorations in a written export file (C02 row 8) -/

mutual
/-- the content of an export file, with the labels spelled out by the specification of the decorations (`Spec.decorations`:
    function with separator on the nodes it applies to, head mark, split mark, block number) instead of the model's `getLabel` -/
def exportContent (o : OutOpts) : Tree → Tree
  | leaf n f => leaf n { label := f.label ++ decorations o (leaf n f), word := f.word, lemma := (if o.exportFour then some (f.lemma.getD DEFAULT_LEMMA) else some DEFAULT_LEMMA), morph := some (f.morph.getD DEFAULT_MORPH), edge := some (f.edge.getD DEFAULT_EDGE) }
  | node f ks => node { label := f.label ++ decorations o (node f ks), lemma := (if o.exportFour then some (f.lemma.getD DEFAULT_LEMMA) else some DEFAULT_LEMMA), morph := some (f.morph.getD DEFAULT_MORPH), edge := some (f.edge.getD DEFAULT_EDGE) } (exportContentL o ks)
def exportContentL (o : OutOpts) : List Tree → List Tree
  | [] => []
  | t :: ts => exportContent o t :: exportContentL o ts
end

/-- the virtual root replaces the root -/
def exportContentRoot (o : OutOpts) (t : Tree) : Tree :=
  match exportContent o t with
  | node _ ks => node { label := DEFAULT_ROOT, edge := some DEFAULT_EDGE } ks
  | x => x

theorem exportContentL_eq (o : OutOpts) : ∀ ks : List Tree, exportContentL o ks = ks.map (exportContent o)
  | [] => rfl
  | t :: ts => by simp [exportContentL, exportContentL_eq o ts]

theorem decorations_setEdge (o : OutOpts) (s : Tree) :
    decorations o (s.setFields fun f => { f with edge := some (f.edge.getD DEFAULT_EDGE) }) = decorations o s := by
  cases s <;> rfl

/-- where the label can be printed at all it is the plain label followed by the specified decorations -/
theorem printedLabel_decor (o : OutOpts) (s : Tree)
    (h : ∃ l, getLabel o (s.setFields fun f => { f with edge := some (f.edge.getD DEFAULT_EDGE) }) = .ok l) :
    printedLabel o s = s.fields.label ++ decorations o s := by
  obtain ⟨l, hl⟩ := h
  unfold printedLabel
  rw [hl]
  have := TT.Props.C20.getLabel_decorations o _ l hl
  rw [decorations_setEdge] at this
  rw [this]
  cases s <;> rfl

theorem exportOK_getLabel (o : OutOpts) (t : Tree) (hok : ExportOK o t = true) : ∀ s ∈ t.subtrees,
    ∃ l, getLabel o (s.setFields fun f => { f with edge := some (f.edge.getD DEFAULT_EDGE) }) = .ok l := by
  intro s hs
  unfold ExportOK at hok
  simp only [Bool.and_eq_true, List.all_eq_true] at hok
  have := hok.2 s hs
  split at this
  · exact ⟨_, ‹_›⟩
  · cases this

theorem carryExport_eq_content (o : OutOpts) (x : Tree)
    (h : ∀ s ∈ x.subtrees, ∃ l, getLabel o (s.setFields fun f => { f with edge := some (f.edge.getD DEFAULT_EDGE) }) = .ok l) :
    carryExport o x = exportContent o x := by
  induction x using tree_ind with
  | hl n f => rw [carryExport, exportContent, printedLabel_decor o _ (h _ (self_mem_subtrees _))]; simp only [fields]
  | hn f ks ih =>
    rw [carryExport, exportContent, printedLabel_decor o _ (h _ (self_mem_subtrees _)), TT.Lemmas.ExportRT.carryExportL_eq,
      exportContentL_eq]
    simp only [fields]
    congr 1
    exact List.map_congr_left (fun k hk => ih k hk (fun s hs => h s ((mem_subtrees_node f ks s).2 (Or.inr ⟨k, hk, hs⟩))))

/-- `decExport_write_decor`: the independent export decoder recovers the tree whose labels are the plain labels followed by the
    SPECIFIED decorations (function + separator exactly on the nodes it applies to, head mark, split mark, block number) — the
    statement of `decExport_write'` with the model's own `getLabel` removed from the expectation -/
theorem decExport_write_decor (o : OutOpts) (sid : Nat) (t : Tree) (ls : List Str) (h : writeExport o sid t = .ok ls)
    (hwf : WF t = true) (hok : ExportOK o t = true) (hN : t.leafNums.length < 500) :
    ∃ s, decExport o.exportFour ls = some s ∧ s.sid = sid ∧ sameTree s.tree (exportContentRoot o t) = true := by
  obtain ⟨s, h1, h2, h3, _⟩ := TT.Props.C02Export.decExport_write' o sid t ls h hwf hok hN
  refine ⟨s, h1, h2, ?_⟩
  have : carryExportRoot o t = exportContentRoot o t := by
    unfold carryExportRoot exportContentRoot
    rw [carryExport_eq_content o t (exportOK_getLabel o t hok)]
    rfl
  rwa [this] at h3

/-- a head-marked, boyd-split tree written with every decoration option -/
def exDecor : Tree := node { label := "S".toList, head := some false, split := some false }
  [leaf 2 { label := "B".toList, word := some "b".toList, edge := some "HD".toList, head := some true, split := some false },
   node { label := "VP".toList, edge := some "OC".toList, head := some false, split := some true, blockNumber := some 1 }
     [leaf 1 { label := "A".toList, word := some "a".toList, edge := some "-x".toList, head := some true, split := some false }],
   node { label := "VP".toList, edge := some "OC".toList, head := some false, split := some true, blockNumber := some 2 }
     [leaf 3 { label := "C".toList, word := some "c".toList, head := some false, split := some false }]]
def exDecorOpts : OutOpts := { gf := true, gfSeparator := some ":".toList, markHeads := true, splitMarking := true, splitNumbering := true }

example : writeExport exDecorOpts 1 exDecor = .ok ["#BOS 1".toList, "a\t\t\tA'\t--\t\t-x\t500".toList, "b\t\t\tB'\t--\t\tHD\t0".toList,
    "c\t\t\tC\t--\t\t--\t501".toList, "#500\t\t\tVP:OC*1\t--\t\tOC\t0".toList, "#501\t\t\tVP:OC*2\t--\t\tOC\t0".toList, "#EOS 1".toList] := by
  decide +kernel
example : ∃ s, decExport false ["#BOS 1".toList, "a\t\t\tA'\t--\t\t-x\t500".toList, "b\t\t\tB'\t--\t\tHD\t0".toList,
    "c\t\t\tC\t--\t\t--\t501".toList, "#500\t\t\tVP:OC*1\t--\t\tOC\t0".toList, "#501\t\t\tVP:OC*2\t--\t\tOC\t0".toList, "#EOS 1".toList] = some s ∧
    s.sid = 1 ∧ sameTree s.tree (exportContentRoot exDecorOpts exDecor) = true :=
  decExport_write_decor exDecorOpts 1 exDecor _ (by decide +kernel) (by decide +kernel) (by decide +kernel) (by decide +kernel)


/-! ### TIGER-XML: no raw `&` (C02 row 4; the check `rawAttrsOK` of the specification does not look at `&`) -/

/-- the character and entity references the TIGER-XML writer uses -/
def xmlEntities : List Str :=
  ["&amp;".toList, "&lt;".toList, "&gt;".toList, "&quot;".toList, "&#10;".toList, "&#13;".toList, "&#9;".toList]

/-- every `&` of the text starts one of these references -/
def ampOK : Str → Bool
  | [] => true
  | c :: r => (c != '&' || xmlEntities.any (fun e => e.isPrefixOf (c :: r))) && ampOK r

theorem isPrefixOf_append_right (e : Str) : ∀ (a b : Str), e.isPrefixOf a = true → e.isPrefixOf (a ++ b) = true := by
  induction e with
  | nil => intro a b _; simp
  | cons x e ih =>
    intro a b h
    cases a with
    | nil => simp at h
    | cons y a =>
      simp only [List.cons_append, List.isPrefixOf_cons_cons, Bool.and_eq_true] at h ⊢
      exact ⟨h.1, ih a b h.2⟩

theorem ampOK_append : ∀ (a b : Str), ampOK a = true → ampOK b = true → ampOK (a ++ b) = true
  | [], b, _, hb => hb
  | c :: a, b, ha, hb => by
    simp only [ampOK, Bool.and_eq_true, Bool.or_eq_true, List.any_eq_true] at ha
    simp only [List.cons_append, ampOK, Bool.and_eq_true, Bool.or_eq_true, List.any_eq_true]
    refine ⟨?_, ampOK_append a b ha.2 hb⟩
    rcases ha.1 with h | ⟨e, he, hp⟩
    · exact Or.inl h
    · exact Or.inr ⟨e, he, by have := isPrefixOf_append_right e (c :: a) b hp; simpa using this⟩

theorem ampOK_of_no_amp : ∀ a : Str, '&' ∉ a → ampOK a = true
  | [], _ => rfl
  | c :: a, h => by
    simp only [List.mem_cons, not_or] at h
    simp only [ampOK, Bool.and_eq_true, Bool.or_eq_true, bne_iff_ne, ne_eq]
    exact ⟨Or.inl (fun e => h.1 e.symm), ampOK_of_no_amp a h.2⟩

theorem ampOK_flatMap (g : Char → Str) (hg : ∀ c, ampOK (g c) = true) : ∀ s : Str, ampOK (s.flatMap g) = true
  | [] => rfl
  | c :: s => by rw [List.flatMap_cons]; exact ampOK_append _ _ (hg c) (ampOK_flatMap g hg s)

theorem ampOK_esc1 (c : Char) : ampOK (esc1 c) = true := by
  unfold esc1
  repeat' split
  all_goals first | decide | (exact ampOK_of_no_amp _ (by simpa using fun e => ‹¬ c = '&'› e.symm))

theorem ampOK_esc2 (c : Char) : ampOK (esc2 c) = true := by
  unfold esc2
  split
  · decide
  · exact ampOK_esc1 c

theorem ampOK_quoteattr (v : Str) : ampOK (quoteattr v) = true := by
  rw [quoteattr_eq]
  have h1 : ampOK (xmlEscape v) = true := by rw [xmlEscape_eq]; exact ampOK_flatMap _ ampOK_esc1 v
  have h2 : ampOK ((xmlEscape v).flatMap quot1) = true := by
    rw [xmlEscape_eq, List.flatMap_assoc]; simp only [esc1_quot1]; exact ampOK_flatMap _ ampOK_esc2 v
  split
  · split
    · exact ampOK_append _ _ (ampOK_append _ _ (by decide) h2) (by decide)
    · exact ampOK_append _ _ (ampOK_append _ _ (by decide) h1) (by decide)
  · exact ampOK_append _ _ (ampOK_append _ _ (by decide) h1) (by decide)

theorem ampOK_natToStr (n : Nat) : ampOK (natToStr n) = true :=
  ampOK_of_no_amp _ (fun h => by have := natToStr_isDigit n _ h; revert this; decide)

open TT.Lemmas.TigerRT in
theorem ampOK_cons (c : Char) (s : Str) (hc : c ≠ '&') (h : ampOK s = true) : ampOK (c :: s) = true := by
  simp only [ampOK, Bool.and_eq_true, Bool.or_eq_true, bne_iff_ne, ne_eq]; exact ⟨Or.inl hc, h⟩

open TT.Lemmas.TigerRT in
theorem ampOK_attrStr (name v rest : Str) (hn : '&' ∉ name) (h : ampOK rest = true) : ampOK (attrStr name v ++ rest) = true := by
  unfold attrStr
  rw [List.cons_append, List.append_assoc, List.cons_append]
  exact ampOK_cons _ _ (by decide) (ampOK_append _ _ (ampOK_of_no_amp _ hn) (ampOK_cons _ _ (by decide) (ampOK_append _ _ (ampOK_quoteattr v) h)))

open TT.Lemmas.TigerRT in
theorem ampOK_attrNum (name : Str) (n : Nat) (rest : Str) (hn : '&' ∉ name) (h : ampOK rest = true) : ampOK (attrNum name n ++ rest) = true := by
  unfold attrNum qnum
  rw [List.cons_append, List.append_assoc, List.cons_append, List.cons_append, List.append_assoc]
  exact ampOK_cons _ _ (by decide) (ampOK_append _ _ (ampOK_of_no_amp _ hn) (ampOK_cons _ _ (by decide) (ampOK_cons _ _ (by decide)
    (ampOK_append _ _ (ampOK_natToStr n) (ampOK_cons _ _ (by decide) h)))))

open TT.Lemmas.TigerRT in
/-- `writeTiger_amp`: in every written line every `&` starts one of the references `&amp; &lt; &gt; &quot; &#10; &#13; &#9;` -/
theorem writeTiger_amp (sid : Nat) (t : Tree) : ∀ l ∈ writeTiger sid t, ampOK l = true := by
  intro l hl
  rw [writeTiger_eq] at hl
  simp only [List.mem_append, List.mem_cons, List.mem_map, List.mem_flatMap, List.not_mem_nil, or_false] at hl
  rcases hl with (((h | h) | h) | h) | h
  · rcases h with rfl | rfl | rfl
    · exact ampOK_cons _ _ (by decide) (ampOK_cons _ _ (by decide) (ampOK_attrNum _ _ _ (by decide) (by decide)))
    · unfold gLine
      exact ampOK_append ['<','g','r','a','p','h'] _ (by decide) (ampOK_attrNum _ _ _ (by decide) (by decide))
    · decide
  · obtain ⟨a, _, rfl⟩ := h
    unfold ind4 tokS tokLineS
    exact ampOK_append [' ',' ',' ',' ','<','t'] _ (by decide) (ampOK_attrNum _ _ _ (by decide) (ampOK_attrStr _ _ _ (by decide)
      (ampOK_attrStr _ _ _ (by decide) (ampOK_attrStr _ _ _ (by decide) (ampOK_attrStr _ _ _ (by decide) (by decide))))))
  · rcases h with rfl | rfl <;> decide
  · obtain ⟨ps, _, h⟩ := h
    simp only [ntBlock, List.mem_append, List.mem_cons, List.mem_map, List.not_mem_nil, or_false] at h
    rcases h with (rfl | ⟨i, _, rfl⟩) | rfl
    · unfold ind4 ntLineS
      exact ampOK_append [' ',' ',' ',' ','<','n','t'] _ (by decide) (ampOK_attrNum _ _ _ (by decide) (ampOK_attrStr _ _ _ (by decide) (by decide)))
    · unfold ind6 edgeLineS
      exact ampOK_append [' ',' ',' ',' ',' ',' ','<','e','d','g','e'] _ (by decide) (ampOK_attrStr _ _ _ (by decide) (ampOK_attrNum _ _ _ (by decide) (by decide)))
    · decide
  · rcases h with rfl | rfl | rfl <;> decide

example : (writeTiger 7 TT.Props.C02Tiger.exT).all ampOK = true := by decide +kernel
/-- the check is not vacuous -/
example : ampOK "<t word=\"a&b\" />".toList = false ∧ ampOK "<t word=\"a&amp;b&#9;\" />".toList = true := by decide +kernel

end TT.Props.C02Disco
