/-
  C01 rows 7 and 10, wave 19: the TIGER-XML reader on FOREIGN element structures (arbitrary id strings, any order of the
  `<nt>` elements, edges before or after the elements they point to), against the declarative decoder
  `IsXTree` / `XDecodes` and the well-formedness condition `XWF` of `TT/Spec/More19t.lean`.
-/
import TT.Lemmas.Tiger19
namespace TT.Props.C01Tiger2
open TT TT.Tree TT.Spec
open TT.Lemmas.Tiger19 TT.Lemmas.More12h

/-! ## 1. the decoder is a function on structures with distinct ids -/

/-- on a structure with distinct ids the element with id `i` has at most one tree -/
theorem IsXTree_unique (s : XSent) (hn : s.ids.Nodup) (i : Str) (e : Option Str) (t t' : Tree)
    (h : IsXTree s i e t) (h' : IsXTree s i e t') : t = t' := isXTree_unique s hn t t' i e h h'

/-- ... and the sentence at most one tree for a given root element -/
theorem XDecodes_unique (s : XSent) (hn : s.ids.Nodup) (root : Str) (t t' : Tree)
    (h : XDecodes s root t) (h' : XDecodes s root t') : t = t' := by
  obtain ⟨_, _, d, hd, rfl⟩ := h
  obtain ⟨_, _, d', hd', rfl⟩ := h'
  rw [isXTree_unique s hn d d' root _ hd hd']

/-- the root element of a well-formed structure is determined: the only element without an incoming edge -/
theorem XWF_root_unique (s : XSent) (root root' : Str) (h : XWF s root) (h' : XWF s root') : root = root' := by
  apply Classical.byContradiction
  intro hne
  have := h.one_edge root' h'.root_mem (fun e => hne e.symm)
  exact h'.root_free (List.count_pos_iff.1 (by omega))

/-! ## 2. MAIN: on a well-formed structure the reader yields the decoder's tree -/

/-- MAIN (row 7, foreign ids).  On every `XWF` element structure the sentence reader succeeds and yields EXACTLY the decoder's
    tree (children in the order of the `<edge>` elements: the reader's storage order does not depend on the order of the `<nt>` or
    `<t>` elements beyond the token numbers), rewritten by the label options.  Every option record.
    No hypothesis on the `label` attributes of the `<edge>` elements (since repair P11 of the reader model: an `<edge>` without `label`
    gives the child the edge field `none`, as the code's `edge.get('label')` = Python `None`; `exNoLabel` below). -/
theorem tigerSentence_decX (o : InOpts) (s : XSent) (root : Str) (h : XWF s root) :
    ∃ t, XDecodes s root t ∧ tigerSentence o s = .ok (tigerPost o t) := by
  obtain ⟨d, hd, hs⟩ := tigerSentence_XWF o s root h
  exact ⟨vrootOf d, ⟨h.root_mem, h.root_free, d, hd, rfl⟩, hs⟩

/-- the same with the decoder's tree given -/
theorem tigerSentence_decX' (o : InOpts) (s : XSent) (root : Str) (h : XWF s root) (t : Tree)
    (ht : XDecodes s root t) : tigerSentence o s = .ok (tigerPost o t) := by
  obtain ⟨t', ht', hs⟩ := tigerSentence_decX o s root h
  rw [XDecodes_unique s h.nodup root t t' ht ht']; exact hs

/-- SOUNDNESS without any well-formedness hypothesis on the structure: whatever the sentence reader yields is a tree of the decoder for some root
    element without incoming edge (never "another tree") -/
theorem tigerSentence_sound (o : InOpts) (s : XSent) (r : Tree) (h : tigerSentence o s = .ok r) :
    ∃ root t, XDecodes s root t ∧ r = tigerPost o t := by
  unfold tigerSentence at h
  simp only at h
  split at h
  · cases h
  split at h
  · cases h
  split at h
  · cases h
  · rename_i rt hroots
    have hmem : rt ∈ (s.terms.map (·.id) ++ s.nts.map (·.id)).eraseDups.filter
        (fun i => !(s.nts.flatMap fun nt => nt.edges.map (·.2)).contains i) := by rw [hroots]; simp
    rw [List.mem_filter, List.mem_eraseDups] at hmem
    split at h
    · cases h
    · rename_i d hd
      refine ⟨rt, vrootOf d, ⟨hmem.1, by simpa [XSent.refs] using hmem.2, d, tigerBuild_sound s _ _ _ _ hd, rfl⟩, ?_⟩
      cases h; rfl
  · cases h

/-- MAIN (row 10, foreign ids): the tree the reader yields on an `XWF` structure is well formed (`WF`: tokens 1..n each once, no
    childless constituent, root a constituent) - given what the FORMAT additionally has to guarantee and the reader does not check:
    no `<nt>` without `<edge>`, and the root element is not a `<t>` with `pos="VROOT"` (both are needed: `exEmptyNt`, `exVrootTok`
    below; that there is at least one `<t>` follows, `Tiger19.terms_ne_nil`).  Option records that do not rewrite labels. -/
theorem tigerSentence_decX_WF (o : InOpts) (hg : o.gfSplit = false) (hr : o.replaceParens = false) (s : XSent) (root : Str)
    (h : XWF s root) (hne : XNoEmpty s)
    (hrt : ∀ tm ∈ s.terms, tm.id = root → tm.pos ≠ some DEFAULT_ROOT) :
    ∃ t, XDecodes s root t ∧ tigerSentence o s = .ok t ∧ WF t = true := by
  obtain ⟨d, hd, hs⟩ := tigerSentence_XWF o s root h
  refine ⟨vrootOf d, ⟨h.root_mem, h.root_free, d, hd, rfl⟩, ?_, decX_WF s root d h hne hrt _ hd⟩
  rw [hs]; simp [tigerPost, hg, hr]

/-- the decoder's tree itself is well formed (any options: `tigerPost` rewrites labels only) -/
theorem XDecodes_WF (s : XSent) (root : Str) (t : Tree) (h : XWF s root) (hne : XNoEmpty s)
    (hrt : ∀ tm ∈ s.terms, tm.id = root → tm.pos ≠ some DEFAULT_ROOT) (hdec : XDecodes s root t) : WF t = true := by
  obtain ⟨_, _, d, hd, rfl⟩ := hdec
  exact decX_WF s root d h hne hrt _ hd

/-! ## 3. the whole reader: one tree per `<s>`, file order, ids of the numbering option -/

theorem foldlM_tigerStep_decX (o : InOpts) : ∀ (ss : List XSent) (k : Nat) (acc : List (Nat × Tree)),
    (∀ s ∈ ss, (∃ root, XWF s root) ∧ (lastNumber s.id).isSome = true) →
    ∃ ts : List Tree, ts.length = ss.length ∧
      (ss.zipIdx k).foldlM (tigerStep o) acc =
        .ok (acc ++ (if o.continuous then List.range' (k + 1) ss.length
                      else ss.map fun s => (lastNumber s.id).getD 0).zip (ts.map (tigerPost o))) ∧
      ∀ p ∈ ss.zip ts, ∃ root, XWF p.1 root ∧ XDecodes p.1 root p.2
  | [], k, acc, _ => ⟨[], rfl, by simp; rfl, by simp⟩
  | s :: ss, k, acc, h => by
    obtain ⟨⟨root, hwf⟩, hnum⟩ := h s (by simp)
    obtain ⟨t, ht, hs⟩ := tigerSentence_decX o s root hwf
    obtain ⟨n, hn⟩ := Option.isSome_iff_exists.1 hnum
    obtain ⟨ts, hl, hf, ha⟩ := foldlM_tigerStep_decX o ss (k + 1)
      (acc ++ [(if o.continuous then k + 1 else n, tigerPost o t)]) (fun x hx => h x (by simp [hx]))
    refine ⟨t :: ts, by simp [hl], ?_, ?_⟩
    · rw [List.zipIdx_cons, List.foldlM_cons]
      have hstep : tigerStep o acc (s, k) = .ok (acc ++ [(if o.continuous then k + 1 else n, tigerPost o t)]) := by
        unfold tigerStep
        simp only [hn, hs]
      rw [hstep]
      show List.foldlM (tigerStep o) _ _ = _
      rw [hf]
      cases o.continuous with
      | false => simp [hn]
      | true => simp [List.range'_succ]
    · intro p hp
      rw [List.zip_cons_cons] at hp
      rcases List.mem_cons.1 hp with rfl | hp
      · exact ⟨root, hwf, ht⟩
      · exact ha p hp

/-- MAIN, whole reader (rows 7, 9): on a file whose `<s>` elements are all `XWF` (and carry a number in their id, which the reader
    demands of every sentence) the reader yields one tree per `<s>`, in file order, numbered as the numbering option says, each the
    decoder's tree of its sentence.  Every option record, any id scheme. -/
theorem readTiger_decX (o : InOpts) (ss : List XSent)
    (h : ∀ s ∈ ss, (∃ root, XWF s root) ∧ (lastNumber s.id).isSome = true) :
    ∃ ts : List Tree, ts.length = ss.length ∧
      readTiger o ss = .ok ((if o.continuous then List.range' 1 ss.length
                              else ss.map fun s => (lastNumber s.id).getD 0).zip (ts.map (tigerPost o))) ∧
      ∀ p ∈ ss.zip ts, ∃ root, XWF p.1 root ∧ XDecodes p.1 root p.2 := by
  obtain ⟨ts, h1, h2, h3⟩ := foldlM_tigerStep_decX o ss 0 [] h
  exact ⟨ts, h1, by rw [readTiger_eq, h2]; simp, h3⟩

/-- whole reader, with well-formedness (rows 7, 9, 10) -/
theorem readTiger_decX_WF (o : InOpts) (hg : o.gfSplit = false) (hr : o.replaceParens = false) (ss : List XSent)
    (h : ∀ s ∈ ss, (∃ root, XWF s root ∧ ∀ tm ∈ s.terms, tm.id = root → tm.pos ≠ some DEFAULT_ROOT) ∧
      (lastNumber s.id).isSome = true ∧ XNoEmpty s) :
    ∃ ts : List Tree, ts.length = ss.length ∧
      readTiger o ss = .ok ((if o.continuous then List.range' 1 ss.length
                              else ss.map fun s => (lastNumber s.id).getD 0).zip ts) ∧
      (∀ p ∈ ss.zip ts, ∃ root, XWF p.1 root ∧ XDecodes p.1 root p.2) ∧ ∀ t ∈ ts, WF t = true := by
  obtain ⟨ts, h1, h2, h3⟩ := readTiger_decX o ss (fun s hs => ⟨(h s hs).1.elim fun r hr => ⟨r, hr.1⟩, (h s hs).2.1⟩)
  have hpost : ts.map (tigerPost o) = ts := by
    have : tigerPost o = id := by funext t; simp [tigerPost, hg, hr]
    rw [this, List.map_id]
  rw [hpost] at h2
  refine ⟨ts, h1, h2, h3, ?_⟩
  intro t ht
  obtain ⟨i, hi, rfl⟩ := List.getElem_of_mem ht
  have hi' : i < ss.length := h1 ▸ hi
  have hmem : (ss[i], ts[i]) ∈ ss.zip ts := by
    rw [List.mem_iff_getElem]
    exact ⟨i, by rw [List.length_zip]; omega, by simp⟩
  obtain ⟨root, hwf, hdec⟩ := h3 _ hmem
  obtain ⟨⟨root', hwf', hrt⟩, _, hne⟩ := h ss[i] (List.getElem_mem hi')
  have := XWF_root_unique _ _ _ hwf hwf'
  subst this
  exact XDecodes_WF _ _ _ hwf hne hrt hdec

/-! ## 4. `XWF` for a given numbering is decidable; instances -/

theorem nodupStr_nodup : ∀ (l : List Str), xwfB.nodupStr l = true → l.Nodup
  | [], _ => List.nodup_nil
  | a :: r, h => by
    simp only [xwfB.nodupStr, Bool.and_eq_true, Bool.not_eq_true', List.contains_eq_mem, decide_eq_false_iff_not] at h
    exact List.nodup_cons.2 ⟨h.1, nodupStr_nodup r h.2⟩

theorem xwfB_XWF (s : XSent) (root : Str) (rk : Str → Nat) (h : xwfB s root rk = true) : XWF s root := by
  simp only [xwfB, Bool.and_eq_true, List.all_eq_true, List.contains_eq_mem, decide_eq_true_eq, Bool.not_eq_true',
    decide_eq_false_iff_not, Bool.or_eq_true, beq_iff_eq] at h
  obtain ⟨⟨⟨⟨⟨h1, h2⟩, h3⟩, h4⟩, h5⟩, h7⟩ := h
  exact ⟨nodupStr_nodup _ h1, h2, h3, h4, fun i hi hne => (h5 i hi).resolve_left hne, rk, h7⟩

private def mkT (i w p : String) : XTerm := { id := i.toList, word := some w.toList, pos := some p.toList, morph := none, lemma := none }
private def mkN (i c : String) (es : List (String × String)) : XNt :=
  { id := i.toList, cat := some c.toList, edges := es.map fun e => (some e.1.toList, e.2.toList) }

/-- a foreign structure: ids `s12_<n>` with the tokens NOT in id order, the `<nt>` elements parent first (edges before the
    elements they point to) -/
def exForeign : XSent :=
  { id := "s12".toList,
    terms := [{ mkT "s12_2" "x" "X" with }, { mkT "s12_1" "y" "Y" with morph := some "m".toList, lemma := some "l".toList }],
    nts := [mkN "s12_501" "S" [("HD", "s12_500"), ("B", "s12_1")], mkN "s12_500" "NP" [("C", "s12_2")]] }

def exRank (i : Str) : Nat := if i == "s12_501".toList then 3 else if i == "s12_500".toList then 2 else 0

/-- non-vacuity of `tigerSentence_decX` / `readTiger_decX` -/
example : XWF exForeign "s12_501".toList := xwfB_XWF _ _ exRank (by decide +kernel)
example : XLabelled exForeign := by
  show ∀ nt ∈ exForeign.nts, ∀ e ∈ nt.edges, e.1.isSome = true
  decide +kernel
example : (lastNumber exForeign.id).isSome = true := by decide +kernel

example : XNoEmpty exForeign := by intro nt h; simp [exForeign, mkN] at h; rcases h with rfl | rfl <;> simp
example : ∀ tm ∈ exForeign.terms, tm.id = "s12_501".toList → tm.pos ≠ some DEFAULT_ROOT := by decide +kernel

/-- what the reader makes of it: token numbers by POSITION of the `<t>` elements (`s12_2` is token 1), children in edge order -/
example : (match tigerSentence {} exForeign with
    | .ok t => Tree.beq t (.node { label := "VROOT".toList, morph := some "--".toList, edge := some "--".toList, lemma := some "--".toList }
        [.node { label := "S".toList, morph := some "--".toList, edge := some "--".toList, lemma := some "--".toList }
          [.node { label := "NP".toList, morph := some "--".toList, edge := some "HD".toList, lemma := some "--".toList }
            [.leaf 1 { label := "X".toList, word := some "x".toList, edge := some "C".toList }],
           .leaf 2 { label := "Y".toList, word := some "y".toList, morph := some "m".toList, lemma := some "l".toList, edge := some "B".toList }]])
    | _ => false) = true := by decide +kernel

/-! ## 4b. the old theorems are instances: the writer's own structures are `XWF` -/

/-- the element structure of a sentence the tool's own writer writes (`xsentOf`: ids = export numbers) is well formed; its root
    element is the one carrying the root's export number -/
theorem xsentOf_XWF (sid : Nat) (t : Tree) (hwf : WF t = true) (hlen : t.leafNums.length < 500) :
    XWF (xsentOf sid t) (natToStr (TT.Lemmas.TigerRT.numOf t [])) := TT.Lemmas.Tiger19.xsentOf_XWF sid t hwf hlen

theorem xsentOf_XLabelled (sid : Nat) (t : Tree) : XLabelled (xsentOf sid t) := xsentOf_labelled sid t

/-- hence `C01Readers.tigerSentence_xsent` is an instance of `tigerSentence_decX`, and the decoder's tree of `xsentOf sid t` is the
    content `tigerReadTop t` (modulo the storage order of children: the writer lists the edges by leftmost token) -/
theorem xsentOf_decodes (sid : Nat) (t : Tree) (hwf : WF t = true) (hlen : t.leafNums.length < 500) :
    ∃ d, XDecodes (xsentOf sid t) (natToStr (TT.Lemmas.TigerRT.numOf t [])) d ∧ sameTree d (tigerReadTop t) = true ∧ WF d = true := by
  obtain ⟨d, hd, hs⟩ := tigerSentence_decX {} _ _ (xsentOf_XWF sid t hwf hlen)
  obtain ⟨r, h1, h2, h3⟩ := tigerSentence_xsentOf {} rfl rfl sid t hwf hlen
  rw [hs] at h1
  have : tigerPost {} d = r := by injection h1
  have hdr : d = r := this
  subst hdr
  exact ⟨d, hd, by unfold sameTree; rw [h2]; exact TT.Lemmas.Write.beq_refl _, h3⟩

/-! ## 5. outside `XWF`: what the reader model (and the real code, see the wave-19 report) does

  * `exCycle`: ids distinct, every idref resolves, every element but `r` has exactly one incoming edge - but `p` and `q` form a cycle
    that is not connected to the root.  NOT `XWF` (no numbering exists), yet model and code both ACCEPT it and silently drop the cycle
    with token 1 below it: the yielded tree has the single token 2 and is not `WF`.  (`ValueError("looks like a cycle")` is raised
    only when NO element is without parent.)
  * `exDupT`, `exDupN`: an id used twice.  NOT `XWF`.  Here the MODEL AND THE CODE DISAGREE: the model looks an id up from the front
    (`find?`: first `<t>`/`<nt>` with that id), the Python keeps the LAST element in its dict (and hangs the edges of both `<nt>`
    under the last).  Model: `VROOT(S(1:x))` for both; `tigerxml_build_tree`: `VROOT(S(2:y))` resp. `VROOT(T(1:x, 2:y))`. -/

def exCycle : XSent := { id := "s1".toList, terms := [mkT "a1" "x" "X", mkT "a2" "y" "Y"], nts := [mkN "r" "S" [("HD", "a2")], mkN "p" "P" [("A", "q"), ("B", "a1")], mkN "q" "Q" [("C", "p")]] }
def exDupT : XSent := { id := "s1".toList, terms := [mkT "a" "x" "X", mkT "a" "y" "Y"], nts := [mkN "n" "S" [("HD", "a")]] }
def exDupN : XSent := { id := "s1".toList, terms := [mkT "a" "x" "X", mkT "b" "y" "Y"], nts := [mkN "n" "S" [("HD", "a")], mkN "n" "T" [("HD", "b")]] }

private def vS (k : Tree) : Tree :=
  .node { label := "VROOT".toList, morph := some "--".toList, edge := some "--".toList, lemma := some "--".toList }
    [.node { label := "S".toList, morph := some "--".toList, edge := some "--".toList, lemma := some "--".toList } [k]]

/-- the cycle is accepted and dropped; the result is not well formed -/
example : (match tigerSentence {} exCycle with
    | .ok t => Tree.beq t (vS (.leaf 2 { label := "Y".toList, word := some "y".toList, edge := some "HD".toList })) && !WF t
    | _ => false) = true := by decide +kernel

/-- `exCycle` is not `XWF`, whatever the root: a numbering would have `rk p < rk q < rk p` -/
example (root : Str) : ¬ XWF exCycle root := by
  rintro ⟨_, _, _, _, _, rk, h⟩
  have h1 := h (mkN "p" "P" [("A", "q"), ("B", "a1")]) (by simp [exCycle]) (some "A".toList, "q".toList) (by simp [mkN])
  have h2 := h (mkN "q" "Q" [("C", "p")]) (by simp [exCycle]) (some "C".toList, "p".toList) (by simp [mkN])
  simp only [mkN] at h1 h2
  omega

/-- `XNoEmpty` cannot be dropped from `tigerSentence_decX_WF`: an `<nt/>` without edges in an `XWF` structure is read as a childless
    constituent (the code does the same) -/
def exEmptyNt : XSent := { id := "s1".toList, terms := [mkT "a" "x" "X"], nts := [mkN "n" "S" [("HD", "a"), ("E", "m")], mkN "m" "M" []] }
example : XWF exEmptyNt "n".toList := xwfB_XWF _ _ (fun i => if i == "n".toList then 2 else 0) (by decide +kernel)
example : (match tigerSentence {} exEmptyNt with | .ok t => !WF t | _ => false) = true := by decide +kernel

/-- nor can the condition on the root: a lone `<t pos="VROOT">` is `XWF`, and the reader yields the bare token (the code too) -/
def exVrootTok : XSent := { id := "s1".toList, terms := [mkT "a" "x" "VROOT"], nts := [] }
example : XWF exVrootTok "a".toList := xwfB_XWF _ _ (fun _ => 0) (by decide +kernel)
example : (match tigerSentence {} exVrootTok with | .ok t => t.isLeaf && !WF t | _ => false) = true := by decide +kernel

/-- AGREEMENT (was a model/code disagreement until repair P11) on an `XWF` structure with an `<edge>` without `label`:
    `tigerxml_build_tree` stores `edge.get('label')` = Python `None` as the edge label of token 1; `XDecodes` says edge field `none`,
    and so does the reader model now (it used to store the TEXT `None`).  Not `XLabelled`: non-vacuity of dropping that hypothesis. -/
def exNoLabel : XSent := { id := "s1".toList, terms := [mkT "a" "x" "X"], nts := [{ id := "n".toList, cat := some "S".toList, edges := [(none, "a".toList)] }] }
example : XWF exNoLabel "n".toList := xwfB_XWF _ _ (fun i => if i == "n".toList then 1 else 0) (by decide +kernel)
example : (match tigerSentence {} exNoLabel with
    | .ok t => Tree.beq t (vS (.leaf 1 { label := "X".toList, word := some "x".toList, edge := none }))
    | _ => false) = true := by decide +kernel
example : ¬ XLabelled exNoLabel := fun h => by
  have := h _ (List.mem_singleton.2 rfl) (none, "a".toList) (List.mem_singleton.2 rfl)
  simp at this
example : XDecodes exNoLabel "n".toList (vS (.leaf 1 { label := "X".toList, word := some "x".toList, edge := none })) := by
  refine ⟨by decide +kernel, by decide +kernel,
    .node { label := "S".toList, morph := some "--".toList, edge := some "--".toList, lemma := some "--".toList }
      [.leaf 1 { label := "X".toList, word := some "x".toList, edge := none }], ?_, rfl⟩
  rw [IsXTree]
  refine ⟨_, List.mem_singleton.2 rfl, rfl, rfl, ?_⟩
  show IsXKids exNoLabel [(none, "a".toList)] _
  rw [IsXKids, IsXTree]
  exact ⟨⟨mkT "a" "x" "X", by omega, rfl, rfl, rfl⟩, by simp [IsXKids]⟩

/-- duplicate ids: the MODEL takes the first element with the id (the code takes the last: disagreement, see above) -/
example : (match tigerSentence {} exDupT with
    | .ok t => Tree.beq t (vS (.leaf 1 { label := "X".toList, word := some "x".toList, edge := some "HD".toList }))
    | _ => false) = true := by decide +kernel
example : (match tigerSentence {} exDupN with
    | .ok t => Tree.beq t (vS (.leaf 1 { label := "X".toList, word := some "x".toList, edge := some "HD".toList }))
    | _ => false) = true := by decide +kernel

end TT.Props.C01Tiger2
