/-
  C18 (wave 16) — sentence locality at COMMAND level for the sources other than export (clauses 2-4):
  `runFrom ∘ reader` on the concatenation of two treebanks, for the bracket reader (`run_brackets_append*`), the
  discobracket reader (`run_disco_append*`, a text cut behind a line break) and the TIGER-XML reader (`run_tiger_append*`),
  and for the export reader with any `enc` / TIGER-XML destination (`run_export_append_enc`, `run_export_append_tiger`).
  The bracket readers continue the sentence numbers behind those of the first part; `readBrackets_shift` shows that the
  counter's start value changes the numbers only, so that for destinations which do not print the numbers (`noIds`) the
  outputs simply concatenate, and for the others the second body is written with the continued numbers.
  Last section: clauses 8/12, the history theorem for the process state extended by the node-id counter and reader calls
  (`historyX_independent`, model `TT/ProcIds.lean`).
-/
import TT.Props.C18Local
import TT.Props.C18More
import TT.ProcIds
namespace TT.Props.C18Local2
open TT TT.Tree TT.Spec TT.Lemmas.Proc TT.Lemmas.Run TT.Lemmas.More12f
open TT.Props.C18 TT.Props.C18Local

/-- the sentence numbers moved up by `k` -/
def bump (k : Nat) (p : Nat × Tree) : Nat × Tree := (p.1 + k, p.2)

/-- a reader state whose sentence counter started `k` later -/
def shiftSt (k : Nat) (st : BrState) : BrState := { st with cnt := st.cnt + k, out := st.out.map (bump k) }

theorem brStep_shift (o : InOpts) (k : Nat) (st : BrState) (tok : Str × LexClass) :
    brStep o (shiftSt k st) tok = (brStep o st tok).map fun r => (shiftSt k r.1, r.2) := by
  obtain ⟨t, c⟩ := tok
  cases c <;> simp only [brStep, shiftSt]
  all_goals (repeat' (first | rfl | split))
  all_goals simp_all [Except.map]
  all_goals (repeat' (first | rfl | split))
  all_goals simp_all
  all_goals (subst_vars; simp; try omega)

theorem brLoop_shift (o : InOpts) (k : Nat) : ∀ (fuel : Nat) (st : BrState) (toks : List (Str × LexClass)),
    brLoop o fuel (shiftSt k st) toks = (brLoop o fuel st toks).map (·.map (bump k)) := by
  intro fuel
  induction fuel with
  | zero => intro st toks; rfl
  | succ fuel ih =>
    intro st toks
    cases toks with
    | nil =>
      simp only [brLoop, shiftSt]
      by_cases h : (st.level != 0) = true
      · simp only [h, if_true]; rfl
      · simp [h, Except.map, List.map_reverse]
    | cons tok rest =>
      rw [brLoop, brLoop, brStep_shift]
      cases hs : brStep o st tok with
      | error e => rfl
      | ok r =>
        obtain ⟨st', ot⟩ := r
        cases ot with
        | none => exact ih st' rest
        | some t =>
          simp only [Except.map]
          have hc : (shiftSt k st).cnt = st.cnt + k := rfl
          rw [hc]
          split
          · cases rest with
            | nil => rfl
            | cons f rest1 =>
              simp only
              split
              · exact ih { st' with out := (st.cnt, _) :: st'.out } _
              · rfl
          · exact ih { st' with out := (st.cnt, t) :: st'.out } rest

/-- MAIN LEMMA (both bracket readers, every option set): starting the sentence counter `k` later changes nothing but the
    sentence numbers, which are all `k` larger — same trees, same errors -/
theorem readBrackets_shift (o : InOpts) (k : Nat) (b : Str) :
    readBrackets { o with firstId := some (o.firstId.getD 1 + k) } b = (readBrackets o b).map (·.map (bump k)) := by
  unfold readBrackets
  show brLoop { o with firstId := some (o.firstId.getD 1 + k) } _ _ _ = _
  rw [TT.Lemmas.Disco12.brLoop_firstId o (some (o.firstId.getD 1 + k))]
  exact brLoop_shift o k _ { cnt := o.firstId.getD 1 } _

theorem bump_eq_renum (k : Nat) : bump k = renum { continuous := true } k := rfl

/-- the continuation form of the reader theorems, seen through the command -/
theorem runFrom_cont (steps : List Step) (fmt : DestFmt) (o : OutOpts) (enc : Option Str) (io : InOpts) (b : Str)
    (xa : List (Nat × Tree)) :
    runFrom steps fmt o enc (match readBrackets { io with firstId := some (io.firstId.getD 1 + xa.length) } b with
      | .error e => .error e
      | .ok rb => .ok (xa ++ rb)) =
    match readBrackets io b with
    | .error e => .error e
    | .ok xb => runFrom steps fmt o enc (.ok (xa ++ xb.map (bump xa.length))) := by
  rw [readBrackets_shift]
  cases readBrackets io b <;> rfl

/-! ### sentence lists whose second half was renumbered -/

/-- what the command writes for `xa` followed by the renumbered `xb`: the transformations see the trees only, so the
    renumbering reaches the writer unchanged; the frame around the two bodies (no success assumed) -/
theorem runFrom_append_renum_framed (steps : List Step) (fmt : DestFmt) (o : OutOpts) (enc : Option Str) (io : InOpts) (k : Nat)
    (xa xb : List (Nat × Tree)) :
    runFrom steps fmt o enc (.ok (xa ++ xb.map (renum io k))) =
      match transformAll steps xa, transformAll steps xb with
      | .error e, _ => .error e
      | .ok _, .error e => .error e
      | .ok a', .ok b' =>
        match bodyText fmt o a', bodyText fmt o (b'.map (renum io k)) with
        | .error e, _ => .error e
        | .ok _, .error e => .error e
        | .ok x, .ok y => .ok (frame fmt enc (x ++ y)) := by
  rw [runFrom_append_framed, transformAll_renum]
  cases transformAll steps xa with
  | error e => rfl
  | ok a' => cases transformAll steps xb <;> rfl

/-- both runs succeed, and either nothing is renumbered or the destination does not print sentence numbers: the
    texts concatenate (frame-less formats, any `enc`) -/
theorem runFrom_append_renum_ok (steps : List Step) (fmt : DestFmt) (o : OutOpts) (enc : Option Str) (io : InOpts) (k : Nat)
    (xa xb : List (Nat × Tree)) (ra rb : Str) (hf : fmt ≠ .tigerxml) (hc : io.continuous = false ∨ noIds fmt = true)
    (ha : runFrom steps fmt o enc (.ok xa) = .ok ra) (hb : runFrom steps fmt o enc (.ok xb) = .ok rb) :
    runFrom steps fmt o enc (.ok (xa ++ xb.map (renum io k))) = .ok (ra ++ rb) := by
  rcases hc with hc | hn
  · have hid : renum io k = id := by funext p; simp [renum, hc]
    rw [hid, List.map_id]
    exact runFrom_append_enc steps fmt o enc xa xb ra rb hf ha hb
  · rw [← runFrom_renum steps fmt o enc io k hn] at hb
    exact runFrom_append_enc steps fmt o enc xa _ ra rb hf ha hb

/-- TIGER-XML destination (it prints the sentence numbers), nothing renumbered: one frame around both bodies -/
theorem runFrom_append_renum_tiger (steps : List Step) (o : OutOpts) (enc : Option Str) (io : InOpts) (k : Nat)
    (xa xb : List (Nat × Tree)) (ra rb : Str) (hc : io.continuous = false)
    (ha : runFrom steps .tigerxml o enc (.ok xa) = .ok ra) (hb : runFrom steps .tigerxml o enc (.ok xb) = .ok rb) :
    ∃ x y, ra = tigerFrame enc x ∧ rb = tigerFrame enc y ∧
      runFrom steps .tigerxml o enc (.ok (xa ++ xb.map (renum io k))) = .ok (tigerFrame enc (x ++ y)) := by
  have hid : renum io k = id := by funext p; simp [renum, hc]
  rw [hid, List.map_id]
  exact runFrom_append_tiger steps o enc xa xb ra rb ha hb

/-! ### clause 2 completed: export source, any `enc`, TIGER-XML destination -/

/-- no success assumed, every destination, every `enc`: the command on the concatenation of two export texts -/
theorem run_export_append_framed (steps : List Step) (fmt : DestFmt) (o : OutOpts) (enc : Option Str) (io : InOpts) (a b : Str)
    (hcomplete : Complete (lines a)) :
    runFrom steps fmt o enc (readExport io (a ++ ['\n'] ++ b)) =
      match readExport io (a ++ ['\n']), readExport io b with
      | .error e, _ => .error e
      | .ok _, .error e => .error e
      | .ok xa, .ok xb => runFrom steps fmt o enc (.ok (xa ++ xb.map (renum io (sentences (lines (a ++ ['\n'])))))) := by
  rw [readExport_append_nl io a b hcomplete]
  cases readExport io (a ++ ['\n']) with
  | error e => rfl
  | ok xa => cases readExport io b <;> rfl

/-- MAIN (clause 2, any `enc`): `run_export_append` of C18Run and `run_export_append_noIds` of C18Local in one statement and
    for every encoding -/
theorem run_export_append_enc (steps : List Step) (fmt : DestFmt) (o : OutOpts) (enc : Option Str) (io : InOpts) (a b : Str)
    (ra rb : Str) (hf : fmt ≠ .tigerxml) (hc : io.continuous = false ∨ noIds fmt = true) (hcomplete : Complete (lines a))
    (ha : runFrom steps fmt o enc (readExport io (a ++ ['\n'])) = .ok ra)
    (hb : runFrom steps fmt o enc (readExport io b) = .ok rb) :
    runFrom steps fmt o enc (readExport io (a ++ ['\n'] ++ b)) = .ok (ra ++ rb) := by
  obtain ⟨xa, _, hxa, _, _⟩ := TT.Props.C18Run.runFrom_inv _ _ _ _ _ _ ha
  obtain ⟨xb, _, hxb, _, _⟩ := TT.Props.C18Run.runFrom_inv _ _ _ _ _ _ hb
  rw [run_export_append_framed _ _ _ _ _ _ _ hcomplete, hxa, hxb]
  rw [hxa] at ha
  rw [hxb] at hb
  exact runFrom_append_renum_ok steps fmt o enc io _ xa xb ra rb hf hc ha hb

/-- MAIN (clause 2, TIGER-XML destination): both outputs are a frame around a body, and the output for the concatenation
    is the same frame around the two bodies -/
theorem run_export_append_tiger (steps : List Step) (o : OutOpts) (enc : Option Str) (io : InOpts) (a b : Str)
    (ra rb : Str) (hc : io.continuous = false) (hcomplete : Complete (lines a))
    (ha : runFrom steps .tigerxml o enc (readExport io (a ++ ['\n'])) = .ok ra)
    (hb : runFrom steps .tigerxml o enc (readExport io b) = .ok rb) :
    ∃ x y, ra = tigerFrame enc x ∧ rb = tigerFrame enc y ∧
      runFrom steps .tigerxml o enc (readExport io (a ++ ['\n'] ++ b)) = .ok (tigerFrame enc (x ++ y)) := by
  obtain ⟨xa, _, hxa, _, _⟩ := TT.Props.C18Run.runFrom_inv _ _ _ _ _ _ ha
  obtain ⟨xb, _, hxb, _, _⟩ := TT.Props.C18Run.runFrom_inv _ _ _ _ _ _ hb
  rw [run_export_append_framed _ _ _ _ _ _ _ hcomplete, hxa, hxb]
  rw [hxa] at ha
  rw [hxb] at hb
  exact runFrom_append_renum_tiger steps o enc io _ xa xb ra rb hc ha hb

/-! ### clause 3 at command level: bracket source -/

/-- MAIN (no success assumed of the second text, every destination, every `enc`): if the bracket text `a` is read
    successfully on its own — it is a treebank —, the command on `a ++ b` is the command on the sentences of `a` followed
    by the sentences of `b` read on its own, their numbers continued behind those of `a`; a reader error of `b` is the
    error of the whole -/
theorem run_brackets_append (steps : List Step) (fmt : DestFmt) (o : OutOpts) (enc : Option Str) (io : InOpts)
    (hd : io.disco = false) (a b : Str) (xa : List (Nat × Tree)) (ha : readBrackets io a = .ok xa) :
    runFrom steps fmt o enc (readBrackets io (a ++ b)) =
      match readBrackets io b with
      | .error e => .error e
      | .ok xb => runFrom steps fmt o enc (.ok (xa ++ xb.map (bump xa.length))) := by
  rw [TT.Props.C18More.readBrackets_append io hd a b xa ha]
  exact runFrom_cont steps fmt o enc io b xa

/-- MAIN (clause 3, destinations that do not print sentence numbers, any `enc`): the command on the concatenation of two
    bracket treebanks writes the concatenation of what it writes for each -/
theorem run_brackets_append_noIds (steps : List Step) (fmt : DestFmt) (o : OutOpts) (enc : Option Str) (io : InOpts)
    (hd : io.disco = false) (hf : noIds fmt = true) (a b : Str) (ra rb : Str)
    (ha : runFrom steps fmt o enc (readBrackets io a) = .ok ra)
    (hb : runFrom steps fmt o enc (readBrackets io b) = .ok rb) :
    runFrom steps fmt o enc (readBrackets io (a ++ b)) = .ok (ra ++ rb) := by
  obtain ⟨xa, _, hxa, _, _⟩ := TT.Props.C18Run.runFrom_inv _ _ _ _ _ _ ha
  obtain ⟨xb, _, hxb, _, _⟩ := TT.Props.C18Run.runFrom_inv _ _ _ _ _ _ hb
  rw [run_brackets_append steps fmt o enc io hd a b xa hxa, hxb]
  rw [hxa] at ha
  rw [hxb] at hb
  have hne : fmt ≠ .tigerxml := by intro h; subst h; simp [noIds] at hf
  exact runFrom_append_renum_ok steps fmt o enc { continuous := true } xa.length xa xb ra rb hne (.inr hf) ha hb

/-- the destinations that do print the numbers (export, TIGER-XML): the second body is the body of the second treebank
    with its numbers continued — spelled out, no success assumed -/
theorem run_brackets_append_framed (steps : List Step) (fmt : DestFmt) (o : OutOpts) (enc : Option Str) (io : InOpts)
    (hd : io.disco = false) (a b : Str) (xa : List (Nat × Tree)) (ha : readBrackets io a = .ok xa) :
    runFrom steps fmt o enc (readBrackets io (a ++ b)) =
      match readBrackets io b with
      | .error e => .error e
      | .ok xb =>
        match transformAll steps xa, transformAll steps xb with
        | .error e, _ => .error e
        | .ok _, .error e => .error e
        | .ok a', .ok b' =>
          match bodyText fmt o a', bodyText fmt o (b'.map (bump xa.length)) with
          | .error e, _ => .error e
          | .ok _, .error e => .error e
          | .ok x, .ok y => .ok (frame fmt enc (x ++ y)) := by
  rw [run_brackets_append steps fmt o enc io hd a b xa ha]
  cases readBrackets io b with
  | error e => rfl
  | ok xb => exact runFrom_append_renum_framed steps fmt o enc { continuous := true } xa.length xa xb

/-! ### clause 3 at command level: discobracket source (any reader options) -/

/-- MAIN: as `run_brackets_append` for a text cut behind a line break; holds for the plain bracket reader too -/
theorem run_disco_append (steps : List Step) (fmt : DestFmt) (o : OutOpts) (enc : Option Str) (io : InOpts)
    (a0 b : Str) (xa : List (Nat × Tree)) (ha : readBrackets io (a0 ++ ['\n']) = .ok xa) :
    runFrom steps fmt o enc (readBrackets io (a0 ++ '\n' :: b)) =
      match readBrackets io b with
      | .error e => .error e
      | .ok xb => runFrom steps fmt o enc (.ok (xa ++ xb.map (bump xa.length))) := by
  rw [readDisco_append_text io a0 b xa ha]
  exact runFrom_cont steps fmt o enc io b xa

/-- MAIN (clause 3, discobrackets → a destination without sentence numbers, any `enc`) -/
theorem run_disco_append_noIds (steps : List Step) (fmt : DestFmt) (o : OutOpts) (enc : Option Str) (io : InOpts)
    (hf : noIds fmt = true) (a0 b : Str) (ra rb : Str)
    (ha : runFrom steps fmt o enc (readBrackets io (a0 ++ ['\n'])) = .ok ra)
    (hb : runFrom steps fmt o enc (readBrackets io b) = .ok rb) :
    runFrom steps fmt o enc (readBrackets io (a0 ++ '\n' :: b)) = .ok (ra ++ rb) := by
  obtain ⟨xa, _, hxa, _, _⟩ := TT.Props.C18Run.runFrom_inv _ _ _ _ _ _ ha
  obtain ⟨xb, _, hxb, _, _⟩ := TT.Props.C18Run.runFrom_inv _ _ _ _ _ _ hb
  rw [run_disco_append steps fmt o enc io a0 b xa hxa, hxb]
  rw [hxa] at ha
  rw [hxb] at hb
  have hne : fmt ≠ .tigerxml := by intro h; subst h; simp [noIds] at hf
  exact runFrom_append_renum_ok steps fmt o enc { continuous := true } xa.length xa xb ra rb hne (.inr hf) ha hb

theorem run_disco_append_framed (steps : List Step) (fmt : DestFmt) (o : OutOpts) (enc : Option Str) (io : InOpts)
    (a0 b : Str) (xa : List (Nat × Tree)) (ha : readBrackets io (a0 ++ ['\n']) = .ok xa) :
    runFrom steps fmt o enc (readBrackets io (a0 ++ '\n' :: b)) =
      match readBrackets io b with
      | .error e => .error e
      | .ok xb =>
        match transformAll steps xa, transformAll steps xb with
        | .error e, _ => .error e
        | .ok _, .error e => .error e
        | .ok a', .ok b' =>
          match bodyText fmt o a', bodyText fmt o (b'.map (bump xa.length)) with
          | .error e, _ => .error e
          | .ok _, .error e => .error e
          | .ok x, .ok y => .ok (frame fmt enc (x ++ y)) := by
  rw [run_disco_append steps fmt o enc io a0 b xa ha]
  cases readBrackets io b with
  | error e => rfl
  | ok xb => exact runFrom_append_renum_framed steps fmt o enc { continuous := true } xa.length xa xb

/-! ### clause 4 at command level: TIGER-XML source -/

/-- MAIN (no hypothesis at all): the command on the sentences of two documents -/
theorem run_tiger_append (steps : List Step) (fmt : DestFmt) (o : OutOpts) (enc : Option Str) (io : InOpts) (a b : List XSent) :
    runFrom steps fmt o enc (readTiger io (a ++ b)) =
      match readTiger io a, readTiger io b with
      | .error e, _ => .error e
      | .ok _, .error e => .error e
      | .ok xa, .ok xb => runFrom steps fmt o enc (.ok (xa ++ xb.map (renum io a.length))) := by
  rw [readTiger_append]
  cases readTiger io a with
  | error e => rfl
  | ok xa => cases readTiger io b <;> rfl

/-- MAIN (clause 4, frame-less destinations, any `enc`): the outputs concatenate when the numbers are the documents' own
    (`continuous = false`) or the destination does not print them -/
theorem run_tiger_append_ok (steps : List Step) (fmt : DestFmt) (o : OutOpts) (enc : Option Str) (io : InOpts) (a b : List XSent)
    (ra rb : Str) (hf : fmt ≠ .tigerxml) (hc : io.continuous = false ∨ noIds fmt = true)
    (ha : runFrom steps fmt o enc (readTiger io a) = .ok ra) (hb : runFrom steps fmt o enc (readTiger io b) = .ok rb) :
    runFrom steps fmt o enc (readTiger io (a ++ b)) = .ok (ra ++ rb) := by
  obtain ⟨xa, _, hxa, _, _⟩ := TT.Props.C18Run.runFrom_inv _ _ _ _ _ _ ha
  obtain ⟨xb, _, hxb, _, _⟩ := TT.Props.C18Run.runFrom_inv _ _ _ _ _ _ hb
  rw [run_tiger_append, hxa, hxb]
  rw [hxa] at ha
  rw [hxb] at hb
  exact runFrom_append_renum_ok steps fmt o enc io _ xa xb ra rb hf hc ha hb

/-- MAIN (clause 4, TIGER-XML → TIGER-XML): one frame around the two bodies -/
theorem run_tiger_append_tiger (steps : List Step) (o : OutOpts) (enc : Option Str) (io : InOpts) (a b : List XSent)
    (ra rb : Str) (hc : io.continuous = false)
    (ha : runFrom steps .tigerxml o enc (readTiger io a) = .ok ra) (hb : runFrom steps .tigerxml o enc (readTiger io b) = .ok rb) :
    ∃ x y, ra = tigerFrame enc x ∧ rb = tigerFrame enc y ∧
      runFrom steps .tigerxml o enc (readTiger io (a ++ b)) = .ok (tigerFrame enc (x ++ y)) := by
  obtain ⟨xa, _, hxa, _, _⟩ := TT.Props.C18Run.runFrom_inv _ _ _ _ _ _ ha
  obtain ⟨xb, _, hxb, _, _⟩ := TT.Props.C18Run.runFrom_inv _ _ _ _ _ _ hb
  rw [run_tiger_append, hxa, hxb]
  rw [hxa] at ha
  rw [hxb] at hb
  exact runFrom_append_renum_tiger steps o enc io _ xa xb ra rb hc ha hb

/-! ### concrete instances -/

/-- equality of results is decidable (used by the concrete instances below only) -/
local instance instDecEqExcept {ε α} [DecidableEq ε] [DecidableEq α] : DecidableEq (Except ε α)
  | .ok a, .ok b => decidable_of_iff (a = b) (by simp)
  | .error a, .error b => decidable_of_iff (a = b) (by simp)
  | .ok _, .error _ => isFalse (by simp)
  | .error _, .ok _ => isFalse (by simp)

/-- a step that changes the root label -/
abbrev relab : Step := TT.Props.C18Run.relab

def brA : Str := "(S (NP (D the) (N dog)) (V barks))\n(S (N it))\n".toList
def brB : Str := " (S (ADV now))\n".toList
def dA0 : Str := "(S (VP (A 1) (C 3)) (B 2))\tHelmut schläft gern \t".toList
def dB : Str := "\n(X (Y 1))\tja\n".toList

/-- `readBrackets_shift`: the counter started four later -/
example : (readBrackets { firstId := some 5 } brA).map (·.map (·.1)) = .ok [5, 6] ∧
    (readBrackets {} brA).map (·.map (·.1)) = .ok [1, 2] := ⟨by decide +kernel, by decide +kernel⟩

/-- brackets → discobrackets through a relabelling step: the outputs concatenate -/
example : runFrom [relab] .discobrackets {} none (readBrackets {} (brA ++ brB)) =
    .ok ("(TOP(NP(D 1)(N 2))(V 3))\tthe dog barks\n(TOP(N 1))\tit\n".toList ++ "(TOP(ADV 1))\tnow\n".toList) :=
  run_brackets_append_noIds [relab] .discobrackets {} none {} rfl rfl brA brB _ _ (by decide +kernel) (by decide +kernel)

/-- `noIds` is needed for the plain concatenation: the export destination prints the numbers, and the number of the
    second treebank's sentence is continued (3, not 1) — what `run_brackets_append_framed` says -/
example : runFrom [] .export {} none (readBrackets {} brB) = .ok "#BOS 1\nnow\t\t\tADV\t--\t\t--\t0\n#EOS 1\n".toList ∧
    runFrom [] .export {} none (readBrackets {} (brA ++ brB)) =
      .ok ("#BOS 1\nthe\t\t\tD\t--\t\t--\t500\ndog\t\t\tN\t--\t\t--\t500\nbarks\t\t\tV\t--\t\t--\t0\n#500\t\t\tNP\t--\t\t--\t0\n#EOS 1\n#BOS 2\nit\t\t\tN\t--\t\t--\t0\n#EOS 2\n".toList ++
        "#BOS 3\nnow\t\t\tADV\t--\t\t--\t0\n#EOS 3\n".toList) := ⟨by decide +kernel, by decide +kernel⟩

/-- discobrackets (a discontinuous tree, the first part ending in a blank and a TAB, the second starting with a blank
    line) → brackets is refused for the first part, → discobrackets concatenates -/
example : runFrom [relab] .discobrackets {} none (readBrackets { disco := true } (dA0 ++ '\n' :: dB)) =
    .ok ("(TOP(VP(A 1)(C 3))(B 2))\tHelmut schläft gern\n".toList ++ "(TOP(Y 1))\tja\n".toList) :=
  run_disco_append_noIds [relab] .discobrackets {} none { disco := true } rfl dA0 dB _ _ (by decide +kernel) (by decide +kernel)

/-- TIGER-XML sentences → export, the documents' own numbers (5, then 9 and 5; `xs2` is skipped) -/
example : runFrom [] .export {} none (readTiger {} ([xs1, xs2] ++ [xs3, xs1])) =
    .ok ("#BOS 5\nthe\t\t\tD\t--\t\tHD\t500\ndog\t\t\tN\t--\t\tHD\t500\n#500\t\t\tNP\t--\t\t--\t0\n#EOS 5\n".toList ++
      "#BOS 9\nnow\t\t\tADV\t--\t\t--\t0\n#EOS 9\n#BOS 5\nthe\t\t\tD\t--\t\tHD\t500\ndog\t\t\tN\t--\t\tHD\t500\n#500\t\t\tNP\t--\t\t--\t0\n#EOS 5\n".toList) :=
  run_tiger_append_ok [] .export {} none {} _ _ _ _ (by decide) (.inl rfl) (by decide +kernel) (by decide +kernel)

/-- with `continuous` the same documents → brackets (no numbers printed) still concatenate -/
example : runFrom [] .brackets {} none (readTiger { continuous := true } ([xs1, xs2] ++ [xs3, xs1])) =
    .ok ("(VROOT(NP(D the)(N dog)))\n".toList ++ "(VROOT(ADV now))\n(VROOT(NP(D the)(N dog)))\n".toList) :=
  run_tiger_append_ok [] .brackets {} none { continuous := true } _ _ _ _ (by decide) (.inr rfl) (by decide +kernel) (by decide +kernel)


/-! ### clauses 8 and 12: node ids and readers as state of the process (`TT/ProcIds.lean`)

  `ProcStateX` = the two caches of `TT/Proc.lean` plus the counter `Tree.newid`; `CallX.read` = a reader call, whose nodes
  draw their ids from the counter (a failing reader draws some and delivers nothing).  History theorem: every call of every
  history returns what it returns in a fresh process, up to the renaming `+ k` of the node ids. -/

mutual
theorem stamp_shift (n k : Nat) : ∀ t : Tree, stamp (n + k) t = (mapUid (· + k) (stamp n t).1, (stamp n t).2 + k)
  | .leaf i f => by simp [stamp, mapUid, Nat.add_right_comm]
  | .node f ks => by
    have h := stampL_shift (n + 1) k ks
    rw [Nat.add_right_comm] at h
    simp [stamp, mapUid, h]
theorem stampL_shift (n k : Nat) : ∀ ts : List Tree, stampL (n + k) ts = (mapUidL (· + k) (stampL n ts).1, (stampL n ts).2 + k)
  | [] => by simp [stampL, mapUidL]
  | t :: ts => by
    have h1 := stamp_shift n k t
    have h2 := stampL_shift (stamp n t).2 k ts
    simp [stampL, mapUidL, h1, h2]
end

theorem stampAll_shift (k : Nat) : ∀ (ts : List (Nat × Tree)) (n : Nat),
    stampAll (n + k) ts = ((stampAll n ts).1.map fun p => (p.1, mapUid (· + k) p.2), (stampAll n ts).2 + k)
  | [], n => rfl
  | (sid, t) :: rest, n => by
    have h2 := stampAll_shift k rest (stamp n t).2
    simp [stampAll, stamp_shift n k t, h2]

/-- a reader draws at least the ids it hands out: the counter never goes back -/
theorem stampAll_zero (ts : List (Nat × Tree)) (k : Nat) :
    stampAll k ts = ((stampAll 0 ts).1.map fun p => (p.1, mapUid (· + k) p.2), (stampAll 0 ts).2 + k) := by
  have := stampAll_shift k ts 0
  rwa [Nat.zero_add] at this

/-- one call from any reachable state: the result of a fresh process with every node id moved up by the number of ids
    drawn so far — the same trees, other names for the nodes; the caches stay consistent -/
theorem callX_history_independent (fs : Str → Option Str) (st : ProcStateX) (c : CallX) (h : StateOK fs st.base) :
    (c.run fs st).1 = ((c.run fs {}).1).rename (· + st.nextId) ∧ StateOK fs (c.run fs st).2.base := by
  cases c with
  | base c =>
    obtain ⟨h1, h2⟩ := call_history_independent fs st.base c h
    exact ⟨by simp only [CallX.run, ResultX.rename]; rw [h1], h2⟩
  | read src drawn =>
    cases src with
    | error e => exact ⟨rfl, h⟩
    | ok ts =>
      refine ⟨?_, h⟩
      simp only [CallX.run, ResultX.rename, Except.map]
      rw [stampAll_zero ts st.nextId]

/-- histories from any consistent state -/
theorem historyX_independent_from (fs : Str → Option Str) (cs : List CallX) : ∀ st : ProcStateX, StateOK fs st.base →
    ∃ ks : List Nat, ks.length = cs.length ∧
      runHistoryX fs st cs = List.zipWith (fun c k => ((c.run fs {}).1).rename (· + k)) cs ks := by
  induction cs with
  | nil => intro st _; exact ⟨[], rfl, rfl⟩
  | cons c cs ih =>
    intro st h
    obtain ⟨h1, h2⟩ := callX_history_independent fs st c h
    obtain ⟨ks, hl, hk⟩ := ih (c.run fs st).2 h2
    refine ⟨st.nextId :: ks, by simp [hl], ?_⟩
    simp only [runHistoryX, List.zipWith_cons_cons]
    rw [h1, hk]

/-- MAIN (clauses 8 and 12 with node ids and readers in the state): in every history of reader calls and cache-using
    calls, in any interleaving, over a file system that does not change, the k-th call returns what it returns in a
    fresh process up to a renaming of the node ids (`+ k_i`, the number of ids drawn before it; injective) -/
theorem historyX_independent (fs : Str → Option Str) (cs : List CallX) :
    ∃ ks : List Nat, ks.length = cs.length ∧
      runHistoryX fs {} cs = List.zipWith (fun c k => ((c.run fs {}).1).rename (· + k)) cs ks :=
  historyX_independent_from fs cs {} (stateOK_init fs)

mutual
theorem mapUid_id : ∀ t : Tree, mapUid (fun x => x) t = t
  | .leaf i f => by simp [mapUid]
  | .node f ks => by simp [mapUid, mapUidL_id ks]
theorem mapUidL_id : ∀ ts : List Tree, mapUidL (fun x => x) ts = ts
  | [] => rfl
  | t :: ts => by simp [mapUidL, mapUid_id t, mapUidL_id ts]
end

mutual
theorem mapUid_comp (g h : Nat → Nat) : ∀ t : Tree, mapUid g (mapUid h t) = mapUid (g ∘ h) t
  | .leaf i f => by simp [mapUid]
  | .node f ks => by simp [mapUid, mapUidL_comp g h ks]
theorem mapUidL_comp (g h : Nat → Nat) : ∀ ts : List Tree, mapUidL g (mapUidL h ts) = mapUidL (g ∘ h) ts
  | [] => rfl
  | t :: ts => by simp [mapUidL, mapUid_comp g h t, mapUidL_comp g h ts]
end

/-- forgetting the names of the nodes: results of a history and of fresh processes are EQUAL -/
theorem historyX_forget (fs : Str → Option Str) (cs : List CallX) :
    (runHistoryX fs {} cs).map (ResultX.rename fun _ => 0) = cs.map fun c => ((c.run fs {}).1).rename fun _ => 0 := by
  obtain ⟨ks, hl, h⟩ := historyX_independent fs cs
  rw [h]
  have hr : ∀ (r : ResultX) (k : Nat), (r.rename (· + k)).rename (fun _ => 0) = r.rename fun _ => 0 := by
    intro r k
    cases r with
    | tree r => rfl
    | trees r =>
      cases r with
      | error e => rfl
      | ok ts => simp [ResultX.rename, Except.map, mapUid_comp, Function.comp_def]
  clear h
  induction cs generalizing ks with
  | nil => cases ks <;> rfl
  | cons c cs ih =>
    cases ks with
    | nil => simp at hl
    | cons k ks =>
      simp only [List.zipWith_cons_cons, List.map_cons, hr]
      rw [ih ks (by simpa using hl)]

/-- the node ids of a result, sentence by sentence -/
def uidView : ResultX → Option (List (List Nat))
  | .trees (.ok ts) => some (ts.map fun p => p.2.subtrees.filterMap (·.fields.uid))
  | _ => none

/-- a history: a reader call, a cache-using call, a reader call that fails after two nodes, the first reader call again -/
def exHistX : List CallX :=
  [.read (readExport {} exA) 0, .base (.substitute "t1".toList 1 exTree), .read (readBrackets {} "(A (B".toList) 2,
   .read (readExport {} exA) 0, .read (readExport {} exB) 0]

example : ∃ ks : List Nat, ks.length = exHistX.length ∧
    runHistoryX exFs {} exHistX = List.zipWith (fun c k => ((c.run exFs {}).1).rename (· + k)) exHistX ks :=
  historyX_independent exFs exHistX

/-- evaluated: the second reading of the same file gives the same trees under other node names (0-5 the first time, 8-13
    after the failed reader drew two ids), every id once; in a fresh process the names start at 0 -/
example : (runHistoryX exFs {} exHistX).map uidView =
      [some [[0, 1, 2, 3], [4, 5]], none, none, some [[8, 9, 10, 11], [12, 13]], some [[14, 15]]] ∧
    (exHistX.map fun c => uidView (c.run exFs {}).1) =
      [some [[0, 1, 2, 3], [4, 5]], none, none, some [[0, 1, 2, 3], [4, 5]], some [[0, 1]]] ∧
    (match ((runHistoryX exFs {} exHistX)[3]? : Option ResultX) with
      | some (ResultX.trees (.ok ts)) => ts.all fun p => TT.Spec.uidsOK p.2
      | _ => false) = true := by decide +kernel

end TT.Props.C18Local2
