/-
  C08Net - counts are conserved for EVERY symbol (worklist C08 of the clause audit, wave 12).
  T8.1 binarization (all reorderings, deterministic and Markov labels) keeps the balance "LHS mass - count-weighted RHS
       occurrences" of every symbol, binarization symbols included; fresh symbols are balanced;
  T8.2 the treebank grammar is balanced against lexicon and roots (= the harness predicate `massBalanced`), no hypothesis;
  T8.3 binarized treebank grammars against the trees: node counts per original label, and the balance of every symbol;
  T8.4 the count field of a written PMCFG file (= the harness check `P.C08.file`).
  Helpers: `TT/Lemmas/More12a.lean`.
-/
import TT.Lemmas.More12a
import TT.Props.C06Count
import TT.Props.C08More
import TT.Props.C09
namespace TT.Props.C08Net
open TT TT.Tree TT.Spec TT.Lemmas.Extract TT.Lemmas.More8 TT.Lemmas.GramBin TT.Lemmas.More12a

/-! ### T8.1: binarization keeps the balance of EVERY symbol, binarization symbols included -/

/-- all reorderings, deterministic and Markov labels (any v, h, nofanout) -/
theorem binarizeGrammar_net (r : Reordering) (mo : Option MarkovOpts) (g : Grammar) (hg : ∀ e ∈ g, e.1 ≠ [])
    (x : Str) : net (binarizeGrammar r mo g) x = net g x :=
  TT.Lemmas.More12a.binarizeGrammar_net r mo g hg x

/-- the same in natural numbers -/
theorem binarizeGrammar_balance (r : Reordering) (mo : Option MarkovOpts) (g : Grammar) (hg : ∀ e ∈ g, e.1 ≠ [])
    (x : Str) :
    lhsMass (binarizeGrammar r mo g) x + rhsMass g x = rhsMass (binarizeGrammar r mo g) x + lhsMass g x := by
  have := binarizeGrammar_net r mo g hg x
  unfold net at this
  omega

/-- a symbol that does not occur in the original grammar (in particular a fresh binarization symbol) is rewritten in the
    binarized grammar exactly as often as it is used on right-hand sides (count-weighted) -/
theorem fresh_symbol_balanced (r : Reordering) (mo : Option MarkovOpts) (g : Grammar) (hg : ∀ e ∈ g, e.1 ≠ [])
    (x : Str) (hx : x ∉ symbols g) : lhsMass (binarizeGrammar r mo g) x = rhsMass (binarizeGrammar r mo g) x := by
  have := binarizeGrammar_net r mo g hg x
  rw [net_eq_zero_of_not_mem_symbols g x hx] at this
  unfold net at this
  omega

/-- the grammar of `C08`: one rule of rank 4 seen 3 + 2 times in two vertical contexts -/
example : ∀ e ∈ C08.exG, e.1 ≠ [] := by simp [C08.exG, Grammar.add, AList.upsert, C08.exFunc]
/-- `A` occurs twice on the right: balance −10 before and after, in all modes -/
example : net C08.exG "A".toList = -10 ∧ net (binarizeGrammar .optimal none C08.exG) "A".toList = -10 ∧
    net (binarizeGrammar .leftright (some ⟨1, 2, false⟩) C08.exG) "A".toList = -10 ∧
    net (binarizeGrammar .none (some ⟨2, 1, true⟩) C08.exG) "A".toList = -10 := by decide
/-- the first deterministic binarization symbol: not a symbol of `exG`, rewritten 5 times, used 5 times -/
example : uniqueLabel 1 ∉ symbols C08.exG ∧ lhsMass (binarizeGrammar .none none C08.exG) (uniqueLabel 1) = 5 ∧
    rhsMass (binarizeGrammar .none none C08.exG) (uniqueLabel 1) = 5 := by decide

/-! ### T8.2: the treebank grammar is balanced -/

/-- for EVERY symbol `x` and every list of trees, no hypothesis: rewritings of `x` + tokens tagged `x` =
    count-weighted occurrences of `x` on right-hand sides + trees whose root is labelled `x` -/
theorem extractAll_balance (ts : List Tree) (x : Str) :
    lhsMass (extractAll ts).1 x + tagMass (extractAll ts).2 x =
      rhsMass (extractAll ts).1 x + (ts.map (·.fields.label)).count x := by
  have h1 := extractAll_measure (fun st => lhsMass st.1 x + tagMass st.2 x) (fun e => lhsHit x e + tagHit x e)
    (fun st e => by
      cases e with
      | rule f l v => simp only [applyEvent, lhsMass_add, lhsHit, tagHit]; omega
      | lex w t => simp only [applyEvent, tagMass_add, lhsHit, tagHit]; omega) ts
  have h2 := extractAll_measure (fun st => rhsMass st.1 x) (rhsHit x)
    (fun st e => by
      cases e with
      | rule f l v => simp only [applyEvent, rhsMass_add, rhsHit]; rw [Nat.one_mul]
      | lex w t => simp [applyEvent, rhsHit]) ts
  have h0 : lhsMass ([] : Grammar) x = 0 ∧ rhsMass ([] : Grammar) x = 0 := by simp [lhsMass, rhsMass, Grammar.rules]
  simp only [h0.1, h0.2, tagMass_nil, Nat.zero_add] at h1 h2
  rw [h1, h2]
  clear h1 h2
  induction ts with
  | nil => rfl
  | cons t ts ih =>
    simp only [List.map_cons, List.sum_cons, List.count_cons, ih, events_balance x t [], beq_iff_eq]
    omega

/-- hence the predicate `massBalanced` of the harness holds of every extracted grammar and lexicon -/
theorem extractAll_massBalanced (ts : List Tree) :
    massBalanced (extractAll ts).1 (extractAll ts).2 (ts.map (·.fields.label)) = true := by
  unfold massBalanced
  simp only [List.all_eq_true, beq_iff_eq]
  intro x _
  exact extractAll_balance ts x

/-- `S` in `exTs`: rewritten 4 times, never a tag, once on a right-hand side, root of three trees;
    `N`: never rewritten, tag of 6 tokens, 6 times on a right-hand side; `TOP` roots a tree and tags a bare token -/
example : lhsMass (extractAll C08More.exTs).1 "S".toList = 4 ∧ tagMass (extractAll C08More.exTs).2 "S".toList = 0 ∧
    rhsMass (extractAll C08More.exTs).1 "S".toList = 1 ∧ (C08More.exTs.map (·.fields.label)).count "S".toList = 3 := by
  decide
example : lhsMass (extractAll C08More.exTs).1 "N".toList = 0 ∧ tagMass (extractAll C08More.exTs).2 "N".toList = 6 ∧
    rhsMass (extractAll C08More.exTs).1 "N".toList = 6 ∧ (C08More.exTs.map (·.fields.label)).count "N".toList = 0 := by
  decide
example : lhsMass (extractAll C08More.exTs).1 "TOP".toList = 1 ∧ tagMass (extractAll C08More.exTs).2 "TOP".toList = 1 ∧
    rhsMass (extractAll C08More.exTs).1 "TOP".toList = 0 ∧ (C08More.exTs.map (·.fields.label)).count "TOP".toList = 2 := by
  decide

/-! ### T8.3 and the balance of binarized treebank grammars -/

/-- the functions of an extracted grammar have a left-hand side -/
theorem extractAll_func_ne_nil (ts : List Tree) : ∀ e ∈ (extractAll ts).1, e.1 ≠ [] :=
  TT.Lemmas.More12a.extractAll_func_ne_nil ts

/-- binarized treebank grammar, every mode: the counts of the rules rewriting an original nonterminal sum to the number of
    nodes with that label -/
theorem binarized_nodeMass (ts : List Tree) (h : ∀ t ∈ ts, t.noEmpty = true) (r : Reordering) (mo : Option MarkovOpts)
    (x : Str) (hx : x.head? ≠ some '@') :
    lhsMass (binarizeGrammar r mo (extractAll ts).1) x =
      (ts.map fun t => (t.subtrees.filter fun s => !s.isLeaf && s.fields.label == x).length).sum := by
  rw [TT.Props.C08.binarizeGrammar_lhsMass r mo _ x hx (extractAll_func_ne_nil ts),
    TT.Props.C06Count.extractAll_lhsMass ts h x]

/-- binarized treebank grammar, every mode, EVERY symbol (binarization symbols included), no hypothesis:
    rewriting mass + lexicon mass as tag = count-weighted right-hand-side occurrences + root occurrences -/
theorem binarized_balance (ts : List Tree) (r : Reordering) (mo : Option MarkovOpts) (x : Str) :
    lhsMass (binarizeGrammar r mo (extractAll ts).1) x + tagMass (extractAll ts).2 x =
      rhsMass (binarizeGrammar r mo (extractAll ts).1) x + (ts.map (·.fields.label)).count x := by
  have h1 := binarizeGrammar_balance r mo _ (extractAll_func_ne_nil ts) x
  have h2 := extractAll_balance ts x
  omega

theorem binarized_massBalanced (ts : List Tree) (r : Reordering) (mo : Option MarkovOpts) :
    massBalanced (binarizeGrammar r mo (extractAll ts).1) (extractAll ts).2 (ts.map (·.fields.label)) = true := by
  unfold massBalanced
  simp only [List.all_eq_true, beq_iff_eq]
  intro x _
  exact binarized_balance ts r mo x

/-- `hx` cannot be dropped in `binarized_nodeMass`: a constituent labelled like the first deterministic binarization
    symbol `@1X`, of rank 3: the chain's second rule is headed by `@1X` too -/
def cexAt : Tree :=
  node { label := "@1X".toList }
    [leaf 1 { label := "A".toList, word := some "a".toList }, leaf 2 { label := "B".toList, word := some "b".toList },
     leaf 3 { label := "C".toList, word := some "c".toList }]
example : cexAt.noEmpty = true ∧ lhsMass (binarizeGrammar .none none (extractAll [cexAt]).1) "@1X".toList = 2 ∧
    ([cexAt].map fun t => (t.subtrees.filter fun s => !s.isLeaf && s.fields.label == "@1X".toList).length).sum = 1 := by
  decide
/-- ... while the balance over all symbols (`binarized_balance`) holds there too: rewritten twice, once on a right-hand side,
    once a root -/
example : rhsMass (binarizeGrammar .none none (extractAll [cexAt]).1) "@1X".toList = 1 ∧
    ([cexAt].map (·.fields.label)).count "@1X".toList = 1 := by decide

/-! ### T8.4: the count field of a written PMCFG file -/

/-- the dictionary the harness rebuilds from the decoded rules of a file -/
def rebuild (rs : List (Func × Lin × Nat)) : Grammar :=
  rs.foldl (fun acc (f, lin, c) => acc.add f lin .default c) []

theorem rebuild_masses (rs : List (Func × Lin × Nat)) (x : Str) :
    lhsMass (rebuild rs) x = ((rs.filter fun (f, _, _) => f.head? == some x).map fun (_, _, c) => c).sum ∧
    rhsMass (rebuild rs) x = (rs.map fun (f, _, c) => c * (f.drop 1).count x).sum := by
  have h0 : lhsMass ([] : Grammar) x = 0 ∧ rhsMass ([] : Grammar) x = 0 := by simp [lhsMass, rhsMass, Grammar.rules]
  constructor
  · unfold rebuild
    rw [foldl_sum (fun acc : Grammar => lhsMass acc x) (fun e : Func × Lin × Nat => if e.1.head? = some x then e.2.2 else 0)
      _ rs (fun acc e _ => by obtain ⟨f, l, c⟩ := e; exact lhsMass_add _ _ _ _ _ _), h0.1, Nat.zero_add, sum_filter_map]
    congr 1
    apply List.map_congr_left
    rintro ⟨f, l, c⟩ _
    simp
  · unfold rebuild
    rw [foldl_sum (fun acc : Grammar => rhsMass acc x) (fun e : Func × Lin × Nat => e.2.2 * (e.1.drop 1).count x)
      _ rs (fun acc e _ => by obtain ⟨f, l, c⟩ := e; exact rhsMass_add _ _ _ _ _ _), h0.2, Nat.zero_add]

/-- what the file says: the count fields of the rules rewriting `x` sum to the LHS mass of `x` in memory, and the
    count-weighted right-hand-side occurrences to its RHS mass (labels non-empty and free of white space, variables ≥ 0) -/
theorem pmcfg_file_mass (g : Grammar) (lex : Lexicon) (x : Str)
    (hl : ∀ e ∈ g, e.1 ≠ [] ∧ ∀ s ∈ e.1, s ≠ [] ∧ ∀ c ∈ s, pyIsSpace c = false)
    (hlin : ∀ e ∈ g, ∀ le ∈ e.2, ∀ arg ∈ le.1, ∀ v ∈ arg, 0 ≤ v.1) :
    ∀ rs, decPmcfg (writePmcfg false g lex).1 = some rs →
      ((rs.filter (·.1.head? == some x)).map (·.2.2)).sum = lhsMass g x ∧
      (rs.map fun (f, _, c) => c * (f.drop 1).count x).sum = rhsMass g x := by
  intro rs hrs
  rw [TT.Props.C09.decPmcfg_write' g lex hl hlin] at hrs
  cases hrs
  exact ⟨rfl, rfl⟩

/-- hence the dictionary rebuilt from the file has the masses of the grammar in memory, symbol by symbol -/
theorem pmcfg_file_rebuild (g : Grammar) (lex : Lexicon)
    (hl : ∀ e ∈ g, e.1 ≠ [] ∧ ∀ s ∈ e.1, s ≠ [] ∧ ∀ c ∈ s, pyIsSpace c = false)
    (hlin : ∀ e ∈ g, ∀ le ∈ e.2, ∀ arg ∈ le.1, ∀ v ∈ arg, 0 ≤ v.1) :
    ∃ rs, decPmcfg (writePmcfg false g lex).1 = some rs ∧
      ∀ x, lhsMass (rebuild rs) x = lhsMass g x ∧ rhsMass (rebuild rs) x = rhsMass g x := by
  refine ⟨g.rules, TT.Props.C09.decPmcfg_write' g lex hl hlin, fun x => ?_⟩
  obtain ⟨h1, h2⟩ := rebuild_masses g.rules x
  exact ⟨h1, h2⟩

theorem nodeMassOK_congr (ts : List Tree) (g g' : Grammar) (h : ∀ x, lhsMass g' x = lhsMass g x) :
    nodeMassOK ts g' = nodeMassOK ts g := by
  unfold nodeMassOK
  simp only [h]

/-- the check `P.C08.file` of the harness, for the file of a treebank grammar binarized in any mode (`mo`, `r`) or not at
    all (`binarizeGrammar .none none` changes nothing on rules of rank ≤ 2; for the raw grammar see `pmcfg_file_raw`):
    under the format hypotheses on the grammar that is written, and no tree label starting with `@` -/
theorem pmcfg_file_binarized (ts : List Tree) (r : Reordering) (mo : Option MarkovOpts) (lex : Lexicon)
    (hat : ∀ t ∈ ts, ∀ s ∈ t.subtrees, s.fields.label.head? ≠ some '@')
    (hl : ∀ e ∈ binarizeGrammar r mo (extractAll ts).1, e.1 ≠ [] ∧ ∀ s ∈ e.1, s ≠ [] ∧ ∀ c ∈ s, pyIsSpace c = false)
    (hlin : ∀ e ∈ binarizeGrammar r mo (extractAll ts).1, ∀ le ∈ e.2, ∀ arg ∈ le.1, ∀ v ∈ arg, 0 ≤ v.1) :
    ∃ rs, decPmcfg (writePmcfg false (binarizeGrammar r mo (extractAll ts).1) lex).1 = some rs ∧
      nodeMassOK ts (rebuild rs) = true ∧
      massBalanced (rebuild rs) (extractAll ts).2 (ts.map (·.fields.label)) = true := by
  obtain ⟨rs, hrs, hm⟩ := pmcfg_file_rebuild _ lex hl hlin
  refine ⟨rs, hrs, ?_, ?_⟩
  · rw [nodeMassOK_congr ts _ _ (fun x => (hm x).1)]
    unfold nodeMassOK
    simp only [List.all_eq_true, beq_iff_eq]
    intro x hx
    rw [List.mem_eraseDups] at hx
    obtain ⟨t, ht, hxt⟩ := List.mem_flatMap.1 hx
    obtain ⟨s, hs, rfl⟩ := List.mem_map.1 hxt
    rw [TT.Props.C08.binarizeGrammar_lhsMass r mo _ _ (hat t ht s (List.mem_filter.1 hs).1) (extractAll_func_ne_nil ts)]
    have := TT.Props.C06Count.nodeMassOK_extractAll ts
    unfold nodeMassOK at this
    simp only [List.all_eq_true, beq_iff_eq] at this
    exact this _ (List.mem_eraseDups.2 hx)
  · unfold massBalanced
    simp only [List.all_eq_true, beq_iff_eq]
    intro x _
    rw [(hm x).1, (hm x).2]
    exact binarized_balance ts r mo x

theorem pmcfg_file_raw (ts : List Tree) (lex : Lexicon)
    (hl : ∀ e ∈ (extractAll ts).1, e.1 ≠ [] ∧ ∀ s ∈ e.1, s ≠ [] ∧ ∀ c ∈ s, pyIsSpace c = false)
    (hlin : ∀ e ∈ (extractAll ts).1, ∀ le ∈ e.2, ∀ arg ∈ le.1, ∀ v ∈ arg, 0 ≤ v.1) :
    ∃ rs, decPmcfg (writePmcfg false (extractAll ts).1 lex).1 = some rs ∧
      nodeMassOK ts (rebuild rs) = true ∧
      massBalanced (rebuild rs) (extractAll ts).2 (ts.map (·.fields.label)) = true := by
  obtain ⟨rs, hrs, hm⟩ := pmcfg_file_rebuild _ lex hl hlin
  refine ⟨rs, hrs, ?_, ?_⟩
  · rw [nodeMassOK_congr ts _ _ (fun x => (hm x).1)]
    exact TT.Props.C06Count.nodeMassOK_extractAll ts
  · unfold massBalanced
    simp only [List.all_eq_true, beq_iff_eq]
    intro x _
    rw [(hm x).1, (hm x).2]
    exact extractAll_balance ts x

/-- the hypotheses are met by the grammar of the discontinuous example tree, binarized with optimal reordering -/
example : (∀ s ∈ C06.exT.subtrees, s.fields.label.head? ≠ some '@') ∧
    (∀ e ∈ binarizeGrammar .optimal none (extractAll [C06.exT]).1,
      e.1 ≠ [] ∧ ∀ s ∈ e.1, s ≠ [] ∧ ∀ c ∈ s, pyIsSpace c = false) ∧
    (∀ e ∈ binarizeGrammar .optimal none (extractAll [C06.exT]).1, ∀ le ∈ e.2, ∀ arg ∈ le.1, ∀ v ∈ arg, 0 ≤ v.1) := by
  decide
example : ((decPmcfg (writePmcfg false (binarizeGrammar .optimal none (extractAll [C06.exT]).1) []).1).map fun rs =>
    ((rs.filter (·.1.head? == some "S".toList)).map (·.2.2)).sum) = some 1 := by decide

end TT.Props.C08Net
