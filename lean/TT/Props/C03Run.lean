/-
  C03 on the whole command (`TT/Run.lean`): converting a file of the tool's own writer back into the same format gives the same
  text (export -> export, brackets -> brackets), and the export writer looks only at what the export format carries.

  * `writeExport_carry` is FALSE as given (formal refutation `writeExport_carry_false`, two independent reasons, see the note at
    the end); corrected: `writeExport_carry'` (hypotheses: no label decoration in `o`; no childless constituent below the root
    carries a word).
  * `export_export_id`: proved with the hypotheses of `readExport_write'` (which is about the options `{}`) and, for the `o` of
    the statement, `PlainOpts o` and `o.exportFour = false`; for other `o` the statement is false (`export_export_id_false`).
  * `brackets_brackets_id`: proved exactly as given (hypotheses of `own_roundtrip_brackets`).
  Helpers: `TT/Lemmas/Run.lean`.
-/
import TT.Lemmas.Run
import TT.Props.C02Export
import TT.Props.C03Own
namespace TT.Props.C03Run
open TT TT.Tree TT.Spec
open TT.Lemmas.Run

/-- equality of writer results is decidable (used by the concrete instances below only) -/
local instance instDecEqExcept {ε α} [DecidableEq ε] [DecidableEq α] : DecidableEq (Except ε α)
  | .ok a, .ok b => decidable_of_iff (a = b) (by simp)
  | .error a, .error b => decidable_of_iff (a = b) (by simp)
  | .ok _, .error _ => isFalse (by simp)
  | .error _, .ok _ => isFalse (by simp)

/-- options that do not decorate labels: no grammatical functions, no head marks, no split marks or numbers -/
abbrev PlainOpts (o : OutOpts) : Prop := TT.Lemmas.Run.PlainOpts o

theorem plainOpts_iff (o : OutOpts) :
    PlainOpts o ↔ o.gf = false ∧ o.markHeads = false ∧ o.splitMarking = false ∧ o.splitNumbering = false := Iff.rfl

instance (o : OutOpts) : Decidable (PlainOpts o) := by unfold PlainOpts TT.Lemmas.Run.PlainOpts; infer_instance

/-! ### a writer looks only at what its format carries -/

/-- `(S (NP/SB a) b)`: one constituent with a grammatical function -/
def exGf : Tree := node { label := "S".toList }
  [node { label := "NP".toList, edge := some "SB".toList } [leaf 1 { label := "A".toList, word := some "a".toList }],
   leaf 2 { label := "B".toList, word := some "b".toList }]

/-- with `gf` the label is decorated when the content is computed (`NP-SB`) and once more when it is written (`NP-SB-SB`) -/
theorem exGf_carry : writeExport { gf := true } 7 exGf =
      .ok ["#BOS 7".toList, "a\t\t\tA\t--\t\t--\t500".toList, "b\t\t\tB\t--\t\t--\t0".toList, "#500\t\t\tNP-SB\t--\t\tSB\t0".toList, "#EOS 7".toList] ∧
    writeExport { gf := true } 7 (carryExportRoot { gf := true } exGf) =
      .ok ["#BOS 7".toList, "a\t\t\tA\t--\t\t--\t500".toList, "b\t\t\tB\t--\t\t--\t0".toList, "#500\t\t\tNP-SB-SB\t--\t\tSB\t0".toList, "#EOS 7".toList] := by
  decide +kernel

/-- `writeExport_carry` as stated in the brief is FALSE -/
theorem writeExport_carry_false :
    ¬ (∀ (o : OutOpts) (sid : Nat) (t : Tree), writeExport o sid (carryExportRoot o t) = writeExport o sid t) := by
  intro H
  have := H { gf := true } 7 exGf
  rw [exGf_carry.1, exGf_carry.2] at this
  revert this
  decide +kernel

/-- a token with a head mark and a split flag: the carried content has neither, so every other decoration option makes the
    writer fail on the carried tree while it succeeds on the tree -/
def exHead : Tree := node { label := "S".toList } [leaf 1 { label := "A".toList, word := some "a".toList, head := some true, split := some false }]

example : writeExport { markHeads := true } 7 exHead = .ok ["#BOS 7".toList, "a\t\t\tA'\t--\t\t--\t0".toList, "#EOS 7".toList] ∧
    writeExport { markHeads := true } 7 (carryExportRoot { markHeads := true } exHead) = .error .keyError ∧
    writeExport { splitMarking := true } 7 exHead = .ok ["#BOS 7".toList, "a\t\t\tA\t--\t\t--\t0".toList, "#EOS 7".toList] ∧
    writeExport { splitMarking := true } 7 (carryExportRoot { splitMarking := true } exHead) = .error .keyError ∧
    writeExport { splitNumbering := true } 7 exHead = .ok ["#BOS 7".toList, "a\t\t\tA\t--\t\t--\t0".toList, "#EOS 7".toList] ∧
    writeExport { splitNumbering := true } 7 (carryExportRoot { splitNumbering := true } exHead) = .error .keyError := by
  decide +kernel

/-- the second reason: a childless constituent is written like a token, with its word; the content drops the word of a constituent -/
def exEmpty : Tree := node { label := "S".toList }
  [node { label := "X".toList, word := some "w".toList } [], leaf 1 { label := "A".toList, word := some "a".toList }]

example : writeExport {} 7 exEmpty = .ok ["#BOS 7".toList, "w\t\t\tX\t--\t\t--\t0".toList, "a\t\t\tA\t--\t\t--\t0".toList, "#EOS 7".toList] ∧
    writeExport {} 7 (carryExportRoot {} exEmpty) =
      .ok ["#BOS 7".toList, "\t\t\tX\t--\t\t--\t0".toList, "a\t\t\tA\t--\t\t--\t0".toList, "#EOS 7".toList] := by decide +kernel

/-- CORRECTED `writeExport_carry`: a writer looks only at what its format carries — without label decoration (`ho`), and when no
    childless constituent below the root carries a (non-empty) word (`hw`).  Nothing else is assumed of the tree (it need not be
    well formed; token numbers may repeat), and `exportFour`, `sid` are arbitrary. -/
theorem writeExport_carry' (o : OutOpts) (sid : Nat) (t : Tree) (ho : PlainOpts o)
    (hw : ∀ k ∈ t.kids, ∀ f, node f [] ∈ subtrees k → f.word.getD [] = []) :
    writeExport o sid (carryExportRoot o t) = writeExport o sid t :=
  writeExport_carry_plain o ho sid t hw

/-- in particular for trees without childless constituents -/
theorem writeExport_carry_noEmpty (o : OutOpts) (sid : Nat) (t : Tree) (ho : PlainOpts o) (hne : t.noEmpty = true) :
    writeExport o sid (carryExportRoot o t) = writeExport o sid t := by
  apply writeExport_carry' o sid t ho
  intro k hk f hf
  cases t with
  | leaf n f0 => simp [kids] at hk
  | node f0 ks =>
    have h1 := TT.Lemmas.WF.noEmpty_of_mem_kids f0 ks k hne hk
    have h2 := noEmpty_of_mem_subtrees k h1 _ hf
    simp [noEmpty] at h2

/-- a tree stored out of order with optional fields of every kind, written in the four-column and the five-column layout -/
def exFull : Tree := node { label := "S".toList, edge := some "X".toList }
  [leaf 2 { label := "B".toList, word := some "b".toList, edge := some "HD".toList, head := some true, lemma := some "lem".toList },
   node { label := "VP".toList, edge := some "OC".toList, head := some false, morph := some "m".toList, word := some "ignored".toList }
     [leaf 1 { label := "A".toList, word := some "a".toList, edge := some "-x".toList }, leaf 3 { label := "C".toList, word := some "c".toList }]]

example : writeExport { exportFour := true } 3 (carryExportRoot { exportFour := true } exFull) = writeExport { exportFour := true } 3 exFull :=
  writeExport_carry_noEmpty _ 3 exFull (by decide) (by decide +kernel)

example : writeExport { exportFour := true } 3 exFull =
    .ok ["#BOS 3".toList, "a\t\t\t--\t\t\tA\t--\t\t-x\t500".toList, "b\t\t\tlem\t\t\tB\t--\t\tHD\t0".toList,
      "c\t\t\t--\t\t\tC\t--\t\t--\t500".toList, "#500\t\t\t--\t\t\tVP\tm\t\tOC\t0".toList, "#EOS 3".toList] := by decide +kernel

/-- the hypothesis `hw` is weaker than `noEmpty`: a childless constituent without a word is harmless -/
example : writeExport {} 3 (carryExportRoot {} (node { label := "S".toList } [node { label := "X".toList } [], leaf 1 { label := "A".toList, word := some "a".toList }])) =
    writeExport {} 3 (node { label := "S".toList } [node { label := "X".toList } [], leaf 1 { label := "A".toList, word := some "a".toList }]) :=
  writeExport_carry' {} 3 _ (by decide) (by
    intro k hk f hf
    simp only [kids, List.mem_cons, List.not_mem_nil, or_false] at hk
    rcases hk with rfl | rfl
    · simp only [subtrees, subtreesL, List.mem_singleton] at hf
      cases hf; rfl
    · simp [subtrees] at hf)

/-! ### export -> export -/

/-- the tool's own reader accepts what its own writer produced, and converting export -> export gives the same text back.
    Hypotheses: those of `readExport_write'` (C02Export) — `hwf`, `hok`, `hN`, `hE`, which are about the options `{}` — and for the
    options `o` of the command: no label decoration (`ho`) and the four-column layout (`h4`), so that `o` writes what `{}` writes. -/
theorem export_export_id (o : OutOpts) (sid : Nat) (t : Tree) (ls : List Str) (hw : writeExport o sid t = .ok ls)
    (ho : PlainOpts o) (h4 : o.exportFour = false)
    (hwf : WF t = true) (hok : ExportOK {} t = true) (hN : t.leafNums.length < 500)
    (hE : ∀ s ∈ t.subtrees, s.isLeaf = true → "#EOS".toList.isPrefixOf (s.fields.word.getD []) = false) :
    runFrom [] .export o none (readExport {} ((ls.map (· ++ ['\n'])).flatten)) = .ok ((ls.map (· ++ ['\n'])).flatten) := by
  rw [writeExport_plain_eq o ho h4] at hw
  obtain ⟨r, hr, hwr⟩ := writeExport_readback sid t ls hw hwf hok hN hE
  rw [hr, runFrom_ok, transformAll_nil_steps]
  show writeAll .export o none [(sid, r)] = _
  rw [writeAll_plain .export o none _ (by decide)]
  unfold bodyText
  rw [List.mapM_cons, List.mapM_nil]
  simp only [writeOne, writeExport_plain_eq o ho h4, hwr]
  simp [bind, Except.bind, pure, Except.pure, Except.map]

/-- the statement of the brief for the options `{}` -/
theorem export_export_id_default (sid : Nat) (t : Tree) (ls : List Str) (hw : writeExport {} sid t = .ok ls)
    (hwf : WF t = true) (hok : ExportOK {} t = true) (hN : t.leafNums.length < 500)
    (hE : ∀ s ∈ t.subtrees, s.isLeaf = true → "#EOS".toList.isPrefixOf (s.fields.word.getD []) = false) :
    runFrom [] .export {} none (readExport {} ((ls.map (· ++ ['\n'])).flatten)) = .ok ((ls.map (· ++ ['\n'])).flatten) :=
  export_export_id {} sid t ls hw ⟨rfl, rfl, rfl, rfl⟩ rfl hwf hok hN hE

/-- the discontinuous tree of C02Export, stored out of order -/
example : runFrom [] .export {} none (readExport {} ((TT.Props.C02Export.exLines.map (· ++ ['\n'])).flatten)) =
    .ok ((TT.Props.C02Export.exLines.map (· ++ ['\n'])).flatten) :=
  export_export_id_default 7 TT.Props.C02Export.exT _ TT.Props.C02Export.exT_write TT.Props.C02Export.exT_WF
    TT.Props.C02Export.exT_ok (by decide +kernel) (by decide +kernel)

/-- the tree read back is written as the same lines (the step behind `export_export_id`) -/
theorem export_readback (sid : Nat) (t : Tree) (ls : List Str) (hw : writeExport {} sid t = .ok ls)
    (hwf : WF t = true) (hok : ExportOK {} t = true) (hN : t.leafNums.length < 500)
    (hE : ∀ s ∈ t.subtrees, s.isLeaf = true → "#EOS".toList.isPrefixOf (s.fields.word.getD []) = false) :
    ∃ r, readExport {} ((ls.map (· ++ ['\n'])).flatten) = .ok [(sid, r)] ∧ writeExport {} sid r = .ok ls :=
  writeExport_readback sid t ls hw hwf hok hN hE

/-- with `gf` the command decorates the labels once more (`NP-SB-SB`): for arbitrary `o` the statement is false -/
theorem exGf_run : runFrom [] .export { gf := true } none (readExport {}
      ((["#BOS 7".toList, "a\t\t\tA\t--\t\t--\t500".toList, "b\t\t\tB\t--\t\t--\t0".toList, "#500\t\t\tNP-SB\t--\t\tSB\t0".toList, "#EOS 7".toList].map
        (· ++ ['\n'])).flatten)) =
    .ok "#BOS 7\na\t\t\tA\t--\t\t--\t500\nb\t\t\tB\t--\t\t--\t0\n#500\t\t\tNP-SB-SB\t--\t\tSB\t0\n#EOS 7\n".toList := by decide +kernel

theorem export_export_id_false :
    ¬ (∀ (o : OutOpts) (sid : Nat) (t : Tree) (ls : List Str), writeExport o sid t = .ok ls →
      WF t = true → ExportOK o t = true → ExportOK {} t = true → t.leafNums.length < 500 →
      (∀ s ∈ t.subtrees, s.isLeaf = true → "#EOS".toList.isPrefixOf (s.fields.word.getD []) = false) →
      runFrom [] .export o none (readExport {} ((ls.map (· ++ ['\n'])).flatten)) = .ok ((ls.map (· ++ ['\n'])).flatten)) := by
  intro H
  have := H { gf := true } 7 exGf _ exGf_carry.1 (by decide +kernel) (by decide +kernel) (by decide +kernel) (by decide +kernel)
    (by decide +kernel)
  rw [exGf_run] at this
  revert this
  decide +kernel

/-! ### brackets -> brackets -/

/-- brackets -> brackets: the hypotheses are those of `own_roundtrip_brackets` (C03Own) -/
theorem brackets_brackets_id (t : Tree) (s : Str) (hwf : WF t = true) (hc : gapDegree t = 0) (hok : BracketsOK t = true)
    (hp : ∀ x ∈ t.subtrees, replaceParens x.fields.label = x.fields.label ∧ (x.fields.word.map replaceParens) = x.fields.word)
    (h : bracketsSub {} false t = .ok s) :
    runFrom [] .brackets {} none (readBrackets {} (s ++ ['\n'])) = .ok (s ++ ['\n']) := by
  obtain ⟨r, hr, hsame⟩ := TT.Props.C03Own.own_roundtrip_brackets t s hwf hc hok hp h
  have hwr := writeBrackets_readback t r s (TT.Lemmas.WF.WF_noEmpty t hwf) hc h hsame
  rw [hr, runFrom_ok, transformAll_nil_steps]
  show writeAll .brackets {} none [(1, r)] = _
  rw [writeAll_plain .brackets {} none _ (by decide)]
  unfold bodyText
  rw [List.mapM_cons, List.mapM_nil]
  simp only [writeOne, hwr]
  simp [bind, Except.bind, pure, Except.pure, Except.map]

/-- the tree of C03Own stored out of order -/
example : runFrom [] .brackets {} none (readBrackets {} ("(S(NP(A a)(B b))(C c))".toList ++ ['\n'])) =
    .ok ("(S(NP(A a)(B b))(C c))".toList ++ ['\n']) :=
  brackets_brackets_id TT.Props.C03Own.exOwn _ (by decide +kernel) (by decide +kernel) (by decide +kernel) (by decide +kernel)
    (by decide +kernel)

/-- the tree read back from a written bracket line is written as the same line again (the step behind `brackets_brackets_id`);
    `hp`, `hok` are needed for reading only -/
theorem brackets_readback (t r : Tree) (s : Str) (hne : t.noEmpty = true) (hc : gapDegree t = 0)
    (h : bracketsSub {} false t = .ok s) (hsame : sameTree r (asReadBrackets t) = true) :
    writeBrackets {} r = .ok (some s) :=
  writeBrackets_readback t r s hne hc h hsame

/-
  NOTE — status of the statements of the brief.

  * `writeExport_carry (o sid t) : writeExport o sid (carryExportRoot o t) = writeExport o sid t` is FALSE, for two independent
    reasons (each checked with `#eval` first, then stated above with `decide +kernel`):
      1. label decoration is applied twice: `carryExport` stores the PRINTED label, and the writer decorates what it is given.
         counterexample `exGf` = `(S (NP/SB a) b)` with `o = { gf := true }`: the tree is written with `NP-SB`, its content with
         `NP-SB-SB` (`exGf_carry`; formal refutation `writeExport_carry_false`).  With `markHeads`, `splitMarking`, `splitNumbering`
         the content has lost the `head`/`split` keys and the writer fails with `KeyError` where it succeeds on the tree (`exHead`).
      2. a childless constituent is written like a token, with the word of its `word` key; `carryExport` drops the word of every
         constituent.  counterexample `exEmpty` = `(S (X[word=w]) (A a))`, `o = {}`: word column `w` against the empty string.
    corrected: `writeExport_carry'` = the given conclusion under
         `ho : PlainOpts o`   (`o.gf = o.markHeads = o.splitMarking = o.splitNumbering = false`) and
         `hw : ∀ k ∈ t.kids, ∀ f, node f [] ∈ subtrees k → f.word.getD [] = []`.
    Nothing else is needed: not `WF`, not distinct token numbers, not `exportFour = false` (`#eval` experiments with repeated token
    numbers, a token as root, a childless root, both layouts agree; the proof `writeExport_shapeMap` makes no such assumption).
    `writeExport_carry_noEmpty` is the corollary for `t.noEmpty = true`.

  * `export_export_id`: the hypotheses left open in the brief are `hwf hok hN hE` of `readExport_write'`, verbatim (they speak about the
    options `{}`); since the conclusion writes with `o`, two hypotheses on `o` are added: `ho : PlainOpts o`, `h4 : o.exportFour = false`
    (then `writeExport o = writeExport {}`, `writeExport_plain_eq`).  `export_export_id_default` is the instance `o = {}`.
    Without `ho` the statement is false: `export_export_id_false` (`o = { gf := true }`, `exGf`: the text has `NP-SB`, the reader without
    `gfSplit` takes `NP-SB` for the label, the command writes `NP-SB-SB`).  For `o.exportFour = true` `#eval` shows the identity on
    examples (the reader detects the five-column layout) but `readExport_write'` is proved for the options `{}` only, so this case is
    NOT proved here.
    Route: the reader's tree `r` has the normal form (children sorted, constituent words erased) of `carryExportRoot {} t`
    (`readExport_write_nf`); the writer is invariant under both normalisations and under `carryExport` on well-formed trees
    (`writeExport_of_nf_eq`, `writeExport_carry_WF`, via the path-free description `writeExport_eq_assemble` of the writer).

  * `brackets_brackets_id`: proved exactly as given, hypotheses = those of `own_roundtrip_brackets`.

  Nothing is left unproved apart from the `exportFour = true` case mentioned above (which the brief does not ask for).
-/

end TT.Props.C03Run
