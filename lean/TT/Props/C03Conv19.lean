/-
  C03Conv19 — wave 19, C03 rows 1, 2, 3.

  (1) totality WITH transformation steps (row 1; all earlier C03 theorems have `steps = []`)
  * `runFrom_steps_eq`          with a `Spec.Respects` sequence on well-formed sentences the command is the command without steps
                                on the transformed sentences (same ids, none dropped, each `Spec.applySteps` of its source)
  * `runFrom_total_steps`       ... and never fails into export / TIGER-XML / discobrackets; into brackets exactly when the
                                RESULT of the sequence is continuous (or `brackets_skipdisco`); terminals unless the two
                                contradictory options are given
  * `runCmd_total_steps`        the same from the words of the command line (`--trans NAMES --params WORDS`)

  (2) two more F ≠ G content pairs (row 2), destination options `{}`
  * `export_to_disco`           export file -> command -> discobracket line -> independent decoder `decDisco` = bracket content of
                                the export content (`fixWords T (carryBrackets {} true T)`, `T = carryExportRoot {} t`); no
                                continuity hypothesis; `export_to_disco'` with the word conditions derived from `ExportOK`
  * `export_to_brackets`        the same into plain brackets (`decBrackets`, `carryBrackets`), continuous export content
  helpers `runFrom_one_line`, `readExport_written`; writer invariance under `nf` in `Lemmas/Conv19.lean`

  (3) a second B ≠ A round (row 3)
  * `export_disco_export_id`    export -> discobrackets -> export: NOT the identity (lemma / morphology / edges / sentence number are
                                lost); the text is `writeExport {} 1 (asReadBrackets T)` and `decExport` recovers
                                `carryExportRoot {} (asReadBrackets T)`

  (4) file lift
  * `brackets_brackets_id_file` brackets -> brackets is the identity on a k-sentence file of the tool's own writer

  (6) `export_to_disco_file`    (2) for an export file of k sentences: one line per sentence, in order (`DiscoOf`)

  (5) `tiger_to_disco`, `tiger_to_brackets`   TIGER-XML (element structure `xsentOf`) as the source of the same two conversions;
                                expected content = bracket content of `tigerReadTop x`
-/
import TT.Lemmas.Conv19
import TT.Props.C03Cmd
namespace TT.Props.C03Conv19
open TT TT.Tree TT.Spec
open TT.Lemmas.Run TT.Lemmas.ExportRT TT.Lemmas.WF TT.Props.C02Disco TT.Props.C03Total TT.Props.C03Chain TT.Lemmas.Conv19

local instance instDecEqExcept {ε α} [DecidableEq ε] [DecidableEq α] : DecidableEq (Except ε α)
  | .ok a, .ok b => decidable_of_iff (a = b) (by simp)
  | .error a, .error b => decidable_of_iff (a = b) (by simp)
  | .ok _, .error _ => isFalse (by simp)
  | .error _, .ok _ => isFalse (by simp)

/-! ## 1. totality with steps -/

/-- a prerequisite-respecting sequence on well-formed sentences: the command with the steps is the command without steps on
    the transformed sentences -/
theorem runFrom_steps_eq (steps : List TStep) (hr : Respects steps = true) (ts : List (Nat × Tree))
    (hwf : ∀ p ∈ ts, WF p.2 = true) :
    ∃ ts', ts'.map (·.1) = ts.map (·.1) ∧ (∀ p' ∈ ts', ∃ p ∈ ts, p'.1 = p.1 ∧ applySteps steps p.2 = .ok p'.2) ∧
      (∀ p ∈ ts, ∃ p' ∈ ts', p'.1 = p.1 ∧ applySteps steps p.2 = .ok p'.2) ∧
      ∀ fmt o enc, runFrom (steps.map TStep.step) fmt o enc (.ok ts) = runFrom [] fmt o enc (.ok ts') := by
  obtain ⟨ts', h1, h2, h3, h4⟩ := transformAll_tsteps steps ts
    (fun p hp => TT.Props.C04Total.seq_total steps p.2 (hwf p hp) hr)
  exact ⟨ts', h2, h3, h4, fun fmt o enc => runFrom_of_transformAll _ fmt o enc ts ts' h1⟩

/-- `runFrom_total_steps` (C03 row 1 with `--trans`): the `transform` command with a prerequisite-respecting sequence of
    transformations never fails on well-formed sentences when the destination format can represent the result -/
theorem runFrom_total_steps (steps : List TStep) (hr : Respects steps = true) (o : OutOpts) (ho : NoMarks o) (enc : Option Str)
    (src : Except Err (List (Nat × Tree))) (ts : List (Nat × Tree)) (h : src = .ok ts) (hwf : ∀ p ∈ ts, WF p.2 = true) :
    (∃ s, runFrom (steps.map TStep.step) .export o enc src = .ok s) ∧
    (∃ s, runFrom (steps.map TStep.step) .tigerxml o enc src = .ok s) ∧
    (∃ s, runFrom (steps.map TStep.step) .discobrackets o enc src = .ok s) ∧
    (¬ (o.terminalsPos = true ∧ o.posOnly = true) → ∃ s, runFrom (steps.map TStep.step) .terminals o enc src = .ok s) ∧
    ((∃ s, runFrom (steps.map TStep.step) .brackets o enc src = .ok s) ↔
      (∀ p ∈ ts, ∀ t', applySteps steps p.2 = .ok t' → discontinuous t' = false) ∨ o.skipDisco = true) := by
  subst h
  obtain ⟨ts', h1, h2, hsurj, h3⟩ := runFrom_steps_eq steps hr ts hwf
  simp only [h3]
  refine ⟨runFrom_total_export o ho enc _ ts' rfl, runFrom_total_tigerxml o enc _ ts' rfl,
    runFrom_total_discobrackets o ho enc _ ts' rfl, fun ht => runFrom_total_terminals o ht enc _ ts' rfl, ?_⟩
  rw [runFrom_total_brackets o ho enc _ ts' rfl]
  constructor
  · rintro (hall | hsk)
    · left; intro p hp t' ht'
      obtain ⟨p', hp', _, e⟩ := hsurj p hp
      rw [ht'] at e; cases e
      exact hall p' hp'
    · exact Or.inr hsk
  · rintro (hall | hsk)
    · left; intro p' hp'
      obtain ⟨p, hp, _, e⟩ := h2 p' hp'
      exact hall p hp _ e
    · exact Or.inr hsk

/-- the same from the words of the command line: `treetools transform SRC DEST --trans NAMES --params WORDS --src-opts SW
    --dest-opts DW`, when the words of `--params` say what the steps' own parameters say (`TStep.fits`) -/
theorem runCmd_total_steps (steps : List TStep) (hr : Respects steps = true) (pw dw sw : List Str)
    (hfit : ∀ s ∈ steps, s.fits (optionsDict pw)) (io : InOpts) (hio : inOptsOf (optionsDict sw) = some io)
    (ho : NoMarks (outOptsOf (optionsDict dw))) (enc : Option Str) (src : Source) (ts : List (Nat × Tree))
    (h : readSrc io src = .ok ts) (hwf : ∀ p ∈ ts, WF p.2 = true) :
    (∃ s, runCmd (steps.map TStep.name) pw .export dw enc sw src = some (.ok s)) ∧
    (∃ s, runCmd (steps.map TStep.name) pw .tigerxml dw enc sw src = some (.ok s)) ∧
    (∃ s, runCmd (steps.map TStep.name) pw .discobrackets dw enc sw src = some (.ok s)) ∧
    ((∃ s, runCmd (steps.map TStep.name) pw .brackets dw enc sw src = some (.ok s)) ↔
      (∀ p ∈ ts, ∀ t', applySteps steps p.2 = .ok t' → discontinuous t' = false) ∨
        (outOptsOf (optionsDict dw)).skipDisco = true) := by
  have hs := stepsOf_fits pw steps hfit
  have e : ∀ fmt, runCmd (steps.map TStep.name) pw fmt dw enc sw src =
      some (runFrom (steps.map TStep.step) fmt (outOptsOf (optionsDict dw)) enc (readSrc io src)) :=
    fun fmt => (TT.Props.C03Cmd.runCmd_runSplitCmd_eq _ pw dw sw fmt enc [] src _ io hs hio).1
  obtain ⟨h1, h2, h3, _, h5⟩ := runFrom_total_steps steps hr _ ho enc _ ts h hwf
  simp only [e, Option.some.injEq]
  exact ⟨h1, h2, h3, h5⟩

/-! ### instances -/

open TT.Props.C04Total (sq_T sq_steps sq_stepsBin)

/-- the discontinuous sentence `sq_T` of C04Total through the seven-step pipeline of the harness automaton, and through a
    pipeline with `binarize`: every destination format that can hold the result -/
example : (∃ s, runFrom (sq_steps.map TStep.step) .export { exportFour := true } none (.ok [(7, sq_T)]) = .ok s) ∧
    (∃ s, runFrom (sq_stepsBin.map TStep.step) .discobrackets {} none (.ok [(7, sq_T)]) = .ok s) :=
  ⟨(runFrom_total_steps sq_steps (by decide +kernel) _ (by decide) none _ [(7, sq_T)] rfl (by decide +kernel)).1,
   (runFrom_total_steps sq_stepsBin (by decide +kernel) _ (by decide) none _ [(7, sq_T)] rfl (by decide +kernel)).2.2.1⟩

/-- head marking, `boyd_split`, `raising`: the result is continuous and can be written as plain brackets, although `sq_T`
    itself cannot -/
example : (∃ s, runFrom ([TStep.negra, .boyd, .raising].map TStep.step) .brackets {} none (.ok [(7, sq_T)]) = .ok s) ∧
    ¬ (∃ s, runFrom [] .brackets {} none (.ok [(7, sq_T)]) = .ok s) := by
  constructor
  · refine (runFrom_total_steps [.negra, .boyd, .raising] (by decide +kernel) {} (by decide) none _ [(7, sq_T)] rfl
      (by decide +kernel)).2.2.2.2.2 (Or.inl ?_)
    intro p hp t' ht'
    rw [List.mem_singleton] at hp
    subst hp
    have key : (match applySteps [.negra, .boyd, .raising] sq_T with | .ok r => discontinuous r | .error _ => true) = false := by
      decide +kernel
    rw [ht'] at key
    exact key
  · rw [runFrom_total_brackets {} (by decide) none _ _ rfl]
    decide +kernel

/-- the command line of `sq_steps`: `--trans add_topnode root_attach punctuation_verylow mark_heads_by_rules boyd_split raising
    add_topnode --params mark_heads_preset:ptb` -/
example : ∀ s ∈ sq_steps, s.fits (optionsDict ["mark_heads_preset:ptb".toList]) := by
  intro s hs
  simp only [sq_steps, List.mem_cons, List.not_mem_nil, or_false] at hs
  rcases hs with rfl | rfl | rfl | rfl | rfl | rfl | rfl <;> try trivial
  exact ⟨by decide +kernel, Or.inr ⟨rfl, by decide +kernel⟩⟩

example : sq_steps.map TStep.name = ["add_topnode".toList, "root_attach".toList, "punctuation_verylow".toList,
    "mark_heads_by_rules".toList, "boyd_split".toList, "raising".toList, "add_topnode".toList] := rfl


/-! ## 2. export -> discobrackets, export -> brackets (C03 row 2, content form) -/

/-- one sentence through the command into a line-per-sentence format -/
theorem runFrom_one_line (fmt : DestFmt) (sid : Nat) (r : Tree) (s : Str) (hf : fmt ≠ .tigerxml)
    (h : writeOne fmt {} sid r = .ok (s ++ ['\n'])) :
    runFrom [] fmt {} none (.ok [(sid, r)]) = .ok (s ++ ['\n']) := by
  rw [runFrom_ok, transformAll_nil_steps]
  show writeAll fmt {} none [(sid, r)] = _
  rw [writeAll_plain fmt {} none _ hf]
  unfold bodyText
  rw [List.mapM_cons, List.mapM_nil]
  simp only [h]
  simp [bind, Except.bind, pure, Except.pure]

/-- what the export reader delivers for a written sentence: a well-formed tree with the normal form of the export content -/
theorem readExport_written (sid : Nat) (t : Tree) (ls : List Str) (h : writeExport {} sid t = .ok ls)
    (hwf : WF t = true) (hok : ExportOK {} t = true) (hN : t.leafNums.length < 500)
    (hE : ∀ s ∈ t.subtrees, s.isLeaf = true → "#EOS".toList.isPrefixOf (s.fields.word.getD []) = false) :
    ∃ r, readExport {} (unlines ls) = .ok [(sid, r)] ∧ nf r = nf (carryExportRoot {} t) ∧ WF r = true ∧
      WF (carryExportRoot {} t) = true := by
  obtain ⟨r, hr, hnf⟩ := readExport_write_nf sid t ls h hwf hok hN hE
  obtain ⟨wc, _⟩ := writeExport_carry_WF {} ⟨rfl, rfl, rfl, rfl⟩ sid t hwf
  obtain ⟨wr, _⟩ := writeExport_of_nf_eq {} sid _ r wc hnf
  exact ⟨r, hr, hnf, wr, wc⟩

/-- `export_to_disco`: a sentence written in the export format and converted by the command into discobrackets is a line from
    which the independent discobracket decoder recovers what both formats carry: the bracket content (labels, dominance, token
    numbers) of the export content `carryExportRoot {} t` (root = the virtual root), with the words of the sentence part.
    Hypotheses: those of the export reader round trip, and the format conditions of `decDisco_write` on the export content
    (printed labels free of parentheses, blank, TAB; words free of blank and TAB).  No continuity hypothesis. -/
theorem export_to_disco (sid : Nat) (t : Tree) (ls : List Str)
    (h : writeExport {} sid t = .ok ls) (hwf : WF t = true) (hok : ExportOK {} t = true) (hN : t.leafNums.length < 500)
    (hE : ∀ s ∈ t.subtrees, s.isLeaf = true → "#EOS".toList.isPrefixOf (s.fields.word.getD []) = false)
    (hlab : DiscoLabels {} (carryExportRoot {} t))
    (hw : ∀ x ∈ (carryExportRoot {} t).subtrees, x.isLeaf = true → x.fields.word.isSome = true)
    (hwd : ∀ x ∈ (carryExportRoot {} t).subtrees, x.isLeaf = true → ∀ c ∈ x.fields.word.getD [], c ≠ ' ' ∧ c ≠ '\t') :
    ∃ s, runFrom [] .discobrackets {} none (readExport {} (unlines ls)) = .ok (s ++ ['\n']) ∧
      ∃ d, decDisco s = some d ∧
        sameTree d (fixWords (carryExportRoot {} t) (carryBrackets {} true (carryExportRoot {} t))) = true := by
  obtain ⟨r, hr, hnf, wr, wc⟩ := readExport_written sid t ls h hwf hok hN hE
  obtain ⟨s, hs⟩ := writeDisco_total {} (by decide) (carryExportRoot {} t)
  have hsr : writeDisco {} r = .ok s := by rw [writeDisco_of_nf_eq _ r wc wr hnf, hs]
  obtain ⟨d, hd1, hd2⟩ := decDisco_write {} _ s wc hs hlab hw hwd
  refine ⟨s, ?_, d, hd1, hd2⟩
  rw [hr]
  exact runFrom_one_line .discobrackets sid r s (by decide) (by simp only [writeOne, hsr]; rfl)

/-- `export_to_brackets`: the same into plain brackets, for a sentence whose export content is continuous -/
theorem export_to_brackets (sid : Nat) (t : Tree) (ls : List Str)
    (h : writeExport {} sid t = .ok ls) (hwf : WF t = true) (hok : ExportOK {} t = true) (hN : t.leafNums.length < 500)
    (hE : ∀ s ∈ t.subtrees, s.isLeaf = true → "#EOS".toList.isPrefixOf (s.fields.word.getD []) = false)
    (hc : gapDegree (carryExportRoot {} t) = 0)
    (hlab : BracketLabels {} (carryExportRoot {} t))
    (hw : ∀ x ∈ (carryExportRoot {} t).subtrees, x.isLeaf = true → x.fields.word.isSome = true) :
    ∃ s, runFrom [] .brackets {} none (readExport {} (unlines ls)) = .ok (s ++ ['\n']) ∧
      ∃ d, decBrackets s = some d ∧ sameTree d (carryBrackets {} true (carryExportRoot {} t)) = true := by
  obtain ⟨r, hr, hnf, wr, wc⟩ := readExport_written sid t ls h hwf hok hN hE
  have hs := writeBrackets_plain _ hc
  obtain ⟨_, e⟩ := writeBrackets_of_nf_eq _ r wc wr hnf hc
  obtain ⟨d, hd1, hd2⟩ := decBrackets_writeBrackets {} _ _ wc hs hlab hw
  refine ⟨_, ?_, d, hd1, hd2⟩
  rw [hr]
  exact runFrom_one_line .brackets sid r _ (by decide) (by simp only [writeOne, e, hs]; rfl)

/-! ## 3. export -> discobrackets -> export (C03 row 3, B ≠ A with a lossy middle format) -/

/-- `export_disco_export_id`: a sentence written in the export format, converted by the command into discobrackets, and that
    line converted by the command back into export.  Discobrackets carry labels, words, dominance and token order only, so the
    result is NOT the original text in general: it is the text the export writer writes, as sentence 1, for the export content
    of `t` as the bracket reader delivers it (`asReadBrackets`: lemma, morphology, edges are the defaults) - and the independent
    export decoder recovers exactly that content.  Hypotheses: export round trip; the export content is representable in the
    bracket formats (`BracketsOK`, labels without parentheses to be mapped) and export-sized. -/
theorem export_disco_export_id (sid : Nat) (t : Tree) (ls : List Str)
    (h : writeExport {} sid t = .ok ls) (hwf : WF t = true) (hok : ExportOK {} t = true) (hN : t.leafNums.length < 500)
    (hE : ∀ s ∈ t.subtrees, s.isLeaf = true → "#EOS".toList.isPrefixOf (s.fields.word.getD []) = false)
    (hb : BracketsOK (carryExportRoot {} t) = true)
    (hp : ∀ x ∈ (carryExportRoot {} t).subtrees, replaceParens x.fields.label = x.fields.label)
    (hz : ExportSized (carryExportRoot {} t)) :
    ∃ s, runFrom [] .discobrackets {} none (readExport {} (unlines ls)) = .ok (s ++ ['\n']) ∧
      ∃ ls', runFrom [] .export {} none (readBrackets { disco := true } (s ++ ['\n'])) = .ok (unlines ls') ∧
        writeExport {} 1 (asReadBrackets (carryExportRoot {} t)) = .ok ls' ∧
        ∃ e, decExport false ls' = some e ∧ e.sid = 1 ∧
          sameTree e.tree (carryExportRoot {} (asReadBrackets (carryExportRoot {} t))) = true := by
  obtain ⟨r, hr, hnf, wr, wc⟩ := readExport_written sid t ls h hwf hok hN hE
  obtain ⟨s, hs⟩ := writeDisco_total {} (by decide) (carryExportRoot {} t)
  have hsr : writeDisco {} r = .ok s := by rw [writeDisco_of_nf_eq _ r wc wr hnf, hs]
  obtain ⟨r2, hr2, hsame⟩ := readDisco_write _ s wc hb hp hs
  have hsk := sortKids_eq_of_sameTree _ _ hsame
  have wa : WF (asReadBrackets (carryExportRoot {} t)) = true := ml_goodMap_WF goodMap_asRead _ wc
  have wr2 : WF r2 = true :=
    goodMap_WF_inv goodMap_sortKids r2 (by rw [hsk]; exact ml_goodMap_WF goodMap_sortKids _ wa)
  have hwe : writeExport {} 1 r2 = writeExport {} 1 (asReadBrackets (carryExportRoot {} t)) := by
    rw [← (writeExport_sortKids {} 1 r2 wr2).2, hsk, (writeExport_sortKids {} 1 _ wa).2]
  have oka : ExportOK {} (asReadBrackets (carryExportRoot {} t)) = true := ml_exportOK_asRead {} (by decide) _ hb hz
  obtain ⟨ls', hls'⟩ := writeExport_total_plain {} (by decide) 1 (asReadBrackets (carryExportRoot {} t))
  obtain ⟨e, he, hsid, hst, _⟩ := TT.Props.C02Export.decExport_write' {} 1 _ ls' hls' wa oka
    (by rw [TT.Lemmas.OwnRT.leafNums_asRead]; exact hz.1)
  refine ⟨s, ?_, ls', ?_, hls', e, he, hsid, hst⟩
  · rw [hr]
    exact runFrom_one_line .discobrackets sid r s (by decide) (by simp only [writeOne, hsr]; rfl)
  · rw [hr2, runFrom_body]
    unfold bodyText
    rw [List.mapM_cons, List.mapM_nil]
    simp [writeOne, hwe, hls', unlines, frame, Except.map, bind, Except.bind, pure, Except.pure]

/-! ### the word conditions of `export_to_disco` follow from `ExportOK` -/

/-- every token of the export content is a token of the tree with the same word -/
theorem leaf_of_carryExportRoot (t : Tree) (hwf : WF t = true) (x : Tree) (hx : x ∈ (carryExportRoot {} t).subtrees)
    (hl : x.isLeaf = true) : ∃ s0 ∈ t.subtrees, s0.isLeaf = true ∧ x.fields.word = s0.fields.word := by
  cases t with
  | leaf n f => simp [WF, isLeaf] at hwf
  | node f ks =>
    rw [carryExportRoot_node, carryExportL_eq, subtrees_node', List.mem_cons, List.mem_flatMap] at hx
    rcases hx with rfl | ⟨k', hk', hs⟩
    · simp [isLeaf] at hl
    · obtain ⟨k, hk, rfl⟩ := List.mem_map.1 hk'
      obtain ⟨s0, hs0, rfl⟩ := List.mem_map.1 (((goodMap_carryExport {}).subtrees_perm k).mem_iff.1 hs)
      refine ⟨s0, mem_subtrees_kid f ks k s0 hk hs0, ?_, ?_⟩
      · rw [← (goodMap_carryExport {}).isLeaf_eq]; exact hl
      · cases s0 with
        | leaf n g => simp [carryExport, fields]
        | node g cs => simp [carryExport, isLeaf] at hl

theorem word_of_exportOK (t : Tree) (hok : ExportOK {} t = true) (s0 : Tree) (hs : s0 ∈ t.subtrees) (hl : s0.isLeaf = true) :
    fieldOK (s0.fields.word.getD []) = true := by
  unfold ExportOK at hok
  simp only [Bool.and_eq_true, List.all_eq_true] at hok
  have := (hok.1.1 _ hs).2
  simp only [hl, Bool.not_true, Bool.false_or, Bool.and_eq_true] at this
  exact this.1

/-- `export_to_disco` with the conditions on the words discharged: only the printed labels remain to be checked -/
theorem export_to_disco' (sid : Nat) (t : Tree) (ls : List Str)
    (h : writeExport {} sid t = .ok ls) (hwf : WF t = true) (hok : ExportOK {} t = true) (hN : t.leafNums.length < 500)
    (hE : ∀ s ∈ t.subtrees, s.isLeaf = true → "#EOS".toList.isPrefixOf (s.fields.word.getD []) = false)
    (hlab : DiscoLabels {} (carryExportRoot {} t)) :
    ∃ s, runFrom [] .discobrackets {} none (readExport {} (unlines ls)) = .ok (s ++ ['\n']) ∧
      ∃ d, decDisco s = some d ∧
        sameTree d (fixWords (carryExportRoot {} t) (carryBrackets {} true (carryExportRoot {} t))) = true := by
  refine export_to_disco sid t ls h hwf hok hN hE hlab ?_ ?_
  · intro x hx hl
    obtain ⟨s0, hs0, hl0, e⟩ := leaf_of_carryExportRoot t hwf x hx hl
    have := word_of_exportOK t hok s0 hs0 hl0
    rw [e]
    cases hw : s0.fields.word with
    | none => rw [hw] at this; simp [fieldOK] at this
    | some w => rfl
  · intro x hx hl c hc
    obtain ⟨s0, hs0, hl0, e⟩ := leaf_of_carryExportRoot t hwf x hx hl
    have := word_of_exportOK t hok s0 hs0 hl0
    rw [e] at hc
    simp only [fieldOK, Bool.and_eq_true, List.all_eq_true, Bool.not_eq_true'] at this
    have hc' := this.2 c hc
    constructor
    · rintro rfl; revert hc'; decide
    · rintro rfl; revert hc'; decide

/-- the root's own fields play no role for continuity -/
theorem gapDegree_root_fields (f f' : Fields) (ks : List Tree) : gapDegree (node f ks) = 0 ↔ gapDegree (node f' ks) = 0 := by
  have key : ∀ g g' : Fields, gapDegree (node g ks) = 0 → gapDegree (node g' ks) = 0 := by
    intro g g' h
    rw [gapDegree_zero_iff_subtrees'] at h ⊢
    intro s hs
    rw [subtrees_node', List.mem_cons] at hs
    rcases hs with rfl | hs
    · have := h (node g ks) (by rw [subtrees_node']; simp)
      exact this
    · exact h s (by rw [subtrees_node']; exact List.mem_cons_of_mem _ hs)
  exact ⟨key f f', key f' f⟩

/-- the export content is continuous iff the tree is -/
theorem gapDegree_carryExportRoot (t : Tree) (hl : t.isLeaf = false) : gapDegree (carryExportRoot {} t) = 0 ↔ gapDegree t = 0 := by
  cases t with
  | leaf n f => cases hl
  | node f ks =>
    rw [← (goodMap_carryExport {}).gapDegree_zero (node f ks), carryExportRoot_node]
    simp only [carryExport]
    exact gapDegree_root_fields _ _ _

/-- `export_to_brackets` with continuity and the word condition stated on the tree itself -/
theorem export_to_brackets' (sid : Nat) (t : Tree) (ls : List Str)
    (h : writeExport {} sid t = .ok ls) (hwf : WF t = true) (hok : ExportOK {} t = true) (hN : t.leafNums.length < 500)
    (hE : ∀ s ∈ t.subtrees, s.isLeaf = true → "#EOS".toList.isPrefixOf (s.fields.word.getD []) = false)
    (hc : discontinuous t = false)
    (hlab : BracketLabels {} (carryExportRoot {} t)) :
    ∃ s, runFrom [] .brackets {} none (readExport {} (unlines ls)) = .ok (s ++ ['\n']) ∧
      ∃ d, decBrackets s = some d ∧ sameTree d (carryBrackets {} true (carryExportRoot {} t)) = true := by
  have hg : gapDegree t = 0 := by
    by_cases h0 : gapDegree t = 0
    · exact h0
    · have := (gapDegree_pos_iff_discontinuous t).1 (by omega); rw [hc] at this; cases this
  refine export_to_brackets sid t ls h hwf hok hN hE ((gapDegree_carryExportRoot t (WF_isLeaf t hwf)).2 hg) hlab ?_
  intro x hx hl
  obtain ⟨s0, hs0, hl0, e⟩ := leaf_of_carryExportRoot t hwf x hx hl
  have := word_of_exportOK t hok s0 hs0 hl0
  rw [e]
  cases hw : s0.fields.word with
  | none => rw [hw] at this; simp [fieldOK] at this
  | some w => rfl

/-! ### instances for parts 2 and 3 -/

/-- `exX` of C03Total (discontinuous, non-default edges, morphology, a lemma, children stored out of order) written as export
    sentence 4 and converted into discobrackets: the decoder finds the labels, token numbers and words -/
example : ∃ s, runFrom [] .discobrackets {} none (readExport {} (unlines exXLines)) = .ok (s ++ ['\n']) ∧
    ∃ d, decDisco s = some d ∧
      sameTree d (fixWords (carryExportRoot {} exX) (carryBrackets {} true (carryExportRoot {} exX))) = true :=
  export_to_disco 4 exX exXLines (by decide +kernel) (by decide +kernel) (by decide +kernel) (by decide +kernel)
    (by decide +kernel) (by decide +kernel) (by decide +kernel) (by decide +kernel)

/-- the primed form on `exX`: beyond the export round trip only the labels are checked -/
example : ∃ s, runFrom [] .discobrackets {} none (readExport {} (unlines exXLines)) = .ok (s ++ ['\n']) ∧
    ∃ d, decDisco s = some d ∧
      sameTree d (fixWords (carryExportRoot {} exX) (carryBrackets {} true (carryExportRoot {} exX))) = true :=
  export_to_disco' 4 exX exXLines (by decide +kernel) (by decide +kernel) (by decide +kernel) (by decide +kernel)
    (by decide +kernel) (by decide +kernel)

/-- the line written, and the content carried (root = virtual root `VROOT`; no edges, morphology, lemma) -/
example : runFrom [] .discobrackets {} none (readExport {} (unlines exXLines)) =
    .ok "(VROOT(VP(A 1)(C 3))(B 2))\ta b&< \"c\"\n".toList := by decide +kernel

example : sameTree (fixWords (carryExportRoot {} exX) (carryBrackets {} true (carryExportRoot {} exX)))
    (node { label := "VROOT".toList }
      [node { label := "VP".toList } [leaf 1 { label := "A".toList, word := some "a".toList },
                                       leaf 3 { label := "C".toList, word := some "\"c\"".toList }],
       leaf 2 { label := "B".toList, word := some "b&<".toList }]) = true := by decide +kernel

/-- a continuous sentence with edges and morphology, children stored out of order -/
def exC : Tree := node { label := "S".toList, edge := some "XX".toList }
  [leaf 3 { label := "C".toList, word := some "c".toList, edge := some "HD".toList, morph := some "3.Sg".toList },
   node { label := "NP".toList, edge := some "SB".toList }
     [leaf 2 { label := "B".toList, word := some "b".toList }, leaf 1 { label := "A".toList, word := some "a&".toList }]]

def exCLines : List Str := ["#BOS 12".toList, "a&\t\t\tA\t--\t\t--\t500".toList, "b\t\t\tB\t--\t\t--\t500".toList,
    "c\t\t\tC\t3.Sg\t\tHD\t0".toList, "#500\t\t\tNP\t--\t\tSB\t0".toList, "#EOS 12".toList]

example : writeExport {} 12 exC = .ok exCLines := by decide +kernel

example : ∃ s, runFrom [] .brackets {} none (readExport {} (unlines exCLines)) = .ok (s ++ ['\n']) ∧
    ∃ d, decBrackets s = some d ∧ sameTree d (carryBrackets {} true (carryExportRoot {} exC)) = true :=
  export_to_brackets 12 exC exCLines (by decide +kernel) (by decide +kernel) (by decide +kernel) (by decide +kernel)
    (by decide +kernel) (by decide +kernel) (by decide +kernel) (by decide +kernel)

example : ∃ s, runFrom [] .brackets {} none (readExport {} (unlines exCLines)) = .ok (s ++ ['\n']) ∧
    ∃ d, decBrackets s = some d ∧ sameTree d (carryBrackets {} true (carryExportRoot {} exC)) = true :=
  export_to_brackets' 12 exC exCLines (by decide +kernel) (by decide +kernel) (by decide +kernel) (by decide +kernel)
    (by decide +kernel) (by decide +kernel) (by decide +kernel)

example : runFrom [] .brackets {} none (readExport {} (unlines exCLines)) = .ok "(VROOT(NP(A a&)(B b))(C c))\n".toList := by
  decide +kernel

/-- export -> discobrackets -> export on `exX`: the hypotheses hold ... -/
example : ∃ s, runFrom [] .discobrackets {} none (readExport {} (unlines exXLines)) = .ok (s ++ ['\n']) ∧
    ∃ ls', runFrom [] .export {} none (readBrackets { disco := true } (s ++ ['\n'])) = .ok (unlines ls') ∧
      writeExport {} 1 (asReadBrackets (carryExportRoot {} exX)) = .ok ls' ∧
      ∃ e, decExport false ls' = some e ∧ e.sid = 1 ∧
        sameTree e.tree (carryExportRoot {} (asReadBrackets (carryExportRoot {} exX))) = true :=
  export_disco_export_id 4 exX exXLines (by decide +kernel) (by decide +kernel) (by decide +kernel) (by decide +kernel)
    (by decide +kernel) (by decide +kernel) (by decide +kernel) (by decide +kernel)

/-- ... and the text that comes back is NOT the original: sentence number 1, morphology `3.Sg` and the edges `HD`, `OC` are lost
    (the discobracket format has no place for them) -/
example : runFrom [] .export {} none (readBrackets { disco := true } "(VROOT(VP(A 1)(C 3))(B 2))\ta b&< \"c\"\n".toList) =
    .ok (unlines ["#BOS 1".toList, "a\t\t\tA\t--\t\t--\t500".toList, "b&<\t\t\tB\t--\t\t--\t0".toList,
      "\"c\"\t\t\tC\t--\t\t--\t500".toList, "#500\t\t\tVP\t--\t\t--\t0".toList, "#EOS 1".toList]) := by decide +kernel

/-! ## 4. brackets -> brackets for a file of k sentences (C03 row 3, file lift of `C03Run.brackets_brackets_id`) -/

theorem br_mapM_write : ∀ (rs : List Tree) (lines : List Str) (c : Nat), rs.length = lines.length →
    (∀ i, i < rs.length → ∃ r s, rs[i]? = some r ∧ lines[i]? = some s ∧ writeBrackets {} r = .ok (some s)) →
    ((List.range' c rs.length).zip rs).mapM (fun p => writeOne .brackets {} p.1 p.2) = .ok (lines.map (· ++ ['\n']))
  | [], [], _, _, _ => rfl
  | [], _ :: _, _, h, _ => by simp at h
  | _ :: _, [], _, h, _ => by simp at h
  | r :: rs, s :: lines, c, hl, h => by
    obtain ⟨r0, s0, e1, e2, hw⟩ := h 0 (by simp)
    simp only [List.getElem?_cons_zero, Option.some.injEq] at e1 e2
    subst e1; subst e2
    have ih := br_mapM_write rs lines (c + 1) (by simpa using hl) (fun i hi => by
      obtain ⟨r', s', a, b, w⟩ := h (i + 1) (by simp; omega)
      exact ⟨r', s', by simpa using a, by simpa using b, w⟩)
    rw [List.length_cons, List.range'_succ, List.zip_cons_cons, List.mapM_cons, ih]
    simp only [writeOne, hw]
    simp [bind, Except.bind, pure, Except.pure, Except.map]

/-- `brackets_brackets_id_file`: a bracket file of k sentences as the tool's own writer wrote it (one tree per line),
    converted by the command into brackets, is the same text; hypotheses per sentence = those of `brackets_brackets_id` -/
theorem brackets_brackets_id_file (ts : List Tree) (lines : List Str)
    (h : ∀ i, i < ts.length → ∃ t s, ts[i]? = some t ∧ lines[i]? = some s ∧ WF t = true ∧ gapDegree t = 0 ∧ BracketsOK t = true ∧
        (∀ x ∈ t.subtrees, replaceParens x.fields.label = x.fields.label ∧ (x.fields.word.map replaceParens) = x.fields.word) ∧
        bracketsSub {} false t = .ok s) (hl : lines.length = ts.length) :
    runFrom [] .brackets {} none (readBrackets {} ((lines.map (· ++ ['\n'])).flatten)) = .ok ((lines.map (· ++ ['\n'])).flatten) := by
  obtain ⟨rs, hr, hlen, hsame⟩ := TT.Props.C03Own.own_roundtrip_file ts lines h hl
  have hm := br_mapM_write rs lines 1 (by rw [hlen, hl]) (fun i hi => by
    obtain ⟨t, r, a, b, hs⟩ := hsame i (by rw [← hlen]; exact hi)
    obtain ⟨t', s, a', b', hwf, hc, _, _, hbs⟩ := h i (by rw [← hlen]; exact hi)
    rw [a] at a'; cases a'
    exact ⟨r, s, b, b', writeBrackets_readback t r s (WF_noEmpty t hwf) hc hbs hs⟩)
  rw [hr, runFrom_ok, transformAll_nil_steps]
  show writeAll .brackets {} none _ = _
  rw [writeAll_plain .brackets {} none _ (by decide)]
  unfold bodyText
  rw [← hlen, hm]
  rfl

open TT.Props.C03Own (exOwn exOwn2) in
example : runFrom [] .brackets {} none (readBrackets {} "(S(NP(A a)(B b))(C c))\n(T(D d))\n".toList) =
    .ok "(S(NP(A a)(B b))(C c))\n(T(D d))\n".toList :=
  brackets_brackets_id_file [exOwn, exOwn2] ["(S(NP(A a)(B b))(C c))".toList, "(T(D d))".toList] (by
    intro i hi
    have : i = 0 ∨ i = 1 := by simp at hi; omega
    rcases this with rfl | rfl
    · exact ⟨exOwn, _, rfl, rfl, by decide +kernel, by decide +kernel, by decide +kernel, by decide +kernel, by decide +kernel⟩
    · exact ⟨exOwn2, _, rfl, rfl, by decide +kernel, by decide +kernel, by decide +kernel, by decide +kernel, by decide +kernel⟩) rfl

/-! ## 5. TIGER-XML -> discobrackets, TIGER-XML -> brackets (C03 row 2) -/

/-- `tiger_to_disco`: the element structure of a sentence (as the tool's TIGER-XML writer lays it out, `xsentOf`), converted by
    the command into discobrackets, is a line from which the independent decoder recovers the bracket content of what TIGER-XML
    holds of the sentence (`tigerReadTop x`: below a new `VROOT` unless the root is one).  Format conditions of `decDisco_write`
    on that content. -/
theorem tiger_to_disco (sid : Nat) (x : Tree) (hwf : WF x = true) (hlen : x.leafNums.length < 500)
    (hlab : DiscoLabels {} (tigerReadTop x))
    (hw : ∀ y ∈ (tigerReadTop x).subtrees, y.isLeaf = true → y.fields.word.isSome = true)
    (hwd : ∀ y ∈ (tigerReadTop x).subtrees, y.isLeaf = true → ∀ c ∈ y.fields.word.getD [], c ≠ ' ' ∧ c ≠ '\t') :
    ∃ s, runFrom [] .discobrackets {} none (readTiger {} [xsentOf sid x]) = .ok (s ++ ['\n']) ∧
      ∃ d, decDisco s = some d ∧ sameTree d (fixWords (tigerReadTop x) (carryBrackets {} true (tigerReadTop x))) = true := by
  obtain ⟨r, hr, hsame, wr⟩ := readTiger_one sid x hwf hlen
  have hsk := sortKids_eq_of_sameTree _ _ hsame
  have wt : WF (tigerReadTop x) = true :=
    goodMap_WF_inv goodMap_sortKids _ (by rw [← hsk]; exact ml_goodMap_WF goodMap_sortKids r wr)
  obtain ⟨s, hs⟩ := writeDisco_total {} (by decide) (tigerReadTop x)
  have hsr : writeDisco {} r = .ok s := by rw [writeDisco_of_sortKids_eq _ r (WF_nodup _ wt) (WF_nodup r wr) hsk, hs]
  obtain ⟨d, hd1, hd2⟩ := decDisco_write {} _ s wt hs hlab hw hwd
  refine ⟨s, ?_, d, hd1, hd2⟩
  rw [hr]
  exact runFrom_one_line .discobrackets sid r s (by decide) (by simp only [writeOne, hsr]; rfl)

/-- `tiger_to_brackets`: the same into plain brackets for a continuous sentence -/
theorem tiger_to_brackets (sid : Nat) (x : Tree) (hwf : WF x = true) (hlen : x.leafNums.length < 500)
    (hc : gapDegree (tigerReadTop x) = 0)
    (hlab : BracketLabels {} (tigerReadTop x))
    (hw : ∀ y ∈ (tigerReadTop x).subtrees, y.isLeaf = true → y.fields.word.isSome = true) :
    ∃ s, runFrom [] .brackets {} none (readTiger {} [xsentOf sid x]) = .ok (s ++ ['\n']) ∧
      ∃ d, decBrackets s = some d ∧ sameTree d (carryBrackets {} true (tigerReadTop x)) = true := by
  obtain ⟨r, hr, hsame, wr⟩ := readTiger_one sid x hwf hlen
  have hsk := sortKids_eq_of_sameTree _ _ hsame
  have wt : WF (tigerReadTop x) = true :=
    goodMap_WF_inv goodMap_sortKids _ (by rw [← hsk]; exact ml_goodMap_WF goodMap_sortKids r wr)
  have hs := writeBrackets_plain _ hc
  have e := writeBrackets_of_sortKids_eq _ r hsk hc
  obtain ⟨d, hd1, hd2⟩ := decBrackets_writeBrackets {} _ _ wt hs hlab hw
  refine ⟨_, ?_, d, hd1, hd2⟩
  rw [hr]
  exact runFrom_one_line .brackets sid r _ (by decide) (by simp only [writeOne, e, hs]; rfl)

/-- `exX` (root `S`, not `VROOT`: the reader puts it below a new root) and the continuous `exC` -/
example : ∃ s, runFrom [] .discobrackets {} none (readTiger {} [xsentOf 4 exX]) = .ok (s ++ ['\n']) ∧
    ∃ d, decDisco s = some d ∧ sameTree d (fixWords (tigerReadTop exX) (carryBrackets {} true (tigerReadTop exX))) = true :=
  tiger_to_disco 4 exX (by decide +kernel) (by decide +kernel) (by decide +kernel) (by decide +kernel) (by decide +kernel)

example : ∃ s, runFrom [] .brackets {} none (readTiger {} [xsentOf 12 exC]) = .ok (s ++ ['\n']) ∧
    ∃ d, decBrackets s = some d ∧ sameTree d (carryBrackets {} true (tigerReadTop exC)) = true :=
  tiger_to_brackets 12 exC (by decide +kernel) (by decide +kernel) (by decide +kernel) (by decide +kernel) (by decide +kernel)

example : runFrom [] .discobrackets {} none (readTiger {} [xsentOf 4 exX]) =
      .ok "(VROOT(S(VP(A 1)(C 3))(B 2)))\ta b&< \"c\"\n".toList ∧
    runFrom [] .brackets {} none (readTiger {} [xsentOf 12 exC]) = .ok "(VROOT(S(NP(A a&)(B b))(C c)))\n".toList := by
  decide +kernel

/-! ## 6. export -> discobrackets for a file of k sentences -/

/-- the content `decDisco` has to recover from the line written for sentence `p` -/
def DiscoOf (s : Str) (p : Nat × Tree) : Prop :=
  ∃ d, decDisco s = some d ∧
    sameTree d (fixWords (carryExportRoot {} p.2) (carryBrackets {} true (carryExportRoot {} p.2))) = true

theorem disco_mapM_readBack : ∀ (rs sents : List (Nat × Tree)), Each₂ ReadBack rs sents →
    (∀ p ∈ sents, SentOK p.2 ∧ DiscoLabels {} (carryExportRoot {} p.2)) →
    ∃ lines, rs.mapM (fun p => writeOne .discobrackets {} p.1 p.2) = .ok (lines.map (· ++ ['\n'])) ∧ Each₂ DiscoOf lines sents
  | [], [], _, _ => ⟨[], rfl, trivial⟩
  | [], _ :: _, h, _ => h.elim
  | _ :: _, [], h, _ => h.elim
  | r :: rs, p :: sents, h, hs => by
    obtain ⟨lines, hm, hall⟩ := disco_mapM_readBack rs sents h.2 (fun q hq => hs q (by simp [hq]))
    obtain ⟨⟨hwf, hok, hN, hE⟩, hlab⟩ := hs p (by simp)
    obtain ⟨wc, _⟩ := writeExport_carry_WF {} ⟨rfl, rfl, rfl, rfl⟩ p.1 p.2 hwf
    have hnf : nf r.2 = nf (carryExportRoot {} p.2) := eq_of_beq _ _ h.1.2.1
    obtain ⟨wr, _⟩ := writeExport_of_nf_eq {} p.1 _ r.2 wc hnf
    obtain ⟨s, hs'⟩ := writeDisco_total {} (by decide) (carryExportRoot {} p.2)
    have hsr : writeDisco {} r.2 = .ok s := by rw [writeDisco_of_nf_eq _ r.2 wc wr hnf, hs']
    have hdec : DiscoOf s p := by
      refine decDisco_write {} _ s wc hs' hlab ?_ ?_
      · intro x hx hl
        obtain ⟨s0, hs0, hl0, e⟩ := leaf_of_carryExportRoot p.2 hwf x hx hl
        have := word_of_exportOK p.2 hok s0 hs0 hl0
        rw [e]
        cases hw : s0.fields.word with
        | none => rw [hw] at this; simp [fieldOK] at this
        | some w => rfl
      · intro x hx hl c hc
        obtain ⟨s0, hs0, hl0, e⟩ := leaf_of_carryExportRoot p.2 hwf x hx hl
        have := word_of_exportOK p.2 hok s0 hs0 hl0
        rw [e] at hc
        simp only [fieldOK, Bool.and_eq_true, List.all_eq_true, Bool.not_eq_true'] at this
        have hc' := this.2 c hc
        constructor
        · rintro rfl; revert hc'; decide
        · rintro rfl; revert hc'; decide
    refine ⟨s :: lines, ?_, hdec, hall⟩
    rw [List.mapM_cons, hm]
    simp only [writeOne, hsr]
    simp [bind, Except.bind, pure, Except.pure, Except.map]

/-- `export_to_disco_file`: an export file of ANY number of sentences written by the command, converted by the command into
    discobrackets, is one line per sentence, in order, each decoding to the bracket content of the export content of its sentence -/
theorem export_to_disco_file (sents : List (Nat × Tree)) (text : Str)
    (hw : runFrom [] .export {} none (.ok sents) = .ok text)
    (hs : ∀ p ∈ sents, SentOK p.2 ∧ DiscoLabels {} (carryExportRoot {} p.2)) :
    ∃ lines, runFrom [] .discobrackets {} none (readExport {} text) = .ok (unlines lines) ∧ Each₂ DiscoOf lines sents := by
  obtain ⟨⟨rs, hread, hall⟩, _⟩ := export_export_id_file {} ⟨rfl, rfl, rfl, rfl⟩ rfl sents text hw (fun p hp => (hs p hp).1)
  obtain ⟨lines, hm, hd⟩ := disco_mapM_readBack rs sents hall hs
  refine ⟨lines, ?_, hd⟩
  rw [hread, runFrom_body]
  unfold bodyText
  rw [hm]
  simp [frame, unlines, Except.map, bind, Except.bind, pure, Except.pure]

/-- a file of four sentences (`exFile` of C03Total: ids 9, 2, 7, 2; two of them discontinuous) -/
example : ∃ lines, runFrom [] .discobrackets {} none (readExport {} exFileText) = .ok (unlines lines) ∧ Each₂ DiscoOf lines exFile :=
  export_to_disco_file exFile exFileText (by decide +kernel) (by
    intro p hp
    simp only [exFile, List.mem_cons, List.not_mem_nil, or_false] at hp
    rcases hp with rfl | rfl | rfl | rfl <;> exact ⟨by decide +kernel, by decide +kernel⟩)

end TT.Props.C03Conv19
