/-
  C01 / C03, the option glue of the commands (wave 18): from the WORDS of `--src-opts` to what the reader does
  (`TT.inOptsOf (optionsDict words)`, `TT.readSrcWords`, `TT.runWords`, `TT.runAnalysisWords`; TT/RunSrc.lean).

  * `readSrcWords_nil`: without `--src-opts` every reader runs with its defaults.
  * `inOptsOf_flags`: a presence option (`gf_split`, `replace_parens`, `continuous`, `brackets_emptypos`,
    `disco_reordered`) is ON iff some word has that key - whatever value the word gives it, wherever it stands,
    however often it is repeated.
  * `inOptsOf_sep` / `inOptsOf_sep_last`: the separator is the value of the LAST word with key `gf_separator`.
  * `inOptsOf_firstid_last`: likewise the first sentence number (an all-digit value, read as a number).
  * `inOptsOf_isSome_iff`: the model is defined unless `gf_separator` is given without a non-numeric value or
    `brackets_firstid` without a number (what the readers cannot use).
-/
import TT.RunSrc
import TT.Props.C03Options
namespace TT.Props.C03Words
open TT TT.Tree
open TT.Props.C03Options

deriving instance DecidableEq for InOpts

theorem readSrcWords_nil (src : Source) : readSrcWords [] src = some (readSrc {} src) := rfl

theorem runWords_nil (steps : List Step) (fmt : DestFmt) (o : OutOpts) (enc : Option Str) (src : Source) :
    runWords steps fmt o enc [] src = some (runSrc steps fmt o enc {} src) := rfl

theorem runAnalysisWords_nil (task : AnalysisTask) (src : Source) :
    runAnalysisWords task [] src = some (runAnalysisSrc task {} src) := rfl

theorem lookup_isSome_iff (d : List (Str × OptVal)) (k : Str) : (optLookup d k).isSome = true ↔ k ∈ d.map (·.1) := by
  unfold optLookup
  induction d with
  | nil => simp
  | cons p d ih =>
    by_cases h : p.1 = k
    · simp [h]
    · have : (p.1 == k) = false := by simpa using h
      simp only [List.find?_cons, this, List.map_cons, List.mem_cons]
      rw [ih]
      constructor
      · exact Or.inr
      · rintro (e | e)
        · exact absurd e.symm h
        · exact e

/-- a key is in the dict iff some word has it -/
theorem has_iff (ws : List Str) (k : Str) :
    (optLookup (optionsDict ws) k).isSome = true ↔ ∃ w ∈ ws, (parseOption w).1 = k := by
  rw [lookup_isSome_iff, optionsDict_mem_keys]

/-- what `inOptsOf` answers when it answers -/
theorem inOptsOf_some (d : List (Str × OptVal)) (io : InOpts) (h : inOptsOf d = some io) :
    io.gfSplit = (optLookup d "gf_split".toList).isSome ∧
    io.replaceParens = (optLookup d "replace_parens".toList).isSome ∧
    io.continuous = (optLookup d "continuous".toList).isSome ∧
    io.emptyPos = (optLookup d "brackets_emptypos".toList).isSome ∧
    io.discoReordered = (optLookup d "disco_reordered".toList).isSome ∧
    io.disco = (optLookup d "disco".toList).any optTruthy ∧
    (io.gfSeparator = none ↔ optLookup d "gf_separator".toList = none) ∧
    (∀ s, io.gfSeparator = some s ↔ optLookup d "gf_separator".toList = some (.str s)) ∧
    (io.firstId = none ↔ optLookup d "brackets_firstid".toList = none) ∧
    (∀ n, io.firstId = some n ↔ optLookup d "brackets_firstid".toList = some (.int n)) := by
  unfold inOptsOf at h
  simp only at h
  cases hs : optLookup d "gf_separator".toList with
  | none =>
    cases hf : optLookup d "brackets_firstid".toList with
    | none => rw [hs, hf] at h; simp only [Option.some.injEq] at h; subst h; simp
    | some v =>
      cases v with
      | int n => rw [hs, hf] at h; simp only [Option.some.injEq] at h; subst h; simp
      | flag => rw [hs, hf] at h; cases h
      | str s => rw [hs, hf] at h; cases h
  | some v =>
    cases v with
    | flag => rw [hs] at h; cases h
    | int n => rw [hs] at h; cases h
    | str s =>
      cases hf : optLookup d "brackets_firstid".toList with
      | none => rw [hs, hf] at h; simp only [Option.some.injEq] at h; subst h; simp
      | some v =>
        cases v with
        | int n => rw [hs, hf] at h; simp only [Option.some.injEq] at h; subst h; simp
        | flag => rw [hs, hf] at h; cases h
        | str s => rw [hs, hf] at h; cases h

/-- MAIN: the presence options are ON iff some word has the key (value, position and repetition do not matter) -/
theorem inOptsOf_flags (ws : List Str) (io : InOpts) (h : inOptsOf (optionsDict ws) = some io) :
    (io.gfSplit = true ↔ ∃ w ∈ ws, (parseOption w).1 = "gf_split".toList) ∧
    (io.replaceParens = true ↔ ∃ w ∈ ws, (parseOption w).1 = "replace_parens".toList) ∧
    (io.continuous = true ↔ ∃ w ∈ ws, (parseOption w).1 = "continuous".toList) ∧
    (io.emptyPos = true ↔ ∃ w ∈ ws, (parseOption w).1 = "brackets_emptypos".toList) ∧
    (io.discoReordered = true ↔ ∃ w ∈ ws, (parseOption w).1 = "disco_reordered".toList) := by
  obtain ⟨h1, h2, h3, h4, h5, _⟩ := inOptsOf_some _ io h
  rw [h1, h2, h3, h4, h5]
  exact ⟨has_iff ws _, has_iff ws _, has_iff ws _, has_iff ws _, has_iff ws _⟩

/-- MAIN: the separator is what the LAST word with key `gf_separator` says -/
theorem inOptsOf_sep_last (pre post : List Str) (w : Str) (io : InOpts)
    (hk : (parseOption w).1 = "gf_separator".toList)
    (hpost : ∀ p ∈ post, (parseOption p).1 ≠ "gf_separator".toList)
    (h : inOptsOf (optionsDict (pre ++ [w] ++ post)) = some io) :
    (parseOption w).2 = .str (io.gfSeparator.getD []) ∧ io.gfSeparator.isSome = true := by
  have hl := optionsDict_lookup pre post w (by rw [hk]; exact hpost)
  rw [hk] at hl
  obtain ⟨_, _, _, _, _, _, h7, h8, _⟩ := inOptsOf_some _ io h
  cases hs : io.gfSeparator with
  | none => rw [h7.1 hs] at hl; cases hl
  | some s =>
    have := (h8 s).1 hs
    rw [this] at hl
    simp only [Option.some.injEq] at hl
    exact ⟨by rw [← hl]; rfl, rfl⟩

/-- ... and the first sentence number what the LAST word with key `brackets_firstid` says -/
theorem inOptsOf_firstid_last (pre post : List Str) (w : Str) (io : InOpts)
    (hk : (parseOption w).1 = "brackets_firstid".toList)
    (hpost : ∀ p ∈ post, (parseOption p).1 ≠ "brackets_firstid".toList)
    (h : inOptsOf (optionsDict (pre ++ [w] ++ post)) = some io) :
    ∃ n, (parseOption w).2 = .int n ∧ io.firstId = some n := by
  have hl := optionsDict_lookup pre post w (by rw [hk]; exact hpost)
  rw [hk] at hl
  obtain ⟨_, _, _, _, _, _, _, _, h9, h10⟩ := inOptsOf_some _ io h
  cases hs : io.firstId with
  | none => rw [h9.1 hs] at hl; cases hl
  | some n =>
    have := (h10 n).1 hs
    rw [this] at hl
    simp only [Option.some.injEq] at hl
    exact ⟨n, hl.symm, rfl⟩

/-- the model answers unless a value is of a kind the readers cannot use -/
theorem inOptsOf_isSome_iff (d : List (Str × OptVal)) :
    (inOptsOf d).isSome = true ↔
      (optLookup d "gf_separator".toList = none ∨ ∃ s, optLookup d "gf_separator".toList = some (.str s)) ∧
      (optLookup d "brackets_firstid".toList = none ∨ ∃ n, optLookup d "brackets_firstid".toList = some (.int n)) := by
  unfold inOptsOf
  simp only
  cases optLookup d "gf_separator".toList with
  | none =>
    cases optLookup d "brackets_firstid".toList with
    | none => simp
    | some v => cases v <;> simp
  | some v =>
    cases v with
    | flag => simp
    | int n => simp
    | str s =>
      cases optLookup d "brackets_firstid".toList with
      | none => simp
      | some v => cases v <;> simp

/-- non-vacuous, closed instances: `gf_split:0` is ON; the last separator wins; `007` is 7; unknown keys and `quiet` are
    ignored; a bare `gf_separator` is outside the model -/
example : inOptsOf (optionsDict ["gf_split:0".toList, "gf_separator:-".toList, "quiet".toList, "foo:bar".toList,
      "gf_separator:#".toList, "brackets_firstid:007".toList]) =
    some { gfSplit := true, gfSeparator := some ['#'], firstId := some 7 } := by decide +kernel
example : inOptsOf (optionsDict ["gf_separator".toList]) = none := by decide +kernel
/-- the bracket format with the word `disco` is the discobracket format; `disco:0` is not -/
example (text : Str) : readSrcWords ["disco".toList] (.brackets text) = readSrcWords [] (.discobrackets text) := by
  have : inOptsOf (optionsDict ["disco".toList]) = some { disco := true } := by decide +kernel
  simp only [readSrcWords, this]; rfl
example (text : Str) : readSrcWords ["disco:0".toList] (.brackets text) = readSrcWords [] (.brackets text) := by
  have : inOptsOf (optionsDict ["disco:0".toList]) = some {} := by decide +kernel
  simp only [readSrcWords, this]; rfl

/-! ### `--dest-opts` -/

/-- every writer option is ON iff some word has its key -/
theorem outOptsOf_flags (ws : List Str) :
    ((outOptsOf (optionsDict ws)).gf = true ↔ ∃ w ∈ ws, (parseOption w).1 = "gf".toList) ∧
    ((outOptsOf (optionsDict ws)).gfTerminals = true ↔ ∃ w ∈ ws, (parseOption w).1 = "gf_terminals".toList) ∧
    ((outOptsOf (optionsDict ws)).markHeads = true ↔ ∃ w ∈ ws, (parseOption w).1 = "mark_heads_marking".toList) ∧
    ((outOptsOf (optionsDict ws)).splitMarking = true ↔ ∃ w ∈ ws, (parseOption w).1 = "boyd_split_marking".toList) ∧
    ((outOptsOf (optionsDict ws)).splitNumbering = true ↔ ∃ w ∈ ws, (parseOption w).1 = "boyd_split_numbering".toList) ∧
    ((outOptsOf (optionsDict ws)).emptyRoot = true ↔ ∃ w ∈ ws, (parseOption w).1 = "brackets_emptyroot".toList) ∧
    ((outOptsOf (optionsDict ws)).skipDisco = true ↔ ∃ w ∈ ws, (parseOption w).1 = "brackets_skipdisco".toList) ∧
    ((outOptsOf (optionsDict ws)).exportFour = true ↔ ∃ w ∈ ws, (parseOption w).1 = "export_four".toList) ∧
    ((outOptsOf (optionsDict ws)).terminalsOne = true ↔ ∃ w ∈ ws, (parseOption w).1 = "terminals_one".toList) ∧
    ((outOptsOf (optionsDict ws)).terminalsPos = true ↔ ∃ w ∈ ws, (parseOption w).1 = "terminals_pos".toList) ∧
    ((outOptsOf (optionsDict ws)).posOnly = true ↔ ∃ w ∈ ws, (parseOption w).1 = "pos_only".toList) :=
  ⟨has_iff ws _, has_iff ws _, has_iff ws _, has_iff ws _, has_iff ws _, has_iff ws _, has_iff ws _, has_iff ws _,
    has_iff ws _, has_iff ws _, has_iff ws _⟩

/-- no `gf_separator` word: the default separator -/
theorem outOptsOf_sep_none (ws : List Str) (h : ∀ w ∈ ws, (parseOption w).1 ≠ "gf_separator".toList) :
    (outOptsOf (optionsDict ws)).gfSeparator = none := by
  have : (optLookup (optionsDict ws) "gf_separator".toList).isSome = false := by
    rw [Bool.eq_false_iff, Ne, has_iff]
    rintro ⟨w, hw, e⟩
    exact h w hw e
  simp only [outOptsOf]
  cases hl : optLookup (optionsDict ws) "gf_separator".toList with
  | none => rfl
  | some v => rw [hl] at this; cases this

/-- the LAST `gf_separator` word decides, through `str()` -/
theorem outOptsOf_sep_last (pre post : List Str) (w : Str) (hk : (parseOption w).1 = "gf_separator".toList)
    (hpost : ∀ p ∈ post, (parseOption p).1 ≠ "gf_separator".toList) :
    (outOptsOf (optionsDict (pre ++ [w] ++ post))).gfSeparator = some (match (parseOption w).2 with
      | .str s => s
      | .int n => natToStr n
      | .flag => "True".toList) := by
  have hl := optionsDict_lookup pre post w (by rw [hk]; exact hpost)
  rw [hk] at hl
  simp only [outOptsOf, hl, Option.map_some]
  cases (parseOption w).2 <;> rfl

example : outOptsOf (optionsDict ["gf:0".toList, "gf_separator:+".toList, "export_four".toList, "gf_separator:007".toList]) =
    { gf := true, gfSeparator := some ['7'], exportFour := true } := by decide +kernel
example : (outOptsOf (optionsDict ["gf_separator".toList])).gfSeparator = some "True".toList := by decide +kernel

theorem runWords2_nil (steps : List Step) (fmt : DestFmt) (enc : Option Str) (src : Source) :
    runWords2 steps fmt [] enc [] src = some (runSrc steps fmt {} enc {} src) := rfl

end TT.Props.C03Words
