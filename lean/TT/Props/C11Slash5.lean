/-
  C11 (slash), fifth part (wave 19): clause 9 (ii) - WHICH constituents receive WHICH `/X` piece.
  `slash_annotation_one` (one trace with its filler), `annotateAll_labels` (the loop), `slash_annotation` (the call):
  the tree the traces without filler are finally deleted from has the skeleton of the plain trace deletion, and the label
  of every node is the one `Spec.slashLabels` prescribes: per (trace, filler) pair the nodes of `Spec.slashPath` (those that
  properly dominate the trace or the filler but not both) grow by `/` ++ bare label of the filler; nothing else changes.
  Spec: TT/Spec/More19a.lean; model: TT/Transform/Slash.lean; earlier parts: TT/Props/C11Slash.lean .. C11Slash4.lean.
  (The brief names this file C11Slash4.lean; that file exists since wave 17, so this is C11Slash5.lean.)
-/
import TT.Lemmas.Slash19
namespace TT.Props.C11Slash5
open TT TT.Tree TT.Spec TT.Lemmas.WF TT.Lemmas.Edit TT.Lemmas.Slash TT.Lemmas.More17c TT.Lemmas.Slash19
open TT.Props.C11Slash TT.Props.C11Slash2 TT.Props.C11Slash3 TT.Props.C11Slash4

/-! ## one trace with its filler -/

/-- a node that properly dominates an existing node is a constituent -/
theorem consAt_of_proper_prefix (t : Tree) (q x : Path) (h : q <+: x) (hne : q ≠ x) (hx : (t.get? x).isSome = true) :
    consAt t q = true := by
  obtain ⟨r, rfl⟩ := h
  cases r with
  | nil => simp at hne
  | cons i r =>
    rw [get?_append] at hx
    unfold consAt rootAt
    cases hq : t.get? q with
    | none => rw [hq] at hx; cases hx
    | some y =>
      rw [hq] at hx
      cases y with
      | leaf n f => simp [get?] at hx
      | node f ks => rfl

theorem consAt_of_mem_slashPath (t : Tree) (tr f q : Path) (htr : (t.get? tr).isSome = true)
    (hf : (t.get? f).isSome = true) (hq : q ∈ slashPath tr f) : consAt t q = true := by
  rcases ((mem_slashPath tr f q).1 hq).1 with ⟨h1, h2⟩ | ⟨h1, h2⟩
  · exact consAt_of_proper_prefix t q tr h1 h2 htr
  · exact consAt_of_proper_prefix t q f h1 h2 hf

theorem selected_eq (ls : List Str) (t : Tree) (p : Path) :
    (!ls.isEmpty && !ls.contains (parseLabel DEFAULT_GF_SEP (labelAtPath t p)).label) = !selected ls t p := by
  unfold selected
  cases ls.isEmpty <;> cases ls.contains (parseLabel DEFAULT_GF_SEP (labelAtPath t p)).label <;> rfl

/-- C11 clause 9 (ii), one round: for a trace and its filler (both nodes of the tree), if the trace is selected, exactly the
    nodes of `Spec.slashPath trace filler` grow by `Spec.slashItem (label of the filler)`; if not, nothing changes.  In either
    case the skeleton (everything but the labels of constituents) and the set of valid paths stay as they are. -/
theorem slash_annotation_one (ls : List Str) (t t' : Tree) (tr f : Path) (h : annotateOne ls t tr f = .ok t')
    (htr : (t.get? tr).isSome = true) (hf : (t.get? f).isSome = true) :
    eraseConsLabels t' = eraseConsLabels t ∧ (∀ p, (t'.get? p).isSome = (t.get? p).isSome) ∧
    ∀ p, labelAtPath t' p =
      if selected ls t tr = true then slashRound (labelAtPath t) (tr, f) p else labelAtPath t p := by
  unfold annotateOne at h
  rw [selected_eq] at h
  cases hs : selected ls t tr with
  | false =>
    rw [hs] at h
    simp only [Bool.not_false, ↓reduceIte, Except.ok.injEq] at h
    subst h
    simp
  | true =>
    rw [hs] at h
    simp only [Bool.not_true, Bool.false_eq_true, ↓reduceIte] at h
    cases hg : slashGoal f tr with
    | none => rw [hg] at h; cases h
    | some g =>
      rw [hg] at h
      simp only [Except.ok.injEq] at h
      rw [← List.foldl_append] at h
      subst h
      obtain ⟨hnd, hmem⟩ := walks_eq_slashPath tr f g hg
      refine ⟨erase_foldl _ _ _, fun p => isSome_foldl _ _ _ p hnd, fun p => ?_⟩
      rw [labelAtPath_foldl _ _ _ p hnd]
      simp only [↓reduceIte, slashRound, hmem p]
      by_cases hp : p ∈ slashPath tr f
      · simp only [hp, consAt_of_mem_slashPath t tr f p htr hf hp, and_self, ↓reduceIte]
        rfl
      · simp [hp]

/-! ## the loop -/

/-- the (trace, filler) pairs of the loop: of the recorded (co-index, trace) pairs those whose trace label is selected
    (all, when `slash` is a flag), each with the first filler of its co-index -/
def jobsOf (ls : List Str) (t2 : Tree) (b : IdxMap Path) (l : List (Str × TraceRef)) : List (Path × Path) :=
  l.filterMap fun x => if selected ls t2 x.2.2 then some (x.2.2, (b.get x.1).headD []) else none

theorem annotateAll_labels (ls : List Str) (b : IdxMap Path) (t2 : Tree) :
    ∀ (l : List (Str × TraceRef)) (acc t3 : Tree), Annotated t2 acc →
      (∀ x ∈ l, ∃ n g, t2.get? x.2.2 = some (leaf n g)) →
      (∀ x ∈ l, (acc.get? ((b.get x.1).headD [])).isSome = true) →
      annotateAll ls b acc l = .ok t3 →
      eraseConsLabels t3 = eraseConsLabels acc ∧ (∀ p, (t3.get? p).isSome = (acc.get? p).isSome) ∧
      ∀ p, labelAtPath t3 p = slashLabels (labelAtPath acc) (jobsOf ls t2 b l) p
  | [], acc, t3, _, _, _, h => by
    simp only [annotateAll, Except.ok.injEq] at h
    subst h
    simp [jobsOf, slashLabels]
  | (co, tr) :: rest, acc, t3, ha, htok, hfil, h => by
    simp only [annotateAll] at h
    have hfil0 := hfil (co, tr) (by simp)
    cases hg : b.get co with
    | nil => rw [hg] at h; cases h
    | cons filler fs =>
      rw [hg] at h
      simp only at h
      simp only [hg, List.headD_cons] at hfil0
      obtain ⟨n, g, hleaf⟩ := htok (co, tr) (by simp)
      have hleaf' := annotated_get_leaf ha tr.2 n g hleaf
      cases h1 : annotateOne ls acc tr.2 filler with
      | error e => rw [h1] at h; cases h
      | ok t1 =>
        rw [h1] at h
        simp only at h
        obtain ⟨e1, v1, l1⟩ := slash_annotation_one ls acc t1 tr.2 filler h1 (by rw [hleaf']; rfl) hfil0
        rw [selected_annotated ls t2 acc tr.2 n g ha hleaf] at l1
        obtain ⟨e2, v2, l2⟩ := annotateAll_labels ls b t2 rest t1 t3
          (ha.trans (annotateOne_annotated ls acc t1 tr.2 filler h1))
          (fun x hx => htok x (by simp [hx]))
          (fun x hx => by rw [v1]; exact hfil x (by simp [hx])) h
        refine ⟨e2.trans e1, fun p => (v2 p).trans (v1 p), fun p => ?_⟩
        rw [l2 p]
        have hfun : labelAtPath t1 = fun p => if selected ls t2 tr.2 = true then
            slashRound (labelAtPath acc) (tr.2, filler) p else labelAtPath acc p := funext l1
        rw [hfun]
        cases hs : selected ls t2 tr.2 with
        | false => simp [jobsOf, hs]
        | true => simp [jobsOf, hs, hg, slashLabels]

/-! ## C11 clause 9 (ii): the call -/

/-- the (trace, filler) pairs of a call, from the two maps the annotation loop works with (`slashMaps`): every recorded
    trace whose co-index has a filler and whose label is selected, with the first filler of that co-index -/
def slashJobs (ls : List Str) (t2 : Tree) (a : IdxMap TraceRef) (b : IdxMap Path) : List (Path × Path) :=
  jobsOf ls t2 b ((a.filter fun e => b.has e.1).flatMap fun e => e.2.map fun tr => (e.1, tr))

/-- C11 clause 9 (ii).  On well-formed input, when the slash branch succeeds, the result is `t3` minus the traces without
    filler (deleted one after the other by `delete_terminal`), where `t3` is the plain trace deletion `slashTree o t` with
    other labels on its constituents: skeleton equal, and at EVERY storage path the label is the one prescribed by
    `Spec.slashLabels` - the input label, grown once per (trace, filler) pair on whose `Spec.slashPath` the node lies by
    `/` ++ the bare label of the filler (as labelled at that time).  Nothing else is annotated. -/
theorem slash_annotation (o : TraceOpts) (ls : List Str) (t r : Tree) (hN : WF t = true)
    (h : ptbDeleteTracesSlash o (some ls) t = .ok r) :
    ∃ a b t3, slashMaps (slashTree o t) (slashTraces o t) (slashFillers o t) = .ok (a, b) ∧
      r = deleteList t3 (((a.filter fun e => !b.has e.1).flatMap (·.2)).map (·.1)) ∧
      eraseConsLabels t3 = eraseConsLabels (slashTree o t) ∧
      ∀ p, labelAtPath t3 p =
        slashLabels (labelAtPath (slashTree o t)) (slashJobs ls (slashTree o t) a b) p := by
  rw [slash_eq_phase] at h
  have hphase : slashPhase ls (slashTree o t) (slashTraces o t) (slashFillers o t) =
      (match slashMaps (slashTree o t) (slashTraces o t) (slashFillers o t) with
      | .error e => .error e
      | .ok (a, b) =>
        match annotateAll ls b (slashTree o t)
            ((a.filter fun e => b.has e.1).flatMap fun e => e.2.map fun tr => (e.1, tr)) with
        | .error e => .error e
        | .ok t3 => .ok (deleteList t3 (((a.filter fun e => !b.has e.1).flatMap (·.2)).map (·.1)))) := rfl
  rw [hphase] at h
  rcases except_cases (slashMaps (slashTree o t) (slashTraces o t) (slashFillers o t)) with ⟨e, he⟩ | ⟨⟨a, b⟩, hab⟩
  · rw [he] at h; cases h
  · rw [hab] at h
    simp only at h
    rcases except_cases (annotateAll ls b (slashTree o t)
        ((a.filter fun e => b.has e.1).flatMap fun e => e.2.map fun tr => (e.1, tr))) with ⟨e, he⟩ | ⟨t3, h3⟩
    · rw [he] at h; cases h
    · rw [h3] at h
      simp only [Except.ok.injEq] at h
      have hall := slashMaps_forall _ _ _ (fun tr => tr ∈ IdxMap.vals (slashTraces o t))
        (fun f => f ∈ IdxMap.vals (slashFillers o t)) (fun _ h => h) (fun _ h => h) a b hab
      have hb := slashMaps_nonEmpty _ _ _ (nontermIndex_nonEmpty _) a b hab
      obtain ⟨e1, _, l1⟩ := annotateAll_labels ls b (slashTree o t) _ (slashTree o t) t3 (.refl _)
        (by
          intro x hx
          obtain ⟨en, hen, hx⟩ := List.mem_flatMap.1 hx
          obtain ⟨tr, htr, rfl⟩ := List.mem_map.1 hx
          obtain ⟨g, hg⟩ := slashTraces_token o t (Numbered_of_WF t hN) tr
            (hall.1 tr ((mem_vals_iff a tr).2 ⟨en, (List.mem_filter.1 hen).1, htr⟩))
          exact ⟨tr.1, g, hg⟩)
        (by
          intro x hx
          obtain ⟨en, hen, hx⟩ := List.mem_flatMap.1 hx
          obtain ⟨tr, htr, rfl⟩ := List.mem_map.1 hx
          have := slashFillers_node o t _ (hall.2 _ (headD_mem_vals b hb en.1 (List.mem_filter.1 hen).2))
          exact Option.isSome_iff_ne_none.2 this)
        h3
      exact ⟨a, b, t3, hab, h.symm, e1, l1⟩

/-! ## the statement determines the annotated tree: skeleton + labels at every path = the tree -/

theorem labelAtPath_nil (t : Tree) : labelAtPath t [] = t.fields.label := by simp [labelAtPath, get?]

theorem labelAtPath_node_cons (f : Fields) (ks : List Tree) (i : Nat) (p : Path) :
    labelAtPath (node f ks) (i :: p) = match ks[i]? with | some k => labelAtPath k p | none => [] := by
  simp only [labelAtPath, get?]
  cases ks[i]? <;> rfl

mutual
theorem tree_ext_labels : (x y : Tree) → eraseConsLabels x = eraseConsLabels y →
    (∀ p, labelAtPath x p = labelAtPath y p) → x = y
  | leaf _ _, leaf _ _, h, _ => by simpa [eraseConsLabels] using h
  | leaf _ _, node _ _, h, _ => by simp [eraseConsLabels] at h
  | node _ _, leaf _ _, h, _ => by simp [eraseConsLabels] at h
  | node f ks, node g js, h, hl => by
    simp only [eraseConsLabels, node.injEq] at h
    have h0 := hl []
    simp only [labelAtPath_nil, fields] at h0
    have hk := tree_ext_labelsL ks js h.2 (fun (i : Nat) (p : Path) => by
      have := hl (i :: p)
      simpa only [labelAtPath_node_cons] using this)
    have hf : f = g := by
      obtain ⟨h1, _⟩ := h
      cases f; cases g
      simp only [Fields.mk.injEq] at h1 ⊢
      simp only at h0
      exact ⟨h0, h1.2⟩
    rw [hf, hk]
theorem tree_ext_labelsL : (ks js : List Tree) → eraseConsLabelsL ks = eraseConsLabelsL js →
    (∀ (i : Nat) (p : Path), (match ks[i]? with | some k => labelAtPath k p | none => []) =
      (match js[i]? with | some k => labelAtPath k p | none => [])) → ks = js
  | [], [], _, _ => rfl
  | [], _ :: _, h, _ => by simp [eraseConsLabelsL] at h
  | _ :: _, [], h, _ => by simp [eraseConsLabelsL] at h
  | x :: ks, y :: js, h, hl => by
    simp only [eraseConsLabelsL, List.cons.injEq] at h
    have h1 := tree_ext_labels x y h.1 (fun p => by simpa using hl 0 p)
    have h2 := tree_ext_labelsL ks js h.2 (fun i p => by simpa using hl (i + 1) p)
    rw [h1, h2]
end

/-! ## the traces deleted at the end are those of `slash_deleted` (C11Slash2) -/

theorem slashMaps_deleted (o : TraceOpts) (t : Tree) (a : IdxMap TraceRef) (b : IdxMap Path)
    (hab : slashMaps (slashTree o t) (slashTraces o t) (slashFillers o t) = .ok (a, b)) :
    ((a.filter fun e => !b.has e.1).flatMap (·.2)).map (·.1) = slashDeleted o t := by
  unfold slashMaps at hab
  unfold slashDeleted
  have hf : nontermIndex (afterTraces o t) = slashFillers o t := rfl
  simp only [hf]
  split at hab
  · rename_i hc
    rw [if_pos hc]
    have hall := resolveBottomUp_has _ _ _ a b hab
    have hdel : a.filter (fun e => !IdxMap.has b e.1) = [] := by
      rw [List.filter_eq_nil_iff]
      intro e he
      simp [hall e he]
    rw [hdel]; rfl
  · rename_i hc
    rw [if_neg hc]
    simp only [Except.ok.injEq, Prod.mk.injEq] at hab
    obtain ⟨rfl, rfl⟩ := hab
    unfold slashTraces
    exact filter_map_key _ (fun k => !(slashFillers o t).has k) _

/-- C11 clause 9 (i) + (ii) in one: the result is THE tree with the skeleton of the plain trace deletion and the labels
    prescribed by `Spec.slashLabels`, minus the traces `slashDeleted o t` -/
theorem slash_annotation' (o : TraceOpts) (ls : List Str) (t r : Tree) (hN : WF t = true)
    (h : ptbDeleteTracesSlash o (some ls) t = .ok r) :
    ∃ a b t3, slashMaps (slashTree o t) (slashTraces o t) (slashFillers o t) = .ok (a, b) ∧
      r = deleteList t3 (slashDeleted o t) ∧
      eraseConsLabels t3 = eraseConsLabels (slashTree o t) ∧
      (∀ p, labelAtPath t3 p =
        slashLabels (labelAtPath (slashTree o t)) (slashJobs ls (slashTree o t) a b) p) ∧
      ∀ t3', eraseConsLabels t3' = eraseConsLabels (slashTree o t) →
        (∀ p, labelAtPath t3' p =
          slashLabels (labelAtPath (slashTree o t)) (slashJobs ls (slashTree o t) a b) p) → t3' = t3 := by
  obtain ⟨a, b, t3, hab, hr, he, hl⟩ := slash_annotation o ls t r hN h
  refine ⟨a, b, t3, hab, ?_, he, hl, ?_⟩
  · rw [← slashMaps_deleted o t a b hab]; exact hr
  · intro t3' he' hl'
    exact tree_ext_labels t3' t3 (he'.trans he.symm) (fun p => (hl' p).trans (hl p).symm)

/-- when no trace is left without filler, the result IS that tree -/
theorem slash_annotation_nodel (o : TraceOpts) (ls : List Str) (t r : Tree) (hN : WF t = true)
    (h : ptbDeleteTracesSlash o (some ls) t = .ok r) (hd : slashDeleted o t = []) :
    ∃ a b, slashMaps (slashTree o t) (slashTraces o t) (slashFillers o t) = .ok (a, b) ∧
      eraseConsLabels r = eraseConsLabels (slashTree o t) ∧
      ∀ p, labelAtPath r p = slashLabels (labelAtPath (slashTree o t)) (slashJobs ls (slashTree o t) a b) p := by
  obtain ⟨a, b, t3, hab, hr, he, hl, _⟩ := slash_annotation' o ls t r hN h
  rw [hd] at hr
  have : r = t3 := hr
  subst this
  exact ⟨a, b, hab, he, hl⟩

/-- when every co-index has at most one filler the pairs are read off the two recorded maps directly: every recorded trace
    (`slashTraces`) whose co-index is the co-index of a constituent (`slashFillers`, characterised by `nontermIndex_has`,
    C11Slash2) and whose label is selected, with that constituent -/
theorem slash_annotation_unique (o : TraceOpts) (ls : List Str) (t r : Tree) (hN : WF t = true)
    (h : ptbDeleteTracesSlash o (some ls) t = .ok r)
    (hu : (slashFillers o t).any (fun e => e.2.length > 1) = false) :
    ∃ t3, r = deleteList t3 (slashDeleted o t) ∧
      eraseConsLabels t3 = eraseConsLabels (slashTree o t) ∧
      ∀ p, labelAtPath t3 p = slashLabels (labelAtPath (slashTree o t))
        (slashJobs ls (slashTree o t) (slashTraces o t) (slashFillers o t)) p := by
  obtain ⟨a, b, t3, hab, hr, he, hl, _⟩ := slash_annotation' o ls t r hN h
  have : slashMaps (slashTree o t) (slashTraces o t) (slashFillers o t) = .ok (slashTraces o t, slashFillers o t) := by
    unfold slashMaps
    rw [hu]; rfl
  rw [this] at hab
  simp only [Except.ok.injEq, Prod.mk.injEq] at hab
  obtain ⟨rfl, rfl⟩ := hab
  exact ⟨t3, hr, he, hl⟩

example : WF exS = true ∧ (slashFillers { keepall := true } exS).any (fun e => e.2.length > 1) = false ∧
    (ptbDeleteTracesSlash { keepall := true } (some ["*".toList]) exS).toBool = true := by decide

/-! ## `Spec.slashLabels` read as "input label ++ pieces" -/

/-- the pieces the node at `p` receives, in order: one per pair on whose `slashPath` it lies; the piece of a pair is made
    from the filler's label as it is after the earlier pairs -/
def slashPieces (L : Path → Str) : List (Path × Path) → Path → List Str
  | [], _ => []
  | j :: js, p =>
    (if p ∈ slashPath j.1 j.2 then [slashItem (L j.2)] else []) ++ slashPieces (slashRound L j) js p

theorem slashLabels_pieces : ∀ (jobs : List (Path × Path)) (L : Path → Str) (p : Path),
    slashLabels L jobs p = L p ++ (slashPieces L jobs p).flatten
  | [], L, p => by simp [slashLabels, slashPieces]
  | j :: js, L, p => by
    have ih := slashLabels_pieces js (slashRound L j) p
    simp only [slashLabels, List.foldl_cons] at ih ⊢
    rw [ih]
    simp only [slashPieces, slashRound]
    by_cases hp : p ∈ slashPath j.1 j.2 <;> simp [hp]

/-- a node on no `slashPath` keeps its label -/
theorem slashLabels_off (jobs : List (Path × Path)) (L : Path → Str) (p : Path)
    (h : ∀ j ∈ jobs, p ∉ slashPath j.1 j.2) : slashLabels L jobs p = L p := by
  induction jobs generalizing L with
  | nil => rfl
  | cons j js ih =>
    simp only [slashLabels, List.foldl_cons]
    have := ih (slashRound L j) (fun j' hj' => h j' (by simp [hj']))
    simp only [slashLabels] at this
    rw [this]
    simp [slashRound, h j (by simp)]

/-- a filler that lies on no path gives the bare form of its INPUT label as piece, in every round -/
theorem slashPieces_item (jobs : List (Path × Path)) (L : Path → Str) (p : Path) :
    ∀ s ∈ slashPieces L jobs p, ∃ j ∈ jobs, p ∈ slashPath j.1 j.2 ∧
      ∃ js, js <+: jobs ∧ s = slashItem (slashLabels L js j.2) := by
  induction jobs generalizing L with
  | nil => simp [slashPieces]
  | cons j js ih =>
    intro s hs
    simp only [slashPieces, List.mem_append] at hs
    rcases hs with hs | hs
    · by_cases hp : p ∈ slashPath j.1 j.2
      · simp only [hp, ↓reduceIte, List.mem_singleton] at hs
        exact ⟨j, by simp, hp, [], List.nil_prefix, by simpa [slashLabels] using hs⟩
      · simp [hp] at hs
    · obtain ⟨j', hj', hp', js', hpre, hs'⟩ := ih (slashRound L j) s hs
      exact ⟨j', by simp [hj'], hp', j :: js', List.cons_prefix_cons.2 ⟨rfl, hpre⟩, by simpa [slashLabels] using hs'⟩

/-! ## examples (non-vacuity) -/

/-- the paths: trace at `[1,1,1,0]`, filler at `[0]`: the three nodes above the trace below the root; a filler that
    dominates its trace: the nodes strictly between; trace = child of the filler's sister: nothing -/
example : slashPath [1, 1, 1, 0] [0] = [[1], [1, 1], [1, 1, 1]] ∧
    slashPath [0, 1, 2, 0] [0] = [[0, 1], [0, 1, 2]] ∧ slashPath [1, 0] [0] = [[1]] ∧ slashPath [1] [0] = [] ∧
    slashPath [2, 0, 0] [1, 3] = [[2], [2, 0], [1]] := by decide

/-- `slash_annotation_one` on `exS` after the plain deletion: trace `*T*` (token 4) at `[1,1,1,0]`, filler `WHNP` at `[0]` -/
example : let t2 := slashTree { keepall := true } exS
    (t2.get? [1, 1, 1, 0]).isSome = true ∧ (t2.get? [0]).isSome = true ∧
    (annotateOne [] t2 [1, 1, 1, 0] [0]).toBool = true ∧ selected [] t2 [1, 1, 1, 0] = true ∧
    (paths t2).map (slashRound (labelAtPath t2) ([1, 1, 1, 0], [0])) =
      ["S", "WHNP", "WP", "SQ/WHNP", "NP-SBJ", "NN", "VP/WHNP", "VBD", "S/WHNP", "*T*", "VP", "*", "ADVP", "*T*"].map
        String.toList := by decide

/-- `slash_annotation` on `exS` (`keepall`, flag): hypotheses hold, the two pairs, and the prescribed labels are those of
    `exSr` (C11Slash.lean:46) plus the `ADVP` whose trace is deleted at the end -/
example : WF exS = true ∧ (ptbDeleteTracesSlash { keepall := true } (some []) exS).toBool = true ∧
    (match slashMaps (slashTree { keepall := true } exS) (slashTraces { keepall := true } exS)
        (slashFillers { keepall := true } exS) with
      | .ok (a, b) =>
        let t2 := slashTree { keepall := true } exS
        some (slashJobs [] t2 a b, (paths t2).map (slashLabels (labelAtPath t2) (slashJobs [] t2 a b)))
      | .error _ => none) =
      some ([([1, 1, 1, 0], [0]), ([1, 1, 1, 1, 0], [1, 0])],
        ["S", "WHNP", "WP", "SQ/WHNP", "NP-SBJ", "NN", "VP/WHNP/NP", "VBD", "S/WHNP/NP", "*T*", "VP/NP", "*", "ADVP",
            "*T*"].map String.toList) ∧
    slashDeleted { keepall := true } exS = [6] := by decide

/-- with a label list only the selected trace is a pair -/
example : (match slashMaps (slashTree { keepall := true } exS) (slashTraces { keepall := true } exS)
        (slashFillers { keepall := true } exS) with
      | .ok (a, b) => some (slashJobs ["*".toList] (slashTree { keepall := true } exS) a b)
      | .error _ => none) = some [([1, 1, 1, 1, 0], [1, 0])] := by decide

/-- the piece is made from the filler's label AS IT IS AT THAT TIME: `B-2` lies on the path of the first pair (trace `*T*-1`
    below it, filler `A-1`) and is the filler of the second, whose piece is therefore `/B/A` (the Python code answers the
    same labels on this tree) -/
def exN : Tree :=
  node { label := "S".toList } [
    node { label := "A-1".toList } [leaf 1 { label := "NN".toList, word := some "a".toList }],
    node { label := "B-2".toList } [
      node { label := "X".toList } [leaf 2 { label := "-NONE-".toList, word := some "*T*-1".toList }],
      leaf 3 { label := "NN".toList, word := some "b".toList }],
    node { label := "C".toList } [
      node { label := "Y".toList } [leaf 4 { label := "-NONE-".toList, word := some "*-2".toList }]]]

example : WF exN = true ∧
    (match ptbDeleteTracesSlash { keepall := true } (some []) exN with
      | .ok r => consLabels r | .error _ => []) = ["S", "A", "B/A", "X/A", "C/B/A", "Y/B/A"].map String.toList ∧
    (match slashMaps (slashTree { keepall := true } exN) (slashTraces { keepall := true } exN)
        (slashFillers { keepall := true } exN) with
      | .ok (a, b) =>
        let t2 := slashTree { keepall := true } exN
        some (slashJobs [] t2 a b, (paths t2).map (slashLabels (labelAtPath t2) (slashJobs [] t2 a b)),
          slashPieces (labelAtPath t2) (slashJobs [] t2 a b) [2])
      | .error _ => none) =
      some ([([1, 0, 0], [0]), ([2, 0, 0], [1])],
        ["S", "A", "NN", "B/A", "X/A", "*T*", "NN", "C/B/A", "Y/B/A", "*"].map String.toList, ["/B/A".toList]) ∧
    slashDeleted { keepall := true } exN = [] := by decide

end TT.Props.C11Slash5
