/-
  C17, clause 11 continued (wave 15): the parts of a split are files that the reader of the destination format accepts —
  * DISCOBRACKETS (the third reader): `split_parts_readable_disco`, from the file-level round trip of C03Total
    (`readDisco_write_file`, `rd_mapM_write`): every part is read as as many trees as were handed to it, numbered from 1,
    each the written tree as the reader delivers it, and the trees read are written as the very same part again;
  * non-default writer options: see the second half of the file.
-/
import TT.Props.C17More2
import TT.Props.C03Total
import TT.Props.C03Run2
namespace TT.Props.C17More3
open TT TT.Tree TT.Spec TT.Lemmas.Run
open TT.Props.C17More2 (bodyText_cons_inv mapM_getElem?)

/-! ## discobrackets -/

/-- a sentence the discobracket format can represent (the hypotheses of `C03Total.readDisco_write`): well formed, labels
    and words non-empty and free of whitespace and parentheses, no label that the parenthesis replacement would change.
    No continuity requirement. -/
def DiscoGood (t : Tree) : Prop :=
  WF t = true ∧ BracketsOK t = true ∧ ∀ x ∈ t.subtrees, replaceParens x.fields.label = x.fields.label

theorem writeOne_disco_inv (o : OutOpts) (sid : Nat) (t : Tree) (T : Str) (h : writeOne .discobrackets o sid t = .ok T) :
    ∃ s, writeDisco o t = .ok s ∧ T = s ++ ['\n'] := by
  simp only [writeOne] at h
  cases hs : writeDisco o t with
  | error e => rw [hs] at h; cases h
  | ok s =>
    rw [hs] at h
    simp only [Except.map, Except.ok.injEq] at h
    exact ⟨s, rfl, h.symm⟩

/-- the lines of a part -/
theorem disco_lines (o : OutOpts) : ∀ (g : List (Nat × Tree)) (txt : Str), bodyText .discobrackets o g = .ok txt →
    ∃ lines : List Str, lines.length = g.length ∧ txt = (lines.map (· ++ ['\n'])).flatten ∧
      ∀ p ∈ (g.map (·.2)).zip lines, writeDisco o p.1 = .ok p.2
  | [], txt, h => by
    simp only [bodyText_nil, Except.ok.injEq] at h
    subst h
    exact ⟨[], rfl, rfl, by simp⟩
  | p :: g, txt, h => by
    obtain ⟨T, txt', hT, hg', rfl⟩ := bodyText_cons_inv _ _ _ _ _ h
    obtain ⟨lines, hl, rfl, hall⟩ := disco_lines o g txt' hg'
    obtain ⟨s, hs, rfl⟩ := writeOne_disco_inv o p.1 p.2 T hT
    refine ⟨s :: lines, by simp [hl], by simp, ?_⟩
    intro q hq
    simp only [List.map_cons, List.zip_cons_cons, List.mem_cons] at hq
    rcases hq with rfl | hq
    · exact hs
    · exact hall q hq

/-- a group of good sentences written in discobracket format is read back by the discobracket reader: as many trees, numbered
    from 1 (the format has no sentence numbers), each the written tree as the reader delivers it, and written as the very same
    text again -/
theorem disco_group_readable (g : List (Nat × Tree)) (hg : ∀ p ∈ g, DiscoGood p.2) (txt : Str)
    (hw : bodyText .discobrackets {} g = .ok txt) :
    ∃ rs : List Tree, readBrackets { disco := true } txt = .ok ((List.range' 1 g.length).zip rs) ∧ rs.length = g.length ∧
      (∀ (i : Nat) (p : Nat × Tree), g[i]? = some p → ∃ r, rs[i]? = some r ∧ sameTree r (asReadBrackets p.2) = true) ∧
      bodyText .discobrackets {} ((List.range' 1 g.length).zip rs) = .ok txt := by
  obtain ⟨lines, hl, rfl, hall⟩ := disco_lines {} g txt hw
  have hgood : ∀ p ∈ (g.map (·.2)).zip lines, WF p.1 = true ∧ BracketsOK p.1 = true ∧
      (∀ x ∈ p.1.subtrees, replaceParens x.fields.label = x.fields.label) ∧ writeDisco {} p.1 = .ok p.2 := by
    intro p hp
    have hm : p.1 ∈ g.map (·.2) := (List.of_mem_zip hp).1
    obtain ⟨q, hq, hqe⟩ := List.mem_map.1 hm
    obtain ⟨h1, h2, h3⟩ := hg q hq
    rw [hqe] at h1 h2 h3
    exact ⟨h1, h2, h3, hall p hp⟩
  obtain ⟨rs, hread, hrl, hrs⟩ := TT.Props.C03Total.readDisco_write_file (g.map (·.2)) lines (by simpa using hl) hgood
  simp only [List.length_map] at hread hrl
  refine ⟨rs, hread, hrl, ?_, ?_⟩
  · intro i p hp
    have hi : i < g.length := (List.getElem?_eq_some_iff.1 hp).1
    have hir : i < rs.length := by omega
    refine ⟨rs[i], List.getElem?_eq_getElem hir, ?_⟩
    have : (rs[i], p.2) ∈ rs.zip (g.map (·.2)) := by
      rw [List.mem_iff_getElem?]
      refine ⟨i, ?_⟩
      rw [List.getElem?_zip_eq_some]
      simp [hp, hir]
    exact hrs _ this
  · have hm := TT.Props.C03Total.rd_mapM_write rs (g.map (·.2)) lines 1 (by simpa using hrl) (by simpa using hl) hrs
      (fun p hp => ⟨(hgood p hp).1, (hgood p hp).2.2.2⟩)
    simp only [List.length_map] at hm
    unfold bodyText
    rw [hm]
    rfl

/-- DISCOBRACKETS: every part of `transform … --split spec` with discobracket destination is a file the discobracket reader
    accepts; it reads as many trees as were handed to that part (numbered from 1 — the format has no sentence numbers), tree by
    tree what the reader makes of the written tree (same tokens, labels, dominance), and the trees read are written as the same
    part again.  `hgood`: the surviving trees are well formed, representable, no label with a parenthesis to replace; they may
    be discontinuous. -/
theorem split_parts_readable_disco (steps : List Step) (enc : Option Str) (spec : Str)
    (ts ts' : List (Nat × Tree)) (sizes : List Nat) (parts : List Str)
    (ht : transformAll steps ts = .ok ts') (hs : parseSplitSpec spec ts'.length = .ok sizes)
    (hp : runSplitFrom steps .discobrackets {} enc spec (.ok ts) = .ok parts) (hgood : ∀ p ∈ ts', DiscoGood p.2) :
    ∃ groups : List (List (Nat × Tree)), groups.flatten = ts' ∧ groups.map List.length = sizes ∧ parts.length = groups.length ∧
      ∀ (i : Nat) (part : Str), parts[i]? = some part →
        ∃ g rs, groups[i]? = some g ∧
          readBrackets { disco := true } part = .ok ((List.range' 1 g.length).zip rs) ∧ rs.length = g.length ∧
          (∀ (j : Nat) (p : Nat × Tree), g[j]? = some p → ∃ r, rs[j]? = some r ∧ sameTree r (asReadBrackets p.2) = true) ∧
          writeAll .discobrackets {} enc ((List.range' 1 g.length).zip rs) = .ok part := by
  obtain ⟨groups, hfl, hlen, hm⟩ := TT.Props.C17Run.split_part_trees steps .discobrackets {} enc spec ts ts' sizes parts ht hs hp
  refine ⟨groups, hfl, hlen, mapM_length _ _ _ hm, ?_⟩
  intro i part hpart
  obtain ⟨g, hg, hw⟩ := mapM_getElem? _ _ _ hm i part hpart
  rw [writeAll_plain .discobrackets {} enc g (by decide)] at hw
  have hgg : ∀ p ∈ g, DiscoGood p.2 := fun p hp => hgood p (by
    rw [← hfl]; exact List.mem_flatten.2 ⟨g, List.mem_of_getElem? hg, hp⟩)
  obtain ⟨rs, hr, hrl, hpt, hwr⟩ := disco_group_readable g hgg part hw
  exact ⟨g, rs, hg, hr, hrl, hpt, by rw [writeAll_plain .discobrackets {} enc _ (by decide)]; exact hwr⟩

/-! ## export, four-column-pair layout (`--dest-opts export_four`), and every writer option set without label decoration -/

/-- a sentence the export format can represent under the options `o` and the reader can tell apart from its frame lines, plus
    what the four-column layout needs: no edge label below the root is all digits (the reader tells the two layouts apart by the
    fifth column being a number) — the hypotheses of `C03Run2.writeExport_readback4` -/
def ExportGood4 (o : OutOpts) (t : Tree) : Prop :=
  WF t = true ∧ ExportOK o t = true ∧ t.leafNums.length < 500 ∧
  (∀ s ∈ t.subtrees, s.isLeaf = true → "#EOS".toList.isPrefixOf (s.fields.word.getD []) = false) ∧
  ∀ k ∈ t.kids, ∀ s ∈ k.subtrees, pyIsDigit (s.fields.edge.getD DEFAULT_EDGE) = false

open TT.Lemmas.ExportRT TT.Lemmas.WF TT.Lemmas.More8 in
/-- the lines the writer produces, for any writer options: the frame around body lines the reader's loop passes over -/
theorem written_linesO (o : OutOpts) (sid : Nat) (t : Tree) (ls : List Str) (h : writeExport o sid t = .ok ls)
    (hwf : WF t = true) (hok : ExportOK o t = true)
    (hE : ∀ s ∈ t.subtrees, s.isLeaf = true → "#EOS".toList.isPrefixOf (s.fields.word.getD []) = false) :
    ∃ body, ls = ["#BOS ".toList ++ natToStr sid] ++ body ++ ["#EOS ".toList ++ natToStr sid] ∧
      ∀ l ∈ body, '\n' ∉ l ∧ TT.Lemmas.ExportRT.strip l = l ∧ "#EOS".toList.isPrefixOf l = false := by
  have hne := WF_noEmpty t hwf
  obtain ⟨hls, hlines⟩ := writeExport_shape o sid t ls h
  refine ⟨(tokPaths t ++ consPaths t).map (lineAt o t), by rw [hls, List.map_append]; simp, ?_⟩
  intro l hl
  obtain ⟨p, hp, rfl⟩ := List.mem_map.1 hl
  obtain ⟨hp1, hp2⟩ := (mem_tok_cons t p).1 hp
  obtain ⟨l', hl'⟩ := hlines p ((mem_nonRoot t p).2 ⟨hp1, hp2⟩)
  refine lineAt_loop_okO o t p l' hne hok hp1 hl' ?_
  unfold wordOf
  split
  · rename_i hk
    rw [kids_isEmpty_eq_isLeaf _ (noEmpty_subAt t p hne hp1)] at hk
    exact hE _ (mem_subtrees_subAt t p hp1) hk
  · exact eos_not_prefix_hash _

theorem bodyText_singleO (o : OutOpts) (sid : Nat) (t : Tree) (ls : List Str) (h : writeExport o sid t = .ok ls) :
    bodyText .export o [(sid, t)] = .ok ((ls.map (· ++ ['\n'])).flatten) := by
  simp [bodyText, writeOne, h, bind, Except.bind, pure, Except.pure, Except.map]

open TT.Props.C17More2 (text_of_lines complete_frame readExport_nil) in
open TT.Lemmas.Proc TT.Props.C18 in
/-- a group of good sentences written in the four-column export layout (any options without label decoration) is read back by the
    export reader (default options: it recognises the layout line by line): the same sentence numbers in the same order, and trees
    that are written as the very same text again -/
theorem export4_group_readable (o : OutOpts) (ho : PlainOpts o) (ho4 : o.exportFour = true) :
    ∀ (g : List (Nat × Tree)), (∀ p ∈ g, ExportGood4 o p.2) → ∀ txt, bodyText .export o g = .ok txt →
    ∃ rs, readExport {} txt = .ok rs ∧ rs.map (·.1) = g.map (·.1) ∧ bodyText .export o rs = .ok txt
  | [], _, txt, h => by
    simp only [bodyText_nil, Except.ok.injEq] at h
    subst h
    exact ⟨[], readExport_nil, rfl, rfl⟩
  | (sid, t) :: g, hg, txt, h => by
    obtain ⟨T, txt', hT, hg', rfl⟩ := bodyText_cons_inv _ _ _ _ _ h
    obtain ⟨rs', hr', hids, hw'⟩ := export4_group_readable o ho ho4 g (fun p hp => hg p (by simp [hp])) txt' hg'
    obtain ⟨hwf, hok, hN, hE, h4⟩ := hg (sid, t) (by simp)
    simp only [writeOne] at hT
    cases hls : writeExport o sid t with
    | error e => rw [hls] at hT; cases hT
    | ok ls =>
      rw [hls] at hT
      simp only [Except.map, Except.ok.injEq] at hT
      subst hT
      obtain ⟨body, hshape, hbody⟩ := written_linesO o sid t ls hls hwf hok hE
      obtain ⟨r, hr, hwr⟩ := TT.Props.C03Run2.writeExport_readback4 o ho ho4 sid t ls hls hwf hok hN hE h4
      have hnl : ∀ l ∈ ls, '\n' ∉ l := by
        intro l hl
        rw [hshape] at hl
        simp only [List.mem_append, List.mem_singleton] at hl
        rcases hl with (rfl | hl) | rfl
        · exact (TT.Lemmas.ExportRT.frame_line_ok _ sid (Or.inl TT.Lemmas.Write.bos_eq)).1
        · exact (hbody l hl).1
        · exact (TT.Lemmas.ExportRT.frame_line_ok _ sid (Or.inr TT.Lemmas.Write.eos_eq)).1
      obtain ⟨a, ha, hla⟩ := text_of_lines ls (by rw [hshape]; simp) hnl
      have hcomp : Complete (lines a) := by
        rw [hla, hshape]; exact complete_frame sid body (fun l hl => (hbody l hl).2)
      refine ⟨(sid, r) :: rs', ?_, by simp [hids], ?_⟩
      · rw [ha, readExport_append_nl {} a txt' hcomp, ← ha, hr, hr']
        have hf : ∀ k, renum {} k = id := by intro k; funext p; simp [renum]
        simp [hf]
      · exact bodyText_append_ok .export o [(sid, r)] rs' _ _ (bodyText_singleO o sid r ls hwr) hw'

/-- EXPORT, `export_four`: every part of `transform … --split spec --dest-opts export_four` is an export file the export reader
    accepts; it reads exactly the sentence numbers of the trees handed to that part, in order, and the trees read are written
    (same options) as the same part again.  `o`: any writer options with `export_four` and without label decoration. -/
theorem split_parts_readable_export4 (o : OutOpts) (ho : PlainOpts o) (ho4 : o.exportFour = true)
    (steps : List Step) (enc : Option Str) (spec : Str)
    (ts ts' : List (Nat × Tree)) (sizes : List Nat) (parts : List Str)
    (ht : transformAll steps ts = .ok ts') (hs : parseSplitSpec spec ts'.length = .ok sizes)
    (hp : runSplitFrom steps .export o enc spec (.ok ts) = .ok parts) (hgood : ∀ p ∈ ts', ExportGood4 o p.2) :
    ∃ groups : List (List (Nat × Tree)), groups.flatten = ts' ∧ groups.map List.length = sizes ∧ parts.length = groups.length ∧
      ∀ (i : Nat) (part : Str), parts[i]? = some part →
        ∃ g rs, groups[i]? = some g ∧ readExport {} part = .ok rs ∧ rs.map (·.1) = g.map (·.1) ∧
          writeAll .export o enc rs = .ok part := by
  obtain ⟨groups, hfl, hlen, hm⟩ := TT.Props.C17Run.split_part_trees steps .export o enc spec ts ts' sizes parts ht hs hp
  refine ⟨groups, hfl, hlen, mapM_length _ _ _ hm, ?_⟩
  intro i part hpart
  obtain ⟨g, hg, hw⟩ := mapM_getElem? _ _ _ hm i part hpart
  rw [writeAll_plain .export o enc g (by decide)] at hw
  have hgg : ∀ p ∈ g, ExportGood4 o p.2 := fun p hp => hgood p (by
    rw [← hfl]; exact List.mem_flatten.2 ⟨g, List.mem_of_getElem? hg, hp⟩)
  obtain ⟨rs, hr, hids, hwr⟩ := export4_group_readable o ho ho4 g hgg part hw
  exact ⟨g, rs, hg, hr, hids, by rw [writeAll_plain .export o enc rs (by decide)]; exact hwr⟩

/-! ### concrete instances -/

/-- discobrackets: the discontinuous tree of C02 and the tree `exRd` of C03Total (square brackets in a word, children stored
    out of order), one per part -/
def exSrcD : List (Nat × Tree) := [(4, TT.Props.C02.exDisc), (9, TT.Props.C03Total.exRd), (11, TT.Props.C02.exDisc)]

theorem exDisc_good : DiscoGood TT.Props.C02.exDisc := ⟨by decide +kernel, by decide +kernel, by decide +kernel⟩
theorem exRd_good : DiscoGood TT.Props.C03Total.exRd := ⟨by decide +kernel, by decide +kernel, by decide +kernel⟩

example : ∃ parts, runSplitFrom [] .discobrackets {} none "1#_rest".toList (.ok exSrcD) = .ok parts ∧ parts.length = 2 ∧
    ∀ (i : Nat) (part : Str), parts[i]? = some part →
      ∃ rs, readBrackets { disco := true } part = .ok rs ∧ writeAll .discobrackets {} none rs = .ok part := by
  have hp : runSplitFrom [] .discobrackets {} none "1#_rest".toList (.ok exSrcD) =
      .ok ["(S(VP(A 1)(C 3))(B 2))\ta b c\n".toList,
           "(S(VP(A 1)(D 4))(B 2)(C 3))\t2 b 7 [d]\n(S(VP(A 1)(C 3))(B 2))\ta b c\n".toList] := by decide +kernel
  obtain ⟨groups, _, _, _, h⟩ := split_parts_readable_disco [] none "1#_rest".toList exSrcD exSrcD [1, 2] _
    (transformAll_nil_steps _) (by decide +kernel) hp (by
      intro p hp
      simp only [exSrcD, List.mem_cons, List.not_mem_nil, or_false] at hp
      rcases hp with rfl | rfl | rfl
      · exact exDisc_good
      · exact exRd_good
      · exact exDisc_good)
  refine ⟨_, hp, rfl, fun i part hpart => ?_⟩
  obtain ⟨g, rs, _, hr, _, _, hw⟩ := h i part hpart
  exact ⟨_, hr, hw⟩

/-- export with `export_four`: three copies of `exFull` of C03Run2 (optional keys of every kind, all-digit lemmas) -/
def exSrc4 : List (Nat × Tree) := [(3, TT.Props.C03Run2.exFull), (5, TT.Props.C03Run2.exFull), (8, TT.Props.C03Run2.exFull)]

theorem exFull_good : ExportGood4 { exportFour := true } TT.Props.C03Run2.exFull :=
  ⟨TT.Props.C03Run2.exFull_WF, TT.Props.C03Run2.exFull_ok, by decide +kernel, by decide +kernel, TT.Props.C03Run2.exFull_h4⟩

theorem ex4_split : ∃ parts, runSplitFrom [] .export { exportFour := true } none "rest_1#".toList (.ok exSrc4) = .ok parts ∧
    parts.length = 2 := by
  refine ⟨_, rfl, ?_⟩
  decide +kernel

example : ∃ parts, runSplitFrom [] .export { exportFour := true } none "rest_1#".toList (.ok exSrc4) = .ok parts ∧
    ∀ (i : Nat) (part : Str), parts[i]? = some part →
      ∃ rs, readExport {} part = .ok rs ∧ writeAll .export { exportFour := true } none rs = .ok part := by
  obtain ⟨parts, hp, _⟩ := ex4_split
  obtain ⟨groups, _, _, _, h⟩ := split_parts_readable_export4 { exportFour := true } ⟨rfl, rfl, rfl, rfl⟩ rfl [] none
    "rest_1#".toList exSrc4 exSrc4 [2, 1] parts (transformAll_nil_steps _) (by decide +kernel) hp (by
      intro p hp
      simp only [exSrc4, List.mem_cons, List.not_mem_nil, or_false] at hp
      rcases hp with rfl | rfl | rfl <;> exact exFull_good)
  refine ⟨parts, hp, fun i part hpart => ?_⟩
  obtain ⟨g, rs, _, hr, _, hw⟩ := h i part hpart
  exact ⟨rs, hr, hw⟩

end TT.Props.C17More3
