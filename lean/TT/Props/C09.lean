/-
  C09 — (theorems being added)
-/
import TT.Spec.Grammar
namespace TT.Props.C09
open TT TT.Tree TT.Spec

end TT.Props.C09
