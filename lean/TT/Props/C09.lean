/-
  C09 — grammar files decode to the grammar in memory: the LoPar writer refuses exactly the
  non-context-free grammars; lexical rules embedded by `lex_in_grammar`; decimal rendering and
  whitespace splitting round trips; lexicon file, LoPar grammar file, LoPar start file and PMCFG
  file decode (by the independent decoders of `TT/Spec/Grammar.lean`) to the grammar in memory.
  Helper lemmas: TT/Lemmas/GramOut.lean.
-/
import TT.Spec.Grammar
import TT.Lemmas.GramOut
namespace TT.Props.C09
open TT TT.Tree TT.Spec
open TT.Lemmas.GramOut

/-! ## a small concrete grammar: `S -> VP2 NP` with a fan-out 2 `VP2`, and a lexicon with an ambiguous
    capitalised word -/

def exG : Grammar :=
  [(["S".toList, "VP".toList, "NP".toList], [([[(0, 0), (1, 0), (0, 1)]], [(VertKey.default, 3)])]),
   (["VP".toList, "V".toList, "PTK".toList], [([[(0, 0)], [(1, 0)]], [(VertKey.ctx ["S1".toList], 2), (VertKey.default, 1)])])]

/-- the context-free part of it -/
def exCF : Grammar :=
  [(["S".toList, "NP".toList, "VP".toList], [([[(0, 0), (1, 0)]], [(VertKey.default, 3)])]),
   (["NP".toList, "N".toList], [([[(0, 0)]], [(VertKey.ctx ["S1".toList], 2), (VertKey.default, 1)])]),
   (["VP".toList, "V".toList], [([[(0, 0)]], [(VertKey.default, 3)])])]

def exLex : Lexicon :=
  [("Essen".toList, [("NN".toList, 2), ("NE".toList, 1)]), ("isst".toList, [("VVFIN".toList, 4)])]

/-! ## the LoPar writer refuses exactly the grammars that are not context-free -/

/-- the LoPar writer refuses exactly the grammars that are not context-free -/
theorem lopar_refuses_iff (g : Grammar) (lex : Lexicon) :
    (∃ e, writeLopar g lex = .error e) ↔ isContextFree g = false := by
  unfold writeLopar
  cases h : isContextFree g <;> simp

example : isContextFree exG = false := by decide
example : ∃ e, writeLopar exG exLex = .error e := (lopar_refuses_iff exG exLex).2 (by decide)
example : isContextFree exCF = true := by decide

/-! ## lexical rules embedded in the grammar -/

/-- general form: the count of `tag -> word` grows by the lexicon count, whatever was there -/
theorem addLexRules_count_add (g : Grammar) (lex : Lexicon) (w t : Str)
    (hnd : (lex.map (·.1)).Nodup) (hnd2 : ∀ e ∈ lex, (e.2.map (·.1)).Nodup) :
    gramCount (addLexRules g lex) [t, w] [[(0, 0)]] .default =
      gramCount g [t, w] [[(0, 0)]] .default + lexCount lex w t := by
  rw [gramCount_addLexRules, lexTotal_eq_lexCount lex w t hnd hnd2]
  simp

/-- lexical rules embedded in the grammar: each (word, tag) pair contributes its count to the rule tag -> word -/
theorem addLexRules_count (g : Grammar) (lex : Lexicon) (w t : Str)
    (hfresh : ∀ e ∈ g, e.1 ≠ [t, w]) (hnd : (lex.map (·.1)).Nodup) (hnd2 : ∀ e ∈ lex, (e.2.map (·.1)).Nodup) :
    gramCount (addLexRules g lex) [t, w] [[(0, 0)]] .default = lexCount lex w t := by
  rw [addLexRules_count_add g lex w t hnd hnd2]
  have : AList.get? [t, w] g = none := by
    apply get?_eq_none_of_not_mem
    intro hm
    obtain ⟨e, he, he'⟩ := List.mem_map.1 hm
    exact hfresh e he he'
  simp [gramCount, this]

example : gramCount (addLexRules exG exLex) ["NE".toList, "Essen".toList] [[(0, 0)]] .default = 1 := by decide
example : (∀ e ∈ exG, e.1 ≠ ["NE".toList, "Essen".toList]) ∧ (exLex.map (·.1)).Nodup ∧
    ∀ e ∈ exLex, (e.2.map (·.1)).Nodup := by decide

/-- The statement of `addLexRules_keeps` as given (without the two `Nodup` hypotheses) is FALSE on
    association lists that are not dictionaries: `lexCount` only sees the first entry of a key, the
    writer adds all of them. Counterexample: a repeated tag whose first count is `0`. -/
def cexLex : Lexicon := [("w".toList, [("T".toList, 0), ("T".toList, 5)])]

theorem addLexRules_keeps_false :
    ¬ ∀ (g : Grammar) (lex : Lexicon) (f : Func) (l : Lin) (v : VertKey),
      (∀ w t, f ≠ [t, w] ∨ lexCount lex w t = 0) → gramCount (addLexRules g lex) f l v = gramCount g f l v := by
  intro h
  have h1 := h [] cexLex ["T".toList, "w".toList] [[(0, 0)]] .default (by
    intro w t
    by_cases e : ["T".toList, "w".toList] = [t, w]
    · right
      simp only [List.cons.injEq, and_true] at e
      obtain ⟨rfl, rfl⟩ := e
      decide
    · left; exact e)
  revert h1
  decide

/-- both `Nodup` hypotheses are needed: a repeated word hides its later tags from `lexCount` as well -/
example : lexCount [("w".toList, []), ("w".toList, [("T".toList, 5)])] "w".toList "T".toList = 0 ∧
    gramCount (addLexRules [] [("w".toList, []), ("w".toList, [("T".toList, 5)])])
      ["T".toList, "w".toList] [[(0, 0)]] .default = 5 := by decide
example : lexCount cexLex "w".toList "T".toList = 0 ∧
    gramCount (addLexRules [] cexLex) ["T".toList, "w".toList] [[(0, 0)]] .default = 5 := by decide

/-- corrected version: with the lexicon a dictionary (keys distinct, as in Python) every other entry keeps its count -/
theorem addLexRules_keeps (g : Grammar) (lex : Lexicon) (f : Func) (l : Lin) (v : VertKey)
    (hnd : (lex.map (·.1)).Nodup) (hnd2 : ∀ e ∈ lex, (e.2.map (·.1)).Nodup)
    (h : ∀ w t, f ≠ [t, w] ∨ lexCount lex w t = 0) : gramCount (addLexRules g lex) f l v = gramCount g f l v := by
  rw [gramCount_addLexRules]
  by_cases hf : ∃ w t, f = [t, w]
  · obtain ⟨w, t, rfl⟩ := hf
    rw [lexTotal_eq_lexCount lex w t hnd hnd2]
    rcases h w t with h | h
    · exact absurd rfl h
    · simp [h]
  · rw [lexTotal_not_pair lex f (fun w t e => hf ⟨w, t, e⟩)]
    simp

/-- without any hypothesis on the lexicon: entries other than `tag -> word` rules keep their count -/
theorem addLexRules_keeps_other (g : Grammar) (lex : Lexicon) (f : Func) (l : Lin) (v : VertKey)
    (h : l ≠ [[(0, 0)]] ∨ v ≠ .default ∨ ∀ w t, f ≠ [t, w]) :
    gramCount (addLexRules g lex) f l v = gramCount g f l v := by
  rw [gramCount_addLexRules]
  rcases h with h | h | h
  · have : ¬ ([[((0 : Int), 0)]] = l ∧ VertKey.default = v) := fun e => h e.1.symm
    simp [this]
  · have : ¬ ([[((0 : Int), 0)]] = l ∧ VertKey.default = v) := fun e => h e.2.symm
    simp [this]
  · simp [lexTotal_not_pair lex f h]

example : gramCount (addLexRules exG exLex) ["S".toList, "VP".toList, "NP".toList] [[(0, 0), (1, 0), (0, 1)]] .default = 3 := by
  decide

/-! ## string-level round trips -/

/-- decimal rendering round trip -/
theorem strToNat_natToStr (n : Nat) : strToNat? (natToStr n) = some n :=
  TT.Lemmas.GramOut.strToNat_natToStr n

example : strToNat? (natToStr 2026) = some 2026 := by decide

/-- splitting a space-joined list of whitespace-free, non-empty fields gives the fields back -/
theorem splitWs_unwords (l : List Str) (h : ∀ s ∈ l, s ≠ [] ∧ ∀ c ∈ s, pyIsSpace c = false) : splitWs (unwords l) = l :=
  TT.Lemmas.GramOut.splitWs_unwords l h

example : splitWs (unwords ["VP".toList, "V".toList, "PTK".toList]) = ["VP".toList, "V".toList, "PTK".toList] := by decide
example : ∀ s ∈ ["VP".toList, "V".toList, "PTK".toList], s ≠ [] ∧ ∀ c ∈ s, pyIsSpace c = false := by decide

/-- lexicon file round trip (words and tags non-empty and whitespace-free, every word has a tag) -/
theorem decLex_lexLines (lex : Lexicon)
    (h : ∀ e ∈ lex, e.1 ≠ [] ∧ (∀ c ∈ e.1, pyIsSpace c = false) ∧ e.2 ≠ [] ∧
         ∀ tc ∈ e.2, tc.1 ≠ [] ∧ ∀ c ∈ tc.1, pyIsSpace c = false)
    (hnd : (lex.map (·.1)).Nodup) (hnd2 : ∀ e ∈ lex, (e.2.map (·.1)).Nodup) :
    decLex (lexLines lex) = some lex := by
  rw [decLex_eq, foldlM_lexLines [] lex (fun e he => ⟨(h e he).2.1, (h e he).2.2.2⟩),
    foldl_add_lex [] lex (by simpa using hnd) (fun e he => (h e he).2.2.1) hnd2]
  simp

example : decLex (lexLines exLex) = some exLex := by decide
example : lexLines exLex = ["Essen\tNN 2 NE 1".toList, "isst\tVVFIN 4".toList] := by decide

/-! ## LoPar files -/

/-- LoPar grammar file round trip -/
theorem decLoparGram_write (g : Grammar) (lex : Lexicon) (files : LoparFiles) (h : writeLopar g lex = .ok files)
    (hl : ∀ e ∈ g, e.1 ≠ [] ∧ ∀ s ∈ e.1, s ≠ [] ∧ ∀ c ∈ s, pyIsSpace c = false) :
    decLoparGram files.gram = some (g.rules.map fun (f, _, c) => (f, c)) := by
  rw [writeLopar_gram g lex files h]
  unfold decLoparGram
  apply mapM_option_map
  rintro ⟨f, l, c⟩ hr
  obtain ⟨e, he, hef⟩ := mem_rules_func g _ hr
  simp only at hef
  subst hef
  obtain ⟨hne, hs⟩ := hl e he
  cases hf : e.1 with
  | nil => exact absurd hf hne
  | cons a r =>
    rw [hf] at hs
    simp only [List.head?_cons, Option.getD_some, List.drop_succ_cons, List.drop_zero]
    rw [List.append_assoc, List.append_assoc,
      splitWs_word_sp _ _ ⟨natToStr_ne_nil c, natToStr_noSpace c⟩,
      ← List.append_assoc, splitWs_cons_unwords a r (hs a (by simp)) (fun s h' => hs s (by simp [h']))]
    simp [TT.Lemmas.GramOut.strToNat_natToStr]

/-- the lexicon file written by the LoPar writer decodes to the lexicon -/
theorem decLex_lopar (g : Grammar) (lex : Lexicon) (files : LoparFiles) (h : writeLopar g lex = .ok files)
    (hx : ∀ e ∈ lex, e.1 ≠ [] ∧ (∀ c ∈ e.1, pyIsSpace c = false) ∧ e.2 ≠ [] ∧
         ∀ tc ∈ e.2, tc.1 ≠ [] ∧ ∀ c ∈ tc.1, pyIsSpace c = false)
    (hnd : (lex.map (·.1)).Nodup) (hnd2 : ∀ e ∈ lex, (e.2.map (·.1)).Nodup) :
    decLex files.lex = some lex := by
  rw [writeLopar_lex g lex files h]
  exact decLex_lexLines lex hx hnd hnd2

/-- start symbols: exactly the LHS labels that never occur on an RHS, with their summed counts -/
theorem lopar_start (g : Grammar) (lex : Lexicon) (files : LoparFiles) (h : writeLopar g lex = .ok files) :
    files.start = (((g.map fun (f, _) => f.head?.getD []).eraseDups.filter fun s => !(g.flatMap fun (f, _) => f.drop 1).contains s).map
      fun s => s ++ sp ++ natToStr (lhsMass g s)) := by
  unfold writeLopar at h
  split at h
  · cases h
  · simp only at h
    cases h
    simp only [List.map_map]
    rfl

/-- the files written for the context-free example grammar -/
def exFiles : LoparFiles :=
  { gram := ["3 S NP VP".toList, "3 NP N".toList, "3 VP V".toList],
    lex := ["Essen\tNN 2 NE 1".toList, "isst\tVVFIN 4".toList],
    start := ["S 3".toList],
    oc := ["VVFIN 4".toList],
    ocU := ["NN 2".toList, "NE 1".toList] }

example : (match writeLopar exCF exLex with
    | .ok f => (f.gram, f.lex, f.start, f.oc, f.ocU) == (exFiles.gram, exFiles.lex, exFiles.start, exFiles.oc, exFiles.ocU)
    | .error _ => false) = true := by decide
example : ∀ e ∈ exCF, e.1 ≠ [] ∧ ∀ s ∈ e.1, s ≠ [] ∧ ∀ c ∈ s, pyIsSpace c = false := by decide
example : decLoparGram exFiles.gram = some (exCF.rules.map fun (f, _, c) => (f, c)) := by decide
example : decCountLines exFiles.start = some [("S".toList, 3)] := by decide
/-- a rule without RHS elements is written with a trailing blank and still decodes -/
example : decLoparGram ["7 X ".toList] = some [(["X".toList], 7)] := by decide

/-! ## PMCFG file -/

/-- PMCFG round trip; the hypothesis that arguments are non-empty is not needed -/
theorem decPmcfg_write' (g : Grammar) (lex : Lexicon)
    (hl : ∀ e ∈ g, e.1 ≠ [] ∧ ∀ s ∈ e.1, s ≠ [] ∧ ∀ c ∈ s, pyIsSpace c = false)
    (hlin : ∀ e ∈ g, ∀ le ∈ e.2, ∀ arg ∈ le.1, ∀ v ∈ arg, 0 ≤ v.1) :
    decPmcfg (writePmcfg false g lex).1 = some g.rules := by
  apply decPmcfg_writePmcfg
  · intro r hr
    obtain ⟨e, he, le, _, h1, _⟩ := mem_rules g r hr
    rw [h1]
    exact hl e he
  · intro r hr ld hld
    obtain ⟨e, he, le, hle, _, h2⟩ := mem_rules g r hr
    rw [h2] at hld
    exact hlin e he le hle ld hld

/-- stretch: PMCFG and RCG round trips (labels non-empty, whitespace-free, no parentheses / trailing digit for RCG) -/
theorem decPmcfg_write (g : Grammar) (lex : Lexicon)
    (hl : ∀ e ∈ g, e.1 ≠ [] ∧ ∀ s ∈ e.1, s ≠ [] ∧ ∀ c ∈ s, pyIsSpace c = false)
    (hlin : ∀ e ∈ g, ∀ le ∈ e.2, ∀ arg ∈ le.1, arg ≠ [] ∧ ∀ v ∈ arg, 0 ≤ v.1) :
    decPmcfg (writePmcfg false g lex).1 = some g.rules :=
  decPmcfg_write' g lex hl (fun e he le hle arg harg => (hlin e he le hle arg harg).2)

example : (writePmcfg false exG exLex).1 =
    [" fun1 : S <- VP NP".toList, " fun1 = s1".toList, " fun1 3".toList,
     " fun2 : VP <- V PTK".toList, " fun2 = s2 s3".toList, " fun2 3".toList,
     " s1 -> 0:0 1:0 0:1".toList, " s2 -> 0:0".toList, " s3 -> 1:0".toList] := by decide
example : decPmcfg (writePmcfg false exG exLex).1 = some exG.rules := by rfl
example : decPmcfg (writePmcfg false exG exLex).1 = some exG.rules :=
  decPmcfg_write exG exLex (by decide) (by decide)
example : (∀ e ∈ exG, e.1 ≠ [] ∧ ∀ s ∈ e.1, s ≠ [] ∧ ∀ c ∈ s, pyIsSpace c = false) ∧
    (∀ e ∈ exG, ∀ le ∈ e.2, ∀ arg ∈ le.1, arg ≠ [] ∧ ∀ v ∈ arg, 0 ≤ v.1) := by decide
/-- labels that look like PMCFG syntax or like generated names do not confuse the decoder
    (they sit at fixed token positions), nor does a rule without RHS, an empty linearization or a shared sequence -/
def exOdd : Grammar :=
  [([":".toList, "->".toList, "=".toList, "fun1".toList, "s1".toList],
     [([], [(VertKey.default, 3)]), ([[(0, 0)], [(0, 0)], [(1, 0)]], [(VertKey.default, 2)])]),
   (["fun1".toList], [([[(0, 0)], [(1, 0)]], [(VertKey.default, 7)])])]
example : decPmcfg (writePmcfg false exOdd exLex).1 = some exOdd.rules := by rfl

/-
  Status of the statements of the brief
  * proved exactly as stated: `lopar_refuses_iff`, `addLexRules_count`, `strToNat_natToStr`, `splitWs_unwords`,
    `decLex_lexLines`, `decLoparGram_write`, `lopar_start`, `decPmcfg_write` (its hypothesis `arg ≠ []` is not
    used: `decPmcfg_write'`; no side condition on labels equal to ":", "<-", "->", "=" or on rules without RHS is
    needed, the decoder looks at fixed token positions: `exOdd`).
  * `addLexRules_keeps` as stated is false for association lists with a repeated word or a repeated tag
    (`addLexRules_keeps_false`, counterexample `cexLex`); it is proved with the two `Nodup` hypotheses of
    `addLexRules_count` added (Python dicts always satisfy them); `addLexRules_keeps_other` needs no hypothesis
    on the lexicon.
  * not covered here: the RCG writer/reader pair (`rcgLine` / `readRcgLine`), for which the brief gives no statement.
-/

end TT.Props.C09
