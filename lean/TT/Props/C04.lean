/-
  C04 — structural transformations preserve the sentence and tree well-formedness,
  alone or in any sequence (see tools/agent_briefs/C04.md).

  Every per-step statement is a corollary of ONE invariant proved per step in `TT/Lemmas/Steps.lean`:
  `StepInv t t'`  (tokens keep number and word, no childless constituent appears; all 12 steps) and
  `StepInvS t t'` (also the POS tags are kept and a constituent stays a constituent; the 10 steps
  that do not collapse).  The invariants are folded over the list of steps for the sequence theorems.
-/
import TT.Spec.Transform
import TT.Spec.Steps
import TT.Transform.Misc
import TT.Lemmas.Steps
namespace TT.Props.C04
open TT TT.Tree TT.Spec
open TT.Lemmas.Steps

/-! ### example trees -/

private def lf (n : Nat) (l w : String) (e : String := "--") (h : Option Bool := none) : Tree :=
  leaf n { label := l.toList, word := some w.toList, edge := some e.toList, head := h }
private def nd (l : String) (ks : List Tree) (e : String := "--") (h : Option Bool := none) : Tree :=
  node { label := l.toList, edge := some e.toList, head := h } ks

/-- `(S (VP (PP (A 1)) (B 3) (V 4)) (C 2) (. 5))`: discontinuous `VP` (token 2 is outside), a unary
    `PP`, final punctuation below the root; storage order shuffled; heads marked (`V`, `VP`). -/
def exT : Tree :=
  nd "S" [lf 5 "$." ".", nd "VP" [lf 4 "V" "v" "HD" (some true), nd "PP" [lf 1 "A" "a" "HD" (some true)] "MO" (some false),
     lf 3 "B" "b" "OA" (some false)] "HD" (some true), lf 2 "C" "c" "SB" (some false)] "--" (some false)

/-- a long sequence of steps without collapsing -/
def exSteps : List TStep :=
  [.rootAttach, .negra, .rules .negra, .boyd, .raising, .binarize false, .verylow, .proot, .sym none, .topnode]

/-- a sequence with collapsing and uncollapsing in the middle -/
def exStepsC : List TStep :=
  [.negra, .boyd, .raising, .binarize true, .collapse, .verylow, .proot, .uncollapse, .sym none, .collapse, .topnode]

/-- a one-token sentence: collapsing gives the bare token, `add_topnode` puts a constituent back -/
def exOne : Tree := nd "S" [nd "NP" [lf 1 "N" "n"]]

/-- the one-token sentence through collapse (bare token), punctuation steps on the bare token, topnode -/
def exStepsOne : List TStep := [.collapse, .verylow, .proot, .sym none, .boyd, .uncollapse, .topnode]

example : WF exT = true := by decide
example : WF exOne = true := by decide
example : ∃ t', boydSplit exT = .ok t' ∧ t'.leafNums = [5, 1, 3, 4, 2] := ⟨_, rfl, by decide⟩

-- the steps that can fail (`rules`, `boyd`, `binarize`) come first in the examples: the punctuation
-- steps cannot be evaluated by `decide`/`rfl` (`removeLeaf` is compiled by well-founded recursion)
example : ∃ t', applySteps exSteps exT = .ok t' := ⟨_, rfl⟩
example : ∃ t', applySteps exStepsC exT = .ok t' := ⟨_, rfl⟩
#guard (match applySteps exSteps exT with
  | .ok t' => t'.leafNums == [1, 2, 3, 4, 5] && (consLabels t').map String.ofList == ["TOP", "S", "VP", "@VP", "@VP", "PP"]
  | .error _ => false)
#guard (match applySteps exStepsC exT with
  | .ok t' => (wordsOf t').map (·.1) == [1, 2, 3, 4, 5] && (consLabels t').length == 4
  | .error _ => false)
example : ∃ t', applySteps [.collapse] exOne = .ok t' ∧ t'.isLeaf = true := ⟨_, rfl, rfl⟩

/-! ### add_topnode -/

/-- add_topnode adds exactly one constituent, labelled TOP, above the old root -/
theorem addTopnode_shape (t : Tree) :
    (addTopnode t).kids = [t] ∧ (addTopnode t).fields.label = "TOP".toList := by
  simp [addTopnode, Tree.kids, Tree.fields]

/-! ### per transformation: well-formedness and sentence -/

theorem negra_WF (t : Tree) (h : WF t = true) : WF (negraMarkHeads t) = true ∧ sentence (negraMarkHeads t) = sentence t :=
  (negra_inv t).both h

example : WF (negraMarkHeads exT) = true ∧ sentence (negraMarkHeads exT) = sentence exT :=
  negra_WF exT (by decide)

theorem rules_WF (p : Preset) (t t' : Tree) (h : WF t = true) (hr : markHeadsByRules (some p) none t = .ok t') :
    WF t' = true ∧ sentence t' = sentence t :=
  (rules_inv p t t' hr).both h

example : ∃ t', markHeadsByRules (some Preset.ptb) none exT = .ok t' ∧ WF t' = true ∧ sentence t' = sentence exT :=
  ⟨_, rfl, rules_WF .ptb exT _ (by decide) rfl⟩

theorem topnode_WF (t : Tree) (h : WF t = true) :
    WF (addTopnode t) = true ∧ sentence (addTopnode t) = sentence t ∧ consLabels (addTopnode t) = "TOP".toList :: consLabels t := by
  obtain ⟨h1, h2⟩ := (topnode_inv t).both h
  refine ⟨h1, h2, ?_⟩
  simp [addTopnode, consLabels, consLabelsL]

example : consLabels (addTopnode exT) = ["TOP".toList, "S".toList, "VP".toList, "PP".toList] := by decide

theorem boyd_WF (t t' : Tree) (h : WF t = true) (hb : boydSplit t = .ok t') : WF t' = true ∧ sentence t' = sentence t :=
  (boyd_inv t t' hb (Lemmas.WF.WF_nodup t h)).both h

example : ∃ t', boydSplit exT = .ok t' ∧ WF t' = true ∧ sentence t' = sentence exT :=
  ⟨_, rfl, boyd_WF exT _ (by decide) rfl⟩

theorem raising_WF (t : Tree) (h : WF t = true) : WF (raising t) = true ∧ sentence (raising t) = sentence t :=
  (raising_inv t).both h

example : ∃ t', boydSplit exT = .ok t' ∧ WF (raising t') = true ∧ sentence (raising t') = sentence exT := by
  obtain ⟨h1, h2⟩ := boyd_WF exT _ (by decide) rfl
  obtain ⟨h3, h4⟩ := raising_WF _ h1
  exact ⟨_, rfl, h3, h4.trans h2⟩

theorem binarize_WF (bare : Bool) (t t' : Tree) (h : WF t = true) (hb : Tree.binarize bare t = .ok t') :
    WF t' = true ∧ sentence t' = sentence t :=
  (binarize_inv bare t t' hb).both h

example : ∃ t', Tree.binarize false exT = .ok t' ∧ maxArity t' = 2 ∧ WF t' = true ∧ sentence t' = sentence exT :=
  ⟨_, rfl, by decide, binarize_WF false exT _ (by decide) rfl⟩

theorem collapse_WFc (t : Tree) (h : WF t = true) : WFc (collapse t) = true ∧ wordsOf (collapse t) = wordsOf t :=
  ⟨(collapse_inv t).wfc (WFc_of_WF t h),
   wordsOf_of_leaves_eq t (collapse t) (by rw [wtok_eq_collapse]; exact Lemmas.Collapse.leaves_collapse t)⟩

example : consLabels (collapse exT) = ["S".toList, "VP".toList] ∧ WFc (collapse exT) = true := ⟨by decide, (collapse_WFc exT (by decide)).1⟩
-- the one-token case for which `WFc` is needed instead of `WF`
example : (collapse exOne).isLeaf = true ∧ WF (collapse exOne) = false ∧ WFc (collapse exOne) = true := by decide

theorem uncollapse_words (t : Tree) : wordsOf (uncollapse t) = wordsOf t ∧ (uncollapse t).leafNums = t.leafNums :=
  ⟨wordsOf_of_leaves_eq t (uncollapse t) (leaves_uncollapse t), uncollapse_leafNums t⟩

example : consLabels (uncollapse (collapse exOne)) = ["S".toList, "NP".toList] ∧
    wordsOf (uncollapse (collapse exOne)) = wordsOf exOne := by decide

/-- moreover un-collapsing keeps `noEmpty`, so a well-formed tree (even a bare token) stays well-formed -/
theorem uncollapse_WFc (t : Tree) (h : WFc t = true) : WFc (uncollapse t) = true :=
  (uncollapse_inv t).wfc h

/-- the single-step form of the invariant, for every step on a well-formed tree -/
theorem step_preserves_words (s : TStep) (t t' : Tree) (h : WF t = true) (hs : s.apply t = .ok t') :
    wordsOf t' = wordsOf t ∧ t'.noEmpty = true ∧ t'.leafNums.Perm t.leafNums ∧ WFc t' = true := by
  have i := step_inv s t t' (WFc_of_WF t h) hs
  exact ⟨i.wordsEq (Lemmas.WF.WF_nodup t h), i.noEmpty (Lemmas.WF.WF_noEmpty t h), i.leafNums,
    i.wfc (WFc_of_WF t h)⟩

/-! ### sequences: ANY sequence of steps that does not fail (a failing step is a violated prerequisite) -/

/-- ... without collapsing: well-formedness and the whole sentence (words and POS) are preserved -/
theorem seq_preserves (steps : List TStep) (t t' : Tree) (h : WF t = true)
    (hnc : ∀ s ∈ steps, s.isCollapse = false) (hs : applySteps steps t = .ok t') :
    WF t' = true ∧ sentence t' = sentence t :=
  (seq_strong steps t t' h hnc hs).both h

example : ∃ t', applySteps exSteps exT = .ok t' ∧ WF t' = true ∧ sentence t' = sentence exT :=
  ⟨_, rfl, seq_preserves exSteps exT _ (by decide) (by decide) rfl⟩

/-- ... with collapsing/uncollapsing anywhere: tokens keep number and word, no constituent is left childless -/
theorem seq_preserves_words (steps : List TStep) (t t' : Tree) (h : WF t = true) (hs : applySteps steps t = .ok t') :
    wordsOf t' = wordsOf t ∧ t'.noEmpty = true := by
  have i := seq_inv steps t t' (WFc_of_WF t h) hs
  exact ⟨i.wordsEq (Lemmas.WF.WF_nodup t h), i.noEmpty (Lemmas.WF.WF_noEmpty t h)⟩

example : ∃ t', applySteps exStepsC exT = .ok t' ∧ wordsOf t' = wordsOf exT ∧ t'.noEmpty = true :=
  ⟨_, rfl, seq_preserves_words exStepsC exT _ (by decide) rfl⟩

/-- moreover the result is well-formed up to the one-token case (`WFc`) and the token numbers are permuted -/
theorem seq_preserves_WFc (steps : List TStep) (t t' : Tree) (h : WF t = true) (hs : applySteps steps t = .ok t') :
    WFc t' = true ∧ t'.leafNums.Perm t.leafNums := by
  have i := seq_inv steps t t' (WFc_of_WF t h) hs
  exact ⟨i.wfc (WFc_of_WF t h), i.leafNums⟩

-- a one-token sentence through collapse (bare token), punctuation steps on the bare token, topnode
example : ∃ t', applySteps exStepsOne exOne = .ok t' ∧ wordsOf t' = wordsOf exOne ∧ t'.noEmpty = true :=
  ⟨_, rfl, seq_preserves_words exStepsOne exOne _ (by decide) rfl⟩

/-! ### label multisets -/

theorem negra_bag (t : Tree) : consLabels (negraMarkHeads t) = consLabels t :=
  Props.C15.negra_consLabels t

example : consLabels (negraMarkHeads exT) = ["S".toList, "VP".toList, "PP".toList] := by
  rw [negra_bag]; decide

theorem raising_bag (f : Fields) (ks : List Tree) :
    (consLabels (raising (node f ks))).Perm
      (f.label :: ((subtreesL ks).filter (fun s => !s.isLeaf && !removable s)).map (·.fields.label)) := by
  rw [Props.C05.raising_consLabels]

example : ∃ f ks, boydSplit exT = .ok (node f ks) ∧
    consLabels (node f ks) = ["S".toList, "VP".toList, "PP".toList, "VP".toList] ∧
    consLabels (raising (node f ks)) = ["S".toList, "PP".toList, "VP".toList] := ⟨_, _, rfl, by decide, by decide⟩

end TT.Props.C04
