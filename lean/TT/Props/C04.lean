/-
  C04 — structural transformations preserve the sentence and tree well-formedness.
  (theorems are being added; see tools/agent_briefs/C04.md)
-/
import TT.Spec.Transform
import TT.Transform.Misc
namespace TT.Props.C04
open TT TT.Tree TT.Spec

/-- add_topnode adds exactly one constituent, labelled TOP, above the old root -/
theorem addTopnode_shape (t : Tree) :
    (addTopnode t).kids = [t] ∧ (addTopnode t).fields.label = "TOP".toList := by
  simp [addTopnode, Tree.kids, Tree.fields]

end TT.Props.C04
