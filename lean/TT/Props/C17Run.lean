/-
  C17 on the whole command (`TT/Run.lean`): `treetools transform ... --split spec` writes, part by part, exactly what the
  command without `--split` writes; every surviving tree lands in exactly one part; a rejected specification writes nothing.
  All statements of the brief are proved exactly as given.  Helpers: `TT/Lemmas/Run.lean`.
-/
import TT.Lemmas.Run
namespace TT.Props.C17Run
open TT TT.Tree
open TT.Lemmas.Run

/-- what `runSplitFrom` did when it succeeded -/
theorem runSplitFrom_inv (steps : List Step) (fmt : DestFmt) (o : OutOpts) (enc : Option Str) (spec : Str)
    (src : Except Err (List (Nat × Tree))) (parts : List Str) (hp : runSplitFrom steps fmt o enc spec src = .ok parts) :
    ∃ ts ts' sizes, src = .ok ts ∧ transformAll steps ts = .ok ts' ∧ parseSplitSpec spec ts'.length = .ok sizes ∧
      (distribute sizes ts').mapM (writeAll fmt o enc) = .ok parts ∧ (distribute sizes ts').flatten = ts' := by
  cases src with
  | error e => cases hp
  | ok ts =>
    rw [runSplitFrom_ok] at hp
    obtain ⟨ts', h1, hp⟩ := bind_ok _ _ _ hp
    obtain ⟨sizes, h2, hp⟩ := bind_ok _ _ _ hp
    exact ⟨ts, ts', sizes, rfl, h1, h2, hp, TT.Props.C17.distribute_flatten sizes ts' (TT.Props.C17.split_sum spec _ sizes h2)⟩

/-- the parts taken in order reproduce the unsplit output (formats without a frame) -/
theorem split_concat (steps : List Step) (fmt : DestFmt) (o : OutOpts) (spec : Str) (src : Except Err (List (Nat × Tree)))
    (parts : List Str) (hf : fmt ≠ .tigerxml) (hp : runSplitFrom steps fmt o none spec src = .ok parts) :
    runFrom steps fmt o none src = .ok parts.flatten := by
  obtain ⟨ts, ts', sizes, rfl, h1, _, h3, h4⟩ := runSplitFrom_inv steps fmt o none spec src parts hp
  rw [runFrom_ok, h1]
  show writeAll fmt o none ts' = .ok parts.flatten
  rw [mapM_writeAll_plain fmt o none hf] at h3
  rw [writeAll_plain fmt o none ts' hf, ← h4]
  exact bodyText_flatten fmt o _ _ h3

/-- TIGER-XML: every part is a complete document and the bodies concatenate to the unsplit body -/
theorem split_tiger (steps : List Step) (o : OutOpts) (enc : Option Str) (spec : Str) (src : Except Err (List (Nat × Tree)))
    (parts : List Str) (hp : runSplitFrom steps .tigerxml o enc spec src = .ok parts) :
    ∃ bodies : List Str, parts = bodies.map (fun b => ((tigerBegin enc).map (· ++ ['\n'])).flatten ++ b ++ tigerEnd) ∧
      runFrom steps .tigerxml o enc src = .ok (((tigerBegin enc).map (· ++ ['\n'])).flatten ++ bodies.flatten ++ tigerEnd) := by
  obtain ⟨ts, ts', sizes, rfl, h1, _, h3, h4⟩ := runSplitFrom_inv steps .tigerxml o enc spec src parts hp
  obtain ⟨bodies, hb, rfl⟩ := mapM_writeAll_tiger o enc _ _ h3
  refine ⟨bodies, rfl, ?_⟩
  rw [runFrom_ok, h1]
  show writeAll .tigerxml o enc ts' = _
  rw [writeAll_tiger, ← h4, bodyText_flatten .tigerxml o _ _ hb]
  rfl

/-- every tree that survives the steps is written to exactly one part: the number of trees per part is the size list -/
theorem split_part_count (steps : List Step) (fmt : DestFmt) (o : OutOpts) (enc : Option Str) (spec : Str)
    (ts ts' : List (Nat × Tree)) (sizes : List Nat) (parts : List Str)
    (ht : transformAll steps ts = .ok ts') (hs : parseSplitSpec spec ts'.length = .ok sizes)
    (hp : runSplitFrom steps fmt o enc spec (.ok ts) = .ok parts) :
    parts.length = sizes.length ∧ sizes.sum = ts'.length := by
  rw [runSplitFrom_ok, ht] at hp
  have hp' : (parseSplitSpec spec ts'.length >>= fun sizes => (distribute sizes ts').mapM (writeAll fmt o enc)) = .ok parts := hp
  rw [hs] at hp'
  have hp'' : (distribute sizes ts').mapM (writeAll fmt o enc) = .ok parts := hp'
  exact ⟨by rw [mapM_length _ _ _ hp'', distribute_length], TT.Props.C17.split_sum spec _ sizes hs⟩

/-- the companion the doc comment of `split_part_count` promises: part `i` is the text of exactly `sizes[i]` trees, and these
    lists of trees, taken in order, are the trees that survived the steps -/
theorem split_part_trees (steps : List Step) (fmt : DestFmt) (o : OutOpts) (enc : Option Str) (spec : Str)
    (ts ts' : List (Nat × Tree)) (sizes : List Nat) (parts : List Str)
    (ht : transformAll steps ts = .ok ts') (hs : parseSplitSpec spec ts'.length = .ok sizes)
    (hp : runSplitFrom steps fmt o enc spec (.ok ts) = .ok parts) :
    ∃ groups : List (List (Nat × Tree)), groups.flatten = ts' ∧ groups.map List.length = sizes ∧
      groups.mapM (writeAll fmt o enc) = .ok parts := by
  rw [runSplitFrom_ok, ht] at hp
  have hp' : (parseSplitSpec spec ts'.length >>= fun sizes => (distribute sizes ts').mapM (writeAll fmt o enc)) = .ok parts := hp
  rw [hs] at hp'
  have hsum := TT.Props.C17.split_sum spec _ sizes hs
  exact ⟨distribute sizes ts', TT.Props.C17.distribute_flatten sizes ts' hsum, TT.Props.C17.distribute_lengths sizes ts' hsum, hp'⟩

/-- a specification that is rejected writes nothing (the command fails as a whole) -/
theorem split_rejected (steps : List Step) (fmt : DestFmt) (o : OutOpts) (enc : Option Str) (spec : Str) (ts ts' : List (Nat × Tree)) (e : Err)
    (ht : transformAll steps ts = .ok ts') (hs : parseSplitSpec spec ts'.length = .error e) :
    runSplitFrom steps fmt o enc spec (.ok ts) = .error e := by
  rw [runSplitFrom_ok, ht]
  show (parseSplitSpec spec ts'.length >>= fun sizes => (distribute sizes ts').mapM (writeAll fmt o enc)) = .error e
  rw [hs]; rfl

/-- the steps are applied in the order given, each occurrence once -/
theorem applySteps'_append (a b : List Step) (t : Tree) :
    applySteps' (a ++ b) t = (match applySteps' a t with | .ok (some t') => applySteps' b t' | r => r) :=
  TT.Lemmas.Run.applySteps'_append a b t

theorem transformAll_append (steps : List Step) (a b : List (Nat × Tree)) :
    transformAll steps (a ++ b) = (do let x ← transformAll steps a; let y ← transformAll steps b; pure (x ++ y)) :=
  TT.Lemmas.Run.transformAll_append steps a b

/-! ### concrete instances -/

/-- equality of results is decidable (used by the concrete instances below only) -/
local instance instDecEqExcept {ε α} [DecidableEq ε] [DecidableEq α] : DecidableEq (Except ε α)
  | .ok a, .ok b => decidable_of_iff (a = b) (by simp)
  | .error a, .error b => decidable_of_iff (a = b) (by simp)
  | .ok _, .error _ => isFalse (by simp)
  | .error _, .ok _ => isFalse (by simp)

def t1 : Tree := node { label := "S".toList } [leaf 1 { label := "A".toList, word := some "a".toList }, leaf 2 { label := "B".toList, word := some "b".toList }]
def t2 : Tree := node { label := "T".toList } [leaf 1 { label := "D".toList, word := some "d".toList }]
/-- discontinuous -/
def t3 : Tree := node { label := "S".toList } [node { label := "VP".toList } [leaf 1 { label := "A".toList, word := some "a".toList }, leaf 3 { label := "C".toList, word := some "c".toList }], leaf 2 { label := "B".toList, word := some "b".toList }]
def exSrc : List (Nat × Tree) := [(1, t1), (2, t2), (3, t3), (4, t1), (5, t2)]
/-- a step that drops the trees labelled `T` (returns None) -/
def dropT : Step := fun t => if t.fields.label = "T".toList then .ok none else .ok (some t)
/-- a step that changes the root label -/
def relab : Step := fun t => .ok (some (t.setFields fun f => { f with label := f.label ++ "x".toList }))

def relab1 : Tree := t1.setFields fun f => { f with label := f.label ++ "x".toList }
def relab3 : Tree := t3.setFields fun f => { f with label := f.label ++ "x".toList }
def exOut : List (Nat × Tree) := [(1, relab1), (3, relab3), (4, relab1)]

/-- three trees survive; `50%_rest` gives the sizes 1 and 2 -/
theorem ex_transform : transformAll [dropT, relab] exSrc = .ok exOut := by rfl

theorem ex_split : runSplitFrom [dropT, relab] .discobrackets {} none "50%_rest".toList (.ok exSrc) =
    .ok ["(Sx(A 1)(B 2))\ta b\n".toList, "(Sx(VP(A 1)(C 3))(B 2))\ta b c\n(Sx(A 1)(B 2))\ta b\n".toList] := by decide +kernel

example : runFrom [dropT, relab] .discobrackets {} none (.ok exSrc) =
    .ok ["(Sx(A 1)(B 2))\ta b\n".toList, "(Sx(VP(A 1)(C 3))(B 2))\ta b c\n(Sx(A 1)(B 2))\ta b\n".toList].flatten :=
  split_concat _ _ _ _ _ _ (by decide) ex_split

example : parseSplitSpec "50%_rest".toList 3 = .ok [1, 2] := by decide +kernel

example : (["(Sx(A 1)(B 2))\ta b\n".toList, "(Sx(VP(A 1)(C 3))(B 2))\ta b c\n(Sx(A 1)(B 2))\ta b\n".toList] : List Str).length = [1, 2].length ∧
    [1, 2].sum = 3 :=
  split_part_count [dropT, relab] .discobrackets {} none "50%_rest".toList exSrc exOut [1, 2] _ ex_transform (by decide +kernel) ex_split

/-- too many trees demanded: the command fails -/
example : runSplitFrom [dropT, relab] .discobrackets {} none "2#_7#".toList (.ok exSrc) = .error .valueError :=
  split_rejected [dropT, relab] .discobrackets {} none "2#_7#".toList exSrc exOut .valueError ex_transform (by decide +kernel)

/-- TIGER-XML, two parts of one tree each -/
theorem ex_split_tiger : ∃ parts, runSplitFrom [dropT] .tigerxml {} (some "utf-8".toList) "1#_rest".toList (.ok [(1, t1), (2, t2), (3, t3)]) = .ok parts ∧
    parts.length = 2 := by
  refine ⟨_, rfl, ?_⟩
  decide +kernel

/-- `split_tiger` on it: both parts are complete documents, the bodies give the unsplit document -/
example : ∃ parts bodies : List Str,
    runSplitFrom [dropT] .tigerxml {} (some "utf-8".toList) "1#_rest".toList (.ok [(1, t1), (2, t2), (3, t3)]) = .ok parts ∧
    parts = bodies.map (fun b => ((tigerBegin (some "utf-8".toList)).map (· ++ ['\n'])).flatten ++ b ++ tigerEnd) ∧
    runFrom [dropT] .tigerxml {} (some "utf-8".toList) (.ok [(1, t1), (2, t2), (3, t3)]) =
      .ok (((tigerBegin (some "utf-8".toList)).map (· ++ ['\n'])).flatten ++ bodies.flatten ++ tigerEnd) := by
  obtain ⟨parts, hp, _⟩ := ex_split_tiger
  obtain ⟨bodies, h1, h2⟩ := split_tiger _ _ _ _ _ parts hp
  exact ⟨parts, bodies, hp, h1, h2⟩

example : transformAll [dropT, relab] ([(1, t1), (2, t2)] ++ [(3, t3), (4, t1), (5, t2)]) =
    (do let x ← transformAll [dropT, relab] [(1, t1), (2, t2)]; let y ← transformAll [dropT, relab] [(3, t3), (4, t1), (5, t2)]; pure (x ++ y)) :=
  transformAll_append _ _ _

example : applySteps' ([dropT] ++ [relab]) t2 = .ok none ∧ applySteps' ([relab] ++ [dropT]) t1 = .ok (some relab1) := ⟨rfl, rfl⟩

end TT.Props.C17Run
