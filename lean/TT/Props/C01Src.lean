/-
  C01, "the same reader option has the same effect in every format that offers it", stated over the commands' source
  dispatch `readSrc` (wave 18, TT/RunSrc.lean) instead of reader by reader.

  * `readSrc_replaceParens`: for every source format (the discobracket post-pass aside, as in `C01Readers`) and every
    option record, reading with `replace_parens` is reading without it followed by ONE function on the trees,
    `replaceParensTree` - the same function for the export, bracket and TIGER-XML readers.  Errors coincide.
  * `readSrc_gfSplit_tigerxml` / `_brackets`: `gf_split` is the post-processing `gfSplitTree` (on the nodes with a label,
    `gfSplitRead`, in the bracket format); the export form is `C01Readers.readExport_gfSplit` (below the virtual root).
  * `run_replaceParens`: consequence for the commands: `treeanalysis` reports the same sentence count with and
    without the option, for every such source.
-/
import TT.RunSrc
import TT.Props.C01Readers
import TT.Props.C16Src
namespace TT.Props.C01Src
open TT TT.Tree TT.Spec
open TT.Props.C01Readers

/-- sources read without the discobracket post-pass -/
def PlainSrc (io : InOpts) : Source → Prop
  | .export _ => True
  | .brackets _ => io.disco = false
  | .discobrackets _ => False
  | .tigerxml _ => True

theorem readTiger_replaceParens (o : InOpts) (ss : List XSent) :
    readTiger { o with replaceParens := true } ss =
      (readTiger { o with replaceParens := false } ss).map (List.map fun x => (x.1, replaceParensTree x.2)) := by
  rw [readTiger_opts { o with replaceParens := true }, readTiger_opts { o with replaceParens := false }]
  cases readTiger { o with gfSplit := false, replaceParens := false } ss with
  | error e => rfl
  | ok r => simp [Except.map, List.map_map, Function.comp_def]

/-- MAIN: `replace_parens` has the same effect in every format that offers it -/
theorem readSrc_replaceParens (io : InOpts) (src : Source) (h : PlainSrc io src) :
    readSrc { io with replaceParens := true } src =
      (readSrc { io with replaceParens := false } src).map (List.map fun x => (x.1, replaceParensTree x.2)) := by
  match src, h with
  | .export text, _ => exact readExport_replaceParens io text
  | .brackets text, h => exact readBrackets_replaceParens io h text
  | .discobrackets _, h => exact h.elim
  | .tigerxml doc, _ => exact readTiger_replaceParens io doc

/-- the option changes neither the number of sentences nor their numbers -/
theorem readSrc_replaceParens_sids (io : InOpts) (src : Source) (h : PlainSrc io src) (r : List (Nat × Tree))
    (hr : readSrc { io with replaceParens := false } src = .ok r) :
    ∃ r', readSrc { io with replaceParens := true } src = .ok r' ∧ r'.map (·.1) = r.map (·.1) := by
  rw [readSrc_replaceParens io src h, hr]
  exact ⟨_, rfl, by simp [List.map_map, Function.comp_def]⟩

/-- errors coincide -/
theorem readSrc_replaceParens_error (io : InOpts) (src : Source) (h : PlainSrc io src) (e : Err)
    (hr : readSrc { io with replaceParens := false } src = .error e) :
    readSrc { io with replaceParens := true } src = .error e := by
  rw [readSrc_replaceParens io src h, hr]; rfl

theorem readSrc_gfSplit_tigerxml (io : InOpts) (hr : io.replaceParens = false) (doc : List XSent) :
    readSrc { io with gfSplit := true } (.tigerxml doc) =
      (readSrc { io with gfSplit := false } (.tigerxml doc)).map
        (List.map fun x => (x.1, gfSplitTree (io.gfSeparator.getD DEFAULT_GF_SEP) x.2)) := by
  show readTiger _ doc = (readTiger _ doc).map _
  rw [readTiger_opts { io with gfSplit := true }, readTiger_opts { io with gfSplit := false }]
  cases readTiger { io with gfSplit := false, replaceParens := false } doc with
  | error e => rfl
  | ok r => simp [Except.map, hr]

theorem readSrc_gfSplit_brackets (io : InOpts) (hd : io.disco = false) (he : io.emptyPos = false)
    (hr : io.replaceParens = false) (text : Str) :
    readSrc { io with gfSplit := true } (.brackets text) =
      (readSrc { io with gfSplit := false } (.brackets text)).map
        (List.map fun x => (x.1, gfSplitRead (io.gfSeparator.getD DEFAULT_GF_SEP) x.2)) :=
  readBrackets_gfSplit_noEmpty io hd he hr text

/-- consequence at command level: the sentence count does not depend on `replace_parens` -/
theorem analysis_sentences_replaceParens (io : InOpts) (src : Source) (h : PlainSrc io src) :
    runAnalysisSrc .sentenceCount { io with replaceParens := true } src =
      runAnalysisSrc .sentenceCount { io with replaceParens := false } src := by
  cases hr : readSrc { io with replaceParens := false } src with
  | error e =>
    rw [TT.Props.C16Src.runAnalysisSrc_error _ _ _ _ hr,
      TT.Props.C16Src.runAnalysisSrc_error _ _ _ _ (readSrc_replaceParens_error io src h e hr)]
  | ok r =>
    obtain ⟨r', h1, h2⟩ := readSrc_replaceParens_sids io src h r hr
    rw [TT.Props.C16Src.runAnalysisSrc_sentences _ _ _ hr, TT.Props.C16Src.runAnalysisSrc_sentences _ _ _ h1]
    have : r'.length = r.length := by simpa using congrArg List.length h2
    rw [this]

/-- non-vacuous: a bracket source with a parenthesis token, both ways -/
example : ((readSrc { replaceParens := true } (.brackets "(S (X -LRB-) (Y a))".toList)).toOption.map
      (·.map fun x => x.2.leaves.map fun l => l.fields.word)) =
    ((readSrc { replaceParens := false } (.brackets "(S (X -LRB-) (Y a))".toList)).toOption.map
      (·.map fun x => (replaceParensTree x.2).leaves.map fun l => l.fields.word)) := by decide +kernel

end TT.Props.C01Src
