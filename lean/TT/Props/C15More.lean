/-
  C15 (more) — rule-based head marking on the two presets, stated at `markHeadsByRules` without the escape
  clause of `uniqueListedOK` and with the categories read off label pieces; the complete list of accepted
  and rejected parameter combinations.
  Helper lemmas: TT/Lemmas/More12d.lean; specification-side definitions: TT/Spec/More12d.lean.
-/
import TT.Spec.More12d
import TT.Lemmas.More12d
import TT.Props.C15
namespace TT.Props.C15More
open TT TT.Tree TT.Spec TT.Lemmas.Heads TT.Lemmas.More12d

/-! ### example trees -/

/-- decorated labels, mixed case: `np-SB=1-2'` over `art NN-HD PP-MNR`; stored out of order.  In the NeGra preset
    `np` lists `nn` but neither `art` nor `pp`; `pp` lists `appr` -/
def exDeco : Tree :=
  node { label := "VROOT".toList } [
    node { label := "np-SB=1-2'".toList } [
      node { label := "PP-MNR".toList } [leaf 3 { label := "APPR-AC".toList }, leaf 4 { label := "Nn".toList }],
      leaf 2 { label := "NN-HD".toList },
      leaf 1 { label := "art".toList }],
    leaf 5 { label := "$.".toList }]

/-- PTB: `S → NP-SBJ VP .`; `VP → VBD NP`; `NP → DT NN` (`np` has no entry in the Collins table) -/
def exPTB : Tree :=
  node { label := "S".toList } [
    node { label := "NP-SBJ-1".toList } [leaf 1 { label := "DT".toList }, leaf 2 { label := "NN".toList }],
    node { label := "VP".toList } [leaf 3 { label := "VBD".toList },
      node { label := "NP".toList } [leaf 4 { label := "DT".toList }, leaf 5 { label := "NN".toList }]],
    leaf 6 { label := ".".toList }]

example : WF exDeco = true ∧ WF exPTB = true := by decide

/-! ### 5: categories on label pieces -/

/-- the category the rule lookup compares is the category PIECE of the label (function, indices and head mark
    cut off), lower-cased: a statement about `decompose`, not about `parseLabel` -/
theorem catOf_decompose (c : Tree) : catOf c = ruleCat c.fields.label := catOf_pieces c

/-- the parent's category likewise -/
theorem parentCat_decompose (l : Str) : (parseLabel DEFAULT_GF_SEP l).label = catPiece l :=
  parseLabel_label_pieces l

example : ruleCat "NN-HD".toList = "nn".toList ∧ ruleCat "np-SB=1-2'".toList = "np".toList ∧
    ruleCat "Nn".toList = "nn".toList ∧ catPiece "np-SB=1-2'".toList = "np".toList ∧
    ruleCat "-SB".toList = "-sb".toList ∧ ruleCat "--".toList = "--".toList := by decide

/-! ### 4: without the escape clause -/

/-- in a rule table where an entry with an empty priority list is always the only entry of its category, the
    exception built into `uniqueListedOK` never applies -/
theorem strict_of_alone (rules : HeadRules)
    (halone : ∀ r ∈ rules, r.2.any (fun e => e.2.isEmpty) = true → r.2.length = 1) (t : Tree) :
    uniqueListedStrict rules (setHead false (rulesMarkAux rules t)) = true :=
  strict_of_ok rules halone _ (by
    rw [rulesMarkAux_eq, uniqueListedOK_eq, all_subtrees_setHead _ (uniqueAt_setHead rules)]
    exact all_subtrees_markG (ruleIdx rules) (fun _ => True) (uniqueAt rules) (fun _ _ _ _ _ => trivial)
      (uniqueAt_setHead rules) (fun _ _ => rfl) (fun f ks _ => uniqueAt_markG rules f ks) t trivial)

/-- on both presets, for every tree: whenever exactly one child's category is listed in the head rule of the
    parent's category, that child is the head - no exception -/
theorem presets_strict (t : Tree) :
    uniqueListedStrict Gen.HEAD_RULES_NEGRA (setHead false (rulesMarkAux Gen.HEAD_RULES_NEGRA t)) = true ∧
    uniqueListedStrict Gen.HEAD_RULES_PTB (setHead false (rulesMarkAux Gen.HEAD_RULES_PTB t)) = true :=
  ⟨strict_of_alone _ TT.Props.C15.presets_empty_entry_alone.1 t,
   strict_of_alone _ TT.Props.C15.presets_empty_entry_alone.2 t⟩

/-- the hypothesis of `strict_of_alone` is needed: with an empty-list entry in front of a listing entry the
    empty entry decides (here: rightmost child), not the listed child -/
example :
    let rules : HeadRules := [("x".toList, [(true, []), (false, ["a".toList])])]
    let t := node { label := "X".toList } [leaf 1 { label := "A".toList }, leaf 2 { label := "B".toList }]
    uniqueListedOK rules (setHead false (rulesMarkAux rules t)) = true ∧
    uniqueListedStrict rules (setHead false (rulesMarkAux rules t)) = false := by decide

/-! ### 1 + 4 assembled at the top level -/

/-- `mark_heads_by_rules` with a preset, on a well-formed tree: it succeeds, every constituent has exactly one
    child marked as head (all others marked as non-head, the root unmarked), and whenever exactly one child's
    category is listed in the preset's rule for the parent's category that child is the head.  The rule tables
    are the pinned ones the property speaks about. -/
theorem rules_WF (t : Tree) (h : WF t = true) :
    (∃ r, markHeadsByRules (some Preset.negra) none t = .ok r ∧ oneHeadEach r = true ∧
        uniqueListedStrict PINNED_HEAD_RULES_NEGRA r = true) ∧
    (∃ r, markHeadsByRules (some Preset.ptb) none t = .ok r ∧ oneHeadEach r = true ∧
        uniqueListedStrict PINNED_HEAD_RULES_PTB r = true) := by
  have hne := TT.Lemmas.WF.WF_noEmpty t h
  have hsd := TT.Lemmas.WF.WF_sibDistinct t h
  obtain ⟨hp, hn⟩ := TT.Props.C15.presets_pinned
  refine ⟨⟨_, rfl, TT.Props.C15.rules_oneHead _ t hne hsd, ?_⟩, ⟨_, rfl, TT.Props.C15.rules_oneHead _ t hne hsd, ?_⟩⟩
  · rw [← hn]; exact (presets_strict t).1
  · rw [← hp]; exact (presets_strict t).2

/-- the token numbers of the children marked as head, per constituent in storage preorder -/
def headTokens (t : Tree) : List (List Nat) :=
  t.subtrees.filterMap fun s => match s with
    | node _ ks => some ((ks.filter (fun c => c.fields.head == some true)).map leftmost)
    | leaf _ _ => none

/-- `np-SB=1-2'`: only `NN-HD` (token 2) is listed → head; `PP-MNR`: only `APPR-AC` (token 3) → head -/
example : (match markHeadsByRules (some Preset.negra) none exDeco with
      | .ok r => headTokens r | .error _ => []) = [[5], [2], [3]] ∧
    (match markHeadsByRules (some Preset.negra) none exDeco with
      | .ok r => uniqueListedStrict PINNED_HEAD_RULES_NEGRA r && oneHeadEach r | .error _ => false) = true := by
  decide

/-- `S`: `vp` is the only listed child → head; `VP`: `vbd` (token 3) and `np` both listed, no claim -/
example : (match markHeadsByRules (some Preset.ptb) none exPTB with
      | .ok r => headTokens r | .error _ => []) = [[3], [1], [3], [4]] ∧
    (match markHeadsByRules (some Preset.ptb) none exPTB with
      | .ok r => uniqueListedStrict PINNED_HEAD_RULES_PTB r && oneHeadEach r | .error _ => false) = true := by
  decide

/-- the predicate discriminates: `S → DT VP .` lists only `vp`; marking `DT` instead is refuted -/
example : uniqueListedStrict PINNED_HEAD_RULES_PTB
    (node { label := "S".toList, head := some false } [
      leaf 1 { label := "DT".toList, head := some true }, leaf 2 { label := "VP-1".toList, head := some false },
      leaf 3 { label := ".".toList, head := some false }]) = false ∧
    uniqueListedStrict PINNED_HEAD_RULES_PTB
    (node { label := "S".toList, head := some false } [
      leaf 1 { label := "DT".toList, head := some false }, leaf 2 { label := "VP-1".toList, head := some true },
      leaf 3 { label := ".".toList, head := some false }]) = true := by decide

/-! ### 6: accepted and rejected parameter combinations, all of them -/

/-- the two cases missing from `C15.rules_rejects` -/
theorem rules_rejects_more (t : Tree) (rf : Str) :
    markHeadsByRules (some Preset.other) (some rf) t = .error .valueError ∧
    (rf ≠ [] → markHeadsByRules none (some rf) t = .error .valueError) := by
  refine ⟨rfl, fun h => ?_⟩
  cases rf with
  | nil => exact absurd rfl h
  | cons c cs => rfl

/-- complete: the call succeeds exactly for a known preset without rule source (and, in the model, for an
    empty rule-file name without preset, which marks by position only); every failure is a `ValueError` -/
theorem rules_accepts_iff (p : Option Preset) (rf : Option Str) (t : Tree) :
    ((∃ r, markHeadsByRules p rf t = .ok r) ↔
      ((p = some .negra ∨ p = some .ptb) ∧ rf = none) ∨ (p = none ∧ rf = some [])) ∧
    (∀ e, markHeadsByRules p rf t = .error e → e = .valueError) := by
  rcases p with _ | q
  · rcases rf with _ | s
    · refine ⟨⟨?_, ?_⟩, ?_⟩
      · rintro ⟨r, h⟩; cases h
      · rintro (⟨h | h, _⟩ | ⟨_, h⟩) <;> cases h
      · intro e h; cases h; rfl
    · cases s with
      | nil =>
        refine ⟨⟨fun _ => Or.inr ⟨rfl, rfl⟩, fun _ => ⟨_, rfl⟩⟩, ?_⟩
        intro e h; cases h
      | cons c cs =>
        refine ⟨⟨?_, ?_⟩, ?_⟩
        · rintro ⟨r, h⟩; cases h
        · rintro (⟨h | h, _⟩ | ⟨_, h⟩) <;> cases h
        · intro e h; cases h; rfl
  · rcases rf with _ | s
    · cases q with
      | negra =>
        refine ⟨⟨fun _ => Or.inl ⟨Or.inl rfl, rfl⟩, fun _ => ⟨_, rfl⟩⟩, ?_⟩
        intro e h; cases h
      | ptb =>
        refine ⟨⟨fun _ => Or.inl ⟨Or.inr rfl, rfl⟩, fun _ => ⟨_, rfl⟩⟩, ?_⟩
        intro e h; cases h
      | other =>
        refine ⟨⟨?_, ?_⟩, ?_⟩
        · rintro ⟨r, h⟩; cases h
        · rintro (⟨h | h, _⟩ | ⟨h, _⟩) <;> cases h
        · intro e h; cases h; rfl
    · refine ⟨⟨?_, ?_⟩, ?_⟩
      · rintro ⟨r, h⟩; cases q <;> cases h
      · rintro (⟨_, h⟩ | ⟨h, _⟩) <;> cases h
      · intro e h; cases q <;> cases h <;> rfl

example : markHeadsByRules (some Preset.other) (some "f".toList) exPTB = .error .valueError ∧
    markHeadsByRules none (some "f".toList) exPTB = .error .valueError := ⟨rfl, rfl⟩

end TT.Props.C15More
