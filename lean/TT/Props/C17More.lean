/-
  C17 (more) — output splitting: where each tree of the sequence ends up, and the frame of a
  TIGER-XML part.  Helper lemmas (prefix sums) live in TT/Lemmas/More4.lean.
-/
import TT.Split
import TT.IO.Write
import TT.Lemmas.More4
import TT.Props.C17
namespace TT.Props.C17More
open TT

/-- every tree is written to exactly one part: position i of the sequence lands in part k at offset j, uniquely -/
theorem distribute_index {α} (parts : List Nat) (ts : List α) (h : parts.sum = ts.length) (i : Nat) (hi : i < ts.length) :
    ∃ k j, (distribute parts ts)[k]?.bind (·[j]?) = ts[i]? ∧ j < (parts[k]?.getD 0) ∧ i = (parts.take k).sum + j := by
  induction parts generalizing ts i with
  | nil => simp at h; omega
  | cons n ns ih =>
    simp only [List.sum_cons] at h
    by_cases hlt : i < n
    · refine ⟨0, i, ?_, by simpa using hlt, by simp⟩
      simp [distribute, hlt]
    · obtain ⟨k, j, h1, h2, h3⟩ := ih (ts.drop n) (by simp; omega) (i - n) (by simp; omega)
      refine ⟨k + 1, j, ?_, by simpa using h2, by simp; omega⟩
      simp only [distribute, List.getElem?_cons_succ]
      rw [h1, List.getElem?_drop]
      congr 1; omega

/-- the "uniquely" of the statement above: the address (part, offset) of a position is determined -/
theorem distribute_index_unique (parts : List Nat) (i k j k' j' : Nat)
    (h1 : j < parts[k]?.getD 0) (e1 : i = (parts.take k).sum + j)
    (h2 : j' < parts[k']?.getD 0) (e2 : i = (parts.take k').sum + j') : k = k' ∧ j = j' :=
  TT.Lemmas.More4.address_unique parts i k j k' j' h1 e1 h2 e2

/-- part sizes `[2, 0, 3, 1]`: position 2 (the third tree) is the first tree of part 2 (part 1 is empty) -/
example : [2, 0, 3, 1].sum = ['a', 'b', 'c', 'd', 'e', 'f'].length ∧
    (distribute [2, 0, 3, 1] ['a', 'b', 'c', 'd', 'e', 'f'])[2]?.bind (·[0]?) = ['a', 'b', 'c', 'd', 'e', 'f'][2]? ∧
    0 < ([2, 0, 3, 1][2]?.getD 0) ∧ 2 = ([2, 0, 3, 1].take 2).sum + 0 := by decide

/-- extra: conversely every address inside a part is a position of the sequence with that tree -/
theorem distribute_address {α} (parts : List Nat) (ts : List α) (h : parts.sum = ts.length) (k j : Nat)
    (hj : j < parts[k]?.getD 0) :
    (distribute parts ts)[k]?.bind (·[j]?) = ts[(parts.take k).sum + j]? ∧ (parts.take k).sum + j < ts.length := by
  induction parts generalizing ts k with
  | nil => simp at hj
  | cons n ns ih =>
    simp only [List.sum_cons] at h
    cases k with
    | zero =>
      simp only [List.getElem?_cons_zero, Option.getD_some] at hj
      refine ⟨?_, by simp; omega⟩
      simp [distribute, hj]
    | succ k =>
      simp only [List.getElem?_cons_succ] at hj
      obtain ⟨h1, h2⟩ := ih (ts.drop n) (by simp; omega) k hj
      simp only [List.length_drop] at h2
      refine ⟨?_, by simp; omega⟩
      simp only [distribute, List.getElem?_cons_succ, List.take_succ_cons, List.sum_cons]
      rw [h1, List.getElem?_drop]
      congr 1; omega

example : (distribute [2, 0, 3, 1] ['a', 'b', 'c', 'd', 'e', 'f'])[3]?.bind (·[0]?) = some 'f' ∧
    ([2, 0, 3, 1].take 3).sum + 0 = 5 := by decide

/-- each part of a TIGER-XML split is a complete document: begin ++ sentences ++ end -/
def framed (enc : Option Str) (body : List Str) : List Str := Tree.tigerBegin enc ++ body ++ [Tree.tigerEnd]

theorem framed_head_last (enc : Option Str) (body : List Str) :
    (framed enc body).head? = (Tree.tigerBegin enc).head? ∧ (framed enc body).getLast? = some Tree.tigerEnd := by
  constructor
  · simp [framed, Tree.tigerBegin]
  · simp [framed]

example : (framed (some "utf-8".toList) ["<s id=\"1\"/>".toList]).head? =
      some "<?xml version='1.0' encoding='utf-8'?>".toList ∧
    (framed (some "utf-8".toList) ["<s id=\"1\"/>".toList]).getLast? = some "</body>\n</corpus>".toList ∧
    (framed none []).length = 4 := by decide

/-- extra: the frame is three header lines and one trailer line around the unchanged body -/
theorem framed_body (enc : Option Str) (body : List Str) :
    (framed enc body).length = body.length + 4 ∧ ((framed enc body).drop 3).dropLast = body ∧
    (framed enc body).take 3 = Tree.tigerBegin enc := by
  refine ⟨?_, ?_, ?_⟩
  · simp [framed, Tree.tigerBegin]
  · simp [framed, Tree.tigerBegin]
  · simp [framed, Tree.tigerBegin]

end TT.Props.C17More
