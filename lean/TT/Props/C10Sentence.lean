/-
  C10, wave 16: the sentence the oracles RETURN (audit B, section C10, row 7 / missing 1) and the file level of
  "one line per tree" (row 10 / missing 2).
  * model: `TT/TransSentence.lean` (`oracleSentence`, `topdownS`, `inorderS`, `gapS`);
  * `oracleSentence_eq`, `topdownS_ok/_error`, `inorderS_eq`, `gapS_ok/_error`, `oracleSentence_length`,
    `tokenLeaves_eq_oracleSentence`;
  * `transitions_file_lines`, `fileText_lines`, `plainLine_no_newline`, `oracle_labels` (labels inside the
    transitions are labels of nodes of the tree), `oracle_line_no_newline`, `runTransitions_no_newline`,
    `runTransitions_file`, `runTransitions_joined`;
  * missing 3: `line_replays`, `inorder_line_replays`, `topdown_line_replays`, `gap_line_replays`.
-/
import TT.TransSentence
import TT.Spec.More12c
import TT.Props.C10More
import TT.Props.C10Run
import TT.Lemmas.RcgRT
import TT.Lemmas.Trans
import TT.Lemmas.Binarize
namespace TT.Props.C10Sentence
open TT TT.Tree TT.Spec TT.Lemmas.GramOut TT.Lemmas.RcgRT TT.Lemmas.Trans TT.Lemmas.WF TT.Lemmas.Run
open TT.Props.C10 TT.Props.C10More TT.Props.C10Run

/-! ## row 7: the sentence RETURNED by the oracles -/

theorem wordTagPairs_eq_map (l : List Tree) : wordTagPairs l = l.map fun x => (x.fields.word, x.fields.label) := by
  induction l with
  | nil => rfl
  | cons a r ih => simp [wordTagPairs, ih]

/-- MAIN (row 7): the sentence the model's oracles return is the specification's token sequence -/
theorem oracleSentence_eq (t : Tree) : oracleSentence t = Spec.sentenceOf t :=
  wordTagPairs_eq_map t.terminals

theorem topdownS_ok (t : Tree) (s : List (Option Str × Str)) (a : List Action) :
    topdownS t = .ok (s, a) ↔ s = sentenceOf t ∧ topdown t = .ok a := by
  rw [← oracleSentence_eq]
  unfold topdownS
  cases h : topdown t with
  | ok acts => simp [eq_comm]
  | error e => simp

theorem topdownS_error (t : Tree) (e : Err) : topdownS t = .error e ↔ topdown t = .error e := by
  unfold topdownS
  cases h : topdown t <;> simp

theorem inorderS_eq (t : Tree) : inorderS t = (sentenceOf t, inorder t) := by
  rw [← oracleSentence_eq]; rfl

theorem gapS_ok (t : Tree) (s : List (Option Str × Str)) (a : List Action) :
    gapS t = .ok (s, a) ↔ s = sentenceOf t ∧ gapOracle t = .ok a := by
  rw [← oracleSentence_eq]
  unfold gapS
  cases h : gapOracle t with
  | ok acts => simp [eq_comm]
  | error e => simp

theorem gapS_error (t : Tree) (e : Err) : gapS t = .error e ↔ gapOracle t = .error e := by
  unfold gapS
  cases h : gapOracle t <;> simp

/-- one pair per token of the tree -/
theorem oracleSentence_length (t : Tree) : (oracleSentence t).length = t.leaves.length := by
  rw [oracleSentence_eq, sentenceOf_length]; simp [leafNums]

/-- the buffer of the replay automata is the returned sentence, numbered 1..n -/
theorem tokenLeaves_eq_oracleSentence (t : Tree) (h : WF t = true) :
    tokenLeaves t = (oracleSentence t).zipIdx.map fun p => leaf (p.2 + 1) { label := p.1.2, word := p.1.1 } := by
  rw [oracleSentence_eq]; exact tokenLeaves_eq_sentenceOf t h


/-- the ternary tree stored out of order: the sentence comes back in sentence order -/
example : (inorderS exTop).1 = [(some "the".toList, "DT".toList), (some "cat".toList, "NN".toList),
    (some "mice".toList, "NN".toList), (some "eats".toList, "VB".toList)] := by decide +kernel
example : oracleSentence exTop = sentenceOf exTop := oracleSentence_eq exTop
example : inorderS exTop = (sentenceOf exTop, inorder exTop) := inorderS_eq exTop
/-- the top-down oracle refuses the ternary tree: no sentence is returned either -/
example : topdownS exTop = .error .valueError :=
  (topdownS_error exTop .valueError).2 (by
    cases h : topdown exTop with
    | ok a => have : (match topdown exTop with | .error .valueError => true | _ => false) = true := by decide +kernel
              rw [h] at this; cases this
    | error e => have : (match topdown exTop with | .error .valueError => true | _ => false) = true := by decide +kernel
                 rw [h] at this; cases e <;> first | rfl | cases this)
example : ∃ a, topdownS exCont = .ok (sentenceOf exCont, a) := by
  obtain ⟨acts, _, h, _⟩ := topdown_replays exCont (by decide +kernel) (by decide +kernel) (by decide +kernel)
    (headsMarked_spec exCont (by decide +kernel))
  exact ⟨acts, (topdownS_ok _ _ _).2 ⟨rfl, h⟩⟩
example : ∃ a, gapS exGap = .ok (sentenceOf exGap, a) ∧ (sentenceOf exGap).length = 9 := by
  obtain ⟨acts, h⟩ := gap_terminates exGap (by decide +kernel) (by decide +kernel) (headsAll_spec exGap (by decide +kernel))
  exact ⟨acts, (gapS_ok _ _ _).2 ⟨rfl, h⟩, by decide +kernel⟩
example : (oracleSentence exGap).length = exGap.leaves.length := oracleSentence_length exGap
example : (tokenLeaves exGap).map num = List.range' 1 9 := by decide +kernel

/-! ## row 10, file level: one line per tree -/

/-- MAIN (missing 2): lines without a newline, joined by newlines and split again, are the lines -/
theorem transitions_file_lines (ls : List Str) (h : ∀ l ∈ ls, '\n' ∉ l) (hne : ls ≠ []) :
    splitOnChar '\n' (joinWith ['\n'] ls) = ls :=
  splitOnChar_joinWith '\n' ls hne h

/-- `ls ≠ []` cannot be dropped: the empty file reads as one empty line -/
example : splitOnChar '\n' (joinWith ['\n'] ([] : List Str)) = [[]] := by decide
/-- a newline inside a line breaks it -/
example : splitOnChar '\n' (joinWith ['\n'] ["a\nb".toList, "c".toList]) = ["a".toList, "b".toList, "c".toList] := by decide

/-- the text `transitionoutput.plain` writes: every line followed by a newline -/
def fileText (ls : List Str) : Str := (ls.map (· ++ ['\n'])).flatten

/-- ... read back by splitting at newlines: the lines, and the empty rest after the last newline; no condition on
    the number of lines -/
theorem fileText_lines : ∀ (ls : List Str), (∀ l ∈ ls, '\n' ∉ l) → splitOnChar '\n' (fileText ls) = ls ++ [[]]
  | [], _ => rfl
  | a :: r, h => by
    have : fileText (a :: r) = a ++ '\n' :: fileText r := by simp [fileText]
    rw [this, splitOnChar_append_sep '\n' a _ (h a (by simp)), fileText_lines r (fun l hl => h l (by simp [hl]))]
    rfl

/-- the label a transition carries (none for SHIFT, REDUCE, GAP) -/
def actLabel : Action → Str
  | .unary l | .binary _ l | .pj l | .r _ l => l
  | _ => []

theorem not_mem_pre (p l : Str) (hp : '\n' ∉ p) (h : '\n' ∉ l) : '\n' ∉ p ++ l := by
  intro hm; rcases List.mem_append.1 hm with h1 | h1
  · exact hp h1
  · exact h h1

theorem toStr_no_newline (a : Action) (h : '\n' ∉ actLabel a) : '\n' ∉ a.toStr := by
  cases a with
  | shift => decide +kernel
  | reduce => decide +kernel
  | gap => decide +kernel
  | unary l => exact not_mem_pre _ l (by decide +kernel) h
  | pj l => exact not_mem_pre _ l (by decide +kernel) h
  | binary b l => cases b <;> exact not_mem_pre _ l (by decide +kernel) h
  | r b l => cases b <;> exact not_mem_pre _ l (by decide +kernel) h

theorem toStr_newline_iff (a : Action) : '\n' ∈ a.toStr ↔ '\n' ∈ actLabel a := by
  constructor
  · intro h; exact Classical.byContradiction fun hn => toStr_no_newline a hn h
  · intro h
    cases a with
    | shift => exact absurd h (by simp [actLabel])
    | reduce => exact absurd h (by simp [actLabel])
    | gap => exact absurd h (by simp [actLabel])
    | unary l => exact List.mem_append_right _ h
    | pj l => exact List.mem_append_right _ h
    | binary b l => cases b <;> exact List.mem_append_right _ h
    | r b l => cases b <;> exact List.mem_append_right _ h

/-- MAIN (missing 2): a written line contains no newline when no written token (word, or tag on request) and no
    transition contains one -/
theorem plainLine_no_newline (pos : Bool) (t : Tree) (acts : List Action)
    (htok : ∀ l ∈ t.terminals, '\n' ∉ tokOf pos l) (hact : ∀ a ∈ acts, '\n' ∉ a.toStr) :
    '\n' ∉ plainLine pos t acts := by
  have : plainLine pos t acts =
      joinWith [' '] (t.terminals.map (tokOf pos)) ++ lineSep ++ joinWith [' '] (acts.map Action.toStr) := rfl
  rw [this]
  simp only [List.mem_append, not_or]
  refine ⟨⟨?_, by decide⟩, ?_⟩
  · intro h
    rcases mem_joinWith _ _ _ h with h | ⟨s, hs, h⟩
    · exact absurd h (by decide)
    · obtain ⟨l, hl, rfl⟩ := List.mem_map.1 hs
      exact htok l hl h
  · intro h
    rcases mem_joinWith _ _ _ h with h | ⟨s, hs, h⟩
    · exact absurd h (by decide)
    · obtain ⟨a, ha, rfl⟩ := List.mem_map.1 hs
      exact hact a ha h

/-- the same from the labels the transitions carry -/
theorem plainLine_no_newline_of_labels (pos : Bool) (t : Tree) (acts : List Action)
    (htok : ∀ l ∈ t.terminals, '\n' ∉ tokOf pos l) (hact : ∀ a ∈ acts, '\n' ∉ actLabel a) :
    '\n' ∉ plainLine pos t acts :=
  plainLine_no_newline pos t acts htok fun a ha => toStr_no_newline a (hact a ha)

example : (∀ l ∈ exGap.terminals, '\n' ∉ tokOf false l) ∧
    (∀ a ∈ [Action.shift, .r true "VP".toList], '\n' ∉ a.toStr) := by decide +kernel
/-- a newline in a word does reach the line -/
example : '\n' ∈ plainLine false (nd "S" none [lf 1 "X" "a\nb"]) [.shift] := by decide +kernel


/-! ### the labels inside the transitions are labels of the tree -/

/-- the label of a transition is empty (SHIFT, REDUCE, GAP; an unreachable position) or the label of a node of `t` -/
def LabFrom (t : Tree) (a : Action) : Prop := actLabel a = [] ∨ ∃ s ∈ t.subtrees, actLabel a = s.fields.label

theorem topdownAct_lab (s : Tree) (a : Action) (h : topdownAct s = .ok a) : actLabel a = [] ∨ actLabel a = s.fields.label := by
  unfold topdownAct at h
  split at h
  · cases h; exact Or.inl rfl
  · cases h; exact Or.inr rfl
  · split at h
    · cases h; exact Or.inr rfl
    · cases h
  · cases h

theorem mapM_mem {ε α β : Type} (f : α → Except ε β) : ∀ (l : List α) (r : List β), l.mapM f = .ok r →
    ∀ b ∈ r, ∃ a ∈ l, f a = .ok b
  | [], r, h, b, hb => by
    simp only [List.mapM_nil, pure, Except.pure, Except.ok.injEq] at h
    subst h; cases hb
  | a :: l, r, h, b, hb => by
    rw [List.mapM_cons] at h
    obtain ⟨b0, hb0, h⟩ := bind_ok _ _ _ h
    obtain ⟨bs, hbs, h⟩ := bind_ok _ _ _ h
    simp only [pure, Except.pure, Except.ok.injEq] at h
    subst h
    rcases List.mem_cons.1 hb with rfl | hb
    · exact ⟨a, by simp, hb0⟩
    · obtain ⟨a', ha', hf⟩ := mapM_mem f l bs hbs b hb
      exact ⟨a', by simp [ha'], hf⟩

theorem topdown_lab (t : Tree) (acts : List Action) (h : topdown t = .ok acts) : ∀ a ∈ acts, LabFrom t a := by
  unfold topdown at h
  cases hm : t.preorder.mapM topdownAct with
  | error e => rw [hm] at h; cases h
  | ok r =>
    rw [hm] at h
    simp only [Except.map, Except.ok.injEq] at h
    subst h
    intro a ha
    obtain ⟨s, hs, hf⟩ := mapM_mem _ _ _ hm a (List.mem_reverse.1 ha)
    have hp : s ∈ t.subtrees := (TT.Lemmas.Nav.preorder_perm_subtrees t).mem_iff.1 hs
    rcases topdownAct_lab s a hf with h | h
    · exact Or.inl h
    · exact Or.inr ⟨s, hp, h⟩

theorem inorderAux_lab (t : Tree) : ∀ a ∈ inorderAux t, LabFrom t a := by
  induction t using tree_ind with
  | hl n f => intro a ha; simp only [inorderAux, List.mem_singleton] at ha; subst ha; exact Or.inl rfl
  | hn f ks ih =>
    have up : ∀ k ∈ ks, ∀ a, LabFrom k a → LabFrom (node f ks) a := by
      intro k hk a h
      rcases h with h | ⟨s, hs, h⟩
      · exact Or.inl h
      · exact Or.inr ⟨s, TT.Lemmas.Binarize.mem_subtrees_of_kid f ks k s hk hs, h⟩
    have self : LabFrom (node f ks) (.pj f.label) := Or.inr ⟨_, TT.Lemmas.Binarize.mem_subtrees_self _, rfl⟩
    have hp := sortBy_perm leftmost ks
    rw [inorderAux_node]
    intro a ha
    cases hs : sortBy leftmost ks with
    | nil =>
      rw [hs] at ha
      simp only [List.mem_cons, List.not_mem_nil, or_false] at ha
      rcases ha with rfl | rfl
      · exact self
      · exact Or.inl rfl
    | cons c cs =>
      rw [hs] at ha hp
      simp only [List.mem_append, List.mem_singleton, List.mem_flatMap] at ha
      rcases ha with ((ha | rfl) | ⟨k, hk, ha⟩) | rfl
      · have hc : c ∈ ks := hp.mem_iff.1 (by simp)
        exact up c hc a (ih c hc a ha)
      · exact self
      · have hc : k ∈ ks := hp.mem_iff.1 (by simp [hk])
        exact up k hc a (ih k hc a ha)
      · exact Or.inl rfl

theorem labelAt_lab (t : Tree) (p : Path) (a : Action) (h : actLabel a = labelAt t p) : LabFrom t a := by
  unfold labelAt at h
  cases hg : t.get? p with
  | none => rw [hg] at h; exact Or.inl h
  | some s => rw [hg] at h; exact Or.inr ⟨s, mem_subtrees_get? p t s hg, h⟩

theorem unaryClimb_lab (t : Tree) : ∀ (fuel : Nat) (c : GapCfg), (∀ a ∈ c.out, LabFrom t a) →
    ∀ a ∈ (unaryClimb t fuel c).out, LabFrom t a
  | 0, c, h => h
  | fuel + 1, c, h => by
    unfold unaryClimb
    split
    · split
      · split
        · apply unaryClimb_lab t fuel
          intro a ha
          simp only [List.mem_cons] at ha
          rcases ha with rfl | ha
          · exact labelAt_lab t _ _ rfl
          · exact h a ha
        · exact h
      · exact h
    · exact h

theorem shiftStep_lab (t : Tree) (c c1 : GapCfg) (h : ∀ a ∈ c.out, LabFrom t a) (hs : gapStep.shiftStep c = .ok c1) :
    ∀ a ∈ c1.out, LabFrom t a := by
  unfold gapStep.shiftStep at hs
  split at hs
  · cases hs
    intro a ha
    simp only [List.mem_cons] at ha
    rcases ha with rfl | ha
    · exact Or.inl rfl
    · exact h a ha
  · cases hs

theorem gapStep_lab (t : Tree) (c c1 : GapCfg) (h : ∀ a ∈ c.out, LabFrom t a) (hs : gapStep t c = .ok c1) :
    ∀ a ∈ c1.out, LabFrom t a := by
  unfold gapStep at hs
  split at hs
  · split at hs
    · split at hs
      · cases hs
        intro a ha
        simp only [List.mem_cons] at ha
        rcases ha with rfl | ha
        · exact labelAt_lab t _ _ rfl
        · exact h a ha
      · cases hs
    · split at hs
      · cases hs
        intro a ha
        simp only [List.mem_append, List.mem_replicate] at ha
        rcases ha with ⟨_, rfl⟩ | ha
        · exact Or.inl rfl
        · exact h a ha
      · exact shiftStep_lab t c c1 h hs
  · exact shiftStep_lab t c c1 h hs
  · exact shiftStep_lab t c c1 h hs

theorem gapLoop_lab (t : Tree) : ∀ (fuel : Nat) (c : GapCfg) (acts : List Action), (∀ a ∈ c.out, LabFrom t a) →
    gapLoop t fuel c = .ok acts → ∀ a ∈ acts, LabFrom t a
  | 0, _, _, _, h => by cases h
  | fuel + 1, c, acts, hc, h => by
    unfold gapLoop at h
    split at h
    · cases h
    · rename_i c1 hs
      have h2 := unaryClimb_lab t (t.size + 1) c1 (gapStep_lab t c c1 hc hs)
      simp only at h
      split at h
      · cases h
        intro a ha
        exact h2 a (List.mem_reverse.1 ha)
      · exact gapLoop_lab t fuel _ acts h2 h

theorem gapOracle_lab (t : Tree) (acts : List Action) (h : gapOracle t = .ok acts) : ∀ a ∈ acts, LabFrom t a :=
  gapLoop_lab t _ _ acts (by simp) h

/-- every label inside a transition of any of the three oracles is the label of a node of the tree -/
theorem oracle_labels (sys : TransSys) (t : Tree) (acts : List Action) (h : oracle sys t = .ok acts) :
    ∀ a ∈ acts, LabFrom t a := by
  cases sys with
  | topdown => exact topdown_lab t acts h
  | inorder => simp only [oracle, Except.ok.injEq] at h; subst h; exact inorderAux_lab t
  | gap => exact gapOracle_lab t acts h


theorem oracle_no_newline (sys : TransSys) (t : Tree) (acts : List Action) (h : oracle sys t = .ok acts)
    (hlab : ∀ s ∈ t.subtrees, '\n' ∉ s.fields.label) : ∀ a ∈ acts, '\n' ∉ a.toStr := by
  intro a ha
  apply toStr_no_newline
  rcases oracle_labels sys t acts h a ha with h | ⟨s, hs, h⟩
  · rw [h]; simp
  · rw [h]; exact hlab s hs

/-- MAIN: the line written for a tree by any of the three systems has no newline when the tree's tokens (as written)
    and node labels have none -/
theorem oracle_line_no_newline (sys : TransSys) (pos : Bool) (t : Tree) (acts : List Action)
    (h : oracle sys t = .ok acts) (htok : ∀ l ∈ t.terminals, '\n' ∉ tokOf pos l)
    (hlab : ∀ s ∈ t.subtrees, '\n' ∉ s.fields.label) : '\n' ∉ plainLine pos t acts :=
  plainLine_no_newline pos t acts htok (oracle_no_newline sys t acts h hlab)

/-! ### the whole command -/

/-- no line written by `treetools transitions` contains a newline -/
theorem runTransitions_no_newline (steps : List Step) (sys : TransSys) (pos : Bool) (ts ts' : List (Nat × Tree))
    (ls : List Str) (ht : transformAll steps ts = .ok ts') (h : runTransitions steps sys pos (.ok ts) = .ok ls)
    (htok : ∀ p ∈ ts', ∀ l ∈ p.2.terminals, '\n' ∉ tokOf pos l)
    (hlab : ∀ p ∈ ts', ∀ s ∈ p.2.subtrees, '\n' ∉ s.fields.label) : ∀ l ∈ ls, '\n' ∉ l := by
  intro l hl
  obtain ⟨i, hi, rfl⟩ := List.getElem_of_mem hl
  have hlen := runTransitions_length steps sys pos ts ts' ls ht h
  obtain ⟨acts, ho, he⟩ := runTransitions_lines steps sys pos ts ts' ls ht h i (hlen ▸ hi)
  rw [List.getElem?_eq_getElem hi, Option.some.injEq] at he
  rw [he]
  have hm : ts'[i]'(hlen ▸ hi) ∈ ts' := List.getElem_mem _
  exact oracle_line_no_newline sys pos _ acts ho (htok _ hm) (hlab _ hm)

/-- MAIN (row 10, file level): the text written by `treetools transitions` (every line followed by a newline), split at
    newlines, is one line per tree that survives the steps (and the empty rest after the last newline); line `i` is
    the plain line of tree `i` -/
theorem runTransitions_file (steps : List Step) (sys : TransSys) (pos : Bool) (ts ts' : List (Nat × Tree))
    (ls : List Str) (ht : transformAll steps ts = .ok ts') (h : runTransitions steps sys pos (.ok ts) = .ok ls)
    (htok : ∀ p ∈ ts', ∀ l ∈ p.2.terminals, '\n' ∉ tokOf pos l)
    (hlab : ∀ p ∈ ts', ∀ s ∈ p.2.subtrees, '\n' ∉ s.fields.label) :
    splitOnChar '\n' (fileText ls) = ls ++ [[]] ∧ ls.length = ts'.length ∧
    ∀ i (hi : i < ts'.length), ∃ acts, oracle sys (ts'[i]).2 = .ok acts ∧
      (splitOnChar '\n' (fileText ls))[i]? = some (plainLine pos (ts'[i]).2 acts) := by
  have hn := runTransitions_no_newline steps sys pos ts ts' ls ht h htok hlab
  have hlen := runTransitions_length steps sys pos ts ts' ls ht h
  refine ⟨fileText_lines ls hn, hlen, ?_⟩
  intro i hi
  obtain ⟨acts, ho, he⟩ := runTransitions_lines steps sys pos ts ts' ls ht h i hi
  refine ⟨acts, ho, ?_⟩
  rw [fileText_lines ls hn, List.getElem?_append_left (hlen ▸ hi), he]

/-- the same with the lines joined by newlines (no newline after the last): at least one tree must survive -/
theorem runTransitions_joined (steps : List Step) (sys : TransSys) (pos : Bool) (ts ts' : List (Nat × Tree))
    (ls : List Str) (ht : transformAll steps ts = .ok ts') (h : runTransitions steps sys pos (.ok ts) = .ok ls)
    (hne : ts' ≠ [])
    (htok : ∀ p ∈ ts', ∀ l ∈ p.2.terminals, '\n' ∉ tokOf pos l)
    (hlab : ∀ p ∈ ts', ∀ s ∈ p.2.subtrees, '\n' ∉ s.fields.label) :
    splitOnChar '\n' (joinWith ['\n'] ls) = ls ∧ ls.length = ts'.length := by
  have hlen := runTransitions_length steps sys pos ts ts' ls ht h
  refine ⟨transitions_file_lines ls (runTransitions_no_newline steps sys pos ts ts' ls ht h htok hlab) ?_, hlen⟩
  intro he; rw [he] at hlen; exact hne (List.eq_nil_of_length_eq_zero hlen.symm)

/-- the source of `C10Run`: three trees read, two survive, the file has two lines -/
example : (∀ p ∈ exKept, ∀ l ∈ p.2.terminals, '\n' ∉ tokOf false l) ∧
    (∀ p ∈ exKept, ∀ s ∈ p.2.subtrees, '\n' ∉ s.fields.label) := by decide +kernel
example : splitOnChar '\n' (fileText exLines) = exLines ++ [[]] :=
  (runTransitions_file _ _ _ _ _ _ ex_transform ex_run (by decide +kernel) (by decide +kernel)).1
example : fileText exLines = ("rain ||| SHIFT PJ-NP REDUCE PJ-TOP REDUCE\n" ++
    "the cat mice eats ||| SHIFT PJ-NP SHIFT REDUCE PJ-S SHIFT SHIFT PJ-VP REDUCE REDUCE PJ-TOP REDUCE\n").toList := by
  decide +kernel
/-- labels of the golden gap sequence are labels of the tree -/
example : ∀ acts, gapOracle exGap = .ok acts → ∀ a ∈ acts, LabFrom exGap a := fun acts h => oracle_labels .gap exGap acts h

/-! ## missing 3: the written line alone carries the transitions that rebuild the tree -/

theorem not_mem_pre' (c : Char) (p l : Str) (hp : c ∉ p) (h : c ∉ l) : c ∉ p ++ l := by
  intro hm; rcases List.mem_append.1 hm with h1 | h1
  · exact hp h1
  · exact h h1

theorem toStr_no_blank (a : Action) (h : ' ' ∉ actLabel a) : ' ' ∉ a.toStr := by
  cases a with
  | shift => decide +kernel
  | reduce => decide +kernel
  | gap => decide +kernel
  | unary l => exact not_mem_pre' _ _ l (by decide +kernel) h
  | pj l => exact not_mem_pre' _ _ l (by decide +kernel) h
  | binary b l => cases b <;> exact not_mem_pre' _ _ l (by decide +kernel) h
  | r b l => cases b <;> exact not_mem_pre' _ _ l (by decide +kernel) h

theorem oracle_no_blank (sys : TransSys) (t : Tree) (acts : List Action) (h : oracle sys t = .ok acts)
    (hlab : ∀ s ∈ t.subtrees, ' ' ∉ s.fields.label) : ∀ a ∈ acts, ' ' ∉ a.toStr := by
  intro a ha
  apply toStr_no_blank
  rcases oracle_labels sys t acts h a ha with h | ⟨s, hs, h⟩
  · rw [h]; simp
  · rw [h]; exact hlab s hs

/-- the replay automaton of a system (`Spec/Replay.lean`); its buffer is the returned sentence numbered 1..n
    (`tokenLeaves_eq_oracleSentence`) -/
def replayOf : TransSys → Tree → List Action → Option Tree
  | .topdown => replayTopdown
  | .inorder => replayInorder
  | .gap => replayGap

theorem replayOf_nil (sys : TransSys) (t : Tree) : replayOf sys t [] = none := by
  cases sys <;> rfl

/-- MAIN (missing 3): whenever the sequence of an oracle replays to `r`, the line written for it decodes (split at the
    first ` ||| `, both halves at single blanks, `parseAction`) into the written tokens and a sequence that replays to
    the same `r` -/
theorem line_replays (sys : TransSys) (pos : Bool) (t : Tree) (acts : List Action) (r : Tree)
    (ho : oracle sys t = .ok acts) (hr : replayOf sys t acts = some r)
    (hw : ∀ l ∈ t.terminals, ' ' ∉ tokOf pos l ∧ tokOf pos l ≠ "|||".toList)
    (hlab : ∀ s ∈ t.subtrees, ' ' ∉ s.fields.label) (ht : t.terminals ≠ []) :
    ∃ s a acts', splitFirstSub lineSep (plainLine pos t acts) = some (s, a) ∧
      splitOnChar ' ' s = t.terminals.map (tokOf pos) ∧
      (splitOnChar ' ' a).mapM parseAction = some acts' ∧ replayOf sys t acts' = some r := by
  have ha : acts ≠ [] := by
    intro he; rw [he, replayOf_nil] at hr; cases hr
  obtain ⟨s, a, h1, h2, h3⟩ := plainLine_decode pos t acts hw (oracle_no_blank sys t acts ho hlab) ht ha
  exact ⟨s, a, acts, h1, h2, h3, hr⟩

/-- rows 1-3 ∘ row 9, in-order -/
theorem inorder_line_replays (pos : Bool) (t : Tree) (hwf : WF t = true) (hc : continuous t = true)
    (hw : ∀ l ∈ t.terminals, ' ' ∉ tokOf pos l ∧ tokOf pos l ≠ "|||".toList)
    (hlab : ∀ s ∈ t.subtrees, ' ' ∉ s.fields.label) (ht : t.terminals ≠ []) :
    ∃ s a acts r, splitFirstSub lineSep (plainLine pos t (inorder t)) = some (s, a) ∧
      splitOnChar ' ' s = t.terminals.map (tokOf pos) ∧
      (splitOnChar ' ' a).mapM parseAction = some acts ∧ replayInorder t acts = some r ∧ agrees t r = true := by
  obtain ⟨r, hr, hag⟩ := inorder_replays t hwf hc
  obtain ⟨s, a, acts, h1, h2, h3, h4⟩ := line_replays .inorder pos t (inorder t) r rfl hr hw hlab ht
  exact ⟨s, a, acts, r, h1, h2, h3, h4, hag⟩

/-- top-down -/
theorem topdown_line_replays (pos : Bool) (t : Tree) (hwf : WF t = true) (hc : continuous t = true) (hb : maxArity t ≤ 2)
    (hh : ∀ s ∈ t.subtrees, ∀ f a b, s = node f [a, b] → a.fields.head.isSome ∧ b.fields.head.isSome)
    (hw : ∀ l ∈ t.terminals, ' ' ∉ tokOf pos l ∧ tokOf pos l ≠ "|||".toList)
    (hlab : ∀ s ∈ t.subtrees, ' ' ∉ s.fields.label) (ht : t.terminals ≠ []) :
    ∃ acts0 s a acts r, topdown t = .ok acts0 ∧ splitFirstSub lineSep (plainLine pos t acts0) = some (s, a) ∧
      splitOnChar ' ' s = t.terminals.map (tokOf pos) ∧
      (splitOnChar ' ' a).mapM parseAction = some acts ∧ replayTopdown t acts = some r ∧ agrees t r = true := by
  obtain ⟨acts0, r, ho, hr, hag⟩ := topdown_replays t hwf hc hb hh
  obtain ⟨s, a, acts, h1, h2, h3, h4⟩ := line_replays .topdown pos t acts0 r ho hr hw hlab ht
  exact ⟨acts0, s, a, acts, r, ho, h1, h2, h3, h4, hag⟩

/-- gap -/
theorem gap_line_replays (pos : Bool) (t : Tree) (hwf : WF t = true) (hb : maxArity t ≤ 2)
    (hh : ∀ s ∈ t.subtrees, s ≠ t → s.fields.head.isSome)
    (hw : ∀ l ∈ t.terminals, ' ' ∉ tokOf pos l ∧ tokOf pos l ≠ "|||".toList)
    (hlab : ∀ s ∈ t.subtrees, ' ' ∉ s.fields.label) (ht : t.terminals ≠ []) :
    ∃ acts0 s a acts r, gapOracle t = .ok acts0 ∧ splitFirstSub lineSep (plainLine pos t acts0) = some (s, a) ∧
      splitOnChar ' ' s = t.terminals.map (tokOf pos) ∧
      (splitOnChar ' ' a).mapM parseAction = some acts ∧ replayGap t acts = some r ∧ agrees t r = true := by
  obtain ⟨acts0, r, ho, hr, hag⟩ := gap_replays t hwf hb hh
  obtain ⟨s, a, acts, h1, h2, h3, h4⟩ := line_replays .gap pos t acts0 r ho hr hw hlab ht
  exact ⟨acts0, s, a, acts, r, ho, h1, h2, h3, h4, hag⟩

example : (∀ l ∈ exGap.terminals, ' ' ∉ tokOf false l ∧ tokOf false l ≠ "|||".toList) ∧
    (∀ s ∈ exGap.subtrees, ' ' ∉ s.fields.label) ∧ exGap.terminals ≠ [] := by decide +kernel
example : ∃ acts0 s a acts r, gapOracle exGap = .ok acts0 ∧
    splitFirstSub lineSep (plainLine false exGap acts0) = some (s, a) ∧
    splitOnChar ' ' s = exGap.terminals.map (tokOf false) ∧
    (splitOnChar ' ' a).mapM parseAction = some acts ∧ replayGap exGap acts = some r ∧ agrees exGap r = true :=
  gap_line_replays false exGap (by decide +kernel) (by decide +kernel) (headsAll_spec exGap (by decide +kernel))
    (by decide +kernel) (by decide +kernel) (by decide +kernel)
example : ∃ s a acts r, splitFirstSub lineSep (plainLine true exTop (inorder exTop)) = some (s, a) ∧
    splitOnChar ' ' s = exTop.terminals.map (tokOf true) ∧
    (splitOnChar ' ' a).mapM parseAction = some acts ∧ replayInorder exTop acts = some r ∧ agrees exTop r = true :=
  inorder_line_replays true exTop (by decide +kernel) (by decide +kernel) (by decide +kernel) (by decide +kernel)
    (by decide +kernel)
/-- the label hypothesis is needed: a blank inside a node label splits the transition, the line no longer parses -/
example : (splitOnChar ' ' (joinWith [' '] ([Action.pj "N P".toList, .reduce].map Action.toStr))).mapM parseAction = none := by
  decide +kernel

end TT.Props.C10Sentence
