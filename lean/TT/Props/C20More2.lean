/-
  C20, clause 1 (wave 15): PARSE ∘ FORMAT on labels assembled from independent parts for EVERY one-character function
  separator (C20More.parse_built / parse_format are for the separator `-` only).
  The only condition on the separator is that it does not occur in the category; it may be `=`, `'`, a digit, `-`.
  New specification-side definition: `Spec.builtLabelSep` (TT/Spec/More15d.lean), plain concatenation.
-/
import TT.Spec.More15d
import TT.Props.C20More
namespace TT.Props.C20More2
open TT TT.Spec TT.Lemmas.C20 TT.Lemmas.More12g
open TT.Props.C20More (idxPart stripHead_built gap_step co_step last_built getLast?_append_some)

theorem builtLabelSep_eq (sep : Char) (cat gf gap co : Str) (hm : Bool) :
    builtLabelSep sep cat gf gap co hm =
      (cat ++ sep :: gf) ++ idxPart '=' gap ++ idxPart '-' co ++ (if hm then ['\''] else []) := by
  simp [builtLabelSep, idxPart]

/-- for the separator `-` this is the `builtLabel` of wave 12 -/
theorem builtLabelSep_dash (cat gf gap co : Str) (hm : Bool) :
    builtLabelSep '-' cat gf gap co hm = builtLabel cat gf gap co hm := rfl

/-- MAIN: PARSE ∘ FORMAT on a label assembled from independent parts, for every one-character separator `sep`: every part
    comes back.  `cat`: non-empty, without the separator; `gf`: ends in a character that is neither a digit nor `'` (so it
    cannot be taken for an index or a head mark); indices: digit strings or absent.  Nothing is asked of `sep` itself. -/
theorem parse_built_sep (sep : Char) (cat gf gap co : Str) (hm : Bool) (x : Char)
    (hcat : cat ≠ []) (hsep : sep ∉ cat)
    (hgf : gf.getLast? = some x) (hxd : x.isDigit = false) (hxq : x ≠ '\'')
    (hgap : gap = [] ∨ pyIsDigit gap = true) (hco : co = [] ∨ pyIsDigit co = true) :
    parseLabel [sep] (builtLabelSep sep cat gf gap co hm) =
      { label := cat, gf := gf, gfSep := [sep], coindex := co, gapindex := gap, headmarker := hm,
        isTrace := isTraceLabel cat } := by
  have hgfne : gf ≠ [] := by rintro rfl; simp at hgf
  have hX : (cat ++ sep :: gf).getLast? = some x :=
    getLast?_append_some _ _ x (by rw [List.getLast?_cons_of_ne_nil hgfne]; exact hgf)
  obtain ⟨z, hz, hzq⟩ := last_built _ gap co x hX hxq hgap hco
  have hsplit : parseGf [sep] (cat ++ sep :: gf) = (cat, gf) := by
    have hc : cat.isEmpty = false := by cases cat <;> simp_all
    have hg : gf.isEmpty = false := by cases gf <;> simp_all
    simp [parseGf, splitGf, splitFirst_append sep gf cat hsep, hc, hg]
  rw [parseLabel_eq, builtLabelSep_eq, stripHead_built _ hm z hz hzq]
  simp only [co_step _ gap co x hX hxd hgap hco, gap_step _ gap x hX hxd hgap, hsplit]
  have hc : cat.isEmpty = false := by cases cat <;> simp_all
  simp [hc]

/-- separator `#` (the harness runs `gf_separator:#`) -/
example : builtLabelSep '#' "NP".toList "SB".toList "1".toList "22".toList true = "NP#SB=1-22'".toList ∧
    parseLabel ['#'] "NP#SB=1-22'".toList =
    { label := "NP".toList, gf := "SB".toList, gfSep := ['#'], coindex := "22".toList, gapindex := "1".toList,
      headmarker := true, isTrace := false } :=
  ⟨by decide, parse_built_sep '#' "NP".toList "SB".toList "1".toList "22".toList true 'B' (by decide) (by decide) (by decide)
    (by decide) (by decide) (by decide) (by decide)⟩

/-- the separators one might expect to be excluded are not: `=`, `'`, a digit; a `-` inside the category is harmless when
    the separator is another character -/
example :
    parseLabel ['='] (builtLabelSep '=' "N-P".toList "SB".toList "1".toList "2".toList true) =
      { label := "N-P".toList, gf := "SB".toList, gfSep := ['='], coindex := "2".toList, gapindex := "1".toList,
        headmarker := true, isTrace := false } ∧
    parseLabel ['\''] (builtLabelSep '\'' "*T*".toList "SB".toList [] "2".toList false) =
      { label := "*T*".toList, gf := "SB".toList, gfSep := ['\''], coindex := "2".toList, gapindex := [],
        headmarker := false, isTrace := true } ∧
    parseLabel ['7'] (builtLabelSep '7' "NP".toList "S7B".toList "7".toList [] true) =
      { label := "NP".toList, gf := "S7B".toList, gfSep := ['7'], coindex := [], gapindex := "7".toList,
        headmarker := true, isTrace := false } :=
  ⟨parse_built_sep '=' _ _ _ _ _ 'B' (by decide) (by decide) (by decide) (by decide) (by decide) (by decide) (by decide),
   parse_built_sep '\'' _ _ _ _ _ 'B' (by decide) (by decide) (by decide) (by decide) (by decide) (by decide) (by decide),
   parse_built_sep '7' _ _ _ _ _ 'B' (by decide) (by decide) (by decide) (by decide) (by decide) (by decide) (by decide)⟩

/-- the hypotheses that remain cannot be dropped, whatever the separator: a category containing the separator is cut at
    its first occurrence, a function that is a number is read as an index, a function ending in `'` as a head mark, an
    empty category swallows the function -/
example :
    (parseLabel ['#'] (builtLabelSep '#' "N#P".toList "A".toList [] [] false)).label = "N".toList ∧
    (parseLabel ['='] (builtLabelSep '=' "NP".toList "1".toList [] [] false)).gapindex = "1".toList ∧
    (parseLabel ['='] (builtLabelSep '=' "NP".toList "1".toList [] [] false)).gf = "--".toList ∧
    (parseLabel ['#'] (builtLabelSep '#' "NP".toList "A'".toList [] [] false)).headmarker = true ∧
    (parseLabel ['#'] (builtLabelSep '#' [] "A".toList [] [] false)).label = "#A".toList := by decide

/-- MAIN: the same as a law of the two functions, for every record whose separator is one character: parsing what
    `format_label` writes gives the record back -/
theorem parse_format_sep (l : Label) (al ag : Bool) (sep x : Char)
    (hsep : l.gfSep = [sep]) (htr : l.isTrace = isTraceLabel l.label)
    (hcat : l.label ≠ []) (hfree : sep ∉ l.label)
    (hgf : l.gf.getLast? = some x) (hxd : x.isDigit = false) (hxq : x ≠ '\'')
    (hgap : l.gapindex = [] ∨ pyIsDigit l.gapindex = true) (hco : l.coindex = [] ∨ pyIsDigit l.coindex = true)
    (hal : l.label ≠ DEFAULT_LABEL ∨ al = true) (hag : l.gf ≠ DEFAULT_EDGE ∨ ag = true) :
    parseLabel l.gfSep (formatLabel al ag l) = l := by
  have hf : formatLabel al ag l = builtLabelSep sep l.label l.gf l.gapindex l.coindex l.headmarker := by
    have h1 : (decide (l.label ≠ DEFAULT_LABEL) || al) = true := by rcases hal with h | h <;> simp [h]
    have h2 : (decide (l.gf ≠ DEFAULT_EDGE) || ag) = true := by rcases hag with h | h <;> simp [h]
    simp only [formatLabel, builtLabelSep, h1, h2, if_true, hsep]
    simp
  rw [hf, hsep, parse_built_sep sep _ _ _ _ _ x hcat hfree hgf hxd hxq hgap hco]
  obtain ⟨a, b, c, d, e, f, g⟩ := l
  simp only at hsep htr
  subst hsep htr
  rfl

def exL : Label :=
  { label := "N-P".toList, gf := "SB".toList, gfSep := ['#'], coindex := "2".toList, gapindex := "1".toList,
    headmarker := true, isTrace := false }

example : formatLabel false false exL = "N-P#SB=1-2'".toList ∧ parseLabel ['#'] (formatLabel false false exL) = exL :=
  ⟨by decide, parse_format_sep exL false false '#' 'B' rfl (by decide) (by decide) (by decide) (by decide) (by decide)
    (by decide) (by decide) (by decide) (by decide) (by decide)⟩

/-- a separator of more than one character never splits (`splitGf`, as in the Python): the record does NOT come back -/
example : (parseLabel "::".toList (formatLabel false false { exL with gfSep := "::".toList })).gf = "--".toList ∧
    (parseLabel "::".toList (formatLabel false false { exL with gfSep := "::".toList })).label = "N-P::SB".toList := by
  decide

end TT.Props.C20More2
