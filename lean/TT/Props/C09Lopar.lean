/-
  C09, wave 16 (audit B, third pass, C09 missing 1): binarized LoPar grammars on the quantified domain.
  * `linOf_idLin`, `extractAll_idLin`: the linearization extracted at a constituent of a well-formed continuous tree is
    the identity linearization `idLin` (`TT/Spec/More15b.lean`) - the hypothesis `hid` of
    `C09Treebank.lopar_roundtrip_treebank` is now a theorem about the trees;
  * `binarizeGrammar_cf_treebank`, `lopar_roundtrip_treebank`: without `hid`;
  * the optimal reordering: `binarizeGrammar_cf_optimal` (ranks up to 24, computed table), `binarizeGrammar_cf_treebank_all`,
    `lopar_roundtrip_treebank_all` (every reordering).
  * C08 missing 1: `rebuilt_masses_binarized`, `rcg_file_binarized`, `rcg_file_raw`, `lopar_file_binarized` (the count fields
    of RCG / LoPar files as mass theorems).
  Helpers: `TT/Lemmas/More16b.lean`.

  C09 row 11 on the command model (audit B, "Still missing (C09)" item 2): `TT.runGrammarFromFile`
  (`TT/RunGrammarFile.lean`) = `treetools grammar G DEST treebank --src-format rcg --dest-format rcg`, a written grammar
  file as the INPUT of the grammar command.
  * `runGrammarFromFile_idempotent`, `_files`, `_twice`: the written files are reproduced (not an empty grammar, no failure);
    `runGrammarFile_written`: the general command (any TYPE) is handed `normG g`, a grammar with the rules of `g`;
  * on `TreebankOK ts`: `runGrammarFromFile_idempotent_treebank` (binarized, every `r`, `mo`), `…_treebank_raw` (extracted
    grammar), `grammar_file_idempotent_treebank_raw` (raw twin of `C09Treebank.grammar_file_idempotent_treebank`),
    `runGrammarFrom_then_file` (both commands in a row);
  * the refusing side: `runGrammarFromFile_error_iff`, `_cases`, `_error_iff_line`;
  * LoPar: `writeLopar_congr` (the LoPar form of `writeRcg_rules_only`; the literal twin is false: `cexLoparRulesOnly`),
    `grammar_file_lopar`, on the domain `grammar_file_lopar_treebank` (`extractAll_inner_ne_nil`,
    `binarizeGrammar_inner_ne_nil`).
-/
import TT.Props.C09Treebank
import TT.Lemmas.More16b
import TT.RunGrammarFile
namespace TT.Props.C09Lopar
open TT TT.Tree TT.Spec TT.Lemmas.GramOut TT.Lemmas.Unbin TT.Lemmas.More12c TT.Props.C09Rcg TT.Props.C09Full
open TT.Props.C09Treebank (exFlat grammar_file_idempotent_treebank exT_ok)
open TT.Props.C08Net (rebuild rebuild_masses nodeMassOK_congr)
open TT.Props.C18Local (exTa exTb)

/-- at a constituent `s` (a subtree with children) of a continuous tree without childless constituents and with
    pairwise distinct token numbers, the extracted linearization is the identity linearization of its rank -/
theorem linOf_idLin (t : Tree) (hne : t.noEmpty = true) (hn : t.leafNums.Nodup) (hc : continuous t = true)
    (s : Tree) (hs : s ∈ t.subtrees) (hk : s.kids ≠ []) :
    linOf s = idLin (children s).length ∧ linOf s = idLin ((funcOf s).length - 1) := by
  have hg : TT.Lemmas.Trans.Good s := TT.Lemmas.More16b.Good.sub ⟨hne, hn, hc⟩ s hs
  cases s with
  | leaf n f => exact absurd rfl hk
  | node f ks =>
    have := TT.Lemmas.More16b.linOf_idLin f ks hg
    simp only [children, funcOf, kids, sortBy_length, List.length_cons, List.length_map, Nat.add_sub_cancel]
    exact ⟨this, this⟩

example : linOf exFlat = idLin 4 := (linOf_idLin exFlat (by decide) (by decide) (by decide) exFlat (TT.Lemmas.WF.self_mem_subtrees _) (by decide)).1

/-- continuity cannot be dropped: a constituent with a gap has two arguments -/
example : continuous C06.exT = false ∧ C06.exT.noEmpty = true ∧ C06.exT.leafNums.Nodup ∧
    linOf C06.exT ≠ idLin (children C06.exT).length := by decide

/-- every rule of the grammar extracted from continuous well-formed trees has the identity linearization: the hypothesis
    `hid` of `C09Treebank.binarizeGrammar_cf` / `lopar_roundtrip_treebank`, from the trees -/
theorem extractAll_idLin (ts : List Tree) (h : ∀ t ∈ ts, t.noEmpty = true ∧ t.leafNums.Nodup)
    (hc : ∀ t ∈ ts, continuous t = true) :
    AllPairs (fun f l => l = idLin (f.length - 1)) (extractAll ts).1 := by
  rw [AllPairs_rules]
  intro e he
  obtain ⟨t, ht, s, hs, ⟨f, ks, rfl⟩, h1, h2⟩ := TT.Props.C06Count.extractAll_rule_mem ts e he
  have hg : TT.Lemmas.Trans.Good (node f ks) := TT.Lemmas.More16b.Good.sub ⟨(h t ht).1, (h t ht).2, hc t ht⟩ _ hs
  rw [← h1, ← h2, TT.Lemmas.More16b.linOf_idLin f ks hg]
  simp [funcOf, sortBy_length, kids]

/-- the left-to-right binarization (every label mode) of the grammar of continuous well-formed trees is context-free:
    `C09Treebank.binarizeGrammar_cf` with both hypotheses on the grammar discharged from the trees -/
theorem binarizeGrammar_cf_treebank (ts : List Tree) (h : ∀ t ∈ ts, t.noEmpty = true ∧ t.leafNums.Nodup)
    (hc : ∀ t ∈ ts, continuous t = true) (r : Reordering) (hr : r ≠ .optimal) (mo : Option MarkovOpts) :
    isContextFree (binarizeGrammar r mo (extractAll ts).1) = true :=
  TT.Props.C09Treebank.binarizeGrammar_cf r hr mo _ (extractAll_proper ts h) (extractAll_idLin ts h hc)

/-- LoPar on the quantified domain, binarized grammar, left-to-right binarization, every label mode: for a treebank of
    continuous trees the writer accepts the binarized grammar and the three files decode.  Hypotheses on the TREES only
    (`C09Treebank.lopar_roundtrip_treebank` without `hid`). -/
theorem lopar_roundtrip_treebank (ts : List Tree) (h : TreebankOK ts) (hc : ∀ t ∈ ts, continuous t = true)
    (r : Reordering) (hr : r ≠ .optimal) (mo : Option MarkovOpts) :
    ∃ files, writeLopar (binarizeGrammar r mo (extractAll ts).1) (extractAll ts).2 = .ok files ∧
      decLoparGram files.gram = some ((binarizeGrammar r mo (extractAll ts).1).rules.map fun (f, _, c) => (f, c)) ∧
      decLex files.lex = some (extractAll ts).2 ∧
      decCountLines files.start =
        some ((((binarizeGrammar r mo (extractAll ts).1).map fun (f, _) => f.head?.getD []).eraseDups.filter fun s =>
          !((binarizeGrammar r mo (extractAll ts).1).flatMap fun (f, _) => f.drop 1).contains s).map fun s =>
            (s, lhsMass (binarizeGrammar r mo (extractAll ts).1) s)) :=
  TT.Props.C09Treebank.lopar_roundtrip_treebank ts h r hr mo
    (extractAll_idLin ts (fun t ht => ⟨(h t ht).1, (h t ht).2.1⟩) hc)

example := lopar_roundtrip_treebank [exTa, exFlat, exTb] (by unfold TreebankOK; decide +kernel) (by decide) .leftright
  (by decide) (some ⟨1, 1, false⟩)
example := extractAll_idLin [exTa, exFlat, exTb] (by decide) (by decide)

/-! ## the optimal reordering -/

/-- `binarizeGrammar_cf` for the OPTIMAL reordering: on identity linearizations it keeps context-freeness too (it
    reorders `A1 ... An` to `A1 An A2 ... An-1`; element 0 of every rest stands at an end).  Proved for right-hand sides
    of at most `optBound` = 24 elements, by a computed table over the ranks (the reordered linearization depends on the
    rank only) - no counterexample exists up to that rank; the general induction over `pickOrder` is not done. -/
theorem binarizeGrammar_cf_optimal (mo : Option MarkovOpts) (g : Grammar)
    (hp : AllPairs Proper g) (hid : AllPairs (fun f l => l = idLin (f.length - 1)) g)
    (hb : AllPairs (fun f _ => f.length - 1 ≤ 24) g) :
    isContextFree (binarizeGrammar .optimal mo g) = true :=
  TT.Lemmas.More16b.binarizeGrammar_cf_optimal_bounded mo g hp hid hb

example : isContextFree (binarizeGrammar .optimal (some ⟨1, 2, false⟩) TT.Props.C09Treebank.exCf3) = true :=
  binarizeGrammar_cf_optimal _ _ ((AllPairs_rules Proper _).2 (by decide))
    ((AllPairs_rules (fun f l => l = idLin (f.length - 1)) _).2 (by decide))
    ((AllPairs_rules (fun f _ => f.length - 1 ≤ 24) _).2 (by decide))

/-- the rank bound from the trees: no constituent has more than `b` children -/
theorem extractAll_rank (ts : List Tree) (b : Nat) (hb : ∀ t ∈ ts, ∀ s ∈ t.subtrees, s.kids.length ≤ b) :
    AllPairs (fun f _ => f.length - 1 ≤ b) (extractAll ts).1 := by
  rw [AllPairs_rules]
  intro e he
  obtain ⟨t, ht, s, hs, _, h1, _⟩ := TT.Props.C06Count.extractAll_rule_mem ts e he
  rw [← h1]
  simpa [funcOf, sortBy_length] using hb t ht s hs

/-- every reordering, every label mode: the binarized grammar of continuous well-formed trees whose constituents have at
    most 24 children is context-free -/
theorem binarizeGrammar_cf_treebank_all (ts : List Tree) (h : ∀ t ∈ ts, t.noEmpty = true ∧ t.leafNums.Nodup)
    (hc : ∀ t ∈ ts, continuous t = true) (hb : ∀ t ∈ ts, ∀ s ∈ t.subtrees, s.kids.length ≤ 24)
    (r : Reordering) (mo : Option MarkovOpts) :
    isContextFree (binarizeGrammar r mo (extractAll ts).1) = true := by
  by_cases hr : r = .optimal
  · subst hr
    exact binarizeGrammar_cf_optimal mo _ (extractAll_proper ts h) (extractAll_idLin ts h hc) (extractAll_rank ts 24 hb)
  · exact binarizeGrammar_cf_treebank ts h hc r hr mo

/-- LoPar on the quantified domain, binarized grammar, EVERY reordering and label mode (constituents of at most 24
    children): the writer accepts and the three files decode -/
theorem lopar_roundtrip_treebank_all (ts : List Tree) (h : TreebankOK ts) (hc : ∀ t ∈ ts, continuous t = true)
    (hb : ∀ t ∈ ts, ∀ s ∈ t.subtrees, s.kids.length ≤ 24) (r : Reordering) (mo : Option MarkovOpts) :
    ∃ files, writeLopar (binarizeGrammar r mo (extractAll ts).1) (extractAll ts).2 = .ok files ∧
      decLoparGram files.gram = some ((binarizeGrammar r mo (extractAll ts).1).rules.map fun (f, _, c) => (f, c)) ∧
      decLex files.lex = some (extractAll ts).2 ∧
      decCountLines files.start =
        some ((((binarizeGrammar r mo (extractAll ts).1).map fun (f, _) => f.head?.getD []).eraseDups.filter fun s =>
          !((binarizeGrammar r mo (extractAll ts).1).flatMap fun (f, _) => f.drop 1).contains s).map fun s =>
            (s, lhsMass (binarizeGrammar r mo (extractAll ts).1) s)) :=
  TT.Props.C09Treebank.lopar_roundtrip_treebank_of_cf ts h r mo
    (binarizeGrammar_cf_treebank_all ts (fun t ht => ⟨(h t ht).1, (h t ht).2.1⟩) hc hb r mo)

example := lopar_roundtrip_treebank_all [exTa, exFlat, exTb] (by unfold TreebankOK; decide +kernel) (by decide) (by decide)
  .optimal none

/-! ## C08 missing 1: the count fields of RCG and LoPar files as mass theorems -/

/-- the dictionary rebuilt from the rules (with counts) of a binarized treebank grammar has the node masses of the
    treebank and is balanced: `P.C08.file` for any file format that delivers the rules with their counts -/
theorem rebuilt_masses_binarized (ts : List Tree) (h : TreebankOK ts) (r : Reordering) (mo : Option MarkovOpts)
    (hat : ∀ t ∈ ts, ∀ s ∈ t.subtrees, s.fields.label.head? ≠ some '@') :
    nodeMassOK ts (rebuild (binarizeGrammar r mo (extractAll ts).1).rules) = true ∧
    massBalanced (rebuild (binarizeGrammar r mo (extractAll ts).1).rules) (extractAll ts).2 (ts.map (·.fields.label)) = true := by
  obtain ⟨rs, h1, h2, h3⟩ := TT.Props.C09Treebank.pmcfg_file_binarized ts h r mo hat
  rw [(pmcfg_roundtrip_treebank ts h r mo).1] at h1
  cases h1
  exact ⟨h2, h3⟩

theorem rebuilt_masses_raw (ts : List Tree) (h : TreebankOK ts) :
    nodeMassOK ts (rebuild (extractAll ts).1.rules) = true ∧
    massBalanced (rebuild (extractAll ts).1.rules) (extractAll ts).2 (ts.map (·.fields.label)) = true := by
  obtain ⟨rs, h1, h2, h3⟩ := TT.Props.C09Treebank.pmcfg_file_raw ts h
  rw [(pmcfg_roundtrip_treebank ts h .none none).2.1] at h1
  cases h1
  exact ⟨h2, h3⟩

/-- RCG twin of `C09Treebank.pmcfg_file_binarized`: the `.rcg` / `.lex` files of a binarized treebank grammar, re-read
    with the tool's own reader, give rules whose count fields have the node masses of the treebank and are balanced -/
theorem rcg_file_binarized (ts : List Tree) (h : TreebankOK ts) (r : Reordering) (mo : Option MarkovOpts)
    (hat : ∀ t ∈ ts, ∀ s ∈ t.subtrees, s.fields.label.head? ≠ some '@') :
    ∃ g2, readRcg (writeRcg false (binarizeGrammar r mo (extractAll ts).1) (extractAll ts).2).1
        (lexLines (extractAll ts).2) = some (g2, (extractAll ts).2) ∧
      nodeMassOK ts (rebuild g2.rules) = true ∧
      massBalanced (rebuild g2.rules) (extractAll ts).2 (ts.map (·.fields.label)) = true := by
  obtain ⟨g2, h1, h2⟩ := (rcg_roundtrip_treebank ts h r mo).2
  refine ⟨g2, h1, ?_⟩
  rw [h2]
  exact rebuilt_masses_binarized ts h r mo hat

theorem rcg_file_raw (ts : List Tree) (h : TreebankOK ts) :
    ∃ g2, readRcg (writeRcg false (extractAll ts).1 (extractAll ts).2).1
        (lexLines (extractAll ts).2) = some (g2, (extractAll ts).2) ∧
      nodeMassOK ts (rebuild g2.rules) = true ∧
      massBalanced (rebuild g2.rules) (extractAll ts).2 (ts.map (·.fields.label)) = true := by
  obtain ⟨g2, h1, h2⟩ := (rcg_roundtrip_treebank ts h .none none).1
  refine ⟨g2, h1, ?_⟩
  rw [h2]
  exact rebuilt_masses_raw ts h

example := rcg_file_binarized [exTa, exFlat, exTb] (by unfold TreebankOK; decide +kernel) .optimal (some ⟨1, 1, false⟩)
  (by decide)

/-- the masses of a rebuilt dictionary do not look at the linearizations -/
theorem rebuild_masses_nolin (rs : List (Func × Lin × Nat)) (x : Str) :
    lhsMass (rebuild (rs.map fun (f, _, c) => (f, ([] : Lin), c))) x = lhsMass (rebuild rs) x ∧
    rhsMass (rebuild (rs.map fun (f, _, c) => (f, ([] : Lin), c))) x = rhsMass (rebuild rs) x := by
  rw [(rebuild_masses _ x).1, (rebuild_masses _ x).2, (rebuild_masses rs x).1, (rebuild_masses rs x).2]
  constructor
  · rw [List.filter_map, List.map_map]
    rfl
  · rw [List.map_map]; rfl

/-- LoPar twin: the `.gram` file of a binarized grammar the writer accepts decodes to (function, count) pairs whose
    count fields have the node masses of the treebank and are balanced (a `.gram` line carries no linearization) -/
theorem lopar_file_binarized (ts : List Tree) (h : TreebankOK ts) (r : Reordering) (mo : Option MarkovOpts)
    (hat : ∀ t ∈ ts, ∀ s ∈ t.subtrees, s.fields.label.head? ≠ some '@')
    (hcf : isContextFree (binarizeGrammar r mo (extractAll ts).1) = true) :
    ∃ files rs, writeLopar (binarizeGrammar r mo (extractAll ts).1) (extractAll ts).2 = .ok files ∧
      decLoparGram files.gram = some rs ∧
      nodeMassOK ts (rebuild (rs.map fun (f, c) => (f, ([] : Lin), c))) = true ∧
      massBalanced (rebuild (rs.map fun (f, c) => (f, ([] : Lin), c))) (extractAll ts).2 (ts.map (·.fields.label)) = true := by
  obtain ⟨files, hw, hd, _⟩ := TT.Props.C09Treebank.lopar_roundtrip_treebank_of_cf ts h r mo hcf
  refine ⟨files, _, hw, hd, ?_⟩
  rw [List.map_map]
  obtain ⟨m1, m2⟩ := rebuilt_masses_binarized ts h r mo hat
  have e := rebuild_masses_nolin (binarizeGrammar r mo (extractAll ts).1).rules
  constructor
  · rw [← m1]
    exact nodeMassOK_congr ts _ _ (fun x => (e x).1)
  · unfold massBalanced
    simp only [List.all_eq_true, beq_iff_eq]
    intro x _
    have e1 := (e x).1
    have e2 := (e x).2
    have k1 : lhsMass (rebuild (binarizeGrammar r mo (extractAll ts).1).rules) x =
        lhsMass (binarizeGrammar r mo (extractAll ts).1) x := (rebuild_masses _ x).1
    have k2 : rhsMass (rebuild (binarizeGrammar r mo (extractAll ts).1).rules) x =
        rhsMass (binarizeGrammar r mo (extractAll ts).1) x := (rebuild_masses _ x).2
    have := TT.Props.C08Net.binarized_balance ts r mo x
    rw [← k1, ← k2, ← e1, ← e2] at this
    exact this


/-! # the grammar command with a grammar file as its input (C09 row 11) -/

/-! ## the command model and the driver operation -/

/-- the command is the reader followed by the writer (the form in which `C09Full.grammar_file_idempotent` is stated) -/
theorem runGrammarFromFile_eq_map (gl ll : List Str) :
    runGrammarFromFile gl ll =
      match (readRcg gl ll).map (fun p => writeRcg false p.1 p.2) with
      | some r => .ok r
      | none => .error .valueError := by
  unfold runGrammarFromFile
  cases readRcg gl ll with
  | none => rfl
  | some p => rfl

/-- the command for TYPE `treebank` and destination format `rcg` is an instance of the general one (any TYPE; the writer
    applied to what `runGrammarFile` hands over) -/
theorem runGrammarFromFile_eq_runGrammarFile (mo : Option MarkovOpts) (gl ll : List Str) :
    runGrammarFromFile gl ll = (runGrammarFile .treebank mo gl ll).map fun p => writeRcg false p.1 p.2 := by
  unfold runGrammarFromFile runGrammarFile
  cases readRcg gl ll with
  | none => rfl
  | some p => rfl

/-- `runGrammarFrom` (trees as the source) applies the same step between source and writer -/
theorem runGrammarFrom_eq (gt : GramType) (mo : Option MarkovOpts) (ts : List (Nat × Tree)) :
    runGrammarFrom gt mo (.ok ts) =
      .ok (applyGramType gt mo (extractAll (ts.map (·.2))).1, (extractAll (ts.map (·.2))).2) := by
  cases gt <;> rfl

/-! ## C09 row 11 on the command model -/

/-- MAIN: using the grammar file and lexicon file written for `g`, `lex` as the input of the `grammar` command
    reproduces these files — the command does not answer with an empty grammar, and does not fail.
    Hypotheses: those of `C09Full.grammar_file_idempotent`. -/
theorem runGrammarFromFile_idempotent (g : Grammar) (lex : Lexicon) (hg : GN g)
    (h : ∀ r ∈ g.rules, (∀ s ∈ r.1, RcgLabelOK s = true) ∧ 2 ≤ r.1.length ∧
      wfLin r.2.1 ((fanOut r.2.1).drop 1) = true ∧ (fanOut r.2.1).length = r.1.length)
    (hx : ∀ e ∈ lex, e.1 ≠ [] ∧ (∀ c ∈ e.1, pyIsSpace c = false) ∧ e.2 ≠ [] ∧
         ∀ tc ∈ e.2, tc.1 ≠ [] ∧ ∀ c ∈ tc.1, pyIsSpace c = false)
    (hnd : (lex.map (·.1)).Nodup) (hnd2 : ∀ e ∈ lex, (e.2.map (·.1)).Nodup) :
    runGrammarFromFile (writeRcg false g lex).1 (lexLines lex) = .ok (writeRcg false g lex) := by
  rw [runGrammarFromFile_eq_map, grammar_file_idempotent g lex hg h hx hnd hnd2]

/-- the same with the two files taken from the writer's result: whatever pair of files `(gl, some ll)` the writer
    produced, the command run on `gl`, `ll` writes `(gl, some ll)` again -/
theorem runGrammarFromFile_files (g : Grammar) (lex : Lexicon) (hg : GN g)
    (h : ∀ r ∈ g.rules, (∀ s ∈ r.1, RcgLabelOK s = true) ∧ 2 ≤ r.1.length ∧
      wfLin r.2.1 ((fanOut r.2.1).drop 1) = true ∧ (fanOut r.2.1).length = r.1.length)
    (hx : ∀ e ∈ lex, e.1 ≠ [] ∧ (∀ c ∈ e.1, pyIsSpace c = false) ∧ e.2 ≠ [] ∧
         ∀ tc ∈ e.2, tc.1 ≠ [] ∧ ∀ c ∈ tc.1, pyIsSpace c = false)
    (hnd : (lex.map (·.1)).Nodup) (hnd2 : ∀ e ∈ lex, (e.2.map (·.1)).Nodup) :
    ∃ gl ll, writeRcg false g lex = (gl, some ll) ∧ runGrammarFromFile gl ll = .ok (gl, some ll) :=
  ⟨(writeRcg false g lex).1, lexLines lex, rfl, runGrammarFromFile_idempotent g lex hg h hx hnd hnd2⟩

/-- a second run changes nothing any more: the output of the command is a fixed point of the command -/
theorem runGrammarFromFile_twice (g : Grammar) (lex : Lexicon) (hr : RoundTripOK g lex) :
    ∀ gl ll, runGrammarFromFile (writeRcg false g lex).1 (lexLines lex) = .ok (gl, some ll) →
      runGrammarFromFile gl ll = .ok (gl, some ll) := by
  intro gl ll h1
  rw [runGrammarFromFile_idempotent g lex hr.gn hr.rules hr.lexfmt hr.lexnd hr.lexnd2] at h1
  have h2 : writeRcg false g lex = (gl, some ll) := by injection h1
  have h3 := runGrammarFromFile_idempotent g lex hr.gn hr.rules hr.lexfmt hr.lexnd hr.lexnd2
  have e1 : (writeRcg false g lex).1 = gl := by rw [h2]
  have e2 : some (lexLines lex) = some ll := by
    have : (writeRcg false g lex).2 = some ll := by rw [h2]
    exact this
  rw [e1, Option.some.inj e2, h2] at h3
  exact h3

example : runGrammarFromFile (writeRcg false C09.exG C09.exLex).1 (lexLines C09.exLex) =
    .ok (writeRcg false C09.exG C09.exLex) :=
  runGrammarFromFile_idempotent _ _ (by unfold GN; decide) (by decide) (by decide) (by decide) (by decide)

/-- the general command: a written grammar file as the source, any TYPE — the writer is handed a grammar with the rules
    of `g` for `treebank`, and the binarization of such a grammar otherwise -/
theorem runGrammarFile_written (gt : GramType) (mo : Option MarkovOpts) (g : Grammar) (lex : Lexicon)
    (hr : RoundTripOK g lex) :
    runGrammarFile gt mo (writeRcg false g lex).1 (lexLines lex) = .ok (applyGramType gt mo (normG g), lex) ∧
      (normG g).rules = g.rules := by
  obtain ⟨ll, h0, h1, h2⟩ := readRcg_writeRcg_files g lex hr.gn hr.rules hr.lexfmt hr.lexnd hr.lexnd2
  have : ll = lexLines lex := (Option.some.inj h0).symm
  subst this
  exact ⟨by unfold runGrammarFile; rw [h1], h2⟩

/-! ## on the quantified domain: grammars extracted from treebanks -/

/-- binarized grammars, every reordering and markovization: the files written for the binarized grammar of a treebank,
    used as the input of the command, are written again unchanged -/
theorem runGrammarFromFile_idempotent_treebank (ts : List Tree) (h : TreebankOK ts) (r : Reordering)
    (mo : Option MarkovOpts) :
    runGrammarFromFile (writeRcg false (binarizeGrammar r mo (extractAll ts).1) (extractAll ts).2).1
        (lexLines (extractAll ts).2) =
      .ok (writeRcg false (binarizeGrammar r mo (extractAll ts).1) (extractAll ts).2) :=
  have h2 := (treebank_RoundTripOK ts h r mo).2
  runGrammarFromFile_idempotent _ _ h2.gn h2.rules h2.lexfmt h2.lexnd h2.lexnd2

/-- the raw twin: the extracted grammar itself (TYPE `treebank`, not binarized) -/
theorem runGrammarFromFile_idempotent_treebank_raw (ts : List Tree) (h : TreebankOK ts) :
    runGrammarFromFile (writeRcg false (extractAll ts).1 (extractAll ts).2).1 (lexLines (extractAll ts).2) =
      .ok (writeRcg false (extractAll ts).1 (extractAll ts).2) :=
  have h1 := (treebank_RoundTripOK ts h .none none).1
  runGrammarFromFile_idempotent _ _ h1.gn h1.rules h1.lexfmt h1.lexnd h1.lexnd2

/-- the raw twin of `C09Treebank.grammar_file_idempotent_treebank` in its own form (reader, then writer) -/
theorem grammar_file_idempotent_treebank_raw (ts : List Tree) (h : TreebankOK ts) :
    (readRcg (writeRcg false (extractAll ts).1 (extractAll ts).2).1 (lexLines (extractAll ts).2)).map
        (fun p => writeRcg false p.1 p.2) = some (writeRcg false (extractAll ts).1 (extractAll ts).2) :=
  have h1 := (treebank_RoundTripOK ts h .none none).1
  grammar_file_idempotent _ _ h1.gn h1.rules h1.lexfmt h1.lexnd h1.lexnd2

/-- both commands together: `treetools grammar T G TYPE` on a treebank (`runGrammarFrom`), then
    `treetools grammar G DEST treebank --src-format rcg` on the files it wrote — `DEST` has the contents of `G` -/
theorem runGrammarFrom_then_file (ts : List (Nat × Tree)) (h : TreebankOK (ts.map (·.2))) (gt : GramType)
    (mo : Option MarkovOpts) :
    ∃ g lex, runGrammarFrom gt mo (.ok ts) = .ok (g, lex) ∧
      runGrammarFromFile (writeRcg false g lex).1 (lexLines lex) = .ok (writeRcg false g lex) := by
  refine ⟨_, _, runGrammarFrom_eq gt mo ts, ?_⟩
  cases gt with
  | treebank => exact runGrammarFromFile_idempotent_treebank_raw _ h
  | leftright => exact runGrammarFromFile_idempotent_treebank _ h .leftright mo
  | optimal => exact runGrammarFromFile_idempotent_treebank _ h .optimal mo

theorem exTab_ok : TreebankOK [exTa, exTb] := by unfold TreebankOK; decide +kernel
example := runGrammarFromFile_idempotent_treebank [exTa, exTb] exTab_ok .optimal (some ⟨1, 2, false⟩)
example := runGrammarFromFile_idempotent_treebank_raw [exTa, exTb] exTab_ok
example := runGrammarFromFile_idempotent_treebank [C06.exT] exT_ok .leftright none
example := runGrammarFromFile_idempotent_treebank_raw [C06.exT] exT_ok
example := runGrammarFrom_then_file [(1, exTa), (2, exTb)] exTab_ok .optimal (some ⟨1, 2, false⟩)

/-! ## the refusing side -/

/-- the command fails exactly when the reader does not accept the files, and then with a ValueError -/
theorem runGrammarFromFile_error_iff (gl ll : List Str) :
    runGrammarFromFile gl ll = .error .valueError ↔ readRcg gl ll = none := by
  unfold runGrammarFromFile
  cases readRcg gl ll with
  | none => simp
  | some p => simp

/-- it never fails in another way, and when it succeeds the files are the writer's files of what was read -/
theorem runGrammarFromFile_cases (gl ll : List Str) :
    (runGrammarFromFile gl ll = .error .valueError ∧ readRcg gl ll = none) ∨
    ∃ g lex, readRcg gl ll = some (g, lex) ∧ runGrammarFromFile gl ll = .ok (writeRcg false g lex) := by
  unfold runGrammarFromFile
  cases readRcg gl ll with
  | none => exact .inl ⟨rfl, rfl⟩
  | some p => exact .inr ⟨p.1, p.2, rfl, rfl⟩

theorem mapM_eq_none_iff {α β} (f : α → Option β) (l : List α) :
    l.mapM f = none ↔ ∃ x ∈ l, f x = none := by
  induction l with
  | nil => simp
  | cons a r ih =>
    rw [List.mapM_cons]
    cases ha : f a with
    | none => simp [ha]
    | some b =>
      cases hr : r.mapM f with
      | none => simpa [ha] using ih.1 hr
      | some bs =>
        have : ¬ ∃ x ∈ r, f x = none := fun hx => by rw [← ih, hr] at hx; cases hx
        simpa [ha, hr] using this

/-- the reader looks at each file line by line: the command refuses a grammar file iff one of its lines is not a clause
    with a numeric count; the lexicon file is never a reason (`readLexLine` skips what it cannot use) -/
theorem runGrammarFromFile_error_iff_line (gl ll : List Str) :
    runGrammarFromFile gl ll = .error .valueError ↔ ∃ l ∈ gl, readRcgLine l = none := by
  rw [runGrammarFromFile_error_iff, ← mapM_eq_none_iff]
  unfold readRcg
  cases gl.mapM readRcgLine with
  | none => simp
  | some rs => simp

/-- a malformed grammar file (the count of the clause is not a number: `int('x')` in `grammarinput.rcg`) is refused -/
example : runGrammarFromFile ["C:x S1([0]) --> A1([0])".toList] [] = .error .valueError := by decide
example : readRcg ["C:x S1([0]) --> A1([0])".toList] [] = none :=
  (runGrammarFromFile_error_iff _ _).1 (by decide)
/-- a grammar file with a discontinuous clause and its lexicon file are written again as they are -/
example : runGrammarFromFile
    ["C:2 VP2([0],[1]) --> V1([0]) PTK1([1])".toList, "C:1 S1([0][1][2]) --> VP2([0],[2]) NP1([1])".toList]
    ["isst\tV 2".toList, "auf\tPTK 2 ADV 1".toList] =
  .ok (["C:2 VP2([0],[1]) --> V1([0]) PTK1([1])".toList, "C:1 S1([0][1][2]) --> VP2([0],[2]) NP1([1])".toList],
       some ["isst\tV 2".toList, "auf\tPTK 2 ADV 1".toList]) := by decide
/-- the files of the treebank `[exTa, exTb]`: what the command writes -/
example : runGrammarFromFile (writeRcg false (extractAll [exTa, exTb]).1 (extractAll [exTa, exTb]).2).1
      (lexLines (extractAll [exTa, exTb]).2) =
    .ok (["C:2 S1([0][1]) --> NP1([0]) VP1([1])".toList, "C:1 NP1([0][1]) --> D1([0]) N1([1])".toList,
          "C:2 VP1([0]) --> V1([0])".toList, "C:1 NP1([0]) --> N1([0])".toList],
         some ["the\tD 1".toList, "dog\tN 1".toList, "barks\tV 1".toList, "it\tN 1".toList, "runs\tV 1".toList]) := by
  decide +kernel
/-- not idempotent outside the hypotheses: a clause given twice is written once, with the LAST count (the reader
    overwrites; `GN` fails of no grammar, but a hand-made file is not a written one) -/
example : runGrammarFromFile ["C:1 S1([0]) --> A1([0])".toList, "C:2 S1([0]) --> A1([0])".toList] ["w\tA 1".toList] =
    .ok (["C:2 S1([0]) --> A1([0])".toList], some ["w\tA 1".toList]) := by decide

/-! ## LoPar: the twin of `writeRcg_rules_only`, and a written grammar file handed to the LoPar writer -/

/-- the literal twin of `writeRcg_rules_only` is FALSE for LoPar: the start-symbol file is computed from the functions of
    the grammar, and a function without any linearization (never produced by the tool) has no rule -/
def cexLoparRulesOnly : Grammar := [(["X".toList, "Y".toList], [])]
example : Grammar.rules cexLoparRulesOnly = Grammar.rules [] ∧
    (writeLopar cexLoparRulesOnly []).toOption.map (·.start) = some ["X 0".toList] ∧
    (writeLopar ([] : Grammar) []).toOption.map (·.start) = some [] := by decide

theorem isContextFree_rules (g : Grammar) : isContextFree g = g.rules.all fun r => decide (r.2.1.length ≤ 1) := by
  unfold isContextFree Grammar.rules
  induction g with
  | nil => rfl
  | cons p r ih =>
    rw [List.all_cons, List.flatMap_cons, List.all_append, ih, List.all_map]
    rfl

/-- LoPar twin of `writeRcg_rules_only`: the LoPar writer looks at the grammar through its rule list and the list of
    its functions -/
theorem writeLopar_congr (g2 g : Grammar) (lex : Lexicon) (h : g2.rules = g.rules)
    (hf : g2.map (·.1) = g.map (·.1)) : writeLopar g2 lex = writeLopar g lex := by
  have e1 : ∀ g : Grammar, (g.map fun (x : Func × _) => x.1.head?.getD []) = (g.map (·.1)).map fun f => f.head?.getD [] := by
    intro g; rw [List.map_map]; rfl
  have e2 : ∀ g : Grammar, (g.flatMap fun (x : Func × _) => x.1.drop 1) = (g.map (·.1)).flatMap fun f => f.drop 1 := by
    intro g; rw [List.flatMap_map]
  unfold writeLopar
  simp only [isContextFree_rules, h]
  rw [e1 g2, e2 g2, hf, ← e1 g, ← e2 g]

theorem normG_funcs (g : Grammar) (hne : ∀ p ∈ g, p.2 ≠ []) : (normG g).map (·.1) = g.map (·.1) := by
  unfold normG
  induction g with
  | nil => rfl
  | cons p r ih =>
    have hp : p.2 ≠ [] := hne p (List.mem_cons_self ..)
    rw [List.filterMap_cons]
    simp only [hp, if_false, List.map_cons]
    rw [ih fun q hq => hne q (List.mem_cons_of_mem _ hq)]

/-- LoPar twin of `C09Full.grammar_file_pmcfg` / `grammar_file_idempotent`: a written RCG grammar, read back and handed
    to the LoPar writer, gives the LoPar files (or the refusal) of `g`.  `hne`: every function of `g` has a
    linearization (true of every grammar the tool builds: `Grammar.add` never leaves an empty entry). -/
theorem grammar_file_lopar (g : Grammar) (lex : Lexicon) (hg : GN g)
    (h : ∀ r ∈ g.rules, (∀ s ∈ r.1, RcgLabelOK s = true) ∧ 2 ≤ r.1.length ∧
      wfLin r.2.1 ((fanOut r.2.1).drop 1) = true ∧ (fanOut r.2.1).length = r.1.length)
    (hx : ∀ e ∈ lex, e.1 ≠ [] ∧ (∀ c ∈ e.1, pyIsSpace c = false) ∧ e.2 ≠ [] ∧
         ∀ tc ∈ e.2, tc.1 ≠ [] ∧ ∀ c ∈ tc.1, pyIsSpace c = false)
    (hnd : (lex.map (·.1)).Nodup) (hnd2 : ∀ e ∈ lex, (e.2.map (·.1)).Nodup) (hne : ∀ p ∈ g, p.2 ≠ []) :
    (readRcg (writeRcg false g lex).1 (lexLines lex)).map (fun p => writeLopar p.1 p.2) =
      some (writeLopar g lex) := by
  obtain ⟨ll, h0, h1, h2⟩ := readRcg_writeRcg_files g lex hg h hx hnd hnd2
  have : ll = lexLines lex := (Option.some.inj h0).symm
  subst this
  rw [h1, Option.map_some, writeLopar_congr (normG g) g lex h2 (normG_funcs g hne)]

example : (readRcg (writeRcg false C09.exCF C09.exLex).1 (lexLines C09.exLex)).map (fun p => writeLopar p.1 p.2) =
    some (writeLopar C09.exCF C09.exLex) :=
  grammar_file_lopar _ _ (by unfold GN; decide) (by decide) (by decide) (by decide) (by decide) (by decide)
example : ∃ F, writeLopar C09.exCF C09.exLex = .ok F := ⟨_, rfl⟩
/-- `hne` cannot be dropped -/
example : (readRcg (writeRcg false cexLoparRulesOnly []).1 (lexLines [])).map (fun p => writeLopar p.1 p.2) ≠
    some (writeLopar cexLoparRulesOnly []) := by decide


/-! ### on the quantified domain: no function without a linearization in a grammar the tool builds -/

theorem upsert_ne_nil {κ ν} [DecidableEq κ] (k : κ) (F : Option ν → ν) (m : AList κ ν) : AList.upsert k F m ≠ [] := by
  cases m with
  | nil => simp [AList.upsert]
  | cons a r => obtain ⟨a, v⟩ := a; unfold AList.upsert; split <;> simp

/-- `Grammar.add` never leaves a function without a linearization -/
theorem add_inner_ne_nil (g : Grammar) (f : Func) (l : Lin) (v : VertKey) (n : Nat) (hg : ∀ p ∈ g, p.2 ≠ []) :
    ∀ p ∈ g.add f l v n, p.2 ≠ [] := by
  unfold Grammar.add
  exact TT.Lemmas.Lopar12.upsert_forall (fun p => p.2 ≠ []) _ _ _ hg (upsert_ne_nil _ _ _) (fun _ _ => upsert_ne_nil _ _ _)

theorem extractAll_inner_ne_nil (ts : List Tree) : ∀ p ∈ (extractAll ts).1, p.2 ≠ [] := by
  unfold extractAll
  apply TT.Lemmas.GramBin.foldl_inv (fun acc : Grammar × Lexicon => ∀ p ∈ acc.1, p.2 ≠ [])
  · intro acc t _ hacc
    unfold extract
    apply TT.Lemmas.GramBin.foldl_inv (fun acc : Grammar × Lexicon => ∀ p ∈ acc.1, p.2 ≠ []) applyEvent (events [] t) ?_ acc hacc
    intro acc e _ hacc
    cases e with
    | rule f l v => exact add_inner_ne_nil _ _ _ _ _ hacc
    | lex w t => exact hacc
  · simp

theorem build_inner_ne_nil : ∀ (A : List TT.Lemmas.Unbin.Rule) (G : Grammar), (∀ p ∈ G, p.2 ≠ []) → ∀ p ∈ build A G, p.2 ≠ []
  | [], _, h => h
  | x :: A, G, h => by
    rw [build_cons]
    exact build_inner_ne_nil A _ (add_inner_ne_nil G _ _ _ _ h)

theorem binarizeGrammar_inner_ne_nil (r : Reordering) (mo : Option MarkovOpts) (g : Grammar) :
    ∀ p ∈ binarizeGrammar r mo g, p.2 ≠ [] := by
  rw [TT.Lemmas.More12b.binarizeGrammar_jobs]
  exact build_inner_ne_nil _ [] (by simp)

/-- `grammar_file_lopar` for treebank grammars, raw and binarized in every mode: the RCG files of the grammar, used as the
    input of `treetools grammar ... --dest-format lopar`, give the LoPar files of that grammar — or its refusal, when the
    grammar is not context-free -/
theorem grammar_file_lopar_treebank (ts : List Tree) (h : TreebankOK ts) (r : Reordering) (mo : Option MarkovOpts) :
    (readRcg (writeRcg false (extractAll ts).1 (extractAll ts).2).1 (lexLines (extractAll ts).2)).map
        (fun p => writeLopar p.1 p.2) = some (writeLopar (extractAll ts).1 (extractAll ts).2) ∧
    (readRcg (writeRcg false (binarizeGrammar r mo (extractAll ts).1) (extractAll ts).2).1
        (lexLines (extractAll ts).2)).map (fun p => writeLopar p.1 p.2) =
      some (writeLopar (binarizeGrammar r mo (extractAll ts).1) (extractAll ts).2) := by
  obtain ⟨h1, h2⟩ := treebank_RoundTripOK ts h r mo
  exact ⟨grammar_file_lopar _ _ h1.gn h1.rules h1.lexfmt h1.lexnd h1.lexnd2 (extractAll_inner_ne_nil ts),
    grammar_file_lopar _ _ h2.gn h2.rules h2.lexfmt h2.lexnd h2.lexnd2 (binarizeGrammar_inner_ne_nil r mo _)⟩

example := grammar_file_lopar_treebank [exTa, exTb] exTab_ok .leftright none
example : ∃ F, writeLopar (extractAll [exTa, exTb]).1 (extractAll [exTa, exTb]).2 = .ok F :=
  TT.Lemmas.Lopar12.writeLopar_ok_of_isCF _ _ (by decide)

end TT.Props.C09Lopar
