/-
  C13 — property theorems (being added; see tools/agent_briefs/C13.md)
-/
import TT.Spec.Transform
namespace TT.Props.C13
open TT TT.Tree TT.Spec

end TT.Props.C13
