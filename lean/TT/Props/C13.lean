/-
  C13 — punctuation re-attachment (`punctuation_verylow`, `punctuation_root`,
  `punctuation_symetrify`): the token multiset, the constituent labels, the sentence and
  well-formedness are kept; post-conditions of verylow/root.
  Helper lemmas: TT/Lemmas/Punct.lean.
-/
import TT.Spec.Transform
import TT.Transform.Punct
import TT.Lemmas.WF
import TT.Lemmas.Punct
namespace TT.Props.C13
open TT TT.Tree TT.Spec
open TT.Lemmas.WF TT.Lemmas.Punct

/-- example: `(S (NP (A 1) (, 2)) (VP (B 3) (" 4) (C 5)) (. 6))` -/
def exT : Tree :=
  node { label := "S".toList, uid := some 0 } [
    node { label := "NP".toList, uid := some 1 } [
      leaf 1 { label := "A".toList, word := some "a".toList, uid := some 2 },
      leaf 2 { label := ",".toList, word := some ",".toList, uid := some 3 }],
    node { label := "VP".toList, uid := some 4 } [
      leaf 3 { label := "B".toList, word := some "b".toList, uid := some 5 },
      leaf 4 { label := "Q".toList, word := some "\"".toList, uid := some 6 },
      leaf 5 { label := "C".toList, word := some "c".toList, uid := some 7 }],
    leaf 6 { label := ".".toList, word := some ".".toList, uid := some 8 }]

example : WF exT = true := by decide
example : uidsOK exT = true := by decide

/-! ## building blocks: moving a token keeps the token multiset and the constituent labels -/

theorem removeLeaf_leaves (k : Nat) (t l : Tree) (hn : t.leafNums.Nodup) (hf : t.findLeaf k = some l) (ht : t.isLeaf = false) :
    (l :: (removeLeaf k t).leaves).Perm t.leaves := by
  rw [removeLeaf_leaves_eq k t ht hn]
  exact perm_cons_filter_of_find num k t.leaves l hn hf

example : exT.leafNums.Nodup ∧ (exT.findLeaf 4).map fields = some { label := "Q".toList, word := some "\"".toList, uid := some 6 }
    ∧ exT.isLeaf = false := by decide

theorem appendBeside_leaves (j : Nat) (x : Tree) (t : Tree) (hn : t.leafNums.Nodup) (hj : j ∈ t.leafNums) (ht : t.isLeaf = false) :
    (appendBeside j x t).leaves.Perm (t.leaves ++ x.leaves) :=
  appendBeside_leaves_perm j x t hn hj ht

example : exT.leafNums.Nodup ∧ 3 ∈ exT.leafNums ∧ exT.isLeaf = false := by decide

theorem moveLeafBeside_leaves (t : Tree) (i j : Nat) (hn : t.leafNums.Nodup) (hi : i ∈ t.leafNums) (hj : j ∈ t.leafNums)
    (hij : i ≠ j) (ht : t.isLeaf = false) : (moveLeafBeside t i j).leaves.Perm t.leaves :=
  moveLeafBeside_leaves_perm t i j hn hi hj hij ht

example : exT.leafNums.Nodup ∧ 2 ∈ exT.leafNums ∧ 3 ∈ exT.leafNums ∧ 2 ≠ 3 ∧ exT.isLeaf = false := by decide

theorem moveLeafBeside_consLabels (t : Tree) (i j : Nat) : consLabels (moveLeafBeside t i j) = consLabels t :=
  moveLeafBeside_consLabels_eq t i j

/-! ## verylow -/

theorem verylow_leaves (t : Tree) (h : WF t = true) : (punctuationVerylow t).leaves.Perm t.leaves :=
  (verylow_inv t h).perm

theorem verylow_consLabels (t : Tree) : consLabels (punctuationVerylow t) = consLabels t := by
  unfold punctuationVerylow
  exact foldl_inv (fun c => consLabels c = consLabels t) verylowStep _ t
    (fun c i _ hc => (verylowStep_consLabels c i).trans hc) rfl

theorem verylow_sentence (t : Tree) (h : WF t = true) : sentence (punctuationVerylow t) = sentence t :=
  sentence_of_leaves_perm t _ (verylow_leaves t h) (WF_nodup t h)

theorem verylow_WF (t : Tree) (h : WF t = true) : WF (punctuationVerylow t) = true :=
  (verylow_inv t h).WF h

-- the final `.` joins the constituent of token 5
#guard (punctuationVerylow exT).kids.map leafNums = [[1, 2], [3, 4, 5, 6]]

theorem verylow_post (t : Tree) (h : WF t = true) : verylowPost (punctuationVerylow t) = true := by
  unfold verylowPost
  rw [terminals_of_leaves_perm t _ (verylow_leaves t h) (WF_nodup t h), List.all_eq_true]
  intro l hl
  split
  · rename_i hp
    have : l.num ∈ verylowCands t := List.mem_map.2 ⟨l, List.mem_filter.2 ⟨hl, hp⟩, rfl⟩
    exact verylow_post_all t h _ this
  · rfl


/-! ## root -/

theorem root_leaves (t : Tree) (h : WF t = true) : (punctuationRoot t).leaves.Perm t.leaves :=
  (root_inv t h).perm

theorem root_consLabels (t : Tree) : consLabels (punctuationRoot t) = consLabels t := by
  unfold punctuationRoot
  exact foldl_inv (fun c => consLabels c = consLabels t) rootStep _ t
    (fun c i _ hc => (rootStep_consLabels c i).trans hc) rfl

theorem root_sentence (t : Tree) (h : WF t = true) : sentence (punctuationRoot t) = sentence t :=
  sentence_of_leaves_perm t _ (root_leaves t h) (WF_nodup t h)

theorem root_WF (t : Tree) (h : WF t = true) : WF (punctuationRoot t) = true :=
  (root_inv t h).WF h

-- all punctuation tokens end up below the root
#guard (punctuationRoot exT).kids.map leafNums = [[1], [3, 5], [2], [4], [6]]

theorem root_post (t : Tree) (h : WF t = true) : rootPost (punctuationRoot t) = true := by
  unfold rootPost
  rw [terminals_of_leaves_perm t _ (root_leaves t h) (WF_nodup t h), List.all_eq_true]
  intro l hl
  split
  · rename_i hp
    have : l.num ∈ rootCands t := List.mem_map.2 ⟨l, List.mem_filter.2 ⟨hl, hp⟩, rfl⟩
    exact root_post_all t h _ this
  · rfl


/-! ## symetrify -/

theorem sym_leaves (relc : Option Str) (t : Tree) (h : WF t = true) : (punctuationSymetrify relc t).leaves.Perm t.leaves :=
  (sym_inv relc t h).perm

theorem sym_consLabels (relc : Option Str) (t : Tree) : consLabels (punctuationSymetrify relc t) = consLabels t := by
  unfold punctuationSymetrify
  exact foldl_inv (fun (s : SymState) => consLabels s.cur = consLabels t) _ _ _
    (fun s i _ hs => (symStep_consLabels _ _ s i).trans hs) rfl

theorem sym_sentence (relc : Option Str) (t : Tree) (h : WF t = true) : sentence (punctuationSymetrify relc t) = sentence t :=
  sentence_of_leaves_perm t _ (sym_leaves relc t h) (WF_nodup t h)

theorem sym_WF (relc : Option Str) (t : Tree) (h : WF t = true) : WF (punctuationSymetrify relc t) = true :=
  (sym_inv relc t h).WF h

/-- example with a quote pair split over two constituents: `(S (" 1) (NP (A 2) (" 3)) (B 4))` -/
def exS : Tree :=
  node { label := "S".toList, uid := some 0 } [
    leaf 1 { label := "Q".toList, word := some "\"".toList, uid := some 1 },
    node { label := "NP".toList, uid := some 2 } [
      leaf 2 { label := "A".toList, word := some "a".toList, uid := some 3 },
      leaf 3 { label := "Q".toList, word := some "\"".toList, uid := some 4 }],
    leaf 4 { label := "B".toList, word := some "b".toList, uid := some 5 }]

example : WF exS = true := by decide
example : uidsOK exS = true := by decide
-- the opening quote is pulled next to the closing one
#guard (punctuationSymetrify none exS).kids.map leafNums = [[2, 3, 1], [4]]

/-! ## nothing else moves (uid based) -/

theorem verylow_parents (t : Tree) (hu : uidsOK t = true) (h : WF t = true) :
    parentsKept t (punctuationVerylow t) (fun s => s.isLeaf && isPunctWord s) = true :=
  parentsKept_of_inv t _ freePunct hu (verylow_PK t h)

theorem root_parents (t : Tree) (hu : uidsOK t = true) (h : WF t = true) :
    parentsKept t (punctuationRoot t) (fun s => s.isLeaf && isPunctWord s) = true :=
  parentsKept_of_inv t _ freePunct hu (root_PK t h)

theorem sym_parents (relc : Option Str) (t : Tree) (hu : uidsOK t = true) (h : WF t = true) :
    parentsKept t (punctuationSymetrify relc t) (fun s => s.isLeaf && isPairPunctWord s) = true :=
  parentsKept_of_inv t _ freePair hu (sym_PK relc t h)


theorem sym_ok (relc : Option Str) (t : Tree) (hu : uidsOK t = true) (h : WF t = true) :
    symetrifyOK relc t (punctuationSymetrify relc t) = true := by
  obtain ⟨s, hs, hsi⟩ := sym_SI relc t h hu
  rw [← hs]
  exact sym_ok_of_SI relc t h s hsi

-- a relative-clause example: `(S (NP (A 1) (" 2)) (SBAR (, 3) (W 4) (B 5)))`, token 4 tagged `PRELS`;
-- the quote before the comma that precedes the clause is pulled into the clause
def exR : Tree :=
  node { label := "S".toList, uid := some 0 } [
    node { label := "NP".toList, uid := some 1 } [
      leaf 1 { label := "A".toList, word := some "a".toList, uid := some 2 },
      leaf 2 { label := "Q".toList, word := some "\"".toList, uid := some 3 }],
    node { label := "SBAR".toList, uid := some 4 } [
      leaf 3 { label := ",".toList, word := some ",".toList, uid := some 5 },
      leaf 4 { label := "PRELS".toList, word := some "w".toList, uid := some 6 },
      leaf 5 { label := "B".toList, word := some "b".toList, uid := some 7 }]]

example : WF exR = true ∧ uidsOK exR = true := by decide
#guard (punctuationSymetrify (some "PRELS".toList) exR).kids.map leafNums = [[1], [3, 4, 5, 2]]
#guard symetrifyOK (some "PRELS".toList) exR (punctuationSymetrify (some "PRELS".toList) exR)
#guard (movedTokens exR (punctuationSymetrify (some "PRELS".toList) exR)).map num = [2]
#guard (movedTokens exS (punctuationSymetrify none exS)).map num = [1]
#guard (movedTokens exT (punctuationVerylow exT)).map num = [6]
#guard (movedTokens exT (punctuationRoot exT)).map num = [2, 4]


/-! ## the theorems applied to the examples -/

example : verylowPost (punctuationVerylow exT) = true := verylow_post exT (by decide)
example : WF (punctuationVerylow exT) = true := verylow_WF exT (by decide)
example : rootPost (punctuationRoot exT) = true := root_post exT (by decide)
example : sentence (punctuationRoot exT) = sentence exT := root_sentence exT (by decide)
example : parentsKept exT (punctuationRoot exT) (fun s => s.isLeaf && isPunctWord s) = true :=
  root_parents exT (by decide) (by decide)
example : WF (punctuationSymetrify none exS) = true := sym_WF none exS (by decide)
example : symetrifyOK (some "PRELS".toList) exR (punctuationSymetrify (some "PRELS".toList) exR) = true :=
  sym_ok _ exR (by decide) (by decide)


end TT.Props.C13
