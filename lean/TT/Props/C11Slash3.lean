/-
  C11 (slash), third part (wave 16): WHEN the slash branch rejects a call (clause 9 iii').
  `slash_rejects_iff_flag` (slash given as a flag: no hypothesis) and `slash_rejects_iff` (any label list, under the
  hypothesis that the selection test is blind to the annotation): the call is rejected exactly when
  (1) some co-index has several fillers and `resolveUp` finds no filler for some recorded trace, or
  (2) the maps are there and `slashGoal filler trace = none` for a selected trace whose co-index has a filler.
  The inputs of the phase are named: `slashTree` (= `ptbDeleteTraces o t`), `slashFillers`, `slashTraces`, `slashMaps`.
  Model: TT/Transform/Slash.lean; earlier parts: TT/Props/C11Slash.lean, C11Slash2.lean.
-/
import TT.Props.C11Slash2
namespace TT.Props.C11Slash3
open TT TT.Tree TT.Spec TT.Lemmas.WF TT.Lemmas.Edit TT.Lemmas.Slash TT.Props.C11Slash TT.Props.C11Slash2

/-! ## the inputs of the phase after the two loops, by name -/

/-- the tree the annotation works on: the plain trace deletion -/
abbrev slashTree (o : TraceOpts) (t : Tree) : Tree := ptbDeleteTraces o t

/-- `index_to_nonterms`: co-index ↦ storage paths of the constituents with children that carry it -/
def slashFillers (o : TraceOpts) (t : Tree) : IdxMap Path := nontermIndex (afterTraces o t)

/-- `index_to_traces` with the storage path of every recorded trace -/
def slashTraces (o : TraceOpts) (t : Tree) : IdxMap TraceRef :=
  (indexToTraces o t).map fun e => (e.1, e.2.map fun n => (n, (leafPath n (slashTree o t)).getD []))

theorem slash_eq_phase (o : TraceOpts) (ls : List Str) (t : Tree) :
    ptbDeleteTracesSlash o (some ls) t = slashPhase ls (slashTree o t) (slashTraces o t) (slashFillers o t) := by
  simp only [ptbDeleteTracesSlash, slashTree, slashTraces, slashFillers, indexToTraces, afterTraces, ptbDeleteTraces,
    foldl_traceStepI_fst]

/-- the trace at `p` is one the annotation is asked for: no label list, or its label (bare) is in the list -/
def selected (ls : List Str) (t : Tree) (p : Path) : Bool :=
  ls.isEmpty || ls.contains (parseLabel DEFAULT_GF_SEP (labelAtPath t p)).label

theorem annotateOne_error_iff (ls : List Str) (t : Tree) (tr f : Path) :
    (∃ e, annotateOne ls t tr f = .error e) ↔ (selected ls t tr = true ∧ slashGoal f tr = none) := by
  unfold annotateOne selected
  cases hs : ls.isEmpty <;> cases hc : ls.contains (parseLabel DEFAULT_GF_SEP (labelAtPath t tr)).label <;>
    cases hg : slashGoal f tr <;> simp

theorem except_cases {α : Type} (x : Except String α) : (∃ e, x = .error e) ∨ ∃ a, x = .ok a := by
  cases x with
  | error e => exact Or.inl ⟨e, rfl⟩
  | ok a => exact Or.inr ⟨a, rfl⟩

/-- the annotation loop is rejected exactly when one of its (co-index, trace) pairs is selected and its filler neither
    c-commands nor dominates it (`S` = the selection test, the same on every annotated copy of the tree) -/
theorem annotateAll_error_iff (ls : List Str) (i2n : IdxMap Path) (t2 : Tree) (S : Path → Bool) :
    ∀ (l : List (Str × TraceRef)) (acc : Tree), Annotated t2 acc → (∀ x ∈ l, i2n.get x.1 ≠ []) →
      (∀ acc', Annotated t2 acc' → ∀ x ∈ l, selected ls acc' x.2.2 = S x.2.2) →
      ((∃ e, annotateAll ls i2n acc l = .error e) ↔
        ∃ x ∈ l, S x.2.2 = true ∧ slashGoal ((i2n.get x.1).headD []) x.2.2 = none)
  | [], acc, _, _, _ => by simp [annotateAll]
  | (co, tr) :: rest, acc, ha, hne, hS => by
    have hco := hne (co, tr) (by simp)
    cases hg : i2n.get co with
    | nil => exact absurd hg hco
    | cons f fs =>
      have h1 := annotateOne_error_iff ls acc tr.2 f
      rw [hS acc ha (co, tr) (by simp)] at h1
      simp only [annotateAll, hg]
      rcases except_cases (annotateOne ls acc tr.2 f) with ⟨e, he⟩ | ⟨t', ht'⟩
      · rw [he]
        have := h1.1 ⟨e, he⟩
        exact ⟨fun _ => ⟨(co, tr), by simp, this.1, by simpa [hg] using this.2⟩, fun _ => ⟨e, rfl⟩⟩
      · rw [ht']
        have hno : ¬ (S tr.2 = true ∧ slashGoal f tr.2 = none) := by
          intro hh
          obtain ⟨e, he⟩ := h1.2 hh
          rw [ht'] at he; cases he
        have ih := annotateAll_error_iff ls i2n t2 S rest t' (ha.trans (annotateOne_annotated ls acc t' tr.2 f ht'))
          (fun x hx => hne x (by simp [hx])) (fun a' h' x hx => hS a' h' x (by simp [hx]))
        simp only
        rw [ih]
        constructor
        · rintro ⟨x, hx, h⟩
          exact ⟨x, by simp [hx], h⟩
        · rintro ⟨x, hx, h⟩
          rcases List.mem_cons.1 hx with rfl | hx
          · exact absurd (by simpa [hg] using h) hno
          · exact ⟨x, hx, h⟩

/-! ## the bottom-up resolution -/

theorem resolveTraces_error_iff (t : Tree) (fillers : List Path) : ∀ (trs : List TraceRef) (st : ResState),
    (∃ e, resolveTraces t fillers st trs = .error e) ↔ ∃ tr ∈ trs, resolveUp t fillers (ancestors tr.2) = none
  | [], st => by simp [resolveTraces]
  | tr :: rest, (tf, ni) => by
    simp only [resolveTraces]
    cases hr : resolveUp t fillers (ancestors tr.2) with
    | none => simp [hr]
    | some f =>
      simp only
      rw [resolveTraces_error_iff t fillers rest]
      simp [hr]

theorem resolveIndices_error_iff (t : Tree) (i2n : IdxMap Path) : ∀ (m : IdxMap TraceRef) (st : ResState),
    (∃ e, resolveIndices t i2n st m = .error e) ↔
      ∃ en ∈ m, ∃ tr ∈ en.2, resolveUp t (i2n.get en.1) (ancestors tr.2) = none
  | [], st => by simp [resolveIndices]
  | (idx, trs) :: rest, st => by
    simp only [resolveIndices]
    rcases except_cases (resolveTraces t (i2n.get idx) st trs) with ⟨e, he⟩ | ⟨st', hs⟩
    · rw [he]
      have := (resolveTraces_error_iff t (i2n.get idx) trs st).1 ⟨e, he⟩
      exact ⟨fun _ => ⟨(idx, trs), by simp, this⟩, fun _ => ⟨e, rfl⟩⟩
    · rw [hs]
      have hno : ¬ ∃ tr ∈ trs, resolveUp t (i2n.get idx) (ancestors tr.2) = none := by
        intro hh
        obtain ⟨e, he⟩ := (resolveTraces_error_iff t (i2n.get idx) trs st).2 hh
        rw [hs] at he; cases he
      simp only
      rw [resolveIndices_error_iff t i2n rest st']
      constructor
      · rintro ⟨x, hx, h⟩
        exact ⟨x, by simp [hx], h⟩
      · rintro ⟨x, hx, h⟩
        rcases List.mem_cons.1 hx with rfl | hx
        · exact absurd h hno
        · exact ⟨x, hx, h⟩

theorem resolveBottomUp_error_iff (t : Tree) (i2t : IdxMap TraceRef) (i2n : IdxMap Path) :
    (∃ e, resolveBottomUp t i2t i2n = .error e) ↔
      ∃ en ∈ i2t, ∃ tr ∈ en.2, resolveUp t (i2n.get en.1) (ancestors tr.2) = none := by
  rw [← resolveIndices_error_iff t i2n i2t ([], 1)]
  unfold resolveBottomUp
  rcases except_cases (resolveIndices t i2n ([], 1) i2t) with ⟨e, he⟩ | ⟨st', hs⟩
  · rw [he]; simp
  · rw [hs]; simp

/-- the two maps the annotation loop works with: as recorded when every co-index has at most one filler, otherwise
    renumbered by the bottom-up resolution (one trace and one filler per fresh index) -/
def slashMaps (t2 : Tree) (i2t : IdxMap TraceRef) (i2n : IdxMap Path) : Except String (IdxMap TraceRef × IdxMap Path) :=
  if i2n.any (fun e => e.2.length > 1) then resolveBottomUp t2 i2t i2n else .ok (i2t, i2n)

theorem slashMaps_nonEmpty (t2 : Tree) (i2t : IdxMap TraceRef) (i2n : IdxMap Path) (hne : NonEmptyVals i2n)
    (a : IdxMap TraceRef) (b : IdxMap Path) (h : slashMaps t2 i2t i2n = .ok (a, b)) : NonEmptyVals b := by
  unfold slashMaps at h
  split at h
  · unfold resolveBottomUp at h
    split at h
    · cases h
    · simp only [Except.ok.injEq, Prod.mk.injEq] at h
      rw [← h.2]
      exact foldl_push_nonEmpty _ _ _ [] (by intro e he; simp at he)
  · cases h; exact hne

theorem slashPhase_error_iff (ls : List Str) (t2 : Tree) (i2t : IdxMap TraceRef) (i2n : IdxMap Path) (hne : NonEmptyVals i2n)
    (S : Path → Bool) (hS : ∀ a b, slashMaps t2 i2t i2n = .ok (a, b) → ∀ acc', Annotated t2 acc' →
      ∀ en ∈ a, ∀ tr ∈ en.2, selected ls acc' tr.2 = S tr.2) :
    (∃ e, slashPhase ls t2 i2t i2n = .error e) ↔
      ((i2n.any (fun e => e.2.length > 1) = true ∧
          ∃ en ∈ i2t, ∃ tr ∈ en.2, resolveUp t2 (i2n.get en.1) (ancestors tr.2) = none) ∨
       ∃ a b, slashMaps t2 i2t i2n = .ok (a, b) ∧
          ∃ en ∈ a, b.has en.1 = true ∧ ∃ tr ∈ en.2, S tr.2 = true ∧ slashGoal ((b.get en.1).headD []) tr.2 = none) := by
  have hphase : slashPhase ls t2 i2t i2n = (match slashMaps t2 i2t i2n with
      | .error e => .error e
      | .ok (a, b) =>
        match annotateAll ls b t2 ((a.filter fun e => b.has e.1).flatMap fun e => e.2.map fun tr => (e.1, tr)) with
        | .error e => .error e
        | .ok t3 => .ok (deleteList t3 (((a.filter fun e => !b.has e.1).flatMap (·.2)).map (·.1)))) := rfl
  rw [hphase]
  rcases except_cases (slashMaps t2 i2t i2n) with ⟨e, he⟩ | ⟨⟨a, b⟩, hab⟩
  · rw [he]
    have hamb : i2n.any (fun e => decide (e.2.length > 1)) = true := by
      unfold slashMaps at he
      split at he
      · assumption
      · cases he
    have he' : resolveBottomUp t2 i2t i2n = .error e := by
      unfold slashMaps at he; rw [if_pos hamb] at he; exact he
    have := (resolveBottomUp_error_iff t2 i2t i2n).1 ⟨e, he'⟩
    exact ⟨fun _ => Or.inl ⟨hamb, this⟩, fun _ => ⟨e, rfl⟩⟩
  · rw [hab]
    simp only
    have hb := slashMaps_nonEmpty t2 i2t i2n hne a b hab
    have hno : ¬ (i2n.any (fun e => decide (e.2.length > 1)) = true ∧
          ∃ en ∈ i2t, ∃ tr ∈ en.2, resolveUp t2 (i2n.get en.1) (ancestors tr.2) = none) := by
      rintro ⟨hamb, hu⟩
      obtain ⟨e, he⟩ := (resolveBottomUp_error_iff t2 i2t i2n).2 hu
      unfold slashMaps at hab; rw [if_pos hamb, he] at hab; cases hab
    have key := annotateAll_error_iff ls b t2 S
      ((a.filter fun e => b.has e.1).flatMap fun e => e.2.map fun tr => (e.1, tr)) t2 (.refl _)
      (by
        intro x hx
        obtain ⟨en, hen, hx⟩ := List.mem_flatMap.1 hx
        obtain ⟨tr, _, rfl⟩ := List.mem_map.1 hx
        exact get_ne_nil_of_has b hb _ (List.mem_filter.1 hen).2)
      (by
        intro acc' ha' x hx
        obtain ⟨en, hen, hx⟩ := List.mem_flatMap.1 hx
        obtain ⟨tr, htr, rfl⟩ := List.mem_map.1 hx
        exact hS a b hab acc' ha' en (List.mem_filter.1 hen).1 tr htr)
    have hE : (∃ e, (match annotateAll ls b t2 ((a.filter fun e => b.has e.1).flatMap fun e => e.2.map fun tr => (e.1, tr)) with
        | .error e => (.error e : Except String Tree)
        | .ok t3 => .ok (deleteList t3 (((a.filter fun (e : Str × List TraceRef) => !b.has e.1).flatMap (fun (e : Str × List TraceRef) => e.2)).map (fun (x : TraceRef) => x.1)))) = .error e) ↔
        ∃ e, annotateAll ls b t2 ((a.filter fun e => b.has e.1).flatMap fun e => e.2.map fun tr => (e.1, tr)) = .error e := by
      rcases except_cases (annotateAll ls b t2 ((a.filter fun e => b.has e.1).flatMap fun e => e.2.map fun tr => (e.1, tr)))
        with ⟨e, he⟩ | ⟨t3, h3⟩
      · rw [he]
      · rw [h3]; simp
    rw [hE, key]
    constructor
    · rintro ⟨x, hx, h1, h2⟩
      obtain ⟨en, hen, hx⟩ := List.mem_flatMap.1 hx
      obtain ⟨tr, htr, rfl⟩ := List.mem_map.1 hx
      exact Or.inr ⟨a, b, rfl, en, (List.mem_filter.1 hen).1, (List.mem_filter.1 hen).2, tr, htr, h1, h2⟩
    · rintro (h | ⟨a', b', hab', en, hen, hhas, tr, htr, h1, h2⟩)
      · exact absurd h hno
      · cases hab'
        exact ⟨(en.1, tr), List.mem_flatMap.2 ⟨en, List.mem_filter.2 ⟨hen, hhas⟩, List.mem_map.2 ⟨tr, htr, rfl⟩⟩, h1, h2⟩

/-! ## C11 clause 9 (iii'): WHEN the slash branch rejects a call -/

/-- general label list, under (H): the selection test gives the same answer `S` on every annotated copy of the tree (it
    reads the label of the TRACE TOKEN, which the annotation never writes) -/
theorem slash_rejects_iff (o : TraceOpts) (ls : List Str) (t : Tree) (S : Path → Bool)
    (H : ∀ a b, slashMaps (slashTree o t) (slashTraces o t) (slashFillers o t) = .ok (a, b) → ∀ acc',
      Annotated (slashTree o t) acc' → ∀ en ∈ a, ∀ tr ∈ en.2, selected ls acc' tr.2 = S tr.2) :
    (∃ e, ptbDeleteTracesSlash o (some ls) t = .error e) ↔
      (((slashFillers o t).any (fun e => e.2.length > 1) = true ∧
          ∃ en ∈ slashTraces o t, ∃ tr ∈ en.2,
            resolveUp (slashTree o t) ((slashFillers o t).get en.1) (ancestors tr.2) = none) ∨
       ∃ a b, slashMaps (slashTree o t) (slashTraces o t) (slashFillers o t) = .ok (a, b) ∧
          ∃ en ∈ a, b.has en.1 = true ∧ ∃ tr ∈ en.2, S tr.2 = true ∧ slashGoal ((b.get en.1).headD []) tr.2 = none) := by
  rw [slash_eq_phase]
  exact slashPhase_error_iff ls _ _ _ (nontermIndex_nonEmpty _) S H

/-- `slash` given as a flag (every trace label is selected): no hypothesis.  The call is rejected exactly when
    (1) some co-index has several fillers and, for some recorded trace, no ancestor of it is one of the fillers of its
        co-index or has one of them as a child ("no mapping found"), or
    (2) the maps are there, and some trace whose co-index has a filler is neither dominated by that filler nor below a
        sister-or-ancestor's sister of it (`slashGoal = none`: "filler neither c-commands nor dominates") -/
theorem slash_rejects_iff_flag (o : TraceOpts) (t : Tree) :
    (∃ e, ptbDeleteTracesSlash o (some []) t = .error e) ↔
      (((slashFillers o t).any (fun e => e.2.length > 1) = true ∧
          ∃ en ∈ slashTraces o t, ∃ tr ∈ en.2,
            resolveUp (slashTree o t) ((slashFillers o t).get en.1) (ancestors tr.2) = none) ∨
       ∃ a b, slashMaps (slashTree o t) (slashTraces o t) (slashFillers o t) = .ok (a, b) ∧
          ∃ en ∈ a, b.has en.1 = true ∧ ∃ tr ∈ en.2, slashGoal ((b.get en.1).headD []) tr.2 = none) := by
  have := slash_rejects_iff o [] t (fun _ => true) (fun _ _ _ _ _ _ _ _ _ => rfl)
  simpa using this

/-- `exRej` (C11Slash2): rejected by (1) - two fillers for co-index 1, and no ancestor of the trace is or has one of them -/
example : (∃ e, ptbDeleteTracesSlash { keepall := true } (some []) exRej = .error e) :=
  (slash_rejects_iff_flag _ _).2 (Or.inl (by decide))

/-- `exS` (C11Slash) is accepted: by the theorem neither (1) nor (2) holds of it -/
example : ¬ ((slashFillers { keepall := true } exS).any (fun e => e.2.length > 1) = true ∧
    ∃ en ∈ slashTraces { keepall := true } exS, ∃ tr ∈ en.2,
      resolveUp (slashTree { keepall := true } exS) ((slashFillers { keepall := true } exS).get en.1) (ancestors tr.2) = none) := by
  intro h
  obtain ⟨e, he⟩ := (slash_rejects_iff_flag { keepall := true } exS).2 (Or.inl h)
  have hok : (ptbDeleteTracesSlash { keepall := true } (some []) exS).toBool = true := by decide
  rw [he] at hok
  cases hok


end TT.Props.C11Slash3
