/-
  C04 (wave 12, audit rows 7, 2, 9, 12) — whole-tree statements for boyd_split, collapse, binarize and raising.

  Main theorems
  * `boydSplit_bag`      (row 7)  boyd_split makes one node per block: the constituent labels of the result are the
                                  labels of the input's constituents, each as often as the constituent has blocks (Perm).
  * `collapse_tags`, `collapse_sentence`, `collapse_tags_WF`   (row 2)  the "documented label concatenation": after
                                  collapse_unary_chains the tag of a token is `Spec.chainTag` (the '+'-join of the maximal
                                  unary chain ending in the token), the words are unchanged.  Needs distinct token numbers
                                  (counterexample given); holds for every `WF` tree.
  * `binarize_uids`, `binarize_kept`, `binarize_fresh_sharp`, `binarize_fresh`   (row 9)  binarize keeps the uids (and the
                                  `data` of every node with a uid) and every node without uid in the result is an
                                  @-labelled constituent (input: every node has a uid).
  * `raising_own`, `raising_uids`   (row 12)  the nodes of `raising t` are, in storage order and with unchanged `data`,
                                  the root and the non-removable nodes below it (equality, not only Perm).

  ---- part 2 ----

  C04, row 3 of the audit - "prerequisite-respecting sequence" formalised (`TT.Spec.Respects`) and proved
  never to fail (`seq_total`), then combined with the sequence theorems of `TT/Props/C04.lean`.

  The steps that can fail are `rules p` (only the presets `negra` / `ptb` exist), `boyd` (a node that has to be
  split needs a `head` entry) and `binarize b` (a constituent with more than two children needs `head` entries
  on all children and a head child).  `Respects` runs over the sequence with two Booleans of state:
    fresh  - the step before was a head marker            (then `oneHeadEach` holds: enough for `binarize`)
    marked - a head marker was applied, no `add_topnode` since (then every node has a `head` entry: enough
             for `boyd`; ALL other steps keep the entries: movers, raising, boyd, binarize (its `@` nodes are
             created with `head = true`), collapse and uncollapse (the merged / re-created nodes copy the entry))
  What is NOT accepted, and why, is documented by counterexamples at the end of the file.
-/
import TT.Props.C04
import TT.Props.C05
import TT.Props.C14
import TT.Spec.Transform
import TT.Spec.Steps
import TT.Spec.More12i
import TT.Transform.Misc
import TT.Lemmas.Steps
import TT.Lemmas.More10
import TT.Lemmas.Punct
import TT.Lemmas.RootAttach
import TT.Lemmas.Collapse
import TT.Lemmas.Binarize
import TT.Props.C12
import TT.Props.C15

namespace TT.Props.C04Total
open TT TT.Tree TT.Spec
open TT.Lemmas.Boyd (consLabelsL_eq consLabelsL_append subtreesL_append boydNode_node boydStep)
open TT.Lemmas.Collapse (not_singleton_of_two)

/-! ### example trees -/

private def lf (n u : Nat) (l : String) (h : Option Bool := none) : Tree :=
  leaf n { label := l.toList, head := h, uid := some u }
private def nd (u : Nat) (l : String) (ks : List Tree) (h : Option Bool := some false) : Tree :=
  node { label := l.toList, head := h, uid := some u } ks

/-- nested discontinuity, every node with a uid, heads marked, storage order shuffled:
    `A` has the blocks `[1] [3] [5]`, `B` has `[2] [4] [6]`, `D` (below `B`) has `[2] [4]` -/
def exD : Tree :=
  nd 100 "S" [
    nd 101 "A" [lf 5 15 "x" (some false), lf 1 11 "x" (some true), nd 103 "C" [lf 3 13 "c" (some true)]] (some true),
    nd 102 "B" [lf 6 16 "y" (some true), nd 104 "D" [lf 2 12 "d" (some true), lf 4 14 "d" (some false)]],
    lf 7 17 "z"]

/-- a 4-ary node above a 4-ary node and a node whose label already starts with '@' -/
def exB : Tree :=
  nd 100 "S" [
    lf 7 17 "D" (some false),
    nd 101 "X" [lf 1 11 "A" (some true), lf 2 12 "B" (some false), lf 3 13 "C" (some false), lf 8 18 "C" (some false)],
    nd 102 "@Y" [lf 5 15 "E", lf 6 16 "F"] (some true),
    lf 4 14 "G" (some false)]

example : WF exD = true ∧ uidsOK exD = true ∧ WF exB = true ∧ uidsOK exB = true := by decide +kernel

/-! ### row 7: boyd_split makes one node per block -/

/-- the label of every constituent of `l`, once per block of the constituent -/
def blockLabels (l : List Tree) : List Str :=
  (l.filter (!·.isLeaf)).flatMap fun s => List.replicate s.blocks.length s.fields.label

theorem blockLabels_append (a b : List Tree) : blockLabels (a ++ b) = blockLabels a ++ blockLabels b := by
  simp [blockLabels]

theorem consLabelsL_perm {a b : List Tree} (h : a.Perm b) : (consLabelsL a).Perm (consLabelsL b) := by
  rw [consLabelsL_eq, consLabelsL_eq]; exact h.flatMap_right _

theorem numberBlocks_consLabels (f : Fields) : ∀ (i : Nat) (G : List (List Tree)),
    (consLabelsL (numberBlocks f i G)).Perm (List.replicate G.length f.label ++ consLabelsL G.flatten)
  | _, [] => by simp [numberBlocks, consLabelsL]
  | i, g :: G => by
    have ih := numberBlocks_consLabels f (i + 1) G
    simp only [numberBlocks, consLabelsL, consLabels, List.length_cons, List.replicate_succ,
      List.flatten_cons, consLabelsL_append, List.cons_append]
    refine List.Perm.cons _ ?_
    refine ((List.Perm.append_left _ ih).trans ?_)
    rw [← List.append_assoc, ← List.append_assoc]
    exact List.Perm.append_right _ List.perm_append_comm

theorem boydStep_consLabels (f : Fields) (ks' r : List Tree) (h : boydStep f ks' = .ok r) :
    (consLabelsL r).Perm (List.replicate r.length f.label ++ consLabelsL ks') := by
  unfold boydStep at h
  split at h
  · simp only [Except.ok.injEq] at h
    subst h
    simp [consLabelsL, consLabels]
  · split at h
    · simp at h
    · simp only [Except.ok.injEq] at h
      subst h
      refine (numberBlocks_consLabels f 0 _).trans ?_
      rw [Lemmas.Boyd.numberBlocks_length, Lemmas.Boyd.groupAdjacent_flatten]
      exact List.Perm.append_left _ (consLabelsL_perm (sortBy_perm leftmost ks'))

mutual
theorem boydNode_bag : (t : Tree) → (r : List Tree) → boydNode t = .ok r →
    noEmpty t = true → t.leafNums.Nodup → (consLabelsL r).Perm (blockLabels (subtrees t))
  | .leaf n f, r, h, _, _ => by
    simp only [boydNode, Except.ok.injEq] at h
    subst h
    simp [consLabelsL, consLabels, blockLabels, subtrees, isLeaf]
  | .node f ks, r, h, hne, hn => by
    have hb := (Props.C05.boydNode_blocks f ks r h hne hn).1
    have hlen : r.length = (blocks (node f ks)).length := by
      rw [← hb, List.length_map]
    rw [boydNode_node] at h
    cases hk : boydKids ks with
    | error e => simp [hk] at h
    | ok ks' =>
      simp only [hk] at h
      simp only [noEmpty, Bool.and_eq_true, Bool.not_eq_true', List.isEmpty_eq_false_iff] at hne
      rw [Lemmas.Boyd.leafNums_node] at hn
      have ih := boydKids_bag ks ks' hk hne.2 hn
      refine (boydStep_consLabels f ks' r h).trans ?_
      have : blockLabels (subtrees (node f ks)) =
          List.replicate (blocks (node f ks)).length f.label ++ blockLabels (subtreesL ks) := by
        simp [blockLabels, subtrees, isLeaf, fields]
      rw [this, hlen]
      exact List.Perm.append_left _ ih
theorem boydKids_bag : (ks : List Tree) → (ks' : List Tree) → boydKids ks = .ok ks' →
    noEmptyL ks = true → (ks.flatMap leafNums).Nodup → (consLabelsL ks').Perm (blockLabels (subtreesL ks))
  | [], ks', h, _, _ => by
    simp only [boydKids, Except.ok.injEq] at h
    subst h
    simp [consLabelsL, subtreesL, blockLabels]
  | t :: ts, ks', h, hne, hn => by
    simp only [boydKids] at h
    cases ht : boydNode t with
    | error e => simp [ht] at h
    | ok a =>
      cases hts : boydKids ts with
      | error e => simp [ht, hts] at h
      | ok b =>
        simp only [ht, hts, Except.ok.injEq] at h
        subst h
        simp only [noEmptyL, Bool.and_eq_true] at hne
        rw [List.flatMap_cons, List.nodup_append] at hn
        rw [consLabelsL_append, subtreesL, blockLabels_append]
        exact (boydNode_bag t a ht hne.1 hn.1).append (boydKids_bag ts b hts hne.2 hn.2.1)
end

/-- boyd_split makes one node per block: the constituent labels of the result are the labels of
    the constituents of the input, each as often as the constituent has blocks -/
theorem boydSplit_bag (t t' : Tree) (hwf : WF t = true) (h : boydSplit t = .ok t') :
    (consLabels t').Perm
      ((t.subtrees.filter (!·.isLeaf)).flatMap fun s => List.replicate s.blocks.length s.fields.label) := by
  have := boydNode_bag t [t'] (Props.C05.boydSplit_ok t t' h) (Lemmas.WF.WF_noEmpty t hwf)
    (Lemmas.WF.WF_nodup t hwf)
  simpa [consLabelsL, blockLabels] using this

example : ∃ t', boydSplit exD = .ok t' ∧ WF exD = true ∧
    consLabels t' = ["S", "A", "A", "C", "A", "B", "D", "B", "D", "B"].map String.toList ∧
    ((exD.subtrees.filter (!·.isLeaf)).flatMap fun s => List.replicate s.blocks.length s.fields.label) =
      ["S", "A", "A", "A", "C", "B", "B", "B", "D", "D"].map String.toList :=
  ⟨_, rfl, by decide +kernel, by decide +kernel, by decide +kernel⟩

/-! ### row 2: the tags after collapse_unary_chains -/

/-- longest lower end of a line consisting of unary links -/
def sfx (l : List Tree) : List Tree := (l.reverse.takeWhile unaryLink).reverse

/-- '+'-join of the labels -/
def J (l : List Tree) : Str := List.intercalate ['+'] (l.map (·.fields.label))

theorem chainTag_eq (t : Tree) (k : Nat) : chainTag t k = J (sfx (lineTo k t)) := rfl

theorem takeWhile_snoc {α} (p : α → Bool) (x : α) : ∀ l : List α,
    (l ++ [x]).takeWhile p = if p x && l.all p then l ++ [x] else l.takeWhile p
  | [] => by by_cases hx : p x = true <;> simp [hx]
  | a :: l => by
    have ih := takeWhile_snoc p x l
    by_cases ha : p a = true
    · simp only [List.cons_append, List.takeWhile_cons_of_pos ha, ih, List.all_cons, ha, Bool.true_and]
      split <;> rfl
    · simp [List.takeWhile_cons_of_neg ha, ha]

theorem sfx_cons (x : Tree) (l : List Tree) :
    sfx (x :: l) = if unaryLink x && l.all unaryLink then x :: l else sfx l := by
  simp only [sfx, List.reverse_cons, takeWhile_snoc, List.all_reverse]
  split <;> simp

theorem J_cons (x : Tree) (l : List Tree) (h : l ≠ []) :
    J (x :: l) = x.fields.label ++ '+' :: J l := by
  cases l with
  | nil => exact absurd rfl h
  | cons y ys => simp [J, List.intercalate]

mutual
theorem lineTo_eq_nil : (t : Tree) → (k : Nat) → (lineTo k t = [] ↔ k ∉ t.leafNums)
  | .leaf n f, k => by
    simp only [lineTo, leafNums, leaves, List.map_cons, num, List.map_nil, List.mem_singleton]
    by_cases h : n = k <;> simp [h, eq_comm]
  | .node f ks, k => by
    have ih := lineToL_eq_nil ks k
    rw [Lemmas.Boyd.leafNums_node, ← ih, lineTo]
    cases lineToL k ks <;> simp
theorem lineToL_eq_nil : (ks : List Tree) → (k : Nat) → (lineToL k ks = [] ↔ k ∉ ks.flatMap leafNums)
  | [], k => by simp [lineToL]
  | t :: ts, k => by
    have h1 := lineTo_eq_nil t k
    have h2 := lineToL_eq_nil ts k
    rw [lineToL, List.flatMap_cons, List.mem_append, not_or, ← h1, ← h2]
    cases h : lineTo k t <;> simp
end

theorem lineTo_node (f : Fields) (ks : List Tree) (k : Nat) (h : k ∈ ks.flatMap leafNums) :
    lineTo k (node f ks) = node f ks :: lineToL k ks ∧ lineToL k ks ≠ [] := by
  have hne : lineToL k ks ≠ [] := fun h0 => (lineToL_eq_nil ks k).1 h0 h
  refine ⟨?_, hne⟩
  rw [lineTo]
  cases h : lineToL k ks with
  | nil => exact absurd h hne
  | cons a l => rfl

/-- what the theorem is about: number, word and tag of a token -/
def tk (l : Tree) : Nat × Option Str × Str := (l.num, l.fields.word, l.fields.label)

theorem mem_leafNums_of_mem_leaves {t l : Tree} (h : l ∈ t.leaves) : l.num ∈ t.leafNums :=
  List.mem_map.2 ⟨l, h, rfl⟩

theorem mem_flatMap_leafNums {ks : List Tree} {l : Tree} (h : l ∈ leavesL ks) :
    l.num ∈ ks.flatMap leafNums := by
  rw [Lemmas.Boyd.leavesL_eq] at h
  obtain ⟨k, hk, hl⟩ := List.mem_flatMap.1 h
  exact List.mem_flatMap.2 ⟨k, hk, mem_leafNums_of_mem_leaves hl⟩

theorem unaryLink_two (f : Fields) (a b : Tree) (l : List Tree) : unaryLink (node f (a :: b :: l)) = false := by
  simp [unaryLink, isLeaf, kids]

theorem unaryLink_one (f : Fields) (a : Tree) : unaryLink (node f [a]) = true := by
  simp [unaryLink, isLeaf, kids]

mutual
theorem leaves_collapse_tag : (t : Tree) → t.leafNums.Nodup →
    (collapse t).leaves.map tk = t.leaves.map fun l => (l.num, l.fields.word, J (sfx (lineTo l.num t)))
  | .leaf n f, _ => by
    simp [collapse, leaves, tk, lineTo, sfx, unaryLink, isLeaf, J, List.intercalate, num, fields]
  | .node f [], _ => by simp [collapse, collapseL, leaves, leavesL]
  | .node f [k], hn => by
    have hn' : k.leafNums.Nodup := by simpa [Lemmas.Boyd.leafNums_node] using hn
    rw [collapse, leaves_collapseInto_tag f k hn']
    simp only [leaves, leavesL, List.append_nil]
    refine List.map_congr_left fun l hl => ?_
    obtain ⟨h1, h2⟩ := lineTo_node f [k] l.num (by simpa using mem_leafNums_of_mem_leaves hl)
    have h3 : lineToL l.num [k] = lineTo l.num k := by
      rw [lineToL]; cases lineTo l.num k <;> rfl
    rw [h3] at h1 h2
    rw [h1, sfx_cons, unaryLink_one, Bool.true_and]
    by_cases hall : (lineTo l.num k).all unaryLink = true
    · simp only [hall, if_true]; rw [J_cons _ _ h2]; rfl
    · simp only [hall]; rfl
  | .node f (k1 :: k2 :: ks), hn => by
    rw [collapse.eq_3 _ _ (not_singleton_of_two k1 k2 ks)]
    rw [Lemmas.Boyd.leafNums_node] at hn
    simp only [leaves]
    rw [leavesL_collapseL_tag _ hn]
    refine List.map_congr_left fun l hl => ?_
    have hm := mem_flatMap_leafNums hl
    obtain ⟨h1, _⟩ := lineTo_node f (k1 :: k2 :: ks) l.num hm
    rw [h1, sfx_cons, unaryLink_two, Bool.false_and]; rfl
theorem leaves_collapseInto_tag (f : Fields) : (t : Tree) → t.leafNums.Nodup →
    (collapseInto f t).leaves.map tk = t.leaves.map fun l =>
      (l.num, l.fields.word,
        if (lineTo l.num t).all unaryLink then f.label ++ '+' :: J (lineTo l.num t)
        else J (sfx (lineTo l.num t)))
  | .leaf n g, _ => by
    simp [collapseInto, leaves, tk, lineTo, unaryLink, isLeaf, J, List.intercalate, num,
      fields, joinPlus]
  | .node g [], _ => by simp [collapseInto, collapseL, leaves, leavesL]
  | .node g [k], hn => by
    have hn' : k.leafNums.Nodup := by simpa [Lemmas.Boyd.leafNums_node] using hn
    rw [collapseInto, leaves_collapseInto_tag _ k hn']
    simp only [leaves, leavesL, List.append_nil]
    refine List.map_congr_left fun l hl => ?_
    obtain ⟨h1, h2⟩ := lineTo_node g [k] l.num (by simpa using mem_leafNums_of_mem_leaves hl)
    have h3 : lineToL l.num [k] = lineTo l.num k := by
      rw [lineToL]; cases lineTo l.num k <;> rfl
    rw [h3] at h1 h2
    rw [h1, sfx_cons, unaryLink_one, Bool.true_and, List.all_cons, unaryLink_one, Bool.true_and]
    by_cases hall : (lineTo l.num k).all unaryLink = true
    · simp only [hall, if_true]; rw [J_cons _ _ h2]; simp [joinPlus, fields]
    · simp [hall]
  | .node g (k1 :: k2 :: ks), hn => by
    rw [collapseInto.eq_3 _ _ _ (not_singleton_of_two k1 k2 ks)]
    rw [Lemmas.Boyd.leafNums_node] at hn
    simp only [leaves]
    rw [leavesL_collapseL_tag _ hn]
    refine List.map_congr_left fun l hl => ?_
    have hm := mem_flatMap_leafNums hl
    obtain ⟨h1, _⟩ := lineTo_node g (k1 :: k2 :: ks) l.num hm
    rw [h1, sfx_cons, List.all_cons, unaryLink_two, Bool.false_and]; rfl
theorem leavesL_collapseL_tag : (ts : List Tree) → (ts.flatMap leafNums).Nodup →
    (leavesL (collapseL ts)).map tk = (leavesL ts).map fun l =>
      (l.num, l.fields.word, J (sfx (lineToL l.num ts)))
  | [], _ => by simp [collapseL, leavesL]
  | t :: ts, hn => by
    rw [List.flatMap_cons, List.nodup_append] at hn
    simp only [collapseL, leavesL, List.map_append]
    rw [leaves_collapse_tag t hn.1, leavesL_collapseL_tag ts hn.2.1]
    congr 1
    · refine List.map_congr_left fun l hl => ?_
      have hne : lineTo l.num t ≠ [] := fun h0 =>
        (lineTo_eq_nil t l.num).1 h0 (mem_leafNums_of_mem_leaves hl)
      rw [lineToL]
      cases h : lineTo l.num t with
      | nil => exact absurd h hne
      | cons a b => rfl
    · refine List.map_congr_left fun l hl => ?_
      have hm := mem_flatMap_leafNums hl
      have h0 : lineTo l.num t = [] :=
        (lineTo_eq_nil t l.num).2 fun hin => hn.2.2 _ hin _ hm rfl
      rw [lineToL, h0]
end

theorem collapse_toks (t : Tree) (hn : t.leafNums.Nodup) :
    (collapse t).terminals.map tk = t.terminals.map fun l => (l.num, l.fields.word, chainTag t l.num) := by
  have h := congrArg (sortBy (fun (x : Nat × Option Str × Str) => x.1)) (leaves_collapse_tag t hn)
  rw [sortBy_map num (fun (x : Nat × Option Str × Str) => x.1) _ (fun _ => rfl),
    sortBy_map num (fun (x : Nat × Option Str × Str) => x.1) _ (fun _ => rfl)] at h
  exact h

/-- the "documented label concatenation": after `collapse_unary_chains` the tag of every token is the
    '+'-join of the labels of the maximal unary chain ending in the token -/
theorem collapse_tags (t : Tree) (hn : t.leafNums.Nodup) :
    (collapse t).terminals.map (·.fields.label) = t.terminals.map (fun l => chainTag t l.num) := by
  have h := congrArg (List.map fun (x : Nat × Option Str × Str) => x.2.2) (collapse_toks t hn)
  simpa [tk, Function.comp_def] using h

/-- ... and the whole sentence: words unchanged, tags joined -/
theorem collapse_sentence (t : Tree) (hn : t.leafNums.Nodup) :
    sentence (collapse t) = t.terminals.map fun l => (l.fields.word, chainTag t l.num) := by
  have h := congrArg (List.map fun (x : Nat × Option Str × Str) => x.2) (collapse_toks t hn)
  simpa [tk, Function.comp_def, sentence] using h

theorem collapse_tags_WF (t : Tree) (h : WF t = true) :
    (collapse t).terminals.map (·.fields.label) = t.terminals.map (fun l => chainTag t l.num) :=
  collapse_tags t (Lemmas.WF.WF_nodup t h)

example : Props.C14.exChains.leafNums.Nodup ∧
    Props.C14.exChains.terminals.map (fun l => chainTag Props.C14.exChains l.num) =
      ["N".toList, "AP+AX+AY+ADV".toList, "V".toList] := by decide +kernel

example : WF Props.C14.exChains = true ∧ WF exD = true ∧
    exD.terminals.map (fun l => chainTag exD l.num) = ["x", "d", "C+c", "d", "x", "y", "z"].map String.toList := by
  decide +kernel

/-- token numbers must be distinct: `chainTag` finds a token by its number -/
example : ∃ t : Tree, (collapse t).terminals.map (·.fields.label) ≠ t.terminals.map (fun l => chainTag t l.num) :=
  ⟨node {} [node { label := "A".toList } [leaf 1 { label := "x".toList }], leaf 1 { label := "y".toList }],
    by decide +kernel⟩

/-! ### row 9: binarize -/

/-- what a node is, apart from its children: token or constituent, and its `data` -/
def own (s : Tree) : Bool × Fields := (s.isLeaf, s.fields)

/-- a node-wise measure that does not look at the children -/
def pick {β} (φ : Bool × Fields → Option β) (t : Tree) : List β := t.subtrees.filterMap fun s => φ (own s)

theorem pick_node {β} (φ : Bool × Fields → Option β) (f : Fields) (ks : List Tree) :
    pick φ (node f ks) = (φ (false, f)).toList ++ ks.flatMap (pick φ) := by
  simp only [pick, subtrees, Lemmas.Nav.subtreesL_eq, List.filterMap_cons, own, isLeaf, fields,
    List.filterMap_flatMap]
  cases φ (false, f) <;> rfl

open TT.Lemmas.Binarize in
/-- binarize keeps every node-wise measure that does not see the fresh nodes, up to order -/
theorem binarize_pick {β} (φ : Bool × Fields → Option β) (bare : Bool)
    (hφ : ∀ l, φ (false, binFields bare l) = none) :
    ∀ (t t' : Tree), binarizeAux bare t = .ok t' → (pick φ t').Perm (pick φ t) := by
  refine binarize_induct bare (fun t t' => (pick φ t').Perm (pick φ t)) ?_ ?_ ?_
  · intro n f; exact List.Perm.refl _
  · intro f ks _ hP _
    rw [pick_node, pick_node, List.flatMap_map]
    exact List.Perm.append_left _ (Lemmas.Nav.perm_flatMap_of_forall _ _ ks hP)
  · intro f ks two _ hP _ hout
    rw [pick_node, pick_node]
    refine List.Perm.append_left _ ?_
    refine (hout.flatMap_perm (pick φ) ?_).trans ?_
    · intro inner
      rw [pick_node, hφ]; rfl
    · refine (List.Perm.flatMap_right _ (sortBy_perm leftmost _)).trans ?_
      rw [List.flatMap_map]
      exact Lemmas.Nav.perm_flatMap_of_forall _ _ ks hP

/-- identity: the uids of the result are exactly the uids of the input (no node with a uid is lost,
    duplicated or invented) -/
theorem binarize_uids (bare : Bool) (t t' : Tree) (h : Tree.binarize bare t = .ok t') :
    (t'.subtrees.filterMap (·.fields.uid)).Perm (t.subtrees.filterMap (·.fields.uid)) :=
  binarize_pick (fun x => x.2.uid) bare (fun _ => rfl) t t' h

theorem filterMap_ite {α β} (p : α → Bool) (g : α → β) : ∀ l : List α,
    (l.filterMap fun s => if p s then some (g s) else none) = (l.filter p).map g
  | [] => rfl
  | a :: l => by
    by_cases h : p a = true <;> simp [h, filterMap_ite p g l]

/-- ... and every node that carries a uid is still what it was (token or constituent, same `data`) -/
theorem binarize_kept (bare : Bool) (t t' : Tree) (h : Tree.binarize bare t = .ok t') :
    ((t'.subtrees.filter (·.fields.uid.isSome)).map own).Perm
      ((t.subtrees.filter (·.fields.uid.isSome)).map own) := by
  have := binarize_pick (fun x => if x.2.uid.isSome then some x else none) bare (fun _ => rfl) t t' h
  simp only [pick] at this
  rw [← filterMap_ite, ← filterMap_ite]
  exact this

/-- the nodes binarize adds are the ones without uid, and they are @-labelled constituents:
    in the result of binarizing a tree in which every node has a uid, a node without uid is a
    constituent whose label starts with '@' -/
theorem binarize_fresh_sharp (bare : Bool) (t t' : Tree) (h : Tree.binarize bare t = .ok t')
    (hu : ∀ s ∈ t.subtrees, s.fields.uid.isSome = true) :
    ∀ s ∈ t'.subtrees, s.fields.uid = none → isBinNode s = true := by
  have hp := binarize_pick (fun x => if x.2.uid.isNone && !(!x.1 && x.2.label.head? == some '@') then some () else none)
    bare (fun _ => by simp [binFields]) t t' h
  have h0 : pick (fun x => if x.2.uid.isNone && !(!x.1 && x.2.label.head? == some '@') then some () else none) t = [] := by
    simp only [pick, List.filterMap_eq_nil_iff]
    intro s hs
    have := hu s hs
    cases hh : s.fields.uid <;> simp_all [own]
  rw [h0, List.perm_nil, pick, List.filterMap_eq_nil_iff] at hp
  intro s hs hnone
  have := hp s hs
  cases s with
  | leaf n f => simp_all [own, isLeaf, fields]
  | node f ks => simp_all [own, isLeaf, fields, isBinNode]

theorem binarize_fresh (bare : Bool) (t t' : Tree) (h : Tree.binarize bare t = .ok t') (hu : uidsOK t = true) :
    ∀ s ∈ t'.subtrees, s.fields.uid.isSome = true ∨ s.fields.label.head? = some '@' := by
  simp only [uidsOK, Bool.and_eq_true, List.all_eq_true] at hu
  intro s hs
  cases hh : s.fields.uid with
  | some u => exact Or.inl rfl
  | none =>
    right
    have := binarize_fresh_sharp bare t t' h hu.1 s hs hh
    cases s with
    | leaf n f => simp [isBinNode] at this
    | node f ks => simpa [isBinNode, fields] using this

example : ∃ t', Tree.binarize false exB = .ok t' ∧ uidsOK exB = true ∧
    t'.subtrees.map (fun s => (String.ofList s.fields.label, s.fields.uid)) =
      [("S", some 100), ("@S", none), ("@S", none), ("@Y", some 102), ("E", some 15), ("F", some 16),
       ("D", some 17), ("G", some 14), ("X", some 101), ("@X", none), ("@X", none), ("A", some 11),
       ("B", some 12), ("C", some 13), ("C", some 18)] :=
  ⟨_, rfl, by decide +kernel, by decide +kernel⟩

/-- the hypothesis "every node of the input has a uid" cannot be dropped: a node of the input without uid
    is still there afterwards, and need not be an @-node -/
example : ∃ t t', Tree.binarize false t = .ok t' ∧
    ¬ ∀ s ∈ t'.subtrees, s.fields.uid.isSome = true ∨ s.fields.label.head? = some '@' :=
  ⟨node { label := "S".toList } [leaf 1 {}], _, rfl, by decide +kernel⟩

/-! ### row 12: raising -/

/-- the nodes that survive below a surviving ancestor -/
def keptOwn (l : List Tree) : List (Bool × Fields) := (l.filter (fun s => !removable s)).map own

theorem keptOwn_append (a b : List Tree) : keptOwn (a ++ b) = keptOwn a ++ keptOwn b := by
  simp [keptOwn]

mutual
theorem raiseNode_own : (t : Tree) → (subtreesL (raiseNode t)).map own = keptOwn (subtrees t)
  | .leaf n f => by simp [raiseNode, subtreesL, subtrees, keptOwn, removable]
  | .node f ks => by
    simp only [raiseNode]
    split
    · rename_i h
      rw [raiseKids_own ks]
      simp [subtrees, keptOwn, h]
    · rename_i h
      simp only [subtreesL, subtrees, List.append_nil, List.map_cons, raiseKids_own ks]
      simp [keptOwn, h, own, isLeaf, fields]
theorem raiseKids_own : (ks : List Tree) → (subtreesL (raiseKids ks)).map own = keptOwn (subtreesL ks)
  | [] => by simp [raiseKids, subtreesL, keptOwn]
  | t :: ts => by
    simp only [raiseKids, Lemmas.Boyd.subtreesL_append, subtreesL, keptOwn_append, List.map_append,
      raiseNode_own t, raiseKids_own ts]
end

/-- raising: the nodes of the result are, in storage order and with unchanged `data`, the root and the
    non-removable nodes below it (tokens included) -/
theorem raising_own (t : Tree) :
    (raising t).subtrees.map own = own t :: (t.subtrees.tail.filter (fun s => !removable s)).map own := by
  cases t with
  | leaf n f => simp [raising, subtrees]
  | node f ks =>
    simp only [raising, subtrees, List.map_cons, List.tail_cons, raiseKids_own ks]
    rfl

/-- identity of the surviving nodes -/
theorem raising_uids (t : Tree) :
    (raising t).subtrees.filterMap (·.fields.uid) =
      t.fields.uid.toList ++ (t.subtrees.tail.filter (fun s => !removable s)).filterMap (·.fields.uid) := by
  have h := congrArg (List.filterMap fun (x : Bool × Fields) => x.2.uid) (raising_own t)
  simp only [List.filterMap_map, List.filterMap_cons] at h
  rw [show ((fun (x : Bool × Fields) => x.2.uid) ∘ own) = fun s : Tree => s.fields.uid from rfl] at h
  rw [h]
  simp only [own]
  cases t.fields.uid <;> rfl

/-- `exD` after `boyd_split`: 5 of its 10 constituents are removable (two `A` blocks, two `B` blocks, one `D`
    block); raising leaves every uid exactly once -/
example : ∃ t', boydSplit exD = .ok t' ∧
    (t'.subtrees.filter removable).map (·.fields.uid) = [some 101, some 101, some 102, some 102, some 104] ∧
    (raising t').subtrees.filterMap (·.fields.uid) = [100, 101, 11, 103, 13, 15, 104, 12, 14, 102, 16, 17] ∧
    t'.fields.uid.toList ++ (t'.subtrees.tail.filter (fun s => !removable s)).filterMap (·.fields.uid) =
      [100, 101, 11, 103, 13, 15, 104, 12, 14, 102, 16, 17] :=
  ⟨_, rfl, by decide +kernel, by decide +kernel, by decide +kernel⟩

/-- the root is kept even when its flags say "removable" (hence the root is treated apart) -/
example : (raising (node { split := some true, headBlock := some false, uid := some 1 }
    [node { split := some true, headBlock := some false, uid := some 2 } [lf 1 3 "a"], lf 2 4 "b"])).subtrees.filterMap
      (·.fields.uid) = [1, 3, 4] := by decide +kernel

end TT.Props.C04Total

/-! ## part 2: prerequisite-respecting sequences never fail (row 3) -/

namespace TT.Props.C04Total
open TT TT.Tree TT.Spec
open TT.Lemmas.Steps

/-- every node (token or constituent) carries a `head` entry -/
def sq_hd (t : Tree) : Bool := t.subtrees.all fun s => s.fields.head.isSome

theorem sq_hd_leaf (n : Nat) (f : Fields) : sq_hd (leaf n f) = f.head.isSome := by
  simp [sq_hd, subtrees, fields]

theorem sq_hd_node (f : Fields) (ks : List Tree) : sq_hd (node f ks) = (f.head.isSome && ks.all sq_hd) := by
  simp only [sq_hd, subtrees, List.all_cons, Lemmas.Nav.subtreesL_eq, List.all_flatMap]
  rfl

theorem sq_hd_of_kids (m : Tree) : m.fields.head.isSome = true →
    (∀ s ∈ m.subtrees, ∀ k ∈ s.kids, k.fields.head.isSome = true) → sq_hd m = true := by
  induction m using Lemmas.WF.tree_ind with
  | hl n f => intro h _; rw [sq_hd_leaf]; exact h
  | hn f ks ih =>
    intro h1 h2
    rw [sq_hd_node, Bool.and_eq_true, List.all_eq_true]
    refine ⟨h1, fun k hk => ih k hk (h2 _ (Lemmas.WF.self_mem_subtrees _) k hk) ?_⟩
    exact fun s hs c hc => h2 s ((Lemmas.WF.mem_subtrees_node f ks s).2 (Or.inr ⟨k, hk, hs⟩)) c hc

theorem sq_hd_of_oneHeadEach (m : Tree) (h : oneHeadEach m = true) : sq_hd m = true :=
  sq_hd_of_kids m (Lemmas.More10.headed_of_oneHeadEach m h).1 (Lemmas.More10.headed_of_oneHeadEach m h).2

/-- `boydNode` is total on a tree all of whose nodes carry a `head` entry -/
theorem sq_boydNode_ok (t : Tree) : sq_hd t = true → ∃ r, boydNode t = .ok r := by
  induction t using Lemmas.WF.tree_ind with
  | hl n f => intro _; exact ⟨_, by rw [boydNode]⟩
  | hn f ks ih =>
    intro h
    rw [sq_hd_node, Bool.and_eq_true, List.all_eq_true] at h
    obtain ⟨ks', hks'⟩ := Lemmas.More10.boydKids_ok ks (fun k hk => ih k hk (h.2 k hk))
    rw [Lemmas.Boyd.boydNode_node, hks']
    simp only [Lemmas.Boyd.boydStep]
    split
    · exact ⟨_, rfl⟩
    · have : f.head.isNone = false := by cases hf : f.head <;> simp_all
      simp [this]

/-- `boyd_split` succeeds on a well-formed tree (or a bare token) whose nodes carry `head` entries -/
theorem sq_boyd_ok (t : Tree) (hw : WFc t = true) (h : sq_hd t = true) : ∃ t', boydSplit t = .ok t' := by
  rcases WFc_cases t hw with hwf | ⟨f, rfl⟩
  · obtain ⟨r, hr⟩ := sq_boydNode_ok t h
    exact Lemmas.More10.boydSplit_ok_of_WF t r hwf hr
  · exact ⟨_, by rw [boydSplit, boydNode]⟩

/-- `binarize` succeeds on a tree each of whose constituents has exactly one head child -/
theorem sq_binarize_ok (b : Bool) (t : Tree) (h : oneHeadEach t = true) : ∃ t', Tree.binarize b t = .ok t' := by
  refine Props.C14.binarize_accepts b t ?_
  intro s hs f ks hsk hl
  simp only [oneHeadEach, Bool.and_eq_true, List.all_eq_true] at h
  have := h.2 s hs
  subst hsk
  cases ks with
  | nil => simp at hl
  | cons k ks =>
    simp only [Bool.and_eq_true, beq_iff_eq, List.all_eq_true] at this
    refine ⟨this.2, ?_⟩
    have hpos : 0 < ((k :: ks).filter (fun c => c.fields.head == some true)).length := by omega
    obtain ⟨c, hc⟩ := List.exists_mem_of_length_pos hpos
    rw [List.mem_filter] at hc
    exact ⟨c, hc.1, by simpa using hc.2⟩

/-- a head marker applied to a well-formed tree (or a bare token) succeeds and gives one head per constituent -/
theorem sq_marker_ok (s : TStep) (t : Tree) (hw : WFc t = true) (hm : s.marks = true) :
    ∃ m, s.apply t = .ok m ∧ oneHeadEach m = true := by
  have hne : t.noEmpty = true := WFc_noEmpty t hw
  have hsd : sibDistinct t = true := by
    rcases WFc_cases t hw with hwf | ⟨f, rfl⟩
    · exact Lemmas.WF.WF_sibDistinct t hwf
    · simp [sibDistinct, subtrees]
  cases s with
  | negra => exact ⟨_, rfl, Props.C15.negra_oneHead t hne hsd⟩
  | rules p =>
    cases p with
    | negra => exact ⟨_, rfl, Props.C15.rules_oneHead _ t hne hsd⟩
    | ptb => exact ⟨_, rfl, Props.C15.rules_oneHead _ t hne hsd⟩
    | other => simp [TStep.marks] at hm
  | _ => simp [TStep.marks] at hm

/-! ### steps that keep the `head` entries -/

theorem sq_hd_findLeaf (t : Tree) (k : Nat) (l : Tree) (h : sq_hd t = true) (hl : t.findLeaf k = some l) :
    sq_hd l = true := by
  have hm := Lemmas.Punct.leaves_subset_subtrees t l (Lemmas.Punct.findLeaf_mem t k l hl).1
  obtain ⟨f, rfl⟩ := Lemmas.Punct.findLeaf_isLeaf t k l hl
  rw [sq_hd_leaf]
  simp only [sq_hd, List.all_eq_true] at h
  exact h _ hm

mutual
theorem sq_hd_removeLeaf (k : Nat) : (t : Tree) → sq_hd t = true → sq_hd (removeLeaf k t) = true
  | .leaf n f => by simp [removeLeaf]
  | .node f ks => by
    intro h
    rw [sq_hd_node, Bool.and_eq_true] at h
    rw [removeLeaf, sq_hd_node, Bool.and_eq_true]
    exact ⟨h.1, sq_hd_removeLeafL k ks h.2⟩
theorem sq_hd_removeLeafL (k : Nat) : (ks : List Tree) → ks.all sq_hd = true → (removeLeafL k ks).all sq_hd = true
  | [] => by simp [removeLeafL]
  | .leaf n f :: ts => by
    intro h
    rw [List.all_cons, Bool.and_eq_true] at h
    by_cases hn : n = k
    · simp [removeLeafL, hn, h.2]
    · simp [removeLeafL, hn, h.1, sq_hd_removeLeafL k ts h.2]
  | .node f ks :: ts => by
    intro h
    rw [List.all_cons, Bool.and_eq_true, sq_hd_node, Bool.and_eq_true] at h
    simp [removeLeafL, sq_hd_node, h.1.1, sq_hd_removeLeafL k ks h.1.2, sq_hd_removeLeafL k ts h.2]
end

mutual
theorem sq_hd_appendBeside (j : Nat) (x : Tree) (hx : sq_hd x = true) :
    (t : Tree) → sq_hd t = true → sq_hd (appendBeside j x t) = true
  | .leaf n f => by simp [appendBeside]
  | .node f ks => by
    intro h
    rw [sq_hd_node, Bool.and_eq_true] at h
    simp only [appendBeside]
    split
    · simp [sq_hd_node, h.1, h.2, hx]
    · rw [sq_hd_node, Bool.and_eq_true]; exact ⟨h.1, sq_hd_appendBesideL j x hx ks h.2⟩
theorem sq_hd_appendBesideL (j : Nat) (x : Tree) (hx : sq_hd x = true) :
    (ks : List Tree) → ks.all sq_hd = true → (appendBesideL j x ks).all sq_hd = true
  | [] => by simp [appendBesideL]
  | t :: ts => by
    intro h
    rw [List.all_cons, Bool.and_eq_true] at h
    simp [appendBesideL, sq_hd_appendBeside j x hx t h.1, sq_hd_appendBesideL j x hx ts h.2]
end

theorem sq_hd_appendToRoot (t x : Tree) (h : sq_hd t = true) (hx : sq_hd x = true) :
    sq_hd (appendToRoot t x) = true := by
  cases t with
  | leaf n f => simpa [appendToRoot] using h
  | node f ks =>
    rw [sq_hd_node, Bool.and_eq_true] at h
    simp [appendToRoot, sq_hd_node, h.1, h.2, hx]

theorem sq_hd_moveLeafBeside (t : Tree) (i j : Nat) (h : sq_hd t = true) : sq_hd (moveLeafBeside t i j) = true := by
  unfold moveLeafBeside
  split
  · rename_i l hl
    exact sq_hd_appendBeside j l (sq_hd_findLeaf t i l h hl) _ (sq_hd_removeLeaf i t h)
  · exact h

theorem sq_hd_verylow (t : Tree) (h : sq_hd t = true) : sq_hd (punctuationVerylow t) = true := by
  unfold punctuationVerylow
  refine Lemmas.Punct.foldl_inv (fun c => sq_hd c = true) verylowStep _ t (fun c i _ hc => ?_) h
  unfold verylowStep
  split
  · exact hc
  · split
    · exact hc
    · exact sq_hd_moveLeafBeside c i (i - 1) hc

theorem sq_hd_proot (t : Tree) (h : sq_hd t = true) : sq_hd (punctuationRoot t) = true := by
  unfold punctuationRoot
  refine Lemmas.Punct.foldl_inv (fun c => sq_hd c = true) rootStep _ t (fun c i _ hc => ?_) h
  unfold rootStep
  split
  · split
    · rename_i l hl
      exact sq_hd_appendToRoot _ _ (sq_hd_removeLeaf i c hc) (sq_hd_findLeaf c i l hc hl)
    · exact hc
  · exact hc

theorem sq_hd_symPull (first last : Nat) (s : SymState) (i : Nat) (left : Bool) (h : sq_hd s.cur = true) :
    sq_hd (symPull first last s i left).cur = true := by
  rcases Lemmas.Punct.symPull_cases first last s i left with he | ⟨p, cand, _, _, _, _, _, he⟩
  · rw [he]; exact h
  · rw [he]; exact sq_hd_moveLeafBeside _ _ _ h

theorem sq_hd_sym (relc : Option Str) (t : Tree) (h : sq_hd t = true) : sq_hd (punctuationSymetrify relc t) = true := by
  unfold punctuationSymetrify
  simp only
  refine Lemmas.Punct.foldl_inv (fun (s : SymState) => sq_hd s.cur = true) _ _ _ (fun s i _ hs => ?_) h
  unfold symStep
  split
  · exact hs
  · simp only
    split
    · exact sq_hd_symPull _ _ s i true hs
    · exact sq_hd_symPull _ _ _ i false (sq_hd_symPull _ _ s i true hs)

theorem sq_hd_rootAttach (t : Tree) (h : sq_hd t = true) : sq_hd (rootAttach t) = true := by
  have hp := Props.C12.rootAttach_sigs t
  simp only [sq_hd, List.all_eq_true] at h ⊢
  intro s hs
  have : Lemmas.RootAttach.sig s ∈ (subtrees t).map Lemmas.RootAttach.sig :=
    hp.mem_iff.1 (List.mem_map_of_mem hs)
  obtain ⟨s0, hs0, he⟩ := List.mem_map.1 this
  have hf : s0.fields = s.fields := congrArg Prod.fst he
  rw [← hf]; exact h s0 hs0

mutual
theorem sq_hd_raiseNode : (t : Tree) → sq_hd t = true → (raiseNode t).all sq_hd = true
  | .leaf n f => by intro h; simpa [raiseNode] using h
  | .node f ks => by
    intro h
    have h' := h
    rw [sq_hd_node, Bool.and_eq_true] at h'
    rw [raiseNode]
    split
    · exact sq_hd_raiseKids ks h'.2
    · simp [sq_hd_node, h'.1, sq_hd_raiseKids ks h'.2]
theorem sq_hd_raiseKids : (ks : List Tree) → ks.all sq_hd = true → (raiseKids ks).all sq_hd = true
  | [] => by simp [raiseKids]
  | t :: ts => by
    intro h
    rw [List.all_cons, Bool.and_eq_true] at h
    rw [raiseKids, List.all_append, sq_hd_raiseNode t h.1, sq_hd_raiseKids ts h.2]; rfl
end

theorem sq_hd_raising (t : Tree) (h : sq_hd t = true) : sq_hd (raising t) = true := by
  cases t with
  | leaf n f => simpa [raising] using h
  | node f ks =>
    rw [sq_hd_node, Bool.and_eq_true] at h
    rw [raising, sq_hd_node, h.1, sq_hd_raiseKids ks h.2]; rfl

theorem sq_hd_numberBlocks (f : Fields) (hf : f.head.isSome = true) : ∀ (i : Nat) (G : List (List Tree)),
    (∀ g ∈ G, g.all sq_hd = true) → (numberBlocks f i G).all sq_hd = true
  | _, [], _ => by simp [numberBlocks]
  | i, g :: G, h => by
    rw [numberBlocks, List.all_cons, sq_hd_node, hf, h g List.mem_cons_self,
      sq_hd_numberBlocks f hf (i + 1) G (fun g' hg' => h g' (List.mem_cons_of_mem _ hg'))]
    rfl

mutual
theorem sq_hd_boydNode : (t : Tree) → (r : List Tree) → boydNode t = .ok r → sq_hd t = true → r.all sq_hd = true
  | .leaf n f, r, hb, h => by
    rw [boydNode, Except.ok.injEq] at hb
    subst hb
    simpa [sq_hd_leaf] using h
  | .node f ks, r, hb, h => by
    rw [sq_hd_node, Bool.and_eq_true] at h
    rw [Lemmas.Boyd.boydNode_node] at hb
    cases hk : boydKids ks with
    | error e => simp [hk] at hb
    | ok ks' =>
      have hks' := sq_hd_boydKids ks ks' hk h.2
      simp only [hk, Lemmas.Boyd.boydStep] at hb
      split at hb
      · rw [Except.ok.injEq] at hb; subst hb
        simp [sq_hd_node, h.1, hks']
      · split at hb
        · cases hb
        · rw [Except.ok.injEq] at hb; subst hb
          refine sq_hd_numberBlocks f h.1 0 _ (fun g hg => ?_)
          rw [List.all_eq_true] at hks' ⊢
          intro x hx
          have : x ∈ (groupAdjacent (sortBy leftmost ks')).flatten := List.mem_flatten.2 ⟨g, hg, hx⟩
          rw [Lemmas.Boyd.groupAdjacent_flatten] at this
          exact hks' x ((TT.sortBy_perm leftmost ks').mem_iff.1 this)
theorem sq_hd_boydKids : (ks : List Tree) → (r : List Tree) → boydKids ks = .ok r → ks.all sq_hd = true →
    r.all sq_hd = true
  | [], r, hb, _ => by
    rw [boydKids, Except.ok.injEq] at hb; subst hb; rfl
  | t :: ts, r, hb, h => by
    rw [List.all_cons, Bool.and_eq_true] at h
    rw [boydKids] at hb
    cases ha : boydNode t with
    | error e => simp [ha] at hb
    | ok a =>
      cases hc : boydKids ts with
      | error e => simp [ha, hc] at hb
      | ok b =>
        simp only [ha, hc, Except.ok.injEq] at hb
        subst hb
        rw [List.all_append, sq_hd_boydNode t a ha h.1, sq_hd_boydKids ts b hc h.2]; rfl
end

theorem sq_hd_boyd (t t' : Tree) (hb : boydSplit t = .ok t') (h : sq_hd t = true) : sq_hd t' = true := by
  unfold boydSplit at hb
  cases hn : boydNode t with
  | error e => simp [hn] at hb
  | ok r =>
    have hr := sq_hd_boydNode t r hn h
    rw [hn] at hb
    match r, hb, hr with
    | [x], hb, hr =>
      simp only [Except.ok.injEq] at hb; subst hb
      simpa using hr

open TT.Lemmas.Collapse in
mutual
theorem sq_hd_collapse : (t : Tree) → sq_hd t = true → sq_hd (collapse t) = true
  | .leaf n f, h => by simpa [collapse] using h
  | .node f [], h => by
    rw [collapse.eq_3 _ _ (by intro k hk; cases hk)]
    simpa [collapseL] using h
  | .node f [k], h => by
    rw [sq_hd_node, Bool.and_eq_true] at h
    rw [collapse]
    exact sq_hd_collapseInto f h.1 k (by simpa using h.2)
  | .node f (k1 :: k2 :: ks), h => by
    rw [sq_hd_node, Bool.and_eq_true] at h
    rw [collapse.eq_3 _ _ (not_singleton_of_two k1 k2 ks), sq_hd_node, h.1, sq_hd_collapseL _ h.2]; rfl
theorem sq_hd_collapseInto (f : Fields) (hf : f.head.isSome = true) : (t : Tree) → sq_hd t = true →
    sq_hd (collapseInto f t) = true
  | .leaf n g, _ => by rw [collapseInto, sq_hd_leaf]; exact hf
  | .node g [], _ => by
    rw [collapseInto.eq_3 _ _ _ (by intro k hk; cases hk), sq_hd_node]
    simp [collapseL, hf]
  | .node g [k], h => by
    rw [sq_hd_node, Bool.and_eq_true] at h
    rw [collapseInto]
    exact sq_hd_collapseInto { f with label := joinPlus f.label g.label } hf k (by simpa using h.2)
  | .node g (k1 :: k2 :: ks), h => by
    rw [sq_hd_node, Bool.and_eq_true] at h
    rw [collapseInto.eq_3 _ _ _ (not_singleton_of_two k1 k2 ks), sq_hd_node, sq_hd_collapseL _ h.2]
    simp [hf]
theorem sq_hd_collapseL : (ts : List Tree) → ts.all sq_hd = true → (collapseL ts).all sq_hd = true
  | [], _ => by simp [collapseL]
  | t :: ts, h => by
    rw [List.all_cons, Bool.and_eq_true] at h
    rw [collapseL, List.all_cons, sq_hd_collapse t h.1, sq_hd_collapseL ts h.2]; rfl
end

theorem sq_hd_wrapChain (f : Fields) (hf : f.head.isSome = true) : ∀ (ps : List Str) (inner : Tree),
    sq_hd inner = true → sq_hd (wrapChain f ps inner) = true
  | [], _, h => h
  | p :: ps, inner, h => by
    rw [wrapChain, sq_hd_node]
    simp [hf, sq_hd_wrapChain f hf ps inner h]

mutual
theorem sq_hd_uncollapse : (t : Tree) → sq_hd t = true → sq_hd (uncollapse t) = true
  | .leaf n f, h => by
    rw [sq_hd_leaf] at h
    rw [uncollapse]
    exact sq_hd_wrapChain f h _ _ (by rw [sq_hd_leaf]; exact h)
  | .node f ks, h => by
    rw [sq_hd_node, Bool.and_eq_true] at h
    rw [uncollapse]
    refine sq_hd_wrapChain f h.1 _ _ ?_
    rw [sq_hd_node, sq_hd_uncollapseL ks h.2]
    simp [h.1]
theorem sq_hd_uncollapseL : (ts : List Tree) → ts.all sq_hd = true → (uncollapseL ts).all sq_hd = true
  | [], _ => by simp [uncollapseL]
  | t :: ts, h => by
    rw [List.all_cons, Bool.and_eq_true] at h
    rw [uncollapseL, List.all_cons, sq_hd_uncollapse t h.1, sq_hd_uncollapseL ts h.2]; rfl
end

open TT.Lemmas.Binarize in
theorem sq_hd_binChain (bf : Fields) (hbf : bf.head.isSome = true) : ∀ (fuel : Nat) (right : Bool) (rem out : List Tree),
    binChain bf right rem fuel = .ok out → (∀ k ∈ rem, sq_hd k = true) → ∀ k ∈ out, sq_hd k = true
  | 0, right, rem, out, h, hall => by
    simp only [binChain, Except.ok.injEq] at h
    subst h; exact hall
  | fuel + 1, right, rem, out, h, hall => by
    by_cases hs : rem.length ≤ 2
    · rw [binChain_short bf right rem hs] at h
      cases h
      exact hall
    · cases rem with
      | nil => simp at hs
      | cons r0 rest =>
        rw [binChain_cons bf right r0 rest fuel (by omega)] at h
        split at h
        · cases h
        · split at h
          · cases h
          · rename_i inner hin
            cases h
            have hperm := stepChild_perm right r0 rest
            have hall' : ∀ k ∈ stepRem right r0 rest, sq_hd k = true := fun k hk =>
              hall k (hperm.subset (List.mem_cons_of_mem _ hk))
            have hi := sq_hd_binChain bf hbf fuel _ _ inner hin hall'
            intro k hk
            simp only [List.mem_cons, List.not_mem_nil, or_false] at hk
            rcases hk with rfl | rfl
            · rw [sq_hd_node, hbf, Bool.true_and, List.all_eq_true]; exact hi
            · exact hall _ (hperm.subset List.mem_cons_self)

open TT.Lemmas.Binarize in
theorem sq_hd_binarize (bare : Bool) (t : Tree) : ∀ t', binarizeAux bare t = .ok t' →
    sq_hd t = true → sq_hd t' = true := by
  induction t using Lemmas.WF.tree_ind with
  | hl n f => intro t' h hh; simp only [binarizeAux] at h; cases h; exact hh
  | hn f ks ih =>
    intro t' h hh
    rw [sq_hd_node, Bool.and_eq_true, List.all_eq_true] at hh
    rw [binarizeAux] at h
    cases h1 : binarizeAuxL bare ks with
    | error e => simp [h1] at h
    | ok ks' =>
      obtain ⟨rfl, hall⟩ := binarizeAuxL_ok bare ks ks' h1
      have hks' : ∀ k ∈ ks.map (binOk bare), sq_hd k = true := by
        intro k hk
        obtain ⟨k0, hk0, rfl⟩ := List.mem_map.1 hk
        exact ih k0 hk0 _ (hall k0 hk0) (hh.2 k0 hk0)
      simp only [h1] at h
      by_cases hl : (ks.map (binOk bare)).length ≤ 2
      · simp only [hl, if_true] at h
        cases h
        rw [sq_hd_node, hh.1, Bool.true_and, List.all_eq_true]; exact hks'
      · simp only [hl, if_false] at h
        split at h
        · cases h
        · split at h
          · cases h
          · rename_i two htwo
            cases h
            have hs_all : ∀ k ∈ sortBy leftmost (ks.map (binOk bare)), sq_hd k = true :=
              fun k hk => hks' k ((mem_sortBy leftmost _ k).1 hk)
            have := sq_hd_binChain _ (by simp [binFields]) _ _ _ two htwo hs_all
            rw [sq_hd_node, hh.1, Bool.true_and, List.all_eq_true]; exact this

/-- every step except `add_topnode` keeps the `head` entries -/
theorem sq_hd_step (s : TStep) (t t' : Tree) (hw : WFc t = true) (hk : s.keepsHeadEntries = true)
    (hs : s.apply t = .ok t') (h : sq_hd t = true) : sq_hd t' = true := by
  have hmark : ∀ s : TStep, s.marks = true → s.apply t = .ok t' → sq_hd t' = true := by
    intro s hm hs
    obtain ⟨m, hm1, hm2⟩ := sq_marker_ok s t hw hm
    rw [hs, Except.ok.injEq] at hm1
    subst hm1; exact sq_hd_of_oneHeadEach _ hm2
  cases s with
  | rootAttach => simp only [TStep.apply, Except.ok.injEq] at hs; subst hs; exact sq_hd_rootAttach t h
  | negra => exact hmark _ rfl hs
  | rules p =>
    cases p with
    | negra => exact hmark _ rfl hs
    | ptb => exact hmark _ rfl hs
    | other => simp [TStep.apply, markHeadsByRules] at hs
  | raising => simp only [TStep.apply, Except.ok.injEq] at hs; subst hs; exact sq_hd_raising t h
  | verylow => simp only [TStep.apply, Except.ok.injEq] at hs; subst hs; exact sq_hd_verylow t h
  | proot => simp only [TStep.apply, Except.ok.injEq] at hs; subst hs; exact sq_hd_proot t h
  | sym r => simp only [TStep.apply, Except.ok.injEq] at hs; subst hs; exact sq_hd_sym r t h
  | boyd => exact sq_hd_boyd t t' hs h
  | binarize b => exact sq_hd_binarize b t t' hs h
  | collapse => simp only [TStep.apply, Except.ok.injEq] at hs; subst hs; exact sq_hd_collapse t h
  | uncollapse => simp only [TStep.apply, Except.ok.injEq] at hs; subst hs; exact sq_hd_uncollapse t h
  | topnode => simp [TStep.keepsHeadEntries] at hk

/-! ### one step, then the sequence -/

/-- an allowed step does not fail -/
theorem sq_step_ok (s : TStep) (fresh marked : Bool) (t : Tree) (hw : WFc t = true)
    (hf : fresh = true → oneHeadEach t = true) (he : marked = true → sq_hd t = true)
    (ha : s.allowed fresh marked = true) : ∃ t1, s.apply t = .ok t1 := by
  cases s with
  | rules p =>
    obtain ⟨m, hm, _⟩ := sq_marker_ok (.rules p) t hw ha
    exact ⟨m, hm⟩
  | boyd => exact sq_boyd_ok t hw (he ha)
  | binarize b => exact sq_binarize_ok b t (hf ha)
  | _ => exact ⟨_, rfl⟩

/-- what the state of `respectsFrom` means is true of the tree after the step -/
theorem sq_step_state (s : TStep) (marked : Bool) (t t1 : Tree) (hw : WFc t = true)
    (he : marked = true → sq_hd t = true) (hs : s.apply t = .ok t1) :
    (s.marks = true → oneHeadEach t1 = true) ∧
    ((s.marks || (marked && s.keepsHeadEntries)) = true → sq_hd t1 = true) := by
  have hm : s.marks = true → oneHeadEach t1 = true := by
    intro hm
    obtain ⟨m, hm1, hm2⟩ := sq_marker_ok s t hw hm
    rw [hs, Except.ok.injEq] at hm1
    subst hm1; exact hm2
  refine ⟨hm, fun h => ?_⟩
  rw [Bool.or_eq_true, Bool.and_eq_true] at h
  rcases h with h | ⟨h1, h2⟩
  · exact sq_hd_of_oneHeadEach t1 (hm h)
  · exact sq_hd_step s t t1 hw h2 hs (he h1)

theorem sq_total_from : ∀ (steps : List TStep) (fresh marked : Bool) (t : Tree), WFc t = true →
    (fresh = true → oneHeadEach t = true) → (marked = true → sq_hd t = true) →
    respectsFrom fresh marked steps = true → ∃ t', applySteps steps t = .ok t'
  | [], _, _, t, _, _, _, _ => ⟨t, rfl⟩
  | s :: ss, fresh, marked, t, hw, hf, he, hr => by
    rw [respectsFrom, Bool.and_eq_true] at hr
    obtain ⟨t1, h1⟩ := sq_step_ok s fresh marked t hw hf he hr.1
    obtain ⟨g1, g2⟩ := sq_step_state s marked t t1 hw he h1
    obtain ⟨t', h'⟩ := sq_total_from ss _ _ t1 ((step_inv s t t1 hw h1).wfc hw) g1 g2 hr.2
    exact ⟨t', by rw [applySteps, h1]; exact h'⟩

/-- MAIN: a prerequisite-respecting sequence of transformations never fails on a well-formed tree -/
theorem seq_total (steps : List TStep) (t : Tree) (h : WF t = true) (hr : Respects steps = true) :
    ∃ t', applySteps steps t = .ok t' :=
  sq_total_from steps false false t (WFc_of_WF t h) (by simp) (by simp) hr

/-- ... and (no collapsing) the result is well formed with the same sentence -/
theorem seq_total_preserves (steps : List TStep) (t : Tree) (h : WF t = true) (hr : Respects steps = true)
    (hnc : ∀ s ∈ steps, s.isCollapse = false) :
    ∃ t', applySteps steps t = .ok t' ∧ WF t' = true ∧ sentence t' = sentence t := by
  obtain ⟨t', ht'⟩ := seq_total steps t h hr
  exact ⟨t', ht', Props.C04.seq_preserves steps t t' h hnc ht'⟩

/-- ... with collapsing anywhere: tokens keep number and word, no childless constituent, well formed up to
    the bare token of a one-token sentence -/
theorem seq_total_preserves_words (steps : List TStep) (t : Tree) (h : WF t = true) (hr : Respects steps = true) :
    ∃ t', applySteps steps t = .ok t' ∧ wordsOf t' = wordsOf t ∧ t'.noEmpty = true ∧ WFc t' = true ∧
      t'.leafNums.Perm t.leafNums := by
  obtain ⟨t', ht'⟩ := seq_total steps t h hr
  obtain ⟨h1, h2⟩ := Props.C04.seq_preserves_words steps t t' h ht'
  obtain ⟨h3, h4⟩ := Props.C04.seq_preserves_WFc steps t t' h ht'
  exact ⟨t', ht', h1, h2, h3, h4⟩

/-! ### examples: a discontinuous tree with punctuation, no head marks -/

private def sq_lf (n : Nat) (l w : String) (e : String := "--") : Tree :=
  leaf n { label := l.toList, word := some w.toList, edge := some e.toList }
private def sq_nd (l : String) (ks : List Tree) (e : String := "--") : Tree :=
  node { label := l.toList, edge := some e.toList } ks

/-- `(S (VP (PP (A 1)) (B 3) (V 4)) (C 2) (, 5) (D 6) (. 7))`: discontinuous `VP` (token 2 is outside), a unary `PP`,
    two punctuation tokens below the root; storage order shuffled; no head entries -/
def sq_T : Tree :=
  sq_nd "S" [sq_lf 7 "$." ".", sq_nd "VP" [sq_lf 4 "V" "v" "HD", sq_nd "PP" [sq_lf 1 "A" "a" "HD"] "MO", sq_lf 3 "B" "b" "OA"] "HD",
    sq_lf 2 "C" "c" "SB", sq_lf 5 "$," ",", sq_lf 6 "D" "d"]

/-- the pipeline of the harness automaton, seven steps -/
def sq_steps : List TStep := [.topnode, .rootAttach, .verylow, .rules .ptb, .boyd, .raising, .topnode]
/-- movers, raising, collapsing and a first `boyd` between the head marking and `boyd` -/
def sq_stepsFar : List TStep := [.negra, .verylow, .sym none, .raising, .boyd, .collapse, .uncollapse, .boyd]
/-- `binarize` directly after the marking, `boyd` after `binarize` -/
def sq_stepsBin : List TStep := [.proot, .rules .negra, .binarize true, .rootAttach, .boyd, .raising]

example : WF sq_T = true ∧ continuous sq_T = false := by decide +kernel
example : Respects sq_steps = true ∧ Respects sq_stepsFar = true ∧ Respects sq_stepsBin = true := by decide +kernel

example : ∃ t', applySteps sq_steps sq_T = .ok t' := seq_total sq_steps sq_T (by decide +kernel) (by decide +kernel)
example : ∃ t', applySteps sq_stepsFar sq_T = .ok t' := seq_total sq_stepsFar sq_T (by decide +kernel) (by decide +kernel)
example : ∃ t', applySteps sq_steps sq_T = .ok t' ∧ WF t' = true ∧ sentence t' = sentence sq_T :=
  seq_total_preserves sq_steps sq_T (by decide +kernel) (by decide +kernel) (by decide +kernel)
example : ∃ t', applySteps sq_stepsBin sq_T = .ok t' ∧ WF t' = true ∧ sentence t' = sentence sq_T :=
  seq_total_preserves sq_stepsBin sq_T (by decide +kernel) (by decide +kernel) (by decide +kernel)
example : ∃ t', applySteps sq_stepsFar sq_T = .ok t' ∧ wordsOf t' = wordsOf sq_T ∧ t'.noEmpty = true ∧ WFc t' = true ∧
    t'.leafNums.Perm sq_T.leafNums :=
  seq_total_preserves_words sq_stepsFar sq_T (by decide +kernel) (by decide +kernel)
-- the results are not the input: the discontinuity is gone
#guard (match applySteps sq_steps sq_T with | .ok t' => continuous t' && (consLabels t').length == 5 | .error _ => false)
#guard (match applySteps sq_stepsFar sq_T with | .ok t' => continuous t' | .error _ => false)

/-- a one-token sentence: collapsing leaves the bare token; marking, `boyd` and `binarize` accept it -/
example : ∃ t', applySteps [.collapse, .negra, .binarize false, .boyd, .uncollapse] (sq_nd "S" [sq_nd "NP" [sq_lf 1 "N" "n"]]) = .ok t' :=
  seq_total _ _ (by decide +kernel) (by decide +kernel)

/-! ### the sequences of the test harness (`gen_seq` in harness/props/c04.py) respect the prerequisites -/

/-- steps without prerequisite that mark no heads -/
def sq_plain : TStep → Bool
  | .rootAttach | .raising | .topnode | .verylow | .proot | .sym _ | .collapse | .uncollapse => true
  | _ => false

theorem sq_respects_plain : ∀ (l r : List TStep), (∀ s ∈ l, sq_plain s = true) →
    (∀ a b, respectsFrom a b r = true) → ∀ a b, respectsFrom a b (l ++ r) = true
  | [], _, _, hr, a, b => hr a b
  | s :: l, r, hl, hr, a, b => by
    have hs := hl s List.mem_cons_self
    rw [List.cons_append, respectsFrom,
      sq_respects_plain l r (fun s' hs' => hl s' (List.mem_cons_of_mem _ hs')) hr, Bool.and_true]
    cases s <;> first | rfl | simp [sq_plain] at hs

theorem sq_allowed_of_marks (h : TStep) (hh : h.marks = true) (a b : Bool) : h.allowed a b = true := by
  cases h <;> first | rfl | exact hh | simp [TStep.marks] at hh

/-- `plain* ( HEAD ( boyd_split raising? | binarize )? )? plain*` - the language of `gen_seq`:
    `pre`  = `[add_topnode]? ( root_attach mover{0,2} | punctuation_root )?`,
    `post` = `[add_topnode]? ( collapse uncollapse? )?` -/
theorem sq_harness_respects (pre core post : List TStep) (h : TStep) (hh : h.marks = true)
    (hpre : ∀ s ∈ pre, sq_plain s = true) (hpost : ∀ s ∈ post, sq_plain s = true)
    (hc : core = [] ∨ core = [h] ∨ core = [h, .boyd] ∨ core = [h, .boyd, .raising] ∨ ∃ b, core = [h, .binarize b]) :
    Respects (pre ++ (core ++ post)) = true := by
  have hp : ∀ a b, respectsFrom a b post = true := by
    have := sq_respects_plain post [] hpost (fun _ _ => rfl)
    simpa using this
  refine sq_respects_plain pre _ hpre (fun a b => ?_) false false
  have ha := sq_allowed_of_marks h hh a b
  rcases hc with rfl | rfl | rfl | rfl | ⟨bb, rfl⟩ <;>
    simp only [respectsFrom, List.cons_append, List.nil_append, ha, hh, hp, Bool.true_and, Bool.true_or, Bool.and_true] <;>
    simp [TStep.allowed]

/-- ... so none of them fails on a well-formed tree -/
theorem sq_harness_total (pre core post : List TStep) (h : TStep) (hh : h.marks = true)
    (hpre : ∀ s ∈ pre, sq_plain s = true) (hpost : ∀ s ∈ post, sq_plain s = true)
    (hc : core = [] ∨ core = [h] ∨ core = [h, .boyd] ∨ core = [h, .boyd, .raising] ∨ ∃ b, core = [h, .binarize b])
    (t : Tree) (hw : WF t = true) : ∃ t', applySteps (pre ++ (core ++ post)) t = .ok t' :=
  seq_total _ t hw (sq_harness_respects pre core post h hh hpre hpost hc)

-- longest shapes the generator can produce
example : Respects [.topnode, .rootAttach, .sym (some "PRELS".toList), .proot, .rules .negra, .boyd, .raising, .topnode,
    .collapse, .uncollapse] = true := by decide +kernel
example : Respects [.proot, .negra, .binarize true, .topnode, .collapse] = true := by decide +kernel
example : ∃ t', applySteps ([.topnode, .rootAttach, .verylow, .sym none] ++ ([.rules .ptb, .binarize false] ++
    [.topnode, .collapse, .uncollapse])) sq_T = .ok t' :=
  sq_harness_total _ _ _ (.rules .ptb) rfl (by decide +kernel) (by decide +kernel) (Or.inr (Or.inr (Or.inr (Or.inr ⟨false, rfl⟩))))
    sq_T (by decide +kernel)

/-! ### why the predicate is what it is: sequences it rejects, with a tree on which they fail -/

private def sq_fails (r : Except Err Tree) : Bool := match r with | .ok _ => false | .error _ => true

/-- no marking at all: `boyd` fails on the discontinuous tree, `binarize` on its root (five children) -/
example : Respects [.boyd] = false ∧ sq_fails (applySteps [.boyd] sq_T) = true ∧
    Respects [.binarize false] = false ∧ sq_fails (applySteps [.binarize false] sq_T) = true := by decide +kernel
/-- a preset name other than `negra` / `ptb` is rejected by `mark_heads_by_rules` itself -/
example : Respects [.rules .other] = false ∧ sq_fails (applySteps [.rules .other] sq_T) = true := by decide +kernel

/-- (ii) a mover between the marking and `binarize` can carry the head child away:
    `(S (A 1) (X (B 2) (D 4)) (V-HD 3) (E 5) (F 6))` - token 3 is the head of `S`, `root_attach` moves it below `X`,
    `S` is left with four children none of which is a head -/
def sq_cxRoot : Tree :=
  sq_nd "S" [sq_lf 1 "A" "a", sq_nd "X" [sq_lf 2 "B" "b", sq_lf 4 "D" "d"], sq_lf 3 "V" "v" "HD", sq_lf 5 "E" "e", sq_lf 6 "F" "f"]
example : WF sq_cxRoot = true ∧ Respects [.negra, .rootAttach, .binarize false] = false ∧
    sq_fails (applySteps [.negra, .rootAttach, .binarize false] sq_cxRoot) = true ∧
    sq_fails (applySteps [.negra, .binarize false] sq_cxRoot) = false := by decide +kernel

/-- the same with the punctuation movers (these cannot be evaluated in the kernel, hence `#guard`): the first child of
    `X` is its head (no rule / no `HD` edge: leftmost child) and is a punctuation token that is moved away -/
def sq_cxPunct : Tree := sq_nd "S" [sq_nd "X" [sq_lf 1 "Q" "\"", sq_lf 2 "A" "a", sq_lf 3 "B" "b", sq_lf 4 "C" "c"], sq_lf 5 "D" "d"]
def sq_cxLow : Tree := sq_nd "S" [sq_lf 1 "A" "a", sq_nd "X" [sq_lf 2 "Q" ",", sq_lf 3 "B" "b", sq_lf 4 "D" "d", sq_lf 5 "E" "e"]]
def sq_cxSym : Tree :=
  sq_nd "S" [sq_nd "Y" [sq_lf 1 "A" "a", sq_lf 2 "Q" "\""], sq_nd "X" [sq_lf 3 "Q" "\"", sq_lf 4 "B" "b", sq_lf 5 "D" "d", sq_lf 6 "E" "e"]]
example : WF sq_cxPunct = true ∧ WF sq_cxLow = true ∧ WF sq_cxSym = true := by decide +kernel
#guard sq_fails (applySteps [.rules .ptb, .proot, .binarize false] sq_cxPunct) && !sq_fails (applySteps [.rules .ptb, .binarize false] sq_cxPunct)
#guard sq_fails (applySteps [.negra, .verylow, .binarize false] sq_cxLow) && !sq_fails (applySteps [.negra, .binarize false] sq_cxLow)
#guard sq_fails (applySteps [.negra, .sym none, .binarize false] sq_cxSym) && !sq_fails (applySteps [.negra, .binarize false] sq_cxSym)

/-- (iii) `binarize` directly after `boyd`: the block of `VP` without the head (`A B C`) has three children and no
    head child: `(S (VP (A 1) (B 2) (C 3) (X 5) (V-HD 6)) (D 4))` -/
def sq_cxBoyd : Tree :=
  sq_nd "S" [sq_nd "VP" [sq_lf 1 "A" "a", sq_lf 2 "B" "b", sq_lf 3 "C" "c", sq_lf 5 "X" "x", sq_lf 6 "V" "v" "HD"], sq_lf 4 "D" "d"]
example : WF sq_cxBoyd = true ∧ Respects [.negra, .boyd, .binarize false] = false ∧
    sq_fails (applySteps [.negra, .boyd, .binarize false] sq_cxBoyd) = true := by decide +kernel

-- Rejected although no failing tree was found (conservative, NOT refuted): `binarize` after `boyd ; raising`,
-- `binarize` with `raising` / `collapse` between it and the marking, `boyd` with `add_topnode` between it and the
-- marking (the added root is never split).  They succeed on the examples:
#guard !sq_fails (applySteps [.negra, .boyd, .raising, .binarize false] sq_cxBoyd)
#guard !sq_fails (applySteps [.negra, .collapse, .binarize false] sq_T)
#guard !sq_fails (applySteps [.negra, .topnode, .boyd] sq_T)
example : Respects [.negra, .boyd, .raising, .binarize false] = false ∧ Respects [.negra, .topnode, .boyd] = false := by
  decide +kernel

end TT.Props.C04Total

