/-
  C03 (TIGER-XML as text) — the XML text parser of the model (`TT.Xml.parseXmlDoc`, TT/IO/Xml.lean) reads the text the TIGER-XML
  writer model produces back into exactly the element structure the reader theorems start from (`xsentOf`, TT/Spec/More12h.lean;
  `C01Readers.readTiger_xsents`, `C03Chain.tiger_tiger_id`, `C02Tiger.decTiger_write'`).  This closes the step
  "XML text -> elements" (ElementTree in the code) for the tool's own output.

  * `attrValue_quoteattr`   escaping round trip of one attribute value with the parser's own (strict) decoder
  * `parseXml_write`        the generic element tree of the written document
  * `parseXmlDoc_write`     MAIN: `parseXmlDoc` of the written text = `xsentOf` of every sentence
  * `tiger_text_roundtrip`  composition with the reader: text written for `sents`, read as text, gives for every sentence the
                            content TIGER-XML holds (`tigerReadTop`), ids by the numbering option
  * `tiger_tiger_text_id`   `C03Chain.tiger_tiger_id` with the text parser in place of the element structure
  Hypotheses of the main theorems: the declared encoding (if any) is an XML `EncName` (`EncOK`); the written text consists of
  characters that are legal in XML 1.0 (`xmlCharOK`; the writer does not escape control characters, and neither expat nor the model
  accepts them).  Both are necessary (examples at the end).
-/
import TT.Lemmas.Xml19
import TT.Props.C03Chain
namespace TT.Props.C03Xml
open TT TT.Tree TT.Xml
open TT.Spec (xsentOf tigerReadTop sameTree carryTigerRoot decTiger WF)
open TT.Lemmas.Xml19

/-! ### one attribute value -/

/-- what `quoteattr` writes is a delimiter, a text without that delimiter, the delimiter; the parser's decoder gives the value back -/
theorem attrValue_quoteattr (s : Str) :
    ∃ q inner, quoteattr s = q :: (inner ++ [q]) ∧ (q = '"' ∨ q = '\'') ∧ q ∉ inner ∧ attrValue inner = some s :=
  quoteattr_specS s

example : quoteattr "b<\"'&\n".toList = '"' :: ("b&lt;&quot;'&amp;&#10;".toList ++ ['"']) ∧
    attrValue "b&lt;&quot;'&amp;&#10;".toList = some "b<\"'&\n".toList := by decide +kernel
/-- the decoder is strict: unknown entity, raw `<`, hexadecimal reference, reference to an illegal character -/
example : attrValue "&nbsp;".toList = none ∧ attrValue "a<b".toList = none ∧ attrValue "&#x41;".toList = none ∧
    attrValue "&#0;".toList = none ∧ attrValue "&#65;\tb".toList = some "A b".toList := by decide +kernel

/-! ### the document -/

/-- the generic element tree of the written document: `corpus` > `body` > one `s` per sentence -/
theorem parseXml_write (o : OutOpts) (enc : Option Str) (sents : List (Nat × Tree)) (txt : Str) (henc : EncOK enc)
    (hw : writeAll .tigerxml o enc sents = .ok txt) (hc : txt.all xmlCharOK = true) :
    parseXml txt = some (docElem sents) := by
  rw [writeAll_tiger_text] at hw
  injection hw with hw
  subst hw
  exact parseXml_doc enc henc sents hc

/-- MAIN: parsing the text the writer model produces gives the element structure the reader theorems start from -/
theorem parseXmlDoc_write (o : OutOpts) (enc : Option Str) (sents : List (Nat × Tree)) (txt : Str) (henc : EncOK enc)
    (hw : writeAll .tigerxml o enc sents = .ok txt) (hc : txt.all xmlCharOK = true) :
    parseXmlDoc txt = .ok (sents.map fun st => xsentOf st.1 st.2) := by
  rw [parseXmlDoc, parseXml_write o enc sents txt henc hw hc]
  exact toXSents_doc sents

/-- the writer never refuses (so `hw` above is a definition of `txt`, not a restriction) -/
theorem writeAll_tiger_ok (o : OutOpts) (enc : Option Str) (sents : List (Nat × Tree)) :
    ∃ txt, writeAll .tigerxml o enc sents = .ok txt := ⟨_, writeAll_tiger_text o enc sents⟩

/-! ### composition with the reader -/

/-- text written for `sents` and read back as text: one tree per sentence, in order, ids by the numbering option, each with the
    content TIGER-XML holds for the sentence (`tigerReadTop`, modulo the storage order of children), well formed -/
theorem tiger_text_roundtrip (oo : OutOpts) (enc : Option Str) (o : InOpts) (hg : o.gfSplit = false) (hr : o.replaceParens = false)
    (sents : List (Nat × Tree)) (txt : Str) (henc : EncOK enc) (hw : writeAll .tigerxml oo enc sents = .ok txt)
    (hc : txt.all xmlCharOK = true) (h : ∀ st ∈ sents, WF st.2 = true ∧ st.2.leafNums.length < 500) :
    ∃ rs : List Tree, rs.length = sents.length ∧
      readTigerText o txt = .ok ((if o.continuous then List.range' 1 sents.length else sents.map (·.1)).zip rs) ∧
      (rs.zip sents).all (fun x => sameTree x.1 (tigerReadTop x.2.2)) = true ∧ ∀ r ∈ rs, WF r = true := by
  obtain ⟨rs, h1, h2, h3, h4⟩ := TT.Props.C01Readers.readTiger_xsents o hg hr sents h
  refine ⟨rs, h1, ?_, h3, h4⟩
  rw [readTigerText, parseXmlDoc_write oo enc sents txt henc hw hc]
  exact h2

/-- `C03Chain.tiger_tiger_id` from text: the written document of a `VROOT`-rooted sentence, read as text and written again by the
    command, consists of lines from which the independent decoder recovers the TIGER content of the sentence -/
theorem tiger_tiger_text_id (oo : OutOpts) (enc : Option Str) (sid : Nat) (t : Tree) (txt : Str) (henc : EncOK enc)
    (hw : writeAll .tigerxml oo enc [(sid, t)] = .ok txt) (hc : txt.all xmlCharOK = true)
    (hwf : WF t = true) (hlen : t.leafNums.length < 500) (hroot : t.fields.label = DEFAULT_ROOT) :
    ∃ r, readTigerText {} txt = .ok [(sid, r)] ∧
      ∃ s, decTiger (writeTiger sid r) = some s ∧ strToNat? s.sid = some sid ∧ sameTree s.tree (carryTigerRoot t) = true := by
  obtain ⟨r, h1, _, h3⟩ := TT.Props.C03Chain.tiger_tiger_id sid t hwf hlen hroot
  refine ⟨r, ?_, h3⟩
  rw [readTigerText, parseXmlDoc_write oo enc [(sid, t)] txt henc hw hc]
  exact h1

/-! ### concrete instances -/

/-- `(S (NP (A w")) (B b<"'&<LF>))`, children stored out of order; both kinds of quotes, XML specials and a line break in words,
    non-default edges -/
def exT : Tree :=
  node { label := "S".toList } [leaf 2 { label := "B".toList, word := some "b<\"'&\n".toList },
    node { label := "NP".toList, edge := some "SB".toList } [leaf 1 { label := "A".toList, word := some "w\"".toList, edge := some "HD".toList }]]
def exV : Tree := node { label := "VROOT".toList } [leaf 1 { label := "A".toList, word := some "ü>".toList, morph := some "Nom".toList }]

def exTxt : Str := (writeAll .tigerxml {} (some "utf-8".toList) [(7, exT), (9, exV)]).toOption.getD []

theorem exTxt_ok : EncOK (some "utf-8".toList) ∧ writeAll .tigerxml {} (some "utf-8".toList) [(7, exT), (9, exV)] = .ok exTxt ∧
    exTxt.all xmlCharOK = true ∧ (∀ st ∈ [(7, exT), (9, exV)], WF st.2 = true ∧ st.2.leafNums.length < 500) := by
  refine ⟨?_, ?_, by decide +kernel, by decide +kernel⟩
  · intro e he; injection he with he; subst he; decide +kernel
  · rw [writeAll_tiger_text]; unfold exTxt; rw [writeAll_tiger_text]; rfl

example : parseXmlDoc exTxt = .ok [xsentOf 7 exT, xsentOf 9 exV] :=
  parseXmlDoc_write {} _ _ _ exTxt_ok.1 exTxt_ok.2.1 exTxt_ok.2.2.1

example : ∃ rs : List Tree, rs.length = 2 ∧ readTigerText {} exTxt = .ok ([7, 9].zip rs) ∧
    (rs.zip [(7, exT), (9, exV)]).all (fun x => sameTree x.1 (tigerReadTop x.2.2)) = true ∧ ∀ r ∈ rs, WF r = true :=
  tiger_text_roundtrip {} _ {} rfl rfl _ exTxt exTxt_ok.1 exTxt_ok.2.1 exTxt_ok.2.2.1 exTxt_ok.2.2.2

/-- the same by evaluation, on the text itself: the words come back unescaped -/
example : (parseXmlDoc exTxt).toOption.map (fun l => l.map fun s => (s.id, s.terms.map fun t => (t.id, t.word))) =
    some [("7".toList, [("1".toList, some "w\"".toList), ("2".toList, some "b<\"'&\n".toList)]), ("9".toList, [("1".toList, some "ü>".toList)])] := by
  decide +kernel

/-- layout inside the modelled subset that the writer does not use: single quotes, blanks around `=`, line breaks inside a tag,
    `<t ...></t>`, a character reference, no declaration -/
example : (parseXmlDoc "<corpus><body>\n<s id = '1'><graph>\n<terminals><t\n id=\"1\" word='&#65;&quot;b' ></t ></terminals><nonterminals/></graph></s></body></corpus>\n".toList).toOption.map
    (fun l => l.map fun s => (s.terms.map fun t => (t.id ++ ['/'] ++ t.word.getD [] ++ ['/'] ++ t.pos.getD ['n','o','n','e']), s.nts.length)) =
    some [(["1/A\"b/none".toList], 0)] := by decide +kernel

/-- outside the subset or ill-formed: refused -/
example : (parseXml "<a><!-- c --></a>".toList).isNone ∧ (parseXml "<a><![CDATA[x]]></a>".toList).isNone ∧
    (parseXml "<!DOCTYPE a><a/>".toList).isNone ∧ (parseXml "<a>x</a>".toList).isNone ∧ (parseXml "<a x='1' x='2'/>".toList).isNone ∧
    (parseXml "<a x='1'y='2'/>".toList).isNone ∧ (parseXml "<a/><b/>".toList).isNone ∧ (parseXml "<a><b></a></b>".toList).isNone ∧
    (parseXml "<a xmlns='u'/>".toList).isNone ∧ (parseXml "<?xml version='1.0' encoding='-x'?><a/>".toList).isNone ∧
    (parseXml "<a x='\x01'/>".toList).isNone ∧ (parseXml "<a/>".toList).isSome := by decide +kernel

/-- `hc` is necessary: the writer copies a control character into the text, and such a text is no XML (expat refuses it, too) -/
example : (writeAll .tigerxml {} none [(1, node { label := "VROOT".toList } [leaf 1 { label := "A".toList, word := some "a\x01".toList }])]).toOption.map
    (fun txt => (txt.all xmlCharOK, (parseXmlDoc txt).toOption.isSome)) = some (false, false) := by decide +kernel

/-- `henc` is necessary: a declared encoding that is not an `EncName` makes the declaration ill-formed -/
example : (writeAll .tigerxml {} (some "utf 8".toList) []).toOption.map (fun txt => (parseXmlDoc txt).toOption.isSome) = some false := by
  decide +kernel

end TT.Props.C03Xml
