/-
  C13 — punctuation re-attachment, second part (wave 15):
  * `verylow_parents'`: the sentence-initial punctuation token is not in the free set of
    `punctuation_verylow` (it keeps its parent like every non-punctuation node);
  * `verylow_content`, `root_content`, `sym_content`: every node (identified by its uid) keeps label,
    word, lemma, morphology, edge, kind and token number - "nothing else changes", per node identity;
  * `*_sigs`: the stronger multiset form (all fields of all nodes).
  Helper lemmas: TT/Lemmas/More15c.lean.
-/
import TT.Props.C13
import TT.Props.PinnedMore
import TT.Spec.More15c
import TT.Lemmas.More15c
namespace TT.Props.C13More
open TT TT.Tree TT.Spec
open TT.Lemmas.WF TT.Lemmas.Punct TT.Lemmas.RootAttach TT.Lemmas.More15c

/-! ## the initial punctuation token stays where it is -/

/-- the tokens `punctuation_verylow` may move: punctuation tokens other than the first token of the sentence -/
def freeVerylow (t : Tree) (s : Tree) : Bool := s.isLeaf && isPunctWord s && s.num != t.leftmost

theorem leftmost_le_one (t : Tree) (h : WF t = true) : t.leftmost ≤ 1 := by
  unfold leftmost
  rw [WF_yield t h]
  cases t.leafNums.length <;> simp [List.range']

theorem verylow_PK' (t : Tree) (h : WF t = true) : PK t (freeVerylow t) (punctuationVerylow t) := by
  have hc := (verylowCands_spec t h).2
  have hnd := WF_nodup t h
  have h1 := leftmost_le_one t h
  have : Inv t (punctuationVerylow t) ∧ PK t (freeVerylow t) (punctuationVerylow t) := by
    show (fun c => Inv t c ∧ PK t (freeVerylow t) c) ((verylowCands t).foldl verylowStep t)
    refine foldl_inv (fun c => Inv t c ∧ PK t (freeVerylow t) c) verylowStep _ t ?_
      ⟨Inv.refl t h, fun _ _ => rfl⟩
    intro cur i hi hcur
    obtain ⟨a, b, c, d⟩ := hc i hi
    refine ⟨verylowStep_inv' hcur.1 hnd i ⟨a, b, c, d⟩, ?_⟩
    unfold verylowStep
    split
    · exact hcur.2
    · split
      · exact hcur.2
      · refine moveLeafBeside_PK hcur.1 hnd (freeVerylow t) i (i - 1) ?_ hcur.2
        intro l hl
        have hfp := freePunct_of_findLeaf hcur.1 hnd i d l hl
        have hnum := (findLeaf_mem cur i l hl).2
        simp only [freePunct] at hfp
        simp only [freeVerylow, hfp, Bool.true_and, bne_iff_ne, ne_eq, hnum]
        omega
  exact this.2

/-- C13 clause 5 without the slack: only NON-INITIAL punctuation tokens may change their parent. -/
theorem verylow_parents' (t : Tree) (hu : uidsOK t = true) (h : WF t = true) :
    parentsKept t (punctuationVerylow t) (fun s => s.isLeaf && isPunctWord s && s.num != t.leftmost) = true :=
  parentsKept_of_inv t _ (freeVerylow t) hu (verylow_PK' t h)

/-- a sentence that starts with a punctuation token: `(S (" 1) (NP (A 2) (, 3)) (B 4) (. 5))` -/
def exI : Tree :=
  node { label := "S".toList, uid := some 0 } [
    leaf 1 { label := "Q".toList, word := some "\"".toList, uid := some 1 },
    node { label := "NP".toList, uid := some 2 } [
      leaf 2 { label := "A".toList, word := some "a".toList, uid := some 3 },
      leaf 3 { label := ",".toList, word := some ",".toList, uid := some 4 }],
    node { label := "VP".toList, uid := some 5 } [
      leaf 4 { label := "B".toList, word := some "b".toList, uid := some 6 }],
    leaf 5 { label := ".".toList, word := some ".".toList, uid := some 7 }]

#guard WF exI && uidsOK exI
#guard (punctuationVerylow exI).kids.map leafNums = [[1], [2, 3], [4, 5]]
#guard (movedTokens exI (punctuationVerylow exI)).map num = [5]

example : parentsKept exI (punctuationVerylow exI)
    (fun s => s.isLeaf && isPunctWord s && s.num != exI.leftmost) = true :=
  verylow_parents' exI (by decide) (by decide)

/-- the new free set is strictly smaller than the old one: token 1 of `exI` is punctuation -/
example : (exI.terminals.filter (fun s => s.isLeaf && isPunctWord s)).map num = [1, 3, 5] ∧
    (exI.terminals.filter (fun s => s.isLeaf && isPunctWord s && s.num != exI.leftmost)).map num = [3, 5] := by
  decide

/-- `verylow_parents` follows from the sharper statement (the free set only shrinks) -/
theorem parentsKept_mono (a b : Tree) (free free' : Tree → Bool) (hsub : ∀ s, free s = true → free' s = true)
    (h : parentsKept a b free = true) : parentsKept a b free' = true := by
  unfold parentsKept at h ⊢
  rw [List.all_eq_true] at h ⊢
  rintro ⟨u, p⟩ hup
  have := h (u, p) hup
  simp only at this ⊢
  split
  · rename_i s hs
    rw [hs] at this
    simp only [Bool.or_eq_true] at this ⊢
    rcases this with h1 | h1
    · exact Or.inl (hsub s h1)
    · exact Or.inr h1
  · rfl

/-! ## node contents, per node identity -/

/-- all fields, the kind and the number of every node: the same multiset before and after -/
theorem verylow_sigs (t : Tree) (h : WF t = true) :
    ((subtrees (punctuationVerylow t)).map sig).Perm ((subtrees t).map sig) :=
  verylow_additive additive_sigs t h

theorem root_sigs (t : Tree) (h : WF t = true) :
    ((subtrees (punctuationRoot t)).map sig).Perm ((subtrees t).map sig) :=
  root_additive additive_sigs t h

theorem sym_sigs (relc : Option Str) (t : Tree) (h : WF t = true) :
    ((subtrees (punctuationSymetrify relc t)).map sig).Perm ((subtrees t).map sig) :=
  sym_additive additive_sigs relc t h

theorem verylow_content (t : Tree) (hu : uidsOK t = true) (h : WF t = true) :
    contentKept t (punctuationVerylow t) = true :=
  contentKept_of_sigs_perm t _ hu (verylow_sigs t h)

theorem root_content (t : Tree) (hu : uidsOK t = true) (h : WF t = true) :
    contentKept t (punctuationRoot t) = true :=
  contentKept_of_sigs_perm t _ hu (root_sigs t h)

theorem sym_content (relc : Option Str) (t : Tree) (hu : uidsOK t = true) (h : WF t = true) :
    contentKept t (punctuationSymetrify relc t) = true :=
  contentKept_of_sigs_perm t _ hu (sym_sigs relc t h)

example : contentKept exI (punctuationVerylow exI) = true := verylow_content exI (by decide) (by decide)
example : contentKept C13.exT (punctuationRoot C13.exT) = true := root_content _ (by decide) (by decide)
example : contentKept C13.exR (punctuationSymetrify (some "PRELS".toList) C13.exR) = true :=
  sym_content _ _ (by decide) (by decide)

/-- `uidsOK` is needed for the per-uid reading (with a repeated uid `findUid` finds the first carrier only): in
    `(S (X (, 1) (A 2)) (B 3))` the tokens 1 and 3 share uid 9; `punctuation_root` moves token 1 behind token 3, and the
    first carrier of uid 9 is then token 3 -/
def exDup : Tree :=
  node { label := "S".toList, uid := some 0 } [
    node { label := "X".toList, uid := some 1 } [
      leaf 1 { label := ",".toList, word := some ",".toList, uid := some 9 },
      leaf 2 { label := "A".toList, word := some "a".toList, uid := some 3 }],
    leaf 3 { label := "B".toList, word := some "b".toList, uid := some 9 }]

#guard WF exDup && !uidsOK exDup
#guard contentKept exDup (punctuationRoot exDup) == false

/-- the constituent fields too (not only the labels of `root_consLabels`) are kept as a multiset -/
theorem verylow_fields (t : Tree) (h : WF t = true) :
    ((subtrees (punctuationVerylow t)).map (·.fields)).Perm ((subtrees t).map (·.fields)) := by
  have := (verylow_sigs t h).map (·.1)
  simpa [List.map_map, Function.comp_def, sig] using this

/-! ## `readers_clean`: what the readers deliver satisfies `consWordsClean`

so that `verylow_post_tokens` (the token reading of the first clause of C13) holds for every tree that was read in. -/

theorem clean_of_ncw (t : Tree) (h : ncw t = true) : consWordsClean t = true :=
  PinnedMore.consWordsClean_of_noWord t (ncw_subtrees t h)

/-- no punctuation mark has the form `#ddd` -/
theorem cons_not_punct : ∀ w ∈ PINNED_PUNCT, TT.Lemmas.ExportRT.rIsCons w = false := by decide

theorem clean_of_cwp (t : Tree) (h : cwp TT.Lemmas.ExportRT.rIsCons t = true) : consWordsClean t = true := by
  refine PinnedMore.consWordsClean_of_nonPunct t ?_
  intro s hs hl w hw
  have hc := cwp_subtrees _ t h s hs hl w hw
  cases hp : PINNED_PUNCT.contains w with
  | false => rfl
  | true =>
    have := cons_not_punct w (by simpa using hp)
    rw [hc] at this; cases this

/-- bracket reader (every option record without the discobracket post-pass): no constituent has a `word` entry at all -/
theorem readBrackets_noWord (o : InOpts) (hd : o.disco = false) (text : Str) (ts : List (Nat × Tree))
    (h : readBrackets o text = .ok ts) : ∀ t ∈ ts, ∀ s ∈ t.2.subtrees, s.isLeaf = false → s.fields.word = none :=
  fun t ht => ncw_subtrees t.2 (readBrackets_ncw o hd text ts h t ht)

theorem readBrackets_clean (o : InOpts) (hd : o.disco = false) (text : Str) (ts : List (Nat × Tree))
    (h : readBrackets o text = .ok ts) : ∀ t ∈ ts, consWordsClean t.2 = true :=
  fun t ht => clean_of_ncw t.2 (readBrackets_ncw o hd text ts h t ht)

/-- TIGER-XML reader, every option record -/
theorem readTiger_noWord (o : InOpts) (ss : List XSent) (ts : List (Nat × Tree)) (h : readTiger o ss = .ok ts) :
    ∀ t ∈ ts, ∀ s ∈ t.2.subtrees, s.isLeaf = false → s.fields.word = none :=
  fun t ht => ncw_subtrees t.2 (readTiger_ncw o ss ts h t ht)

theorem readTiger_clean (o : InOpts) (ss : List XSent) (ts : List (Nat × Tree)) (h : readTiger o ss = .ok ts) :
    ∀ t ∈ ts, consWordsClean t.2 = true :=
  fun t ht => clean_of_ncw t.2 (readTiger_ncw o ss ts h t ht)

theorem exportConsLine_eq (l : Str) : exportConsLine l = consLine l := by
  unfold exportConsLine consLine
  cases splitWs l <;> rfl

/-- export reader, every option record, on files in which no run of lines without an `#EOS` line (a sentence block is such
    a run) has 500 or more token lines: the `word` entry of a constituent is the `#ddd` of its line (or absent, at the root) -/
theorem readExport_consWords (o : InOpts) (text : Str) (ts : List (Nat × Tree)) (h : readExport o text = .ok ts)
    (H : ∀ seg, seg <:+: (splitOnChar '\n' text).map exportStrip → (∀ l ∈ seg, "#EOS".toList.isPrefixOf l = false) →
      exportTokenLines seg < 500) :
    ∀ t ∈ ts, ∀ s ∈ t.2.subtrees, s.isLeaf = false → ∀ w, s.fields.word = some w →
      (w.length == 4 && w.head? == some '#' && pyIsDigit (w.drop 1)) = true := by
  intro t ht
  refine cwp_subtrees _ t.2 (readExport_cwp o text ts h ?_ t ht)
  intro seg hseg hno
  have := H seg hseg hno
  unfold exportTokenLines at this
  simpa only [exportConsLine_eq] using this

theorem readExport_clean (o : InOpts) (text : Str) (ts : List (Nat × Tree)) (h : readExport o text = .ok ts)
    (H : ∀ seg, seg <:+: (splitOnChar '\n' text).map exportStrip → (∀ l ∈ seg, "#EOS".toList.isPrefixOf l = false) →
      exportTokenLines seg < 500) : ∀ t ∈ ts, consWordsClean t.2 = true := by
  intro t ht
  refine clean_of_cwp t.2 (readExport_cwp o text ts h ?_ t ht)
  intro seg hseg hno
  have := H seg hseg hno
  unfold exportTokenLines at this
  simpa only [exportConsLine_eq] using this

/-- a simple sufficient condition for `H`: the whole file has fewer than 500 lines -/
theorem exportSmall_of_short (text : Str) (hlen : (splitOnChar '\n' text).length < 500) :
    ∀ seg, seg <:+: (splitOnChar '\n' text).map exportStrip → (∀ l ∈ seg, "#EOS".toList.isPrefixOf l = false) →
      exportTokenLines seg < 500 := by
  intro seg hseg _
  have h1 : seg.length ≤ ((splitOnChar '\n' text).map exportStrip).length := hseg.length_le
  have h2 : exportTokenLines seg ≤ seg.length := List.length_filter_le _ _
  rw [List.length_map] at h1
  omega

/-- C13, first clause, token reading, for every well-formed tree the readers deliver -/
theorem verylow_post_tokens_brackets (o : InOpts) (hd : o.disco = false) (text : Str) (ts : List (Nat × Tree))
    (h : readBrackets o text = .ok ts) : ∀ t ∈ ts, WF t.2 = true → verylowPostT (punctuationVerylow t.2) = true :=
  fun t ht hw => PinnedMore.verylow_post_tokens t.2 hw (readBrackets_clean o hd text ts h t ht)

theorem verylow_post_tokens_tiger (o : InOpts) (ss : List XSent) (ts : List (Nat × Tree)) (h : readTiger o ss = .ok ts) :
    ∀ t ∈ ts, WF t.2 = true → verylowPostT (punctuationVerylow t.2) = true :=
  fun t ht hw => PinnedMore.verylow_post_tokens t.2 hw (readTiger_clean o ss ts h t ht)

theorem verylow_post_tokens_export (o : InOpts) (text : Str) (ts : List (Nat × Tree)) (h : readExport o text = .ok ts)
    (H : ∀ seg, seg <:+: (splitOnChar '\n' text).map exportStrip → (∀ l ∈ seg, "#EOS".toList.isPrefixOf l = false) →
      exportTokenLines seg < 500) : ∀ t ∈ ts, WF t.2 = true → verylowPostT (punctuationVerylow t.2) = true :=
  fun t ht hw => PinnedMore.verylow_post_tokens t.2 hw (readExport_clean o text ts h H t ht)

/-! examples -/

def exBr : Str := "(S (NP (A a) (, ,)) (VP (B b)) (. .))\n".toList
#guard (match readBrackets {} exBr with | .ok [(1, t)] => WF t && consWordsClean t | _ => false)
example : ∀ t ∈ (match readBrackets {} exBr with | .ok ts => ts | _ => []), consWordsClean t.2 = true := by
  cases h : readBrackets {} exBr with
  | error e => simp
  | ok ts => exact readBrackets_clean {} rfl exBr ts h

def exExp : Str := "#BOS 1\na\tA\t--\t--\t500\n,\t,\t--\t--\t500\nb\tB\t--\t--\t0\n#500\tNP\t--\t--\t0\n#EOS 1\n".toList
#guard (match readExport {} exExp with | .ok [(1, t)] => WF t && consWordsClean t | _ => false)
example : ∀ t ∈ (match readExport {} exExp with | .ok ts => ts | _ => []), consWordsClean t.2 = true := by
  cases h : readExport {} exExp with
  | error e => simp
  | ok ts => exact readExport_clean {} exExp ts h (exportSmall_of_short exExp (by decide))

/-- the hypothesis on the length of the sentence blocks cannot be dropped: with 500 token lines the 500th token (here a
    comma) gets the number of a constituent, and the line after it names it as its parent - the reader delivers a
    constituent whose `word` entry is `,` (the tree is outside the format: token 500 has become a constituent) -/
def exLong : Str :=
  (["#BOS 1"] ++ List.replicate 499 "a\tA\t--\t--\t0" ++ [",\t,\t--\t--\t0", "b\tB\t--\t--\t500", "#EOS 1", ""]).foldr
    (fun l acc => l.toList ++ ['\n'] ++ acc) []
#guard (match readExport {} exLong with | .ok [(1, t)] => !consWordsClean t && t.leafNums.length == 500 | _ => false)

end TT.Props.C13More
