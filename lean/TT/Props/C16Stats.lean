/-
  C16, clause 5 (wave 16): the check of the implementation's gap-degree statistics, which so far existed only as inline code
  of the driver (`P.C16.stats`: totals, the per-tree counts per degree, but of the per-node table only the SUM), as a NAMED
  specification predicate `Spec.gapStatsOK` (TT/Spec/More16d.lean) that judges EVERY per-degree count of both tables — and
  the theorems that it holds of the model's own statistics (the accumulator `GapStats.run` folded over the trees) and of
  the report of the whole command `treeanalysis gapdegree`.
-/
import TT.Spec.More16d
import TT.Props.C16Run
namespace TT.Props.C16Stats
open TT TT.Tree TT.Spec
open TT.Props.C16Total (constituents)
open TT.Props.C16Run (treesOf)

/-! ### a table read through `find?` is a table in the sense of `degTableOK` -/

theorem find_of_mem_nodup : ∀ (tbl : List (Nat × Nat)) (d c : Nat), (tbl.map (·.1)).Nodup → (d, c) ∈ tbl →
    tbl.find? (·.1 == d) = some (d, c)
  | [], _, _, _, h => by cases h
  | (a, b) :: r, d, c, hn, h => by
    rw [List.map_cons, List.nodup_cons] at hn
    rw [List.find?_cons]
    rcases List.mem_cons.1 h with h | h
    · cases h; simp
    · have hne : a ≠ d := by
        rintro rfl
        exact hn.1 (List.mem_map.2 ⟨_, h, rfl⟩)
      have : (a == d) = false := by simpa using hne
      simp only [this]
      exact find_of_mem_nodup r d c hn.2 h

theorem mem_keys_of_find (tbl : List (Nat × Nat)) (d : Nat) (h : (tbl.find? (·.1 == d)).isSome = true) :
    d ∈ tbl.map (·.1) := by
  obtain ⟨x, hx⟩ := Option.isSome_iff_exists.1 h
  have hm := List.mem_of_find?_eq_some hx
  have hk := List.find?_some hx
  simp only [beq_iff_eq] at hk
  exact List.mem_map.2 ⟨x, hm, hk⟩

/-- no key twice, and looking a degree up gives its number of occurrences (nothing, if it does not occur) -/
theorem degTableOK_of_find (degs : List Nat) (tbl : List (Nat × Nat)) (hn : (tbl.map (·.1)).Nodup)
    (hf : ∀ d, (tbl.find? (·.1 == d)).map (·.2) = if degs.count d = 0 then none else some (degs.count d)) :
    degTableOK degs tbl = true := by
  unfold degTableOK
  simp only [Bool.and_eq_true, List.all_eq_true, decide_eq_true_eq, beq_iff_eq]
  refine ⟨⟨(TT.Lemmas.WF.nodupB_iff _).2 hn, ?_⟩, ?_⟩
  · rintro ⟨d, c⟩ hm
    have := hf d
    rw [find_of_mem_nodup tbl d c hn hm] at this
    by_cases h0 : degs.count d = 0
    · simp [h0] at this
    · simp only [h0, if_false, Option.map_some, Option.some.injEq] at this
      simp only
      omega
  · intro d hd
    rw [List.contains_iff_mem]
    apply mem_keys_of_find
    have h0 : degs.count d ≠ 0 := by
      have := List.count_pos_iff.2 hd
      omega
    have := hf d
    simp only [h0, if_false] at this
    cases hh : tbl.find? (·.1 == d) with
    | none => rw [hh] at this; cases this
    | some _ => rfl

/-! ### the two lists of observed degrees -/

theorem count_map_eq {α} (f : α → Nat) (d : Nat) (l : List α) :
    (l.map f).count d = (l.filter fun x => f x = d).length := by
  simp only [List.count_eq_length_filter, List.filter_map, List.length_map]
  congr 2

/-- the constituents along the traversal and along the storage-order enumeration: the same nodes -/
theorem constituents_perm (t : Tree) : (constituents t).Perm (t.subtrees.filter fun s => !s.kids.isEmpty) :=
  (TT.Lemmas.Nav.preorder_perm_subtrees t).filter _

theorem flatMap_constituents_perm : ∀ ts : List Tree, (ts.flatMap constituents).Perm (consOf ts)
  | [] => .refl _
  | t :: ts => by
    simp only [consOf, List.flatMap_cons]
    exact (constituents_perm t).append (flatMap_constituents_perm ts)

theorem consOf_length (ts : List Tree) :
    (consOf ts).length = (ts.map fun t => (t.preorder.filter fun x => !x.kids.isEmpty).length).sum := by
  rw [← (flatMap_constituents_perm ts).length_eq]
  induction ts with
  | nil => rfl
  | cons t ts ih => simp only [List.flatMap_cons, List.length_append, List.map_cons, List.sum_cons, ih]

/-! ### the model -/

/-- MAIN: the predicate that judges the implementation's gap-degree statistics holds of the model's statistics — the
    accumulator of the `GapDegree` task folded over the trees, with the totals of its two tables — for every treebank
    (no hypothesis) -/
theorem gapStatsOK_model (ts : List Tree) :
    gapStatsOK ts (GapStats.total (ts.foldl GapStats.run {}).perTree) (GapStats.total (ts.foldl GapStats.run {}).perNode)
      (ts.foldl GapStats.run {}).perTree (ts.foldl GapStats.run {}).perNode = true := by
  obtain ⟨h1, h2⟩ := TT.Props.C16More.gapstats_totals ts
  obtain ⟨hn1, hn2⟩ := TT.Props.C16More.gapstats_keys_nodup ts
  unfold gapStatsOK
  simp only [Bool.and_eq_true, beq_iff_eq]
  refine ⟨⟨⟨h1, by rw [h2, consOf_length]⟩, ?_⟩, ?_⟩
  · apply degTableOK_of_find _ _ hn2
    intro d
    rw [TT.Props.C16Total.gapstats_perTree_count ts d, count_map_eq]
  · apply degTableOK_of_find _ _ hn1
    intro d
    rw [TT.Props.C16Total.gapstats_perNode_count ts d, count_map_eq,
      (((flatMap_constituents_perm ts).filter _).length_eq)]

/-- MAIN (whole command): the report of `treeanalysis gapdegree` on a file the reader accepts passes the predicate, on
    the trees the reader delivers -/
theorem runAnalysis_gapStatsOK (text : Str) (r : List (Nat × Tree)) (h : readExport {} text = .ok r) :
    ∃ nt nn pt pn, runAnalysis .gapDegree text = .ok (.gap nt nn pt pn) ∧
      gapStatsOK (treesOf r) nt nn pt pn = true := by
  refine ⟨_, _, _, _, ?_, gapStatsOK_model (treesOf r)⟩
  rw [TT.Props.C16Run.runAnalysis_ok _ _ _ h]
  rfl

/-! ### what the predicate says, read off a report that passes -/

/-- in a table that passes, the counts sum to the number of observations -/
theorem degTableOK_sum : ∀ (tbl : List (Nat × Nat)) (degs : List Nat), degTableOK degs tbl = true →
    (tbl.map (·.2)).sum = degs.length
  | [], degs, h => by
    unfold degTableOK at h
    simp only [Bool.and_eq_true, List.all_eq_true] at h
    cases degs with
    | nil => rfl
    | cons d _ => simpa using h.2 d List.mem_cons_self
  | (d, c) :: r, degs, h => by
    unfold degTableOK at h
    simp only [Bool.and_eq_true, List.all_eq_true, decide_eq_true_eq, beq_iff_eq, List.map_cons, nodupB,
      Bool.not_eq_true', List.all_cons] at h
    obtain ⟨⟨⟨hd0, hnr⟩, ⟨_, hc⟩, hr⟩, hall⟩ := h
    have hd : d ∉ r.map (·.1) := by
      intro hm; rw [← List.contains_iff_mem] at hm; rw [hm] at hd0; cases hd0
    have ih := degTableOK_sum r (degs.filter (· != d)) (by
      unfold degTableOK
      simp only [Bool.and_eq_true, List.all_eq_true, decide_eq_true_eq, beq_iff_eq]
      refine ⟨⟨hnr, ?_⟩, ?_⟩
      · rintro ⟨d', c'⟩ hm
        have hne : d' ≠ d := by rintro rfl; exact hd (List.mem_map.2 ⟨_, hm, rfl⟩)
        have := hr _ hm
        simp only at this ⊢
        rw [List.count_filter (by simpa using hne)]
        exact this
      · intro x hx
        obtain ⟨hx1, hx2⟩ := List.mem_filter.1 hx
        have := hall x hx1
        simp only [List.contains_iff_mem, List.mem_cons] at this ⊢
        rcases this with rfl | h'
        · simp at hx2
        · exact h')
    rw [List.map_cons, List.sum_cons, ih, hc]
    have h3 := List.length_eq_countP_add_countP (· == d) (l := degs)
    rw [List.countP_eq_length_filter, List.countP_eq_length_filter] at h3
    have h4 : (degs.filter fun a => decide ¬((a == d) = true)) = degs.filter (· != d) := by
      congr 1; funext a; by_cases h : a = d <;> simp [h]
    rw [h4] at h3
    rw [List.count_eq_length_filter]
    omega

/-- a report that passes: the counts of either table sum to the total printed before them (what the inline check of the
    driver asked of the per-node table — and the only thing it asked of it) -/
theorem gapStatsOK_sums (ts : List Tree) (nt nn : Nat) (pt pn : List (Nat × Nat)) (h : gapStatsOK ts nt nn pt pn = true) :
    (pt.map (·.2)).sum = nt ∧ (pn.map (·.2)).sum = nn := by
  unfold gapStatsOK at h
  simp only [Bool.and_eq_true, beq_iff_eq] at h
  obtain ⟨⟨⟨h1, h2⟩, h3⟩, h4⟩ := h
  exact ⟨by rw [degTableOK_sum _ _ h3, h1, List.length_map], by rw [degTableOK_sum _ _ h4, h2, List.length_map]⟩

/-! ### concrete instances -/

abbrev exDisc : Tree := TT.Props.C02.exDisc
abbrev exCont : Tree := TT.Props.C02.exCont

/-- two trees, two constituents each; one node (the VP over tokens 1 and 3) and one tree of gap degree 1 -/
example : [exCont, exDisc].foldl GapStats.run {} = { perNode := [(0, 3), (1, 1)], perTree := [(0, 1), (1, 1)] } := by
  decide +kernel
example : gapStatsOK [exCont, exDisc] 2 4 [(0, 1), (1, 1)] [(0, 3), (1, 1)] = true := by
  have := gapStatsOK_model [exCont, exDisc]
  rwa [show [exCont, exDisc].foldl GapStats.run {} = { perNode := [(0, 3), (1, 1)], perTree := [(0, 1), (1, 1)] } by
    decide +kernel] at this
/-- the order of the rows does not matter -/
example : gapStatsOK [exCont, exDisc] 2 4 [(1, 1), (0, 1)] [(1, 1), (0, 3)] = true := by decide +kernel
/-- THE POINT: a per-node table with wrong counts but the right sum fails (the inline check of the driver, which looked
    only at the sum of the per-node table, accepted it) -/
example : gapStatsOK [exCont, exDisc] 2 4 [(0, 1), (1, 1)] [(0, 2), (1, 2)] = false ∧
    (([(0, 2), (1, 2)] : List (Nat × Nat)).map (·.2)).sum = 4 := by decide +kernel
example : gapStatsOK [exCont, exDisc] 2 4 [(0, 1), (1, 1)] [(0, 3), (2, 1)] = false := by decide +kernel
/-- and: a wrong per-tree count, a wrong total, a degree listed with count 0, a degree listed twice, an observed degree
    not listed -/
example : gapStatsOK [exCont, exDisc] 2 4 [(0, 2)] [(0, 3), (1, 1)] = false := by decide +kernel
example : gapStatsOK [exCont, exDisc] 2 5 [(0, 1), (1, 1)] [(0, 3), (1, 1)] = false := by decide +kernel
example : gapStatsOK [exCont, exDisc] 2 4 [(0, 1), (1, 1)] [(0, 3), (1, 1), (2, 0)] = false := by decide +kernel
example : gapStatsOK [exCont, exDisc] 2 4 [(0, 1), (1, 1)] [(0, 3), (1, 1), (0, 3)] = false := by decide +kernel
example : gapStatsOK [exCont, exDisc] 2 4 [(0, 1), (1, 1)] [(0, 3)] = false := by decide +kernel

end TT.Props.C16Stats
