/-
  C05 (wave 19), row 9 of the audit: the labels that show the split, stated for the nodes of the WHOLE result tree
  (`C05Split.boydNode_getLabel` is per call of `boydNode`).  With split marking and numbering switched on, the nodes of
  the result that carry the uid of a constituent of `k > 1` blocks are shown - in the order of their first tokens - as
  `label*1`, ..., `label*k`, the `i`-th covering the `i`-th block; the node standing for an unsplit constituent is shown
  with the bare label.
-/
import TT.Props.C05Split
namespace TT.Props.C05More2
open TT TT.Tree TT.Spec

/-- the output options of the clause -/
def splitOpts : OutOpts := { splitMarking := true, splitNumbering := true }

/-- the nodes of `b` standing for the node with uid `u`, in the order of their first tokens -/
def repsOf (b : Tree) (u : Nat) : List Tree :=
  sortBy leftmost (b.subtrees.filter fun x => x.fields.uid == some u)

theorem getLabel_split (x : Tree) (n : Nat) (hs : x.fields.split = some true) (hn : x.fields.blockNumber = some n) :
    getLabel splitOpts x = .ok (x.fields.label ++ "*".toList ++ natToStr n) := by
  simp [getLabel, splitOpts, hs, hn, bind, Except.bind, pure, Except.pure]

theorem getLabel_unsplit (x : Tree) (hs : x.fields.split = some false) :
    getLabel splitOpts x = .ok x.fields.label := by
  simp [getLabel, splitOpts, hs, bind, Except.bind, pure, Except.pure]

/-- what `splitOK` says about the shown labels -/
theorem splitOK_getLabel (a b : Tree) (h : splitOK a b = true) (s : Tree) (hs : s ∈ a.subtrees)
    (f : Fields) (k : Tree) (ks : List Tree) (e : s = node f (k :: ks)) (u : Nat) (hu : f.uid = some u) :
    (repsOf b u).map yield = s.blocks ∧
    (1 < s.blocks.length → ∀ i (hi : i < (repsOf b u).length),
      getLabel splitOpts (repsOf b u)[i] = .ok (f.label ++ "*".toList ++ natToStr (i + 1))) ∧
    (s.blocks.length ≤ 1 → ∀ r ∈ repsOf b u, getLabel splitOpts r = .ok f.label) := by
  unfold splitOK at h
  rw [List.all_eq_true] at h
  have h1 := h s hs
  subst e
  rw [show (node f (k :: ks)).fields.uid = some u from hu] at h1
  simp only at h1
  simp only [Bool.and_eq_true, beq_iff_eq, List.all_eq_true] at h1
  obtain ⟨⟨⟨_, hy⟩, hlab⟩, hif⟩ := h1
  have hmem : ∀ r ∈ repsOf b u, r ∈ b.subtrees.filter fun x => x.fields.uid == some u :=
    fun r hr => (mem_sortBy _ _ _).1 hr
  refine ⟨hy, ?_, ?_⟩
  · intro hk i hi
    simp only [hk, if_true, Bool.and_eq_true, List.all_eq_true, beq_iff_eq] at hif
    obtain ⟨⟨hsplit, hnum⟩, _⟩ := hif
    have hr := hmem _ (List.getElem_mem hi)
    have hn := hnum ((repsOf b u)[i], i) (List.mk_mem_zipIdx_iff_getElem?.2 (List.getElem?_eq_getElem hi))
    rw [getLabel_split _ (i + 1) (hsplit _ hr) hn, hlab _ hr]
    rfl
  · intro hk r hr
    have hk' : ¬ (node f (k :: ks)).blocks.length > 1 := by omega
    simp only [hk', if_false, List.all_eq_true, beq_iff_eq] at hif
    rw [getLabel_unsplit r (hif r (hmem r hr)), hlab r (hmem r hr)]
    rfl

/-- **boydSplit_getLabel**: the shown labels of the nodes of the whole result tree.  For a constituent `s` of `t`
    (uid `u`): the nodes of `t'` with uid `u`, by first token, cover the blocks of `s` one by one; if `s` has more than
    one block the `i`-th is shown as `label*<i+1>`, otherwise the (one) node is shown with the bare label. -/
theorem boydSplit_getLabel (t t' : Tree) (hwf : WF t = true) (hu : uidsOK t = true)
    (hh : ∀ s ∈ t.subtrees, ∀ f ks, s = node f ks →
      (ks.filter (fun k => k.fields.head == some true)).length = 1)
    (h : boydSplit t = .ok t')
    (s : Tree) (hs : s ∈ t.subtrees) (f : Fields) (k : Tree) (ks : List Tree) (e : s = node f (k :: ks))
    (u : Nat) (hsu : f.uid = some u) :
    (repsOf t' u).map yield = s.blocks ∧
    (1 < s.blocks.length → ∀ i (hi : i < (repsOf t' u).length),
      getLabel splitOpts (repsOf t' u)[i] = .ok (f.label ++ "*".toList ++ natToStr (i + 1))) ∧
    (s.blocks.length ≤ 1 → ∀ r ∈ repsOf t' u, getLabel splitOpts r = .ok f.label) :=
  splitOK_getLabel t t' (C05Split.boydSplit_splitOK t t' hwf hu hh h) s hs f k ks e u hsu

/-- every node of the result that carries the uid of a split constituent is one of the numbered nodes: its shown
    label is `label*<position>` for its position among the nodes with that uid -/
theorem boydSplit_getLabel_node (t t' : Tree) (hwf : WF t = true) (hu : uidsOK t = true)
    (hh : ∀ s ∈ t.subtrees, ∀ f ks, s = node f ks →
      (ks.filter (fun k => k.fields.head == some true)).length = 1)
    (h : boydSplit t = .ok t')
    (s : Tree) (hs : s ∈ t.subtrees) (f : Fields) (k : Tree) (ks : List Tree) (e : s = node f (k :: ks))
    (u : Nat) (hsu : f.uid = some u) (hk : 1 < s.blocks.length)
    (x : Tree) (hx : x ∈ t'.subtrees) (hxu : x.fields.uid = some u) :
    ∃ i, i < s.blocks.length ∧ (repsOf t' u)[i]? = some x ∧ x.yield = s.blocks[i]?.getD [] ∧
      getLabel splitOpts x = .ok (f.label ++ "*".toList ++ natToStr (i + 1)) := by
  obtain ⟨hy, hsplit, _⟩ := boydSplit_getLabel t t' hwf hu hh h s hs f k ks e u hsu
  have hxm : x ∈ repsOf t' u := (mem_sortBy _ _ _).2 (List.mem_filter.2 ⟨hx, by simp [hxu]⟩)
  obtain ⟨i, hi, rfl⟩ := List.getElem_of_mem hxm
  have hlen : (repsOf t' u).length = s.blocks.length := by rw [← hy, List.length_map]
  refine ⟨i, hlen ▸ hi, List.getElem?_eq_getElem hi, ?_, hsplit hk i hi⟩
  have : (s.blocks)[i]? = some ((repsOf t' u)[i]).yield := by
    rw [← hy, List.getElem?_map, List.getElem?_eq_getElem hi]; rfl
  rw [this]; rfl

/-! ### a concrete instance: `C05Split.ex1` (`VP` = uid 1 with blocks `[1]`, `[3,4]`, `[6]`; `NP` = uid 2 with `[1]`, `[4]`) -/

/-- the hypotheses hold of `ex1` -/
example : WF C05Split.ex1 = true ∧ uidsOK C05Split.ex1 = true ∧
    (∀ s ∈ C05Split.ex1.subtrees, ∀ f ks, s = node f ks →
      (ks.filter (fun k => k.fields.head == some true)).length = 1) := by
  refine ⟨by decide +kernel, by decide +kernel, ?_⟩
  have h : (C05Split.ex1.subtrees.all fun s => match s with
      | node _ ks => (ks.filter (fun k => k.fields.head == some true)).length == 1
      | leaf _ _ => true) = true := by decide +kernel
  intro s hs f ks e
  subst e
  rw [List.all_eq_true] at h
  simpa using h _ hs

/-- ... and the conclusion, evaluated -/
example : ∃ t', boydSplit C05Split.ex1 = .ok t' ∧
    (repsOf t' 1).map (fun x => (getLabel splitOpts x).toOption) =
      [some "VP*1".toList, some "VP*2".toList, some "VP*3".toList] ∧
    (repsOf t' 1).map yield = [[1], [3, 4], [6]] ∧
    (repsOf t' 2).map (fun x => (getLabel splitOpts x).toOption) = [some "NP*1".toList, some "NP*2".toList] ∧
    (repsOf t' 0).map (fun x => (getLabel splitOpts x).toOption) = [some "S".toList] :=
  ⟨_, rfl, by decide +kernel⟩

end TT.Props.C05More2
