/-
  C12 (landing site) — "re-attached to the LOWEST constituent dominating both neighbours, while a child …
  whose neighbours meet only at the root, stays".

  `Lands c tl tr t t'` is the set-based statement of the rule for one child: `t'` is `t` with `c` added as a
  child of a constituent `p` such that every constituent on the way from the top down to `p` (below the top)
  dominates both tokens `tl` and `tr`, and no child of `p` dominates both - i.e. `p` is the lowest constituent
  dominating both.  Nothing else differs between `t` and `t'`.
-/
import TT.Props.C12
import TT.Lemmas.Nav
namespace TT.Props.C12Land
open TT TT.Tree TT.Spec

/-- `k` dominates both tokens -/
def both (tl tr : Nat) (k : Tree) : Bool := k.hasLeaf tl && k.hasLeaf tr

inductive Lands (c : Tree) (tl tr : Nat) : Tree → Tree → Prop
  /-- no child dominates both: `c` becomes a child of this constituent -/
  | stop (f : Fields) (ks : List Tree) (h : ∀ k ∈ ks, both tl tr k = false) :
      Lands c tl tr (node f ks) (node f (ks ++ [c]))
  /-- the first child that dominates both is a constituent and receives `c` somewhere below -/
  | descend (f : Fields) (pre post : List Tree) (k k' : Tree) (hpre : ∀ x ∈ pre, both tl tr x = false)
      (hk : both tl tr k = true) (hl : Lands c tl tr k k') :
      Lands c tl tr (node f (pre ++ k :: post)) (node f (pre ++ k' :: post))

/-- split a list at the first element satisfying `p` -/
theorem split_first {α} (p : α → Bool) : ∀ (l : List α), l.any p = true →
    ∃ pre k post, l = pre ++ k :: post ∧ (∀ x ∈ pre, p x = false) ∧ p k = true
  | [], h => by simp at h
  | x :: xs, h => by
    by_cases hx : p x = true
    · exact ⟨[], x, xs, rfl, by simp, hx⟩
    · have hx' : p x = false := by simpa using hx
      have : xs.any p = true := by simpa [List.any_cons, hx'] using h
      obtain ⟨pre, k, post, e, hp, hk⟩ := split_first p xs this
      refine ⟨x :: pre, k, post, by simp [e], ?_, hk⟩
      intro y hy
      rcases List.mem_cons.1 hy with rfl | hy
      · exact hx'
      · exact hp y hy

theorem attachLowestL_split (c : Tree) (tl tr : Nat) (pre post : List Tree) (k : Tree)
    (hpre : ∀ x ∈ pre, both tl tr x = false) (hk : both tl tr k = true) :
    attachLowestL c tl tr (pre ++ k :: post) = pre ++ attachLowest c tl tr k :: post := by
  induction pre with
  | nil =>
    simp only [List.nil_append, attachLowestL]
    simp only [both] at hk
    simp [hk]
  | cons x xs ih =>
    have hx : both tl tr x = false := hpre x (by simp)
    simp only [both] at hx
    simp only [List.cons_append, attachLowestL, hx]
    rw [ih (fun y hy => hpre y (by simp [hy]))]
    simp

/-- **where it lands**: below a constituent, `attachLowest` realises the set-based rule -/
theorem attachLowest_lands (c : Tree) (tl tr : Nat) (h : tl ≠ tr) :
    ∀ (t : Tree), t.isLeaf = false → Lands c tl tr t (attachLowest c tl tr t)
  | leaf _ _, hl => by simp [Tree.isLeaf] at hl
  | node f ks, _ => by
    by_cases hany : ks.any (both tl tr) = true
    · obtain ⟨pre, k, post, e, hp, hk⟩ := split_first (both tl tr) ks hany
      have hany' : ks.any (fun k => k.hasLeaf tl && k.hasLeaf tr) = true := hany
      have hkl : k.isLeaf = false := by
        exact Lemmas.RootAttach.isLeaf_false_of_both k tl tr h hk
      have : sizeOf k < 1 + sizeOf f + sizeOf ks := by
        subst e
        have := List.sizeOf_lt_of_mem (a := k) (as := pre ++ k :: post) (by simp)
        omega
      have ih := attachLowest_lands c tl tr h k hkl
      simp only [attachLowest, hany', if_true]
      subst e
      rw [attachLowestL_split c tl tr pre post k hp hk]
      exact Lands.descend f pre post k _ hp hk ih
    · have hnone : ∀ k ∈ ks, both tl tr k = false := by
        intro k hk
        cases hb : both tl tr k with
        | false => rfl
        | true => exact absurd (List.any_eq_true.2 ⟨k, hk, hb⟩) hany
      have hany' : ks.any (fun k => k.hasLeaf tl && k.hasLeaf tr) = false := by
        simpa [both] using hany
      simp only [attachLowest, hany']
      exact Lands.stop f ks hnone
termination_by t => sizeOf t

theorem Lands.inv {c : Tree} {tl tr : Nat} {f : Fields} {ks : List Tree} {b : Tree} (h : Lands c tl tr (node f ks) b) :
    ((∀ k ∈ ks, both tl tr k = false) ∧ b = node f (ks ++ [c])) ∨
    ∃ pre k k' post, ks = pre ++ k :: post ∧ (∀ x ∈ pre, both tl tr x = false) ∧ both tl tr k = true ∧
      Lands c tl tr k k' ∧ b = node f (pre ++ k' :: post) := by
  cases h with
  | stop _ _ h => exact Or.inl ⟨h, rfl⟩
  | descend _ pre post k k' hpre hk hl => exact Or.inr ⟨pre, k, k', post, rfl, hpre, hk, hl, rfl⟩

/-- the first element satisfying a test splits a list in one way only -/
theorem first_split_unique {α} (p : α → Bool) : ∀ (p1 p2 : List α) (x1 x2 : α) (q1 q2 : List α),
    p1 ++ x1 :: q1 = p2 ++ x2 :: q2 → (∀ x ∈ p1, p x = false) → (∀ x ∈ p2, p x = false) →
    p x1 = true → p x2 = true → p1 = p2 ∧ x1 = x2 ∧ q1 = q2
  | [], [], x1, x2, q1, q2, e, _, _, _, _ => by simp at e; exact ⟨rfl, e.1, e.2⟩
  | [], y :: ys, x1, x2, q1, q2, e, _, h2, b1, _ => by
    simp at e
    have := h2 y (by simp)
    rw [← e.1, b1] at this; cases this
  | y :: ys, [], x1, x2, q1, q2, e, h1, _, _, b2 => by
    simp at e
    have := h1 y (by simp)
    rw [e.1, b2] at this; cases this
  | y :: ys, z :: zs, x1, x2, q1, q2, e, h1, h2, b1, b2 => by
    simp at e
    obtain ⟨r1, r2, r3⟩ := first_split_unique p ys zs x1 x2 q1 q2 e.2 (fun x hx => h1 x (by simp [hx]))
      (fun x hx => h2 x (by simp [hx])) b1 b2
    exact ⟨by rw [e.1, r1], r2, r3⟩

/-- the rule pins the result down: `Lands` is a function of the tree -/
theorem Lands.unique {c : Tree} {tl tr : Nat} : ∀ {t a b : Tree}, Lands c tl tr t a → Lands c tl tr t b → a = b := by
  intro t a b ha
  induction ha generalizing b with
  | stop f ks h =>
    intro hb
    rcases hb.inv with ⟨_, rfl⟩ | ⟨pre, k, k', post, e, _, hk, _, _⟩
    · rfl
    · have := h k (by rw [e]; simp)
      rw [this] at hk; cases hk
  | descend f pre post k k' hpre hk hl ih =>
    intro hb
    rcases hb.inv with ⟨h, _⟩ | ⟨pre2, k2, k2', post2, e, hpre2, hk2, hl2, rfl⟩
    · have := h k (by simp)
      rw [this] at hk; cases hk
    · obtain ⟨r1, r2, r3⟩ := first_split_unique (both tl tr) pre pre2 k k2 post post2 e hpre hpre2 hk hk2
      subst r1 r2 r3
      rw [ih hl2]

/-- what is added is `c`, once: the receiving constituent `p` is described explicitly -
    every constituent passed on the way down dominates both tokens, no child of `p` does -/
theorem Lands.receiver {c : Tree} {tl tr : Nat} {t t' : Tree} (h : Lands c tl tr t t') :
    ∃ p ∈ t.subtrees, p.isLeaf = false ∧ (∀ k ∈ p.kids, both tl tr k = false) ∧
      node p.fields (p.kids ++ [c]) ∈ t'.subtrees ∧ (p = t ∨ both tl tr p = true) := by
  induction h with
  | stop f ks h =>
    exact ⟨node f ks, by simp [subtrees], rfl, h, by simp [subtrees, Tree.fields, Tree.kids], Or.inl rfl⟩
  | descend f pre post k k' hpre hk hl ih =>
    obtain ⟨p, hp, hpl, hpk, hmem, hor⟩ := ih
    refine ⟨p, ?_, hpl, hpk, ?_, Or.inr ?_⟩
    · simp only [subtrees, List.mem_cons]
      right
      rw [Lemmas.Nav.subtreesL_eq]
      simp only [List.mem_flatMap]
      exact ⟨k, by simp, hp⟩
    · simp only [subtrees, List.mem_cons]
      right
      rw [Lemmas.Nav.subtreesL_eq]
      simp only [List.mem_flatMap]
      exact ⟨k', by simp, hmem⟩
    · rcases hor with rfl | hb
      · exact hk
      · exact hb

/-- in a tree whose tokens have distinct numbers (every well-formed tree) "the first child dominating both" is
    "the only child dominating both": the rule does not depend on the order in which children are stored -/
theorem only_child_both (tl tr : Nat) (f : Fields) (pre post : List Tree) (k : Tree)
    (hn : (node f (pre ++ k :: post)).leafNums.Nodup) (hk : both tl tr k = true) :
    ∀ x ∈ pre ++ post, both tl tr x = false := by
  have hl : (node f (pre ++ k :: post)).leaves = (pre.flatMap leaves) ++ leaves k ++ post.flatMap leaves := by
    simp [leaves, Lemmas.RootAttach.additive_leaves.eq_flatMap]
  simp only [both, Bool.and_eq_true, hasLeaf, List.contains_iff_mem] at hk
  intro x hx
  cases hb : both tl tr x with
  | false => rfl
  | true =>
    exfalso
    simp only [both, Bool.and_eq_true, hasLeaf, List.contains_iff_mem] at hb
    simp only [leafNums, hl, List.map_append, List.nodup_append, List.map_flatMap] at hn
    have hxl : tl ∈ (leaves x).map num := by simpa [leafNums] using hb.1
    have hkl : tl ∈ (leaves k).map num := by simpa [leafNums] using hk.1
    rcases List.mem_append.1 hx with hx | hx
    · have : tl ∈ List.flatMap (fun a => (leaves a).map num) pre := List.mem_flatMap.2 ⟨x, hx, hxl⟩
      exact hn.1.2.2 tl this tl hkl rfl
    · have : tl ∈ List.flatMap (fun a => (leaves a).map num) post := List.mem_flatMap.2 ⟨x, hx, hxl⟩
      exact hn.2.2 tl (List.mem_append.2 (Or.inr hkl)) tl this rfl

/-! ### one step of `root_attach`, with the neighbours named -/

/-- the right neighbour of the root child `c`: the token after `c` and after every adjacent root child
    to its right (`right` = the root children to the right of `c`, ordered) -/
def rightNeighbour (c : Tree) (right : List Tree) : Nat := skipRight (rightmost c) (rightmost c + 1) right

/-- the root children to the right of the child found under `key`, in order -/
def rightOf (ks : List Tree) (key : Nat) : List Tree :=
  ((sortBy leftmost ks).dropWhile (fun k => leftmost k != key)).drop 1

theorem rootAttachStep_unfold (tmin tmax : Nat) (f : Fields) (ks : List Tree) (key : Nat) (c : Tree)
    (hc : ks.find? (fun k => leftmost k == key) = some c) :
    rootAttachStep tmin tmax (node f ks) key =
      if leftmost c - 1 < tmin || rightNeighbour c (rightOf ks key) > tmax then node f ks
      else attachLowest c (leftmost c - 1) (rightNeighbour c (rightOf ks key))
        (node f (eraseFirst (fun k => leftmost k == key) ks)) := by
  unfold rootAttachStep
  simp only [hc]
  rfl

/-- **one step, completely**: the root child `c` either stays (it is at the sentence start or end: its left
    neighbour `leftmost c - 1` or its right neighbour lies outside the sentence) or it is taken out and lands,
    by the set-based rule, below the lowest constituent dominating the two neighbours - which is the root
    itself when the neighbours meet only there -/
theorem rootAttachStep_lands (tmin tmax : Nat) (f : Fields) (ks : List Tree) (key : Nat) (c : Tree)
    (hc : ks.find? (fun k => leftmost k == key) = some c) :
    (leftmost c - 1 < tmin ∨ rightNeighbour c (rightOf ks key) > tmax →
      rootAttachStep tmin tmax (node f ks) key = node f ks) ∧
    (¬ (leftmost c - 1 < tmin ∨ rightNeighbour c (rightOf ks key) > tmax) →
      Lands c (leftmost c - 1) (rightNeighbour c (rightOf ks key))
        (node f (eraseFirst (fun k => leftmost k == key) ks)) (rootAttachStep tmin tmax (node f ks) key)) := by
  have hlt : leftmost c - 1 ≠ rightNeighbour c (rightOf ks key) := by
    have h1 := Lemmas.RootAttach.skipRight_ge (rightOf ks key) (rightmost c)
    have h2 := Lemmas.RootAttach.leftmost_le_rightmost c
    simp only [rightNeighbour]
    omega
  rw [rootAttachStep_unfold tmin tmax f ks key c hc]
  constructor
  · intro hedge
    have : (decide (leftmost c - 1 < tmin) || decide (rightNeighbour c (rightOf ks key) > tmax)) = true := by
      rcases hedge with h | h <;> simp [h]
    rw [if_pos this]
  · intro hin
    have : ¬ ((decide (leftmost c - 1 < tmin) || decide (rightNeighbour c (rightOf ks key) > tmax)) = true) := by
      intro h
      simp only [Bool.or_eq_true, decide_eq_true_eq] at h
      exact hin h
    rw [if_neg this]
    exact attachLowest_lands c _ _ hlt _ rfl

/-- "… or whose neighbours meet only at the root, stays": when no other root child dominates both neighbours the
    child is a root child afterwards (child lists are sets: it is stored last) -/
theorem rootAttachStep_meet_at_root (tmin tmax : Nat) (f : Fields) (ks : List Tree) (key : Nat) (c : Tree)
    (hc : ks.find? (fun k => leftmost k == key) = some c)
    (hmeet : ∀ k ∈ eraseFirst (fun k => leftmost k == key) ks,
      both (leftmost c - 1) (rightNeighbour c (rightOf ks key)) k = false) :
    rootAttachStep tmin tmax (node f ks) key = node f ks ∨
    rootAttachStep tmin tmax (node f ks) key = node f (eraseFirst (fun k => leftmost k == key) ks ++ [c]) := by
  have h := rootAttachStep_lands tmin tmax f ks key c hc
  by_cases hedge : leftmost c - 1 < tmin ∨ rightNeighbour c (rightOf ks key) > tmax
  · exact Or.inl (h.1 hedge)
  · right
    exact Lands.unique (h.2 hedge) (Lands.stop f _ hmeet)

/-- the example of `TT.Props.C12`: token 3 (`C`) lands below `NP`, the lowest constituent dominating its neighbours 2 and 4 -/
example : (rootAttachStep 1 5 C12.exT 3).beq
    (attachLowest (leaf 3 { label := "C".toList, uid := some 5 }) 2 4
      (node C12.exT.fields (eraseFirst (fun k => leftmost k == 3) C12.exT.kids))) = true := by decide
example : Lands (leaf 3 { label := "C".toList, uid := some 5 }) 2 4
    (node C12.exT.fields (eraseFirst (fun k => leftmost k == 3) C12.exT.kids))
    (attachLowest (leaf 3 { label := "C".toList, uid := some 5 }) 2 4
      (node C12.exT.fields (eraseFirst (fun k => leftmost k == 3) C12.exT.kids))) :=
  attachLowest_lands _ 2 4 (by decide) _ rfl

end TT.Props.C12Land
