/-
  C02 (TIGER-XML) — the specification decoder `decTiger` reads back what `writeTiger` wrote.

  Proved exactly as stated: `attrs_single`, `tline_attrs`, `writeTiger_raw_ok`.
  FALSE as stated: `decTiger_write` (two independent counterexamples below, see also the note at the end of the file);
  proved with two extra hypotheses: `decTiger_write'`
     (`hlen : t.leafNums.length < 500`, `hroot : t.fields.edge.getD DEFAULT_EDGE = DEFAULT_EDGE`);
  both hypotheses are necessary (`decTiger_write_false_root` is kernel-checked; the 500-token counterexample is given by `#eval`
  in the note).  Pieces of the main proof that are of independent interest are restated here:
  `writeTiger_lines`, `decTiger_ids_distinct`, `decTiger_table`, `decTiger_tokens`, `decTiger_root_unique`, `decTiger_rebuild`.
-/
import TT.Spec.Formats
import TT.Lemmas.TigerRT
import TT.Lemmas.Read
namespace TT.Props.C02Tiger
open TT TT.Tree TT.Spec
open TT.Lemmas.TigerRT TT.Lemmas.GramOut

/-! ### concrete trees for the instances -/

/-- `(S (NP (A w)) (B b<"'&))`, the children of `S` stored in the other order; XML-special characters and both quotes in a
    word, a non-default edge on a constituent and on a token -/
def exT : Tree :=
  node { label := "S".toList } [leaf 2 { label := "B".toList, word := some "b<\"'&".toList },
    node { label := "NP".toList, edge := some "SB".toList } [leaf 1 { label := "A".toList, word := some "w".toList, edge := some "HD".toList }]]

/-- the same tree with an edge label on the root -/
def exRootEdge : Tree :=
  node { label := "S".toList, edge := some "XX".toList } [leaf 1 { label := "A".toList, word := some "w".toList }]

/-! ### one attribute -/

/-- parsing one written attribute gives its value back -/
theorem attrs_single (name v rest : Str) (hn : name ≠ [] ∧ ∀ c ∈ name, c ≠ '=' ∧ c ≠ ' ' ∧ c ≠ '>' ∧ c ≠ '/' ∧ c ≠ '"' ∧ c ≠ '\'') (fuel : Nat)
    (hf : (name ++ ['='] ++ quoteattr v ++ rest).length < fuel) :
    attrsAux fuel (name ++ ['='] ++ quoteattr v ++ rest) = (name, v) :: attrsAux (fuel - 1) rest := by
  have hn' : NameOK name := ⟨hn.1, fun c hc => ⟨(hn.2 c hc).1, (hn.2 c hc).2.1, (hn.2 c hc).2.2.1, (hn.2 c hc).2.2.2.1⟩⟩
  cases fuel with
  | zero => simp at hf
  | succ f => exact attrsAux_quoteattr name v rest hn' f

/-- the third branch of `quoteattr` (both kinds of quotes inside the value), followed by a second attribute -/
example : attrsAux 40 ("word".toList ++ ['='] ++ quoteattr "b<\"'&".toList ++ " pos=\"B\" />".toList) =
    ("word".toList, "b<\"'&".toList) :: attrsAux 39 " pos=\"B\" />".toList :=
  attrs_single _ _ _ (by decide) 40 (by decide +kernel)

/-! ### a whole token line -/

/-- a written token line decodes to the token's fields -/
theorem tline_attrs (n : Nat) (w le p m : Str) :
    let line := "<t id=\"".toList ++ natToStr n ++ "\" ".toList ++ "word=".toList ++ quoteattr w ++ " lemma=".toList ++ quoteattr le ++
                " pos=".toList ++ quoteattr p ++ " morph=".toList ++ quoteattr m ++ " />".toList
    attr (attrs (line.drop 2)) "id" = some (natToStr n) ∧ attr (attrs (line.drop 2)) "word" = some w ∧
    attr (attrs (line.drop 2)) "lemma" = some le ∧ attr (attrs (line.drop 2)) "pos" = some p ∧ attr (attrs (line.drop 2)) "morph" = some m := by
  intro line
  have : line = tokLineS n w le p m := tokLine_unindented n w le p m
  rw [this]
  exact tok_attrs n w le p m

/-- an instance of the theorem: XML-special characters and both kinds of quotes in the word -/
example : attr (attrs (("<t id=\"".toList ++ natToStr 2 ++ "\" ".toList ++ "word=".toList ++ quoteattr "b<\"'&".toList ++ " lemma=".toList ++
      quoteattr "--".toList ++ " pos=".toList ++ quoteattr "B".toList ++ " morph=".toList ++ quoteattr "--".toList ++ " />".toList).drop 2)) "word" =
    some "b<\"'&".toList := (tline_attrs 2 "b<\"'&".toList "--".toList "B".toList "--".toList).2.1
example : attr (attrs ("<t id=\"2\" word=\"b&lt;&quot;'&amp;\" lemma=\"--\" pos=\"B\" morph=\"--\" />".toList.drop 2)) "word" =
    some "b<\"'&".toList := by decide +kernel

/-- the other element lines -/
theorem ntline_attrs (k : Nat) (cat : Str) :
    let line := "<nt id=\"".toList ++ natToStr k ++ "\" cat=".toList ++ quoteattr cat ++ ">".toList
    attr (attrs (line.drop 3)) "id" = some (natToStr k) ∧ attr (attrs (line.drop 3)) "cat" = some cat := by
  intro line
  have : line = ntLineS k cat := by
    show "<nt id=\"".toList ++ natToStr k ++ "\" cat=".toList ++ quoteattr cat ++ ">".toList = _
    have e : "<nt id=\"".toList = ['<','n','t',' ','i','d','=','"'] := rfl
    simp only [e, lit_n2, lit_gt, ntLineS, attrStr, attrNum, qnum, kId, kCat, List.append_assoc, List.cons_append, List.nil_append]
  rw [this]
  exact nt_attrs k cat

theorem edgeline_attrs (lab : Str) (k : Nat) :
    let line := "<edge label=".toList ++ quoteattr lab ++ " idref=\"".toList ++ natToStr k ++ "\" />".toList
    attr (attrs (line.drop 5)) "label" = some lab ∧ attr (attrs (line.drop 5)) "idref" = some (natToStr k) := by
  intro line
  have : line = edgeLineS lab k := by
    show "<edge label=".toList ++ quoteattr lab ++ " idref=\"".toList ++ natToStr k ++ "\" />".toList = _
    have e : "<edge label=".toList = ['<','e','d','g','e',' ','l','a','b','e','l','='] := rfl
    simp only [e, lit_e2, lit_e3, edgeLineS, attrStr, attrNum, qnum, kLabel, kIdref, List.append_assoc, List.cons_append, List.nil_append]
  rw [this]
  exact edge_attrs lab k

example : attr (attrs ("<edge label=\"SB\" idref=\"500\" />".toList.drop 5)) "idref" = some "500".toList := by decide +kernel

/-! ### raw well-formedness of the written lines -/

/-- no written line contains a raw '<' or an unescaped delimiter inside an attribute value -/
theorem writeTiger_raw_ok (sid : Nat) (t : Tree) : ∀ l ∈ writeTiger sid t, rawAttrsOK l = true :=
  raw_ok_all sid t

example : (writeTiger 7 exT).all rawAttrsOK = true := by decide +kernel
/-- the check is not vacuous: a raw `<` inside a value and a value that is not closed are refused -/
example : rawAttrsOK "<t word=\"a<b\" />".toList = false ∧ rawAttrsOK "<t word=\"ab />".toList = false := by decide +kernel

/-! ### the pieces of the round trip -/

/-- the written lines, without indentation: the `<s>` line, the `<graph>` line, one line per token (in token order),
    one `<nt>`/`<edge>`…/`</nt>` block per constituent (in the writer's postorder) -/
theorem writeTiger_lines (sid : Nat) (t : Tree) :
    (writeTiger sid t).map stripLine =
      [sLine sid, gLine (numOf t []), T0] ++ t.terminals.map tokS ++ [T1, N0] ++ (consList t).flatMap (ntBlockS t) ++ [N1, G1, S1] :=
  map_strip_writeTiger sid t

/-- numbering facts (from C19): with fewer than 500 tokens the identifiers of all nodes are pairwise different -/
theorem decTiger_ids_distinct (t : Tree) (hwf : WF t = true) (hlen : t.leafNums.length < 500) (p q : Path) (s s' : Tree)
    (hp : get? t p = some s) (hq : get? t q = some s') (e : natToStr (numOf t p) = natToStr (numOf t q)) : p = q :=
  numOf_inj t hwf hlen p q s s' hp hq (natToStr_inj e)

/-- the nonterminal table the decoder reads: one entry per constituent (id, category, edges to the ordered children) -/
theorem decTiger_table (sid : Nat) (t : Tree) :
    ntListOf ((writeTiger sid t).map stripLine) = (consList t).map (ntEnt t) := by
  rw [map_strip_writeTiger]; exact ntListOf_stripped sid t

/-- the token table the decoder reads: one entry per token with id, word, lemma, POS, morphology -/
theorem decTiger_tokens (sid : Nat) (t : Tree) :
    (((writeTiger sid t).map stripLine).filter (fun l => "<t ".toList.isPrefixOf l)).mapM tokOfLine = some (t.terminals.map tokEnt) := by
  rw [map_strip_writeTiger]; exact toks_stripped sid t

/-- exactly one constituent is nobody's child -/
theorem decTiger_root_unique (t : Tree) (hwf : WF t = true) (hlen : t.leafNums.length < 500) :
    ((consList t).map (ntEnt t)).filter (fun x => (edgeOfL ((consList t).map (ntEnt t)) x.1).isNone) = [ntEnt t ([], t)] :=
  roots_eq t hwf hlen

/-- the recursive rebuild of the node at a valid path (any sufficient fuel) -/
theorem decTiger_rebuild (t : Tree) (hwf : WF t = true) (hlen : t.leafNums.length < 500) (s : Tree) (p : Path) (fuel : Nat)
    (hg : get? t p = some s) (hf : height s < fuel)
    (hE : (edgeOfL ((consList t).map (ntEnt t)) (natToStr (numOf t p))).getD DEFAULT_EDGE = s.fields.edge.getD DEFAULT_EDGE) :
    ∃ d, decTiger.build (t.terminals.map tokEnt) ((consList t).map (ntEnt t)) (edgeOfL ((consList t).map (ntEnt t))) fuel
            (natToStr (numOf t p)) = some d ∧ sortKids d = sortKids (carryTiger s) :=
  build_ok t hwf hlen s p fuel hg hf hE

/-! ### MAIN -/

/-- CORRECTED `decTiger_write`: the specification decoder recovers sentence id, tokens (word, lemma, POS, morphology), labels,
    edge labels and dominance.  Two hypotheses are added to the given statement, each necessary:
    `hlen` (fewer than 500 tokens: token ids `1..n` and constituent ids `500..` cannot collide) and
    `hroot` (the root carries no edge label other than the default: TIGER-XML has no place for it). -/
theorem decTiger_write' (sid : Nat) (t : Tree) (hwf : WF t = true) (hlen : t.leafNums.length < 500)
    (hroot : t.fields.edge.getD DEFAULT_EDGE = DEFAULT_EDGE) :
    ∃ s, decTiger (writeTiger sid t) = some s ∧ strToNat? s.sid = some sid ∧ sameTree s.tree (carryTiger t) = true := by
  have hne := TT.Lemmas.WF.WF_noEmpty t hwf
  have hfuel : height t < ((consList t).map (ntEnt t)).length + 2 := by
    have := height_le_consList t hne
    rw [List.length_map]; omega
  have hE : (edgeOfL ((consList t).map (ntEnt t)) (natToStr (numOf t []))).getD DEFAULT_EDGE = t.fields.edge.getD DEFAULT_EDGE := by
    rw [edgeOf_root t hwf hlen, hroot]; rfl
  obtain ⟨d, hd1, hd2⟩ := build_ok t hwf hlen t [] _ rfl hfuel hE
  refine ⟨{ sid := natToStr sid, tree := d }, ?_, strToNat_natToStr sid, ?_⟩
  · apply decTiger_of_stages (writeTiger sid t) (sLine sid) (natToStr sid) (t.terminals.map tokEnt) (ntEnt t ([], t)) d
    · rw [map_strip_writeTiger]; exact sLine_found sid t
    · exact sLine_id sid
    · exact decTiger_tokens sid t
    · rw [decTiger_table]; exact roots_eq t hwf hlen
    · rw [decTiger_table]; exact hd1
  · show Tree.beq (sortKids d) (sortKids (carryTiger t)) = true
    rw [hd2]; exact TT.Lemmas.Write.beq_refl _

/-- a non-trivial instance: children stored out of order, XML-special characters, non-default edges -/
example : WF exT = true ∧ exT.leafNums.length < 500 ∧ exT.fields.edge.getD DEFAULT_EDGE = DEFAULT_EDGE := by decide +kernel
example : ∃ s, decTiger (writeTiger 7 exT) = some s ∧ strToNat? s.sid = some 7 ∧ sameTree s.tree (carryTiger exT) = true :=
  decTiger_write' 7 exT (by decide +kernel) (by decide +kernel) (by decide +kernel)

/-- the hypothesis `hroot` in the usual form: the root has no edge label -/
theorem decTiger_write_noRootEdge (sid : Nat) (t : Tree) (hwf : WF t = true) (hlen : t.leafNums.length < 500)
    (hroot : t.fields.edge = none) :
    ∃ s, decTiger (writeTiger sid t) = some s ∧ strToNat? s.sid = some sid ∧ sameTree s.tree (carryTiger t) = true :=
  decTiger_write' sid t hwf hlen (by rw [hroot]; rfl)

/-! ### counterexamples to `decTiger_write` as stated -/

/-- COUNTEREXAMPLE 1 (kernel-checked): a well-formed tree whose root carries the edge label `XX`.  The decoder succeeds, but the
    root of the decoded tree has the default edge `--` while `carryTiger` keeps `XX`: the conclusion of `decTiger_write` fails. -/
theorem decTiger_write_false_root :
    WF exRootEdge = true ∧
    ¬ ∃ s, decTiger (writeTiger 7 exRootEdge) = some s ∧ strToNat? s.sid = some 7 ∧ sameTree s.tree (carryTiger exRootEdge) = true := by
  refine ⟨by decide +kernel, ?_⟩
  rintro ⟨s, h1, _, h3⟩
  have h : (decTiger (writeTiger 7 exRootEdge)).map (fun s => sameTree s.tree (carryTiger exRootEdge)) = some false := by
    decide +kernel
  rw [h1] at h
  simp only [Option.map_some, Option.some.injEq] at h
  rw [h3] at h
  cases h

/-
  NOTE — `decTiger_write` as given in the brief is FALSE:

      theorem decTiger_write (sid : Nat) (t : Tree) (hwf : WF t = true) :
          ∃ s, decTiger (writeTiger sid t) = some s ∧ strToNat? s.sid = some sid ∧ sameTree s.tree (carryTiger t) = true

  1. Root edge.  `carryTiger` keeps the edge label of every node including the root, but TIGER-XML stores an edge label on the
     `<edge>` element of the parent, and the root has no parent.  `exRootEdge` (root edge `XX`) is a kernel-checked counterexample
     (`decTiger_write_false_root`).  Minimal extra hypothesis: `t.fields.edge.getD DEFAULT_EDGE = DEFAULT_EDGE`
     (the root's edge is absent or `--`).
  2. Identifier collision.  Tokens are written with ids `1..n`, constituents with `500, 501, …` (root `0`).  With 500 or more tokens the
     token `500` and the first non-root constituent share the id `"500"`; the decoder then resolves `idref="500"` to the token.
        def big (n : Nat) : Tree := node { label := "S".toList } (node { label := "NP".toList } [leaf 1 { label := "A".toList }] ::
                                      (List.range (n-1)).map fun i => leaf (i+2) { label := "B".toList })
        #eval WF (big 500)                                                                                       -- true
        #eval (decTiger (writeTiger 7 (big 499))).map fun s => sameTree s.tree (carryTiger (big 499))   -- some true
        #eval (decTiger (writeTiger 7 (big 500))).map fun s => sameTree s.tree (carryTiger (big 500))   -- some false
     (evaluated with `#eval`; `decide +kernel` confirms the last line too, but needs about 4.5 minutes, so it is not kept as an
     `example`).  Extra hypothesis: `t.leafNums.length < 500`.  (A collision needs 500 or more tokens AND a non-root constituent; a flat
     sentence of 500 tokens still round-trips, so the hypothesis is sufficient and, for trees with inner constituents, necessary.)
  With both hypotheses the statement is proved: `decTiger_write'`.  No further hypothesis is needed: attribute values may contain any
  character (XML-special, both kinds of quotes, non-ASCII, blanks, the empty string), children may be stored in any order, the tree may be
  discontinuous, and there may be any number of constituents.
-/

end TT.Props.C02Tiger
