/-
  C17, clause 11 continued (wave 16 d): the parts of a split written with the label decoration options the harness runs
  (`gf`, `gf_separator:#`, `brackets_emptyroot`) are files the reader accepts.  Writing with decoration is writing the relabelled
  tree `carryBrackets o true t` (printed labels such as `NP-SB` / `NP#SB`, words with parentheses replaced, the root label empty
  under `brackets_emptyroot`) without options (`Lemmas/More16d.lean`); the reader run without options does not undo the decoration:
  it delivers the relabelled trees.
  * brackets: `brackets_group_readable_gf` / `split_parts_readable_brackets_gf` (`gf`, any separator; with "written as the same part
    again"), `brackets_group_readable_emptyroot`, and ONE statement for `gf` + `gf_separator` + `brackets_emptyroot`:
    `brackets_group_readable_opts` / `split_parts_readable_brackets_opts` (what is read: `asReadRoot (carryBrackets o true t)`);
  * discobrackets: `disco_group_readable_gf` / `split_parts_readable_disco_gf`;
  * export, any writer options, either layout: `readExport_writeO_nf`, `export_group_readable_opts`,
    `split_parts_readable_export_opts` (what is read: `carryExportRoot o t` up to the order of children).
  * the reader run WITH `gf_split` and the writer's separator: `brackets_group_readable_gfsplit`,
    `split_parts_readable_brackets_gfsplit` (result = `gfSplitRead` of the result without options), `gfSplitLabel_built`
    (a printed label `cat ++ sep ++ gf` is split into `(cat, gf)` again, from `C20More2.parse_built_sep`).
  New definitions: `asReadRoot`, `noER`, `ExportGoodO`.
-/
import TT.Lemmas.More16d
import TT.Props.C17More3
import TT.Props.C01Readers
import TT.Props.C20More2
namespace TT.Props.C17More4
open TT TT.Tree TT.Spec TT.Lemmas.Run TT.Lemmas.More8 TT.Lemmas.More16d TT.Lemmas.WF TT.Lemmas.Write TT.Lemmas.OwnRT
open TT.Props.C17More2 TT.Props.C17More3

/-! ## brackets with `gf` / `gf_separator` -/

/-- the text of a group: with decoration options = the relabelled trees without options -/
theorem bodyText_brackets_gf (o : OutOpts) (hm : NoMarks o) (g : List (Nat × Tree))
    (hg : ∀ p ∈ g, BracketsGood (carryBrackets o true p.2)) :
    bodyText .brackets o g = bodyText .brackets {} (g.map fun p => (p.1, carryBrackets o true p.2)) :=
  bodyText_brackets_carry o hm g fun p hp =>
    ⟨TT.Lemmas.WF.WF_noEmpty _ (hg p hp).1, (hg p hp).2.1, (hg p hp).2.2.2⟩

/-- a group written in bracket format with `gf` (any separator) is read back by the bracket reader: as many trees, numbered from 1,
    each the RELABELLED tree (label = printed label, e.g. `NP-SB`) as the reader delivers it, and written (without options) as the
    very same text again.  `hg`: the relabelled trees are well formed, continuous, representable, without parentheses to replace -/
theorem brackets_group_readable_gf (o : OutOpts) (hm : NoMarks o) (g : List (Nat × Tree))
    (hg : ∀ p ∈ g, BracketsGood (carryBrackets o true p.2)) (txt : Str) (hw : bodyText .brackets o g = .ok txt) :
    ∃ rs : List Tree, readBrackets {} txt = .ok ((List.range' 1 g.length).zip rs) ∧ rs.length = g.length ∧
      (∀ (i : Nat) (p : Nat × Tree), g[i]? = some p →
        ∃ r, rs[i]? = some r ∧ sameTree r (asReadBrackets (carryBrackets o true p.2)) = true) ∧
      bodyText .brackets {} ((List.range' 1 g.length).zip rs) = .ok txt := by
  rw [bodyText_brackets_gf o hm g hg] at hw
  obtain ⟨rs, hr, hrl, hpt, hwr⟩ := brackets_group_readable (g.map fun p => (p.1, carryBrackets o true p.2))
    (by intro q hq; obtain ⟨p, hp, rfl⟩ := List.mem_map.1 hq; exact hg p hp) txt hw
  simp only [List.length_map] at hr hrl hwr
  refine ⟨rs, hr, hrl, ?_, hwr⟩
  intro i p hp
  exact hpt i (p.1, carryBrackets o true p.2) (by simp [hp])

/-- BRACKETS with `gf` / `gf_separator`: every part of a split written with label decoration is a file the bracket reader accepts;
    it reads as many trees as were handed to that part, tree by tree the relabelled tree, and the trees read are written (without
    options) as the same part again -/
theorem split_parts_readable_brackets_gf (o : OutOpts) (hm : NoMarks o) (steps : List Step) (enc : Option Str) (spec : Str)
    (ts ts' : List (Nat × Tree)) (sizes : List Nat) (parts : List Str)
    (ht : transformAll steps ts = .ok ts') (hs : parseSplitSpec spec ts'.length = .ok sizes)
    (hp : runSplitFrom steps .brackets o enc spec (.ok ts) = .ok parts)
    (hgood : ∀ p ∈ ts', BracketsGood (carryBrackets o true p.2)) :
    ∃ groups : List (List (Nat × Tree)), groups.flatten = ts' ∧ groups.map List.length = sizes ∧ parts.length = groups.length ∧
      ∀ (i : Nat) (part : Str), parts[i]? = some part →
        ∃ g rs, groups[i]? = some g ∧ readBrackets {} part = .ok ((List.range' 1 g.length).zip rs) ∧ rs.length = g.length ∧
          (∀ (j : Nat) (p : Nat × Tree), g[j]? = some p →
            ∃ r, rs[j]? = some r ∧ sameTree r (asReadBrackets (carryBrackets o true p.2)) = true) ∧
          writeAll .brackets {} enc ((List.range' 1 g.length).zip rs) = .ok part := by
  obtain ⟨groups, hfl, hlen, hm'⟩ := TT.Props.C17Run.split_part_trees steps .brackets o enc spec ts ts' sizes parts ht hs hp
  refine ⟨groups, hfl, hlen, mapM_length _ _ _ hm', ?_⟩
  intro i part hpart
  obtain ⟨g, hg, hw⟩ := mapM_getElem? _ _ _ hm' i part hpart
  rw [writeAll_plain .brackets o enc g (by decide)] at hw
  have hgg : ∀ p ∈ g, BracketsGood (carryBrackets o true p.2) := fun p hp => hgood p (by
    rw [← hfl]; exact List.mem_flatten.2 ⟨g, List.mem_of_getElem? hg, hp⟩)
  obtain ⟨rs, hr, hrl, hpt, hwr⟩ := brackets_group_readable_gf o hm g hgg part hw
  exact ⟨g, rs, hg, hr, hrl, hpt, by rw [writeAll_plain .brackets {} enc _ (by decide)]; exact hwr⟩

/-! ## brackets with `brackets_emptyroot`, and all three options in one statement -/

/-- what the bracket reader (no options) delivers for a written tree whose root label may be empty (`brackets_emptyroot`): an
    empty root label is read as the default root label — and that node, unlike every other, gets no default edge / morph fields -/
def asReadRoot : Tree → Tree
  | node f ks => if f.label.isEmpty then node { label := DEFAULT_ROOT } (ks.map asReadBrackets) else asReadBrackets (node f ks)
  | leaf n f => asReadBrackets (leaf n f)

/-- the options with `brackets_emptyroot` switched off -/
abbrev noER (o : OutOpts) : OutOpts := { o with emptyRoot := false }

theorem printedLabel_noER (o : OutOpts) (x : Tree) : printedLabel (noER o) x = printedLabel o x := rfl

theorem carry_false_noER (o : OutOpts) (t : Tree) : carryBrackets (noER o) false t = carryBrackets o false t := by
  induction t using tree_ind with
  | hl n f => rw [carryBrackets, carryBrackets, printedLabel_noER]
  | hn f ks ih =>
    rw [carryBrackets, carryBrackets, carryBracketsL_eq, carryBracketsL_eq, printedLabel_noER]
    simp only [Bool.false_and, Bool.false_eq_true, if_false]
    congr 1
    exact List.map_congr_left ih

theorem carry_true_node (o : OutOpts) (f : Fields) (ks : List Tree) :
    carryBrackets o true (node f ks) =
      node { label := (if o.emptyRoot then [] else printedLabel o (node f ks)) } (ks.map (carryBrackets o false)) := by
  rw [carryBrackets, carryBracketsL_eq]; simp


theorem replaceParens_nil : replaceParens [] = [] := by decide

/-- one tree under `brackets_emptyroot`: the relabelled tree (root label empty) meets the hypotheses of
    `bodyText_brackets_carry`, and its line is a group of the grammar read as `asReadRoot` of it -/
theorem emptyroot_tree (o : OutOpts) (he : o.emptyRoot = true) (t : Tree)
    (hg : BracketsGood (carryBrackets (noER o) true t)) :
    (carryBrackets o true t).noEmpty = true ∧ gapDegree (carryBrackets o true t) = 0 ∧
    (∀ x ∈ subtrees (carryBrackets o true t),
      replaceParens x.fields.label = x.fields.label ∧ (x.fields.word.map replaceParens) = x.fields.word) ∧
    ∀ s, bracketsSub {} false (carryBrackets o true t) = .ok s →
      LineOK (fun d => sameTree d (asReadRoot (carryBrackets o true t)) = true) s := by
  obtain ⟨hwf, hc, hok, hp⟩ := hg
  have hne : (carryBrackets o true t).noEmpty = true := by
    rw [noEmpty_carryBrackets, ← noEmpty_carryBrackets (noER o) t true]; exact WF_noEmpty _ hwf
  have hgap : gapDegree (carryBrackets o true t) = 0 :=
    (gapDegree_zero_carryBrackets o true t).2 ((gapDegree_zero_carryBrackets (noER o) true t).1 hc)
  have hnd : (carryBrackets o true t).leafNums.Nodup := by
    have := WF_nodup _ hwf
    rwa [leafNums_carry] at this ⊢
  have hlm : leftmost (carryBrackets o true t) = 1 := by
    rw [leftmost_carryBrackets, ← leftmost_carryBrackets (noER o) true t]
    exact TT.Props.C02.leftmost_of_WF _ hwf
  have hplain := plainOK_of _ hok hp
  refine ⟨hne, hgap, ?_⟩
  cases t with
  | leaf n f =>
    have := ((WF_iff _).1 hwf).1
    rw [carryBrackets] at this
    simp [Tree.isLeaf] at this
  | node f ks =>
    have hk : ks.map (carryBrackets (noER o) false) = ks.map (carryBrackets o false) :=
      List.map_congr_left fun k _ => carry_false_noER o k
    rw [carry_true_node] at hne hgap hnd hlm ⊢
    rw [carry_true_node, hk] at hp hplain
    simp only [he, if_true] at hne hgap hnd hlm ⊢
    have hsubs : ∀ x ∈ subtrees (node ({ label := [] } : Fields) (ks.map (carryBrackets o false))),
        x = node { label := [] } (ks.map (carryBrackets o false)) ∨
        ∃ k ∈ ks.map (carryBrackets o false), x ∈ subtrees k := fun x hx => (mem_subtrees_node _ _ x).1 hx
    constructor
    · intro x hx
      rcases hsubs x hx with rfl | ⟨k, hk', hxk⟩
      · exact ⟨replaceParens_nil, rfl⟩
      · exact hp x ((mem_subtrees_node _ _ x).2 (Or.inr ⟨k, hk', hxk⟩))
    · intro s hs
      obtain ⟨hs', hline⟩ := spOK_rootEmpty { label := [] } (ks.map (carryBrackets o false)) rfl hne hnd
        (TT.Props.C02.gapDegreeNode_zero_of_gapDegree _ hgap)
        (fun k hk' y hy => hplain y ((mem_subtrees_node _ _ y).2 (Or.inr ⟨k, hk', hy⟩))) s hs
      refine ⟨hs', 1 + (node ({ label := [] } : Fields) (ks.map (carryBrackets o false))).leafNums.length, ?_⟩
      intro fuel hf rest
      obtain ⟨d, hd, hsd⟩ := hline fuel hf rest
      rw [hlm] at hd
      refine ⟨d, hd, ?_⟩
      have e : asReadRoot (node ({ label := [] } : Fields) (ks.map (carryBrackets o false))) =
          node { label := DEFAULT_ROOT } ((ks.map (carryBrackets o false)).map asReadBrackets) := by
        simp [asReadRoot]
      show sameTree d _ = true
      unfold sameTree
      rw [e, hsd]
      exact beq_refl _


theorem asReadRoot_of_ok (u : Tree) (hok : BracketsOK u = true) : asReadRoot u = asReadBrackets u := by
  cases u with
  | leaf n f => rfl
  | node f ks =>
    unfold BracketsOK at hok
    rw [List.all_eq_true] at hok
    have h := hok _ (self_mem_subtrees _)
    simp only [Bool.and_eq_true, fieldOK, Tree.fields] at h
    have : f.label.isEmpty = false := by simpa using h.1.1.1
    simp [asReadRoot, this]

/-- a group written in bracket format with `brackets_emptyroot` (and possibly `gf`, any separator) is read back by the bracket
    reader: as many trees, numbered from 1, each the relabelled tree with the default root label -/
theorem brackets_group_readable_emptyroot (o : OutOpts) (hm : NoMarks o) (he : o.emptyRoot = true) (g : List (Nat × Tree))
    (hg : ∀ p ∈ g, BracketsGood (carryBrackets (noER o) true p.2)) (txt : Str) (hw : bodyText .brackets o g = .ok txt) :
    ∃ rs : List Tree, readBrackets {} txt = .ok ((List.range' 1 g.length).zip rs) ∧ rs.length = g.length ∧
      ∀ (i : Nat) (p : Nat × Tree), g[i]? = some p →
        ∃ r, rs[i]? = some r ∧ sameTree r (asReadRoot (carryBrackets o true p.2)) = true := by
  have hT := fun p hp => emptyroot_tree o he p.2 (hg p hp)
  rw [bodyText_brackets_carry o hm g (fun p hp => ⟨(hT p hp).1, (hT p hp).2.1, (hT p hp).2.2.1⟩)] at hw
  obtain ⟨lines, hl, rfl, hall⟩ := brackets_lines (g.map fun p => (p.1, carryBrackets o true p.2)) txt
    (by intro q hq; obtain ⟨p, hp, rfl⟩ := List.mem_map.1 hq; exact (hT p hp).2.1) hw
  simp only [List.length_map] at hl
  obtain ⟨rs, hspec, hrl, hrs⟩ := specBrackets_fileQ (fun t d => sameTree d (asReadRoot t) = true)
    (g.map fun p => carryBrackets o true p.2) lines (by simp [hl]) (by
      intro i hi
      simp only [List.length_map] at hi
      obtain ⟨s, hs, hsub⟩ := hall i (g[i].1, carryBrackets o true g[i].2) (by simp [hi])
      exact ⟨carryBrackets o true g[i].2, s, by simp [hi], hs,
        (hT g[i] (List.getElem_mem hi)).2.2.2 s hsub⟩)
  simp only [List.length_map] at hrl hrs
  refine ⟨rs, by rw [TT.Props.C03Own.readBrackets_of_spec _ _ hspec, hrl], hrl, ?_⟩
  intro i p hp
  have hi : i < g.length := (List.getElem?_eq_some_iff.1 hp).1
  obtain ⟨t, r, ht, hr, hsame⟩ := hrs i hi
  simp only [List.getElem?_map, hp, Option.map_some, Option.some.injEq] at ht
  subst ht
  exact ⟨r, hr, hsame⟩

theorem noER_eq (o : OutOpts) (he : o.emptyRoot = false) : noER o = o := by
  cases o; simp only [noER] at he ⊢; subst he; rfl

/-- ONE statement for `gf`, `gf_separator` and `brackets_emptyroot` (any combination; no head / split marks): a group written in
    bracket format with these options is read back by the bracket reader run without options: as many trees, numbered from 1,
    each the relabelled tree `carryBrackets o true t` (printed labels, e.g. `NP#SB`; root label empty under `brackets_emptyroot`) as
    the reader delivers it (`asReadRoot`: default fields, the empty root label read as the default root label).
    `hg`: the tree relabelled with the printed labels (root label included) is well formed, continuous, representable, and has
    no parentheses to replace -/
theorem brackets_group_readable_opts (o : OutOpts) (hm : NoMarks o) (g : List (Nat × Tree))
    (hg : ∀ p ∈ g, BracketsGood (carryBrackets (noER o) true p.2)) (txt : Str) (hw : bodyText .brackets o g = .ok txt) :
    ∃ rs : List Tree, readBrackets {} txt = .ok ((List.range' 1 g.length).zip rs) ∧ rs.length = g.length ∧
      ∀ (i : Nat) (p : Nat × Tree), g[i]? = some p →
        ∃ r, rs[i]? = some r ∧ sameTree r (asReadRoot (carryBrackets o true p.2)) = true := by
  cases he : o.emptyRoot with
  | true => exact brackets_group_readable_emptyroot o hm he g hg txt hw
  | false =>
    rw [noER_eq o he] at hg
    obtain ⟨rs, hr, hrl, hpt, _⟩ := brackets_group_readable_gf o hm g hg txt hw
    refine ⟨rs, hr, hrl, ?_⟩
    intro i p hp
    obtain ⟨r, hr', hs⟩ := hpt i p hp
    refine ⟨r, hr', ?_⟩
    rw [asReadRoot_of_ok _ (hg p (List.mem_of_getElem? hp)).2.2.1]
    exact hs


/-- BRACKETS with `gf`, `gf_separator`, `brackets_emptyroot` (what the harness runs, c17.py:108-109): every part of a split written
    with these options is a file the bracket reader (no options) accepts; it reads as many trees as were handed to that part,
    numbered from 1, tree by tree the relabelled tree as the reader delivers it -/
theorem split_parts_readable_brackets_opts (o : OutOpts) (hm : NoMarks o) (steps : List Step) (enc : Option Str) (spec : Str)
    (ts ts' : List (Nat × Tree)) (sizes : List Nat) (parts : List Str)
    (ht : transformAll steps ts = .ok ts') (hs : parseSplitSpec spec ts'.length = .ok sizes)
    (hp : runSplitFrom steps .brackets o enc spec (.ok ts) = .ok parts)
    (hgood : ∀ p ∈ ts', BracketsGood (carryBrackets (noER o) true p.2)) :
    ∃ groups : List (List (Nat × Tree)), groups.flatten = ts' ∧ groups.map List.length = sizes ∧ parts.length = groups.length ∧
      ∀ (i : Nat) (part : Str), parts[i]? = some part →
        ∃ g rs, groups[i]? = some g ∧ readBrackets {} part = .ok ((List.range' 1 g.length).zip rs) ∧ rs.length = g.length ∧
          ∀ (j : Nat) (p : Nat × Tree), g[j]? = some p →
            ∃ r, rs[j]? = some r ∧ sameTree r (asReadRoot (carryBrackets o true p.2)) = true := by
  obtain ⟨groups, hfl, hlen, hm'⟩ := TT.Props.C17Run.split_part_trees steps .brackets o enc spec ts ts' sizes parts ht hs hp
  refine ⟨groups, hfl, hlen, mapM_length _ _ _ hm', ?_⟩
  intro i part hpart
  obtain ⟨g, hg, hw⟩ := mapM_getElem? _ _ _ hm' i part hpart
  rw [writeAll_plain .brackets o enc g (by decide)] at hw
  have hgg : ∀ p ∈ g, BracketsGood (carryBrackets (noER o) true p.2) := fun p hp => hgood p (by
    rw [← hfl]; exact List.mem_flatten.2 ⟨g, List.mem_of_getElem? hg, hp⟩)
  obtain ⟨rs, hr, hrl, hpt⟩ := brackets_group_readable_opts o hm g hgg part hw
  exact ⟨g, rs, hg, hr, hrl, hpt⟩

/-! ### concrete instances -/

/-- a tree with edge labels and a parenthesis inside a word -/
def exA : Tree := node { label := "S".toList }
  [node { label := "NP".toList, edge := some "SB".toList }
     [leaf 1 { label := "A".toList, word := some "a(".toList, edge := some "NK".toList },
      leaf 2 { label := "B".toList, word := some "b".toList }],
   leaf 3 { label := "C".toList, word := some "c".toList, edge := some "HD".toList }]

/-- children stored out of order -/
def exB : Tree := node { label := "VP".toList, edge := some "OC".toList }
  [leaf 2 { label := "V".toList, word := some "v".toList, edge := some "HD".toList },
   node { label := "PP".toList, edge := some "MO".toList } [leaf 1 { label := "P".toList, word := some "p".toList }]]

def oGf : OutOpts := { gf := true, gfSeparator := some "#".toList }
def oGfER : OutOpts := { gf := true, gfSeparator := some "#".toList, emptyRoot := true }

theorem exA_good : BracketsGood (carryBrackets oGf true exA) :=
  ⟨by decide +kernel, by decide +kernel, by decide +kernel, by decide +kernel⟩
theorem exB_good : BracketsGood (carryBrackets oGf true exB) :=
  ⟨by decide +kernel, by decide +kernel, by decide +kernel, by decide +kernel⟩

/-- `gf`, `gf_separator:#`: two parts, both read back (the theorem applied) -/
example : ∃ parts, runSplitFrom [] .brackets oGf none "50%_rest".toList (.ok [(4, exA), (9, exB)]) = .ok parts ∧
    parts = ["(S(NP#SB(A aLRB)(B b))(C c))\n".toList, "(VP#OC(PP#MO(P p))(V v))\n".toList] ∧
    ∀ (i : Nat) (part : Str), parts[i]? = some part → ∃ rs, readBrackets {} part = .ok rs ∧ rs.length = 1 := by
  have hp : runSplitFrom [] .brackets oGf none "50%_rest".toList (.ok [(4, exA), (9, exB)]) =
      .ok ["(S(NP#SB(A aLRB)(B b))(C c))\n".toList, "(VP#OC(PP#MO(P p))(V v))\n".toList] := by decide +kernel
  obtain ⟨groups, hfl, hlen, _, h⟩ := split_parts_readable_brackets_opts oGf ⟨rfl, rfl, rfl⟩ [] none "50%_rest".toList _ _ [1, 1] _
    (transformAll_nil_steps _) (by decide +kernel) hp (by
      intro p hp
      simp only [List.mem_cons, List.not_mem_nil, or_false] at hp
      rcases hp with rfl | rfl
      · exact exA_good
      · exact exB_good)
  refine ⟨_, hp, rfl, fun i part hpart => ?_⟩
  obtain ⟨g, rs, hg, hr, hrl, _⟩ := h i part hpart
  have hgl : g.length = 1 := by
    have := congrArg (fun l => l[i]?) hlen
    simp only [List.getElem?_map, hg, Option.map_some] at this
    have hi : i < 2 := by
      have := (List.getElem?_eq_some_iff.1 hpart).1
      simpa using this
    rcases i with _ | _ | i
    · simpa using this
    · simpa using this
    · omega
  exact ⟨_, hr, by simp [hrl, hgl]⟩

/-- the same treebank with `brackets_emptyroot` too -/
example : ∃ parts, runSplitFrom [] .brackets oGfER none "50%_rest".toList (.ok [(4, exA), (9, exB)]) = .ok parts ∧
    parts = ["((NP#SB(A aLRB)(B b))(C c))\n".toList, "((PP#MO(P p))(V v))\n".toList] ∧
    ∀ (i : Nat) (part : Str), parts[i]? = some part → ∃ rs, readBrackets {} part = .ok rs := by
  have hp : runSplitFrom [] .brackets oGfER none "50%_rest".toList (.ok [(4, exA), (9, exB)]) =
      .ok ["((NP#SB(A aLRB)(B b))(C c))\n".toList, "((PP#MO(P p))(V v))\n".toList] := by decide +kernel
  obtain ⟨groups, _, _, _, h⟩ := split_parts_readable_brackets_opts oGfER ⟨rfl, rfl, rfl⟩ [] none "50%_rest".toList _ _ [1, 1] _
    (transformAll_nil_steps _) (by decide +kernel) hp (by
      intro p hp
      simp only [List.mem_cons, List.not_mem_nil, or_false] at hp
      rcases hp with rfl | rfl
      · exact exA_good
      · exact exB_good)
  refine ⟨_, hp, rfl, fun i part hpart => ?_⟩
  obtain ⟨g, rs, _, hr, _, _⟩ := h i part hpart
  exact ⟨_, hr⟩

/-- what comes back, computed: the first part under `brackets_emptyroot` is read as one tree, equal (up to the order in which
    children are stored) to `asReadRoot` of the relabelled tree: root label `ROOT`, below it `NP#SB` -/
def exARead : Tree := node { label := DEFAULT_ROOT }
  [node { label := "NP#SB".toList, edge := some DEFAULT_EDGE, morph := some DEFAULT_MORPH }
     [leaf 1 { label := "A".toList, word := some "aLRB".toList, edge := some DEFAULT_EDGE, morph := some DEFAULT_MORPH },
      leaf 2 { label := "B".toList, word := some "b".toList, edge := some DEFAULT_EDGE, morph := some DEFAULT_MORPH }],
   leaf 3 { label := "C".toList, word := some "c".toList, edge := some DEFAULT_EDGE, morph := some DEFAULT_MORPH }]

example : (match readBrackets {} "((NP#SB(A aLRB)(B b))(C c))\n".toList with
      | .ok [(1, r)] => Tree.beq r exARead
      | _ => false) = true ∧
    Tree.beq (asReadRoot (carryBrackets oGfER true exA)) exARead = true := by
  constructor <;> decide +kernel

/-- the hypothesis speaks about the RELABELLED tree, and must: this tree is fine for the bracket format written without `gf`
    (`BracketsGood`), but its edge label contains a blank, the printed label `NP-S B` is not a label of the format, and the reader
    rejects the part written with `gf` -/
def exBad : Tree := node { label := "S".toList }
  [node { label := "NP".toList, edge := some "S B".toList } [leaf 1 { label := "A".toList, word := some "a".toList }]]

example : WF exBad = true ∧ gapDegree exBad = 0 ∧ BracketsOK exBad = true ∧ BracketsOK (carryBrackets { gf := true } true exBad) = false ∧
    (runSplitFrom [] .brackets { gf := true } none "rest".toList (.ok [(1, exBad)])).map
      (·.map fun p => match readBrackets {} p with | .ok _ => true | .error _ => false) = .ok [false] := by
  decide +kernel

/-! ## discobrackets with `gf` / `gf_separator` -/

/-- a group written in discobracket format with `gf` (any separator) is read back by the discobracket reader: as many trees,
    numbered from 1, each the relabelled tree as the reader delivers it, and written (without options) as the same text again.
    `hg`: the relabelled tree is well formed, representable, no label with a parenthesis to replace (`DiscoGood`; discontinuous trees
    allowed), and the words of the tree itself are free of parentheses to replace (the sentence after the TAB is printed as is) -/
theorem disco_group_readable_gf (o : OutOpts) (hm : NoMarks o) (g : List (Nat × Tree))
    (hg : ∀ p ∈ g, DiscoGood (carryBrackets o true p.2) ∧ ∀ x ∈ subtrees p.2, x.fields.word.map replaceParens = x.fields.word)
    (txt : Str) (hw : bodyText .discobrackets o g = .ok txt) :
    ∃ rs : List Tree, readBrackets { disco := true } txt = .ok ((List.range' 1 g.length).zip rs) ∧ rs.length = g.length ∧
      (∀ (i : Nat) (p : Nat × Tree), g[i]? = some p →
        ∃ r, rs[i]? = some r ∧ sameTree r (asReadBrackets (carryBrackets o true p.2)) = true) ∧
      bodyText .discobrackets {} ((List.range' 1 g.length).zip rs) = .ok txt := by
  rw [bodyText_disco_carry o hm g (fun p hp =>
    ⟨WF_noEmpty _ (hg p hp).1.1, (hg p hp).1.2.2, fun n f h => (hg p hp).2 (leaf n f) h⟩)] at hw
  obtain ⟨rs, hr, hrl, hpt, hwr⟩ := disco_group_readable (g.map fun p => (p.1, carryBrackets o true p.2))
    (by intro q hq; obtain ⟨p, hp, rfl⟩ := List.mem_map.1 hq; exact (hg p hp).1) txt hw
  simp only [List.length_map] at hr hrl hwr
  refine ⟨rs, hr, hrl, ?_, hwr⟩
  intro i p hp
  exact hpt i (p.1, carryBrackets o true p.2) (by simp [hp])

/-- DISCOBRACKETS with `gf` / `gf_separator`: every part of a split is a file the discobracket reader accepts -/
theorem split_parts_readable_disco_gf (o : OutOpts) (hm : NoMarks o) (steps : List Step) (enc : Option Str) (spec : Str)
    (ts ts' : List (Nat × Tree)) (sizes : List Nat) (parts : List Str)
    (ht : transformAll steps ts = .ok ts') (hs : parseSplitSpec spec ts'.length = .ok sizes)
    (hp : runSplitFrom steps .discobrackets o enc spec (.ok ts) = .ok parts)
    (hgood : ∀ p ∈ ts', DiscoGood (carryBrackets o true p.2) ∧
      ∀ x ∈ subtrees p.2, x.fields.word.map replaceParens = x.fields.word) :
    ∃ groups : List (List (Nat × Tree)), groups.flatten = ts' ∧ groups.map List.length = sizes ∧ parts.length = groups.length ∧
      ∀ (i : Nat) (part : Str), parts[i]? = some part →
        ∃ g rs, groups[i]? = some g ∧
          readBrackets { disco := true } part = .ok ((List.range' 1 g.length).zip rs) ∧ rs.length = g.length ∧
          (∀ (j : Nat) (p : Nat × Tree), g[j]? = some p →
            ∃ r, rs[j]? = some r ∧ sameTree r (asReadBrackets (carryBrackets o true p.2)) = true) ∧
          writeAll .discobrackets {} enc ((List.range' 1 g.length).zip rs) = .ok part := by
  obtain ⟨groups, hfl, hlen, hm'⟩ := TT.Props.C17Run.split_part_trees steps .discobrackets o enc spec ts ts' sizes parts ht hs hp
  refine ⟨groups, hfl, hlen, mapM_length _ _ _ hm', ?_⟩
  intro i part hpart
  obtain ⟨g, hg, hw⟩ := mapM_getElem? _ _ _ hm' i part hpart
  rw [writeAll_plain .discobrackets o enc g (by decide)] at hw
  obtain ⟨rs, hr, hrl, hpt, hwr⟩ := disco_group_readable_gf o hm g (fun p hp => hgood p (by
    rw [← hfl]; exact List.mem_flatten.2 ⟨g, List.mem_of_getElem? hg, hp⟩)) part hw
  exact ⟨g, rs, hg, hr, hrl, hpt, by rw [writeAll_plain .discobrackets {} enc _ (by decide)]; exact hwr⟩

/-- a discontinuous tree with edge labels (children stored out of order) -/
def exD : Tree := node { label := "S".toList }
  [leaf 2 { label := "B".toList, word := some "b".toList, edge := some "HD".toList },
   node { label := "NP".toList, edge := some "SB".toList }
     [leaf 3 { label := "C".toList, word := some "c".toList }, leaf 1 { label := "A".toList, word := some "a".toList, edge := some "NK".toList }]]

example : ∃ parts, runSplitFrom [] .discobrackets oGf none "1#_rest".toList (.ok [(4, exD), (9, exB)]) = .ok parts ∧
    parts = ["(S(NP#SB(A 1)(C 3))(B 2))\ta b c\n".toList, "(VP#OC(PP#MO(P 1))(V 2))\tp v\n".toList] ∧
    ∀ (i : Nat) (part : Str), parts[i]? = some part → ∃ rs, readBrackets { disco := true } part = .ok rs := by
  have hp : runSplitFrom [] .discobrackets oGf none "1#_rest".toList (.ok [(4, exD), (9, exB)]) =
      .ok ["(S(NP#SB(A 1)(C 3))(B 2))\ta b c\n".toList, "(VP#OC(PP#MO(P 1))(V 2))\tp v\n".toList] := by decide +kernel
  obtain ⟨groups, _, _, _, h⟩ := split_parts_readable_disco_gf oGf ⟨rfl, rfl, rfl⟩ [] none "1#_rest".toList _ _ [1, 1] _
    (transformAll_nil_steps _) (by decide +kernel) hp (by
      intro p hp
      simp only [List.mem_cons, List.not_mem_nil, or_false] at hp
      rcases hp with rfl | rfl
      · exact ⟨⟨by decide +kernel, by decide +kernel, by decide +kernel⟩, by decide +kernel⟩
      · exact ⟨⟨by decide +kernel, by decide +kernel, by decide +kernel⟩, by decide +kernel⟩)
  refine ⟨_, hp, rfl, fun i part hpart => ?_⟩
  obtain ⟨g, rs, _, hr, _⟩ := h i part hpart
  exact ⟨_, hr⟩

/-- the hypothesis on the words cannot be dropped: `exA` has the word `a(`; its relabelled tree (word `aLRB`) is `DiscoGood`, but the
    discobracket writer prints the sentence unreplaced (`…\ta( b c`), and the reader splits `a(` into two words: the tree read is not
    the relabelled tree -/
example : WF (carryBrackets oGf true exA) = true ∧ BracketsOK (carryBrackets oGf true exA) = true ∧
    (match writeDisco oGf exA with
     | .ok s => (match readBrackets { disco := true } (s ++ ['\n']) with
        | .ok [(_, r)] => some (sameTree r (asReadBrackets (carryBrackets oGf true exA)), (terminals r).map (fun (x : Tree) => x.fields.word))
        | _ => none)
     | .error _ => none) = some (false, [some "a".toList, some "(".toList, some "b".toList]) := by
  decide +kernel

/-! ## export with `gf` (either layout) -/

section exportgf
open TT.Lemmas.ExportRT TT.Lemmas.Nav TT.Lemmas.GramOut
open TT.Props.C17More2 (text_of_lines complete_frame readExport_nil)
open TT.Lemmas.Proc TT.Props.C18

/-- a sentence the export format can represent under ANY writer options `o` (label decoration included: `ExportOK o` speaks about
    the printed labels), which the reader can tell apart from its frame lines; in the four-column-pair layout also: no edge label
    below the root is all digits -/
def ExportGoodO (o : OutOpts) (t : Tree) : Prop :=
  WF t = true ∧ ExportOK o t = true ∧ t.leafNums.length < 500 ∧
  (∀ s ∈ t.subtrees, s.isLeaf = true → "#EOS".toList.isPrefixOf (s.fields.word.getD []) = false) ∧
  (o.exportFour = true → ∀ k ∈ t.kids, ∀ s ∈ k.subtrees, pyIsDigit (s.fields.edge.getD DEFAULT_EDGE) = false)

/-- the own round trip of the export reader for arbitrary writer options, either layout: the tree read is (up to the order of
    children and the word field of constituents) the content the export file holds, `carryExportRoot o t` — labels as printed -/
theorem readExport_writeO_nf (o : OutOpts) (sid : Nat) (t : Tree) (ls : List Str)
    (h : writeExport o sid t = .ok ls) (hg : ExportGoodO o t) :
    ∃ r, readExport {} ((ls.map (· ++ ['\n'])).flatten) = .ok [(sid, r)] ∧ nf r = nf (carryExportRoot o t) := by
  obtain ⟨hwf, hok, hN, hE, h4⟩ := hg
  cases ho4 : o.exportFour with
  | true => exact TT.Props.C03Run2.readExport_write4_nf o ho4 sid t ls h hwf hok hN hE (h4 ho4)
  | false =>
    have hne := WF_noEmpty t hwf
    obtain ⟨hls, hlines⟩ := writeExport_shape o sid t ls h
    have hpl : ∀ p ∈ tokPaths t ++ consPaths t, exportParseLine {} (lineAt o t p) = .ok (rentryO o t p) := by
      intro p hp
      obtain ⟨hp1, hp2⟩ := (mem_tok_cons t p).1 hp
      obtain ⟨l, hl⟩ := hlines p ((mem_nonRoot t p).2 ⟨hp1, hp2⟩)
      have hdec := decode_lineAt o t p l hne hok hp1 hl
      rw [ho4] at hdec
      exact parse_lineAt5 o ho4 t p hwf hok hp1 hp2 hdec
    obtain ⟨r, hr, hnf⟩ := exportSentence_writeO o t hwf hok hN hpl
    have hbody : ∀ l ∈ (tokPaths t ++ consPaths t).map (lineAt o t),
        '\n' ∉ l ∧ strip l = l ∧ "#EOS".toList.isPrefixOf l = false := by
      intro l hl
      obtain ⟨p, hp, rfl⟩ := List.mem_map.1 hl
      obtain ⟨hp1, hp2⟩ := (mem_tok_cons t p).1 hp
      obtain ⟨l', hl'⟩ := hlines p ((mem_nonRoot t p).2 ⟨hp1, hp2⟩)
      refine lineAt_loop_okO o t p l' hne hok hp1 hl' ?_
      unfold wordOf
      split
      · rename_i hk
        rw [kids_isEmpty_eq_isLeaf _ (noEmpty_subAt t p hne hp1)] at hk
        exact hE _ (mem_subtrees_subAt t p hp1) hk
      · exact eos_not_prefix_hash _
    refine ⟨r, ?_, hnf⟩
    rw [hls, List.append_assoc ["#BOS ".toList ++ natToStr sid], ← List.map_append]
    exact readExport_frame sid _ r hbody hr

/-- a group of good sentences written in export format under ANY writer options (`gf`, `gf_separator`, either layout, head / split
    marks) is read back by the export reader (no options): the same sentence numbers in the same order, each tree the content the
    file holds (`carryExportRoot o t`: labels as printed, e.g. `NP-SB`), up to the order of children (`nf`) -/
theorem export_group_readable_opts (o : OutOpts) :
    ∀ (g : List (Nat × Tree)), (∀ p ∈ g, ExportGoodO o p.2) → ∀ txt, bodyText .export o g = .ok txt →
    ∃ rs : List (Nat × Tree), readExport {} txt = .ok rs ∧ rs.map (·.1) = g.map (·.1) ∧ rs.length = g.length ∧
      ∀ (i : Nat) (p : Nat × Tree), g[i]? = some p → ∃ r, rs[i]? = some (p.1, r) ∧ nf r = nf (carryExportRoot o p.2)
  | [], _, txt, h => by
    simp only [bodyText_nil, Except.ok.injEq] at h
    subst h
    exact ⟨[], readExport_nil, rfl, rfl, by simp⟩
  | (sid, t) :: g, hg, txt, h => by
    obtain ⟨T, txt', hT, hg', rfl⟩ := bodyText_cons_inv _ _ _ _ _ h
    obtain ⟨rs', hr', hids, hlen, hall⟩ := export_group_readable_opts o g (fun p hp => hg p (by simp [hp])) txt' hg'
    have hgt := hg (sid, t) (by simp)
    obtain ⟨hwf, hok, hN, hE, h4⟩ := hgt
    simp only [writeOne] at hT
    cases hls : writeExport o sid t with
    | error e => rw [hls] at hT; cases hT
    | ok ls =>
      rw [hls] at hT
      simp only [Except.map, Except.ok.injEq] at hT
      subst hT
      obtain ⟨body, hshape, hbody⟩ := written_linesO o sid t ls hls hwf hok hE
      obtain ⟨r, hr, hnf⟩ := readExport_writeO_nf o sid t ls hls ⟨hwf, hok, hN, hE, h4⟩
      have hnl : ∀ l ∈ ls, '\n' ∉ l := by
        intro l hl
        rw [hshape] at hl
        simp only [List.mem_append, List.mem_singleton] at hl
        rcases hl with (rfl | hl) | rfl
        · exact (TT.Lemmas.ExportRT.frame_line_ok _ sid (Or.inl TT.Lemmas.Write.bos_eq)).1
        · exact (hbody l hl).1
        · exact (TT.Lemmas.ExportRT.frame_line_ok _ sid (Or.inr TT.Lemmas.Write.eos_eq)).1
      obtain ⟨a, ha, hla⟩ := text_of_lines ls (by rw [hshape]; simp) hnl
      have hcomp : Complete (lines a) := by
        rw [hla, hshape]; exact complete_frame sid body (fun l hl => (hbody l hl).2)
      refine ⟨(sid, r) :: rs', ?_, by simp [hids], by simp [hlen], ?_⟩
      · rw [ha, readExport_append_nl {} a txt' hcomp, ← ha, hr, hr']
        have hf : ∀ k, renum {} k = id := by intro k; funext p; simp [renum]
        simp [hf]
      · intro i p hp
        cases i with
        | zero =>
          simp only [List.getElem?_cons_zero, Option.some.injEq] at hp
          subst hp
          exact ⟨r, rfl, hnf⟩
        | succ i => simpa using hall i p (by simpa using hp)

/-- EXPORT with any writer options (in particular `gf`, what the harness runs): every part of a split is an export file the
    export reader accepts; it reads exactly the sentence numbers of the trees handed to that part, in order, each tree the content
    the file holds (labels as printed) -/
theorem split_parts_readable_export_opts (o : OutOpts) (steps : List Step) (enc : Option Str) (spec : Str)
    (ts ts' : List (Nat × Tree)) (sizes : List Nat) (parts : List Str)
    (ht : transformAll steps ts = .ok ts') (hs : parseSplitSpec spec ts'.length = .ok sizes)
    (hp : runSplitFrom steps .export o enc spec (.ok ts) = .ok parts) (hgood : ∀ p ∈ ts', ExportGoodO o p.2) :
    ∃ groups : List (List (Nat × Tree)), groups.flatten = ts' ∧ groups.map List.length = sizes ∧ parts.length = groups.length ∧
      ∀ (i : Nat) (part : Str), parts[i]? = some part →
        ∃ g rs, groups[i]? = some g ∧ readExport {} part = .ok rs ∧ rs.map (·.1) = g.map (·.1) ∧ rs.length = g.length ∧
          ∀ (j : Nat) (p : Nat × Tree), g[j]? = some p → ∃ r, rs[j]? = some (p.1, r) ∧ nf r = nf (carryExportRoot o p.2) := by
  obtain ⟨groups, hfl, hlen, hm'⟩ := TT.Props.C17Run.split_part_trees steps .export o enc spec ts ts' sizes parts ht hs hp
  refine ⟨groups, hfl, hlen, mapM_length _ _ _ hm', ?_⟩
  intro i part hpart
  obtain ⟨g, hg, hw⟩ := mapM_getElem? _ _ _ hm' i part hpart
  rw [writeAll_plain .export o enc g (by decide)] at hw
  obtain ⟨rs, hr, hids, hrl, hall⟩ := export_group_readable_opts o g (fun p hp => hgood p (by
    rw [← hfl]; exact List.mem_flatten.2 ⟨g, List.mem_of_getElem? hg, hp⟩)) part hw
  exact ⟨g, rs, hg, hr, hids, hrl, hall⟩

theorem exD_goodE : ExportGoodO oGf exD :=
  ⟨by decide +kernel, by decide +kernel, by decide +kernel, by decide +kernel, by decide +kernel⟩
theorem exB_goodE : ExportGoodO oGf exB :=
  ⟨by decide +kernel, by decide +kernel, by decide +kernel, by decide +kernel, by decide +kernel⟩

/-- export with `gf`, `gf_separator:#`: two parts (a discontinuous tree | a tree stored out of order), both read back with the
    sentence numbers 4 | 9; the label column holds `NP#SB`, `PP#MO` -/
example : ∃ parts, runSplitFrom [] .export oGf none "1#_rest".toList (.ok [(4, exD), (9, exB)]) = .ok parts ∧
    parts = ["#BOS 4\na\t\t\tA\t--\t\tNK\t500\nb\t\t\tB\t--\t\tHD\t0\nc\t\t\tC\t--\t\t--\t500\n#500\t\t\tNP#SB\t--\t\tSB\t0\n#EOS 4\n".toList,
      "#BOS 9\np\t\t\tP\t--\t\t--\t500\nv\t\t\tV\t--\t\tHD\t0\n#500\t\t\tPP#MO\t--\t\tMO\t0\n#EOS 9\n".toList] ∧
    ∀ (i : Nat) (part : Str), parts[i]? = some part → ∃ rs, readExport {} part = .ok rs ∧ rs.length = 1 := by
  have hp : runSplitFrom [] .export oGf none "1#_rest".toList (.ok [(4, exD), (9, exB)]) = .ok
      ["#BOS 4\na\t\t\tA\t--\t\tNK\t500\nb\t\t\tB\t--\t\tHD\t0\nc\t\t\tC\t--\t\t--\t500\n#500\t\t\tNP#SB\t--\t\tSB\t0\n#EOS 4\n".toList,
       "#BOS 9\np\t\t\tP\t--\t\t--\t500\nv\t\t\tV\t--\t\tHD\t0\n#500\t\t\tPP#MO\t--\t\tMO\t0\n#EOS 9\n".toList] := by decide +kernel
  obtain ⟨groups, _, hlen, _, h⟩ := split_parts_readable_export_opts oGf [] none "1#_rest".toList _ _ [1, 1] _
    (transformAll_nil_steps _) (by decide +kernel) hp (by
      intro p hp
      simp only [List.mem_cons, List.not_mem_nil, or_false] at hp
      rcases hp with rfl | rfl
      · exact exD_goodE
      · exact exB_goodE)
  refine ⟨_, hp, rfl, fun i part hpart => ?_⟩
  obtain ⟨g, rs, hg, hr, _, hrl, _⟩ := h i part hpart
  have hgl : g.length = 1 := by
    have := congrArg (fun l => l[i]?) hlen
    simp only [List.getElem?_map, hg, Option.map_some] at this
    have hi : i < 2 := by
      have := (List.getElem?_eq_some_iff.1 hpart).1
      simpa using this
    rcases i with _ | _ | i
    · simpa using this
    · simpa using this
    · omega
  exact ⟨_, hr, by rw [hrl, hgl]⟩

end exportgf

/-! ## the reader run with `gf_split` (and the writer's separator): category and function come back separately -/

/-- a printed label `cat ++ sep ++ gf` is split by the reader's `gf_split` into the category and the function again (from
    `C20More2.parse_built_sep`): `cat` non-empty without the separator, `gf` ends in a character that is neither a digit nor `'` -/
theorem gfSplitLabel_built (c : Char) (cat gf : Str) (x : Char) (hcat : cat ≠ []) (hsep : c ∉ cat)
    (hgf : gf.getLast? = some x) (hxd : x.isDigit = false) (hxq : x ≠ '\'') :
    gfSplitLabel [c] (cat ++ c :: gf) = (cat, gf) := by
  have h := TT.Props.C20More2.parse_built_sep c cat gf [] [] false x hcat hsep hgf hxd hxq (Or.inl rfl) (Or.inl rfl)
  have e : builtLabelSep c cat gf [] [] false = cat ++ c :: gf := by simp [builtLabelSep]
  rw [e] at h
  unfold gfSplitLabel
  rw [h]
  simp

/-- the parts read with `gf_split` and the separator of the writer: the reader accepts them, and what it delivers is `gfSplitRead`
    (the split of every label into category and function) of what the reader without options delivers -/
theorem brackets_group_readable_gfsplit (o : OutOpts) (hm : NoMarks o) (g : List (Nat × Tree))
    (hg : ∀ p ∈ g, BracketsGood (carryBrackets (noER o) true p.2)) (txt : Str) (hw : bodyText .brackets o g = .ok txt) :
    ∃ rs : List Tree, rs.length = g.length ∧
      readBrackets { gfSplit := true, gfSeparator := o.gfSeparator } txt =
        .ok ((List.range' 1 g.length).zip (rs.map (gfSplitRead (o.gfSeparator.getD DEFAULT_GF_SEP)))) ∧
      ∀ (i : Nat) (p : Nat × Tree), g[i]? = some p →
        ∃ r, rs[i]? = some r ∧ sameTree r (asReadRoot (carryBrackets o true p.2)) = true := by
  obtain ⟨rs, hr, hrl, hpt⟩ := brackets_group_readable_opts o hm g hg txt hw
  refine ⟨rs, hrl, ?_, hpt⟩
  have h := TT.Props.C01Readers.readBrackets_gfSplit_noEmpty { gfSeparator := o.gfSeparator } rfl rfl rfl txt
  have e0 : ({ gfSeparator := o.gfSeparator, gfSplit := false } : InOpts) = { gfSeparator := o.gfSeparator } := rfl
  have hplain : readBrackets { gfSeparator := o.gfSeparator } txt = readBrackets {} txt := by
    have a := TT.Props.C01.readBrackets_eq_spec { gfSeparator := o.gfSeparator } rfl rfl rfl txt
    have b := TT.Props.C01.readBrackets_eq_spec {} rfl rfl rfl txt
    simp only at a b
    cases hs : specBrackets false txt with
    | some ts => rw [hs] at a b; rw [a, b]
    | none =>
      rw [hs] at b
      obtain ⟨e, he⟩ := b
      rw [he] at hr; cases hr
  show readBrackets { gfSeparator := o.gfSeparator, gfSplit := true } txt = _
  rw [h, e0, hplain, hr]
  simp only [Except.map]
  congr 1
  rw [List.zip_map_right]
  rfl

example : gfSplitLabel ['#'] "NP#SB".toList = ("NP".toList, "SB".toList) :=
  gfSplitLabel_built '#' "NP".toList "SB".toList 'B' (by decide) (by decide) (by decide) (by decide) (by decide)

/-- BRACKETS, parts written with `gf` / `gf_separator` / `brackets_emptyroot` and read with `gf_split` and the same separator: every
    part is accepted; the trees are `gfSplitRead` of the trees the reader without options delivers (which are the relabelled trees) -/
theorem split_parts_readable_brackets_gfsplit (o : OutOpts) (hm : NoMarks o) (steps : List Step) (enc : Option Str) (spec : Str)
    (ts ts' : List (Nat × Tree)) (sizes : List Nat) (parts : List Str)
    (ht : transformAll steps ts = .ok ts') (hs : parseSplitSpec spec ts'.length = .ok sizes)
    (hp : runSplitFrom steps .brackets o enc spec (.ok ts) = .ok parts)
    (hgood : ∀ p ∈ ts', BracketsGood (carryBrackets (noER o) true p.2)) :
    ∃ groups : List (List (Nat × Tree)), groups.flatten = ts' ∧ groups.map List.length = sizes ∧ parts.length = groups.length ∧
      ∀ (i : Nat) (part : Str), parts[i]? = some part →
        ∃ (g : List (Nat × Tree)) (rs : List Tree), groups[i]? = some g ∧ rs.length = g.length ∧
          readBrackets { gfSplit := true, gfSeparator := o.gfSeparator } part =
            .ok ((List.range' 1 g.length).zip (rs.map (gfSplitRead (o.gfSeparator.getD DEFAULT_GF_SEP)))) ∧
          ∀ (j : Nat) (p : Nat × Tree), g[j]? = some p →
            ∃ r, rs[j]? = some r ∧ sameTree r (asReadRoot (carryBrackets o true p.2)) = true := by
  obtain ⟨groups, hfl, hlen, hm'⟩ := TT.Props.C17Run.split_part_trees steps .brackets o enc spec ts ts' sizes parts ht hs hp
  refine ⟨groups, hfl, hlen, mapM_length _ _ _ hm', ?_⟩
  intro i part hpart
  obtain ⟨g, hg, hw⟩ := mapM_getElem? _ _ _ hm' i part hpart
  rw [writeAll_plain .brackets o enc g (by decide)] at hw
  obtain ⟨rs, hrl, hr, hpt⟩ := brackets_group_readable_gfsplit o hm g (fun p hp => hgood p (by
    rw [← hfl]; exact List.mem_flatten.2 ⟨g, List.mem_of_getElem? hg, hp⟩)) part hw
  exact ⟨g, rs, hg, hrl, hr, hpt⟩

/-- computed on the first part of the examples above: with `gf_split` and the separator `#` the reader gives back the categories
    and the functions of `exA` (absent edge labels as the default `--`; functions of tokens were not written: `gf_terminals` off) -/
example : (match readBrackets { gfSplit := true, gfSeparator := some "#".toList } "(S(NP#SB(A aLRB)(B b))(C c))\n".toList with
      | .ok [(_, r)] => (subtrees r).map (fun (s : Tree) => (s.fields.label, s.fields.edge))
      | _ => []) =
    [("S".toList, some "--".toList), ("NP".toList, some "SB".toList), ("A".toList, some "--".toList),
     ("B".toList, some "--".toList), ("C".toList, some "--".toList)] := by decide +kernel

end TT.Props.C17More4
