/-
  C17, clause 11 continued (wave 16 d): the parts of a split written with the label decoration options the harness runs
  (`gf`, `gf_separator:#`, `brackets_emptyroot`) are files the reader accepts.  Writing with decoration is writing the relabelled
  tree `carryBrackets o true t` (printed labels such as `NP-SB` / `NP#SB`, words with parentheses replaced, the root label empty
  under `brackets_emptyroot`) without options (`Lemmas/More16d.lean`); the reader run without options does not undo the decoration:
  it delivers the relabelled trees.
-/
import TT.Lemmas.More16d
import TT.Props.C17More3
namespace TT.Props.C17More4
open TT TT.Tree TT.Spec TT.Lemmas.Run TT.Lemmas.More8 TT.Lemmas.More16d TT.Lemmas.WF TT.Lemmas.Write TT.Lemmas.OwnRT
open TT.Props.C17More2 TT.Props.C17More3

/-! ## brackets with `gf` / `gf_separator` -/

/-- the text of a group: with decoration options = the relabelled trees without options -/
theorem bodyText_brackets_gf (o : OutOpts) (hm : NoMarks o) (g : List (Nat × Tree))
    (hg : ∀ p ∈ g, BracketsGood (carryBrackets o true p.2)) :
    bodyText .brackets o g = bodyText .brackets {} (g.map fun p => (p.1, carryBrackets o true p.2)) :=
  bodyText_brackets_carry o hm g fun p hp =>
    ⟨TT.Lemmas.WF.WF_noEmpty _ (hg p hp).1, (hg p hp).2.1, (hg p hp).2.2.2⟩

/-- a group written in bracket format with `gf` (any separator) is read back by the bracket reader: as many trees, numbered from 1,
    each the RELABELLED tree (label = printed label, e.g. `NP-SB`) as the reader delivers it, and written (without options) as the
    very same text again.  `hg`: the relabelled trees are well formed, continuous, representable, without parentheses to replace -/
theorem brackets_group_readable_gf (o : OutOpts) (hm : NoMarks o) (g : List (Nat × Tree))
    (hg : ∀ p ∈ g, BracketsGood (carryBrackets o true p.2)) (txt : Str) (hw : bodyText .brackets o g = .ok txt) :
    ∃ rs : List Tree, readBrackets {} txt = .ok ((List.range' 1 g.length).zip rs) ∧ rs.length = g.length ∧
      (∀ (i : Nat) (p : Nat × Tree), g[i]? = some p →
        ∃ r, rs[i]? = some r ∧ sameTree r (asReadBrackets (carryBrackets o true p.2)) = true) ∧
      bodyText .brackets {} ((List.range' 1 g.length).zip rs) = .ok txt := by
  rw [bodyText_brackets_gf o hm g hg] at hw
  obtain ⟨rs, hr, hrl, hpt, hwr⟩ := brackets_group_readable (g.map fun p => (p.1, carryBrackets o true p.2))
    (by intro q hq; obtain ⟨p, hp, rfl⟩ := List.mem_map.1 hq; exact hg p hp) txt hw
  simp only [List.length_map] at hr hrl hwr
  refine ⟨rs, hr, hrl, ?_, hwr⟩
  intro i p hp
  exact hpt i (p.1, carryBrackets o true p.2) (by simp [hp])

/-- BRACKETS with `gf` / `gf_separator`: every part of a split written with label decoration is a file the bracket reader accepts;
    it reads as many trees as were handed to that part, tree by tree the relabelled tree, and the trees read are written (without
    options) as the same part again -/
theorem split_parts_readable_brackets_gf (o : OutOpts) (hm : NoMarks o) (steps : List Step) (enc : Option Str) (spec : Str)
    (ts ts' : List (Nat × Tree)) (sizes : List Nat) (parts : List Str)
    (ht : transformAll steps ts = .ok ts') (hs : parseSplitSpec spec ts'.length = .ok sizes)
    (hp : runSplitFrom steps .brackets o enc spec (.ok ts) = .ok parts)
    (hgood : ∀ p ∈ ts', BracketsGood (carryBrackets o true p.2)) :
    ∃ groups : List (List (Nat × Tree)), groups.flatten = ts' ∧ groups.map List.length = sizes ∧ parts.length = groups.length ∧
      ∀ (i : Nat) (part : Str), parts[i]? = some part →
        ∃ g rs, groups[i]? = some g ∧ readBrackets {} part = .ok ((List.range' 1 g.length).zip rs) ∧ rs.length = g.length ∧
          (∀ (j : Nat) (p : Nat × Tree), g[j]? = some p →
            ∃ r, rs[j]? = some r ∧ sameTree r (asReadBrackets (carryBrackets o true p.2)) = true) ∧
          writeAll .brackets {} enc ((List.range' 1 g.length).zip rs) = .ok part := by
  obtain ⟨groups, hfl, hlen, hm'⟩ := TT.Props.C17Run.split_part_trees steps .brackets o enc spec ts ts' sizes parts ht hs hp
  refine ⟨groups, hfl, hlen, mapM_length _ _ _ hm', ?_⟩
  intro i part hpart
  obtain ⟨g, hg, hw⟩ := mapM_getElem? _ _ _ hm' i part hpart
  rw [writeAll_plain .brackets o enc g (by decide)] at hw
  have hgg : ∀ p ∈ g, BracketsGood (carryBrackets o true p.2) := fun p hp => hgood p (by
    rw [← hfl]; exact List.mem_flatten.2 ⟨g, List.mem_of_getElem? hg, hp⟩)
  obtain ⟨rs, hr, hrl, hpt, hwr⟩ := brackets_group_readable_gf o hm g hgg part hw
  exact ⟨g, rs, hg, hr, hrl, hpt, by rw [writeAll_plain .brackets {} enc _ (by decide)]; exact hwr⟩

/-! ## brackets with `brackets_emptyroot`, and all three options in one statement -/

/-- what the bracket reader (no options) delivers for a written tree whose root label may be empty (`brackets_emptyroot`): an
    empty root label is read as the default root label — and that node, unlike every other, gets no default edge / morph fields -/
def asReadRoot : Tree → Tree
  | node f ks => if f.label.isEmpty then node { label := DEFAULT_ROOT } (ks.map asReadBrackets) else asReadBrackets (node f ks)
  | leaf n f => asReadBrackets (leaf n f)

/-- the options with `brackets_emptyroot` switched off -/
abbrev noER (o : OutOpts) : OutOpts := { o with emptyRoot := false }

theorem printedLabel_noER (o : OutOpts) (x : Tree) : printedLabel (noER o) x = printedLabel o x := rfl

theorem carry_false_noER (o : OutOpts) (t : Tree) : carryBrackets (noER o) false t = carryBrackets o false t := by
  induction t using tree_ind with
  | hl n f => rw [carryBrackets, carryBrackets, printedLabel_noER]
  | hn f ks ih =>
    rw [carryBrackets, carryBrackets, carryBracketsL_eq, carryBracketsL_eq, printedLabel_noER]
    simp only [Bool.false_and, Bool.false_eq_true, if_false]
    congr 1
    exact List.map_congr_left ih

theorem carry_true_node (o : OutOpts) (f : Fields) (ks : List Tree) :
    carryBrackets o true (node f ks) =
      node { label := (if o.emptyRoot then [] else printedLabel o (node f ks)) } (ks.map (carryBrackets o false)) := by
  rw [carryBrackets, carryBracketsL_eq]; simp


theorem replaceParens_nil : replaceParens [] = [] := by decide

/-- one tree under `brackets_emptyroot`: the relabelled tree (root label empty) meets the hypotheses of
    `bodyText_brackets_carry`, and its line is a group of the grammar read as `asReadRoot` of it -/
theorem emptyroot_tree (o : OutOpts) (he : o.emptyRoot = true) (t : Tree)
    (hg : BracketsGood (carryBrackets (noER o) true t)) :
    (carryBrackets o true t).noEmpty = true ∧ gapDegree (carryBrackets o true t) = 0 ∧
    (∀ x ∈ subtrees (carryBrackets o true t),
      replaceParens x.fields.label = x.fields.label ∧ (x.fields.word.map replaceParens) = x.fields.word) ∧
    ∀ s, bracketsSub {} false (carryBrackets o true t) = .ok s →
      LineOK (fun d => sameTree d (asReadRoot (carryBrackets o true t)) = true) s := by
  obtain ⟨hwf, hc, hok, hp⟩ := hg
  have hne : (carryBrackets o true t).noEmpty = true := by
    rw [noEmpty_carryBrackets, ← noEmpty_carryBrackets (noER o) t true]; exact WF_noEmpty _ hwf
  have hgap : gapDegree (carryBrackets o true t) = 0 :=
    (gapDegree_zero_carryBrackets o true t).2 ((gapDegree_zero_carryBrackets (noER o) true t).1 hc)
  have hnd : (carryBrackets o true t).leafNums.Nodup := by
    have := WF_nodup _ hwf
    rwa [leafNums_carry] at this ⊢
  have hlm : leftmost (carryBrackets o true t) = 1 := by
    rw [leftmost_carryBrackets, ← leftmost_carryBrackets (noER o) true t]
    exact TT.Props.C02.leftmost_of_WF _ hwf
  have hplain := plainOK_of _ hok hp
  refine ⟨hne, hgap, ?_⟩
  cases t with
  | leaf n f =>
    have := ((WF_iff _).1 hwf).1
    rw [carryBrackets] at this
    simp [Tree.isLeaf] at this
  | node f ks =>
    have hk : ks.map (carryBrackets (noER o) false) = ks.map (carryBrackets o false) :=
      List.map_congr_left fun k _ => carry_false_noER o k
    rw [carry_true_node] at hne hgap hnd hlm ⊢
    rw [carry_true_node, hk] at hp hplain
    simp only [he, if_true] at hne hgap hnd hlm ⊢
    have hsubs : ∀ x ∈ subtrees (node ({ label := [] } : Fields) (ks.map (carryBrackets o false))),
        x = node { label := [] } (ks.map (carryBrackets o false)) ∨
        ∃ k ∈ ks.map (carryBrackets o false), x ∈ subtrees k := fun x hx => (mem_subtrees_node _ _ x).1 hx
    constructor
    · intro x hx
      rcases hsubs x hx with rfl | ⟨k, hk', hxk⟩
      · exact ⟨replaceParens_nil, rfl⟩
      · exact hp x ((mem_subtrees_node _ _ x).2 (Or.inr ⟨k, hk', hxk⟩))
    · intro s hs
      obtain ⟨hs', hline⟩ := spOK_rootEmpty { label := [] } (ks.map (carryBrackets o false)) rfl hne hnd
        (TT.Props.C02.gapDegreeNode_zero_of_gapDegree _ hgap)
        (fun k hk' y hy => hplain y ((mem_subtrees_node _ _ y).2 (Or.inr ⟨k, hk', hy⟩))) s hs
      refine ⟨hs', 1 + (node ({ label := [] } : Fields) (ks.map (carryBrackets o false))).leafNums.length, ?_⟩
      intro fuel hf rest
      obtain ⟨d, hd, hsd⟩ := hline fuel hf rest
      rw [hlm] at hd
      refine ⟨d, hd, ?_⟩
      have e : asReadRoot (node ({ label := [] } : Fields) (ks.map (carryBrackets o false))) =
          node { label := DEFAULT_ROOT } ((ks.map (carryBrackets o false)).map asReadBrackets) := by
        simp [asReadRoot]
      show sameTree d _ = true
      unfold sameTree
      rw [e, hsd]
      exact beq_refl _


theorem asReadRoot_of_ok (u : Tree) (hok : BracketsOK u = true) : asReadRoot u = asReadBrackets u := by
  cases u with
  | leaf n f => rfl
  | node f ks =>
    unfold BracketsOK at hok
    rw [List.all_eq_true] at hok
    have h := hok _ (self_mem_subtrees _)
    simp only [Bool.and_eq_true, fieldOK, Tree.fields] at h
    have : f.label.isEmpty = false := by simpa using h.1.1.1
    simp [asReadRoot, this]

/-- a group written in bracket format with `brackets_emptyroot` (and possibly `gf`, any separator) is read back by the bracket
    reader: as many trees, numbered from 1, each the relabelled tree with the default root label -/
theorem brackets_group_readable_emptyroot (o : OutOpts) (hm : NoMarks o) (he : o.emptyRoot = true) (g : List (Nat × Tree))
    (hg : ∀ p ∈ g, BracketsGood (carryBrackets (noER o) true p.2)) (txt : Str) (hw : bodyText .brackets o g = .ok txt) :
    ∃ rs : List Tree, readBrackets {} txt = .ok ((List.range' 1 g.length).zip rs) ∧ rs.length = g.length ∧
      ∀ (i : Nat) (p : Nat × Tree), g[i]? = some p →
        ∃ r, rs[i]? = some r ∧ sameTree r (asReadRoot (carryBrackets o true p.2)) = true := by
  have hT := fun p hp => emptyroot_tree o he p.2 (hg p hp)
  rw [bodyText_brackets_carry o hm g (fun p hp => ⟨(hT p hp).1, (hT p hp).2.1, (hT p hp).2.2.1⟩)] at hw
  obtain ⟨lines, hl, rfl, hall⟩ := brackets_lines (g.map fun p => (p.1, carryBrackets o true p.2)) txt
    (by intro q hq; obtain ⟨p, hp, rfl⟩ := List.mem_map.1 hq; exact (hT p hp).2.1) hw
  simp only [List.length_map] at hl
  obtain ⟨rs, hspec, hrl, hrs⟩ := specBrackets_fileQ (fun t d => sameTree d (asReadRoot t) = true)
    (g.map fun p => carryBrackets o true p.2) lines (by simp [hl]) (by
      intro i hi
      simp only [List.length_map] at hi
      obtain ⟨s, hs, hsub⟩ := hall i (g[i].1, carryBrackets o true g[i].2) (by simp [hi])
      exact ⟨carryBrackets o true g[i].2, s, by simp [hi], hs,
        (hT g[i] (List.getElem_mem hi)).2.2.2 s hsub⟩)
  simp only [List.length_map] at hrl hrs
  refine ⟨rs, by rw [TT.Props.C03Own.readBrackets_of_spec _ _ hspec, hrl], hrl, ?_⟩
  intro i p hp
  have hi : i < g.length := (List.getElem?_eq_some_iff.1 hp).1
  obtain ⟨t, r, ht, hr, hsame⟩ := hrs i hi
  simp only [List.getElem?_map, hp, Option.map_some, Option.some.injEq] at ht
  subst ht
  exact ⟨r, hr, hsame⟩

theorem noER_eq (o : OutOpts) (he : o.emptyRoot = false) : noER o = o := by
  cases o; simp only [noER] at he ⊢; subst he; rfl

/-- ONE statement for `gf`, `gf_separator` and `brackets_emptyroot` (any combination; no head / split marks): a group written in
    bracket format with these options is read back by the bracket reader run without options: as many trees, numbered from 1,
    each the relabelled tree `carryBrackets o true t` (printed labels, e.g. `NP#SB`; root label empty under `brackets_emptyroot`) as
    the reader delivers it (`asReadRoot`: default fields, the empty root label read as the default root label).
    `hg`: the tree relabelled with the printed labels (root label included) is well formed, continuous, representable, and has
    no parentheses to replace -/
theorem brackets_group_readable_opts (o : OutOpts) (hm : NoMarks o) (g : List (Nat × Tree))
    (hg : ∀ p ∈ g, BracketsGood (carryBrackets (noER o) true p.2)) (txt : Str) (hw : bodyText .brackets o g = .ok txt) :
    ∃ rs : List Tree, readBrackets {} txt = .ok ((List.range' 1 g.length).zip rs) ∧ rs.length = g.length ∧
      ∀ (i : Nat) (p : Nat × Tree), g[i]? = some p →
        ∃ r, rs[i]? = some r ∧ sameTree r (asReadRoot (carryBrackets o true p.2)) = true := by
  cases he : o.emptyRoot with
  | true => exact brackets_group_readable_emptyroot o hm he g hg txt hw
  | false =>
    rw [noER_eq o he] at hg
    obtain ⟨rs, hr, hrl, hpt, _⟩ := brackets_group_readable_gf o hm g hg txt hw
    refine ⟨rs, hr, hrl, ?_⟩
    intro i p hp
    obtain ⟨r, hr', hs⟩ := hpt i p hp
    refine ⟨r, hr', ?_⟩
    rw [asReadRoot_of_ok _ (hg p (List.mem_of_getElem? hp)).2.2.1]
    exact hs


/-- BRACKETS with `gf`, `gf_separator`, `brackets_emptyroot` (what the harness runs, c17.py:108-109): every part of a split written
    with these options is a file the bracket reader (no options) accepts; it reads as many trees as were handed to that part,
    numbered from 1, tree by tree the relabelled tree as the reader delivers it -/
theorem split_parts_readable_brackets_opts (o : OutOpts) (hm : NoMarks o) (steps : List Step) (enc : Option Str) (spec : Str)
    (ts ts' : List (Nat × Tree)) (sizes : List Nat) (parts : List Str)
    (ht : transformAll steps ts = .ok ts') (hs : parseSplitSpec spec ts'.length = .ok sizes)
    (hp : runSplitFrom steps .brackets o enc spec (.ok ts) = .ok parts)
    (hgood : ∀ p ∈ ts', BracketsGood (carryBrackets (noER o) true p.2)) :
    ∃ groups : List (List (Nat × Tree)), groups.flatten = ts' ∧ groups.map List.length = sizes ∧ parts.length = groups.length ∧
      ∀ (i : Nat) (part : Str), parts[i]? = some part →
        ∃ g rs, groups[i]? = some g ∧ readBrackets {} part = .ok ((List.range' 1 g.length).zip rs) ∧ rs.length = g.length ∧
          ∀ (j : Nat) (p : Nat × Tree), g[j]? = some p →
            ∃ r, rs[j]? = some r ∧ sameTree r (asReadRoot (carryBrackets o true p.2)) = true := by
  obtain ⟨groups, hfl, hlen, hm'⟩ := TT.Props.C17Run.split_part_trees steps .brackets o enc spec ts ts' sizes parts ht hs hp
  refine ⟨groups, hfl, hlen, mapM_length _ _ _ hm', ?_⟩
  intro i part hpart
  obtain ⟨g, hg, hw⟩ := mapM_getElem? _ _ _ hm' i part hpart
  rw [writeAll_plain .brackets o enc g (by decide)] at hw
  have hgg : ∀ p ∈ g, BracketsGood (carryBrackets (noER o) true p.2) := fun p hp => hgood p (by
    rw [← hfl]; exact List.mem_flatten.2 ⟨g, List.mem_of_getElem? hg, hp⟩)
  obtain ⟨rs, hr, hrl, hpt⟩ := brackets_group_readable_opts o hm g hgg part hw
  exact ⟨g, rs, hg, hr, hrl, hpt⟩

/-! ### concrete instances -/

/-- a tree with edge labels and a parenthesis inside a word -/
def exA : Tree := node { label := "S".toList }
  [node { label := "NP".toList, edge := some "SB".toList }
     [leaf 1 { label := "A".toList, word := some "a(".toList, edge := some "NK".toList },
      leaf 2 { label := "B".toList, word := some "b".toList }],
   leaf 3 { label := "C".toList, word := some "c".toList, edge := some "HD".toList }]

/-- children stored out of order -/
def exB : Tree := node { label := "VP".toList, edge := some "OC".toList }
  [leaf 2 { label := "V".toList, word := some "v".toList, edge := some "HD".toList },
   node { label := "PP".toList, edge := some "MO".toList } [leaf 1 { label := "P".toList, word := some "p".toList }]]

def oGf : OutOpts := { gf := true, gfSeparator := some "#".toList }
def oGfER : OutOpts := { gf := true, gfSeparator := some "#".toList, emptyRoot := true }

theorem exA_good : BracketsGood (carryBrackets oGf true exA) :=
  ⟨by decide +kernel, by decide +kernel, by decide +kernel, by decide +kernel⟩
theorem exB_good : BracketsGood (carryBrackets oGf true exB) :=
  ⟨by decide +kernel, by decide +kernel, by decide +kernel, by decide +kernel⟩

/-- `gf`, `gf_separator:#`: two parts, both read back (the theorem applied) -/
example : ∃ parts, runSplitFrom [] .brackets oGf none "50%_rest".toList (.ok [(4, exA), (9, exB)]) = .ok parts ∧
    parts = ["(S(NP#SB(A aLRB)(B b))(C c))\n".toList, "(VP#OC(PP#MO(P p))(V v))\n".toList] ∧
    ∀ (i : Nat) (part : Str), parts[i]? = some part → ∃ rs, readBrackets {} part = .ok rs ∧ rs.length = 1 := by
  have hp : runSplitFrom [] .brackets oGf none "50%_rest".toList (.ok [(4, exA), (9, exB)]) =
      .ok ["(S(NP#SB(A aLRB)(B b))(C c))\n".toList, "(VP#OC(PP#MO(P p))(V v))\n".toList] := by decide +kernel
  obtain ⟨groups, hfl, hlen, _, h⟩ := split_parts_readable_brackets_opts oGf ⟨rfl, rfl, rfl⟩ [] none "50%_rest".toList _ _ [1, 1] _
    (transformAll_nil_steps _) (by decide +kernel) hp (by
      intro p hp
      simp only [List.mem_cons, List.not_mem_nil, or_false] at hp
      rcases hp with rfl | rfl
      · exact exA_good
      · exact exB_good)
  refine ⟨_, hp, rfl, fun i part hpart => ?_⟩
  obtain ⟨g, rs, hg, hr, hrl, _⟩ := h i part hpart
  have hgl : g.length = 1 := by
    have := congrArg (fun l => l[i]?) hlen
    simp only [List.getElem?_map, hg, Option.map_some] at this
    have hi : i < 2 := by
      have := (List.getElem?_eq_some_iff.1 hpart).1
      simpa using this
    rcases i with _ | _ | i
    · simpa using this
    · simpa using this
    · omega
  exact ⟨_, hr, by simp [hrl, hgl]⟩

/-- the same treebank with `brackets_emptyroot` too -/
example : ∃ parts, runSplitFrom [] .brackets oGfER none "50%_rest".toList (.ok [(4, exA), (9, exB)]) = .ok parts ∧
    parts = ["((NP#SB(A aLRB)(B b))(C c))\n".toList, "((PP#MO(P p))(V v))\n".toList] ∧
    ∀ (i : Nat) (part : Str), parts[i]? = some part → ∃ rs, readBrackets {} part = .ok rs := by
  have hp : runSplitFrom [] .brackets oGfER none "50%_rest".toList (.ok [(4, exA), (9, exB)]) =
      .ok ["((NP#SB(A aLRB)(B b))(C c))\n".toList, "((PP#MO(P p))(V v))\n".toList] := by decide +kernel
  obtain ⟨groups, _, _, _, h⟩ := split_parts_readable_brackets_opts oGfER ⟨rfl, rfl, rfl⟩ [] none "50%_rest".toList _ _ [1, 1] _
    (transformAll_nil_steps _) (by decide +kernel) hp (by
      intro p hp
      simp only [List.mem_cons, List.not_mem_nil, or_false] at hp
      rcases hp with rfl | rfl
      · exact exA_good
      · exact exB_good)
  refine ⟨_, hp, rfl, fun i part hpart => ?_⟩
  obtain ⟨g, rs, _, hr, _, _⟩ := h i part hpart
  exact ⟨_, hr⟩

/-- what comes back, computed: the first part under `brackets_emptyroot` is read as one tree, equal (up to the order in which
    children are stored) to `asReadRoot` of the relabelled tree: root label `ROOT`, below it `NP#SB` -/
def exARead : Tree := node { label := DEFAULT_ROOT }
  [node { label := "NP#SB".toList, edge := some DEFAULT_EDGE, morph := some DEFAULT_MORPH }
     [leaf 1 { label := "A".toList, word := some "aLRB".toList, edge := some DEFAULT_EDGE, morph := some DEFAULT_MORPH },
      leaf 2 { label := "B".toList, word := some "b".toList, edge := some DEFAULT_EDGE, morph := some DEFAULT_MORPH }],
   leaf 3 { label := "C".toList, word := some "c".toList, edge := some DEFAULT_EDGE, morph := some DEFAULT_MORPH }]

example : (match readBrackets {} "((NP#SB(A aLRB)(B b))(C c))\n".toList with
      | .ok [(1, r)] => Tree.beq r exARead
      | _ => false) = true ∧
    Tree.beq (asReadRoot (carryBrackets oGfER true exA)) exARead = true := by
  constructor <;> decide +kernel

/-- the hypothesis speaks about the RELABELLED tree, and must: this tree is fine for the bracket format written without `gf`
    (`BracketsGood`), but its edge label contains a blank, the printed label `NP-S B` is not a label of the format, and the reader
    rejects the part written with `gf` -/
def exBad : Tree := node { label := "S".toList }
  [node { label := "NP".toList, edge := some "S B".toList } [leaf 1 { label := "A".toList, word := some "a".toList }]]

example : WF exBad = true ∧ gapDegree exBad = 0 ∧ BracketsOK exBad = true ∧ BracketsOK (carryBrackets { gf := true } true exBad) = false ∧
    (runSplitFrom [] .brackets { gf := true } none "rest".toList (.ok [(1, exBad)])).map
      (·.map fun p => match readBrackets {} p with | .ok _ => true | .error _ => false) = .ok [false] := by
  decide +kernel

end TT.Props.C17More4
