/-
  The inventories in the code are the pinned ones, hence the pinned post-conditions are the ones the theorems of
  C11 / C13 are about.
-/
import TT.Spec.Pinned
namespace TT.Props.Pinned
open TT TT.Tree TT.Spec

theorem consts_pinned :
    Gen.QUOTES = PINNED_QUOTES ∧ Gen.COMMA = PINNED_COMMA ∧ Gen.PAIRPUNCT = PINNED_PAIRPUNCT ∧ Gen.PUNCT = PINNED_PUNCT ∧
    Gen.BRACKETS = PINNED_BRACKETS := by decide +kernel

theorem isPunctWordP_eq : isPunctWordP = isPunctWord := by
  funext t; unfold isPunctWordP isPunctWord; rw [consts_pinned.2.2.2.1]; rfl

theorem isPairPunctWordP_eq : isPairPunctWordP = isPairPunctWord := by
  funext t; unfold isPairPunctWordP isPairPunctWord; rw [consts_pinned.2.2.1]; rfl

theorem parentAllPunctP_eq : parentAllPunctP = parentAllPunct := by
  funext t i; unfold parentAllPunctP parentAllPunct; rw [isPunctWordP_eq]; rfl

theorem verylowPostP_eq : verylowPostP = verylowPost := by
  funext t; unfold verylowPostP verylowPost; rw [isPunctWordP_eq, parentAllPunctP_eq]

theorem rootPostP_eq : rootPostP = rootPost := by
  funext t; unfold rootPostP rootPost; rw [isPunctWordP_eq]

theorem symetrifyOKP_eq : symetrifyOKP = symetrifyOK := by
  funext r a b; unfold symetrifyOKP symetrifyOK; rw [isPairPunctWordP_eq]; rfl

theorem punctPositionsP_eq : punctPositionsP = punctPositions := by
  funext t; unfold punctPositionsP punctPositions; rw [isPunctWordP_eq]

theorem deletePunctOKP_eq : deletePunctOKP = deletePunctOK := by
  funext a b; unfold deletePunctOKP deletePunctOK; rw [punctPositionsP_eq]

example : isPunctWordP (Tree.leaf 1 { label := "$(".toList, word := some "/".toList }) = true := by decide

end TT.Props.Pinned
