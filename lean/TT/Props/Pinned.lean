/-
  The inventories in the code are the pinned ones, hence the pinned post-conditions are the ones the theorems of
  C11 / C13 are about.
-/
import TT.Spec.Pinned
import TT.Props.C13
import TT.Props.C11
namespace TT.Props.Pinned
open TT TT.Tree TT.Spec

theorem consts_pinned :
    Gen.QUOTES = PINNED_QUOTES ∧ Gen.COMMA = PINNED_COMMA ∧ Gen.PAIRPUNCT = PINNED_PAIRPUNCT ∧ Gen.PUNCT = PINNED_PUNCT ∧
    Gen.BRACKETS = PINNED_BRACKETS := by decide +kernel

theorem isPunctWordP_eq : isPunctWordP = isPunctWord := by
  funext t; unfold isPunctWordP isPunctWord; rw [consts_pinned.2.2.2.1]; rfl

theorem isPairPunctWordP_eq : isPairPunctWordP = isPairPunctWord := by
  funext t; unfold isPairPunctWordP isPairPunctWord; rw [consts_pinned.2.2.1]; rfl

theorem parentAllPunctP_eq : parentAllPunctP = parentAllPunct := by
  funext t i; unfold parentAllPunctP parentAllPunct; rw [isPunctWordP_eq]; rfl

theorem verylowPostP_eq : verylowPostP = verylowPost := by
  funext t; unfold verylowPostP verylowPost; rw [isPunctWordP_eq, parentAllPunctP_eq]

theorem rootPostP_eq : rootPostP = rootPost := by
  funext t; unfold rootPostP rootPost; rw [isPunctWordP_eq]

theorem symetrifyOKP_eq : symetrifyOKP = symetrifyOK := by
  funext r a b; unfold symetrifyOKP symetrifyOK; rw [isPairPunctWordP_eq]; rfl

theorem punctPositionsP_eq : punctPositionsP = punctPositions := by
  funext t; unfold punctPositionsP punctPositions; rw [isPunctWordP_eq]

theorem deletePunctOKP_eq : deletePunctOKP = deletePunctOK := by
  funext a b; unfold deletePunctOKP deletePunctOK; rw [punctPositionsP_eq]

/-! the theorems of C13 / C11, stated with the pinned inventories (what the checks evaluate on the implementation's output) -/

theorem verylow_post_pinned (t : Tree) (h : WF t = true) : verylowPostP (punctuationVerylow t) = true := by
  rw [verylowPostP_eq]; exact TT.Props.C13.verylow_post t h

theorem root_post_pinned (t : Tree) (h : WF t = true) : rootPostP (punctuationRoot t) = true := by
  rw [rootPostP_eq]; exact TT.Props.C13.root_post t h

theorem sym_ok_pinned (relc : Option Str) (t : Tree) (hu : uidsOK t = true) (h : WF t = true) :
    symetrifyOKP relc t (punctuationSymetrify relc t) = true := by
  rw [symetrifyOKP_eq]; exact TT.Props.C13.sym_ok relc t hu h

theorem punctuationDelete_spec_pinned (t : Tree) (h : WF t = true) : deletePunctOKP t (punctuationDelete t).1 = true := by
  rw [deletePunctOKP_eq]; exact TT.Props.C11.punctuationDelete_spec t h

example : isPunctWordP (Tree.leaf 1 { label := "$(".toList, word := some "/".toList }) = true := by decide

end TT.Props.Pinned
