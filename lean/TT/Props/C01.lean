/-
  C01 — readers decode every well-formed treebank file faithfully (theorems being added)
-/
import TT.Spec.Formats
import TT.IO.Read
namespace TT.Props.C01
open TT TT.Tree TT.Spec

end TT.Props.C01
