/-
  C01 — readers decode every well-formed treebank file faithfully
-/
import TT.Spec.Formats
import TT.IO.Read
import TT.Lemmas.Read
import TT.Lemmas.GramOut
namespace TT.Props.C01
open TT TT.Tree TT.Spec
open TT.Lemmas.Read

/-! ### lexer -/

theorem lex_classes (s : Str) : ∀ tc ∈ bracketLex s,
    (tc.2 = .lrb → tc.1 = ['(']) ∧ (tc.2 = .rrb → tc.1 = [')']) ∧
    (tc.2 = .ws → tc.1 ≠ [] ∧ ∀ c ∈ tc.1, pyIsSpace c = true) ∧
    (tc.2 = .token → tc.1 ≠ [] ∧ ∀ c ∈ tc.1, pyIsSpace c = false ∧ c ≠ '(' ∧ c ≠ ')') :=
  fun tc h => lexAux_classes s [] [] (by simp) (by simp) tc h

example : bracketLex "(S (A a)  b".toList =
    [(['('], .lrb), (['S'], .token), ([' '], .ws), (['('], .lrb), (['A'], .token), ([' '], .ws), (['a'], .token),
     ([')'], .rrb), ([' ', ' '], .ws)] := by decide

/-- the lexer loses nothing but a trailing unterminated token / whitespace run -/
theorem lex_concat (s : Str) : ∃ tail, ((bracketLex s).map (·.1)).flatten ++ tail = s ∧ ∀ c ∈ tail, c ≠ '(' ∧ c ≠ ')' := by
  obtain ⟨tail, h1, h2⟩ := lexAux_concat s [] [] (.inl rfl) (by simp) (by simp)
  exact ⟨tail, by simpa [bracketLex] using h1, h2⟩

/-! ### automaton -/

-- the automaton never yields from inside a group and rejects an unterminated group
theorem brLoop_open_group_rejected (o : InOpts) (fuel : Nat) (st : BrState) (h : st.level ≠ 0) :
    brLoop o (fuel + 1) st [] = .error .valueError := by
  simp [brLoop, h]

example : readBrackets {} "(S (A a)".toList = .error .valueError := by rfl

/-- whitespace between tokens is irrelevant except between POS and word (state 2 -> 3) -/
theorem brStep_ws (o : InOpts) (st : BrState) (w : Str) (h : st.state ≠ 2) : brStep o st (w, .ws) = .ok (st, none) := by
  simp [brStep, h]

/-- the same reader option has the same effect in every format: one function of the raw label -/
theorem gf_split_uniform (sep raw : Str) :
    (gfSplitLabel sep raw).2 = (parseLabel sep raw).gf ∧
    (gfSplitLabel sep raw).1 = (parseLabel sep raw).label ++ (if (parseLabel sep raw).gapindex.isEmpty then [] else '=' :: (parseLabel sep raw).gapindex) ++
       (if (parseLabel sep raw).coindex.isEmpty then [] else '-' :: (parseLabel sep raw).coindex) ++ (if (parseLabel sep raw).headmarker then ['\''] else []) :=
  ⟨rfl, rfl⟩

/-- sentence ids: the k-th tree delivered by the bracket reader has id firstId + k -/
theorem readBrackets_sids (o : InOpts) (text : Str) (r : List (Nat × Tree)) (h : readBrackets o text = .ok r) :
    r.map (·.1) = List.range' (o.firstId.getD 1) r.length :=
  brLoop_sids o (o.firstId.getD 1) _ _ _ r ⟨by simp, by simp⟩ h

example : (readBrackets { firstId := some 7 } "(A a)(B b) (C (D d))".toList).map (·.map (·.1)) = .ok [7, 8, 9] := by rfl

/-! ### MAIN: the automaton against the specification grammar -/

/-- exact form of both MAIN theorems: with an option record that neither rewrites labels (`gfSplit`, `replaceParens`) nor
    runs the discobracket post-pass, the reader returns exactly the trees of the grammar, numbered from `firstId`,
    and fails exactly when the grammar rejects the text -/
theorem readBrackets_eq_spec (o : InOpts) (hg : o.gfSplit = false) (hr : o.replaceParens = false) (hd : o.disco = false) (text : Str) :
    match specBrackets o.emptyPos text with
    | some ts => readBrackets o text = .ok ((List.range' (o.firstId.getD 1) ts.length).zip ts)
    | none => ∃ e, readBrackets o text = .error e :=
  readBrackets_spec o hg hr hd text

/-- MAIN (soundness of the automaton against the specification grammar, for EVERY text, without options that rewrite labels):
    whatever the reader accepts is what the grammar says, and what the grammar rejects the reader rejects.
    NOTE: the only change to the given statement text is the binder `∀ i : Nat` (with a bare `∀ i` the index type of
    `r[i]?` is still unknown when `fun x => … x.2 …` is elaborated and Lean rejects the statement: "type of x is not known"). -/
theorem readBrackets_sound (text : Str) (ep : Bool) (r : List (Nat × Tree))
    (h : readBrackets { emptyPos := ep } text = .ok r) :
    ∃ ts, specBrackets ep text = some ts ∧ ts.length = r.length ∧ ∀ i : Nat, (r[i]?).map (fun x => sameTree x.2 ((ts[i]?).getD x.2)) = (r[i]?).map fun _ => true := by
  have hS := readBrackets_spec { emptyPos := ep } rfl rfl rfl text
  simp only at hS
  cases hsp : specBrackets ep text with
  | none =>
    rw [hsp] at hS
    obtain ⟨e, he⟩ := hS
    rw [he] at h; cases h
  | some ts =>
    rw [hsp] at hS
    replace hS : readBrackets { emptyPos := ep } text = .ok ((List.range' 1 ts.length).zip ts) := hS
    rw [hS] at h
    cases h
    refine ⟨ts, rfl, by simp, ?_⟩
    intro i
    cases hx : ((List.range' 1 ts.length).zip ts)[i]? with
    | none => rfl
    | some x =>
      have := (List.getElem?_zip_eq_some.1 hx).2
      simp [this, sameTree_refl]

/-- a concrete text with an empty-POS token, junk between the groups and a label-less root meets the hypothesis -/
example : ∃ r, readBrackets { emptyPos := true } "(S (NP (DT the) (NN cat)) (VP (VBZ sleeps)) (.))\n junk ((A a))".toList = .ok r ∧ r.length = 2 :=
  ⟨_, rfl, rfl⟩
example : (specBrackets true "(S (NP (DT the) (NN cat)) (VP (VBZ sleeps)) (.))\n junk ((A a))".toList).map List.length = some 2 := by
  decide +kernel

theorem readBrackets_rejects (text : Str) (ep : Bool) (hs : specBrackets ep text = none) :
    ∃ e, readBrackets { emptyPos := ep } text = .error e := by
  have hS := readBrackets_spec { emptyPos := ep } rfl rfl rfl text
  simp only at hS
  rw [hs] at hS
  exact hS

/-- concrete texts the grammar rejects: a word after a child, an unterminated second group -/
example : specBrackets false "(S (A a) b)".toList = none := Option.isNone_iff_eq_none.1 (by decide +kernel)
example : specBrackets false "(S (A a)) (B".toList = none := Option.isNone_iff_eq_none.1 (by decide +kernel)
example : readBrackets {} "(S (A a) b)".toList = .error .valueError := by rfl

/-! ### export reader -/
open TT.Lemmas.GramOut in
theorem exportParseLine_v3_v4 (o : InOpts) (w le l m e : Str) (p : Nat)
    (hok : ∀ x ∈ [w, le, l, m, e], x ≠ [] ∧ ∀ c ∈ x, pyIsSpace c = false) (hp : p = 0 ∨ (500 ≤ p ∧ p < 1000))
    (hm : pyIsDigit m = false) (hle : pyIsDigit e = false) (hgf : o.gfSplit = false) :
    (exportParseLine o (unwords [w, l, m, e, natToStr p])).map (fun f => (f.word, f.lemma, f.label, f.morph, f.edge, f.parent))
        = .ok (w, DEFAULT_LEMMA, l, m, e, p) ∧
    (exportParseLine o (unwords [w, le, l, m, e, natToStr p])).map (fun f => (f.word, f.lemma, f.label, f.morph, f.edge, f.parent))
        = .ok (w, le, l, m, e, p) := by
  have hpok : natToStr p ≠ [] ∧ ∀ c ∈ natToStr p, pyIsSpace c = false := ⟨natToStr_ne_nil p, natToStr_noSpace p⟩
  have h3 : splitWs (unwords [w, l, m, e, natToStr p]) = [w, l, m, e, natToStr p] := by
    apply splitWs_unwords
    intro s hs
    simp only [List.mem_cons, List.not_mem_nil, or_false] at hs
    rcases hs with rfl | rfl | rfl | rfl | rfl
    · exact hok _ (by simp)
    · exact hok _ (by simp)
    · exact hok _ (by simp)
    · exact hok _ (by simp)
    · exact hpok
  have h4 : splitWs (unwords [w, le, l, m, e, natToStr p]) = [w, le, l, m, e, natToStr p] := by
    apply splitWs_unwords
    intro s hs
    simp only [List.mem_cons, List.not_mem_nil, or_false] at hs
    rcases hs with rfl | rfl | rfl | rfl | rfl | rfl
    · exact hok _ (by simp)
    · exact hok _ (by simp)
    · exact hok _ (by simp)
    · exact hok _ (by simp)
    · exact hok _ (by simp)
    · exact hpok
  have hrange : (!((decide (500 ≤ p) && decide (p < 1000)) || p == 0)) = false := by
    rcases hp with rfl | ⟨h1, h2⟩ <;> simp [*]
  constructor
  · simp [exportParseLine, h3, pyIsDigit_natToStr, strToNat_natToStr, hgf, hrange, Except.map]
  · simp [exportParseLine, h4, hle, strToNat_natToStr, hgf, hrange, Except.map]

example : (exportParseLine {} "Haus NN Nom.Sg OA 501".toList).map (fun f => (f.word, f.lemma, f.label, f.morph, f.edge, f.parent))
    = .ok ("Haus".toList, DEFAULT_LEMMA, "NN".toList, "Nom.Sg".toList, "OA".toList, 501) := by rfl

end TT.Props.C01
