/-
  C08 / C09, wave 15 (audit B, second pass): the file theorems on the quantified domain `TreebankOK ts`.
  * C08 missing 1: `pmcfg_file_binarized`, `pmcfg_file_raw` without format hypotheses on the written grammar;
  * C09 missing 2: `decPmcfg_write_lig_treebank`, `pmcfg_lig_lexrule_treebank(_raw)`, `readRcg_writeRcg_lig_treebank`,
    `grammar_file_idempotent_treebank`;
  * the grammar files of the same sentences in another order: `writeRcg_perm`, `writeRcg_treebank_perm`; for PMCFG the
    line-set statement is false (numbering), `writePmcfg_perm` / `writePmcfg_treebank_perm` say what holds;
  * C09 missing 1: `binarizeGrammar_cf` (corrected: identity linearizations, `r ≠ optimal`; counterexamples to the
    proposed form), `lopar_roundtrip_treebank_raw`, `lopar_roundtrip_treebank_of_cf`, `lopar_roundtrip_treebank`.
  Helpers: `TT/Lemmas/More15b.lean`; specification side: `TT/Spec/More15b.lean` (`idLin`).
-/
import TT.Props.C09Full
import TT.Props.C08Net
import TT.Lemmas.More15b
import TT.Props.C18Local
namespace TT.Props.C09Treebank
open TT TT.Tree TT.Spec TT.Lemmas.GramOut TT.Lemmas.Unbin TT.Lemmas.More12c TT.Props.C09Rcg TT.Props.C09Full
open TT.Props.C08Net (rebuild rebuild_masses nodeMassOK_congr binarized_balance extractAll_balance extractAll_func_ne_nil)

/-! ## C08 #6: the count field of written PMCFG files, on the quantified domain -/

/-- `C08Net.pmcfg_file_binarized` with the format hypotheses `hl`, `hlin` on the WRITTEN grammar replaced by
    `TreebankOK ts` (a hypothesis on the trees only).  `hat` stays: `C08Net.cexAt` shows it is needed. -/
theorem pmcfg_file_binarized (ts : List Tree) (h : TreebankOK ts) (r : Reordering) (mo : Option MarkovOpts)
    (hat : ∀ t ∈ ts, ∀ s ∈ t.subtrees, s.fields.label.head? ≠ some '@') :
    ∃ rs, decPmcfg (writePmcfg false (binarizeGrammar r mo (extractAll ts).1) (extractAll ts).2).1 = some rs ∧
      nodeMassOK ts (rebuild rs) = true ∧
      massBalanced (rebuild rs) (extractAll ts).2 (ts.map (·.fields.label)) = true := by
  refine ⟨_, (pmcfg_roundtrip_treebank ts h r mo).1, ?_, ?_⟩
  · rw [nodeMassOK_congr ts _ _ (fun x => (rebuild_masses _ x).1)]
    unfold nodeMassOK
    simp only [List.all_eq_true, beq_iff_eq]
    intro x hx
    rw [List.mem_eraseDups] at hx
    obtain ⟨t, ht, hxt⟩ := List.mem_flatMap.1 hx
    obtain ⟨s, hs, rfl⟩ := List.mem_map.1 hxt
    rw [TT.Props.C08.binarizeGrammar_lhsMass r mo _ _ (hat t ht s (List.mem_filter.1 hs).1) (extractAll_func_ne_nil ts)]
    have := TT.Props.C06Count.nodeMassOK_extractAll ts
    unfold nodeMassOK at this
    simp only [List.all_eq_true, beq_iff_eq] at this
    exact this _ (List.mem_eraseDups.2 hx)
  · unfold massBalanced
    simp only [List.all_eq_true, beq_iff_eq]
    intro x _
    rw [(rebuild_masses _ x).1, (rebuild_masses _ x).2]
    exact binarized_balance ts r mo x

theorem pmcfg_file_raw (ts : List Tree) (h : TreebankOK ts) :
    ∃ rs, decPmcfg (writePmcfg false (extractAll ts).1 (extractAll ts).2).1 = some rs ∧
      nodeMassOK ts (rebuild rs) = true ∧
      massBalanced (rebuild rs) (extractAll ts).2 (ts.map (·.fields.label)) = true := by
  refine ⟨_, (pmcfg_roundtrip_treebank ts h .none none).2.1, ?_, ?_⟩
  · rw [nodeMassOK_congr ts _ _ (fun x => (rebuild_masses _ x).1)]
    exact TT.Props.C06Count.nodeMassOK_extractAll ts
  · unfold massBalanced
    simp only [List.all_eq_true, beq_iff_eq]
    intro x _
    rw [(rebuild_masses _ x).1, (rebuild_masses _ x).2]
    exact extractAll_balance ts x

/-! ## C09 #10 on the quantified domain: lexical rules embedded in the grammar file -/

/-- the PMCFG file with embedded lexical rules, for any grammar and lexicon meeting the round-trip hypotheses -/
theorem decPmcfg_write_lig_of (g : Grammar) (lex : Lexicon) (h : RoundTripOK g lex) :
    decPmcfg (writePmcfg true g lex).1 = some (addLexRules g lex).rules := by
  rw [writePmcfg_lig]
  have hA : AllPairs (fun f l => (f ≠ [] ∧ ∀ s ∈ f, s ≠ [] ∧ ∀ c ∈ s, pyIsSpace c = false) ∧
      ∀ arg ∈ l, ∀ v ∈ arg, 0 ≤ v.1) (addLexRules g lex) := by
    apply AllPairs_addLexRules
    · intro e he le hle
      have hr : (e.1, le.1, (le.2.map (·.2)).sum) ∈ g.rules := by
        simp only [Grammar.rules, List.mem_flatMap, List.mem_map]
        exact ⟨e, he, le, hle, rfl⟩
      obtain ⟨h1, h2, _, _⟩ := h.rules _ hr
      exact ⟨⟨by intro e0; simp [e0] at h2, fun s hs => OKw_of_RcgLabelOK s (h1 s hs)⟩, h.pos e he le hle⟩
    · intro e he tc htc
      obtain ⟨h1, h2, _, h4⟩ := h.lexfmt e he
      refine ⟨⟨by simp, ?_⟩, ?_⟩
      · intro s hs
        simp only [List.mem_cons, List.not_mem_nil, or_false] at hs
        rcases hs with rfl | rfl
        · exact h4 tc htc
        · exact ⟨h1, h2⟩
      · intro arg harg v hv
        simp only [List.mem_singleton] at harg
        subst harg
        simp only [List.mem_singleton] at hv
        subst hv
        exact Int.le_refl 0
  have hR := (AllPairs_rules _ _).1 hA
  exact decPmcfg_writePmcfg _ lex (fun r hr => (hR r hr).1) (fun r hr => (hR r hr).2)

/-- `C09Full.decPmcfg_write_lig` on the quantified domain: the PMCFG file written with `lex_in_grammar` for the grammar
    extracted from a treebank, raw or binarized in any mode, decodes to the rules of the grammar extended by the lexical
    rules of the extracted lexicon -/
theorem decPmcfg_write_lig_treebank (ts : List Tree) (h : TreebankOK ts) (r : Reordering) (mo : Option MarkovOpts) :
    decPmcfg (writePmcfg true (extractAll ts).1 (extractAll ts).2).1 =
      some (addLexRules (extractAll ts).1 (extractAll ts).2).rules ∧
    decPmcfg (writePmcfg true (binarizeGrammar r mo (extractAll ts).1) (extractAll ts).2).1 =
      some (addLexRules (binarizeGrammar r mo (extractAll ts).1) (extractAll ts).2).rules :=
  ⟨decPmcfg_write_lig_of _ _ (treebank_RoundTripOK ts h r mo).1, decPmcfg_write_lig_of _ _ (treebank_RoundTripOK ts h r mo).2⟩

/-- `C09Full.pmcfg_lig_lexrule` on the quantified domain (what `P.C08.lexrules` sums): for every word/tag pair of the
    extracted lexicon whose function `[t, w]` is not a function of the grammar there is exactly one rule `t -> w` in the
    decoded file, with the pair's count.  `hfresh` stays a hypothesis (`C09Full.lean:214`). -/
theorem pmcfg_lig_lexrule_treebank (ts : List Tree) (h : TreebankOK ts) (r : Reordering) (mo : Option MarkovOpts) :
    ∃ rules, decPmcfg (writePmcfg true (binarizeGrammar r mo (extractAll ts).1) (extractAll ts).2).1 = some rules ∧
      ∀ w t, (∀ e ∈ binarizeGrammar r mo (extractAll ts).1, e.1 ≠ [t, w]) → 0 < lexCount (extractAll ts).2 w t →
        rules.filter (fun r => r.1 == [t, w]) = [([t, w], [[(0, 0)]], lexCount (extractAll ts).2 w t)] :=
  have h2 := (treebank_RoundTripOK ts h r mo).2
  ⟨_, decPmcfg_write_lig_of _ _ h2, fun w t hf hp => lexrule_unique _ _ w t h2.gn hf h2.lexnd h2.lexnd2 hp⟩

theorem pmcfg_lig_lexrule_treebank_raw (ts : List Tree) (h : TreebankOK ts) :
    ∃ rules, decPmcfg (writePmcfg true (extractAll ts).1 (extractAll ts).2).1 = some rules ∧
      ∀ w t, (∀ e ∈ (extractAll ts).1, e.1 ≠ [t, w]) → 0 < lexCount (extractAll ts).2 w t →
        rules.filter (fun r => r.1 == [t, w]) = [([t, w], [[(0, 0)]], lexCount (extractAll ts).2 w t)] :=
  have h1 := (treebank_RoundTripOK ts h .none none).1
  ⟨_, decPmcfg_write_lig_of _ _ h1, fun w t hf hp => lexrule_unique _ _ w t h1.gn hf h1.lexnd h1.lexnd2 hp⟩

/-- `C09Full.readRcg_writeRcg_lig` on the quantified domain.  RCG writes the words as labels, so the words must be labels
    RCG can carry (`hwords`; `C09Full.lean:263`: a word ending in a digit is not re-read) - a hypothesis on the tokens,
    none on the grammar. -/
theorem readRcg_writeRcg_lig_treebank (ts : List Tree) (h : TreebankOK ts)
    (hwords : ∀ t ∈ ts, ∀ s ∈ t.subtrees, s.isLeaf = true → RcgLabelOK (s.fields.word.getD []) = true)
    (r : Reordering) (mo : Option MarkovOpts) :
    (∃ g2, readRcg (writeRcg true (extractAll ts).1 (extractAll ts).2).1 [] = some (g2, []) ∧
      g2.rules = (addLexRules (extractAll ts).1 (extractAll ts).2).rules) ∧
    (∃ g2, readRcg (writeRcg true (binarizeGrammar r mo (extractAll ts).1) (extractAll ts).2).1 [] = some (g2, []) ∧
      g2.rules = (addLexRules (binarizeGrammar r mo (extractAll ts).1) (extractAll ts).2).rules) := by
  obtain ⟨h1, h2⟩ := treebank_RoundTripOK ts h r mo
  have hw : ∀ e ∈ (extractAll ts).2, RcgLabelOK e.1 = true ∧ ∀ tc ∈ e.2, RcgLabelOK tc.1 = true :=
    TT.Lemmas.More15b.extractAll_lex_PQ (fun w => RcgLabelOK w = true) (fun t => RcgLabelOK t = true) ts
      (fun t ht => ⟨(h t ht).1, fun s hs hl => ⟨hwords t ht s hs hl, (h t ht).2.2.1 s hs⟩⟩)
  exact ⟨(readRcg_writeRcg_lig _ _ h1.gn h1.rules hw).2, (readRcg_writeRcg_lig _ _ h2.gn h2.rules hw).2⟩

/-- `C09Full.grammar_file_idempotent` for treebank grammars -/
theorem grammar_file_idempotent_treebank (ts : List Tree) (h : TreebankOK ts) (r : Reordering) (mo : Option MarkovOpts) :
    (readRcg (writeRcg false (binarizeGrammar r mo (extractAll ts).1) (extractAll ts).2).1
        (lexLines (extractAll ts).2)).map (fun p => writeRcg false p.1 p.2) =
      some (writeRcg false (binarizeGrammar r mo (extractAll ts).1) (extractAll ts).2) :=
  have h2 := (treebank_RoundTripOK ts h r mo).2
  grammar_file_idempotent _ _ h2.gn h2.rules h2.lexfmt h2.lexnd h2.lexnd2

/-! ### instances: the discontinuous tree of `C06` (`TreebankOK [C06.exT]`: `C09Full.lean:465`) -/

theorem exT_ok : TreebankOK [C06.exT] := by unfold TreebankOK; decide +kernel
example : ∀ t ∈ [C06.exT], ∀ s ∈ t.subtrees, s.fields.label.head? ≠ some '@' := by decide
example := pmcfg_file_binarized [C06.exT] exT_ok .optimal (some ⟨1, 1, false⟩) (by decide)
example := pmcfg_file_raw [C06.exT] exT_ok
example := decPmcfg_write_lig_treebank [C06.exT] exT_ok .optimal (some ⟨1, 1, false⟩)
example := pmcfg_lig_lexrule_treebank [C06.exT] exT_ok .optimal none
example : ∀ t ∈ [C06.exT], ∀ s ∈ t.subtrees, s.isLeaf = true → RcgLabelOK (s.fields.word.getD []) = true := by decide
example := readRcg_writeRcg_lig_treebank [C06.exT] exT_ok (by decide) .optimal (some ⟨1, 1, false⟩)
example := grammar_file_idempotent_treebank [C06.exT] exT_ok .leftright none

/-! ## the grammar files of a treebank given in another order (RCG and PMCFG twins of `C18Local.writeLopar_perm`) -/

open TT.Props.C18Local (rules_perm extractAll_sameMap_perm gramWF_extractAll exTa exTb)

/-- RCG: two well-formed grammars that are the same finite map are written as the same clause lines up to their order
    (one line per rule, no numbering); the lexicon file is the same -/
theorem writeRcg_perm (g g' : Grammar) (lex : Lexicon) (h : GramWF g) (h' : GramWF g') (e : SameMap g g') :
    (writeRcg false g lex).1.Perm (writeRcg false g' lex).1 ∧ (writeRcg false g lex).2 = (writeRcg false g' lex).2 :=
  ⟨(rules_perm g g' h h' e).map _, rfl⟩

/-- the same sentences in another order: the same RCG grammar file up to the order of lines -/
theorem writeRcg_treebank_perm (ts ts' : List Tree) (lex : Lexicon) (h : ts.Perm ts') :
    (writeRcg false (extractAll ts).1 lex).1.Perm (writeRcg false (extractAll ts').1 lex).1 :=
  (writeRcg_perm _ _ lex (gramWF_extractAll ts) (gramWF_extractAll ts') (extractAll_sameMap_perm ts ts' h)).1

example : (writeRcg false (extractAll [exTa, exTb]).1 []).1.Perm (writeRcg false (extractAll [exTb, exTa]).1 []).1 ∧
    (writeRcg false (extractAll [exTa, exTb]).1 []).1 ≠ (writeRcg false (extractAll [exTb, exTa]).1 []).1 :=
  ⟨writeRcg_treebank_perm _ _ [] (List.Perm.swap exTb exTa []), by decide +kernel⟩

/-- PMCFG: the statement "the same lines up to their order" is FALSE - the file numbers its functions (`fun1`, `fun2`,
    ...) and sequences (`s1`, ...) in the order of the rules, so another order of the sentences renumbers them -/
example : ¬ (writePmcfg false (extractAll [exTa, exTb]).1 []).1.Perm (writePmcfg false (extractAll [exTb, exTa]).1 []).1 := by
  decide +kernel

/-- PMCFG, what does hold: the two files DECODE (independent decoder `decPmcfg`) to the same rules with the same counts
    up to their order.  Format hypotheses on both grammars as in `C09.decPmcfg_write'`. -/
theorem writePmcfg_perm (g g' : Grammar) (lex : Lexicon) (h : GramWF g) (h' : GramWF g') (e : SameMap g g')
    (hl : ∀ e ∈ g, e.1 ≠ [] ∧ ∀ s ∈ e.1, s ≠ [] ∧ ∀ c ∈ s, pyIsSpace c = false)
    (hlin : ∀ e ∈ g, ∀ le ∈ e.2, ∀ arg ∈ le.1, ∀ v ∈ arg, 0 ≤ v.1)
    (hl' : ∀ e ∈ g', e.1 ≠ [] ∧ ∀ s ∈ e.1, s ≠ [] ∧ ∀ c ∈ s, pyIsSpace c = false)
    (hlin' : ∀ e ∈ g', ∀ le ∈ e.2, ∀ arg ∈ le.1, ∀ v ∈ arg, 0 ≤ v.1) :
    ∃ rs rs', decPmcfg (writePmcfg false g lex).1 = some rs ∧ decPmcfg (writePmcfg false g' lex).1 = some rs' ∧
      rs.Perm rs' ∧ (writePmcfg false g lex).2 = (writePmcfg false g' lex).2 :=
  ⟨g.rules, g'.rules, TT.Props.C09.decPmcfg_write' g lex hl hlin, TT.Props.C09.decPmcfg_write' g' lex hl' hlin',
    rules_perm g g' h h' e, rfl⟩

theorem TreebankOK_perm (ts ts' : List Tree) (p : ts.Perm ts') (h : TreebankOK ts) : TreebankOK ts' :=
  fun t ht => h t (p.mem_iff.2 ht)

/-- the same sentences in another order: the PMCFG files of the two extracted grammars decode to the same rules up to
    order -/
theorem writePmcfg_treebank_perm (ts ts' : List Tree) (lex : Lexicon) (p : ts.Perm ts') (h : TreebankOK ts) :
    ∃ rs rs', decPmcfg (writePmcfg false (extractAll ts).1 lex).1 = some rs ∧
      decPmcfg (writePmcfg false (extractAll ts').1 lex).1 = some rs' ∧ rs.Perm rs' := by
  have key : ∀ g lex', RoundTripOK g lex' → decPmcfg (writePmcfg false g lex).1 = some g.rules := by
    intro g lex' hg
    apply decPmcfg_writePmcfg g lex
    · intro r hr
      obtain ⟨h1, h2, _, _⟩ := hg.rules r hr
      refine ⟨by intro e0; simp [e0] at h2, fun s hs => OKw_of_RcgLabelOK s (h1 s hs)⟩
    · intro r hr ld hld
      obtain ⟨e, he, le, hle, _, h2⟩ := mem_rules g r hr
      rw [h2] at hld
      exact hg.pos e he le hle ld hld
  exact ⟨_, _, key _ _ (treebank_RoundTripOK ts h .none none).1,
    key _ _ (treebank_RoundTripOK ts' (TreebankOK_perm ts ts' p h) .none none).1,
    rules_perm _ _ (gramWF_extractAll ts) (gramWF_extractAll ts') (extractAll_sameMap_perm ts ts' p)⟩

example : TreebankOK [exTa, exTb] := by unfold TreebankOK; decide +kernel
example := writePmcfg_treebank_perm [exTa, exTb] [exTb, exTa] [] (List.Perm.swap exTb exTa []) (by unfold TreebankOK; decide +kernel)

/-! ## C09 missing 1: LoPar on the quantified domain -/

open TT.Lemmas.More15b in
/-- CORRECTED form of the proposed `binarizeGrammar_cf`.  As proposed (`AllPairs Proper g`, `isContextFree g`) it is
    FALSE (examples below): a proper one-argument rule whose right-hand-side elements do not stand in their order gets a
    rest of fan-out 2.  What extraction gives at a node of a continuous tree is the identity linearization `idLin`; for
    such grammars the left-to-right binarization (reordering `none` / `leftright`), with every label mode, is
    context-free again. -/
theorem binarizeGrammar_cf (r : Reordering) (hr : r ≠ .optimal) (mo : Option MarkovOpts) (g : Grammar)
    (hp : AllPairs Proper g) (hid : AllPairs (fun f l => l = idLin (f.length - 1)) g) :
    isContextFree (binarizeGrammar r mo g) = true :=
  binarizeGrammar_cf_id r hr mo g hp hid

/-- `S -> A B C` with the one-argument linearization `B A C`: proper, context-free, the binarized grammar is not -/
def cexCf1 : Grammar :=
  [(["S".toList, "A".toList, "B".toList, "C".toList], [([[(1, 0), (0, 0), (2, 0)]], [(VertKey.default, 1)])])]
example : AllPairs Proper cexCf1 ∧ isContextFree cexCf1 = true ∧
    isContextFree (binarizeGrammar .none none cexCf1) = false := by
  refine ⟨(AllPairs_rules Proper _).2 (by decide), by decide, by decide⟩
/-- the same for the optimal reordering: `S -> A B C D E` with `A C B D E` -/
def cexCf2 : Grammar :=
  [(["S".toList, "A".toList, "B".toList, "C".toList, "D".toList, "E".toList],
    [([[(0, 0), (2, 0), (1, 0), (3, 0), (4, 0)]], [(VertKey.default, 1)])])]
example : AllPairs Proper cexCf2 ∧ isContextFree cexCf2 = true ∧
    isContextFree (binarizeGrammar .optimal none cexCf2) = false := by
  refine ⟨(AllPairs_rules Proper _).2 (by decide), by decide, by decide⟩
/-- the identity linearization of rank 5, all modes (the optimal reordering is NOT covered by the theorem; here it
    reorders the right-hand side to `A E B C D` and the result is context-free) -/
def exCf3 : Grammar :=
  [(["S".toList, "A".toList, "B".toList, "C".toList, "D".toList, "E".toList], [(idLin 5, [(VertKey.default, 2)])])]
example : isContextFree (binarizeGrammar .leftright (some ⟨1, 2, false⟩) exCf3) = true :=
  binarizeGrammar_cf _ (by decide) _ _ ((AllPairs_rules Proper _).2 (by decide))
    ((AllPairs_rules (fun f l => l = idLin (f.length - 1)) _).2 (by decide))
example : isContextFree (binarizeGrammar .optimal none exCf3) = true := by decide

/-- the three LoPar decodings for any grammar the writer accepts, under the round-trip hypotheses and "every function
    has a left-hand side" -/
theorem lopar_roundtrip_of (g : Grammar) (lex : Lexicon) (h : RoundTripOK g lex) (hne : ∀ e ∈ g, e.1 ≠ [])
    (hlab : ∀ e ∈ g, LabF e.1) (hcf : isContextFree g = true) :
    ∃ files, writeLopar g lex = .ok files ∧
      decLoparGram files.gram = some (g.rules.map fun (f, _, c) => (f, c)) ∧
      decLex files.lex = some lex ∧
      decCountLines files.start =
        some (((g.map fun (f, _) => f.head?.getD []).eraseDups.filter fun s =>
          !(g.flatMap fun (f, _) => f.drop 1).contains s).map fun s => (s, lhsMass g s)) := by
  obtain ⟨files, hw⟩ := TT.Lemmas.Lopar12.writeLopar_ok_of_isCF g lex hcf
  have hl : ∀ e ∈ g, e.1 ≠ [] ∧ ∀ s ∈ e.1, s ≠ [] ∧ ∀ c ∈ s, pyIsSpace c = false :=
    fun e he => ⟨hne e he, fun s hs => OKw_of_RcgLabelOK s (hlab e he s hs)⟩
  exact ⟨files, hw, C09.decLoparGram_write g lex files hw hl,
    C09.decLex_lopar g lex files hw h.lexfmt h.lexnd h.lexnd2, lopar_start_decode g lex files hw hl⟩

/-- LoPar on the quantified domain, raw grammar: for a treebank of continuous trees the writer accepts the extracted
    grammar and the three files decode to its rules with counts, the lexicon, and the start symbols with their counts -/
theorem lopar_roundtrip_treebank_raw (ts : List Tree) (h : TreebankOK ts) (hc : ∀ t ∈ ts, continuous t = true) :
    ∃ files, writeLopar (extractAll ts).1 (extractAll ts).2 = .ok files ∧
      decLoparGram files.gram = some ((extractAll ts).1.rules.map fun (f, _, c) => (f, c)) ∧
      decLex files.lex = some (extractAll ts).2 ∧
      decCountLines files.start =
        some ((((extractAll ts).1.map fun (f, _) => f.head?.getD []).eraseDups.filter fun s =>
          !((extractAll ts).1.flatMap fun (f, _) => f.drop 1).contains s).map fun s =>
            (s, lhsMass (extractAll ts).1 s)) := by
  have hl := extractAll_labels ts (fun t ht => (h t ht).2.2.1)
  exact lopar_roundtrip_of _ _ (treebank_RoundTripOK ts h .none none).1 (fun e he => (hl.1 e he).1)
    (fun e he => (hl.1 e he).2) ((TT.Props.C16More.extractAll_cf_iff ts).2 hc)

/-- binarized grammar, every mode: the format parts are discharged from the trees; acceptance (`hcf`) is what the writer
    tests first -/
theorem lopar_roundtrip_treebank_of_cf (ts : List Tree) (h : TreebankOK ts) (r : Reordering) (mo : Option MarkovOpts)
    (hcf : isContextFree (binarizeGrammar r mo (extractAll ts).1) = true) :
    ∃ files, writeLopar (binarizeGrammar r mo (extractAll ts).1) (extractAll ts).2 = .ok files ∧
      decLoparGram files.gram = some ((binarizeGrammar r mo (extractAll ts).1).rules.map fun (f, _, c) => (f, c)) ∧
      decLex files.lex = some (extractAll ts).2 ∧
      decCountLines files.start =
        some ((((binarizeGrammar r mo (extractAll ts).1).map fun (f, _) => f.head?.getD []).eraseDups.filter fun s =>
          !((binarizeGrammar r mo (extractAll ts).1).flatMap fun (f, _) => f.drop 1).contains s).map fun s =>
            (s, lhsMass (binarizeGrammar r mo (extractAll ts).1) s)) := by
  have hl := extractAll_labels ts (fun t ht => (h t ht).2.2.1)
  have hp := extractAll_proper ts (fun t ht => ⟨(h t ht).1, (h t ht).2.1⟩)
  exact lopar_roundtrip_of _ _ (treebank_RoundTripOK ts h r mo).2
    (TT.Lemmas.More15b.binarizeGrammar_func_ne_nil r mo _ hp) (binarizeGrammar_labels r mo _ hl.1 hl.2) hcf

/-- binarized grammar, left-to-right binarization (`r ≠ optimal`), every label mode: acceptance from
    `binarizeGrammar_cf`; `hid` = every extracted rule has the identity linearization (true of continuous trees: the
    children are ordered by their leftmost token; not yet a theorem about `linOf`, see the example below) -/
theorem lopar_roundtrip_treebank (ts : List Tree) (h : TreebankOK ts) (r : Reordering) (hr : r ≠ .optimal)
    (mo : Option MarkovOpts) (hid : AllPairs (fun f l => l = idLin (f.length - 1)) (extractAll ts).1) :
    ∃ files, writeLopar (binarizeGrammar r mo (extractAll ts).1) (extractAll ts).2 = .ok files ∧
      decLoparGram files.gram = some ((binarizeGrammar r mo (extractAll ts).1).rules.map fun (f, _, c) => (f, c)) ∧
      decLex files.lex = some (extractAll ts).2 ∧
      decCountLines files.start =
        some ((((binarizeGrammar r mo (extractAll ts).1).map fun (f, _) => f.head?.getD []).eraseDups.filter fun s =>
          !((binarizeGrammar r mo (extractAll ts).1).flatMap fun (f, _) => f.drop 1).contains s).map fun s =>
            (s, lhsMass (binarizeGrammar r mo (extractAll ts).1) s)) :=
  lopar_roundtrip_treebank_of_cf ts h r mo
    (binarizeGrammar_cf r hr mo _ (extractAll_proper ts (fun t ht => ⟨(h t ht).1, (h t ht).2.1⟩)) hid)

/-- two continuous trees (`C18Local.exTa`, `exTb`) and a flat one of rank 4 -/
def exFlat : Tree :=
  node { label := "S".toList }
    [leaf 1 { label := "D".toList, word := some "the".toList }, leaf 2 { label := "A".toList, word := some "old".toList },
     leaf 3 { label := "N".toList, word := some "dog".toList }, leaf 4 { label := "V".toList, word := some "barks".toList }]
example : TreebankOK [exTa, exFlat, exTb] := by unfold TreebankOK; decide +kernel
example : ∀ t ∈ [exTa, exFlat, exTb], continuous t = true := by decide
example : AllPairs (fun f l => l = idLin (f.length - 1)) (extractAll [exTa, exFlat, exTb]).1 :=
  (AllPairs_rules _ _).2 (by decide +kernel)
example := lopar_roundtrip_treebank_raw [exTa, exFlat, exTb] (by unfold TreebankOK; decide +kernel) (by decide)
example := lopar_roundtrip_treebank [exTa, exFlat, exTb] (by unfold TreebankOK; decide +kernel) .leftright (by decide)
  (some ⟨1, 1, false⟩) ((AllPairs_rules _ _).2 (by decide +kernel))

end TT.Props.C09Treebank
